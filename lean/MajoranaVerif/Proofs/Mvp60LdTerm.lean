/-
  Proofs/Mvp60LdTerm.lean — package R60d (totality): on a straight-line program with memory reads and `ret` every run of the
  MVP-6.0 model ends (every number K ≥ 1 of execute and write units): a measure over the whole pipeline decreases with every
  tick that does not end the run.
-/
import MajoranaVerif.Proofs.Mvp60LdLive
open GoInt

set_option linter.unusedSimpArgs false
set_option linter.unusedVariables false

namespace Proofs.Mvp60Ld
open Model Model.Mvp60 Proofs.Mvp60Sl Proofs.Mmu
open Model.Seq (App Halt Arch stepArch)

/-- the decode unit moves entries from the decode bus to the control bus (or drops pcs past the end) -/
theorem decodeLoop_count (app : App) (ctx : Model.Context) (c : Int) :
    ∀ (n : Nat) (du du' : DecodeUnit) (inBus inBus' : BufferedBus Word) (outBus outBus' : BufferedBus Runner),
    decodeLoop app ctx c n du inBus outBus = .ok (du', inBus', outBus') →
    inBus'.inside.length + outBus'.inside.length ≤ inBus.inside.length + outBus.inside.length ∧
    outBus.inside.length ≤ outBus'.inside.length := by
  intro n
  induction n with
  | zero =>
    intro du du' inBus inBus' outBus outBus' hr
    simp only [decodeLoop, pure, Except.pure, Except.ok.injEq, Prod.mk.injEq] at hr
    obtain ⟨_, rfl, rfl⟩ := hr
    exact ⟨Nat.le_refl _, Nat.le_refl _⟩
  | succ n ih =>
    intro du du' inBus inBus' outBus outBus' hr
    simp only [decodeLoop] at hr
    cases hq : inBus.queue with
    | nil =>
      simp only [get_none _ hq, pure, Except.pure, Except.ok.injEq, Prod.mk.injEq] at hr
      obtain ⟨_, rfl, rfl⟩ := hr
      exact ⟨Nat.le_refl _, Nat.le_refl _⟩
    | cons p q =>
      simp only [get_some _ p q hq] at hr
      have hin : inBus.inside.length = ({ inBus with queue := q } : BufferedBus Word).inside.length + 1 := by
        simp only [BufferedBus.inside, hq, List.length_append, List.length_cons, List.length_map]; omega
      split at hr
      · simp only [pure, Except.pure, Except.ok.injEq, Prod.mk.injEq] at hr
        obtain ⟨_, rfl, rfl⟩ := hr
        exact ⟨by omega, Nat.le_refl _⟩
      · simp only [bind, Except.bind] at hr
        split at hr
        · cases hr
        · rename_i i hi
          have hadd : ∀ r : Runner, (outBus.add r c).inside.length = outBus.inside.length + 1 := by
            intro r; rw [inside_add]; simp only [List.length_append, List.length_cons, List.length_nil]
          split at hr
          · simp only [pure, Except.pure, Except.ok.injEq, Prod.mk.injEq] at hr
            obtain ⟨_, rfl, rfl⟩ := hr
            exact ⟨by rw [hadd]; omega, by rw [hadd]; omega⟩
          · split at hr
            · simp only [pure, Except.pure, Except.ok.injEq, Prod.mk.injEq] at hr
              obtain ⟨_, rfl, rfl⟩ := hr
              exact ⟨by rw [hadd]; omega, by rw [hadd]; omega⟩
            · obtain ⟨t1, t2⟩ := ih _ du' _ inBus' _ outBus' hr
              rw [hadd] at t1 t2
              exact ⟨by omega, by omega⟩

/-- a runner of a chain is the instruction at its position -/
theorem chain_idx (app : App) : ∀ (l : List Runner) (n : Nat), Chain app n l → ∀ r ∈ l,
    ∃ p, p < l.length ∧ app.instrs[n + p]? = some r.instr := by
  intro l
  induction l with
  | nil => intro n _ r hr; cases hr
  | cons a as ih =>
    intro n hch r hr
    rcases List.mem_cons.mp hr with rfl | hr
    · exact ⟨0, by simp, hch.1.2⟩
    · obtain ⟨p, hp, hi⟩ := ih (n + 1) hch.2 r hr
      exact ⟨p + 1, by simp only [List.length_cons]; omega, by rw [show n + (p + 1) = n + 1 + p by omega]; exact hi⟩

/-- the facts about the front of the pipeline and the bus sizes that make it move -/
structure LiveF (app : App) (s : State) (nt : Nat) : Prop where
  cdue : Due s.controlBus (s.cycles + 1)
  ddue : Due s.decodeBus (s.cycles + 1)
  cql : 1 ≤ s.controlBus.queueLength
  dql : 1 ≤ s.decodeBus.queueLength
  xql : 1 ≤ s.executeBus.queueLength
  wql : 1 ≤ s.writeBus.queueLength
  xbl : s.executeBus.bufferLength = 2
  wbl : 1 ≤ s.writeBus.bufferLength
  pcap : 1 ≤ s.cuPendings.length
  fuOk : FuOk s.fu
  retSeen : s.du.ret = true → ∃ (k : Nat) (i : Gen.Instr), k < nt + (runners s).length ∧ app.instrs[k]? = some i ∧ isRet i = true
  nwus : 1 ≤ s.wus.length
  neus : 1 ≤ s.eus.length

/-- **the measure**: the fetch unit and the decode bus (R60c's `m1`), the control unit and its bus, the back end -/
def psiN (app : App) (s : State) : Nat :=
  500 * m1 app s.fu s.decodeBus.inside.length + 406 * (s.cuPendings.items.length + s.controlBus.inside.length) + psiE s

/-! ### the phases of a tick -/

theorem connected_liveO {app : App} {s : State} {nt : Nat} (hf : LiveF app s nt) (hl : LiveU s) :
    LiveF app (connected s) nt ∧ LiveU (connected s) ∧ psiN app (connected s) = psiN app s ∧
    ((connected s).executeBus.queue = [] → s.executeBus.inside = []) ∧
    ((connected s).writeBus.queue = [] → s.writeBus.inside = []) ∧
    ((connected s).controlBus.queue = [] → s.controlBus.inside = []) ∧
    ((connected s).decodeBus.queue = [] → s.decodeBus.inside = []) := by
  have hrun : runners (connected s) = runners s := by simp only [runners, connected, inside_connect]
  have mono : ∀ {α : Type} (b : BufferedBus α), Due b (s.cycles + 1) → Due (b.connect (s.cycles + 1)) (s.cycles + 1 + 1) :=
    fun b hd => (hd.connect (s.cycles + 1)).mono (by omega)
  have cn : ∀ {α : Type} (b : BufferedBus α), 1 ≤ b.queueLength → Due b (s.cycles + 1) → (b.connect (s.cycles + 1)).queue = [] →
      b.inside = [] := by
    intro α b hq hd he
    apply Classical.byContradiction
    intro hne
    exact connect_nonempty b (s.cycles + 1) hq hd hne he
  refine ⟨⟨mono _ hf.cdue, mono _ hf.ddue, ?_, ?_, ?_, ?_, ?_, ?_, hf.pcap, hf.fuOk, by rw [hrun]; exact hf.retSeen, hf.nwus, hf.neus⟩,
    ⟨mono _ hl.xdue, mono _ hl.wdue, ?_, hl.pmw⟩, ?_, cn _ hf.xql hl.xdue, cn _ hf.wql hl.wdue, cn _ hf.cql hf.cdue, cn _ hf.dql hf.ddue⟩
  · show 1 ≤ (s.controlBus.connect (s.cycles + 1)).queueLength
    rw [(connect_lengths _ _).1]; exact hf.cql
  · show 1 ≤ (s.decodeBus.connect (s.cycles + 1)).queueLength
    rw [(connect_lengths _ _).1]; exact hf.dql
  · show 1 ≤ (s.executeBus.connect (s.cycles + 1)).queueLength
    rw [(connect_lengths _ _).1]; exact hf.xql
  · show 1 ≤ (s.writeBus.connect (s.cycles + 1)).queueLength
    rw [(connect_lengths _ _).1]; exact hf.wql
  · show (s.executeBus.connect (s.cycles + 1)).bufferLength = 2
    rw [(connect_lengths _ _).2]; exact hf.xbl
  · show 1 ≤ (s.writeBus.connect (s.cycles + 1)).bufferLength
    rw [(connect_lengths _ _).2]; exact hf.wbl
  · show BackU s.ctx (s.executeBus.connect (s.cycles + 1)).inside (s.eus.map heldAt) (s.writeBus.connect (s.cycles + 1)).inside
    rw [inside_connect, inside_connect]; exact hl.backU
  · simp only [psiN, psiE, connected, inside_connect]

theorem fetchCycle_pend (app : App) (s s2 : State) (hr : fetchCycle app s = .ok s2) : s2.pendings = s.pendings := by
  unfold fetchCycle at hr
  simp only [bind, Except.bind] at hr
  split at hr
  · cases hr
  · simp only [pure, Except.pure, Except.ok.injEq] at hr; subst hr; rfl

theorem fetch_liveO {app : App} {a0 : Arch} {c : Word} {s s2 : State} {nt : Nat} (hsm : app.instrs.length < 250)
    (h : RelO app a0 c s nt) (hf : LiveF app s nt) (hl : LiveU s) (hr : fetchCycle app s = .ok s2) :
    LiveF app s2 nt ∧ LiveU s2 ∧ psiN app s2 ≤ psiN app s ∧
    (psiN app s2 = psiN app s → s.decodeBus.inside ≠ [] ∨ s.fu.co = .done) ∧
    s2.decodeBus.queue = s.decodeBus.queue ∧
    (s.fu.co = .done → s2.fu.complete = s.fu.complete ∧ s2.decodeBus.inside = s.decodeBus.inside) := by
  obtain ⟨f2x, f2c, f2p, f2w, f2e, f2d, f2ctx, f2wus, f2cyc, f2eq⟩ := fetchCycle_frame app s s2 hr
  have f2pd := fetchCycle_pend app s s2 hr
  have hcl := h.front.clean
  have hpcs : Pcs app (nt + (runners s).length) s.fu (if s.fu.toCleanPending then [] else s.decodeBus.inside) 0 := by
    simp only [hcl, Bool.false_eq_true, if_false]; exact h.front.pcs
  obtain ⟨l1, l2, l3⟩ := fetchCore_live app s.cycles s.fu s2.fu s.mmu s2.mmu s.decodeBus s2.decodeBus hf.ddue hf.fuOk f2eq
  obtain ⟨m1a, m1b⟩ := fetchCore_m app hsm s.cycles _ s.fu s2.fu s.mmu s2.mmu s.decodeBus s2.decodeBus hpcs hf.fuOk h.front.dlen f2eq
  obtain ⟨q1, q2⟩ := fetchCore_queue app s.cycles s.fu s2.fu s.mmu s2.mmu s.decodeBus s2.decodeBus f2eq
  simp only [hcl, Bool.false_eq_true, if_false] at m1a m1b q2
  have hrun : runners s2 = runners s := by simp only [runners, f2x, f2c, f2p]
  have hpsiE : psiE s2 = psiE s := psiE_congr (by rw [f2x]) f2e (by rw [f2w])
  refine ⟨⟨by rw [f2c, f2cyc]; exact hf.cdue, by rw [f2cyc]; exact l1, by rw [f2c]; exact hf.cql, by rw [l3]; exact hf.dql,
      by rw [f2x]; exact hf.xql, by rw [f2w]; exact hf.wql, by rw [f2x]; exact hf.xbl, by rw [f2w]; exact hf.wbl,
      by rw [f2p]; exact hf.pcap, l2, by rw [hrun, f2d]; exact hf.retSeen, by rw [f2wus]; exact hf.nwus, by rw [f2e]; exact hf.neus⟩,
    hl.of_eq f2x f2w f2cyc f2ctx f2e f2pd, ?_, ?_, q1 hcl, q2⟩
  · simp only [psiN, hpsiE, f2p, f2c]; omega
  · intro heq
    apply Classical.byContradiction
    intro hne
    simp only [not_or] at hne
    have hdn : s.decodeBus.inside = [] := Classical.byContradiction (fun hc => hne.1 hc)
    have := m1b hdn hne.2
    simp only [psiN, hpsiE, f2p, f2c] at heq
    omega

theorem decode_liveO {app : App} {a0 : Arch} {c : Word} {s s3 : State} {nt : Nat} (hp : ProgLd app a0)
    (h : RelO app a0 c s nt) (h3 : RelO app a0 c s3 nt) (hf : LiveF app s nt) (hl : LiveU s) (hr : decodeCycle app s = .ok s3) :
    LiveF app s3 nt ∧ LiveU s3 ∧ psiN app s3 ≤ psiN app s ∧
    (s.controlBus.inside = [] → psiN app s3 = psiN app s → s.du.ret = true ∨ s.decodeBus.queue = []) ∧
    s3.controlBus.queue = s.controlBus.queue := by
  have hchain3 := h3.front.chain
  unfold decodeCycle decodeCore at hr
  by_cases hdr : s.du.ret = true
  · simp only [hdr, if_true, bind, Except.bind, pure, Except.pure, Except.ok.injEq] at hr
    subst hr
    exact ⟨hf, hl, Nat.le_refl _, fun _ _ => Or.inl hdr, rfl⟩
  · simp only [hdr, h.front.duOk, Bool.false_eq_true, if_false, bind, Except.bind] at hr
    split at hr
    · cases hr
    · rename_i v hv
      obtain ⟨du', d', c'⟩ := v
      simp only [pure, Except.pure, Except.ok.injEq] at hr
      subst hr
      obtain ⟨e1, e2, e3, e4, e5, e6⟩ := decodeLoop_live app s.ctx s.cycles _ s.du du' s.decodeBus d' s.controlBus c' hv
      obtain ⟨n1, n2⟩ := decodeLoop_count app s.ctx s.cycles _ s.du du' s.decodeBus d' s.controlBus c' hv
      have hq := decodeLoop_queue app s.ctx s.cycles _ s.du du' s.decodeBus d' s.controlBus c' hv
      have hcons := decodeLoop_consume app s.ctx s.cycles _ s.du du' s.decodeBus d' s.controlBus c' hv
      have hpsiE : psiE { s with du := du', decodeBus := d', controlBus := c' } = psiE s := rfl
      refine ⟨⟨e4 hf.cdue, ?_, by (show 1 ≤ c'.queueLength); rw [e3]; exact hf.cql, by (show 1 ≤ d'.queueLength); rw [e2]; exact hf.dql,
          hf.xql, hf.wql, hf.xbl, hf.wbl, hf.pcap, hf.fuOk, ?_, hf.nwus, hf.neus⟩, hl.of_eq rfl rfl rfl rfl rfl rfl, ?_, ?_, hq⟩
      · intro e he
        have he' : e ∈ d'.buffer := he
        rw [e1] at he'
        exact hf.ddue e he'
      · intro hret
        have hret' : du'.ret = true := hret
        rcases e5 hret' with h1 | ⟨r, hr1, hr2⟩
        · exact absurd h1 hdr
        · have hmem : r ∈ runners { s with du := du', decodeBus := d', controlBus := c' } := by
            simp only [runners, List.mem_append]; exact Or.inr hr1
          obtain ⟨p, hp1, hp2⟩ := chain_idx app _ nt hchain3 r hmem
          exact ⟨nt + p, r.instr, by omega, hp2, hr2⟩
      · simp only [psiN, hpsiE, m1]
        omega
      · intro hc0 heq
        right
        apply Classical.byContradiction
        intro hqne
        simp only [psiN, hpsiE, m1] at heq
        have hc0l : s.controlBus.inside.length = 0 := by rw [hc0]; rfl
        rcases hcons.2 hqne with h1 | ⟨h1, _, _⟩
        · have : c'.inside.length ≠ 0 := fun hz => h1 (List.length_eq_zero_iff.mp hz)
          have hx1 : ({ s with du := du', decodeBus := d', controlBus := c' } : State).controlBus.inside.length = c'.inside.length := rfl
          have hx2 : ({ s with du := du', decodeBus := d', controlBus := c' } : State).decodeBus.inside.length = d'.inside.length := rfl
          omega
        · have hx2 : ({ s with du := du', decodeBus := d', controlBus := c' } : State).decodeBus.inside.length = d'.inside.length := rfl
          have hx1 : ({ s with du := du', decodeBus := d', controlBus := c' } : State).controlBus.inside.length = c'.inside.length := rfl
          omega

theorem issued_ql {c p : Int} {pushed : List Runner} {x y : Model.Context × BufferedBus Runner} (h : Issued c p pushed x y) :
    y.2.queueLength = x.2.queueLength ∧ y.2.queue = x.2.queue := by
  induction h with
  | nil p x => exact ⟨rfl, rfl⟩
  | cons p r rs ctx bus y _ _ _ _ ih => exact ih

theorem issued_nil {c p : Int} {x y : Model.Context × BufferedBus Runner} (h : Issued c p [] x y) : y = x := by
  cases h; rfl

theorem issued_backU {c p : Int} {pushed : List Runner} {x y : Model.Context × BufferedBus Runner} (h : Issued c p pushed x y) :
    ∀ {H : List (Option Runner)} {W : List ExecCtx}, BackU x.1 x.2.inside H W → BackU y.1 y.2.inside H W := by
  induction h with
  | nil p x => intro H W hb; exact hb
  | cons p r rs ctx bus y _ _ _ _ ih =>
    intro H W hb
    apply ih
    simp only [inside_add]
    exact hb.issue r

theorem control_liveO {app : App} {a0 : Arch} {c : Word} {s : State} {nt : Nat}
    (h : RelO app a0 c s nt) (hf : LiveF app s nt) (hl : LiveU s) :
    LiveF app (controlCycle s) nt ∧ LiveU (controlCycle s) ∧ psiN app (controlCycle s) ≤ psiN app s ∧
    (psiN app (controlCycle s) = psiN app s → (controlCycle s).executeBus = s.executeBus ∧ (controlCycle s).ctx = s.ctx) ∧
    (controlCycle s).executeBus.queue = s.executeBus.queue := by
  obtain ⟨pushed, i1, i2, i3, fr, _⟩ := controlCycle_spec s h.pend
  have hbuf := issued_buffer i1
  have b4 := issued_inside i1
  have hql := issued_ql i1
  have hbl := issued_bl i1
  simp only at hbuf b4 hql hbl
  obtain ⟨c1, c2⟩ := controlCycle_cbus s
  have hrun : runners (controlCycle s) = runners s := by
    simp only [runners, b4, List.append_assoc]
    rw [← List.append_assoc pushed, i2]
  have hlen : pushed.length + (controlCycle s).cuPendings.items.length + (controlCycle s).controlBus.inside.length =
      s.cuPendings.items.length + s.controlBus.inside.length := by
    have := congrArg List.length i2
    simp only [List.length_append, List.length_map] at this
    exact this
  have hpsiU : psiU (controlCycle s).eus = psiU s.eus := by rw [fr.eus]
  refine ⟨⟨?_, by rw [fr.decodeBus, fr.cycles]; exact hf.ddue, by rw [c2]; exact hf.cql, by rw [fr.decodeBus]; exact hf.dql,
      by rw [hql.1]; exact hf.xql, by rw [fr.writeBus]; exact hf.wql, by rw [hbl]; exact hf.xbl, by rw [fr.writeBus]; exact hf.wbl,
      by rw [controlCycle_pcap]; exact hf.pcap, by rw [fr.fu]; exact hf.fuOk, by rw [hrun, fr.du]; exact hf.retSeen,
      by rw [fr.wus]; exact hf.nwus, by rw [fr.eus]; exact hf.neus⟩,
    ⟨?_, by rw [fr.writeBus, fr.cycles]; exact hl.wdue, ?_, ?_⟩, ?_, ?_, hql.2⟩
  · intro e he
    rw [c1] at he
    rw [fr.cycles]
    exact hf.cdue e he
  · intro e he
    rw [hbuf] at he
    rw [fr.cycles]
    rcases List.mem_append.mp he with he | he
    · exact hl.xdue e he
    · simp only [List.mem_map] at he
      obtain ⟨r, _, rfl⟩ := he
      exact Int.le_refl _
  · rw [fr.eus, fr.writeBus]
    exact issued_backU i1 hl.backU
  · intro p hp
    rw [fr.pendings] at hp
    rw [fr.eus]
    exact hl.pmw p hp
  · simp only [psiN, psiE, hpsiU, fr.fu, fr.decodeBus, fr.writeBus, b4, List.length_append]
    omega
  · intro heq
    simp only [psiN, psiE, hpsiU, fr.fu, fr.decodeBus, fr.writeBus, b4, List.length_append] at heq
    have hp0 : pushed = [] := List.length_eq_zero_iff.mp (by omega)
    subst hp0
    have := issued_nil i1
    simp only [Prod.mk.injEq] at this
    exact ⟨this.2, this.1⟩

/-- the number of decoded instructions is determined by the fetch unit's pc and the decode bus (up to "past the end") -/
theorem pcs_lt {app : App} {fu : FetchUnit} {D : List Word} {w1 w2 k : Nat} (hsm : app.instrs.length < 250)
    (h1 : Pcs app w1 fu D 0) (h2 : Pcs app w2 fu D 0) (hk : k < w1) (hkl : k < app.instrs.length) : k < w2 := by
  obtain ⟨a, _, a2, a3, a4, _⟩ := h1
  obtain ⟨b, _, b2, b3, b4, _⟩ := h2
  have hab : a + D.length = b + D.length := pcOf_inj _ _ (by omega) (by omega) (a2.symm.trans b2)
  have : a = b := by omega
  subst this
  rcases a3 with a3 | a3 <;> rcases b3 with b3 | b3 <;> omega

/-- the front facts after a step that leaves the fetch unit, the decode unit and the decode and control bus alone -/
theorem LiveF.step {app : App} {s s' : State} {nt nt' : Nat} (hsm : app.instrs.length < 250) (hf : LiveF app s nt)
    (fs : Front app s nt) (fs' : Front app s' nt')
    (hfu : s'.fu = s.fu) (hdu : s'.du = s.du) (hdb : s'.decodeBus = s.decodeBus) (hcb : s'.controlBus = s.controlBus)
    (hcp : s'.cuPendings = s.cuPendings) (hcy : s'.cycles = s.cycles) (hwu : s'.wus = s.wus) (hel : s'.eus.length = s.eus.length)
    (hxq : s'.executeBus.queueLength = s.executeBus.queueLength) (hxb : s'.executeBus.bufferLength = s.executeBus.bufferLength)
    (hwq : s'.writeBus.queueLength = s.writeBus.queueLength) (hwb : s'.writeBus.bufferLength = s.writeBus.bufferLength) :
    LiveF app s' nt' := by
  refine ⟨by rw [hcb, hcy]; exact hf.cdue, by rw [hdb, hcy]; exact hf.ddue, by rw [hcb]; exact hf.cql, by rw [hdb]; exact hf.dql,
    by rw [hxq]; exact hf.xql, by rw [hwq]; exact hf.wql, by rw [hxb]; exact hf.xbl, by rw [hwb]; exact hf.wbl,
    by rw [hcp]; exact hf.pcap, by rw [hfu]; exact hf.fuOk, ?_, by rw [hwu]; exact hf.nwus, by rw [hel]; exact hf.neus⟩
  intro hret
  rw [hdu] at hret
  obtain ⟨k, i, hk, hi, hr⟩ := hf.retSeen hret
  have hkl : k < app.instrs.length := by
    rcases Nat.lt_or_ge k app.instrs.length with h' | h'
    · exact h'
    · rw [List.getElem?_eq_none h'] at hi; cases hi
  have p1 := fs.pcs
  have p2 := fs'.pcs
  rw [hfu, hdb] at p2
  exact ⟨k, i, pcs_lt hsm p1 p2 hk hkl, hi, hr⟩

theorem LiveF.withMode {app : App} {s : State} {nt : Nat} (hf : LiveF app s nt) (md : Mode) : LiveF app { s with mode := md } nt :=
  ⟨hf.cdue, hf.ddue, hf.cql, hf.dql, hf.xql, hf.wql, hf.xbl, hf.wbl, hf.pcap, hf.fuOk, hf.retSeen, hf.nwus, hf.neus⟩

/-- `cycle++; writeBus.Connect(cycle)` -/
theorem tickW_liveO {app : App} {s : State} {nt : Nat} (hf : LiveF app s nt) (hl : LiveU s) :
    LiveF app { s with cycles := s.cycles + 1, writeBus := s.writeBus.connect (s.cycles + 1) } nt ∧
    LiveU { s with cycles := s.cycles + 1, writeBus := s.writeBus.connect (s.cycles + 1) } ∧
    psiN app { s with cycles := s.cycles + 1, writeBus := s.writeBus.connect (s.cycles + 1) } = psiN app s ∧
    ((s.writeBus.connect (s.cycles + 1)).queue = [] → s.writeBus.inside = []) := by
  refine ⟨⟨hf.cdue.mono (by show s.cycles + 1 ≤ s.cycles + 1 + 1; omega), hf.ddue.mono (by show s.cycles + 1 ≤ s.cycles + 1 + 1; omega),
      hf.cql, hf.dql, hf.xql, ?_, hf.xbl, ?_, hf.pcap, hf.fuOk, hf.retSeen, hf.nwus, hf.neus⟩,
    ⟨hl.xdue.mono (by show s.cycles + 1 ≤ s.cycles + 1 + 1; omega),
      (hl.wdue.connect (s.cycles + 1)).mono (by show s.cycles + 1 ≤ s.cycles + 1 + 1; omega), ?_, hl.pmw⟩, ?_, ?_⟩
  · show 1 ≤ (s.writeBus.connect (s.cycles + 1)).queueLength
    rw [(connect_lengths _ _).1]; exact hf.wql
  · show 1 ≤ (s.writeBus.connect (s.cycles + 1)).bufferLength
    rw [(connect_lengths _ _).2]; exact hf.wbl
  · show BackU s.ctx s.executeBus.inside (s.eus.map heldAt) (s.writeBus.connect (s.cycles + 1)).inside
    rw [inside_connect]; exact hl.backU
  · simp only [psiN, psiE, inside_connect]
  · intro he
    apply Classical.byContradiction
    intro hne
    exact connect_nonempty s.writeBus (s.cycles + 1) hf.wql hl.wdue hne he

/-- the result of a tick that goes on -/
def Next (app : App) (a0 : Arch) (c : Word) (s s' : State) : Prop :=
  ∃ nt', RelO app a0 c s' nt' ∧ ModeOk app s' nt' ∧ LiveF app s' nt' ∧ LiveU s' ∧ (s'.mode = .retB ∨ psiN app s' < psiN app s)

theorem goRetB_liveO {app : App} {a0 : Arch} {c : Word} (hp : ProgLd app a0) {s0 s s' : State} {nt : Nat} {ev : Event}
    (h : RelO app a0 c s nt) (hra : RetAt app nt) (heu : ∀ eu ∈ s.eus, eu.co = .none) (hf : LiveF app s nt) (hl : LiveU s)
    (hr : goRetB s = .ok (s', ev)) : ev ≠ .running ∨ Next app a0 c s0 s' := by
  unfold goRetB at hr
  split at hr
  · simp only [pure, Except.pure, Except.ok.injEq, Prod.mk.injEq] at hr
    obtain ⟨rfl, rfl⟩ := hr
    exact Or.inr ⟨nt, h.withMode .retB (Or.inr (Or.inr rfl)), Or.inr (Or.inr ⟨rfl, hra, heu⟩), hf.withMode .retB,
      hl.of_eq rfl rfl rfl rfl rfl rfl, Or.inl rfl⟩
  · rename_i hc
    simp only [Bool.or_eq_true, Bool.not_eq_true', not_or, Bool.not_eq_false] at hc
    obtain ⟨rfl, _⟩ := finish_simO app a0 hp c s s' ev .ret nt h heu hc.2 hr
    exact Or.inl (fun hc => by cases hc)

theorem goRetA_liveO {app : App} {a0 : Arch} {c : Word} (hp : ProgLd app a0) {s0 s s' : State} {nt : Nat} {ev : Event}
    (h : RelO app a0 c s nt) (hra : RetAt app nt) (hf : LiveF app s nt) (hl : LiveU s) (hps : psiN app s < psiN app s0)
    (hr : goRetA s = .ok (s', ev)) : ev ≠ .running ∨ Next app a0 c s0 s' := by
  unfold goRetA at hr
  split at hr
  · simp only [pure, Except.pure, Except.ok.injEq, Prod.mk.injEq] at hr
    obtain ⟨rfl, rfl⟩ := hr
    refine Or.inr ⟨nt, h.withMode .retA (Or.inr (Or.inl rfl)), Or.inr (Or.inl ⟨rfl, hra⟩), hf.withMode .retA,
      hl.of_eq rfl rfl rfl rfl rfl rfl, Or.inr ?_⟩
    have : psiN app { s with mode := .retA } = psiN app s := rfl
    omega
  · rename_i hany
    have heu : ∀ eu ∈ s.eus, eu.co = .none := by
      intro eu he
      have h1 : ¬ (s.eus.any (fun eu => !eu.isEmpty) = true) := hany
      simp only [List.any_eq_true, not_exists, not_and, Bool.not_eq_true', Bool.not_eq_false] at h1
      have := h1 eu he
      simpa [ExecUnit.isEmpty] using this
    obtain ⟨f1, l1, _, _⟩ := tickW_liveO hf hl
    exact goRetB_liveO hp (RelOx.tickW h (s.cycles + 1) (s.cycles + 1)) hra heu f1 l1 hr

theorem eusCycle_len (app : App) : ∀ (n i : Nat) (s s' : State) (acc acc' : EuAcc), eusCycle app n i s acc = .ok (s', acc') →
    s'.eus.length = s.eus.length := by
  intro n
  induction n with
  | zero =>
    intro i s s' acc acc' hr
    simp only [eusCycle, pure, Except.pure, Except.ok.injEq, Prod.mk.injEq] at hr
    rw [← hr.1]
  | succ n ih =>
    intro i s s' acc acc' hr
    simp only [eusCycle, bind, Except.bind] at hr
    split at hr
    · cases hr
    · rename_i v hv
      obtain ⟨s1, out⟩ := v
      have hl := euCycle_len app s s1 i _ hv
      simp only at hr
      split at hr
      · simp only [pure, Except.pure, Except.ok.injEq, Prod.mk.injEq] at hr; rw [← hr.1]; exact hl
      · exact (ih _ _ _ _ _ hr).trans hl
      · exact (ih _ _ _ _ _ hr).trans hl
      · exact (ih _ _ _ _ _ hr).trans hl

/-- **a normal tick ends the run, or goes on with a smaller measure** -/
theorem tick_normal (app : App) (a0 : Arch) (hp : ProgLd app a0) (c : Word) (s s' : State) (nt : Nat) (ev : Event)
    (h : RelO app a0 c s nt) (hmode : s.mode = .normal) (hrp : RetPend app (s.eus.map heldAt) nt)
    (hf : LiveF app s nt) (hl : LiveU s) (hr : cycleM app s = .ok (s', ev)) : ev ≠ .running ∨ Next app a0 c s s' := by
  have hsm := hp.small
  rw [cycleM_normal_eq app s hmode] at hr
  simp only [bind, Except.bind] at hr
  have r1 := connected_relO h
  obtain ⟨f1, l1, p1, q1x, q1w, q1c, q1d⟩ := connected_liveO hf hl
  split at hr
  · cases hr
  · rename_i s2 h2
    have r2 := fetch_relO hsm r1 h2
    obtain ⟨f2, l2, p2, e2, fq2, fd2⟩ := fetch_liveO hsm r1 f1 l1 h2
    obtain ⟨k2x, k2c, k2p, k2w, k2e, k2d, k2ctx, k2wus, k2cyc, _⟩ := fetchCycle_frame app _ s2 h2
    have k2m : s2.mode = s.mode := fetchCycle_mode app (connected s) s2 h2
    split at hr
    · cases hr
    · rename_i s3 h3
      have r3 := decode_relO hp r2 h3
      obtain ⟨f3, l3, p3, e3, cq3⟩ := decode_liveO hp r2 r3 f2 l2 h3
      obtain ⟨k3e, k3m⟩ := decodeCycle_keep app s2 s3 h3
      obtain ⟨k3x, k3p, k3w, _, k3fu, k3ctx, k3wus, k3cyc, _, _⟩ := decodeCycle_frame app s2 s3 h3
      have r4 := control_relO hp r3
      obtain ⟨f4, l4, p4, e4, xq4⟩ := control_liveO r3 f3 l3
      obtain ⟨_, _, _, _, fr, _⟩ := controlCycle_spec s3 r3.pend
      have hrp4 : RetPend app ((controlCycle s3).eus.map heldAt) nt := by rw [fr.eus, k3e, k2e]; exact hrp
      have hm4 : (controlCycle s3).mode = .normal := by rw [fr.mode, k3m, k2m]; exact hmode
      split at hr
      · cases hr
      · rename_i v hv
        obtain ⟨s5, acc⟩ := v
        simp only at hr
        obtain ⟨eerr, efl, hm5, nt5, _, r5, hA, hB⟩ := eusCycle_simO app a0 hp c _ 0 _ s5 {} acc nt (by omega) r4
          (fun hc => by simp at hc) (fun _ => hrp4) hv
        obtain ⟨l5, k5, p5⟩ := eusCycle_liveO app a0 hp c (controlCycle s3).eus.length 0 (controlCycle s3) s5 {} acc nt
          (by omega) r4 l4 hv
        have hel5 : s5.eus.length = (controlCycle s3).eus.length := eusCycle_len app _ _ _ _ _ _ hv
        have f5 : LiveF app s5 nt5 := f4.step hsm r4.front r5.front k5.fu k5.du k5.decodeBus k5.controlBus k5.cuPendings k5.cycles
          k5.wus hel5 k5.xql k5.xbl k5.wql k5.wbl
        have hp5 : psiN app s5 ≤ psiN app (controlCycle s3) ∧ (psiE s5 < psiE (controlCycle s3) → psiN app s5 < psiN app (controlCycle s3)) := by
          have hE : psiE s5 ≤ psiE (controlCycle s3) := by
            rcases p5 with p5 | ⟨⟨b1, b2, b3, _⟩, _⟩
            · omega
            · have := psiE_of_stall b1 b2 b3; omega
          simp only [psiN, k5.fu, k5.decodeBus, k5.controlBus, k5.cuPendings]
          exact ⟨by omega, fun hlt => by omega⟩
        have eerr' : acc.err = false := eerr
        have efl' : acc.flush = false := efl
        simp only [afterEus, eerr', Bool.false_eq_true, if_false, bind, Except.bind] at hr
        split at hr
        · cases hr
        · rename_i s6 h6
          obtain ⟨r6, k6e, k6m⟩ := wusCycle_simO app a0 hp c nt5 s5 s6 r5 h6
          obtain ⟨l6, k6, p6, q6⟩ := wusCycle_liveO app a0 hp c nt5 s5 s6 r5 l5 h6
          have f6 : LiveF app s6 nt5 := f5.step hsm r5.front r6.front k6.fu k6.du k6.decodeBus k6.controlBus k6.cuPendings k6.cycles
            k6.wus (by rw [k6.eus]) (by rw [k6.executeBus]) (by rw [k6.executeBus]) k6.wql k6.wbl
          have hp6 : psiN app s6 ≤ psiN app s5 ∧ (psiE s6 < psiE s5 → psiN app s6 < psiN app s5) := by
            simp only [psiN, k6.fu, k6.decodeBus, k6.controlBus, k6.cuPendings]
            exact ⟨by omega, fun hlt => by omega⟩
          cases hret : acc.ret with
          | true =>
            simp only [hret, if_true] at hr
            -- the `ret` has been executed in this tick: the units' measure went down
            have hstr : psiE s5 < psiE (controlCycle s3) := by
              rcases p5 with p5 | ⟨_, b7⟩
              · exact p5
              · rw [hret] at b7; simp at b7
            have := hp5.2 hstr
            exact goRetA_liveO hp r6 (hA hret) f6 l6 (by omega) hr
          | false =>
            simp only [hret, efl', Bool.false_eq_true, if_false] at hr
            have hrp6 : RetPend app (s6.eus.map heldAt) nt5 := by rw [k6e]; exact hB hret
            split at hr
            · -- the run has fallen off the end
              rename_i hemp
              simp only [isEmpty, Bool.and_eq_true, decide_eq_true_eq] at hemp
              obtain ⟨⟨⟨⟨⟨⟨⟨hcomp, hcu⟩, _⟩, hd⟩, hcb⟩, hxb⟩, hwb⟩, heu⟩ := hemp
              have hev : ev = .done .offEnd := by
                unfold finish at hr
                rw [flush_ok (cfg := Model.Mvp60.cfg) (L := 64) (n := 16) cfgD (by decide) r6.l3.wf r6.l3.coh] at hr
                simp only [bind, Except.bind, pure, Except.pure, Except.ok.injEq, Prod.mk.injEq] at hr
                exact hr.2.symm
              exact Or.inl (by rw [hev]; intro hc; cases hc)
            · rename_i hnemp
              simp only [pure, Except.pure, Except.ok.injEq, Prod.mk.injEq] at hr
              obtain ⟨rfl, rfl⟩ := hr
              refine Or.inr ⟨nt5, r6, Or.inl ⟨by rw [k6m, hm5]; exact hm4, hrp6⟩, f6, l6, Or.inr ?_⟩
              -- a tick in which nothing decreases finds the machine empty
              apply Classical.byContradiction
              intro hnlt
              exfalso
              apply hnemp
              have hq1 : psiN app s6 = psiN app s5 := by omega
              have hq2 : psiN app s5 = psiN app (controlCycle s3) := by omega
              have hq3 : psiN app (controlCycle s3) = psiN app s3 := by omega
              have hq4 : psiN app s3 = psiN app s2 := by omega
              have hq5 : psiN app s2 = psiN app (connected s) := by omega
              -- the write units took nothing
              have hw5 : s5.writeBus.queue = [] := by
                apply Classical.byContradiction
                intro hne
                have := hp6.2 (q6 f5.nwus hne)
                omega
              -- no unit made progress
              obtain ⟨⟨b1, b2, b3, b4, b5, b6⟩, _⟩ : StallAll (controlCycle s3) s5 0 (controlCycle s3).eus.length ∧ acc.ret = ({} : EuAcc).ret := by
                rcases p5 with p5 | p5
                · have := hp5.2 p5; omega
                · exact p5
              have hw4 : (controlCycle s3).writeBus.queue = [] := by rw [← b3]; exact hw5
              have hwc : (connected s).writeBus.queue = [] := by rw [← k2w, ← k3w, ← fr.writeBus]; exact hw4
              have hWs : s.writeBus.inside = [] := q1w hwc
              have hW4 : (controlCycle s3).writeBus.inside = [] := by
                rw [fr.writeBus, k3w, k2w]; show (s.writeBus.connect (s.cycles + 1)).inside = []
                rw [inside_connect]; exact hWs
              have hidle : ∀ k, k < (controlCycle s3).eus.length → ∃ eu, (controlCycle s3).eus[k]? = some eu ∧ eu.co = .none ∧
                  (controlCycle s3).executeBus.queue = [] := by
                intro k hk
                obtain ⟨eu, g1, g2⟩ := b6 k (Nat.zero_le _) (by omega)
                rcases g2 with ⟨g2, g3⟩ | ⟨g2, g3 | g3⟩
                · exact ⟨eu, g1, g2, g3⟩
                · exfalso
                  have hbuf : (controlCycle s3).writeBus.buffer = [] := by
                    simp only [BufferedBus.inside, List.append_eq_nil_iff, List.map_eq_nil_iff] at hW4
                    exact hW4.2
                  have hbl := f4.wbl
                  simp only [BufferedBus.canAdd, hbuf, List.length_nil, bne_eq_false_iff_eq] at g3
                  simp only [Int.natCast_zero] at g3
                  omega
                · exfalso
                  cases hpd : (controlCycle s3).pendings with
                  | nil => exact g3 hpd
                  | cons pe _ =>
                    obtain ⟨k', eu', g4, g5⟩ := l4.pmw pe (by rw [hpd]; exact List.mem_cons_self)
                    have hk' : k' < (controlCycle s3).eus.length := by
                      rcases Nat.lt_or_ge k' (controlCycle s3).eus.length with h' | h'
                      · exact h'
                      · rw [List.getElem?_eq_none h'] at g4; cases g4
                    obtain ⟨eu2, g6, g7⟩ := b6 k' (Nat.zero_le _) (by omega)
                    rw [g4] at g6; simp only [Option.some.injEq] at g6; subst g6
                    rcases g7 with ⟨g7, _⟩ | ⟨g7, _⟩ <;> simp only [mwBase, g7] at g5 <;> cases g5
              obtain ⟨eu0, _, _, hx4⟩ := hidle 0 (by have := f4.neus; omega)
              have hallnone : ∀ o ∈ (controlCycle s3).eus.map heldAt, o = none := by
                intro o ho
                simp only [List.mem_map] at ho
                obtain ⟨eu, hm, rfl⟩ := ho
                obtain ⟨k, hk, hk2⟩ := List.getElem_of_mem hm
                obtain ⟨eu', g1, g2, _⟩ := hidle k hk
                rw [List.getElem?_eq_getElem hk, hk2] at g1
                simp only [Option.some.injEq] at g1; subst g1
                simp only [heldAt, g2]
              -- the execute bus is empty
              have hx3 : s3.executeBus.queue = [] := by rw [← xq4]; exact hx4
              have hxc : (connected s).executeBus.queue = [] := by rw [← k2x, ← k3x]; exact hx3
              have hXs : s.executeBus.inside = [] := q1x hxc
              have hX3 : s3.executeBus.inside = [] := by
                rw [k3x, k2x]; show (s.executeBus.connect (s.cycles + 1)).inside = []
                rw [inside_connect]; exact hXs
              -- the control unit had nothing to issue
              obtain ⟨e4x, e4c⟩ := e4 hq3
              have hW3 : s3.writeBus.inside = [] := by rw [← fr.writeBus]; exact hW4
              have hnh : ∀ i, isDataHazard3 s3.ctx i = false := by
                intro i
                have hb := l3.backU
                rw [hX3, hW3] at hb
                exact hb.no_hazard (by rw [← fr.eus]; exact hallnone) i
              have hnone : ¬ (s3.cuPendings.items ≠ [] ∨ s3.controlBus.queue ≠ []) := by
                intro hne
                have := controlCycle_issues s3 hX3 f3.xbl r3.pend f3.pcap hne hnh
                rw [e4x] at this
                simp only [BufferedBus.inside, List.append_eq_nil_iff, List.map_eq_nil_iff] at hX3
                exact this hX3.2
              simp only [not_or, ne_eq, Classical.not_not] at hnone
              obtain ⟨hcp3, hcq3⟩ := hnone
              have hcc : (connected s).controlBus.queue = [] := by rw [← k2c, ← cq3]; exact hcq3
              have hCs : s.controlBus.inside = [] := q1c hcc
              have hC2 : s2.controlBus.inside = [] := by
                rw [k2c]; show (s.controlBus.connect (s.cycles + 1)).inside = []
                rw [inside_connect]; exact hCs
              have hcps : s.cuPendings.items = [] := by
                have : s3.cuPendings = s.cuPendings := by rw [k3p, k2p]; rfl
                rw [← this]; exact hcp3
              have hruns : runners s = [] := by
                simp only [runners, hXs, hcps, hCs, List.map_nil, List.append_nil]
              -- the decode unit had nothing to decode
              have hdq2 : s2.decodeBus.queue = [] := by
                rcases e3 hC2 hq4 with hret2 | hdq
                · exfalso
                  have hdu : s.du.ret = true := by rw [← hret2, k2d]; rfl
                  obtain ⟨k, i, hk, hi, hir⟩ := hf.retSeen hdu
                  rw [hruns] at hk
                  simp only [List.length_nil, Nat.add_zero] at hk
                  rcases hrp k i hi hir with h1 | ⟨x, hx, _⟩
                  · omega
                  · have := hallnone (some x) (by rw [fr.eus, k3e, k2e]; exact hx)
                    cases this
                · exact hdq
              have hdc : (connected s).decodeBus.queue = [] := by rw [← fq2]; exact hdq2
              have hDs : s.decodeBus.inside = [] := q1d hdc
              have hD1 : (connected s).decodeBus.inside = [] := by
                show (s.decodeBus.connect (s.cycles + 1)).inside = []
                rw [inside_connect]; exact hDs
              -- the fetch unit has stopped
              have hdone : (connected s).fu.co = .done := by
                rcases e2 hq5 with h1 | h1
                · exact absurd hD1 h1
                · exact h1
              obtain ⟨g1, g2⟩ := fd2 hdone
              have hcomp : s.fu.complete = true := hf.fuOk.1 hdone
              have hD2 : s2.decodeBus.inside = [] := by rw [g2]; exact hD1
              -- with an empty queue the decode unit changes nothing
              obtain ⟨_, _, _, _, _, _, _, _, _, hloop⟩ := decodeCycle_frame app s2 s3 h3
              have hD3 : s3.decodeBus.inside = [] ∧ s3.controlBus.inside = [] := by
                by_cases hdr : s2.du.ret = true
                · unfold decodeCycle decodeCore at h3
                  simp only [hdr, if_true, bind, Except.bind, pure, Except.pure, Except.ok.injEq] at h3
                  subst h3
                  exact ⟨hD2, hC2⟩
                · have hl3 := hloop (by simpa using hdr) r2.front.duOk
                  have := (decodeLoop_consume app s2.ctx s2.cycles _ s2.du s3.du s2.decodeBus s3.decodeBus s2.controlBus s3.controlBus hl3).1 hdq2
                  rw [this.1, this.2.1]
                  exact ⟨hD2, hC2⟩
              -- everything is empty
              simp only [isEmpty, Bool.and_eq_true, decide_eq_true_eq]
              refine ⟨⟨⟨⟨⟨⟨⟨?_, ?_⟩, ?_⟩, ?_⟩, ?_⟩, ?_⟩, ?_⟩, ?_⟩
              · rw [k6.fu, k5.fu, fr.fu, k3fu, g1]; exact hcomp
              · rw [k6.cuPendings, k5.cuPendings]
                have : (controlCycle s3).cuPendings.items = [] := by
                  have hi2 := (controlCycle_spec s3 r3.pend)
                  obtain ⟨pushed, i1, i2, _⟩ := hi2
                  have hl := congrArg List.length i2
                  simp only [List.length_append, List.length_map, hcp3, hD3.2, List.length_nil] at hl
                  exact List.length_eq_zero_iff.mp (by omega)
                simp only [Queue.len, this, List.length_nil]
                rfl
              · exact wus_all_empty s6 r6.wus
              · rw [k6.decodeBus, k5.decodeBus, fr.decodeBus]; exact isEmpty_of_inside _ hD3.1
              · rw [k6.controlBus, k5.controlBus]
                apply isEmpty_of_inside
                obtain ⟨pushed, i1, i2, _⟩ := controlCycle_spec s3 r3.pend
                have hl := congrArg List.length i2
                simp only [List.length_append, List.length_map, hcp3, hD3.2, List.length_nil] at hl
                exact List.length_eq_zero_iff.mp (by omega)
              · rw [k6.executeBus, b1, e4x]; exact isEmpty_of_inside _ hX3
              · apply isEmpty_of_inside
                have : s6.writeBus.inside = [] := by
                  have h1 : psiE s6 = psiE s5 := by
                    have := hp6.2; omega
                  have h2 : s5.writeBus.inside = [] := by rw [b3]; exact hW4
                  simp only [psiE, k6.executeBus, k6.eus, h2, List.length_nil] at h1
                  exact List.length_eq_zero_iff.mp (by omega)
                exact this
              · simp only [List.all_eq_true, ExecUnit.isEmpty, beq_iff_eq]
                intro eu he
                rw [k6.eus, b2] at he
                obtain ⟨k, hk, hk2⟩ := List.getElem_of_mem he
                obtain ⟨eu', g1', g2', _⟩ := hidle k hk
                rw [List.getElem?_eq_getElem hk, hk2] at g1'
                simp only [Option.some.injEq] at g1'; subst g1'
                exact g2'

/-- **a tick of the second drain loop after a `ret`**: the run ends, or less is left on the write bus -/
theorem tick_retB (app : App) (a0 : Arch) (hp : ProgLd app a0) (c : Word) (s s' : State) (nt : Nat) (ev : Event)
    (h : RelO app a0 c s nt) (hmode : s.mode = .retB) (hra : RetAt app nt) (heu : ∀ eu ∈ s.eus, eu.co = .none)
    (hf : LiveF app s nt) (hl : LiveU s) (hr : cycleM app s = .ok (s', ev)) :
    ev ≠ .running ∨ (RelO app a0 c s' nt ∧ s'.mode = .retB ∧ (∀ eu ∈ s'.eus, eu.co = .none) ∧ LiveF app s' nt ∧ LiveU s' ∧
      muW s' < muW s) := by
  have hsm := hp.small
  rw [cycleM_retB_eq app s hmode] at hr
  simp only [bind, Except.bind] at hr
  split at hr
  · cases hr
  · rename_i s1 h1
    obtain ⟨r1, k1e, _⟩ := wusCycle_simO app a0 hp c nt s s1 h h1
    obtain ⟨l1, k1, p1, q1⟩ := wusCycle_liveO app a0 hp c nt s s1 h hl h1
    have f1 : LiveF app s1 nt := hf.step hsm h.front r1.front k1.fu k1.du k1.decodeBus k1.controlBus k1.cuPendings k1.cycles
      k1.wus (by rw [k1.eus]) (by rw [k1.executeBus]) (by rw [k1.executeBus]) k1.wql k1.wbl
    have heu1 : ∀ eu ∈ s1.eus, eu.co = .none := by rw [k1e]; exact heu
    -- the queue only loses entries
    have hql : s1.writeBus.queue.length ≤ s.writeBus.queue.length ∧ (s.writeBus.queue ≠ [] → s1.writeBus.queue.length < s.writeBus.queue.length) := by
      have hb := k1.wbuf
      have e1 : s1.writeBus.inside.length = s1.writeBus.queue.length + s.writeBus.buffer.length := by
        simp only [BufferedBus.inside, List.length_append, List.length_map, hb]
      have e2 : s.writeBus.inside.length = s.writeBus.queue.length + s.writeBus.buffer.length := by
        simp only [BufferedBus.inside, List.length_append, List.length_map]
      simp only [psiE, k1.executeBus, k1.eus] at p1 q1
      exact ⟨by omega, fun hne => by have := q1 hf.nwus hne; omega⟩
    obtain ⟨f2, l2, _, _⟩ := tickW_liveO f1 l1
    unfold goRetB at hr
    split at hr
    · rename_i hcond
      simp only [pure, Except.pure, Except.ok.injEq, Prod.mk.injEq] at hr
      obtain ⟨rfl, rfl⟩ := hr
      refine Or.inr ⟨(RelOx.tickW r1 (s1.cycles + 1) (s1.cycles + 1)).withMode .retB (Or.inr (Or.inr rfl)), rfl, heu1,
        f2.withMode .retB, l2.of_eq rfl rfl rfl rfl rfl rfl, ?_⟩
      obtain ⟨moved, hm1, hm2⟩ := connect_split s1.writeBus (s1.cycles + 1)
      show 2 * (s1.writeBus.connect (s1.cycles + 1)).buffer.length + (s1.writeBus.connect (s1.cycles + 1)).queue.length < muW s
      have hb : s.writeBus.buffer.length = moved.length + (s1.writeBus.connect (s1.cycles + 1)).buffer.length := by
        rw [← k1.wbuf, hm1, List.length_append]
      rw [hm2, List.length_append, List.length_map]
      simp only [muW, hb]
      by_cases hq : s.writeBus.queue = []
      · have hq1 : s1.writeBus.queue = [] := by
          have : s1.writeBus.queue.length = 0 := by have := hql.1; rw [hq] at this; simpa using this
          exact List.length_eq_zero_iff.mp this
        have hne : (s1.writeBus.connect (s1.cycles + 1)).queue ≠ [] := by
          apply connect_nonempty _ _ f1.wql l1.wdue
          have hw : areWriteUnitsEmpty { s1 with cycles := s1.cycles + 1, writeBus := s1.writeBus.connect (s1.cycles + 1) } = true :=
            wus_all_empty _ r1.wus
          simp only [hw, Bool.not_true, Bool.false_or, Bool.not_eq_true'] at hcond
          intro hin
          have : (s1.writeBus.connect (s1.cycles + 1)).inside = [] := by rw [inside_connect]; exact hin
          simp only [BufferedBus.inside, List.append_eq_nil_iff, List.map_eq_nil_iff] at this
          simp only [BufferedBus.isEmpty, this.1, this.2, List.length_nil] at hcond
          revert hcond; decide
        rw [hm2, hq1, List.nil_append] at hne
        have : 1 ≤ moved.length := by
          cases moved with
          | nil => exact absurd rfl hne
          | cons x xs => simp
        rw [hq1, hq]; simp only [List.length_nil]; omega
      · have := hql.2 hq
        omega
    · rename_i hc
      simp only [Bool.or_eq_true, Bool.not_eq_true', not_or, Bool.not_eq_false] at hc
      obtain ⟨rfl, _⟩ := finish_simO app a0 hp c _ s' ev .ret nt (RelOx.tickW r1 (s1.cycles + 1) (s1.cycles + 1)) heu1 hc.2 hr
      exact Or.inl (fun hc => by cases hc)

theorem eusBusy_len (app : App) : ∀ (n i : Nat) (s s' : State) (e : Bool), eusCycleBusy app n i s = .ok (s', e) →
    s'.eus.length = s.eus.length := by
  intro n
  induction n with
  | zero =>
    intro i s s' e hr
    simp only [eusCycleBusy, pure, Except.pure, Except.ok.injEq, Prod.mk.injEq] at hr
    rw [← hr.1]
  | succ n ih =>
    intro i s s' e hr
    simp only [eusCycleBusy, bind, Except.bind] at hr
    split at hr
    · simp only [pure, Except.pure, Except.ok.injEq, Prod.mk.injEq] at hr; rw [← hr.1]
    · split at hr
      · exact ih _ _ _ _ hr
      · split at hr
        · cases hr
        · rename_i v hv
          obtain ⟨s1, out⟩ := v
          have hl := euCycle_len app s s1 i _ hv
          simp only at hr
          split at hr
          · simp only [pure, Except.pure, Except.ok.injEq, Prod.mk.injEq] at hr; rw [← hr.1]; exact hl
          · exact (ih _ _ _ _ hr).trans hl

/-- **a tick of the first drain loop after a `ret`**: the run ends, or goes on with a smaller measure (or in the second loop) -/
theorem tick_retA (app : App) (a0 : Arch) (hp : ProgLd app a0) (c : Word) (s s' : State) (nt : Nat) (ev : Event)
    (h : RelO app a0 c s nt) (hmode : s.mode = .retA) (hra : RetAt app nt)
    (hf : LiveF app s nt) (hl : LiveU s) (hr : cycleM app s = .ok (s', ev)) : ev ≠ .running ∨ Next app a0 c s s' := by
  have hsm := hp.small
  rw [cycleM_retA_eq app s hmode] at hr
  simp only [bind, Except.bind] at hr
  have rA := RelOx.tickW h (s.cycles + 1) (s.cycles + 1)
  obtain ⟨fA, lA, pA, qA⟩ := tickW_liveO hf hl
  split at hr
  · cases hr
  · rename_i v hv
    obtain ⟨s1, err⟩ := v
    obtain ⟨rfl, r1, _⟩ := eusBusy_simO app a0 hp c nt hra _ 0 _ s1 err (by simp only [Nat.zero_add]) rA hv
    obtain ⟨l1, k1, p1⟩ := eusBusy_liveO app a0 hp c s.eus.length 0 _ s1 false nt (by simp only [Nat.zero_add]) rA lA hv
    have hel1 := eusBusy_len app _ _ _ _ _ hv
    have f1 : LiveF app s1 nt := fA.step hsm rA.front r1.front k1.fu k1.du k1.decodeBus k1.controlBus k1.cuPendings k1.cycles
      k1.wus hel1 k1.xql k1.xbl k1.wql k1.wbl
    have hp1 : psiN app s1 ≤ psiN app s ∧ (psiE s1 < psiE { s with cycles := s.cycles + 1, writeBus := s.writeBus.connect (s.cycles + 1) } →
        psiN app s1 < psiN app s) := by
      have hE : psiE s1 ≤ psiE { s with cycles := s.cycles + 1, writeBus := s.writeBus.connect (s.cycles + 1) } := by
        rcases p1 with p1 | ⟨b1, b2, b3, _⟩
        · omega
        · have := psiE_of_stall b1 b2 b3; omega
      rw [← pA]
      simp only [psiN, k1.fu, k1.decodeBus, k1.controlBus, k1.cuPendings]
      exact ⟨by omega, fun hlt => by omega⟩
    simp only [Bool.false_eq_true, if_false] at hr
    split at hr
    · cases hr
    · rename_i s2 h2
      obtain ⟨r2, k2e, _⟩ := wusCycle_simO app a0 hp c nt s1 s2 r1 h2
      obtain ⟨l2, k2, p2, q2⟩ := wusCycle_liveO app a0 hp c nt s1 s2 r1 l1 h2
      have f2 : LiveF app s2 nt := f1.step hsm r1.front r2.front k2.fu k2.du k2.decodeBus k2.controlBus k2.cuPendings k2.cycles
        k2.wus (by rw [k2.eus]) (by rw [k2.executeBus]) (by rw [k2.executeBus]) k2.wql k2.wbl
      have hp2 : psiN app s2 ≤ psiN app s1 ∧ (psiE s2 < psiE s1 → psiN app s2 < psiN app s1) := by
        simp only [psiN, k2.fu, k2.decodeBus, k2.controlBus, k2.cuPendings]
        exact ⟨by omega, fun hlt => by omega⟩
      unfold goRetA at hr
      split at hr
      · rename_i hbusy
        simp only [pure, Except.pure, Except.ok.injEq, Prod.mk.injEq] at hr
        obtain ⟨rfl, rfl⟩ := hr
        refine Or.inr ⟨nt, r2.withMode .retA (Or.inr (Or.inl rfl)), Or.inr (Or.inl ⟨rfl, hra⟩), f2.withMode .retA,
          l2.of_eq rfl rfl rfl rfl rfl rfl, Or.inr ?_⟩
        have hm : psiN app { s2 with mode := .retA } = psiN app s2 := rfl
        rw [hm]
        -- a tick in which nothing decreases leaves no unit busy
        apply Classical.byContradiction
        intro hnlt
        have hq1 : psiN app s2 = psiN app s1 := by omega
        have hq2 : psiN app s1 = psiN app s := by omega
        have hw1 : s1.writeBus.queue = [] := by
          apply Classical.byContradiction
          intro hne
          have := hp2.2 (q2 f1.nwus hne)
          omega
        obtain ⟨b1, b2, b3, b4, b5, b6⟩ : _ ∧ _ ∧ _ ∧ _ ∧ _ ∧ _ := by
          rcases p1 with p1 | p1
          · have := hp1.2 p1; omega
          · exact p1
        have hWs : s.writeBus.inside = [] := qA (by rw [b3] at hw1; exact hw1)
        have hidle : ∀ eu ∈ s.eus, eu.co = .none := by
          intro eu he
          obtain ⟨k, hk, hk2⟩ := List.getElem_of_mem he
          obtain ⟨eu', g1, g2⟩ := b6 k (Nat.zero_le _) (by simp only [Nat.zero_add]; exact hk)
          have g1' : s.eus[k]? = some eu' := g1
          rw [List.getElem?_eq_getElem hk, hk2] at g1'
          simp only [Option.some.injEq] at g1'; subst g1'
          rcases g2 with g2 | ⟨g2, g3 | g3⟩
          · exact g2
          · exfalso
            have hbuf : (s.writeBus.connect (s.cycles + 1)).buffer = [] := by
              have : (s.writeBus.connect (s.cycles + 1)).inside = [] := by rw [inside_connect]; exact hWs
              simp only [BufferedBus.inside, List.append_eq_nil_iff, List.map_eq_nil_iff] at this
              exact this.2
            have hbl := fA.wbl
            have g3' : (s.writeBus.connect (s.cycles + 1)).canAdd = false := g3
            simp only [BufferedBus.canAdd, hbuf, List.length_nil, bne_eq_false_iff_eq] at g3'
            simp only [Int.natCast_zero] at g3'
            have hbl' : 1 ≤ (s.writeBus.connect (s.cycles + 1)).bufferLength := hbl
            omega
          · exfalso
            have g3' : s.pendings ≠ [] := g3
            cases hpd : s.pendings with
            | nil => exact g3' hpd
            | cons pe _ =>
              obtain ⟨k', eu2, g4, g5⟩ := hl.pmw pe (by rw [hpd]; exact List.mem_cons_self)
              have hk' : k' < s.eus.length := by
                rcases Nat.lt_or_ge k' s.eus.length with h' | h'
                · exact h'
                · rw [List.getElem?_eq_none h'] at g4; cases g4
              obtain ⟨eu3, g6, g7⟩ := b6 k' (Nat.zero_le _) (by simp only [Nat.zero_add]; exact hk')
              have g6' : s.eus[k']? = some eu3 := g6
              rw [g4] at g6'; simp only [Option.some.injEq] at g6'; subst g6'
              rcases g7 with g7 | ⟨g7, _⟩ <;> simp only [mwBase, g7] at g5 <;> cases g5
        -- but a unit is busy
        simp only [List.any_eq_true] at hbusy
        obtain ⟨eu, he, hb⟩ := hbusy
        have he' : eu ∈ s.eus := by
          have : s2.eus = s.eus := by rw [k2.eus, b2]
          rw [← this]; exact he
        have := hidle eu he'
        simp [ExecUnit.isEmpty, this] at hb
      · rename_i hany
        have heu : ∀ eu ∈ s2.eus, eu.co = .none := by
          intro eu he
          have h1 : ¬ (s2.eus.any (fun eu => !eu.isEmpty) = true) := hany
          simp only [List.any_eq_true, not_exists, not_and, Bool.not_eq_true', Bool.not_eq_false] at h1
          have := h1 eu he
          simpa [ExecUnit.isEmpty] using this
        obtain ⟨f3, l3, _, _⟩ := tickW_liveO f2 l2
        exact goRetB_liveO hp (RelOx.tickW r2 (s2.cycles + 1) (s2.cycles + 1)) hra heu f3 l3 hr

/-! ### every run ends -/

theorem cycle_of_ok {app : App} {s s' : State} {ev : Event} (h : cycleM app s = .ok (s', ev)) : cycle app s = (s', ev) := by
  unfold cycle; rw [h]

/-- from the second drain loop after a `ret` the run ends -/
theorem halts_retB (app : App) (a0 : Arch) (hp : ProgLd app a0) (c : Word) : ∀ (m : Nat) (s : State) (nt : Nat), muW s ≤ m →
    RelO app a0 c s nt → s.mode = .retB → RetAt app nt → (∀ eu ∈ s.eus, eu.co = .none) → LiveF app s nt → LiveU s → Halts app s := by
  intro m
  induction m with
  | zero =>
    intro s nt hm h hmode hra heu hf hl
    obtain ⟨s', ev, hc, _⟩ := cycleM_okO app a0 hp c s nt h (Or.inr (Or.inr ⟨hmode, hra, heu⟩))
    cases ev with
    | done hk => exact halts_of_done app s s' hk (cycle_of_ok hc)
    | running =>
      rcases tick_retB app a0 hp c s s' nt .running h hmode hra heu hf hl hc with h1 | ⟨_, _, _, _, _, h1⟩
      · exact absurd rfl h1
      · omega
  | succ m ih =>
    intro s nt hm h hmode hra heu hf hl
    obtain ⟨s', ev, hc, _⟩ := cycleM_okO app a0 hp c s nt h (Or.inr (Or.inr ⟨hmode, hra, heu⟩))
    cases ev with
    | done hk => exact halts_of_done app s s' hk (cycle_of_ok hc)
    | running =>
      rcases tick_retB app a0 hp c s s' nt .running h hmode hra heu hf hl hc with h1 | ⟨r', m', e', f', l', h1⟩
      · exact absurd rfl h1
      · exact halts_of_running app s s' (cycle_of_ok hc) (ih s' nt (by omega) r' m' hra e' f' l')

/-- **from every state of the relation the run ends** -/
theorem halts_main (app : App) (a0 : Arch) (hp : ProgLd app a0) (c : Word) : ∀ (m : Nat) (s : State) (nt : Nat), psiN app s ≤ m →
    RelO app a0 c s nt → ModeOk app s nt → LiveF app s nt → LiveU s → Halts app s := by
  intro m
  induction m with
  | zero =>
    intro s nt hm h hmo hf hl
    obtain ⟨s', ev, hc, _⟩ := cycleM_okO app a0 hp c s nt h hmo
    cases ev with
    | done hk => exact halts_of_done app s s' hk (cycle_of_ok hc)
    | running =>
      have hnext : Next app a0 c s s' ∨ s.mode = .retB := by
        rcases hmo with ⟨hmode, hrp⟩ | ⟨hmode, hra⟩ | ⟨hmode, _⟩
        · rcases tick_normal app a0 hp c s s' nt .running h hmode hrp hf hl hc with h1 | h1
          · exact absurd rfl h1
          · exact Or.inl h1
        · rcases tick_retA app a0 hp c s s' nt .running h hmode hra hf hl hc with h1 | h1
          · exact absurd rfl h1
          · exact Or.inl h1
        · exact Or.inr hmode
      rcases hnext with ⟨nt', r', mo', f', l', h1⟩ | hB
      · rcases h1 with h1 | h1
        · rcases mo' with ⟨hm', _⟩ | ⟨hm', _⟩ | ⟨hm', hra', heu'⟩
          · rw [h1] at hm'; cases hm'
          · rw [h1] at hm'; cases hm'
          · exact halts_of_running app s s' (cycle_of_ok hc) (halts_retB app a0 hp c (muW s') s' nt' (Nat.le_refl _) r' hm' hra' heu' f' l')
        · omega
      · rcases hmo with ⟨hm', _⟩ | ⟨hm', _⟩ | ⟨hm', hra', heu'⟩
        · rw [hB] at hm'; cases hm'
        · rw [hB] at hm'; cases hm'
        · exact halts_retB app a0 hp c (muW s) s nt (Nat.le_refl _) h hm' hra' heu' hf hl
  | succ m ih =>
    intro s nt hm h hmo hf hl
    obtain ⟨s', ev, hc, _⟩ := cycleM_okO app a0 hp c s nt h hmo
    cases ev with
    | done hk => exact halts_of_done app s s' hk (cycle_of_ok hc)
    | running =>
      have hnext : Next app a0 c s s' ∨ s.mode = .retB := by
        rcases hmo with ⟨hmode, hrp⟩ | ⟨hmode, hra⟩ | ⟨hmode, _⟩
        · rcases tick_normal app a0 hp c s s' nt .running h hmode hrp hf hl hc with h1 | h1
          · exact absurd rfl h1
          · exact Or.inl h1
        · rcases tick_retA app a0 hp c s s' nt .running h hmode hra hf hl hc with h1 | h1
          · exact absurd rfl h1
          · exact Or.inl h1
        · exact Or.inr hmode
      rcases hnext with ⟨nt', r', mo', f', l', h1⟩ | hB
      · rcases h1 with h1 | h1
        · rcases mo' with ⟨hm', _⟩ | ⟨hm', _⟩ | ⟨hm', hra', heu'⟩
          · rw [h1] at hm'; cases hm'
          · rw [h1] at hm'; cases hm'
          · exact halts_of_running app s s' (cycle_of_ok hc) (halts_retB app a0 hp c (muW s') s' nt' (Nat.le_refl _) r' hm' hra' heu' f' l')
        · exact halts_of_running app s s' (cycle_of_ok hc) (ih s' nt' (by omega) r' mo' f' l')
      · rcases hmo with ⟨hm', _⟩ | ⟨hm', _⟩ | ⟨hm', hra', heu'⟩
        · rw [hB] at hm'; cases hm'
        · rw [hB] at hm'; cases hm'
        · exact halts_retB app a0 hp c (muW s) s nt (Nat.le_refl _) h hm' hra' heu' hf hl

/-- the initial state is live -/
theorem init_liveO (app : App) (ctx : Model.Context) (u : Model.Mmu.Mmu) (K : Nat) (hK : 1 ≤ K)
    (hpw : ∀ r, GoMap.get1 ctx.PendingWriteRegisters r = 0) (hpr : ∀ r, GoMap.get1 ctx.PendingReadRegisters r = 0) :
    LiveF app ({ ctx := ctx, mmu := u, eus := List.replicate K {}, wus := List.replicate K {} } : State) 0 ∧
    LiveU ({ ctx := ctx, mmu := u, eus := List.replicate K {}, wus := List.replicate K {} } : State) := by
  have h2 : (1 : Int) ≤ busSize := by decide
  have h3 : (1 : Int) ≤ Gen.Consts.mvp6_0.pendingLength := by decide
  refine ⟨⟨(fun e he => by cases he), (fun e he => by cases he), h2, h2, h2, h2, rfl, h2, h3,
      ⟨(fun h => by cases h), (fun h => by cases h)⟩, (fun h => by cases h), by simp only [List.length_replicate]; exact hK,
      by simp only [List.length_replicate]; exact hK⟩,
    ⟨(fun e he => by cases he), (fun e he => by cases he), ⟨fun r _ => ?_, fun r _ => ?_⟩, fun p hp => by cases hp⟩⟩
  · show GoMap.get1 ctx.PendingWriteRegisters r ≤ _
    rw [hpw r]; exact Int.natCast_nonneg _
  · show GoMap.get1 ctx.PendingReadRegisters r ≤ _
    rw [hpr r]; exact Int.natCast_nonneg _

/-- **MVP-6.0 terminates on straight-line programs with memory reads and `ret`**: the run of the model with `K ≥ 1` execute and
write units ends within some tick budget -/
theorem mvp60_ld_terminates (app : App) (ctx : Model.Context) (hp : ProgLd app ⟨ctx, 0#32⟩) (K : Nat) (hK : 1 ≤ K)
    (hpw : ∀ r, GoMap.get1 ctx.PendingWriteRegisters r = 0) (hpr : ∀ r, GoMap.get1 ctx.PendingReadRegisters r = 0) :
    ∃ ticks, (run app ctx K K ticks).halt ≠ none := by
  obtain ⟨s0, hinit, hR, hM⟩ := init_relO app ctx hp K hpw hpr
  have hs0 := hinit
  have hnew : ∃ u, Model.Mmu.new cfg = .ok u := ⟨_, rfl⟩
  obtain ⟨u, hu⟩ := hnew
  simp only [init, hu, bind, Except.bind, pure, Except.pure, Except.ok.injEq] at hs0
  obtain ⟨hf0, hl0⟩ := init_liveO app ctx u K hK hpw hpr
  rw [hs0] at hf0 hl0
  obtain ⟨ticks, hhalt⟩ := halts_main app ⟨ctx, 0#32⟩ hp _ (psiN app s0) s0 0 (Nat.le_refl _) hR hM hf0 hl0
  have hrun : run app ctx K K ticks = runFrom app ticks s0 0 := by unfold run; rw [hinit]
  exact ⟨ticks, by rw [hrun]; exact hhalt 0⟩

end Proofs.Mvp60Ld

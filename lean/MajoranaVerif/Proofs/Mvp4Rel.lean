/-
  Proofs/Mvp4Rel.lean — the simulation relation between a state of the MVP-4 pipeline
  (`Model.Mvp4.State`) and a state of the unpipelined machine (`Model.Seq.Arch`), and what
  the fetch unit, the decode unit and the write unit do to it.

  * BACK END (`BackRel`): the architectural registers are `ctx.Registers` with the queued
    results (write bus, oldest first) applied; the architectural memory is the flat memory
    `F0` that (ctx.Memory, L1D) is coherent with (`Proofs.Mmu.Coh`) with the queued stores
    applied; every queued store lies in memory, inside one line that is NOT resident in L1D,
    and is announced in the store scoreboard under its own id; the register scoreboard counts
    at least the queued writers of every register.
  * FRONT END (`NormalOk`): the pcs held by the execute unit, the execute bus, the decode bus
    and the fetch unit's `pc` are CONSECUTIVE, starting at the architectural pc; decoded
    entries carry the instruction at their pc.
-/
import MajoranaVerif.Proofs.Mvp4Basics
import MajoranaVerif.Proofs.Mvp4Instr
open GoInt Model Model.Mvp4 Model.Seq
open Proofs.Mmu (DWf Coh applyChanges base)

set_option linter.unusedSimpArgs false
set_option linter.unusedVariables false

namespace Proofs.Mvp4

/-! ### the regenerated constants, as the facts the proofs use (a changed constant re-opens them) -/

/-- line length of L1D -/
def L : Nat := 64
/-- number of lines of L1D -/
def N : Nat := 16

theorem hcfg : cfg.l1DLineSize = (L : Nat) := by decide
theorem hL : 0 < L := by decide
theorem hN : 0 < N := by decide

theorem lineOf_eq (a : Word) : lineOf a = base (L : Nat) a.toInt := by
  unfold lineOf base
  rw [hcfg]

theorem new_ok : ∃ u, Model.Mmu.new cfg = .ok u ∧ u.l1d = LineCache.Cache.empty L N := by
  refine ⟨_, rfl, ?_⟩
  decide

/-! ### back end -/

/-- the queued results, oldest first -/
def queue (s : State) : List ExecCtx := s.writeBus.inside

/-- the store ids of a queue -/
def storeIds (q : List ExecCtx) : List Int := (q.filter isStore).map (·.sequenceID)

structure BackRel (ctx : Model.Context) (pwmi : List (Int × Int)) (q : List ExecCtx) (l1d : LineCache.Cache)
    (storeID : Int) (a : Arch) : Prop where
  rat : ctx.rat = false
  tx : ctx.Transaction.entries = []
  arat : a.ctx.rat = false
  atx : a.ctx.Transaction.entries = []
  regs : a.ctx.Registers = applyRegs ctx.Registers q
  dwf : DWf L N l1d
  coh : ∃ F0, Coh l1d.lines ctx.Memory F0 ∧ a.ctx.Memory = applyMemQ F0 q
  shape : ∀ ec ∈ q, ec.writeRegisters = (if ec.execution.RegisterChange then [ec.execution.Register] else [])
  score : ∀ r, (((q.flatMap (·.writeRegisters)).count r : Nat) : Int) ≤ GoMap.get1 ctx.PendingWriteRegisters r
  stOk : ∀ ec ∈ q, isStore ec = true → Model.Mmu.storeOk (L : Nat) a.ctx.Memory.length ec.execution.MemoryChanges = true
  stUncached : ∀ ec ∈ q, isStore ec = true → ∀ p ∈ ec.execution.MemoryChanges, ∀ y ∈ l1d.lines, y.covers p.1.toInt = false
  stPw : ∀ ec ∈ q, isStore ec = true → ∀ p ∈ ec.execution.MemoryChanges, (lineOf p.1, ec.sequenceID) ∈ pwmi
  ids : (storeIds q).Pairwise (· < ·)
  idsLe : ∀ id ∈ storeIds q, id ≤ storeID
  /-- (liveness) the register scoreboard counts no more than the queued writers -/
  scoreUp : ∀ r, GoMap.get1 ctx.PendingWriteRegisters r ≤ (((q.flatMap (·.writeRegisters)).count r : Nat) : Int)
  /-- (liveness) every announced store is queued -/
  pwSub : ∀ x ∈ pwmi, ∃ ec ∈ q, isStore ec = true ∧ ec.sequenceID = x.2 ∧ ∃ p ∈ ec.execution.MemoryChanges, lineOf p.1 = x.1
  pwNodup : pwmi.Nodup

/-- the flat memory has the length of `ctx.Memory` and of the architectural memory -/
theorem BackRel.len {ctx pwmi q l1d sid a} (h : BackRel ctx pwmi q l1d sid a) :
    a.ctx.Memory.length = ctx.Memory.length := by
  obtain ⟨F0, hc, hm⟩ := h.coh
  rw [hm, applyMemQ_length, hc.len]

theorem storeIds_cons (ec : ExecCtx) (q : List ExecCtx) :
    storeIds (ec :: q) = if isStore ec then ec.sequenceID :: storeIds q else storeIds q := by
  unfold storeIds
  by_cases h : isStore ec = true <;> simp [List.filter, h]

theorem storeIds_append (q : List ExecCtx) (ec : ExecCtx) :
    storeIds (q ++ [ec]) = if isStore ec then storeIds q ++ [ec.sequenceID] else storeIds q := by
  unfold storeIds
  by_cases h : isStore ec = true <;> simp [List.filter_append, List.filter, h]

theorem mem_storeIds {q : List ExecCtx} {ec : ExecCtx} (h : ec ∈ q) (hs : isStore ec = true) :
    ec.sequenceID ∈ storeIds q := by
  unfold storeIds
  exact List.mem_map.mpr ⟨ec, List.mem_filter.mpr ⟨h, hs⟩, rfl⟩

/-! ### the write unit -/

theorem storeOk_inb {len : Nat} {chs : List (Word × Byte)} (h : Model.Mmu.storeOk (L : Nat) len chs = true) :
    ∀ p ∈ chs, 0 ≤ p.1.toInt ∧ p.1.toInt.toNat < len := by
  obtain ⟨p0, ps, hchs, _, hall⟩ := Proofs.Mmu.storeOk_spec h
  intro p hp
  have := hall p.1 (List.mem_map.mpr ⟨p, hp, rfl⟩)
  exact ⟨this.1, this.2.1⟩

/-- **the write unit never changes the architectural state**: whatever `writeUnit.cycle` does — count down a
pending memory write, or take the oldest queued result and write it to the register file or to memory — the
back-end relation with the SAME architectural state holds afterwards; the queue afterwards is a tail of the queue before. -/
theorem writeCore_spec {ctx pwmi} {bus : SimpleBus ExecCtx} {wu l1d sid a ctx' pwmi' bus' wu'}
    (hb : BackRel ctx pwmi bus.inside l1d sid a)
    (h : writeCore ctx pwmi bus wu = .ok (ctx', pwmi', bus', wu')) :
    BackRel ctx' pwmi' bus'.inside l1d sid a ∧ (∃ pre, bus.inside = pre ++ bus'.inside) ∧
      (bus.pending = none → bus'.pending = none) := by
  unfold writeCore at h
  by_cases hp : wu.pendingMemoryWrite = true
  · simp only [hp, if_true, pure, Except.pure] at h
    injection h with h
    simp only [Prod.mk.injEq] at h
    obtain ⟨rfl, rfl, rfl, _⟩ := h
    exact ⟨hb, ⟨[], rfl⟩, id⟩
  · simp only [hp, Bool.false_eq_true, if_false] at h
    cases hx : bus.get.1 with
    | none =>
      have : bus.get = (none, bus.get.2) := by rw [← hx]
      rw [this] at h
      simp only [pure, Except.pure] at h
      injection h with h
      simp only [Prod.mk.injEq] at h
      obtain ⟨rfl, rfl, rfl, _⟩ := h
      rw [bus_inside_of_get_none bus hx]
      exact ⟨hb, ⟨[], rfl⟩, fun _ => rfl⟩
    | some ec =>
      have hg : bus.get = (some ec, bus.get.2) := by rw [← hx]
      have hq : bus.inside = ec :: bus.get.2.inside := bus_inside_of_get_some bus ec hx
      rw [hg] at h
      simp only at h
      rw [hq] at hb
      have hsub : ∀ e' ∈ bus.get.2.inside, e' ∈ ec :: bus.get.2.inside := fun e' he => List.mem_cons_of_mem _ he
      have hshape := hb.shape ec (by simp)
      by_cases hrc : ec.execution.RegisterChange = true
      · -- a register result
        simp only [hrc, if_true, pure, Except.pure] at h
        injection h with h
        simp only [Prod.mk.injEq] at h
        obtain ⟨rfl, rfl, rfl, _⟩ := h
        have hns : isStore ec = false := by simp [isStore, hrc]
        refine ⟨?_, ⟨[ec], by rw [hq]; rfl⟩, fun _ => rfl⟩
        refine { rat := hb.rat, tx := hb.tx, arat := hb.arat, atx := hb.atx, regs := ?_, dwf := hb.dwf, coh := ?_,
                 shape := fun e' he => hb.shape e' (hsub e' he), score := ?_,
                 stOk := fun e' he => hb.stOk e' (hsub e' he),
                 stUncached := fun e' he => hb.stUncached e' (hsub e' he),
                 stPw := fun e' he => hb.stPw e' (hsub e' he), ids := ?_, idsLe := ?_,
                 scoreUp := ?_, pwSub := ?_, pwNodup := hb.pwNodup }
        · rw [hb.regs, applyRegs_cons, if_pos hrc]; rfl
        · obtain ⟨F0, hc, hm⟩ := hb.coh
          refine ⟨F0, hc, ?_⟩
          rw [hm, applyMemQ_cons, hns]; rfl
        · intro r
          have h1 := hb.score r
          rw [List.flatMap_cons, List.count_append] at h1
          have h2 := get1_deletePending_ge ec.writeRegisters ctx.PendingWriteRegisters r
          show _ ≤ GoMap.get1 (deletePendingWriteRegisters ctx.PendingWriteRegisters ec.writeRegisters) r
          omega
        · have := hb.ids; rw [storeIds_cons, hns] at this; exact this
        · have := hb.idsLe; rw [storeIds_cons, hns] at this; exact this
        · intro r
          have h1 := hb.score r
          have h2 := hb.scoreUp r
          rw [List.flatMap_cons, List.count_append] at h1 h2
          have hnonneg : ∀ r', 0 ≤ GoMap.get1 ctx.PendingWriteRegisters r' := fun r' =>
            Int.le_trans (Int.natCast_nonneg _) (hb.score r')
          have h3 := (get1_deletePending_le ec.writeRegisters ctx.PendingWriteRegisters r (by omega) hnonneg).1
          show GoMap.get1 (deletePendingWriteRegisters ctx.PendingWriteRegisters ec.writeRegisters) r ≤ _
          omega
        · intro x hx'
          obtain ⟨e', he', hs', hid, hl⟩ := hb.pwSub x hx'
          rcases List.mem_cons.mp he' with rfl | he''
          · rw [hns] at hs'; cases hs'
          · exact ⟨e', he'', hs', hid, hl⟩
      · have hrc' : ec.execution.RegisterChange = false := by simpa using hrc
        simp only [hrc', Bool.false_eq_true, if_false] at h
        have hws : ec.writeRegisters = [] := by rw [hshape, hrc']; rfl
        by_cases hmc : ec.execution.MemoryChange = true
        · -- a store
          have hst : isStore ec = true := by simp [isStore, hrc', hmc]
          simp only [hmc, if_true] at h
          have hok := hb.stOk ec (by simp) hst
          have hlen := hb.len
          have hwm := Proofs.Mmu.writeMemory_ok ec.execution ctx
            (fun p hp => by have := storeOk_inb hok p hp; rw [hlen] at this; exact this)
          rw [hwm] at h
          simp only at h
          cases hr : releaseAll pwmi ec.sequenceID ec.execution.MemoryChanges [] with
          | error f => simp [hr, bind, Except.bind] at h
          | ok p1 =>
            simp only [hr, bind, Except.bind, pure, Except.pure] at h
            injection h with h
            simp only [Prod.mk.injEq] at h
            obtain ⟨rfl, rfl, rfl, _⟩ := h
            refine ⟨?_, ⟨[ec], by rw [hq]; rfl⟩, fun _ => rfl⟩
            have hids := hb.ids
            rw [storeIds_cons, hst] at hids
            simp only [if_true, List.pairwise_cons] at hids
            refine { rat := hb.rat, tx := hb.tx, arat := hb.arat, atx := hb.atx, regs := ?_, dwf := hb.dwf, coh := ?_,
                     shape := fun e' he => hb.shape e' (hsub e' he), score := ?_,
                     stOk := fun e' he => hb.stOk e' (hsub e' he),
                     stUncached := fun e' he => hb.stUncached e' (hsub e' he),
                     stPw := ?_, ids := hids.2, idsLe := ?_, scoreUp := ?_, pwSub := ?_, pwNodup := ?_ }
            · rw [hb.regs, applyRegs_cons, hrc']; rfl
            · obtain ⟨F0, hc, hm⟩ := hb.coh
              refine ⟨applyChanges F0 ec.execution.MemoryChanges, ?_, ?_⟩
              · have hlen0 : a.ctx.Memory.length = F0.length := by rw [hm, applyMemQ_length]
                exact Proofs.Mmu.write_uncached_ok hL hb.dwf hc ec.execution.MemoryChanges (by rw [← hlen0]; exact hok)
                  (hb.stUncached ec (by simp) hst)
              · rw [hm, applyMemQ_cons, hst]; rfl
            · intro r
              have h1 := hb.score r
              rw [List.flatMap_cons, hws, List.nil_append] at h1
              exact h1
            · intro e' he hs' p hp
              have hmem := hb.stPw e' (hsub e' he) hs' p hp
              have hne : e'.sequenceID ≠ ec.sequenceID := by
                have := hids.1 e'.sequenceID (mem_storeIds he hs')
                omega
              exact releaseAll_keeps _ _ _ _ _ hr _ hmem hne
            · intro id hid
              exact hb.idsLe id (by rw [storeIds_cons, hst]; exact List.mem_cons_of_mem _ hid)
            · intro r
              have h2 := hb.scoreUp r
              rw [List.flatMap_cons, hws, List.nil_append] at h2
              exact h2
            · -- the pairs of the store just performed are gone, all others still have their store queued
              obtain ⟨p0, ps, hchs, _, hall⟩ := Proofs.Mmu.storeOk_spec hok
              have hline : ∀ c ∈ p0 :: ps, lineOf c.1 = lineOf p0.1 := by
                intro c hc
                rw [lineOf_eq, lineOf_eq]
                exact (hall c.1 (by rw [hchs]; exact List.mem_map.mpr ⟨c, hc, rfl⟩)).2.2.1
              have hmem : (lineOf p0.1, ec.sequenceID) ∈ pwmi := hb.stPw ec (by simp) hst p0 (by rw [hchs]; simp)
              have hrel := releaseAll_ok ec.sequenceID (lineOf p0.1) p0 ps pwmi hline hmem
              rw [hchs, hrel] at hr
              injection hr with hr
              subst hr
              intro x hx'
              have hxm : x ∈ pwmi := List.mem_of_mem_erase hx'
              obtain ⟨e', he', hs', hid, q, hq', hl⟩ := hb.pwSub x hxm
              rcases List.mem_cons.mp he' with rfl | he''
              · exfalso
                have hq'' : q ∈ p0 :: ps := by rw [← hchs]; exact hq'
                have : x = (lineOf p0.1, e'.sequenceID) := by
                  rw [← hline q hq'', hl, hid]
                rw [this] at hx'
                exact ((List.Nodup.mem_erase_iff hb.pwNodup).mp hx').1 rfl
              · exact ⟨e', he'', hs', hid, q, hq', hl⟩
            · obtain ⟨p0, ps, hchs, _, hall⟩ := Proofs.Mmu.storeOk_spec hok
              have hline : ∀ c ∈ p0 :: ps, lineOf c.1 = lineOf p0.1 := by
                intro c hc
                rw [lineOf_eq, lineOf_eq]
                exact (hall c.1 (by rw [hchs]; exact List.mem_map.mpr ⟨c, hc, rfl⟩)).2.2.1
              have hmem : (lineOf p0.1, ec.sequenceID) ∈ pwmi := hb.stPw ec (by simp) hst p0 (by rw [hchs]; simp)
              have hrel := releaseAll_ok ec.sequenceID (lineOf p0.1) p0 ps pwmi hline hmem
              rw [hchs, hrel] at hr
              injection hr with hr
              subst hr
              exact hb.pwNodup.erase _
        · -- neither (a branch, a nop): dropped
          have hmc' : ec.execution.MemoryChange = false := by simpa using hmc
          simp only [hmc', Bool.false_eq_true, if_false, pure, Except.pure] at h
          injection h with h
          simp only [Prod.mk.injEq] at h
          obtain ⟨rfl, rfl, rfl, _⟩ := h
          have hns : isStore ec = false := by simp [isStore, hmc']
          refine ⟨?_, ⟨[ec], by rw [hq]; rfl⟩, fun _ => rfl⟩
          refine { rat := hb.rat, tx := hb.tx, arat := hb.arat, atx := hb.atx, regs := ?_, dwf := hb.dwf, coh := ?_,
                   shape := fun e' he => hb.shape e' (hsub e' he), score := ?_,
                   stOk := fun e' he => hb.stOk e' (hsub e' he),
                   stUncached := fun e' he => hb.stUncached e' (hsub e' he),
                   stPw := fun e' he => hb.stPw e' (hsub e' he), ids := ?_, idsLe := ?_,
                   scoreUp := ?_, pwSub := ?_, pwNodup := hb.pwNodup }
          · rw [hb.regs, applyRegs_cons, hrc']; rfl
          · obtain ⟨F0, hc, hm⟩ := hb.coh
            refine ⟨F0, hc, ?_⟩
            rw [hm, applyMemQ_cons, hns]; rfl
          · intro r
            have h1 := hb.score r
            rw [List.flatMap_cons, hws, List.nil_append] at h1
            exact h1
          · have := hb.ids; rw [storeIds_cons, hns] at this; exact this
          · have := hb.idsLe; rw [storeIds_cons, hns] at this; exact this
          · intro r
            have h2 := hb.scoreUp r
            rw [List.flatMap_cons, hws, List.nil_append] at h2
            exact h2
          · intro x hx'
            obtain ⟨e', he', hs', hid, hl⟩ := hb.pwSub x hx'
            rcases List.mem_cons.mp he' with rfl | he''
            · rw [hns] at hs'; cases hs'
            · exact ⟨e', he'', hs', hid, hl⟩


/-! ### the fetch unit -/

theorem getFromL1I_l1d {u u' : Model.Mmu.Mmu} {addrs : List Word} {r : Option (List Byte)}
    (h : Model.Mmu.getFromL1I u addrs = .ok (r, u')) : u'.l1d = u.l1d := by
  unfold Model.Mmu.getFromL1I at h
  cases hg : Model.Mmu.getAll u.l1i addrs with
  | error f => simp [hg, bind, Except.bind] at h
  | ok x =>
    obtain ⟨r0, c⟩ := x
    simp only [hg, bind, Except.bind, pure, Except.pure] at h
    injection h with h
    simp only [Prod.mk.injEq] at h
    obtain ⟨_, rfl⟩ := h
    rfl

theorem fetchStart_spec {fu fu' : FetchUnit} {mmu mmu' : Model.Mmu.Mmu}
    (h : fetchStart fu mmu = .ok (fu', mmu')) :
    mmu'.l1d = mmu.l1d ∧ fu'.pc = fu.pc ∧ fu'.complete = fu.complete := by
  unfold fetchStart at h
  by_cases hp : fu.processing = true
  · simp only [hp, Bool.not_true, Bool.false_eq_true, if_false, pure, Except.pure] at h
    injection h with h
    simp only [Prod.mk.injEq] at h
    obtain ⟨rfl, rfl⟩ := h
    exact ⟨rfl, rfl, rfl⟩
  · have hp' : fu.processing = false := by simpa using hp
    simp only [hp', Bool.not_false, if_true] at h
    cases hg : Model.Mmu.getFromL1I mmu [fu.pc] with
    | error f => simp [hg, bind, Except.bind] at h
    | ok x =>
      obtain ⟨hit, m1⟩ := x
      have hl := getFromL1I_l1d hg
      simp only [hg, bind, Except.bind] at h
      cases hit with
      | some v =>
        simp only [pure, Except.pure] at h
        injection h with h
        simp only [Prod.mk.injEq] at h
        obtain ⟨rfl, rfl⟩ := h
        exact ⟨hl, rfl, rfl⟩
      | none =>
        simp only at h
        split at h
        · cases h
        · simp only [pure, Except.pure] at h
          injection h with h
          simp only [Prod.mk.injEq] at h
          obtain ⟨rfl, rfl⟩ := h
          exact ⟨hl, rfl, rfl⟩

/-- the fetch unit touches L1I only, keeps "decode bus ++ fetch pc" a run of consecutive pcs with the same
first element, and is `complete` only past the end of the program -/
theorem fetchCore_spec {app : App} {fu fu' : FetchUnit} {mmu mmu' : Model.Mmu.Mmu} {bus bus' : SimpleBus Word}
    (h : fetchCore app fu mmu bus = .ok (fu', mmu', bus')) :
    mmu'.l1d = mmu.l1d ∧
    (∀ x, Consec x (bus.inside ++ [fu.pc]) → Consec x (bus'.inside ++ [fu'.pc])) ∧
    ((fu.complete = true → pastEnd app fu.pc = true) → (fu'.complete = true → pastEnd app fu'.pc = true)) := by
  unfold fetchCore at h
  by_cases hc : fu.complete = true
  · simp only [hc, if_true, pure, Except.pure] at h
    injection h with h
    simp only [Prod.mk.injEq] at h
    obtain ⟨rfl, rfl, rfl⟩ := h
    exact ⟨rfl, fun _ hx => hx, id⟩
  · have hc' : fu.complete = false := by simpa using hc
    simp only [hc', Bool.false_eq_true, if_false] at h
    by_cases hpe : pastEnd app fu.pc = true
    · simp only [hpe, if_true, pure, Except.pure] at h
      injection h with h
      simp only [Prod.mk.injEq] at h
      obtain ⟨rfl, rfl, rfl⟩ := h
      exact ⟨rfl, fun _ hx => hx, fun _ _ => hpe⟩
    · simp only [hpe, Bool.false_eq_true, if_false] at h
      cases hs : fetchStart fu mmu with
      | error f => simp [hs, bind, Except.bind] at h
      | ok x =>
        obtain ⟨fu1, m1⟩ := x
        obtain ⟨hl, hpc, hcm⟩ := fetchStart_spec hs
        simp only [hs, bind, Except.bind] at h
        split at h
        · split at h
          · simp only [pure, Except.pure] at h
            injection h with h
            simp only [Prod.mk.injEq] at h
            obtain ⟨rfl, rfl, rfl⟩ := h
            refine ⟨hl, fun x hx => by simpa [hpc] using hx, fun _ hcc => ?_⟩
            simp [hcm, hc'] at hcc
          · rename_i hca
            have hca' : bus.canAdd = true := by simpa using hca
            simp only [pure, Except.pure] at h
            injection h with h
            simp only [Prod.mk.injEq] at h
            obtain ⟨rfl, rfl, rfl⟩ := h
            refine ⟨hl, fun x hx => ?_, fun _ hcc => by simpa using hcc⟩
            rw [bus_add_inside _ _ hca', List.append_assoc]
            simp only [List.singleton_append, hpc]
            exact Consec.append_last x bus.inside fu.pc hx
        · simp only [pure, Except.pure] at h
          injection h with h
          simp only [Prod.mk.injEq] at h
          obtain ⟨rfl, rfl, rfl⟩ := h
          refine ⟨hl, fun x hx => by simpa [hpc] using hx, fun _ hcc => ?_⟩
          simp [hcm, hc'] at hcc

/-! ### the decode unit -/

/-- the decode unit moves the oldest fetched pc from the decode bus to the execute bus, attaching the
instruction at that pc: the sequence of in-flight pcs is unchanged -/
theorem decodeCore_spec {app : App} {d d' : SimpleBus Word} {e e' : SimpleBus Runner}
    (h : decodeCore app d e = .ok (d', e')) :
    e'.inside.map (·.pc) ++ d'.inside = e.inside.map (·.pc) ++ d.inside ∧
    ((∀ r ∈ e.inside, instrAt app r.pc = .ok r.instr) → ∀ r ∈ e'.inside, instrAt app r.pc = .ok r.instr) := by
  unfold decodeCore at h
  by_cases hca : e.canAdd = true
  · simp only [hca, Bool.not_true, Bool.false_eq_true, if_false] at h
    cases hx : d.get.1 with
    | none =>
      have hg : d.get = (none, d.get.2) := by rw [← hx]
      rw [hg] at h
      simp only [pure, Except.pure] at h
      injection h with h
      simp only [Prod.mk.injEq] at h
      obtain ⟨rfl, rfl⟩ := h
      rw [bus_inside_of_get_none d hx]
      exact ⟨rfl, id⟩
    | some pc =>
      have hg : d.get = (some pc, d.get.2) := by rw [← hx]
      rw [hg] at h
      simp only at h
      cases hi : instrAt app pc with
      | error f => simp [hi, bind, Except.bind] at h
      | ok i =>
        simp only [hi, bind, Except.bind, pure, Except.pure] at h
        injection h with h
        simp only [Prod.mk.injEq] at h
        obtain ⟨rfl, rfl⟩ := h
        rw [bus_add_inside _ _ hca, bus_inside_of_get_some d pc hx]
        refine ⟨by simp, fun hall r hr => ?_⟩
        rcases List.mem_append.mp hr with hr | hr
        · exact hall r hr
        · simp only [List.mem_singleton] at hr
          subst hr
          exact hi
  · have hca' : e.canAdd = false := by simpa using hca
    simp only [hca', Bool.not_false, if_true, pure, Except.pure] at h
    injection h with h
    simp only [Prod.mk.injEq] at h
    obtain ⟨rfl, rfl⟩ := h
    exact ⟨rfl, id⟩

end Proofs.Mvp4

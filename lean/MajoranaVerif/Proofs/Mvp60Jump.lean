/-
  Proofs/Mvp60Jump.lean — package R60b, groundwork for unconditional jumps (MVP-6.0): the branch target buffer remembers
  the last target of a jump, and an execute unit that executes a jump restarts fetch at the target, re-opens the decode unit
  and signals a flush exactly when the target is not the one the branch unit expected.
-/
import MajoranaVerif.Model.Mvp60
open GoInt

set_option linter.unusedSimpArgs false
set_option linter.unusedVariables false

namespace Proofs.Mvp60Jump
open Model Model.Mvp60
open Model.Seq (App)

/-! ### the branch target buffer -/

theorem btbGet_update (pc dest : Word) : ∀ (b b' : List (Word × Word)), btbUpdate pc dest b = some b' → btbGet b' pc = some dest := by
  intro b
  induction b with
  | nil => intro b' h; cases h
  | cons e es ih =>
    intro b' h
    simp only [btbUpdate] at h
    split at h
    · simp only [Option.some.injEq] at h
      subst h
      simp only [btbGet, List.find?, beq_self_eq_true]
    · rename_i hne
      cases hu : btbUpdate pc dest es with
      | none => rw [hu] at h; cases h
      | some es' =>
        rw [hu] at h
        simp only [Option.map_some, Option.some.injEq] at h
        subst h
        have := ih es' hu
        simp only [btbGet, List.find?, hne] at this ⊢
        exact this

theorem btbUpdate_none (pc dest : Word) : ∀ (b : List (Word × Word)), btbUpdate pc dest b = none → ∀ e ∈ b, (e.1 == pc) = false := by
  intro b
  induction b with
  | nil => intro _ e he; cases he
  | cons e es ih =>
    intro h e' he'
    simp only [btbUpdate] at h
    split at h
    · cases h
    · rename_i hne
      cases hu : btbUpdate pc dest es with
      | some es' => rw [hu] at h; cases h
      | none =>
        rcases List.mem_cons.mp he' with rfl | h'
        · simpa using hne
        · exact ih hu e' h'

theorem btbGet_append_miss (pc dest : Word) : ∀ (b : List (Word × Word)), (∀ e ∈ b, (e.1 == pc) = false) →
    btbGet (b ++ [(pc, dest)]) pc = some dest := by
  intro b
  induction b with
  | nil => intro _; simp only [List.nil_append, btbGet, List.find?, beq_self_eq_true]
  | cons e es ih =>
    intro h
    have he := h e List.mem_cons_self
    have := ih (fun e' he' => h e' (List.mem_cons_of_mem _ he'))
    simp only [List.cons_append, btbGet, List.find?, he] at this ⊢
    exact this

/-- **the branch target buffer remembers the last target**: after `add(pc, dest)` a lookup of `pc` yields `dest` -/
theorem btbGet_add (b : List (Word × Word)) (pc dest : Word) : btbGet (btbAdd b pc dest) pc = some dest := by
  unfold btbAdd
  cases hu : btbUpdate pc dest b with
  | some b' => exact btbGet_update pc dest b b' hu
  | none =>
    have hm := btbUpdate_none pc dest b hu
    simp only
    split
    · exact btbGet_append_miss pc dest b hm
    · exact btbGet_append_miss pc dest (b.drop 1) (fun e he => hm e (List.mem_of_mem_drop he))

/-! ### an execute unit executes a jump -/

/-- the result an execute unit puts on the write bus -/
def ecOfJ (x : Runner) (e : Gen.Execution) : ExecCtx :=
  { seq := x.seq, execution := e, itype := x.instr.instructionType, writeRegisters := x.instr.writeRegisters, readRegisters := x.instr.readRegisters }

/-- **a jump restarts fetch at its target** (MVP-6.0): when `coRun` executes an unconditional branch whose result `e` goes to
the write bus (no `ret`, no store hitting L3), the fetch unit is reset to `e.NextPc` with the decode bus to be cleaned, the
decode unit is re-opened, the branch target buffer now predicts `e.NextPc` for this pc, and a flush is signalled exactly when
the branch unit's expectation (the BTB's prediction, or -1 without one) is not the target. -/
theorem coRun_jump (app : App) (s s' : State) (i : Nat) (eu : ExecUnit) (x : Runner) (e : Gen.Execution) (out : EuOut)
    (hj : x.instr.instructionType.IsUnconditionalBranch = true)
    (hr : x.instr.run s.ctx app.labels x.pc eu.memory 0#32 = .ok e) (hret : e.Return = false) (hmc : e.MemoryChange = false)
    (hpc : e.PcChange = true) (h : coRun app s i eu x = .ok (s', out)) :
    s'.fu = s.fu.reset e.NextPc true ∧ s'.du.pendingBranchResolution = false ∧ btbGet s'.bu.btb x.pc = some e.NextPc ∧
    s'.writeBus.inside = s.writeBus.inside ++ [ecOfJ x e] ∧
    (out = if s.bu.toCheck && s.bu.expectation != e.NextPc then .flush x.pc e.NextPc else .none) := by
  unfold coRun at h
  simp only [setEu, hr, hret, hmc, hj, hpc, Bool.false_eq_true, if_false, if_true, bind, Except.bind, pure, Except.pure,
    buShouldFlush] at h
  by_cases htc : s.bu.toCheck = true
  · simp only [htc, Bool.not_true, Bool.false_eq_true, if_false, Except.ok.injEq, Prod.mk.injEq] at h
    obtain ⟨rfl, rfl⟩ := h
    refine ⟨rfl, rfl, btbGet_add _ _ _, by simp [BufferedBus.add, BufferedBus.inside, ecOfJ], ?_⟩
    simp only [htc, Bool.true_and]
  · have htc' : s.bu.toCheck = false := by simpa using htc
    simp only [htc', Bool.not_false, if_true, Except.ok.injEq, Prod.mk.injEq] at h
    obtain ⟨rfl, rfl⟩ := h
    refine ⟨rfl, rfl, btbGet_add _ _ _, by simp [BufferedBus.add, BufferedBus.inside, ecOfJ], ?_⟩
    simp only [htc', Bool.false_and, Bool.false_eq_true, if_false]

/-! ### the decode unit stops behind a jump -/

theorem inside_add' {α : Type} (b : BufferedBus α) (t : α) (c : Int) : (b.add t c).inside = b.inside ++ [t] := by
  simp [BufferedBus.add, BufferedBus.inside]

/-- **a jump is the youngest decoded instruction** (MVP-6.0): when the decode unit closes itself
(`pendingBranchResolution` becomes true) the last runner it has put on the control bus is an unconditional branch; it decodes
nothing more until an execute unit has executed that jump (`coRun_jump`: `pendingBranchResolution = false` again). -/
theorem decodeLoop_jump_last (app : App) (ctx : Model.Context) (c : Int) :
    ∀ (n : Nat) (du du' : DecodeUnit) (inBus inBus' : BufferedBus Word) (outBus outBus' : BufferedBus Runner),
    decodeLoop app ctx c n du inBus outBus = .ok (du', inBus', outBus') →
    du.pendingBranchResolution = false → du'.pendingBranchResolution = true →
    ∃ pre r, outBus'.inside = pre ++ [r] ∧ r.instr.instructionType.IsUnconditionalBranch = true := by
  intro n
  induction n with
  | zero =>
    intro du du' inBus inBus' outBus outBus' hr h0 h1
    simp only [decodeLoop, pure, Except.pure, Except.ok.injEq, Prod.mk.injEq] at hr
    obtain ⟨rfl, _, _⟩ := hr
    rw [h0] at h1; cases h1
  | succ n ih =>
    intro du du' inBus inBus' outBus outBus' hr h0 h1
    simp only [decodeLoop] at hr
    cases hq : inBus.queue with
    | nil =>
      simp only [BufferedBus.get, hq, pure, Except.pure, Except.ok.injEq, Prod.mk.injEq] at hr
      obtain ⟨rfl, _, _⟩ := hr
      rw [h0] at h1; cases h1
    | cons p q =>
      simp only [BufferedBus.get, hq] at hr
      split at hr
      · simp only [pure, Except.pure, Except.ok.injEq, Prod.mk.injEq] at hr
        obtain ⟨rfl, _, _⟩ := hr
        rw [h0] at h1; cases h1
      · simp only [bind, Except.bind] at hr
        split at hr
        · cases hr
        · rename_i i hi
          by_cases hj : i.instructionType.IsUnconditionalBranch = true
          · simp only [hj, if_true, pure, Except.pure, Except.ok.injEq, Prod.mk.injEq] at hr
            obtain ⟨_, _, rfl⟩ := hr
            exact ⟨outBus.inside, _, inside_add' _ _ _, hj⟩
          · simp only [hj, Bool.false_eq_true, if_false] at hr
            split at hr
            · simp only [pure, Except.pure, Except.ok.injEq, Prod.mk.injEq] at hr
              obtain ⟨rfl, _, _⟩ := hr
              simp only at h1
              rw [h0] at h1; cases h1
            · exact ih _ du' _ inBus' _ outBus' hr h0 h1

end Proofs.Mvp60Jump

/-
  Proofs/Mvp5Instr.lean — two more facts about the 45 regenerated instruction structs, needed for MVP-5:
  an unconditional jump (`j`, `jal`, `jalr`) always changes the pc, never stores, never returns and reads no
  memory.
-/
import MajoranaVerif.Proofs.Mvp4Instr
open GoInt Model

set_option linter.unusedSimpArgs false
set_option linter.unusedVariables false

namespace Proofs.Mvp5
open Proofs.Mvp4

/-- an unconditional jump reads no memory -/
theorem jump_no_load (i : Gen.Instr) (c : Model.Context) (seq : Word)
    (h : i.instructionType.IsUnconditionalBranch = true) : i.memoryRead c seq = [] := by
  cases i <;> unfold_instr at h ⊢ <;>
    first
      | rfl
      | (simp [Gen.InstructionType.IsUnconditionalBranch] at h)

set_option maxHeartbeats 2000000 in
/-- the result of an unconditional jump: the pc changes, nothing is stored, it is not a return -/
theorem run_jump (i : Gen.Instr) (c : Model.Context) (labels : GoMap String Word) (pc : Word)
    (mem : List Byte) (seq : Word) (e : Gen.Execution) (hj : i.instructionType.IsUnconditionalBranch = true)
    (h : i.run c labels pc mem seq = .ok e) : e.PcChange = true ∧ e.MemoryChange = false ∧ e.Return = false := by
  cases i <;> unfold_instr at hj h <;>
    first
      | (simp [Gen.InstructionType.IsUnconditionalBranch] at hj; done)
      | (simp only [isRegisterChange_eq, pure, Except.pure, ite_ok, ite_pair, ite_self, bind, Except.bind, throw, throwThe, MonadExceptOf.throw] at h
         (repeat' split at h) <;>
         first
          | (injection h with h; subst h; exact ⟨rfl, rfl, rfl⟩)
          | (exact absurd h (by simp)))

end Proofs.Mvp5

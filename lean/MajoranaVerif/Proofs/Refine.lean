/-
  Proofs/Refine.lean — the sequential machines refine the specification: lemmas for
  Props/C01.lean.  One architectural step of the cycle-accurate model `Model.Seq`
  (built from the REGENERATED instruction semantics) simulates one step of `Spec.step`
  under the relation `Rel` between a Go context and a specification machine; the
  instruction-level fact used is C02's `exec_ok`.
-/
import MajoranaVerif.Props.C02
import MajoranaVerif.Proofs.SeqMachine
import MajoranaVerif.Spec.Run
open GoInt Model Model.Seq Proofs.Opcodes

namespace Proofs.Refine

/-- the specification-level program a parsed application denotes -/
def specProg (app : App) : Spec.Asm.Program :=
  { instrs := (app.instrs.map ofGen).toArray, labels := app.labels.entries }

theorem specProg_label (app : App) : (specProg app).label = labelsOf app.labels := rfl

/-- static well-formedness of a parsed application (what risc.Parse produces) -/
structure WfApp (app : App) : Prop where
  small : app.instrs.length < 250
  regs : ∀ g ∈ app.instrs, ∀ r ∈ Spec.reads (ofGen g) ++ Spec.writes (ofGen g), r < 32
  nofwd : ∀ g ∈ app.instrs, fwdOf g = {}

/-- the simulation relation between a Go context and a specification machine -/
structure Rel (ctx : Model.Context) (m : Spec.Machine) : Prop where
  rat : ctx.rat = false
  tx : ctx.Transaction.entries = []
  regs : ∀ r, GoMap.get1 ctx.Registers r = m.rf r
  size : m.regs.size = 32
  zero : m.rf 0 = 0
  mem : ctx.Memory = m.mem.toList
  memSmall : m.mem.size < 2 ^ 31

theorem view_eq (ctx : Model.Context) (m : Spec.Machine) (h : Rel ctx m) :
    view ctx {} 0#32 = m.rf := by
  funext r
  unfold view Gen.registerRead
  by_cases hr : r = 0
  · subst hr; simp [h.zero]
  · have : (r == (0 : Reg)) = false := by simpa using hr
    simp [this, h.rat, GoMap.get, GoMap.find?, h.tx, ← h.regs r, GoMap.get1]

theorem hz_of_rel (ctx : Model.Context) (m : Spec.Machine) (h : Rel ctx m) :
    Gen.registerRead ctx {} 0 0#32 = 0 := by
  have := congrFun (view_eq ctx m h) 0
  unfold view at this
  rw [this, h.zero]

/-- pc arithmetic: inside a program, Go's signed `pc/4` is the natural-number quotient -/
theorem pc_index (pc : Word) (n : Nat) (hn : n < 250) (h : pc.toNat ≤ 4 * n) :
    Int.tdiv pc.toInt 4 = ((pc.toNat / 4 : Nat) : Int) := by
  have h1 : pc.toNat < 2 ^ 31 := by omega
  have h2 : pc.toInt = pc.toNat := by
    rw [BitVec.toInt_eq_toNat_cond]; simp; omega
  rw [h2]
  rfl

theorem specProg_instr (app : App) (k : Nat) :
    (specProg app).instrs[k]? = (app.instrs[k]?).map ofGen := by
  simp [specProg]


theorem mapM_some {α β} (f : α → Option β) (g : α → β) :
    ∀ (l : List α), (∀ x ∈ l, f x = some (g x)) → l.mapM f = some (l.map g)
  | [], _ => rfl
  | x :: xs, h => by
    have hx := h x (by simp)
    have ih := mapM_some f g xs (fun y hy => h y (by simp [hy]))
    simp [List.mapM_cons, hx, ih]

/-- an in-range byte address as Go sees it -/
theorem readMem_in_range (mem : Array Byte) (hs : mem.size < 2 ^ 31) (x : Word) (hx : x.toNat < mem.size) :
    readMem mem.toList x = some (mem.getD x.toNat 0) := by
  unfold readMem
  have h1 : x.toInt = x.toNat := by
    rw [BitVec.toInt_eq_toNat_cond]; simp; omega
  have h2 : ¬ x.toInt < 0 := by omega
  simp only [h2, if_false, h1, Int.toNat_natCast]
  simp [Array.getD, hx]

theorem add_ofNat_toNat (a : Word) (k : Nat) (h : a.toNat + k < 2 ^ 32) :
    (a + BitVec.ofNat 32 k).toNat = a.toNat + k := by
  rw [BitVec.toNat_add, BitVec.toNat_ofNat]
  have : k % 2 ^ 32 = k := Nat.mod_eq_of_lt (by omega)
  rw [this]
  exact Nat.mod_eq_of_lt h

theorem read_bytes (mem : Array Byte) (hs : mem.size < 2 ^ 31) (a : Word) (w : Nat)
    (hok : a.toNat + w ≤ mem.size) :
    ((List.range w).map (fun k => a + BitVec.ofNat 32 k)).mapM (readMem mem.toList) =
      some (((List.range w).map (fun k => a + BitVec.ofNat 32 k)).map (fun x => mem.getD x.toNat 0)) := by
  apply mapM_some
  intro x hx
  simp only [List.mem_map, List.mem_range] at hx
  obtain ⟨k, hk, rfl⟩ := hx
  apply readMem_in_range mem hs
  rw [add_ofNat_toNat a k (by omega)]
  omega


def wmStep (c : Model.Context) (p : Word × Byte) : Option Model.Context :=
  if p.1.toInt < 0 ∨ c.Memory.length ≤ p.1.toInt.toNat then none
  else some { c with Memory := c.Memory.set p.1.toInt.toNat p.2 }

theorem writeMemory_eq (ctx : Model.Context) (e : Gen.Execution) :
    writeMemory ctx e = e.MemoryChanges.foldlM wmStep ctx := by
  unfold writeMemory wmStep
  congr 1

theorem write_bytes (l : List (Word × Byte)) :
    ∀ (ctx : Model.Context) (mem : Array Byte), ctx.Memory = mem.toList → mem.size < 2 ^ 31 →
      (∀ p ∈ l, p.1.toNat < mem.size) →
      ∃ ctx', l.foldlM wmStep ctx = some ctx' ∧
        ctx'.Memory = (l.foldl (fun mm (p : Word × Byte) => mm.set! p.1.toNat p.2) mem).toList ∧
        ctx'.Registers = ctx.Registers ∧ ctx'.rat = ctx.rat ∧ ctx'.Transaction = ctx.Transaction := by
  induction l with
  | nil => intro ctx mem h _ _; exact ⟨ctx, rfl, h, rfl, rfl, rfl⟩
  | cons p ps ih =>
    intro ctx mem hm hs hin
    have hp := hin p (by simp)
    have h1 : p.1.toInt = p.1.toNat := by
      rw [BitVec.toInt_eq_toNat_cond]; simp; omega
    have hlen : ctx.Memory.length = mem.size := by rw [hm]; simp
    have hstep : wmStep ctx p = some { ctx with Memory := ctx.Memory.set p.1.toNat p.2 } := by
      unfold wmStep
      rw [h1, hlen]
      have : ¬ (((p.1.toNat : Nat) : Int) < 0 ∨ mem.size ≤ ((p.1.toNat : Nat) : Int).toNat) := by
        simp; omega
      rw [if_neg this]
      simp
    have hm' : ({ ctx with Memory := ctx.Memory.set p.1.toNat p.2 } : Model.Context).Memory =
        (mem.set! p.1.toNat p.2).toList := by
      simp [hm, Array.set!, Array.toList_setIfInBounds]
    obtain ⟨ctx', h2, h3, h4, h5, h6⟩ := ih _ (mem.set! p.1.toNat p.2) hm' (by simpa using hs)
      (fun q hq => by simpa using hin q (by simp [hq]))
    refine ⟨ctx', ?_, ?_, h4, h5, h6⟩
    · simp [List.foldlM_cons, hstep, h2]
    · simpa using h3



theorem lookup_cons' (k a : Reg) (b : Word) (l : List (Reg × Word)) :
    List.lookup k ((a, b) :: l) = if k == a then some b else l.lookup k := by
  cases h : (k == a) <;> simp [List.lookup, h]

theorem lookup_setList (k : Reg) (v : Word) : ∀ (l : List (Reg × Word)) (k' : Reg),
    (GoMap.setList k v l).lookup k' = if k' == k then some v else l.lookup k'
  | [], k' => by
    simp only [GoMap.setList, lookup_cons', List.lookup]
  | (a, b) :: rest, k' => by
    unfold GoMap.setList
    by_cases ha : a = k
    · subst ha
      simp only [beq_self_eq_true, if_true, lookup_cons']
      split <;> rfl
    · have ha' : (a == k) = false := by simpa using ha
      simp only [ha', Bool.false_eq_true, if_false, lookup_cons']
      by_cases h1 : k' = a
      · subst h1
        simp [ha']
      · have h1' : (k' == a) = false := by simpa using h1
        simp only [h1', Bool.false_eq_true, if_false]
        exact lookup_setList k v rest k'

theorem get1_set (m : GoMap Reg Word) (k k' : Reg) (v : Word) :
    GoMap.get1 (m.set k v) k' = if k' = k then v else GoMap.get1 m k' := by
  unfold GoMap.get1 GoMap.get GoMap.find? GoMap.set
  simp only [lookup_setList]
  by_cases h : k' = k
  · simp [h]
  · have : (k' == k) = false := by simpa using h
    simp [this, h]

theorem resOfGen_eq_ok (x : M Gen.Execution) (o : Spec.Outcome) (h : resOfGen x = Res.ok o) :
    ∃ e, x = .ok e ∧ wfExe e = true ∧ toOutcome e = o := by
  cases x with
  | error f => cases f <;> simp [resOfGen] at h
  | ok e =>
    simp only [resOfGen] at h
    by_cases hw : wfExe e = true
    · simp only [hw, if_true, Res.ok.injEq] at h
      exact ⟨e, rfl, hw, h⟩
    · simp [hw] at h

theorem resOfGen_eq_err (x : M Gen.Execution) (h : resOfGen x = Res.err) : ∃ msg, x = .error (.err msg) := by
  cases x with
  | error f => cases f with
    | err msg => exact ⟨msg, rfl⟩
    | panic msg => simp [resOfGen] at h
  | ok e =>
    simp only [resOfGen] at h
    split at h <;> simp at h

theorem cycles_ok (t : Gen.InstructionType) : ∃ c, Gen.InstructionType.Cycles t = .ok c := by
  cases t <;> exact ⟨_, rfl⟩

/-- a register result of the specification names a destination of the instruction, never `x0` -/
theorem exec_reg_in_writes (i : Spec.Instr) (pc : Word) (rf : Spec.RegFile) (labels : Spec.Labels)
    (bytes : List Byte) (o : Spec.Outcome) (h : Spec.exec i pc rf labels bytes = .ok o)
    (r : Reg) (v : Word) (hr : o.reg = some (r, v)) : r ∈ Spec.writes i ∧ r ≠ 0 := by
  have wr_reg : ∀ (rd : Reg) (x : Word), (Spec.wr rd x).reg = some (r, v) → r = rd ∧ r ≠ 0 := by
    intro rd x hx
    unfold Spec.wr at hx
    split at hx
    · simp at hx
    · rename_i hne
      simp at hx
      obtain ⟨h1, _⟩ := hx
      subst h1
      exact ⟨rfl, hne⟩
  cases i with
  | store wd src base off => simp [Spec.exec, pure, Except.pure] at h; subst h; simp at hr
  | r op rd rs1 rs2 =>
    simp only [Spec.exec, bind, Except.bind] at h
    cases hv : op.eval (Spec.rd0 rf rs1) (Spec.rd0 rf rs2) <;> simp [hv, pure, Except.pure] at h
    subst h; obtain ⟨h1, h2⟩ := wr_reg _ _ hr; subst h1; exact ⟨by simp [Spec.writes], h2⟩
  | br c rs1 rs2 l =>
    simp only [Spec.exec, Spec.branch, Spec.jump] at h
    split at h
    · split at h <;> simp [pure, Except.pure, throw, throwThe, MonadExceptOf.throw] at h; subst h; simp at hr
    · simp [pure, Except.pure] at h; subst h; simp at hr
  | beqz rs l =>
    simp only [Spec.exec, Spec.branch, Spec.jump] at h
    split at h
    · split at h <;> simp [pure, Except.pure, throw, throwThe, MonadExceptOf.throw] at h; subst h; simp at hr
    · simp [pure, Except.pure] at h; subst h; simp at hr
  | bnez rs l =>
    simp only [Spec.exec, Spec.branch, Spec.jump] at h
    split at h
    · split at h <;> simp [pure, Except.pure, throw, throwThe, MonadExceptOf.throw] at h; subst h; simp at hr
    · simp [pure, Except.pure] at h; subst h; simp at hr
  | j l =>
    simp only [Spec.exec, Spec.jump] at h
    split at h <;> simp [pure, Except.pure, throw, throwThe, MonadExceptOf.throw] at h; subst h; simp at hr
  | jal rd l =>
    simp only [Spec.exec, Spec.jump, bind, Except.bind] at h
    split at h <;> simp [pure, Except.pure, throw, throwThe, MonadExceptOf.throw] at h
    subst h; obtain ⟨h1, h2⟩ := wr_reg _ _ hr; subst h1; exact ⟨by simp [Spec.writes], h2⟩
  | jalr rd rs imm => simp [Spec.exec, pure, Except.pure] at h; subst h; obtain ⟨h1, h2⟩ := wr_reg _ _ hr; subst h1; exact ⟨by simp [Spec.writes], h2⟩
  | i op rd rs1 imm => simp [Spec.exec, pure, Except.pure] at h; subst h; obtain ⟨h1, h2⟩ := wr_reg _ _ hr; subst h1; exact ⟨by simp [Spec.writes], h2⟩
  | lui rd imm => simp [Spec.exec, pure, Except.pure] at h; subst h; obtain ⟨h1, h2⟩ := wr_reg _ _ hr; subst h1; exact ⟨by simp [Spec.writes], h2⟩
  | auipc rd imm => simp [Spec.exec, pure, Except.pure] at h; subst h; obtain ⟨h1, h2⟩ := wr_reg _ _ hr; subst h1; exact ⟨by simp [Spec.writes], h2⟩
  | load wd rd base off => simp [Spec.exec, pure, Except.pure] at h; subst h; obtain ⟨h1, h2⟩ := wr_reg _ _ hr; subst h1; exact ⟨by simp [Spec.writes], h2⟩
  | li rd imm => simp [Spec.exec, pure, Except.pure] at h; subst h; obtain ⟨h1, h2⟩ := wr_reg _ _ hr; subst h1; exact ⟨by simp [Spec.writes], h2⟩
  | mv rd rs => simp [Spec.exec, pure, Except.pure] at h; subst h; obtain ⟨h1, h2⟩ := wr_reg _ _ hr; subst h1; exact ⟨by simp [Spec.writes], h2⟩
  | nop => simp [Spec.exec, pure, Except.pure] at h; subst h; simp at hr
  | ret => simp [Spec.exec, pure, Except.pure] at h; subst h; simp at hr



/-- the bytes a well-formed load step reads, as the Go loop collects them -/
theorem load_bytes (ctx : Model.Context) (m : Spec.Machine) (hR : Rel ctx m) (i : Spec.Instr)
    (hok : Spec.memCheck m i = none) :
    (Spec.loadAddrs i m.rf).mapM (readMem ctx.Memory) = some (Spec.loadBytes m i) := by
  rw [hR.mem]
  unfold Spec.loadBytes
  cases i with
  | load w rd base off =>
    unfold Spec.memCheck at hok
    simp only at hok
    have hacc : Spec.accessOk m w (Spec.rd0 m.rf base + off) = true := by
      by_cases h : Spec.accessOk m w (Spec.rd0 m.rf base + off) = true
      · exact h
      · simp [h] at hok
    unfold Spec.accessOk at hacc
    simp only [Bool.and_eq_true, decide_eq_true_eq] at hacc
    unfold Spec.loadAddrs
    exact read_bytes m.mem hR.memSmall _ _ hacc.2
  | _ => simp [Spec.loadAddrs, List.mapM_nil]

section intro
variable (dc : Int) (app : App) (a : Arch) (g : Gen.Instr) (bytes : List Byte)
  (h1 : Int.tdiv a.pc.toInt 4 < app.instrs.length) (h2 : ¬ Int.tdiv a.pc.toInt 4 < 0)
  (h3 : app.instrs[(Int.tdiv a.pc.toInt 4).toNat]? = some g)
  (h4 : (g.memoryRead a.ctx 0#32).mapM (readMem a.ctx.Memory) = some bytes)

theorem stepArch_offEnd (h : ¬ Int.tdiv a.pc.toInt 4 < app.instrs.length) :
    stepArch dc app a = .halt .offEnd ⟨0, 0, 0, 0⟩ := by
  unfold stepArch
  simp only [h, not_false_eq_true, if_true]

include h1 h2 h3 h4

theorem stepArch_err (msg : String) (h5 : g.run a.ctx app.labels a.pc bytes 0#32 = .error (.err msg)) :
    ∃ c, stepArch dc app a = .halt .err c := by
  unfold stepArch
  simp only [h1, not_true_eq_false, if_false, h2, h3, h4, h5]
  exact ⟨_, rfl⟩

theorem stepArch_ret (e : Gen.Execution) (ex : Int) (h5 : g.run a.ctx app.labels a.pc bytes 0#32 = .ok e)
    (h6 : Gen.InstructionType.Cycles g.instructionType = .ok ex) (h7 : e.Return = true) :
    ∃ c, stepArch dc app a = .halt .ret c := by
  unfold stepArch
  simp only [h1, not_true_eq_false, if_false, h2, h3, h4, h5, h6, h7, if_true]
  exact ⟨_, rfl⟩

theorem stepArch_reg (e : Gen.Execution) (ex : Int) (h5 : g.run a.ctx app.labels a.pc bytes 0#32 = .ok e)
    (h6 : Gen.InstructionType.Cycles g.instructionType = .ok ex) (h7 : e.Return = false)
    (h8 : e.RegisterChange = true) :
    ∃ c, stepArch dc app a = .next ⟨writeRegister a.ctx e, if e.PcChange then e.NextPc else a.pc + 4#32⟩ c := by
  unfold stepArch
  simp only [h1, not_true_eq_false, if_false, h2, h3, h4, h5, h6, h7, h8, if_true, Bool.false_eq_true]
  exact ⟨_, rfl⟩

theorem stepArch_mem (e : Gen.Execution) (ex : Int) (c' : Model.Context) (h5 : g.run a.ctx app.labels a.pc bytes 0#32 = .ok e)
    (h6 : Gen.InstructionType.Cycles g.instructionType = .ok ex) (h7 : e.Return = false)
    (h8 : e.RegisterChange = false) (h9 : e.MemoryChange = true) (h10 : writeMemory a.ctx e = some c') :
    ∃ c, stepArch dc app a = .next ⟨c', if e.PcChange then e.NextPc else a.pc + 4#32⟩ c := by
  unfold stepArch
  simp only [h1, not_true_eq_false, if_false, h2, h3, h4, h5, h6, h7, h8, h9, h10, if_true, Bool.false_eq_true]
  exact ⟨_, rfl⟩

theorem stepArch_none (e : Gen.Execution) (ex : Int) (h5 : g.run a.ctx app.labels a.pc bytes 0#32 = .ok e)
    (h6 : Gen.InstructionType.Cycles g.instructionType = .ok ex) (h7 : e.Return = false)
    (h8 : e.RegisterChange = false) (h9 : e.MemoryChange = false) :
    ∃ c, stepArch dc app a = .next ⟨a.ctx, if e.PcChange then e.NextPc else a.pc + 4#32⟩ c := by
  unfold stepArch
  simp only [h1, not_true_eq_false, if_false, h2, h3, h4, h5, h6, h7, h8, h9, if_true, Bool.false_eq_true]
  exact ⟨_, rfl⟩

end intro

/-- case analysis of one specification step on an existing instruction -/
theorem spec_step_some (p : Spec.Asm.Program) (pc : Word) (m : Spec.Machine) (i : Spec.Instr) :
    (∃ why, Spec.stepInstr p pc m i = .inl (.notWf why)) ∨
    (Spec.memCheck m i = none ∧ ∃ e, Spec.exec i pc m.rf p.label (Spec.loadBytes m i) = .error e ∧ Spec.stepInstr p pc m i = .inl (.error e)) ∨
    (Spec.memCheck m i = none ∧ ∃ o, Spec.exec i pc m.rf p.label (Spec.loadBytes m i) = .ok o ∧ o.ret = true ∧ Spec.stepInstr p pc m i = .inl .ret) ∨
    (Spec.memCheck m i = none ∧ ∃ o, Spec.exec i pc m.rf p.label (Spec.loadBytes m i) = .ok o ∧ o.ret = false ∧
        Spec.targetOk p (Spec.nextPc pc o) = true ∧
        Spec.stepInstr p pc m i = .inr (Spec.nextPc pc o, Spec.applyOutcome m o,
          { pc := pc, loads := Spec.loadAddrs i m.rf, stores := o.mem.map (·.1) })) := by
  rcases Option.eq_none_or_eq_some (Spec.memCheck m i) with hm | ⟨why, hm⟩
  · obtain ⟨r, he⟩ : ∃ r, Spec.exec i pc m.rf p.label (Spec.loadBytes m i) = r := ⟨_, rfl⟩
    cases r with
    | error e =>
      right; left
      refine ⟨hm, e, he, ?_⟩
      unfold Spec.stepInstr; simp only [hm, he]
    | ok o =>
      by_cases hr : o.ret = true
      · right; right; left
        refine ⟨hm, o, he, hr, ?_⟩
        unfold Spec.stepInstr; simp only [hm, he, hr, if_true]
      · have hr' : o.ret = false := by simpa using hr
        by_cases ht : Spec.targetOk p (Spec.nextPc pc o) = true
        · right; right; right
          refine ⟨hm, o, he, hr', ht, ?_⟩
          unfold Spec.stepInstr; simp only [hm, he, hr', Bool.false_eq_true, if_false, ht, Bool.not_true]
        · left
          have ht' : Spec.targetOk p (Spec.nextPc pc o) = false := by simpa using ht
          refine ⟨"control transfer outside the program or unaligned", ?_⟩
          unfold Spec.stepInstr; simp only [hm, he, hr', Bool.false_eq_true, if_false, ht', Bool.not_false, if_true]
  · left
    refine ⟨why, ?_⟩
    unfold Spec.stepInstr; simp only [hm]



theorem rf_set (m : Spec.Machine) (r : Nat) (v : Word) (hr : r < m.regs.size) (r' : Nat) :
    ({ regs := m.regs.set! r v, mem := m.mem } : Spec.Machine).rf r' = if r' = r then v else m.rf r' := by
  unfold Spec.Machine.rf
  simp only [Array.set!, Array.getD_eq_getD_getElem?, Array.getElem?_setIfInBounds]
  by_cases h : r' = r
  · subst h; simp [hr]
  · have : ¬ r = r' := fun e => h e.symm
    simp [h, this]

/-- register write-back preserves the relation -/
theorem rel_writeRegister (ctx : Model.Context) (m : Spec.Machine) (hR : Rel ctx m) (e : Gen.Execution)
    (hrc : e.RegisterChange = true) (hwf : wfExe e = true)
    (h32 : ∀ r v, (toOutcome e).reg = some (r, v) → r < 32) :
    Rel (writeRegister ctx e) (Spec.applyOutcome m (toOutcome e)) := by
  unfold wfExe at hwf
  simp only [hrc, Bool.not_true, Bool.false_or, Bool.and_eq_true, Bool.or_eq_true, bne_iff_ne, ne_eq,
    beq_iff_eq, Bool.not_eq_true'] at hwf
  obtain ⟨_, hz, hmc⟩ := hwf
  have hmem : (toOutcome e).mem = [] := by simp [toOutcome, hmc]
  by_cases h0 : e.Register = 0
  · -- a write of (x0, 0): the register file of the specification does not change
    have hv : e.RegisterValue = 0#32 := by
      rcases hz with h | h
      · exact absurd h0 h
      · exact h
    have hreg : (toOutcome e).reg = none := by simp [toOutcome, hrc, h0]
    have hap : Spec.applyOutcome m (toOutcome e) = m := by
      unfold Spec.applyOutcome; simp [hreg, hmem]
    rw [hap]
    refine { hR with regs := ?_ }
    intro r
    unfold writeRegister
    simp only [get1_set, h0, hv]
    by_cases hr : r = 0
    · subst hr; simp [hR.zero]
    · simp [hr, hR.regs r]
  · have hreg : (toOutcome e).reg = some (e.Register, e.RegisterValue) := by
      simp [toOutcome, hrc, h0]
    have hlt : e.Register < m.regs.size := by rw [hR.size]; exact h32 _ _ hreg
    have hap : Spec.applyOutcome m (toOutcome e) = { regs := m.regs.set! e.Register e.RegisterValue, mem := m.mem } := by
      unfold Spec.applyOutcome; simp [hreg, hmem, hlt]
    rw [hap]
    refine { rat := hR.rat, tx := hR.tx, regs := ?_, size := ?_, zero := ?_, mem := hR.mem, memSmall := hR.memSmall }
    · intro r
      rw [rf_set m _ _ hlt]
      unfold writeRegister
      simp only [get1_set]
      by_cases hr : r = e.Register <;> simp [hr, hR.regs r]
    · simp [Array.set!, hR.size]
    · rw [rf_set m _ _ hlt]
      have : ¬ (0 = e.Register) := fun h => h0 h.symm
      simp [this, hR.zero]

/-- an instruction without architectural effect preserves the relation -/
theorem rel_none (ctx : Model.Context) (m : Spec.Machine) (hR : Rel ctx m) (e : Gen.Execution)
    (hrc : e.RegisterChange = false) (hmc : e.MemoryChange = false) :
    Rel ctx (Spec.applyOutcome m (toOutcome e)) := by
  have : Spec.applyOutcome m (toOutcome e) = m := by
    unfold Spec.applyOutcome toOutcome; simp [hrc, hmc]
  rw [this]; exact hR

/-- a store preserves the relation when its addresses are inside memory -/
theorem rel_writeMemory (ctx : Model.Context) (m : Spec.Machine) (hR : Rel ctx m) (e : Gen.Execution)
    (hrc : e.RegisterChange = false) (hmc : e.MemoryChange = true)
    (hin : ∀ p ∈ e.MemoryChanges, p.1.toNat < m.mem.size) :
    ∃ c', writeMemory ctx e = some c' ∧ Rel c' (Spec.applyOutcome m (toOutcome e)) := by
  obtain ⟨c', h1, h2, h3, h4, h5⟩ := write_bytes e.MemoryChanges ctx m.mem hR.mem hR.memSmall hin
  refine ⟨c', by rw [writeMemory_eq]; exact h1, ?_⟩
  have hap : Spec.applyOutcome m (toOutcome e) =
      { regs := m.regs, mem := e.MemoryChanges.foldl (fun mm (p : Word × Byte) => mm.set! p.1.toNat p.2) m.mem } := by
    unfold Spec.applyOutcome toOutcome; simp [hrc, hmc]
  rw [hap]
  refine { rat := by rw [h4]; exact hR.rat, tx := by rw [h5]; exact hR.tx, regs := ?_, size := hR.size, zero := hR.zero, mem := h2, memSmall := ?_ }
  · intro r; rw [h3]; exact hR.regs r
  · have : ∀ (l : List (Word × Byte)) (mm : Array Byte), (l.foldl (fun mm (p : Word × Byte) => mm.set! p.1.toNat p.2) mm).size = mm.size := by
      intro l; induction l with
      | nil => intro mm; rfl
      | cons p ps ih => intro mm; rw [List.foldl_cons, ih]; simp [Array.set!]
    rw [this]; exact hR.memSmall



theorem store_addrs_in_range (m : Spec.Machine) (hs : m.mem.size < 2 ^ 31) (i : Spec.Instr)
    (hm : Spec.memCheck m i = none) : ∀ a ∈ Spec.storeAddrs i m.rf, a.toNat < m.mem.size := by
  cases i with
  | store w src base off =>
    unfold Spec.memCheck at hm
    simp only at hm
    have hacc : Spec.accessOk m w (Spec.rd0 m.rf base + off) = true := by
      by_cases h : Spec.accessOk m w (Spec.rd0 m.rf base + off) = true
      · exact h
      · simp [h] at hm
    unfold Spec.accessOk at hacc
    simp only [Bool.and_eq_true, decide_eq_true_eq] at hacc
    intro a ha
    unfold Spec.storeAddrs at ha
    simp only [List.mem_map, List.mem_range] at ha
    obtain ⟨k, hk, rfl⟩ := ha
    rw [add_ofNat_toNat _ k (by omega)]
    omega
  | _ => intro a ha; simp [Spec.storeAddrs] at ha

theorem step_sim (dc : Int) (app : App) (hw : WfApp app) (ctx : Model.Context) (m : Spec.Machine)
    (hR : Rel ctx m) (pc : Word) (hpc : pc.toNat ≤ 4 * app.instrs.length) :
    (∀ pc' m' ev, Spec.step (specProg app) pc m = .inr (pc', m', ev) →
        ∃ ctx' c, stepArch dc app ⟨ctx, pc⟩ = .next ⟨ctx', pc'⟩ c ∧ Rel ctx' m' ∧
          pc'.toNat ≤ 4 * app.instrs.length) ∧
    (Spec.step (specProg app) pc m = .inl .offEnd → ∃ c, stepArch dc app ⟨ctx, pc⟩ = .halt .offEnd c) ∧
    (Spec.step (specProg app) pc m = .inl .ret → ∃ c, stepArch dc app ⟨ctx, pc⟩ = .halt .ret c) ∧
    (∀ e, Spec.step (specProg app) pc m = .inl (.error e) → ∃ c, stepArch dc app ⟨ctx, pc⟩ = .halt .err c) := by
  have hidx := pc_index pc app.instrs.length hw.small hpc
  cases hk : app.instrs[pc.toNat / 4]? with
  | none =>
    have hs : Spec.step (specProg app) pc m = .inl .offEnd := by
      unfold Spec.step; simp only [specProg_instr, hk, Option.map_none]
    have hoff : ¬ Int.tdiv (⟨ctx, pc⟩ : Arch).pc.toInt 4 < app.instrs.length := by
      show ¬ Int.tdiv pc.toInt 4 < app.instrs.length
      rw [hidx]
      have := List.getElem?_eq_none_iff.mp hk
      omega
    rw [hs]
    refine ⟨fun _ _ _ h => by simp at h, fun _ => ⟨_, stepArch_offEnd dc app ⟨ctx, pc⟩ hoff⟩, fun h => by simp at h, fun _ h => by simp at h⟩
  | some g =>
    have hs : Spec.step (specProg app) pc m = Spec.stepInstr (specProg app) pc m (ofGen g) := by
      unfold Spec.step; simp only [specProg_instr, hk, Option.map_some]
    have hlt : pc.toNat / 4 < app.instrs.length := (List.getElem?_eq_some_iff.mp hk).1
    have hmem : g ∈ app.instrs := List.mem_of_getElem? hk
    have hfwd := hw.nofwd g hmem
    have h1 : Int.tdiv (⟨ctx, pc⟩ : Arch).pc.toInt 4 < app.instrs.length := by
      show Int.tdiv pc.toInt 4 < app.instrs.length
      rw [hidx]; omega
    have h2 : ¬ Int.tdiv (⟨ctx, pc⟩ : Arch).pc.toInt 4 < 0 := by
      show ¬ Int.tdiv pc.toInt 4 < 0
      rw [hidx]; omega
    have h3 : app.instrs[(Int.tdiv (⟨ctx, pc⟩ : Arch).pc.toInt 4).toNat]? = some g := by
      show app.instrs[(Int.tdiv pc.toInt 4).toNat]? = some g
      rw [hidx, Int.toNat_natCast]; exact hk
    have hz := hz_of_rel ctx m hR
    have hview := view_eq ctx m hR
    have hla : g.memoryRead ctx 0#32 = Spec.loadAddrs (ofGen g) m.rf := by
      have := Props.C02.load_addrs_ok g ctx 0#32 (by rw [hfwd]; exact hz)
      rw [hfwd, hview] at this
      exact this
    rw [hs]
    rcases spec_step_some (specProg app) pc m (ofGen g) with ⟨why, hn⟩ | ⟨hm, e, he, hst⟩ | ⟨hm, o, he, hret, hst⟩ | ⟨hm, o, he, hret, htgt, hst⟩
    · rw [hn]
      exact ⟨fun _ _ _ h => by simp at h, fun h => by simp at h, fun h => by simp at h, fun _ h => by simp at h⟩
    all_goals
      have h4 : (g.memoryRead (⟨ctx, pc⟩ : Arch).ctx 0#32).mapM (readMem (⟨ctx, pc⟩ : Arch).ctx.Memory) = some (Spec.loadBytes m (ofGen g)) := by
        show (g.memoryRead ctx 0#32).mapM (readMem ctx.Memory) = some _
        rw [hla]; exact load_bytes ctx m hR (ofGen g) hm
      have hex := Props.C02.exec_ok g ctx app.labels pc (Spec.loadBytes m (ofGen g)) 0#32 (by rw [hfwd]; exact hz)
        (by rw [hfwd, hview]; simp [Spec.loadBytes])
      rw [hfwd, hview] at hex
      rw [specProg_label] at he
      rw [he] at hex
    · -- defined error
      rw [hst]
      obtain ⟨msg, hrun⟩ := resOfGen_eq_err _ (by simpa [resOfSpec] using hex)
      exact ⟨fun _ _ _ h => by simp at h, fun h => by simp at h, fun h => by simp at h,
        fun _ _ => stepArch_err dc app ⟨ctx, pc⟩ g _ h1 h2 h3 h4 msg hrun⟩
    · -- ret
      rw [hst]
      obtain ⟨e, hrun, hwf, hout⟩ := resOfGen_eq_ok _ o (by simpa [resOfSpec] using hex)
      obtain ⟨ex, hcyc⟩ := cycles_ok g.instructionType
      have hR' : e.Return = true := by rw [← hout] at hret; simpa [toOutcome] using hret
      exact ⟨fun _ _ _ h => by simp at h, fun h => by simp at h,
        fun _ => stepArch_ret dc app ⟨ctx, pc⟩ g _ h1 h2 h3 h4 e ex hrun hcyc hR', fun _ h => by simp at h⟩
    · -- a continuing step
      rw [hst]
      refine ⟨?_, fun h => by simp at h, fun h => by simp at h, fun _ h => by simp at h⟩
      intro pc' m' ev heq
      simp only [Sum.inr.injEq, Prod.mk.injEq] at heq
      obtain ⟨hpc', hm', _⟩ := heq
      obtain ⟨e, hrun, hwf, hout⟩ := resOfGen_eq_ok _ o (by simpa [resOfSpec] using hex)
      obtain ⟨ex, hcyc⟩ := cycles_ok g.instructionType
      have hRet : e.Return = false := by rw [← hout] at hret; simpa [toOutcome] using hret
      have hnext : Spec.nextPc pc o = (if e.PcChange then e.NextPc else pc + 4#32) := by
        rw [← hout]; unfold Spec.nextPc toOutcome
        by_cases hp : e.PcChange = true <;> simp [hp]
      have hbound : pc'.toNat ≤ 4 * app.instrs.length := by
        rw [← hpc']
        unfold Spec.targetOk at htgt
        simp only [Bool.and_eq_true, beq_iff_eq, decide_eq_true_eq] at htgt
        have : (specProg app).instrs.size = app.instrs.length := by simp [specProg]
        omega
      subst hpc' hm'
      have he' : Spec.exec (ofGen g) pc m.rf (labelsOf app.labels) (Spec.loadBytes m (ofGen g)) = .ok o := he
      by_cases hrc : e.RegisterChange = true
      · obtain ⟨c, hc⟩ := stepArch_reg dc app ⟨ctx, pc⟩ g _ h1 h2 h3 h4 e ex hrun hcyc hRet hrc
        refine ⟨writeRegister ctx e, c, ?_, ?_, hbound⟩
        · rw [hnext]; exact hc
        · rw [← hout]
          apply rel_writeRegister ctx m hR e hrc hwf
          intro r v hrv
          rw [hout] at hrv
          have := (exec_reg_in_writes _ _ _ _ _ _ he' r v hrv).1
          exact hw.regs g hmem r (List.mem_append_right _ this)
      · have hrc' : e.RegisterChange = false := by simpa using hrc
        by_cases hmc : e.MemoryChange = true
        · have hin : ∀ p ∈ e.MemoryChanges, p.1.toNat < m.mem.size := by
            intro p hp
            have hsa := Props.C02.spec_store_addrs _ _ _ _ _ _ he'
            have hom : o.mem = e.MemoryChanges := by rw [← hout]; simp [toOutcome, hmc]
            have : p.1 ∈ Spec.storeAddrs (ofGen g) m.rf := by
              rw [← hsa, hom]; exact List.mem_map_of_mem hp
            exact store_addrs_in_range m hR.memSmall _ hm _ this
          obtain ⟨c', hwm, hrel⟩ := rel_writeMemory ctx m hR e hrc' hmc hin
          obtain ⟨c, hc⟩ := stepArch_mem dc app ⟨ctx, pc⟩ g _ h1 h2 h3 h4 e ex c' hrun hcyc hRet hrc' hmc hwm
          refine ⟨c', c, ?_, ?_, hbound⟩
          · rw [hnext]; exact hc
          · rw [← hout]; exact hrel
        · have hmc' : e.MemoryChange = false := by simpa using hmc
          obtain ⟨c, hc⟩ := stepArch_none dc app ⟨ctx, pc⟩ g _ h1 h2 h3 h4 e ex hrun hcyc hRet hrc' hmc'
          refine ⟨ctx, c, ?_, ?_, hbound⟩
          · rw [hnext]; exact hc
          · rw [← hout]; exact rel_none ctx m hR e hrc' hmc'


end Proofs.Refine

/-
  Proofs/Mvp60Witness2.lean — the model of MVP-6.0 on the pinned witnesses of KNOWN_FINDINGS.json (continued from
  Proofs/Mvp60Witness.lean): KF-ooo-mem, KF-ooo-spec-error, and the witness of KF-ooo-shadow (on which MVP-6.0 is right).
-/
import MajoranaVerif.Proofs.Mvp60Witness
open GoInt

namespace Proofs.Mvp60Witness
open Model.Mvp60

def ctx0 (n : Nat) : Model.Context := { Memory := mem11 n }

/-! ### KF-ooo-mem: no memory-dependence tracking

`lb t2, 7(zero); sh zero, 4(zero)`: the load misses L3 and waits; the store (no register hazard) overtakes it, goes to
a write unit and reaches memory after 309 cycles; the load's line is fetched from memory one cycle EARLIER, so L3 holds
the bytes from before the store, and the final flush of L3 writes the stale line back over the stored half-word. -/

def memApp : Model.Seq.App :=
  { instrs := [.lb_ { rd := 7, offset := 7#32, rs := 0 }, .sh_ { rd := 0, rs := 0, offset := 4#32 }], labels := {} }

def stored : List Byte := [0x11#8, 0x11#8, 0x11#8, 0x11#8, 0#8, 0#8, 0x11#8, 0x11#8]

theorem mem_seq : obsSeq (Model.Seq.runMvp1 memApp ⟨ctx0 128, 0⟩ 10) 7 0 = (some .offEnd, 0x11#32, 0#32, stored) := by
  decide +kernel

theorem mem_p1 : obs (run memApp (ctx0 128) 1 1 1000) 7 0 = (some .offEnd, 932, 2, 0x11#32, 0#32, stored) := by
  rw [← Proofs.Mvp60Fast.runFast_eq_run]; decide +kernel

/-- two units: the run ends normally and the store is LOST (`Memory[4..5]` is `0x11` again) -/
theorem mem_p2 : obs (run memApp (ctx0 128) 2 2 1000) 7 0 = (some .offEnd, 934, 2, 0x11#32, 0#32, m11) := by
  rw [← Proofs.Mvp60Fast.runFast_eq_run]; decide +kernel

/-! ### KF-ooo-spec-error: an instruction on the wrong path raises its error

`li a7, 0; beq a7, zero, l1; div t2, a7, zero; l1:`: with two units the division is executed in the same cycle as the
(taken) branch in front of it, and its division-by-zero error ends the run (`Run` returns `0, err`). -/

def errApp : Model.Seq.App :=
  { instrs := [.li_ { rd := 17, imm := 0#32 }, .beq_ { rs1 := 17, rs2 := 0, label := "l1" },
               .div_ { rd := 7, rs1 := 17, rs2 := 0 }],
    labels := GoMap.ofList [("l1", 12#32)] }

theorem err_seq : obsSeq (Model.Seq.runMvp1 errApp ⟨ctx0 64, 0⟩ 10) 7 17 = (some .offEnd, 0#32, 0#32, m11) := by
  decide +kernel

theorem err_p1 : obs (run errApp (ctx0 64) 1 1 1000) 7 17 = (some .offEnd, 321, 2, 0#32, 0#32, m11) := by
  rw [← Proofs.Mvp60Fast.runFast_eq_run]; decide +kernel

theorem err_p2 : obs (run errApp (ctx0 64) 2 2 1000) 7 17 = (some .err, 316, 3, 0#32, 0#32, m11) := by
  rw [← Proofs.Mvp60Fast.runFast_eq_run]; decide +kernel

/-! ### the witness of KF-ooo-shadow is executed CORRECTLY by MVP-6.0

`lw t5, 104(zero); bnez t5, l3; auipc a4, …; l3:`: issue is in order and the branch waits for the load (read-after-write
on `t5`), so nothing younger passes it; with two units the `auipc` is executed in the cycle of the taken branch (three
instructions executed) but the drain before the flush drops its result (`SequenceID > from`).  The finding's witness
variant is MVP-6.1; on MVP-6.0 the generated cases that fall under its trigger and go wrong are instances of
`drop_p2` / `dead_p2` above. -/

def shadowApp : Model.Seq.App :=
  { instrs := [.lw_ { rd := 30, offset := 104#32, rs := 0 }, .bnez_ { rs := 30, label := "l3" },
               .auipc_ { rd := 14, imm := 232414541#32 }],
    labels := GoMap.ofList [("l3", 12#32)] }

theorem shadow_seq : obsSeq (Model.Seq.runMvp1 shadowApp ⟨ctx0 128, 0⟩ 10) 30 14 = (some .offEnd, 0x11111111#32, 0#32, m11) := by
  decide +kernel

theorem shadow_p2 : obs (run shadowApp (ctx0 128) 2 2 1000) 30 14 = (some .offEnd, 940, 3, 0x11111111#32, 0#32, m11) := by
  rw [← Proofs.Mvp60Fast.runFast_eq_run]; decide +kernel

end Proofs.Mvp60Witness

/-
  Proofs/SeqMachine.lean — lemmas about the cycle-accurate model of MVP-1/MVP-2
  (Model/SeqMachine.lean): the cycle counter is an accumulator, the architectural
  evolution does not depend on the fetch policy, cost components are non-negative.
-/
import MajoranaVerif.Model.SeqMachine
open GoInt Model.Seq

namespace Proofs.Seq

/-! facts about the REGENERATED constants (a changed latency table re-opens them) -/
theorem memAccess_pos : 0 < Gen.Latency.MemoryAccess := by decide
theorem l1_pos : 0 < Gen.Latency.L1Access := by decide
theorem l1_le_mem : Gen.Latency.L1Access ≤ Gen.Latency.MemoryAccess := by decide
theorem regAccess_nonneg : 0 ≤ Gen.Latency.RegisterAccess := by decide
theorem decode1_pos : 0 < Gen.Consts.mvp1.cyclesDecode := by decide
theorem decode2_pos : 0 < Gen.Consts.mvp2.cyclesDecode := by decide
theorem decode_eq : Gen.Consts.mvp2.cyclesDecode = Gen.Consts.mvp1.cyclesDecode := by decide

/-- every execute latency in the table is positive -/
theorem cycles_pos (t : Gen.InstructionType) (c : Int) (h : Gen.InstructionType.Cycles t = .ok c) : 0 < c := by
  cases t <;> simp [Gen.InstructionType.Cycles, pure, Except.pure] at h <;> omega


/-- inversion of a continuing step -/
theorem stepArch_next_inv (dc : Int) (app : App) (a a' : Arch) (c : StepCost)
    (h : stepArch dc app a = .next a' c) :
    ∃ i bytes e ex,
      0 ≤ Int.tdiv a.pc.toInt 4 ∧ Int.tdiv a.pc.toInt 4 < app.instrs.length ∧
      app.instrs[(Int.tdiv a.pc.toInt 4).toNat]? = some i ∧
      (i.memoryRead a.ctx 0#32).mapM (readMem a.ctx.Memory) = some bytes ∧
      i.run a.ctx app.labels a.pc bytes 0#32 = .ok e ∧
      Gen.InstructionType.Cycles i.instructionType = .ok ex ∧
      e.Return = false ∧
      a'.pc = (if e.PcChange then e.NextPc else a.pc + 4#32) ∧
      c.decode = dc ∧ c.execute = ex ∧
      c.memRead = (if (i.memoryRead a.ctx 0#32).isEmpty then 0 else Gen.Latency.MemoryAccess) ∧
      ((e.RegisterChange = true ∧ a'.ctx = writeRegister a.ctx e ∧ c.writeBack = Gen.Latency.RegisterAccess) ∨
       (e.RegisterChange = false ∧ e.MemoryChange = true ∧ writeMemory a.ctx e = some a'.ctx ∧ c.writeBack = Gen.Latency.MemoryAccess) ∨
       (e.RegisterChange = false ∧ e.MemoryChange = false ∧ a'.ctx = a.ctx ∧ c.writeBack = 0)) := by
  unfold stepArch at h
  simp only at h
  by_cases h1 : Int.tdiv a.pc.toInt 4 < app.instrs.length
  · simp only [h1, not_true_eq_false, if_false] at h
    by_cases h2 : Int.tdiv a.pc.toInt 4 < 0
    · simp [h2] at h
    · simp only [h2, if_false] at h
      cases h3 : app.instrs[(Int.tdiv a.pc.toInt 4).toNat]? with
      | none => simp [h3] at h
      | some i =>
        simp only [h3] at h
        cases h4 : (i.memoryRead a.ctx 0#32).mapM (readMem a.ctx.Memory) with
        | none => simp [h4] at h
        | some bytes =>
          simp only [h4] at h
          cases h5 : i.run a.ctx app.labels a.pc bytes 0#32 with
          | error f => cases f <;> simp [h5] at h
          | ok e =>
            simp only [h5] at h
            cases h6 : Gen.InstructionType.Cycles i.instructionType with
            | error f => simp [h6] at h
            | ok ex =>
              simp only [h6] at h
              by_cases h7 : e.Return = true
              · simp [h7] at h
              · simp only [h7, if_false] at h
                have h7' : e.Return = false := by simpa using h7
                refine ⟨i, bytes, e, ex, by omega, h1, rfl, h4, h5, h6, h7', ?_⟩
                by_cases h8 : e.RegisterChange = true
                · simp only [h8, if_true] at h
                  injection h with ha hc; subst ha; subst hc
                  exact ⟨rfl, rfl, rfl, rfl, Or.inl ⟨h8, rfl, rfl⟩⟩
                · simp only [h8, if_false] at h
                  have h8' : e.RegisterChange = false := by simpa using h8
                  by_cases h9 : e.MemoryChange = true
                  · simp only [h9, if_true] at h
                    cases h10 : writeMemory a.ctx e with
                    | none => simp [h10] at h
                    | some cx =>
                      simp only [h10] at h
                      injection h with ha hc; subst ha; subst hc
                      exact ⟨rfl, rfl, rfl, rfl, Or.inr (Or.inl ⟨h8', h9, rfl, rfl⟩)⟩
                  · simp only [h9, if_false] at h
                    have h9' : e.MemoryChange = false := by simpa using h9
                    injection h with ha hc; subst ha; subst hc
                    exact ⟨rfl, rfl, rfl, rfl, Or.inr (Or.inr ⟨h8', h9', rfl, rfl⟩)⟩
  · simp [h1] at h

/-- all cost components of an iteration are non-negative -/
def StepCost.nonneg (c : StepCost) : Prop := 0 ≤ c.decode ∧ 0 ≤ c.memRead ∧ 0 ≤ c.execute ∧ 0 ≤ c.writeBack

theorem memRead_nonneg (b : Bool) : (0 : Int) ≤ (if b then 0 else Gen.Latency.MemoryAccess) := by
  cases b <;> simp <;> exact Int.le_of_lt memAccess_pos

theorem next_cost_nonneg (dc : Int) (hdc : 0 ≤ dc) (app : App) (a a' : Arch) (c : StepCost)
    (h : stepArch dc app a = .next a' c) : StepCost.nonneg c ∧ dc + 1 ≤ c.total := by
  obtain ⟨i, bytes, e, ex, _, _, _, _, _, h6, _, _, hd, he, hm, hw⟩ := stepArch_next_inv dc app a a' c h
  have hex := cycles_pos _ _ h6
  have hmr := memRead_nonneg (i.memoryRead a.ctx 0#32).isEmpty
  have hma := memAccess_pos
  have hra := regAccess_nonneg
  have hwb : 0 ≤ c.writeBack := by
    rcases hw with ⟨_, _, hw⟩ | ⟨_, _, _, hw⟩ | ⟨_, _, _, hw⟩ <;> rw [hw] <;> omega
  refine ⟨⟨by omega, by rw [hm]; exact hmr, by omega, hwb⟩, ?_⟩
  unfold StepCost.total
  rw [hm]
  omega

theorem halt_cost_nonneg (dc : Int) (hdc : 0 ≤ dc) (app : App) (a : Arch) (hh : Halt) (c : StepCost)
    (h : stepArch dc app a = .halt hh c) : StepCost.nonneg c := by
  unfold stepArch at h
  simp only at h
  repeat' split at h
  all_goals (simp only [StepResult.halt.injEq, reduceCtorEq] at h)
  all_goals (obtain ⟨_, rfl⟩ := h)
  all_goals (unfold StepCost.nonneg; refine ⟨?_, ?_, ?_, ?_⟩)
  all_goals (first
    | exact hdc | exact Int.le_refl 0 | exact Int.le_of_lt memAccess_pos | exact regAccess_nonneg
    | exact memRead_nonneg _
    | (exact Int.le_of_lt (cycles_pos _ _ (by assumption))))

end Proofs.Seq

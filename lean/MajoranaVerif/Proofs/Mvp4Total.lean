/-
  Proofs/Mvp4Total.lean — no unit of MVP-4 panics along a run whose unpipelined counterpart does not panic
  (the execute side; the fetch, decode and write units are in Proofs/Mvp4Live.lean), and the per-tick theorem
  with the measure: every tick succeeds, keeps the simulation relation and the liveness invariants, and either
  executes one instruction or strictly decreases `phi`.
-/
import MajoranaVerif.Proofs.Mvp4Sim
open GoInt Model Model.Mvp4 Model.Seq
open Proofs.Mmu (DWf Coh applyChanges base)

set_option linter.unusedSimpArgs false
set_option linter.unusedVariables false

namespace Proofs.Mvp4

/-- the unpipelined machine does not panic in state `a` -/
def SeqGood (app : App) (a : Arch) : Prop := ∀ w c, stepArch dc app a ≠ .halt (.panic w) c

/-- `executeUnit.run` never panics when the unpipelined machine does not -/
theorem euRun_ok {app : App} {s : State} {a : Arch} {r : Runner} {bytes : List Byte}
    (hb : Back s a) (hpc : r.pc = a.pc) (hi : instrAt app r.pc = .ok r.instr) (hf : fwdOf r.instr = {})
    (hnw : NoWriter s.writeBus.inside r.instr.readRegisters)
    (hbytes : (r.instr.memoryRead a.ctx 0#32).mapM (readMem a.ctx.Memory) = some bytes)
    (hok : stepOk app a = true) (hgood : SeqGood app a) :
    ∃ s2 out, euRun app s r bytes = .ok (s2, out) := by
  have hi' : instrAt app a.pc = .ok r.instr := hpc ▸ hi
  have hsr := sameRegs_of_noWriter hb hnw
  have hrun : r.instr.run s.ctx app.labels r.pc bytes 0#32 = r.instr.run a.ctx app.labels a.pc bytes 0#32 := by
    rw [hpc]; exact run_congr r.instr hf hsr app.labels a.pc bytes 0#32
  have hstep := stepArch_run hi' hbytes
  unfold euRun
  simp only
  rw [hrun]
  cases hr : r.instr.run a.ctx app.labels a.pc bytes 0#32 with
  | error f =>
    cases f with
    | panic w =>
      exfalso
      have : ∃ c, stepTail app a r.instr bytes = .halt (.panic w) c := by unfold stepTail; simp only [hr]; exact ⟨_, rfl⟩
      obtain ⟨c, hc⟩ := this
      exact hgood w c (by rw [hstep]; exact hc)
    | err msg => exact ⟨_, _, rfl⟩
  | ok e =>
    simp only
    by_cases hret : e.Return = true
    · simp only [hret, if_true]; exact ⟨_, _, rfl⟩
    · have hret' : e.Return = false := by simpa using hret
      simp only [hret', Bool.false_eq_true, if_false]
      have hshape := run_shape r.instr a.ctx app.labels a.pc bytes 0#32 e hr
      obtain ⟨hstok, _⟩ := stepOk_run hok hi' hbytes hr
      by_cases hmc : e.MemoryChange = true
      · have hrc : e.RegisterChange = false := by
          cases hx : e.RegisterChange with
          | false => rfl
          | true => have := hshape.regNoMem hx; rw [hmc] at this; cases this
        have hsok := hstok hret' hrc hmc
        obtain ⟨p0, ps, hchs, hcons, hall⟩ := Proofs.Mmu.storeOk_spec hsok
        obtain ⟨F0, hcoh, hmemq⟩ := hb.coh
        have hlen0 : a.ctx.Memory.length = F0.length := by rw [hmemq, applyMemQ_length]
        have hp0 := hall p0.1 (by rw [hchs]; simp)
        simp only [hmc, if_true]
        rcases Proofs.Mmu.resident_or_not hL hb.dwf p0.1.toInt hp0.1 with hres | hmiss
        · obtain ⟨l, hl, hlb⟩ := hres
          have hresall : ∃ l ∈ s.mmu.l1d.lines, ∀ p ∈ e.MemoryChanges, l.lo = base (L : Nat) p.1.toInt :=
            ⟨l, hl, fun p hp => by rw [hlb]; exact ((hall p.1 (List.mem_map.mpr ⟨p, hp, rfl⟩)).2.2.1).symm⟩
          obtain ⟨u1, hde, _, hd1, hc1, hperm⟩ := Proofs.Mmu.doesExist_hit hL hb.dwf hcoh e (by rw [← hlen0]; exact hsok) hresall
          obtain ⟨l1, hl1, hlb1⟩ : ∃ l ∈ u1.l1d.lines, ∀ p ∈ e.MemoryChanges, l.lo = base (L : Nat) p.1.toInt := by
            obtain ⟨l, hl, hlb⟩ := hresall
            exact ⟨l, hperm.mem_iff.mpr hl, hlb⟩
          obtain ⟨u2, hwr, _⟩ := Proofs.Mmu.write_cached_ok hL hd1 hc1 e (by rw [← hlen0]; exact hsok) ⟨l1, hl1, hlb1⟩
          simp only [hde, bind, Except.bind, if_true, hwr, pure, Except.pure]
          exact ⟨_, _, rfl⟩
        · have hde := Proofs.Mmu.doesExist_miss (u := s.mmu) e p0 ps hchs hmiss
          simp only [hde, bind, Except.bind, Bool.false_eq_true, if_false, pure, Except.pure]
          exact ⟨_, _, rfl⟩
      · have hmc' : e.MemoryChange = false := by simpa using hmc
        simp only [hmc', Bool.false_eq_true, if_false, pure, Except.pure, bind, Except.bind]
        exact ⟨_, _, rfl⟩


theorem euIssue_ok {app : App} {s : State} {a : Arch} {eu : ExecUnit} {r : Runner}
    (hb : Back s a) (hsid : eu.storeID = s.eu.storeID)
    (hpc : r.pc = a.pc) (hi : instrAt app r.pc = .ok r.instr) (hnf : NoFwd app)
    (hok : stepOk app a = true) (hgood : SeqGood app a) :
    ∃ s2 out, euIssue app s eu r = .ok (s2, out) := by
  have hf := hnf.at hi
  have hi' : instrAt app a.pc = .ok r.instr := hpc ▸ hi
  have hb' : BackRel s.ctx s.pwmi s.writeBus.inside s.mmu.l1d s.eu.storeID a := hb
  unfold euIssue
  simp only
  by_cases hhz : isWriteDataHazard s.ctx.PendingWriteRegisters r.instr.readRegisters = true
  · simp only [hhz, if_true]; exact ⟨_, _, rfl⟩
  · have hhz' : isWriteDataHazard s.ctx.PendingWriteRegisters r.instr.readRegisters = false := by simpa using hhz
    simp only [hhz', Bool.false_eq_true, if_false]
    have hnw := noWriter_of_hazard hb' hhz'
    have hsr := sameRegs_of_noWriter hb' hnw
    have haddr : r.instr.memoryRead s.ctx 0#32 = r.instr.memoryRead a.ctx 0#32 := memoryRead_congr r.instr hf hsr 0#32
    rw [haddr]
    cases haddrs : r.instr.memoryRead a.ctx 0#32 with
    | nil =>
      simp only [List.isEmpty_nil, Bool.not_true, Bool.false_eq_true, if_false]
      exact euRun_ok (s := { s with eu := eu, bu := s.bu.assert r }) (hb.with_eu_bu _ _ hsid) hpc hi hf hnw
        (by rw [haddrs]; rfl) hok hgood
    | cons a0 as =>
      simp only [List.isEmpty_cons, Bool.not_false, if_true]
      by_cases hpw : ((a0 :: as).any fun a => pendingWriteMemoryIntention s.pwmi (lineOf a)) = true
      · simp only [hpw, if_true]; exact ⟨_, _, rfl⟩
      · have hpw' : ((a0 :: as).any fun a => pendingWriteMemoryIntention s.pwmi (lineOf a)) = false := by simpa using hpw
        simp only [hpw', Bool.false_eq_true, if_false]
        have hlok := stepOk_load hok hi'
        rw [haddrs] at hlok
        have hlspec := Proofs.Mmu.loadOk_spec hlok
        have h00 := (hlspec a0 (by simp)).1
        obtain ⟨F0, hcoh, hmemq⟩ := hb'.coh
        have hlen0 : a.ctx.Memory.length = F0.length := by rw [hmemq, applyMemQ_length]
        rcases Proofs.Mmu.resident_or_not hL hb'.dwf a0.toInt h00 with hres | hmiss
        · obtain ⟨bytes, u', hg, _⟩ :=
            Proofs.Mmu.getFromL1D_hit hL hb'.dwf hcoh a0 as (by rw [← hlen0]; exact hlok) hres
          simp only [hg, bind, Except.bind, pure, Except.pure]
          exact ⟨_, _, rfl⟩
        · have hg := Proofs.Mmu.getFromL1D_miss (u := s.mmu) a0 as hmiss
          simp only [hg, bind, Except.bind, pure, Except.pure]
          exact ⟨_, _, rfl⟩

theorem euMemDone_ok {app : App} {s : State} {a : Arch} {eu : ExecUnit} {r : Runner}
    (hb : Back s a) (hsid : eu.storeID = s.eu.storeID) (hp : PendOk s a r)
    (hmem : eu.memory = s.eu.memory) (haddrs : eu.addrs = s.eu.addrs)
    (hpc : r.pc = a.pc) (hi : instrAt app r.pc = .ok r.instr) (hnf : NoFwd app) (hok : stepOk app a = true)
    (hgood : SeqGood app a) :
    ∃ s2 out, euMemDone app s eu r = .ok (s2, out) := by
  have hf := hnf.at hi
  have hi' : instrAt app a.pc = .ok r.instr := hpc ▸ hi
  have hb' : BackRel s.ctx s.pwmi s.writeBus.inside s.mmu.l1d s.eu.storeID a := hb
  unfold euMemDone
  cases hm : eu.memory with
  | some m =>
    simp only
    have hbytes := hp.memHit m (by rw [← hmem]; exact hm)
    exact euRun_ok (s := { s with eu := { eu with memory := none } }) (hb.with_eu_bu _ _ hsid) hpc hi hf
      hp.noWriter hbytes hok hgood
  | none =>
    simp only
    obtain ⟨a0, as, hea, hra, hnoq, hmiss⟩ := hp.memMiss (by rw [← hmem]; exact hm)
    have heua : eu.addrs = a0 :: as := by rw [haddrs]; exact hea
    simp only [heua]
    have hlok := stepOk_load hok hi'
    rw [hra] at hlok
    have hlspec := Proofs.Mmu.loadOk_spec hlok
    have h00 := (hlspec a0 (by simp)).1
    obtain ⟨F0, hcoh, hmemq⟩ := hb'.coh
    have hlen0 : a.ctx.Memory.length = F0.length := by rw [hmemq, applyMemQ_length]
    obtain ⟨line, u1, mem1, hfe, hpu, _, hd1, hc1, hres1, hsub1⟩ :=
      Proofs.Mmu.fill_ok hcfg hL hN hb'.dwf hcoh a0 h00 hmiss (hlspec a0 (by simp)).2.2.2
    obtain ⟨bytes, u2, hg, _, hd2, hc2, hperm, hbytes⟩ :=
      Proofs.Mmu.getFromL1D_hit hL hd1 hc1 a0 as (by rw [← hlen0]; exact hlok) hres1
    simp only [hfe, hpu, hg, bind, Except.bind]
    have hback : Back { s with eu := eu, mmu := u2, ctx := { s.ctx with Memory := mem1 } } a := by
      unfold Back; simp only
      rw [hsid]
      refine hb'.with_mem_l1d mem1 u2.l1d hd2
        (fun F hF => by have : F = F0 := coh_unique hF hcoh; subst this; exact hc2) ?_
      intro ec hec hs p hp' y hy
      have hy1 := hperm.mem_iff.mp hy
      rcases hsub1 y hy1 with hold | hnew
      · exact hb'.stUncached ec hec hs p hp' y hold
      · cases hcv : y.covers p.1.toInt with
        | false => rfl
        | true =>
          have hp0 := (storeOk_inb (hb'.stOk ec hec hs) p hp').1
          have := ((hd1.lines y hy1).covers_iff hL _ hp0).mp hcv
          exact absurd (by rw [lineOf_eq, lineOf_eq, ← this, hnew]) (hnoq ec hec hs p hp')
    have hbytes' : (r.instr.memoryRead a.ctx 0#32).mapM (readMem a.ctx.Memory) = some bytes := by
      rw [hra, ← hbytes, hmemq]
      apply mapM_congr
      intro ad had
      apply readMem_applyMemQ
      intro ec hec hs p hp' heq
      have hpad := hlspec ad had
      have hp0 := (storeOk_inb (hb'.stOk ec hec hs) p hp').1
      apply hnoq ec hec hs p hp'
      rw [lineOf_eq, lineOf_eq, ← hpad.2.2.1]
      have : p.1.toInt = ad.toInt := by have := hpad.1; omega
      rw [this]
    exact euRun_ok (s := { s with eu := eu, mmu := u2, ctx := { s.ctx with Memory := mem1 } }) hback hpc hi hf
      hp.noWriter hbytes' hok hgood

theorem euStep_ok {app : App} {s : State} {a : Arch} {eu : ExecUnit} {r : Runner}
    (hb : Back s a) (hrun : eu.runner = some r) (hsid : eu.storeID = s.eu.storeID)
    (hpc : r.pc = a.pc) (hi : instrAt app r.pc = .ok r.instr) (hnf : NoFwd app) (hok : stepOk app a = true)
    (hgood : SeqGood app a) :
    ∃ s2 out, euStep app s eu = .ok (s2, out) := by
  unfold euStep
  simp only
  by_cases h0 : (eu.remainingCycles - 1 != 0) = true
  · simp only [h0, if_true]; exact ⟨_, _, rfl⟩
  · simp only [h0, Bool.false_eq_true, if_false]
    by_cases hca : s.writeBus.canAdd = true
    · simp only [hca, Bool.not_true, Bool.false_eq_true, if_false, hrun]
      exact euIssue_ok (eu := { eu with remainingCycles := eu.remainingCycles - 1, runner := some r })
        hb hsid hpc hi hnf hok hgood
    · have hca' : s.writeBus.canAdd = false := by simpa using hca
      simp only [hca', Bool.not_false, if_true]; exact ⟨_, _, rfl⟩

/-- **the execute unit never panics** along a run whose unpipelined counterpart does not panic -/
theorem executeCycle_ok {app : App} {s : State} {a : Arch}
    (hb : Back s a) (hn : NormalOk app s a) (hnf : NoFwd app) (hok : stepOk app a = true) (hgood : SeqGood app a) :
    ∃ s2 out, executeCycle app s = .ok (s2, out) := by
  unfold executeCycle
  by_cases hp : s.eu.pendingMemoryRead = true
  · obtain ⟨r, hrun, hpo⟩ := hn.pend hp
    have hproc : s.eu.processing = true := by
      cases hx : s.eu.processing with
      | true => rfl
      | false => have := hn.idle hx; rw [hp] at this; cases this
    obtain ⟨r', hr', hpc, hi, _⟩ := hn.rest_busy hproc
    have : r' = r := by rw [hrun] at hr'; injection hr' with hr'; exact hr'.symm
    subst this
    simp only [hp, if_true]
    by_cases h0 : (s.eu.remainingCycles - 1 != 0) = true
    · simp only [h0, if_true]; exact ⟨_, _, rfl⟩
    · simp only [h0, Bool.false_eq_true, if_false, hrun]
      exact euMemDone_ok (eu := { s.eu with remainingCycles := s.eu.remainingCycles - 1, pendingMemoryRead := false })
        hb rfl hpo rfl rfl hpc hi hnf hok hgood
  · have hp' : s.eu.pendingMemoryRead = false := by simpa using hp
    simp only [hp', Bool.false_eq_true, if_false]
    unfold euTake
    by_cases hproc : s.eu.processing = true
    · obtain ⟨r, hrun, hpc, hi, _⟩ := hn.rest_busy hproc
      simp only [hproc, Bool.not_true, Bool.false_eq_true, if_false, pure, Except.pure, bind, Except.bind]
      exact euStep_ok hb hrun rfl hpc hi hnf hok hgood
    · have hproc' : s.eu.processing = false := by simpa using hproc
      have hrest := hn.rest_idle hproc'
      simp only [hproc', Bool.not_false, if_true]
      cases hx : s.executeBus.get.1 with
      | none =>
        have hg : s.executeBus.get = (none, s.executeBus.get.2) := by rw [← hx]
        rw [hg]
        simp only [pure, Except.pure, bind, Except.bind, Bool.not_false, if_true]
        exact ⟨_, _, rfl⟩
      | some r =>
        have hg : s.executeBus.get = (some r, s.executeBus.get.2) := by rw [← hx]
        have hins := bus_inside_of_get_some _ r hx
        rw [hg]
        simp only
        obtain ⟨c, hcy⟩ := Proofs.Refine.cycles_ok r.instr.instructionType
        simp only [hcy, pure, Except.pure, bind, Except.bind, Bool.not_true, Bool.false_eq_true, if_false]
        have hcons := hrest.consec
        rw [hins] at hcons
        simp only [List.map_cons, List.cons_append] at hcons
        have hi : instrAt app r.pc = .ok r.instr := hrest.busInstr r (by rw [hins]; simp)
        exact euStep_ok (s := { s with executeBus := s.executeBus.get.2 })
          (eu := { s.eu with runner := some r, remainingCycles := c, processing := true })
          hb rfl rfl hcons.1 hi hnf hok hgood


/-! ### the execute unit leaves L1I alone -/

theorem bind_ok_inv {α β} {x : M α} {f : α → M β} {r : β} (h : (x >>= f) = .ok r) : ∃ a, x = .ok a ∧ f a = .ok r := by
  cases x with
  | error e => simp [bind, Except.bind] at h
  | ok a => exact ⟨a, rfl, h⟩

theorem getFromL1D_l1i {u u' : Model.Mmu.Mmu} {addrs : List Word} {r : Option (List Byte)}
    (h : Model.Mmu.getFromL1D u addrs = .ok (r, u')) : u'.l1i = u.l1i := by
  unfold Model.Mmu.getFromL1D at h
  obtain ⟨⟨r0, c⟩, _, h2⟩ := bind_ok_inv h
  simp only [pure, Except.pure] at h2
  injection h2 with h2
  simp only [Prod.mk.injEq] at h2
  obtain ⟨_, rfl⟩ := h2
  rfl

theorem doesExist_l1i {u u' : Model.Mmu.Mmu} {e : Gen.Execution} {b : Bool}
    (h : Model.Mmu.doesExecutionMemoryChangesExistsInL1D u e = .ok (b, u')) : u'.l1i = u.l1i := by
  unfold Model.Mmu.doesExecutionMemoryChangesExistsInL1D at h
  obtain ⟨⟨r0, u1⟩, h1, h2⟩ := bind_ok_inv h
  simp only [pure, Except.pure] at h2
  injection h2 with h2
  simp only [Prod.mk.injEq] at h2
  obtain ⟨_, rfl⟩ := h2
  exact getFromL1D_l1i h1

theorem writeExec_l1i {u u' : Model.Mmu.Mmu} {e : Gen.Execution}
    (h : Model.Mmu.writeExecutionMemoryChangesToL1D u e = .ok u') : u'.l1i = u.l1i := by
  unfold Model.Mmu.writeExecutionMemoryChangesToL1D at h
  split at h
  · cases h
  · unfold Model.Mmu.writeToL1D at h
    obtain ⟨c, _, h2⟩ := bind_ok_inv h
    simp only [pure, Except.pure] at h2
    injection h2 with h2
    subst h2
    rfl

theorem pushLineToL1D_l1i {c : Model.Mmu.Config} {u u' : Model.Mmu.Mmu} {mem mem' : List Byte} {a : Word} {line : List Byte}
    (h : Model.Mmu.pushLineToL1D c u mem a line = .ok (u', mem')) : u'.l1i = u.l1i := by
  unfold Model.Mmu.pushLineToL1D at h
  obtain ⟨lo, _, h2⟩ := bind_ok_inv h
  simp only at h2
  split at h2
  · simp only [pure, Except.pure] at h2
    injection h2 with h2
    simp only [Prod.mk.injEq] at h2
    obtain ⟨rfl, _⟩ := h2
    rfl
  · obtain ⟨⟨d, c2⟩, _, h3⟩ := bind_ok_inv h2
    obtain ⟨m2, _, h4⟩ := bind_ok_inv h3
    simp only [pure, Except.pure] at h4
    injection h4 with h4
    simp only [Prod.mk.injEq] at h4
    obtain ⟨rfl, _⟩ := h4
    rfl

theorem euQueue_l1i (s : State) (r : Runner) (e : Gen.Execution) (eu : ExecUnit) (mmu : Model.Mmu.Mmu) :
    (euQueue s r e eu mmu).1.mmu = mmu := by
  unfold euQueue; simp only

theorem euRun_l1i {app : App} {s s2 : State} {r : Runner} {b : List Byte} {out : EuOut}
    (h : euRun app s r b = .ok (s2, out)) : s2.mmu.l1i = s.mmu.l1i := by
  unfold euRun at h
  simp only at h
  split at h
  · cases h
  · simp only [pure, Except.pure] at h
    injection h with h; simp only [Prod.mk.injEq] at h; obtain ⟨rfl, _⟩ := h; rfl
  · rename_i e _
    split at h
    · simp only [pure, Except.pure] at h
      injection h with h; simp only [Prod.mk.injEq] at h; obtain ⟨rfl, _⟩ := h; rfl
    · obtain ⟨⟨inL1D, mmu1⟩, h1, h2⟩ := bind_ok_inv h
      have hm1 : mmu1.l1i = s.mmu.l1i := by
        split at h1
        · exact doesExist_l1i h1
        · simp only [pure, Except.pure] at h1
          injection h1 with h1; simp only [Prod.mk.injEq] at h1; obtain ⟨_, rfl⟩ := h1; rfl
      simp only at h2
      split at h2
      · obtain ⟨mmu2, h3, h4⟩ := bind_ok_inv h2
        simp only [pure, Except.pure] at h4
        injection h4 with h4; simp only [Prod.mk.injEq] at h4; obtain ⟨rfl, _⟩ := h4
        show mmu2.l1i = _
        rw [writeExec_l1i h3, hm1]
      · simp only [pure, Except.pure] at h2
        injection h2 with h2
        have := congrArg Prod.fst h2
        simp only at this
        rw [← this, euQueue_l1i]; exact hm1


theorem ok_pair_inj {α β} {a a' : α} {b b' : β} (h : (Except.ok (a, b) : M (α × β)) = .ok (a', b')) : a = a' ∧ b = b' := by
  injection h with h; simp only [Prod.mk.injEq] at h; exact h

theorem euIssue_l1i {app : App} {s s2 : State} {eu : ExecUnit} {r : Runner} {out : EuOut}
    (h : euIssue app s eu r = .ok (s2, out)) : s2.mmu.l1i = s.mmu.l1i := by
  unfold euIssue at h
  simp only at h
  split at h
  · obtain ⟨rfl, _⟩ := ok_pair_inj h; rfl
  · split at h
    · split at h
      · obtain ⟨rfl, _⟩ := ok_pair_inj h; rfl
      · obtain ⟨⟨m, mmu1⟩, h1, h2⟩ := bind_ok_inv h
        have := getFromL1D_l1i h1
        simp only at h2
        split at h2
        · obtain ⟨rfl, _⟩ := ok_pair_inj h2; exact this
        · obtain ⟨rfl, _⟩ := ok_pair_inj h2; exact this
    · exact euRun_l1i (s := { s with eu := eu, bu := s.bu.assert r }) h

theorem euMemDone_l1i {app : App} {s s2 : State} {eu : ExecUnit} {r : Runner} {out : EuOut}
    (h : euMemDone app s eu r = .ok (s2, out)) : s2.mmu.l1i = s.mmu.l1i := by
  unfold euMemDone at h
  split at h
  · exact euRun_l1i (s := { s with eu := { eu with memory := none } }) h
  · split at h
    · cases h
    · obtain ⟨line, _, h2⟩ := bind_ok_inv h
      obtain ⟨⟨mmu1, mem1⟩, h3, h4⟩ := bind_ok_inv h2
      obtain ⟨⟨m, mmu2⟩, h5, h6⟩ := bind_ok_inv h4
      simp only at h6
      split at h6
      · cases h6
      · have := euRun_l1i h6
        simp only at this
        rw [this, getFromL1D_l1i h5, pushLineToL1D_l1i h3]

theorem euStep_l1i {app : App} {s s2 : State} {eu : ExecUnit} {out : EuOut}
    (h : euStep app s eu = .ok (s2, out)) : s2.mmu.l1i = s.mmu.l1i := by
  unfold euStep at h
  simp only at h
  split at h
  · obtain ⟨rfl, _⟩ := ok_pair_inj h; rfl
  · split at h
    · obtain ⟨rfl, _⟩ := ok_pair_inj h; rfl
    · split at h
      · cases h
      · exact euIssue_l1i h

theorem euTake_mmu {s s1 : State} {eu1 : ExecUnit} {go : Bool} (h : euTake s = .ok (s1, eu1, go)) : s1.mmu = s.mmu := by
  unfold euTake at h
  by_cases hp : s.eu.processing = true
  · simp only [hp, Bool.not_true, Bool.false_eq_true, if_false, pure, Except.pure] at h
    injection h with h; simp only [Prod.mk.injEq] at h; obtain ⟨rfl, _⟩ := h; rfl
  · have hp' : s.eu.processing = false := by simpa using hp
    simp only [hp', Bool.not_false, if_true] at h
    cases hx : s.executeBus.get.1 with
    | none =>
      have hg : s.executeBus.get = (none, s.executeBus.get.2) := by rw [← hx]
      rw [hg] at h
      simp only [pure, Except.pure] at h
      injection h with h; simp only [Prod.mk.injEq] at h; obtain ⟨rfl, _⟩ := h; rfl
    | some r =>
      have hg : s.executeBus.get = (some r, s.executeBus.get.2) := by rw [← hx]
      rw [hg] at h
      simp only at h
      cases hcy : Gen.InstructionType.Cycles r.instr.instructionType with
      | error f => simp [hcy, throw, throwThe, MonadExceptOf.throw] at h
      | ok c =>
        simp only [hcy, pure, Except.pure] at h
        injection h with h; simp only [Prod.mk.injEq] at h; obtain ⟨rfl, _⟩ := h; rfl

theorem executeCycle_l1i {app : App} {s s2 : State} {out : EuOut}
    (h : executeCycle app s = .ok (s2, out)) : s2.mmu.l1i = s.mmu.l1i := by
  unfold executeCycle at h
  split at h
  · simp only at h
    split at h
    · obtain ⟨rfl, _⟩ := ok_pair_inj h; rfl
    · split at h
      · cases h
      · exact euMemDone_l1i h
  · obtain ⟨⟨s1, eu1, go⟩, h1, h2⟩ := bind_ok_inv h
    have hs1 : s1.mmu = s.mmu := euTake_mmu h1
    simp only at h2
    split at h2
    · obtain ⟨rfl, _⟩ := ok_pair_inj h2
      show s1.mmu.l1i = _
      rw [hs1]
    · rw [euStep_l1i h2, hs1]


/-! ### the write unit and the end of the run never panic -/

theorem finish_ok {s : State} {a : Arch} (hk : Halt) (hb : Back s a) :
    ∃ s', finish s hk = .ok (s', .done hk) ∧ s'.mmu.l1d.lines.length ≤ 16 := by
  have hb' : BackRel s.ctx s.pwmi s.writeBus.inside s.mmu.l1d s.eu.storeID a := hb
  obtain ⟨F0, hcoh, _⟩ := hb'.coh
  have hfl := Proofs.Mmu.flush_ok hcfg hL hb'.dwf hcoh
  unfold finish
  simp only [hfl, bind, Except.bind, pure, Except.pure]
  exact ⟨_, rfl, hb'.dwf.count⟩

theorem writeCycle_live {s : State} {a : Arch} (hb : Back s a)
    (hw : s.wu.pendingMemoryWrite = true → 1 ≤ s.wu.cycles) :
    ∃ s1, writeCycle s = .ok s1 ∧ (s1.wu.pendingMemoryWrite = true → 1 ≤ s1.wu.cycles) ∧
      wW s1.wu s1.writeBus ≤ wW s.wu s.writeBus ∧
      (drainCond s = true → wW s1.wu s1.writeBus < wW s.wu s.writeBus) ∧
      (drainCond s = false → s1.wu = s.wu ∧ s1.writeBus.isEmpty = true) := by
  have hb' : BackRel s.ctx s.pwmi s.writeBus.inside s.mmu.l1d s.eu.storeID a := hb
  obtain ⟨ctx', pwmi', bus', wu', hc, _, hw', hle, hlt, hid⟩ := writeCore_live hb' hb'.pwOk hw
  refine ⟨{ s with ctx := ctx', pwmi := pwmi', writeBus := bus', wu := wu' }, ?_, hw', hle, ?_, ?_⟩
  · unfold writeCycle; simp only [hc, bind, Except.bind, pure, Except.pure]
  · intro hd
    apply hlt
    unfold drainCond at hd
    simp only [Bool.or_eq_true, Bool.not_eq_true'] at hd
    exact hd
  · intro hd
    unfold drainCond at hd
    simp only [Bool.or_eq_false_iff, Bool.not_eq_false'] at hd
    exact hid hd.1 hd.2


/-! ### the fetch and decode stages of a tick -/

/-- everything a stage that only touches the front end leaves alone -/
structure FrontFrame (s s1 : State) : Prop where
  ctx : s1.ctx = s.ctx
  pwmi : s1.pwmi = s.pwmi
  eu : s1.eu = s.eu
  writeBus : s1.writeBus = s.writeBus
  wu : s1.wu = s.wu
  bu : s1.bu = s.bu
  mode : s1.mode = s.mode
  l1d : s1.mmu.l1d = s.mmu.l1d

theorem fetchCycle_live {app : App} (hsmall : app.instrs.length < 250) (s : State)
    (hi : Proofs.Mvp3.IWf 64 s.mmu.l1i) (hr : s.fu.processing = true → 1 ≤ s.fu.remainingCycles)
    (hpcb : s.fu.pc.toNat ≤ 4 * app.instrs.length + 4) (hd : ∀ pc ∈ s.decodeBus.inside, ∃ i, instrAt app pc = .ok i) :
    ∃ s1, fetchCycle app s = .ok s1 ∧ FrontFrame s s1 ∧ s1.executeBus = s.executeBus ∧
      Proofs.Mvp3.IWf 64 s1.mmu.l1i ∧ (s1.fu.processing = true → 1 ≤ s1.fu.remainingCycles) ∧
      s1.fu.pc.toNat ≤ 4 * app.instrs.length + 4 ∧ (∀ pc ∈ s1.decodeBus.inside, ∃ i, instrAt app pc = .ok i) ∧
      s1.decodeBus.current = s.decodeBus.current ∧
      (s.decodeBus.pending.isSome = true → s1.decodeBus.pending = s.decodeBus.pending) ∧
      frontW app s.executeBus s1.decodeBus s1.fu ≤ frontW app s.executeBus s.decodeBus s.fu ∧
      (s.executeBus.current = none → s.executeBus.pending = none → s.decodeBus.current = none →
        s.decodeBus.pending = none → s.fu.complete = false →
        frontW app s.executeBus s1.decodeBus s1.fu < frontW app s.executeBus s.decodeBus s.fu) ∧
      (s.fu.complete = true → s1.fu = s.fu ∧ s1.decodeBus = s.decodeBus) := by
  obtain ⟨fu', mmu', bus', hfc, h1, h2, h3, h4, h5, h6, h7, h8, h9⟩ :=
    fetchCore_live hsmall s.executeBus hi hr hpcb hd
  obtain ⟨hl, _, _⟩ := fetchCore_spec hfc
  refine ⟨{ s with fu := fu', mmu := mmu', decodeBus := bus' }, ?_, ⟨rfl, rfl, rfl, rfl, rfl, rfl, rfl, hl⟩, rfl,
    h1, h2, h3, h4, h5, h6, h7, h8, h9⟩
  unfold fetchCycle; simp only [hfc, bind, Except.bind, pure, Except.pure]

theorem decodeCycle_live {app : App} (s : State) (hd : ∀ pc ∈ s.decodeBus.inside, ∃ i, instrAt app pc = .ok i) :
    ∃ s2, decodeCycle app s = .ok s2 ∧ FrontFrame s s2 ∧ s2.fu = s.fu ∧ s2.mmu = s.mmu ∧
      (∀ pc ∈ s2.decodeBus.inside, ∃ i, instrAt app pc = .ok i) ∧ s2.executeBus.current = s.executeBus.current ∧
      frontW app s2.executeBus s2.decodeBus s.fu ≤ frontW app s.executeBus s.decodeBus s.fu ∧
      (s.executeBus.current = none → s.executeBus.pending = none →
        (s.decodeBus.current.isSome = true ∨ s.decodeBus.pending.isSome = true) →
        frontW app s2.executeBus s2.decodeBus s.fu < frontW app s.executeBus s.decodeBus s.fu) ∧
      (s.decodeBus.current = none → s.decodeBus.pending = none →
        s2.decodeBus.current = none ∧ s2.decodeBus.pending = none ∧ s2.executeBus = s.executeBus) ∧
      (s.executeBus.pending.isSome = true → s2.decodeBus = s.decodeBus ∧ s2.executeBus = s.executeBus) := by
  obtain ⟨d', e', hdc, h1, h2, h3, h4, h5, h6⟩ := decodeCore_live (d := s.decodeBus) (e := s.executeBus) s.fu hd
  refine ⟨{ s with decodeBus := d', executeBus := e' }, ?_, ⟨rfl, rfl, rfl, rfl, rfl, rfl, rfl, rfl⟩, rfl, rfl,
    h1, h2, h3, h4, h5, h6⟩
  unfold decodeCycle; simp only [hdc, bind, Except.bind, pure, Except.pure]


/-! ### one tick, total -/

/-- the state right after an instruction has been executed (and the initial state): the execute unit is idle -/
def Fresh (s : State) : Prop :=
  s.mode ≠ .drainRet ∧ (s.mode = .normal → s.eu.processing = false ∧ s.eu.pendingMemoryRead = false)

/-- what a tick guarantees for liveness, by its outcome (after a regular end of the run L1D holds at most its 16
lines: the cost of the final `mmu.flush()`) -/
def LivePost (app : App) (s : State) (a : Arch) (s' : State) : Event → Prop
  | .running => (Rel app s' a ∧ Live app s' ∧ phi app s' < phi app s) ∨
      (∃ a1 c, stepArch dc app a = .next a1 c ∧ Rel app s' a1 ∧ Live app s' ∧ Fresh s')
  | .done (.panic _) => False
  | .done .err => True
  | .done .ret => (∃ c, stepArch dc app a = .halt .ret c) ∧ s'.mmu.l1d.lines.length ≤ 16
  | .done .offEnd => s'.mmu.l1d.lines.length ≤ 16

theorem bus_get_empty {α} (b : SimpleBus α) (h1 : b.current = none) (h2 : b.pending = none) :
    b.get.2.current = none ∧ b.get.2.pending = none := by
  unfold SimpleBus.get; simp [h2]

/-- (liveness) the front end moves the oldest instruction towards an idle execute unit: over fetch, decode and
the execute unit's `Get` the front-end measure does not increase, and it strictly decreases unless the front end
is empty and the fetch unit is complete -/
theorem front_progress {app : App} {s s1 s2 : State} {E3 : SimpleBus Runner}
    (hE1 : s1.executeBus = s.executeBus)
    (hcur1 : s1.decodeBus.current = s.decodeBus.current)
    (hpend1 : s.decodeBus.pending.isSome = true → s1.decodeBus.pending = s.decodeBus.pending)
    (hF1 : frontW app s.executeBus s1.decodeBus s1.fu ≤ frontW app s.executeBus s.decodeBus s.fu)
    (hF1s : s.executeBus.current = none → s.executeBus.pending = none → s.decodeBus.current = none →
        s.decodeBus.pending = none → s.fu.complete = false →
        frontW app s.executeBus s1.decodeBus s1.fu < frontW app s.executeBus s.decodeBus s.fu)
    (hF1c : s.fu.complete = true → s1.fu = s.fu ∧ s1.decodeBus = s.decodeBus)
    (hfu2 : s2.fu = s1.fu)
    (hE2c : s2.executeBus.current = s1.executeBus.current)
    (hF2 : frontW app s2.executeBus s2.decodeBus s1.fu ≤ frontW app s1.executeBus s1.decodeBus s1.fu)
    (hF2s : s1.executeBus.current = none → s1.executeBus.pending = none →
        (s1.decodeBus.current.isSome = true ∨ s1.decodeBus.pending.isSome = true) →
        frontW app s2.executeBus s2.decodeBus s1.fu < frontW app s1.executeBus s1.decodeBus s1.fu)
    (hD2e : s1.decodeBus.current = none → s1.decodeBus.pending = none →
        s2.decodeBus.current = none ∧ s2.decodeBus.pending = none ∧ s2.executeBus = s1.executeBus)
    (hD2f : s1.executeBus.pending.isSome = true → s2.decodeBus = s1.decodeBus ∧ s2.executeBus = s1.executeBus)
    (hcur : s2.executeBus.current = none) (hE3 : E3 = s2.executeBus.get.2) :
    frontW app E3 s2.decodeBus s2.fu ≤ frontW app s.executeBus s.decodeBus s.fu ∧
    (frontW app E3 s2.decodeBus s2.fu < frontW app s.executeBus s.decodeBus s.fu ∨
      (s.fu.complete = true ∧ s2.fu.complete = true ∧ E3.current = none ∧ E3.pending = none ∧
        s2.decodeBus.current = none ∧ s2.decodeBus.pending = none)) := by
  subst hE3
  rw [hfu2]
  obtain ⟨hG, hGs⟩ := frontW_get (app := app) s2.executeBus s2.decodeBus s1.fu hcur
  rw [hE1] at hF2 hF2s hD2e hD2f hE2c
  have hEc : s.executeBus.current = none := by rw [← hE2c]; exact hcur
  refine ⟨Nat.le_trans hG (Nat.le_trans hF2 hF1), ?_⟩
  cases hEp : s.executeBus.pending with
  | some v =>
    -- the execute bus holds the oldest instruction in its pending slot: the shift moves it
    obtain ⟨_, e2⟩ := hD2f (by rw [hEp]; rfl)
    left
    have : s2.executeBus.pending.isSome = true := by rw [e2, hEp]; rfl
    exact Nat.lt_of_lt_of_le (hGs this) (Nat.le_trans hF2 hF1)
  | none =>
    by_cases hD1 : s1.decodeBus.current.isSome = true ∨ s1.decodeBus.pending.isSome = true
    · left
      exact Nat.lt_of_le_of_lt hG (Nat.lt_of_lt_of_le (hF2s hEc hEp hD1) hF1)
    · have hd1c : s1.decodeBus.current = none := by
        cases hx : s1.decodeBus.current with
        | none => rfl
        | some v => exact absurd (Or.inl (by rw [hx]; rfl)) hD1
      have hd1p : s1.decodeBus.pending = none := by
        cases hx : s1.decodeBus.pending with
        | none => rfl
        | some v => exact absurd (Or.inr (by rw [hx]; rfl)) hD1
      have hdc : s.decodeBus.current = none := by rw [← hcur1]; exact hd1c
      have hdp : s.decodeBus.pending = none := by
        cases hx : s.decodeBus.pending with
        | none => rfl
        | some v =>
          have := hpend1 (by rw [hx]; rfl)
          rw [hd1p, hx] at this; cases this
      obtain ⟨e1, e2, e3⟩ := hD2e hd1c hd1p
      by_cases hc : s.fu.complete = true
      · right
        obtain ⟨f1, _⟩ := hF1c hc
        have hE2 : s2.executeBus.current = none ∧ s2.executeBus.pending = none := by rw [e3]; exact ⟨hEc, hEp⟩
        obtain ⟨g1, g2⟩ := bus_get_empty s2.executeBus hE2.1 hE2.2
        exact ⟨hc, by rw [f1]; exact hc, g1, g2, e1, e2⟩
      · left
        have hc' : s.fu.complete = false := by simpa using hc
        exact Nat.lt_of_le_of_lt hG (Nat.lt_of_le_of_lt hF2 (hF1s hEc hEp hdc hdp hc'))


theorem euPhi_busy {app : App} {s s' : State} (he : s'.eu = s.eu)
    (h : s.eu.processing = true ∨ s.eu.pendingMemoryRead = true) : euPhi app s' = euPhi app s := by
  unfold euPhi
  rw [he]
  rcases h with h | h
  · simp only [h, if_true]
  · simp only [h, if_true]

theorem isComplete_of {s : State} (h1 : s.fu.complete = true) (h2 : s.eu.processing = false)
    (h3 : s.wu.pendingMemoryWrite = false) (h4 : s.decodeBus.current = none) (h5 : s.decodeBus.pending = none)
    (h6 : s.executeBus.current = none) (h7 : s.executeBus.pending = none) (h8 : s.writeBus.isEmpty = true) :
    isComplete s = true := by
  unfold isComplete
  rw [h8]
  simp [SimpleBus.isEmpty, h1, h2, h3, h4, h5, h6, h7]

set_option maxHeartbeats 1000000 in
/-- **a tick of the outer loop is total and makes progress** -/
theorem cycleM_live_normal {app : App} {s : State} {a : Arch} (hsmall : app.instrs.length < 250)
    (hm : s.mode = .normal) (hR : Rel app s a) (hlv : Live app s) (hnf : NoFwd app) (hok : stepOk app a = true)
    (hgood : SeqGood app a)
    (hnext : ∀ a' c, stepArch dc app a = .next a' c → a'.pc.toNat ≤ 4 * app.instrs.length) :
    ∃ s' ev, cycleM app s = .ok (s', ev) ∧ LivePost app s a s' ev := by
  have hn0 : NormalOk app s a := by have := hR.front; rw [hm] at this; exact this
  -- fetch
  obtain ⟨s1, h1, fr1, hE1, hiwf1, hfr1, hpc1, hd1, hcur1, hpend1, hF1, hF1s, hF1c⟩ :=
    fetchCycle_live hsmall { s with cycles := s.cycles + 1, mode := .normal } hlv.iwf hlv.fuRem hlv.fuPc hlv.dbus
  obtain ⟨hb1, hn1, _, _⟩ := fetchCycle_rel (a := a) (s := { s with cycles := s.cycles + 1, mode := .normal })
    hR.back (hn0.with_cycles _ _) h1
  -- decode
  obtain ⟨s2, h2, fr2, hfu2, hmmu2, hd2, hE2c, hF2, hF2s, hD2e, hD2f⟩ := decodeCycle_live s1 hd1
  obtain ⟨hb2, hn2, _, _⟩ := decodeCycle_rel hb1 hn1 h2
  -- execute
  obtain ⟨s3, out, h3⟩ := executeCycle_ok hb2 hn2 hnf hok hgood
  obtain ⟨e_fu, e_db, e_wu, e_mode, _, hpost⟩ := executeCycle_sim hb2 hn2 hnf hok h3
  have hl1i := executeCycle_l1i h3
  have heu2 : s2.eu = s.eu := by rw [fr2.eu, fr1.eu]
  have hmode3 : s3.mode = .normal := by rw [e_mode, fr2.mode, fr1.mode]
  have hwu3 : s3.wu = s.wu := by rw [e_wu, fr2.wu, fr1.wu]
  have hlive2 : LiveEu s2 := by
    unfold LiveEu; rw [heu2]; exact ⟨hlv.euRem hm, hlv.euRemP hm⟩
  have hcm : cycleM app s = afterExecute s3 out := by
    unfold cycleM; simp only [hm, h1, h2, h3, bind, Except.bind]
  rw [hcm]
  -- the front-end part of `Live` after the tick (the write unit does not touch it)
  have hfront3 : Proofs.Mvp3.IWf 64 s3.mmu.l1i ∧ (s3.fu.processing = true → 1 ≤ s3.fu.remainingCycles) ∧
      s3.fu.pc.toNat ≤ 4 * app.instrs.length + 4 ∧ (∀ pc ∈ s3.decodeBus.inside, ∃ i, instrAt app pc = .ok i) := by
    rw [hl1i, hmmu2, e_fu, hfu2, e_db]
    exact ⟨hiwf1, hfr1, hpc1, hd2⟩
  obtain ⟨hiwf3, hfurem3, hfupc3, hdbus3⟩ := hfront3
  cases out with
  | err => exact ⟨s3, .done .err, rfl, trivial⟩
  | none =>
    rcases hpost with ⟨hb3, hn3, hst, _⟩ | ⟨a', c, hstep, hb3, hn3, hproc3, hpend3, _⟩
    · -- nothing executed
      have hst := hst hlive2
      obtain ⟨s4, h4, hw4, hWle, hWlt, hWid⟩ := writeCycle_live hb3 (by rw [hwu3]; exact hlv.wuCyc)
      obtain ⟨hb4, hn4, hm4, _⟩ := writeCycle_normal hb3 hn3 h4
      obtain ⟨_, g_fu, g_db, g_eb, g_eu, _, g_mmu, _, _, _, _⟩ := writeCycle_back hb3 h4
      have hmode4 : s4.mode = .normal := by rw [hm4]; exact hmode3
      have hW3 : wW s3.wu s3.writeBus = wW s.wu s.writeBus := by
        rw [hwu3, hst.writeBus, fr2.writeBus, fr1.writeBus]
      have hlive4 : Live app s4 :=
        { iwf := (by rw [g_mmu]; exact hiwf3), fuRem := (by rw [g_fu]; exact hfurem3), wuCyc := hw4,
          euRem := fun _ => (by rw [g_eu]; exact hst.euRem), euRemP := fun _ => (by rw [g_eu]; exact hst.euRemP),
          dbus := (by rw [g_db]; exact hdbus3), fuPc := (by rw [g_fu]; exact hfupc3),
          drain := fun hx => absurd hmode4 hx }
      have hphi4 : phi app s4 = wW s4.wu s4.writeBus + euPhi app s3 := by
        unfold phi; rw [hmode4]
        show _ + euPhi app s4 = _
        unfold euPhi; rw [g_eu, g_eb, g_db, g_fu]
      have hphi0 : phi app s = wW s.wu s.writeBus + euPhi app s := by unfold phi; rw [hm]
      -- the execute unit's share against the share at the start of the tick
      have hmeas : euPhi app s3 < euPhi app s ∨ (euPhi app s3 ≤ euPhi app s ∧ drainCond s3 = true) ∨
          (euPhi app s3 ≤ euPhi app s ∧ drainCond s3 = false ∧ isComplete s4 = true) := by
        have hdc_of_ne : s2.writeBus.isEmpty = false → drainCond s3 = true := by
          intro hne
          unfold drainCond
          rw [hst.writeBus, hne]; simp
        by_cases hbusy : s.eu.processing = true ∨ s.eu.pendingMemoryRead = true
        · have e2 : euPhi app s2 = euPhi app s := euPhi_busy heu2 hbusy
          rcases hst.meas with m | ⟨m1, m2⟩ | ⟨m1, _⟩
          · left; rw [← e2]; exact m
          · right; left; exact ⟨by rw [← e2]; exact m1, hdc_of_ne m2⟩
          · rw [heu2] at m1
            rcases hbusy with hx | hx
            · rw [m1] at hx; cases hx
            · have := hn0.idle m1; rw [this] at hx; cases hx
        · have hproc0 : s.eu.processing = false := by
            cases hx : s.eu.processing with
            | false => rfl
            | true => exact absurd (Or.inl hx) hbusy
          have hpend0 : s.eu.pendingMemoryRead = false := hn0.idle hproc0
          have e0 : euPhi app s = 500 + frontW app s.executeBus s.decodeBus s.fu := by
            unfold euPhi; simp only [hproc0, hpend0, Bool.false_eq_true, if_false]
          have e2 : euPhi app s2 = 500 + frontW app s2.executeBus s2.decodeBus s2.fu := by
            unfold euPhi; rw [heu2]; simp only [hproc0, hpend0, Bool.false_eq_true, if_false]
          have e2le : euPhi app s2 ≤ euPhi app s := by
            rw [e0, e2, hfu2]
            have hF1' : frontW app s.executeBus s1.decodeBus s1.fu ≤ frontW app s.executeBus s.decodeBus s.fu := hF1
            have hE1' : s1.executeBus = s.executeBus := hE1
            rw [hE1'] at hF2
            omega
          rcases hst.meas with m | ⟨m1, m2⟩ | ⟨m1, m2, m3, m4, m5⟩
          · left; exact Nat.lt_of_lt_of_le m e2le
          · right; left; exact ⟨Nat.le_trans m1 e2le, hdc_of_ne m2⟩
          · -- idle, nothing taken: the front end must have moved
            have e3 : euPhi app s3 = 500 + frontW app s3.executeBus s2.decodeBus s2.fu := by
              unfold euPhi; rw [m3, heu2, e_db, e_fu]; simp only [hproc0, hpend0, Bool.false_eq_true, if_false]
            obtain ⟨p1, p2⟩ := front_progress (app := app) (s := { s with cycles := s.cycles + 1, mode := .normal })
              (s1 := s1) (s2 := s2) (E3 := s3.executeBus) hE1 hcur1 hpend1 hF1 hF1s hF1c hfu2 hE2c hF2 hF2s hD2e hD2f m4 m5
            rcases p2 with p2 | ⟨q1, q2, q3, q4, q5, q6⟩
            · left; rw [e3, e0]; exact Nat.add_lt_add_left p2 500
            · -- front end empty and complete: the write side moves, or the run is over
              have hle : euPhi app s3 ≤ euPhi app s := by rw [e3, e0]; exact Nat.add_le_add_left p1 500
              by_cases hdc : drainCond s3 = true
              · right; left; exact ⟨hle, hdc⟩
              · have hdc' : drainCond s3 = false := by simpa using hdc
                obtain ⟨w1, w2⟩ := hWid hdc'
                right; right
                refine ⟨hle, hdc', isComplete_of ?_ ?_ ?_ ?_ ?_ ?_ ?_ w2⟩
                · rw [g_fu, e_fu]; exact q2
                · rw [g_eu, m3, heu2]; exact hproc0
                · rw [w1]
                  unfold drainCond at hdc'
                  simp only [Bool.or_eq_false_iff] at hdc'
                  exact hdc'.1
                · rw [g_db, e_db]; exact q5
                · rw [g_db, e_db]; exact q6
                · rw [g_eb]; exact q3
                · rw [g_eb]; exact q4
      unfold afterExecute
      simp only [h4, bind, Except.bind]
      by_cases hic : isComplete s4 = true
      · simp only [hic, if_true]
        obtain ⟨s', hf, hlines⟩ := finish_ok .offEnd hb4
        exact ⟨s', .done .offEnd, hf, hlines⟩
      · simp only [hic, Bool.false_eq_true, if_false, pure, Except.pure]
        refine ⟨s4, .running, rfl, Or.inl ⟨⟨hb4, by rw [hmode4]; exact hn4⟩, hlive4, ?_⟩⟩
        rw [hphi4, hphi0]
        rcases hmeas with m | ⟨m1, m2⟩ | ⟨_, _, m3⟩
        · have := hWle; rw [hW3] at this; omega
        · have := hWlt m2; rw [hW3] at this; omega
        · exact absurd m3 hic
    · -- one instruction executed
      obtain ⟨s4, h4, hw4, _, _, _⟩ := writeCycle_live hb3 (by rw [hwu3]; exact hlv.wuCyc)
      obtain ⟨hb4, hn4, hm4, _⟩ := writeCycle_normal hb3 hn3 h4
      obtain ⟨_, g_fu, g_db, g_eb, g_eu, _, g_mmu, _, _, _, _⟩ := writeCycle_back hb3 h4
      have hmode4 : s4.mode = .normal := by rw [hm4]; exact hmode3
      have hlive4 : Live app s4 :=
        { iwf := (by rw [g_mmu]; exact hiwf3), fuRem := (by rw [g_fu]; exact hfurem3), wuCyc := hw4,
          euRem := fun _ hx => (by rw [g_eu, hproc3] at hx; cases hx),
          euRemP := fun _ hx => (by rw [g_eu, hpend3] at hx; cases hx),
          dbus := (by rw [g_db]; exact hdbus3), fuPc := (by rw [g_fu]; exact hfupc3),
          drain := fun hx => absurd hmode4 hx }
      unfold afterExecute
      simp only [h4, bind, Except.bind]
      by_cases hic : isComplete s4 = true
      · simp only [hic, if_true]
        obtain ⟨s', hf, hlines⟩ := finish_ok .offEnd hb4
        exact ⟨s', .done .offEnd, hf, hlines⟩
      · simp only [hic, Bool.false_eq_true, if_false, pure, Except.pure]
        exact ⟨s4, .running, rfl, Or.inr ⟨a', c, hstep, ⟨hb4, by rw [hmode4]; exact hn4⟩, hlive4,
          ⟨fun hx => (by rw [hmode4] at hx; cases hx), fun _ => by rw [g_eu]; exact ⟨hproc3, hpend3⟩⟩⟩⟩
  | ret =>
    obtain ⟨hret, hb3, hwb3⟩ := hpost
    obtain ⟨s4, h4, hw4, hWle, _, _⟩ := writeCycle_live hb3 (by rw [hwu3]; exact hlv.wuCyc)
    obtain ⟨hb4, g_fu, g_db, g_eb, g_eu, _, g_mmu, hm4, _, _, _⟩ := writeCycle_back hb3 h4
    unfold afterExecute
    simp only [h4, bind, Except.bind]
    by_cases hdc : drainCond s4 = true
    · simp only [hdc, if_true, pure, Except.pure]
      refine ⟨{ s4 with mode := .drainRet }, .running, rfl, Or.inl ⟨⟨hb4, hret⟩, ?_, ?_⟩⟩
      · exact { iwf := (by show Proofs.Mvp3.IWf 64 s4.mmu.l1i; rw [g_mmu]; exact hiwf3),
                fuRem := (by show s4.fu.processing = true → _; rw [g_fu]; exact hfurem3), wuCyc := hw4,
                euRem := fun hx => (by cases hx), euRemP := fun hx => (by cases hx),
                dbus := (by show ∀ pc ∈ s4.decodeBus.inside, _; rw [g_db]; exact hdbus3),
                fuPc := (by show s4.fu.pc.toNat ≤ _; rw [g_fu]; exact hfupc3),
                drain := fun _ => hdc }
      · -- the measure: the execute unit's share was positive
        have hphi0 : phi app s = wW s.wu s.writeBus + euPhi app s := by unfold phi; rw [hm]
        have hW3 : wW s3.wu s3.writeBus = wW s.wu s.writeBus := by
          rw [hwu3, hwb3, fr2.writeBus, fr1.writeBus]
        have hpos : 1 ≤ euPhi app s := by
          -- `ret` was executed, so the unit was busy or waiting for memory
          unfold euPhi
          by_cases hp : s.eu.pendingMemoryRead = true
          · simp only [hp, if_true]
            have := (hlv.euRemP hm hp).1
            omega
          · simp only [hp, Bool.false_eq_true, if_false]
            split <;> omega
        show wW s4.wu s4.writeBus < phi app s
        rw [hphi0]
        rw [hW3] at hWle
        omega
    · have hdc' : drainCond s4 = false := by simpa using hdc
      simp only [hdc', Bool.false_eq_true, if_false]
      obtain ⟨s', hf, hlines⟩ := finish_ok .ret hb4
      exact ⟨s', .done .ret, hf, hret, hlines⟩
  | flush pc =>
    obtain ⟨a', c, hstep, hpc, hb3, hproc3, hpend3, hmem3⟩ := hpost
    obtain ⟨s4, h4, hw4, _, _, _⟩ := writeCycle_live hb3 (by rw [hwu3]; exact hlv.wuCyc)
    obtain ⟨hb4, g_fu, g_db, g_eb, g_eu, _, g_mmu, hm4, _, _, _⟩ := writeCycle_back hb3 h4
    unfold afterExecute
    simp only [h4, bind, Except.bind]
    by_cases hdc : drainCond s4 = true
    · simp only [hdc, if_true, pure, Except.pure]
      refine ⟨{ s4 with mode := .drainFlush pc }, .running, rfl, Or.inr ⟨a', c, hstep, ⟨hb4, ?_⟩, ?_, ⟨fun hx => (nomatch hx), fun hx => (nomatch hx)⟩⟩⟩
      · show a'.pc = pc ∧ s4.eu.processing = false ∧ s4.eu.pendingMemoryRead = false ∧ s4.eu.memory = none
        rw [g_eu]; exact ⟨hpc, hproc3, hpend3, hmem3⟩
      · exact { iwf := (by show Proofs.Mvp3.IWf 64 s4.mmu.l1i; rw [g_mmu]; exact hiwf3),
                fuRem := (by show s4.fu.processing = true → _; rw [g_fu]; exact hfurem3), wuCyc := hw4,
                euRem := fun hx => (by cases hx), euRemP := fun hx => (by cases hx),
                dbus := (by show ∀ pc ∈ s4.decodeBus.inside, _; rw [g_db]; exact hdbus3),
                fuPc := (by show s4.fu.pc.toNat ≤ _; rw [g_fu]; exact hfupc3),
                drain := fun _ => hdc }
    · have hdc' : drainCond s4 = false := by simpa using hdc
      simp only [hdc', Bool.false_eq_true, if_false, pure, Except.pure]
      obtain ⟨hbf, hnf'⟩ := flushAll_rel (app := app) hb4 (drainCond_false hdc') hpc (by rw [g_eu]; exact hproc3)
        (by rw [g_eu]; exact hpend3) (by rw [g_eu]; exact hmem3)
      have hmodef : (flushAll s4 pc).mode = .normal := by show s4.mode = _; rw [hm4]; exact hmode3
      refine ⟨flushAll s4 pc, .running, rfl, Or.inr ⟨a', c, hstep, ⟨hbf, by rw [hmodef]; exact hnf'⟩, ?_,
        ⟨fun hx => (by rw [hmodef] at hx; cases hx),
         fun _ => (by show s4.eu.processing = false ∧ s4.eu.pendingMemoryRead = false; rw [g_eu]; exact ⟨hproc3, hpend3⟩)⟩⟩⟩
      exact { iwf := (by show Proofs.Mvp3.IWf 64 s4.mmu.l1i; rw [g_mmu]; exact hiwf3),
              fuRem := fun hx => (by simp [flushAll, FetchUnit.flush] at hx), wuCyc := hw4,
              euRem := fun _ hx => (by
                have : s4.eu.processing = true := hx
                rw [g_eu, hproc3] at this; cases this),
              euRemP := fun _ hx => (by
                have : s4.eu.pendingMemoryRead = true := hx
                rw [g_eu, hpend3] at this; cases this),
              dbus := fun pc' hx => (by
                have : pc' ∈ s4.decodeBus.flush.inside := hx
                rw [bus_flush_inside] at this; cases this),
              fuPc := (by
                show pc.toNat ≤ _
                rw [← hpc]
                have := hnext a' c hstep
                omega),
              drain := fun hx => absurd hmodef hx }


theorem cycleM_live_drainRet {app : App} {s : State} {a : Arch} (hm : s.mode = .drainRet) (hR : Rel app s a)
    (hlv : Live app s) : ∃ s' ev, cycleM app s = .ok (s', ev) ∧ LivePost app s a s' ev := by
  have hret : ∃ c, stepArch dc app a = .halt .ret c := by have := hR.front; rw [hm] at this; exact this
  have hdc0 : drainCond s = true := hlv.drain (by rw [hm]; intro h; cases h)
  obtain ⟨s4, h4, hw4, _, hWlt, _⟩ := writeCycle_live hR.back hlv.wuCyc
  obtain ⟨hb4, g_fu, g_db, g_eb, g_eu, _, g_mmu, hm4, _, _, _⟩ := writeCycle_back hR.back h4
  have hmode4 : s4.mode = .drainRet := by rw [hm4]; exact hm
  unfold cycleM
  simp only [hm, h4, bind, Except.bind]
  by_cases hdc : drainCond s4 = true
  · simp only [hdc, if_true, pure, Except.pure]
    refine ⟨s4, .running, rfl, Or.inl ⟨⟨hb4, by rw [hmode4]; exact hret⟩, ?_, ?_⟩⟩
    · exact { iwf := (by rw [g_mmu]; exact hlv.iwf), fuRem := (by rw [g_fu]; exact hlv.fuRem), wuCyc := hw4,
              euRem := fun hx => (by rw [hmode4] at hx; cases hx), euRemP := fun hx => (by rw [hmode4] at hx; cases hx),
              dbus := (by rw [g_db]; exact hlv.dbus), fuPc := (by rw [g_fu]; exact hlv.fuPc), drain := fun _ => hdc }
    · unfold phi; rw [hmode4, hm]; exact hWlt hdc0
  · have hdc' : drainCond s4 = false := by simpa using hdc
    simp only [hdc', Bool.false_eq_true, if_false]
    obtain ⟨s', hf, hlines⟩ := finish_ok .ret hb4
    exact ⟨s', .done .ret, hf, hret, hlines⟩

theorem fuW_le (app : App) (fu : FetchUnit) (hp : fu.processing = false) : fuW app fu ≤ 3 + Gen.Latency.MemoryAccess.toNat := by
  unfold fuW
  split
  · omega
  · split
    · omega
    · simp [hp]

theorem wW_zero {wu : WriteUnit} {bus : SimpleBus ExecCtx} (h1 : wu.pendingMemoryWrite = false) (h2 : bus.isEmpty = true) :
    wW wu bus = 0 := by
  unfold SimpleBus.isEmpty at h2
  simp only [Bool.and_eq_true] at h2
  have hp : bus.pending = none := by cases hx : bus.pending <;> simp [hx] at h2 ⊢
  have hc : bus.current = none := by cases hx : bus.current <;> simp [hx] at h2 ⊢
  unfold wW
  simp [h1, hp, hc, costCur, costPend]

theorem cycleM_live_drainFlush {app : App} {s : State} {a : Arch} {pc : Word} (hm : s.mode = .drainFlush pc)
    (hR : Rel app s a) (hlv : Live app s) (hapc : a.pc.toNat ≤ 4 * app.instrs.length) :
    ∃ s' ev, cycleM app s = .ok (s', ev) ∧ LivePost app s a s' ev := by
  have hfr : a.pc = pc ∧ s.eu.processing = false ∧ s.eu.pendingMemoryRead = false ∧ s.eu.memory = none := by
    have := hR.front; rw [hm] at this; exact this
  obtain ⟨hpc, hproc, hpe, hmem⟩ := hfr
  have hdc0 : drainCond s = true := hlv.drain (by rw [hm]; intro h; cases h)
  obtain ⟨s4, h4, hw4, _, hWlt, _⟩ :=
    writeCycle_live (s := { s with cycles := s.cycles + 1, mode := .drainFlush pc }) (a := a) hR.back hlv.wuCyc
  obtain ⟨hb4, g_fu, g_db, g_eb, g_eu, _, g_mmu, hm4, _, _, _⟩ :=
    writeCycle_back (s := { s with cycles := s.cycles + 1, mode := .drainFlush pc }) (a := a) hR.back h4
  have hmode4 : s4.mode = .drainFlush pc := hm4
  unfold cycleM
  simp only [hm, h4, bind, Except.bind]
  by_cases hdc : drainCond s4 = true
  · simp only [hdc, if_true, pure, Except.pure]
    refine ⟨s4, .running, rfl, Or.inl ⟨⟨hb4, ?_⟩, ?_, ?_⟩⟩
    · rw [hmode4]
      show a.pc = pc ∧ s4.eu.processing = false ∧ s4.eu.pendingMemoryRead = false ∧ s4.eu.memory = none
      rw [g_eu]; exact ⟨hpc, hproc, hpe, hmem⟩
    · exact { iwf := (by rw [g_mmu]; exact hlv.iwf), fuRem := (by rw [g_fu]; exact hlv.fuRem), wuCyc := hw4,
              euRem := fun hx => (by rw [hmode4] at hx; cases hx), euRemP := fun hx => (by rw [hmode4] at hx; cases hx),
              dbus := (by rw [g_db]; exact hlv.dbus), fuPc := (by rw [g_fu]; exact hlv.fuPc), drain := fun _ => hdc }
    · unfold phi; rw [hmode4, hm]
      have hlt : wW s4.wu s4.writeBus < wW s.wu s.writeBus := hWlt hdc0
      show 2000 + wW s4.wu s4.writeBus < 2000 + wW s.wu s.writeBus
      omega
  · have hdc' : drainCond s4 = false := by simpa using hdc
    simp only [hdc', Bool.false_eq_true, if_false, pure, Except.pure]
    obtain ⟨hbf, hnf'⟩ := flushAll_rel (app := app) hb4 (drainCond_false hdc') hpc (by rw [g_eu]; exact hproc)
      (by rw [g_eu]; exact hpe) (by rw [g_eu]; exact hmem)
    have hwu4 : s4.wu.pendingMemoryWrite = false := by
      unfold drainCond at hdc'
      simp only [Bool.or_eq_false_iff] at hdc'
      exact hdc'.1
    refine ⟨{ flushAll s4 pc with mode := .normal }, .running, rfl, Or.inl ⟨⟨hbf, ?_⟩, ?_, ?_⟩⟩
    · show NormalOk app { flushAll s4 pc with mode := .normal } a
      exact { consec := hnf'.consec, complete := hnf'.complete, busInstr := hnf'.busInstr, euRunner := hnf'.euRunner,
              idle := hnf'.idle,
              pend := fun hp => by
                obtain ⟨r, hr, hpo⟩ := hnf'.pend hp
                exact ⟨r, hr, hpo.transfer rfl rfl rfl rfl⟩,
              nomem := hnf'.nomem }
    · exact { iwf := (by show Proofs.Mvp3.IWf 64 s4.mmu.l1i; rw [g_mmu]; exact hlv.iwf),
              fuRem := fun hx => (by simp [flushAll, FetchUnit.flush] at hx), wuCyc := hw4,
              euRem := fun _ hx => (by
                have : s4.eu.processing = true := hx
                rw [g_eu, hproc] at this; cases this),
              euRemP := fun _ hx => (by
                have : s4.eu.pendingMemoryRead = true := hx
                rw [g_eu, hpe] at this; cases this),
              dbus := fun pc' hx => (by
                have : pc' ∈ s4.decodeBus.flush.inside := hx
                rw [bus_flush_inside] at this; cases this),
              fuPc := (by show pc.toNat ≤ _; rw [← hpc]; omega),
              drain := fun hx => absurd rfl hx }
    · -- after the flush the measure is small
      have e1 : phi app s = 2000 + wW s.wu s.writeBus := by unfold phi; rw [hm]
      have e2 : phi app { flushAll s4 pc with mode := .normal } =
          wW s4.wu s4.writeBus.flush + (500 + frontW app s4.executeBus.flush s4.decodeBus.flush (s4.fu.flush pc)) := by
        unfold phi euPhi
        have hp1 : s4.eu.processing = false := by rw [g_eu]; exact hproc
        have hp2 : s4.eu.pendingMemoryRead = false := by rw [g_eu]; exact hpe
        simp only [flushAll, hp1, hp2, Bool.false_eq_true, if_false]
      rw [e1, e2]
      have hw0 : wW s4.wu s4.writeBus.flush = 0 := wW_zero hwu4 rfl
      have hF := frontW_le_five (app := app) s4.executeBus.flush s4.decodeBus.flush (s4.fu.flush pc)
      have hfw := fuW_le app (s4.fu.flush pc) rfl
      have : Gen.Latency.MemoryAccess.toNat ≤ 399 := by decide
      omega

/-- **every tick is total and makes progress** (all modes): along a run whose unpipelined counterpart neither
panics nor leaves the program, a tick of MVP-4 never panics, keeps the simulation relation and the liveness
invariants, and either executes one instruction or strictly decreases the measure `phi`. -/
theorem cycle_live {app : App} {s : State} {a : Arch} (hsmall : app.instrs.length < 250)
    (hR : Rel app s a) (hlv : Live app s) (hnf : NoFwd app) (hok : stepOk app a = true) (hgood : SeqGood app a)
    (hapc : a.pc.toNat ≤ 4 * app.instrs.length)
    (hnext : ∀ a' c, stepArch dc app a = .next a' c → a'.pc.toNat ≤ 4 * app.instrs.length) :
    ∃ s' ev, cycle app s = (s', ev) ∧ LivePost app s a s' ev := by
  have key : ∃ s' ev, cycleM app s = .ok (s', ev) ∧ LivePost app s a s' ev := by
    cases hm : s.mode with
    | normal => exact cycleM_live_normal hsmall hm hR hlv hnf hok hgood hnext
    | drainRet => exact cycleM_live_drainRet hm hR hlv
    | drainFlush pc => exact cycleM_live_drainFlush hm hR hlv hapc
  obtain ⟨s', ev, h1, h2⟩ := key
  refine ⟨s', ev, ?_, h2⟩
  unfold cycle; rw [h1]

end Proofs.Mvp4

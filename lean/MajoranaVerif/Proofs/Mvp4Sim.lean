/-
  Proofs/Mvp4Sim.lean — one tick of the MVP-4 `Run` loop (`Model.Mvp4.cycle`) against the
  unpipelined machine: the simulation relation `Rel` is preserved, at most one instruction — the one at
  the architectural pc — is executed per tick, and the run ends the way the unpipelined run ends.
-/
import MajoranaVerif.Proofs.Mvp4Front
open GoInt Model Model.Mvp4 Model.Seq
open Proofs.Mmu (DWf Coh applyChanges base)

set_option linter.unusedSimpArgs false
set_option linter.unusedVariables false

namespace Proofs.Mvp4

/-! ### fetch and decode keep the relation -/

theorem PendOk.transfer {s s1 : State} {a : Arch} {r : Runner} (h : PendOk s a r)
    (h1 : s1.writeBus = s.writeBus) (h2 : s1.bu = s.bu) (h3 : s1.eu = s.eu) (h4 : s1.mmu.l1d = s.mmu.l1d) :
    PendOk s1 a r :=
  { wbFree := by rw [h1]; exact h.wbFree, noWriter := by rw [h1]; exact h.noWriter, bu := by rw [h2]; exact h.bu,
    memHit := by rw [h3]; exact h.memHit, memMiss := by rw [h3, h1, h4]; exact h.memMiss }

theorem fetchCycle_rel {app : App} {s s1 : State} {a : Arch} (hb : Back s a) (hn : NormalOk app s a)
    (h : fetchCycle app s = .ok s1) :
    Back s1 a ∧ NormalOk app s1 a ∧ s1.mode = s.mode ∧ s1.cycles = s.cycles := by
  unfold fetchCycle at h
  cases hc : fetchCore app s.fu s.mmu s.decodeBus with
  | error f => simp [hc, bind, Except.bind] at h
  | ok x =>
    obtain ⟨fu', mmu', bus'⟩ := x
    simp only [hc, bind, Except.bind, pure, Except.pure] at h
    injection h with h
    subst h
    obtain ⟨hl, hcons, hcomp⟩ := fetchCore_spec hc
    refine ⟨?_, ?_, rfl, rfl⟩
    · show BackRel s.ctx s.pwmi s.writeBus.inside mmu'.l1d s.eu.storeID a
      rw [hl]; exact hb
    · refine { consec := ?_, complete := hcomp hn.complete, busInstr := hn.busInstr, euRunner := hn.euRunner,
               idle := hn.idle, pend := ?_, nomem := hn.nomem }
      · have := hn.consec
        unfold window at this ⊢
        rw [← List.append_assoc] at this ⊢
        exact Consec.append_congr _ _ _ _ this hcons
      · intro hp
        obtain ⟨r, hr, hpo⟩ := hn.pend hp
        exact ⟨r, hr, hpo.transfer rfl rfl rfl hl⟩

theorem decodeCycle_rel {app : App} {s s1 : State} {a : Arch} (hb : Back s a) (hn : NormalOk app s a)
    (h : decodeCycle app s = .ok s1) :
    Back s1 a ∧ NormalOk app s1 a ∧ s1.mode = s.mode ∧ s1.cycles = s.cycles := by
  unfold decodeCycle at h
  cases hc : decodeCore app s.decodeBus s.executeBus with
  | error f => simp [hc, bind, Except.bind] at h
  | ok x =>
    obtain ⟨d', e'⟩ := x
    simp only [hc, bind, Except.bind, pure, Except.pure] at h
    injection h with h
    subst h
    obtain ⟨hw, hbi⟩ := decodeCore_spec hc
    refine ⟨hb, ?_, rfl, rfl⟩
    refine { consec := ?_, complete := hn.complete, busInstr := hbi hn.busInstr, euRunner := hn.euRunner,
             idle := hn.idle, pend := ?_, nomem := hn.nomem }
    · have := hn.consec
      unfold window at this ⊢
      simp only at this ⊢
      rw [← List.append_assoc (List.map _ _), hw, List.append_assoc]
      exact this
    · intro hp
      obtain ⟨r, hr, hpo⟩ := hn.pend hp
      exact ⟨r, hr, hpo.transfer rfl rfl rfl rfl⟩


/-! ### the write unit keeps the relation (with the same architectural state) -/

theorem writeCycle_back {s s1 : State} {a : Arch} (hb : Back s a) (h : writeCycle s = .ok s1) :
    Back s1 a ∧ s1.fu = s.fu ∧ s1.decodeBus = s.decodeBus ∧ s1.executeBus = s.executeBus ∧ s1.eu = s.eu ∧
      s1.bu = s.bu ∧ s1.mmu = s.mmu ∧ s1.mode = s.mode ∧ s1.cycles = s.cycles ∧
      (∀ ec ∈ s1.writeBus.inside, ec ∈ s.writeBus.inside) ∧
      (s.writeBus.canAdd = true → s1.writeBus.canAdd = true) := by
  unfold writeCycle at h
  cases hc : writeCore s.ctx s.pwmi s.writeBus s.wu with
  | error f => simp [hc, bind, Except.bind] at h
  | ok x =>
    obtain ⟨ctx', pwmi', bus', wu'⟩ := x
    simp only [hc, bind, Except.bind, pure, Except.pure] at h
    injection h with h
    subst h
    obtain ⟨hb', ⟨pre, hpre⟩, hpend⟩ := writeCore_spec (a := a) hb hc
    refine ⟨hb', rfl, rfl, rfl, rfl, rfl, rfl, rfl, rfl, ?_, ?_⟩
    · intro ec hec
      show ec ∈ s.writeBus.inside
      rw [hpre]; exact List.mem_append_right _ hec
    · intro hca
      show bus'.canAdd = true
      unfold SimpleBus.canAdd at hca ⊢
      have : s.writeBus.pending = none := by simpa using hca
      rw [hpend this]; rfl

theorem writeCycle_normal {app : App} {s s1 : State} {a : Arch} (hb : Back s a) (hn : NormalOk app s a)
    (h : writeCycle s = .ok s1) : Back s1 a ∧ NormalOk app s1 a ∧ s1.mode = s.mode ∧ s1.cycles = s.cycles := by
  obtain ⟨hb', h1, h2, h3, h4, h5, h6, h7, h8, hsub, hca⟩ := writeCycle_back hb h
  refine ⟨hb', ?_, h7, h8⟩
  refine { consec := ?_, complete := by rw [h1]; exact hn.complete, busInstr := by rw [h3]; exact hn.busInstr,
           euRunner := by rw [h4]; exact hn.euRunner, idle := by rw [h4]; exact hn.idle, pend := ?_,
           nomem := by rw [h4]; exact hn.nomem }
  · have := hn.consec
    unfold window at this ⊢
    rw [h1, h2, h3, h4]; exact this
  · intro hp
    rw [h4] at hp
    obtain ⟨r, hr, hpo⟩ := hn.pend hp
    refine ⟨r, by rw [h4]; exact hr, ?_⟩
    exact { wbFree := hca hpo.wbFree, noWriter := hpo.noWriter.of_suffix hsub, bu := by rw [h5]; exact hpo.bu,
            memHit := by rw [h4]; exact hpo.memHit,
            memMiss := by
              rw [h4, h6]
              intro hm
              obtain ⟨a0, as, e1, e2, e3, e4⟩ := hpo.memMiss hm
              exact ⟨a0, as, e1, e2, fun ec hec => e3 ec (hsub ec hec), e4⟩ }

/-! ### the end of the run and the pipeline flush -/

/-- the final registers and memory are the architectural ones -/
def Final (s : State) (a : Arch) : Prop := s.ctx.Registers = a.ctx.Registers ∧ s.ctx.Memory = a.ctx.Memory

/-- **after the drain and `mmu.flush()`, `ctx.Registers` / `ctx.Memory` ARE the architectural state** -/
theorem finish_sim {s s' : State} {a : Arch} {hk : Halt} {ev : Event} (hb : Back s a)
    (he : s.writeBus.isEmpty = true) (h : finish s hk = .ok (s', ev)) : ev = .done hk ∧ Final s' a := by
  have hq : s.writeBus.inside = [] := (bus_isEmpty_iff _).mp he
  have hb' : BackRel s.ctx s.pwmi s.writeBus.inside s.mmu.l1d s.eu.storeID a := hb
  obtain ⟨F0, hcoh, hmemq⟩ := hb'.coh
  have hfl := Proofs.Mmu.flush_ok hcfg hL hb'.dwf hcoh
  unfold finish at h
  simp only [hfl, bind, Except.bind, pure, Except.pure] at h
  injection h with h
  simp only [Prod.mk.injEq] at h
  obtain ⟨rfl, rfl⟩ := h
  refine ⟨rfl, ?_, ?_⟩
  · show s.ctx.Registers = a.ctx.Registers
    rw [hb'.regs, hq]; rfl
  · show F0 = a.ctx.Memory
    rw [hmemq, hq]; rfl

theorem drainCond_false {s : State} (h : drainCond s = false) : s.writeBus.isEmpty = true := by
  unfold drainCond at h
  simp only [Bool.or_eq_false_iff, Bool.not_eq_false'] at h
  exact h.2

/-- `CPU.flush(pc)` after the drain: the machine restarts at `pc` with an empty front end -/
theorem flushAll_rel {app : App} {s : State} {a : Arch} {pc : Word} (hb : Back s a) (he : s.writeBus.isEmpty = true)
    (hpc : a.pc = pc) (hproc : s.eu.processing = false) (hpe : s.eu.pendingMemoryRead = false)
    (hm : s.eu.memory = none) : Back (flushAll s pc) a ∧ NormalOk app (flushAll s pc) a := by
  have hq : s.writeBus.inside = [] := (bus_isEmpty_iff _).mp he
  have hb' : BackRel s.ctx s.pwmi s.writeBus.inside s.mmu.l1d s.eu.storeID a := hb
  rw [hq] at hb'
  constructor
  · show BackRel _ [] (s.writeBus.flush.inside) s.mmu.l1d s.eu.storeID a
    rw [bus_flush_inside]
    exact { rat := hb'.rat, tx := hb'.tx, arat := hb'.arat, atx := hb'.atx, regs := hb'.regs, dwf := hb'.dwf,
            coh := hb'.coh, shape := fun _ hec => (nomatch hec),
            score := fun r => (by
              show _ ≤ GoMap.get1 ({} : GoMap Reg Int) r
              simp [get1_empty]),
            stOk := fun _ hec => (nomatch hec), stUncached := fun _ hec => (nomatch hec),
            stPw := fun _ hec => (nomatch hec), ids := (by simp [storeIds]),
            idsLe := fun id hid => (by simp [storeIds] at hid),
            scoreUp := fun r => (by
              show GoMap.get1 ({} : GoMap Reg Int) r ≤ _
              simp [get1_empty]),
            pwSub := fun _ hx => (nomatch hx), pwNodup := List.nodup_nil }
  · refine NormalOk.of_idle ⟨?_, ?_, ?_⟩ hproc hpe hm
    · show Consec a.pc (s.executeBus.flush.inside.map (·.pc) ++ (s.decodeBus.flush.inside ++ [pc]))
      rw [bus_flush_inside, bus_flush_inside]
      exact ⟨hpc.symm, trivial⟩
    · intro hx; simp [flushAll, FetchUnit.flush] at hx
    · intro r hr
      have : r ∈ s.executeBus.flush.inside := hr
      rw [bus_flush_inside] at this; cases this


/-! ### one tick -/

/-- zero or one step of the unpipelined machine -/
def Step01 (app : App) (a a1 : Arch) : Prop := a1 = a ∨ ∃ c, stepArch dc app a = .next a1 c

/-- what one tick of the MVP-4 `Run` loop guarantees, by its outcome -/
def TickPost (app : App) (a : Arch) (s' : State) : Event → Prop
  | .running => ∃ a1, Step01 app a a1 ∧ Rel app s' a1
  | .done .ret => ∃ a1, Step01 app a a1 ∧ (∃ c, stepArch dc app a1 = .halt .ret c) ∧ Final s' a1
  | .done .offEnd => ∃ a1, Step01 app a a1 ∧ (∃ c, stepArch dc app a1 = .halt .offEnd c) ∧ Final s' a1
  | .done .err => ∃ c, stepArch dc app a = .halt .err c
  | .done (.panic _) => True

theorem NormalOk.with_cycles {app : App} {s : State} {a : Arch} (hn : NormalOk app s a) (c : Int) (m : Mode) :
    NormalOk app { s with cycles := c, mode := m } a :=
  { consec := hn.consec, complete := hn.complete, busInstr := hn.busInstr, euRunner := hn.euRunner, idle := hn.idle,
    pend := fun hp => by
      obtain ⟨r, hr, hpo⟩ := hn.pend hp
      exact ⟨r, hr, hpo.transfer rfl rfl rfl rfl⟩,
    nomem := hn.nomem }

theorem isComplete_spec {s : State} (h : isComplete s = true) :
    s.fu.complete = true ∧ s.eu.processing = false ∧ s.decodeBus.inside = [] ∧ s.executeBus.inside = [] ∧
      s.writeBus.isEmpty = true := by
  unfold isComplete at h
  simp only [Bool.and_eq_true, Bool.not_eq_true'] at h
  obtain ⟨⟨⟨⟨⟨h1, h2⟩, _⟩, h4⟩, h5⟩, h6⟩ := h
  exact ⟨h1, h2, (bus_isEmpty_iff _).mp h4, (bus_isEmpty_iff _).mp h5, h6⟩

/-- the loop is at the head of the outer `for` -/
theorem cycleM_normal {app : App} {s s' : State} {a : Arch} {ev : Event} (hm : s.mode = .normal)
    (hR : Rel app s a) (hnf : NoFwd app) (hok : stepOk app a = true)
    (h : cycleM app s = .ok (s', ev)) : TickPost app a s' ev := by
  have hn0 : NormalOk app s a := by have := hR.front; rw [hm] at this; exact this
  unfold cycleM at h
  simp only [hm] at h
  cases h1 : fetchCycle app { s with cycles := s.cycles + 1, mode := .normal } with
  | error f => simp [h1, bind, Except.bind] at h
  | ok s1 =>
    obtain ⟨hb1, hn1, hm1, _⟩ := fetchCycle_rel (a := a) (s := { s with cycles := s.cycles + 1, mode := .normal }) hR.back (hn0.with_cycles _ _) h1
    simp only [h1, bind, Except.bind] at h
    cases h2 : decodeCycle app s1 with
    | error f => simp [h2] at h
    | ok s2 =>
      obtain ⟨hb2, hn2, hm2, _⟩ := decodeCycle_rel hb1 hn1 h2
      simp only [h2] at h
      cases h3 : executeCycle app s2 with
      | error f => simp [h3] at h
      | ok x =>
        obtain ⟨s3, out⟩ := x
        obtain ⟨_, _, _, hm3, _, hpost⟩ := executeCycle_sim hb2 hn2 hnf hok h3
        have hmode3 : s3.mode = .normal := by rw [hm3, hm2, hm1]
        simp only [h3] at h
        unfold afterExecute at h
        simp only [bind, Except.bind] at h
        cases out with
        | err =>
          simp only [pure, Except.pure] at h
          injection h with h
          simp only [Prod.mk.injEq] at h
          obtain ⟨rfl, rfl⟩ := h
          exact hpost
        | none =>
          have hex : ∃ a1, Step01 app a a1 ∧ Back s3 a1 ∧ NormalOk app s3 a1 := by
            rcases hpost with ⟨hb, hn, _⟩ | ⟨a', c, hst, hb, hn, _, _⟩
            · exact ⟨a, Or.inl rfl, hb, hn⟩
            · exact ⟨a', Or.inr ⟨c, hst⟩, hb, hn⟩
          obtain ⟨a1, hs01, hb3, hn3⟩ := hex
          cases h4 : writeCycle s3 with
          | error f => simp [h4] at h
          | ok s4 =>
            obtain ⟨hb4, hn4, hm4, _⟩ := writeCycle_normal hb3 hn3 h4
            simp only [h4] at h
            by_cases hic : isComplete s4 = true
            · simp only [hic, if_true] at h
              obtain ⟨c1, c2, c3, c4, c5⟩ := isComplete_spec hic
              obtain ⟨rfl, hfin⟩ := finish_sim hb4 c5 h
              have hrest := hn4.rest_idle c2
              have hcons := hrest.consec
              rw [c3, c4] at hcons
              simp only [List.map_nil, List.nil_append] at hcons
              have hpe : pastEnd app a1.pc = true := by rw [← hcons.1]; exact hrest.complete c1
              exact ⟨a1, hs01, ⟨_, stepArch_offEnd hpe⟩, hfin⟩
            · simp only [hic, Bool.false_eq_true, if_false, pure, Except.pure] at h
              injection h with h
              simp only [Prod.mk.injEq] at h
              obtain ⟨rfl, rfl⟩ := h
              refine ⟨a1, hs01, hb4, ?_⟩
              have : s4.mode = .normal := by rw [hm4]; exact hmode3
              rw [this]; exact hn4
        | ret =>
          obtain ⟨hret, hb3, _⟩ := hpost
          cases h4 : writeCycle s3 with
          | error f => simp [h4] at h
          | ok s4 =>
            obtain ⟨hb4, _⟩ := writeCycle_back hb3 h4
            simp only [h4] at h
            by_cases hdc : drainCond s4 = true
            · simp only [hdc, if_true, pure, Except.pure] at h
              injection h with h
              simp only [Prod.mk.injEq] at h
              obtain ⟨rfl, rfl⟩ := h
              exact ⟨a, Or.inl rfl, hb4, hret⟩
            · have hdc' : drainCond s4 = false := by simpa using hdc
              simp only [hdc', Bool.false_eq_true, if_false] at h
              obtain ⟨rfl, hfin⟩ := finish_sim hb4 (drainCond_false hdc') h
              exact ⟨a, Or.inl rfl, hret, hfin⟩
        | flush pc =>
          obtain ⟨a', c, hst, hpc, hb3, hproc, hpe, hmem⟩ := hpost
          cases h4 : writeCycle s3 with
          | error f => simp [h4] at h
          | ok s4 =>
            obtain ⟨hb4, _, _, _, heu, _, _, hm4, _⟩ := writeCycle_back hb3 h4
            simp only [h4] at h
            by_cases hdc : drainCond s4 = true
            · simp only [hdc, if_true, pure, Except.pure] at h
              injection h with h
              simp only [Prod.mk.injEq] at h
              obtain ⟨rfl, rfl⟩ := h
              refine ⟨a', Or.inr ⟨c, hst⟩, hb4, ?_⟩
              show a'.pc = pc ∧ s4.eu.processing = false ∧ s4.eu.pendingMemoryRead = false ∧ s4.eu.memory = none
              rw [heu]; exact ⟨hpc, hproc, hpe, hmem⟩
            · have hdc' : drainCond s4 = false := by simpa using hdc
              simp only [hdc', Bool.false_eq_true, if_false, pure, Except.pure] at h
              injection h with h
              simp only [Prod.mk.injEq] at h
              obtain ⟨rfl, rfl⟩ := h
              obtain ⟨hbf, hnf'⟩ := flushAll_rel (app := app) hb4 (drainCond_false hdc') hpc (by rw [heu]; exact hproc)
                (by rw [heu]; exact hpe) (by rw [heu]; exact hmem)
              refine ⟨a', Or.inr ⟨c, hst⟩, hbf, ?_⟩
              have : (flushAll s4 pc).mode = .normal := by show s4.mode = _; rw [hm4]; exact hmode3
              rw [this]; exact hnf'


/-- the loop is inside the drain loop after a `ret` -/
theorem cycleM_drainRet {app : App} {s s' : State} {a : Arch} {ev : Event} (hm : s.mode = .drainRet)
    (hR : Rel app s a) (h : cycleM app s = .ok (s', ev)) : TickPost app a s' ev := by
  have hret : ∃ c, stepArch dc app a = .halt .ret c := by have := hR.front; rw [hm] at this; exact this
  unfold cycleM at h
  simp only [hm] at h
  cases h4 : writeCycle s with
  | error f => simp [h4, bind, Except.bind] at h
  | ok s4 =>
    obtain ⟨hb4, _, _, _, _, _, _, hm4, _⟩ := writeCycle_back hR.back h4
    simp only [h4, bind, Except.bind] at h
    by_cases hdc : drainCond s4 = true
    · simp only [hdc, if_true, pure, Except.pure] at h
      injection h with h
      simp only [Prod.mk.injEq] at h
      obtain ⟨rfl, rfl⟩ := h
      refine ⟨a, Or.inl rfl, hb4, ?_⟩
      rw [hm4, hm]; exact hret
    · have hdc' : drainCond s4 = false := by simpa using hdc
      simp only [hdc', Bool.false_eq_true, if_false] at h
      obtain ⟨rfl, hfin⟩ := finish_sim hb4 (drainCond_false hdc') h
      exact ⟨a, Or.inl rfl, hret, hfin⟩

/-- the loop is inside the drain loop before `m.flush(pc)` -/
theorem cycleM_drainFlush {app : App} {s s' : State} {a : Arch} {ev : Event} {pc : Word} (hm : s.mode = .drainFlush pc)
    (hR : Rel app s a) (h : cycleM app s = .ok (s', ev)) : TickPost app a s' ev := by
  have hfr : a.pc = pc ∧ s.eu.processing = false ∧ s.eu.pendingMemoryRead = false ∧ s.eu.memory = none := by
    have := hR.front; rw [hm] at this; exact this
  obtain ⟨hpc, hproc, hpe, hmem⟩ := hfr
  unfold cycleM at h
  simp only [hm] at h
  cases h4 : writeCycle { s with cycles := s.cycles + 1, mode := .drainFlush pc } with
  | error f => simp [h4, bind, Except.bind] at h
  | ok s4 =>
    obtain ⟨hb4, _, _, _, heu, _, _, hm4, _⟩ :=
      writeCycle_back (s := { s with cycles := s.cycles + 1, mode := .drainFlush pc }) (a := a) hR.back h4
    simp only [h4, bind, Except.bind] at h
    by_cases hdc : drainCond s4 = true
    · simp only [hdc, if_true, pure, Except.pure] at h
      injection h with h
      simp only [Prod.mk.injEq] at h
      obtain ⟨rfl, rfl⟩ := h
      refine ⟨a, Or.inl rfl, hb4, ?_⟩
      rw [hm4]
      show a.pc = pc ∧ s4.eu.processing = false ∧ s4.eu.pendingMemoryRead = false ∧ s4.eu.memory = none
      rw [heu]; exact ⟨hpc, hproc, hpe, hmem⟩
    · have hdc' : drainCond s4 = false := by simpa using hdc
      simp only [hdc', Bool.false_eq_true, if_false, pure, Except.pure] at h
      injection h with h
      simp only [Prod.mk.injEq] at h
      obtain ⟨rfl, rfl⟩ := h
      obtain ⟨hbf, hnf'⟩ := flushAll_rel (app := app) hb4 (drainCond_false hdc') hpc (by rw [heu]; exact hproc)
        (by rw [heu]; exact hpe) (by rw [heu]; exact hmem)
      refine ⟨a, Or.inl rfl, hbf, ?_⟩
      show NormalOk app { flushAll s4 pc with mode := .normal } a
      exact { consec := hnf'.consec, complete := hnf'.complete, busInstr := hnf'.busInstr, euRunner := hnf'.euRunner,
              idle := hnf'.idle,
              pend := fun hp => by
                obtain ⟨r, hr, hpo⟩ := hnf'.pend hp
                exact ⟨r, hr, hpo.transfer rfl rfl rfl rfl⟩,
              nomem := hnf'.nomem }

/-- **the per-tick simulation theorem**: with the simulation relation in force and the side conditions of the
instruction at the architectural pc (`stepOk`), one tick of MVP-4 performs zero or one step of the unpipelined
machine and re-establishes the relation; when the run ends, it ends the way the unpipelined run ends, and for
`ret` / running past the end the final `ctx.Registers` and `ctx.Memory` (after the cache flush) are the
architectural registers and memory. -/
theorem cycle_sim {app : App} {s s' : State} {a : Arch} {ev : Event}
    (hR : Rel app s a) (hnf : NoFwd app) (hok : stepOk app a = true)
    (h : cycle app s = (s', ev)) : TickPost app a s' ev := by
  unfold cycle at h
  cases hc : cycleM app s with
  | error f =>
    cases f with
    | panic w =>
      simp only [hc, Prod.mk.injEq] at h
      obtain ⟨_, rfl⟩ := h
      trivial
    | err w =>
      simp only [hc, Prod.mk.injEq] at h
      obtain ⟨_, rfl⟩ := h
      trivial
  | ok r =>
    obtain ⟨s1, ev1⟩ := r
    simp only [hc, Prod.mk.injEq] at h
    obtain ⟨rfl, rfl⟩ := h
    cases hm : s.mode with
    | normal => exact cycleM_normal hm hR hnf hok hc
    | drainRet => exact cycleM_drainRet hm hR hc
    | drainFlush pc => exact cycleM_drainFlush hm hR hc

end Proofs.Mvp4

/-
  Proofs/Msi.lean — the inductive invariant of the abstract MSI protocol model
  (`Model/Msi.lean`, part (b)) and its preservation by every action except `flush`
  of a core with a request in progress.  `Props/C06.lean` states the C06 clauses
  from it.  Core Lean only.
-/
import MajoranaVerif.Model.Msi

namespace Proofs.Msi
open Model.Msi

variable {D : Type}

/-- number of cores below `n` satisfying `p` -/
def cnt (p : Nat → Bool) : Nat → Nat
  | 0 => 0
  | n + 1 => cnt p n + (if p n then 1 else 0)

/-- core `c` has a request on line `l` holding a read lock -/
def shrOn (σ : State D) (l : Line) (c : Core) : Bool :=
  match σ.req c with
  | some r => decide (r.line = l) && r.mode.shr
  | none => false

/-- core `c` has a request on line `l` holding the write lock -/
def exclOn (σ : State D) (l : Line) (c : Core) : Bool :=
  match σ.req c with
  | some r => decide (r.line = l) && r.mode.excl
  | none => false

/-- the states of OTHER cores a request must have removed before it goes on -/
def blocks : Mode → St → Bool
  | .rdFill, .M => true
  | .wrFill, .S => true
  | .wrFill, .M => true
  | .wrUpg, .S => true
  | .wrUpg, .M => true
  | _, _ => false

/-- the command that removes a state -/
def kindFor : St → Kind
  | .M => .writeBack
  | _ => .evict

def isWait : Stage D → Bool
  | .wait => true
  | _ => false

/-- the line has been pushed into L1 by this (fill) request -/
def isPost : Stage D → Bool
  | .pushed _ => true
  | .l1 => true
  | _ => false

/-- "a transfer is in progress" on (c, l) in the model: a fill request of `c` on `l` has pushed
the line and `post()` has not run yet -/
def inTransfer (σ : State D) (c : Core) (l : Line) : Prop :=
  ∃ r, σ.req c = some r ∧ r.line = l ∧ r.mode.fill = true ∧ isPost r.stage = true

/-- the state a core must be in for its request's mode (fixed at lock time, stable until `post`) -/
def modeSt : Mode → St
  | .rdFill => .I
  | .wrFill => .I
  | .rdHitS => .S
  | .wrUpg => .S
  | .rdHitM => .M
  | .wrHitM => .M

/-- **the inductive invariant** -/
structure Inv (σ : State D) : Prop where
  noPanic : σ.panic = false
  /-- cores ≥ n do not exist -/
  outside : ∀ c, σ.n ≤ c → σ.req c = none ∧ ∀ l, σ.st c l = .I
  /-- the lock counters count the requests in progress -/
  semRead : ∀ l, (σ.sem l).read = cnt (shrOn σ l) σ.n
  semWrite : ∀ l, (σ.sem l).write = cnt (exclOn σ l) σ.n
  semExcl : ∀ l, (σ.sem l).write ≤ 1 ∧ (0 < (σ.sem l).read → (σ.sem l).write = 0)
  /-- single writer -/
  single : ∀ c c' l, σ.st c l = .M → c' ≠ c → σ.st c' l = .I
  /-- every state of another core that a request must remove is covered by a pending command of
  that request, and only while the request waits -/
  cover : ∀ c r e, σ.req c = some r → e ≠ c → blocks r.mode (σ.st e r.line) = true →
    isWait r.stage = true ∧ r.pend e (kindFor (σ.st e r.line)) = true
  /-- pending commands exist, are to other cores, and only waiting requests have them -/
  pendCmd : ∀ c r e k, σ.req c = some r → r.pend e k = true →
    isWait r.stage = true ∧ e ≠ c ∧ σ.cmd e r.line k = true ∧ (r.mode.shr = true → k = .writeBack)
  /-- a command matches the state of its target -/
  cmdState : ∀ e l, (σ.cmd e l .evict = true → σ.st e l = .S) ∧ (σ.cmd e l .writeBack = true → σ.st e l = .M)
  /-- every outstanding command is waited for: by a requester on that line, or by the target core's
  own extra-line eviction -/
  cmdOwner : ∀ e l k, σ.cmd e l k = true →
    (∃ c r, c ≠ e ∧ σ.req c = some r ∧ r.line = l ∧ r.pend e k = true) ∨
    (∃ r, σ.req e = some r ∧ r.stage = .pushed (some (l, k)))
  /-- the extra line being evicted is not the line of the request -/
  victim : ∀ c r v k, σ.req c = some r → r.stage = .pushed (some (v, k)) →
    v ≠ r.line ∧ σ.cmd c v k = true
  /-- the requester's own state is the one its mode was decided from -/
  modeState : ∀ c r, σ.req c = some r → σ.st c r.line = modeSt r.mode
  /-- only fills fetch and push -/
  stageMode : ∀ c r, σ.req c = some r → r.mode.fill = false → (isWait r.stage = true ∨ r.stage = .l1)
  /-- L1 presence ↔ state, with the transfer window -/
  holdsOfState : ∀ c l, σ.st c l ≠ .I → σ.l1 c l ≠ none
  stateOfHolds : ∀ c l, σ.l1 c l ≠ none → σ.st c l = .I → inTransfer σ c l
  postHolds : ∀ c r, σ.req c = some r → r.mode.fill = true → isPost r.stage = true → σ.l1 c r.line ≠ none
  /-- data: Shared = next level; a read fill carries / has pushed the next level's contents -/
  sharedData : ∀ c l, σ.st c l = .S → σ.l1 c l = some (σ.mem l)
  fetchData : ∀ c r d, σ.req c = some r → r.mode = .rdFill → r.stage = .fetch d → d = σ.mem r.line
  postData : ∀ c r, σ.req c = some r → r.mode = .rdFill → isPost r.stage = true → σ.l1 c r.line = some (σ.mem r.line)

/-- a `flush` that does nothing: the core has no request in progress -/
def FlushIdle (σ : State D) : Action D → Prop
  | .flush c => σ.req c = none
  | _ => False

/-! ## Function updates -/

theorem upd_same {α β : Type} [DecidableEq α] (f : α → β) (a : α) (b : β) : upd f a b a = b := by
  simp [upd]

theorem upd_other {α β : Type} [DecidableEq α] (f : α → β) {a x : α} (b : β) (h : x ≠ a) :
    upd f a b x = f x := by
  simp [upd, h]

theorem upd2_same {α β γ : Type} [DecidableEq α] [DecidableEq β] (f : α → β → γ) (a : α) (b : β) (v : γ) :
    upd2 f a b v a b = v := by
  simp [upd2]

theorem upd2_other {α β γ : Type} [DecidableEq α] [DecidableEq β] (f : α → β → γ) {a x : α} {b y : β}
    (v : γ) (h : ¬ (x = a ∧ y = b)) : upd2 f a b v x y = f x y := by
  simp [upd2, h]

/-! ## Counting -/

/-- congruence: `cnt` only looks at indices below `n` -/
theorem cnt_congr {p q : Nat → Bool} : ∀ {n : Nat}, (∀ c, c < n → p c = q c) → cnt p n = cnt q n
  | 0, _ => rfl
  | n + 1, h => by
    simp only [cnt]
    rw [cnt_congr (fun c hc => h c (Nat.lt_succ_of_lt hc)), h n (Nat.lt_succ_self n)]

/-- flipping exactly one index below `n` from false to true adds one -/
theorem cnt_flip {p q : Nat → Bool} {c : Nat} (hp : p c = false) (hq : q c = true)
    (ho : ∀ c', c' ≠ c → p c' = q c') : ∀ {n : Nat}, c < n → cnt q n = cnt p n + 1
  | 0, h => absurd h (Nat.not_lt_zero _)
  | n + 1, h => by
    simp only [cnt]
    by_cases hcn : c = n
    · subst hcn
      rw [cnt_congr (p := q) (q := p) (fun c' hc' => (ho c' (Nat.ne_of_lt hc')).symm), hp, hq]
      simp
    · have hlt : c < n := by omega
      rw [cnt_flip hp hq ho hlt, ho n (Ne.symm hcn)]
      omega

/-- a true index below `n` is counted -/
theorem cnt_pos {p : Nat → Bool} {c : Nat} (hp : p c = true) : ∀ {n : Nat}, c < n → 1 ≤ cnt p n
  | 0, h => absurd h (Nat.not_lt_zero _)
  | n + 1, h => by
    simp only [cnt]
    by_cases hcn : c = n
    · subst hcn; rw [hp]; simp
    · have hlt : c < n := by omega
      have := cnt_pos hp hlt
      omega

/-- two distinct true indices below `n` are both counted -/
theorem cnt_two {p : Nat → Bool} {c c' : Nat} (hne : c ≠ c') (hp : p c = true) (hp' : p c' = true)
    {n : Nat} (hc : c < n) (hc' : c' < n) : 2 ≤ cnt p n := by
  have h1 : cnt p n = cnt (fun x => if x = c then false else p x) n + 1 :=
    cnt_flip (c := c) (by simp) hp (by intro x hx; simp [hx]) hc
  have h2 : 1 ≤ cnt (fun x => if x = c then false else p x) n :=
    cnt_pos (c := c') (by simp [Ne.symm hne, hp']) hc'
  omega

theorem cnt_false {p : Nat → Bool} : ∀ {n : Nat}, (∀ c, c < n → p c = false) → cnt p n = 0
  | 0, _ => rfl
  | n + 1, h => by
    simp only [cnt]
    rw [cnt_false (fun c hc => h c (Nat.lt_succ_of_lt hc)), h n (Nat.lt_succ_self n)]
    simp

/-- a zero count has no true index below `n` -/
theorem cnt_zero {p : Nat → Bool} {n c : Nat} (h0 : cnt p n = 0) (hc : c < n) : p c = false := by
  cases hp : p c with
  | false => rfl
  | true => have := cnt_pos hp hc; omega

/-! ## `shrOn` / `exclOn` -/

theorem shrOn_some {σ : State D} {c : Core} {r : Req D} (hr : σ.req c = some r) (l : Line) :
    shrOn σ l c = (decide (r.line = l) && r.mode.shr) := by
  simp [shrOn, hr]

theorem shrOn_none {σ : State D} {c : Core} (hr : σ.req c = none) (l : Line) : shrOn σ l c = false := by
  simp [shrOn, hr]

theorem exclOn_some {σ : State D} {c : Core} {r : Req D} (hr : σ.req c = some r) (l : Line) :
    exclOn σ l c = (decide (r.line = l) && r.mode.excl) := by
  simp [exclOn, hr]

theorem exclOn_none {σ : State D} {c : Core} (hr : σ.req c = none) (l : Line) : exclOn σ l c = false := by
  simp [exclOn, hr]

/-- line and mode of the request of a core -/
def sig (σ : State D) (c : Core) : Option (Line × Mode) := (σ.req c).map fun r => (r.line, r.mode)

theorem shrOn_sig (σ : State D) (l : Line) (c : Core) :
    shrOn σ l c = match sig σ c with
      | some (l', m) => decide (l' = l) && m.shr
      | none => false := by
  unfold shrOn sig; cases σ.req c <;> rfl

theorem exclOn_sig (σ : State D) (l : Line) (c : Core) :
    exclOn σ l c = match sig σ c with
      | some (l', m) => decide (l' = l) && m.excl
      | none => false := by
  unfold exclOn sig; cases σ.req c <;> rfl

theorem shrOn_congr {σ σ' : State D} {c : Core} (h : sig σ' c = sig σ c) (l : Line) :
    shrOn σ' l c = shrOn σ l c := by
  rw [shrOn_sig, shrOn_sig, h]

theorem exclOn_congr {σ σ' : State D} {c : Core} (h : sig σ' c = sig σ c) (l : Line) :
    exclOn σ' l c = exclOn σ l c := by
  rw [exclOn_sig, exclOn_sig, h]

theorem sig_of_req_eq {σ σ' : State D} {c : Core} (h : σ'.req c = σ.req c) : sig σ' c = sig σ c := by
  unfold sig; rw [h]

theorem sig_of_some {σ σ' : State D} {c : Core} {r r' : Req D} (h : σ.req c = some r) (h' : σ'.req c = some r')
    (hl : r'.line = r.line) (hm : r'.mode = r.mode) : sig σ' c = sig σ c := by
  unfold sig; rw [h, h']; simp [hl, hm]

/-- the counters part of the invariant only depends on `n`, `sem` and the (line, mode) of the requests -/
theorem sem_frame {σ σ' : State D} (h : Inv σ) (en : σ'.n = σ.n) (esem : σ'.sem = σ.sem)
    (esig : ∀ c, sig σ' c = sig σ c) :
    (∀ l, (σ'.sem l).read = cnt (shrOn σ' l) σ'.n) ∧ (∀ l, (σ'.sem l).write = cnt (exclOn σ' l) σ'.n) ∧
    (∀ l, (σ'.sem l).write ≤ 1 ∧ (0 < (σ'.sem l).read → (σ'.sem l).write = 0)) := by
  refine ⟨?_, ?_, ?_⟩
  · intro l
    rw [esem, en, cnt_congr (q := shrOn σ l) (fun c _ => shrOn_congr (esig c) l)]
    exact h.semRead l
  · intro l
    rw [esem, en, cnt_congr (q := exclOn σ l) (fun c _ => exclOn_congr (esig c) l)]
    exact h.semWrite l
  · intro l
    rw [esem]; exact h.semExcl l

/-! ## Consequences of the invariant -/

theorem Mode.excl_eq (m : Mode) : m.excl = !m.shr := rfl

/-- only existing cores have requests -/
theorem Inv.lt_n {σ : State D} (h : Inv σ) {c : Nat} {r : Req D} (hr : σ.req c = some r) : c < σ.n := by
  apply Classical.byContradiction
  intro hn
  have := (h.outside c (Nat.le_of_not_lt hn)).1
  rw [this] at hr; cases hr

/-- a shared-mode request is counted by the read counter -/
theorem Inv.read_pos {σ : State D} (h : Inv σ) {c : Core} {r : Req D} (hr : σ.req c = some r)
    (hs : r.mode.shr = true) : 1 ≤ (σ.sem r.line).read := by
  have h1 : shrOn σ r.line c = true := by rw [shrOn_some hr]; simp [hs]
  have h2 := cnt_pos h1 (h.lt_n hr)
  have h3 := h.semRead r.line
  omega

/-- an exclusive-mode request is counted by the write counter -/
theorem Inv.write_pos {σ : State D} (h : Inv σ) {c : Core} {r : Req D} (hr : σ.req c = some r)
    (hs : r.mode.shr = false) : 1 ≤ (σ.sem r.line).write := by
  have h1 : exclOn σ r.line c = true := by rw [exclOn_some hr]; simp [Mode.excl_eq, hs]
  have h2 := cnt_pos h1 (h.lt_n hr)
  have h3 := h.semWrite r.line
  omega

/-- two different cores with requests on the same line: the first one holds a read lock -/
theorem Inv.shr_of_two {σ : State D} (h : Inv σ) {c c' : Core} {r r' : Req D} (hr : σ.req c = some r)
    (hr' : σ.req c' = some r') (hne : c ≠ c') (hl : r'.line = r.line) : r.mode.shr = true := by
  cases hs : r.mode.shr with
  | true => rfl
  | false =>
    exfalso
    have hx : exclOn σ r.line c = true := by rw [exclOn_some hr]; simp [Mode.excl_eq, hs]
    have hw := h.semWrite r.line
    have hex := h.semExcl r.line
    cases hs' : r'.mode.shr with
    | true =>
      have h1 := h.read_pos hr' hs'
      rw [hl] at h1
      have h2 := h.write_pos hr hs
      omega
    | false =>
      have hx' : exclOn σ r.line c' = true := by rw [exclOn_some hr']; simp [Mode.excl_eq, hs', hl]
      have := cnt_two hne hx hx' (h.lt_n hr) (h.lt_n hr')
      omega

/-- the holder of the write lock of a line is the only core with a request on the line -/
theorem Inv.excl_alone {σ : State D} (h : Inv σ) {c c' : Core} {r r' : Req D} (hr : σ.req c = some r)
    (hx : r.mode.shr = false) (hr' : σ.req c' = some r') (hl : r'.line = r.line) : c' = c := by
  apply Classical.byContradiction
  intro hne
  have := h.shr_of_two hr hr' (fun e => hne e.symm) hl
  rw [hx] at this; cases this

/-- a request past `wait` has no pending command -/
theorem Inv.pend_false {σ : State D} (h : Inv σ) {c : Core} {r : Req D} (hr : σ.req c = some r)
    (hw : isWait r.stage = false) (e : Core) (k : Kind) : r.pend e k = false := by
  cases hp : r.pend e k with
  | false => rfl
  | true => have := (h.pendCmd c r e k hr hp).1; rw [hw] at this; cases this

/-- a request past `wait` has nothing to remove any more -/
theorem Inv.blocks_false {σ : State D} (h : Inv σ) {c : Core} {r : Req D} (hr : σ.req c = some r)
    (hw : isWait r.stage = false) {e : Core} (he : e ≠ c) : blocks r.mode (σ.st e r.line) = false := by
  cases hb : blocks r.mode (σ.st e r.line) with
  | false => rfl
  | true => have := (h.cover c r e hr he hb).1; rw [hw] at this; cases this

/-- a command's target is not Invalid -/
theorem Inv.cmd_not_I {σ : State D} (h : Inv σ) {e : Core} {l : Line} {k : Kind} (hc : σ.cmd e l k = true) :
    σ.st e l ≠ .I := by
  intro hi
  cases k with
  | evict => have := (h.cmdState e l).1 hc; rw [hi] at this; cases this
  | writeBack => have := (h.cmdState e l).2 hc; rw [hi] at this; cases this

/-- the target of an outstanding command has no request on the command's line -/
theorem Inv.cmd_no_req {σ : State D} (h : Inv σ) {e : Core} {l : Line} {k : Kind} (hc : σ.cmd e l k = true)
    {r : Req D} (hr : σ.req e = some r) : r.line ≠ l := by
  intro hl
  rcases h.cmdOwner e l k hc with ⟨c, r', hne, hr', hl', hp⟩ | ⟨r', hr', hs⟩
  · have hs := h.shr_of_two hr hr' (Ne.symm hne) (hl'.trans hl.symm)
    have hs' := h.shr_of_two hr' hr hne (hl.trans hl'.symm)
    have hk := (h.pendCmd c r' e k hr' hp).2.2.2 hs'
    subst hk
    have hM := (h.cmdState e l).2 hc
    have hms := h.modeState e r hr
    rw [hl, hM] at hms
    cases hm : r.mode <;> rw [hm] at hms hs <;> simp [modeSt, Mode.shr] at hms hs
  · rw [hr] at hr'; cases hr'
    exact (h.victim e r l k hr hs).1 hl.symm

/-- a request that fetches or has pushed is a fill -/
theorem Inv.fill_of_stage {σ : State D} (h : Inv σ) {c : Core} {r : Req D} (hr : σ.req c = some r)
    (hw : isWait r.stage = false) (hl : r.stage ≠ .l1) : r.mode.fill = true := by
  cases hf : r.mode.fill with
  | true => rfl
  | false =>
    rcases h.stageMode c r hr hf with h1 | h1
    · rw [hw] at h1; cases h1
    · exact absurd h1 hl

theorem modeSt_fill {m : Mode} (h : m.fill = true) : modeSt m = .I := by
  cases m <;> simp [Mode.fill] at h <;> rfl

theorem blocks_I (m : Mode) : blocks m .I = false := by cases m <;> rfl

/-! ## The initial state -/

theorem inv_init (n : Nat) (mem : Line → D) : Inv (init n mem) :=
  { noPanic := rfl
    outside := fun _ _ => ⟨rfl, fun _ => rfl⟩
    semRead := fun l => by
      show (0 : Int) = _
      rw [cnt_false (p := shrOn (init n mem) l) (fun c _ => rfl)]; rfl
    semWrite := fun l => by
      show (0 : Int) = _
      rw [cnt_false (p := exclOn (init n mem) l) (fun c _ => rfl)]; rfl
    semExcl := fun l => by
      show (0 : Int) ≤ 1 ∧ ((0 : Int) < 0 → (0 : Int) = 0)
      exact ⟨by decide, fun _ => rfl⟩
    single := fun _ _ _ h => by cases h
    cover := fun _ _ _ h => by cases h
    pendCmd := fun _ _ _ _ h => by cases h
    cmdState := fun _ _ => ⟨fun h => Bool.noConfusion h, fun h => Bool.noConfusion h⟩
    cmdOwner := fun _ _ _ h => by cases h
    victim := fun _ _ _ _ h => by cases h
    modeState := fun _ _ h => by cases h
    stageMode := fun _ _ h => by cases h
    holdsOfState := fun _ _ h => absurd rfl h
    stateOfHolds := fun _ _ h => absurd rfl h
    postHolds := fun _ _ h => by cases h
    sharedData := fun _ _ h => by cases h
    fetchData := fun _ _ _ h => by cases h
    postData := fun _ _ h => by cases h }

/-! ## `step` preserves the invariant

One lemma per action; each is derived from a frame lemma (`inv_*_spec`) stated over a pointwise
description of the new state. -/

/-! ## `start` -/

theorem rlock_some {s s' : Sem} (h : s.rlock = some s') :
    ¬ 0 < s.write ∧ s'.read = s.read + 1 ∧ s'.write = s.write := by
  unfold Sem.rlock at h
  split at h
  · cases h
  · rename_i hn; cases h; exact ⟨hn, rfl, rfl⟩

theorem lock_some {s s' : Sem} (h : s.lock = some s') :
    ¬ 0 < s.write ∧ ¬ 0 < s.read ∧ s'.read = s.read ∧ s'.write = s.write + 1 := by
  unfold Sem.lock at h
  split at h
  · cases h
  · rename_i hn; cases h; exact ⟨fun x => hn (Or.inl x), fun x => hn (Or.inr x), rfl, rfl⟩

/-- `start`, from a pointwise description of the new state -/
theorem inv_start_spec {σ σ' : State D} (h : Inv σ) {c : Nat} {l : Line} {mode : Mode} {s' : Sem}
    {p : Core → Kind → Bool}
    (hc : c < σ.n) (hreq : σ.req c = none) (hst : σ.st c l = modeSt mode)
    (hlock : (mode.shr = true ∧ (σ.sem l).rlock = some s') ∨ (mode.shr = false ∧ (σ.sem l).lock = some s'))
    (hp1 : ∀ e k, p e k = true → e ≠ c ∧ (mode.shr = true → k = .writeBack) ∧
      (k = .evict → σ.st e l = .S) ∧ (k = .writeBack → σ.st e l = .M))
    (hp2 : ∀ e, e ≠ c → blocks mode (σ.st e l) = true → p e (kindFor (σ.st e l)) = true)
    (en : σ'.n = σ.n) (epanic : σ'.panic = σ.panic) (est : σ'.st = σ.st) (el1 : σ'.l1 = σ.l1)
    (emem : σ'.mem = σ.mem) (esem_l : σ'.sem l = s') (esem_o : ∀ l', l' ≠ l → σ'.sem l' = σ.sem l')
    (ecmd : ∀ e l' k, σ'.cmd e l' k = (σ.cmd e l' k || (decide (l' = l) && p e k)))
    (ereq_c : σ'.req c = some ⟨l, mode, .wait, p⟩) (ereq_o : ∀ c', c' ≠ c → σ'.req c' = σ.req c') :
    Inv σ' := by
  have hshr_o : ∀ l' c', c' ≠ c → shrOn σ l' c' = shrOn σ' l' c' :=
    fun l' c' hne => (shrOn_congr (sig_of_req_eq (ereq_o c' hne)) l').symm
  have hexcl_o : ∀ l' c', c' ≠ c → exclOn σ l' c' = exclOn σ' l' c' :=
    fun l' c' hne => (exclOn_congr (sig_of_req_eq (ereq_o c' hne)) l').symm
  have hshr_c : ∀ l', shrOn σ' l' c = (decide (l = l') && mode.shr) := fun l' => shrOn_some ereq_c l'
  have hexcl_c : ∀ l', exclOn σ' l' c = (decide (l = l') && mode.excl) := fun l' => exclOn_some ereq_c l'
  have hshr_c0 : ∀ l', shrOn σ l' c = false := shrOn_none hreq
  have hexcl_c0 : ∀ l', exclOn σ l' c = false := exclOn_none hreq
  have hcmd_mono : ∀ e l' k, σ.cmd e l' k = true → σ'.cmd e l' k = true := by
    intro e l' k hk; rw [ecmd, hk]; rfl
  have hother : ∀ c' r, σ.req c' = some r → c' ≠ c := by
    intro c' r hr hcc; subst hcc; rw [hreq] at hr; cases hr
  -- counting
  have cntS_same : ∀ l', (l' ≠ l ∨ mode.shr = false) → cnt (shrOn σ' l') σ.n = cnt (shrOn σ l') σ.n := by
    intro l' hl
    apply cnt_congr
    intro c' _
    by_cases hcc : c' = c
    · subst hcc; rw [hshr_c, hshr_c0]
      rcases hl with hl | hl
      · simp [Ne.symm hl]
      · simp [hl]
    · exact (hshr_o l' c' hcc).symm
  have cntX_same : ∀ l', (l' ≠ l ∨ mode.shr = true) → cnt (exclOn σ' l') σ.n = cnt (exclOn σ l') σ.n := by
    intro l' hl
    apply cnt_congr
    intro c' _
    by_cases hcc : c' = c
    · subst hcc; rw [hexcl_c, hexcl_c0]
      rcases hl with hl | hl
      · simp [Ne.symm hl]
      · simp [Mode.excl_eq, hl]
    · exact (hexcl_o l' c' hcc).symm
  have cntS_up : mode.shr = true → cnt (shrOn σ' l) σ.n = cnt (shrOn σ l) σ.n + 1 := by
    intro hm
    exact cnt_flip (hshr_c0 l) (by rw [hshr_c]; simp [hm]) (fun c' hne => hshr_o l c' hne) hc
  have cntX_up : mode.shr = false → cnt (exclOn σ' l) σ.n = cnt (exclOn σ l) σ.n + 1 := by
    intro hm
    exact cnt_flip (hexcl_c0 l) (by rw [hexcl_c]; simp [Mode.excl_eq, hm]) (fun c' hne => hexcl_o l c' hne) hc
  have hR := h.semRead l
  have hW := h.semWrite l
  have hE := h.semExcl l
  exact
  { noPanic := by rw [epanic]; exact h.noPanic
    outside := by
      intro c' hc'
      rw [en] at hc'
      have hne : c' ≠ c := by omega
      rw [ereq_o c' hne, est]; exact h.outside c' hc'
    semRead := by
      intro l'
      rw [en]
      by_cases hl : l' = l
      · subst hl; rw [esem_l]
        rcases hlock with ⟨hm, hk⟩ | ⟨hm, hk⟩
        · obtain ⟨_, hrd, _⟩ := rlock_some hk
          have := cntS_up hm; omega
        · obtain ⟨_, _, hrd, _⟩ := lock_some hk
          have := cntS_same l' (Or.inr hm); omega
      · rw [esem_o l' hl, cntS_same l' (Or.inl hl)]; exact h.semRead l'
    semWrite := by
      intro l'
      rw [en]
      by_cases hl : l' = l
      · subst hl; rw [esem_l]
        rcases hlock with ⟨hm, hk⟩ | ⟨hm, hk⟩
        · obtain ⟨_, _, hwr⟩ := rlock_some hk
          have := cntX_same l' (Or.inr hm); omega
        · obtain ⟨_, _, _, hwr⟩ := lock_some hk
          have := cntX_up hm; omega
      · rw [esem_o l' hl, cntX_same l' (Or.inl hl)]; exact h.semWrite l'
    semExcl := by
      intro l'
      by_cases hl : l' = l
      · subst hl; rw [esem_l]
        rcases hlock with ⟨hm, hk⟩ | ⟨hm, hk⟩
        · obtain ⟨h1, h2, h3⟩ := rlock_some hk
          omega
        · obtain ⟨h1, h2, h3, h4⟩ := lock_some hk
          omega
      · rw [esem_o l' hl]; exact h.semExcl l'
    single := by rw [est]; exact h.single
    cover := by
      intro c' r e hr hne hb
      rw [est] at hb ⊢
      by_cases hcc : c' = c
      · subst hcc; rw [ereq_c] at hr; cases hr
        exact ⟨rfl, hp2 e hne hb⟩
      · rw [ereq_o c' hcc] at hr; exact h.cover c' r e hr hne hb
    pendCmd := by
      intro c' r e k hr hp
      by_cases hcc : c' = c
      · subst hcc; rw [ereq_c] at hr; cases hr
        have hp' : p e k = true := hp
        obtain ⟨h1, h2, _, _⟩ := hp1 e k hp'
        refine ⟨rfl, h1, ?_, h2⟩
        rw [ecmd]; simp [hp']
      · rw [ereq_o c' hcc] at hr
        obtain ⟨h1, h2, h3, h4⟩ := h.pendCmd c' r e k hr hp
        exact ⟨h1, h2, hcmd_mono _ _ _ h3, h4⟩
    cmdState := by
      intro e l'
      rw [est]
      constructor
      · intro hk
        rw [ecmd] at hk
        simp only [Bool.or_eq_true, Bool.and_eq_true, decide_eq_true_eq] at hk
        rcases hk with hk | ⟨rfl, hk⟩
        · exact (h.cmdState e l').1 hk
        · exact (hp1 e _ hk).2.2.1 rfl
      · intro hk
        rw [ecmd] at hk
        simp only [Bool.or_eq_true, Bool.and_eq_true, decide_eq_true_eq] at hk
        rcases hk with hk | ⟨rfl, hk⟩
        · exact (h.cmdState e l').2 hk
        · exact (hp1 e _ hk).2.2.2 rfl
    cmdOwner := by
      intro e l' k hk
      rw [ecmd] at hk
      simp only [Bool.or_eq_true, Bool.and_eq_true, decide_eq_true_eq] at hk
      rcases hk with hk | ⟨rfl, hk⟩
      · rcases h.cmdOwner e l' k hk with ⟨c', r, hne, hr, hl, hp⟩ | ⟨r, hr, hs⟩
        · exact Or.inl ⟨c', r, hne, by rw [ereq_o c' (hother c' r hr)]; exact hr, hl, hp⟩
        · exact Or.inr ⟨r, by rw [ereq_o e (hother e r hr)]; exact hr, hs⟩
      · exact Or.inl ⟨c, _, Ne.symm (hp1 e k hk).1, ereq_c, rfl, hk⟩
    victim := by
      intro c' r v k hr hs
      by_cases hcc : c' = c
      · subst hcc; rw [ereq_c] at hr; cases hr; simp at hs
      · rw [ereq_o c' hcc] at hr
        obtain ⟨h1, h2⟩ := h.victim c' r v k hr hs
        exact ⟨h1, hcmd_mono _ _ _ h2⟩
    modeState := by
      intro c' r hr
      rw [est]
      by_cases hcc : c' = c
      · subst hcc; rw [ereq_c] at hr; cases hr; exact hst
      · rw [ereq_o c' hcc] at hr; exact h.modeState c' r hr
    stageMode := by
      intro c' r hr hf
      by_cases hcc : c' = c
      · subst hcc; rw [ereq_c] at hr; cases hr; exact Or.inl rfl
      · rw [ereq_o c' hcc] at hr; exact h.stageMode c' r hr hf
    holdsOfState := by rw [est, el1]; exact h.holdsOfState
    stateOfHolds := by
      intro c' l' h1 h2
      rw [el1] at h1; rw [est] at h2
      obtain ⟨r, hr, hrest⟩ := h.stateOfHolds c' l' h1 h2
      exact ⟨r, by rw [ereq_o c' (hother c' r hr)]; exact hr, hrest⟩
    postHolds := by
      intro c' r hr hf hpost
      rw [el1]
      by_cases hcc : c' = c
      · subst hcc; rw [ereq_c] at hr; cases hr; simp [isPost] at hpost
      · rw [ereq_o c' hcc] at hr; exact h.postHolds c' r hr hf hpost
    sharedData := by rw [est, el1, emem]; exact h.sharedData
    fetchData := by
      intro c' r d hr hm hs
      rw [emem]
      by_cases hcc : c' = c
      · subst hcc; rw [ereq_c] at hr; cases hr; simp at hs
      · rw [ereq_o c' hcc] at hr; exact h.fetchData c' r d hr hm hs
    postData := by
      intro c' r hr hm hpost
      rw [el1, emem]
      by_cases hcc : c' = c
      · subst hcc; rw [ereq_c] at hr; cases hr; simp [isPost] at hpost
      · rw [ereq_o c' hcc] at hr; exact h.postData c' r hr hm hpost }


theorem inv_startReq {σ : State D} (h : Inv σ) {c : Nat} {l : Line} {mode : Mode} {s' : Sem}
    {p : Core → Kind → Bool}
    (hc : c < σ.n) (hreq : σ.req c = none) (hst : σ.st c l = modeSt mode)
    (hlock : (mode.shr = true ∧ (σ.sem l).rlock = some s') ∨ (mode.shr = false ∧ (σ.sem l).lock = some s'))
    (hp1 : ∀ e k, p e k = true → e ≠ c ∧ (mode.shr = true → k = .writeBack) ∧
      (k = .evict → σ.st e l = .S) ∧ (k = .writeBack → σ.st e l = .M))
    (hp2 : ∀ e, e ≠ c → blocks mode (σ.st e l) = true → p e (kindFor (σ.st e l)) = true) :
    Inv (startReq σ c l mode s' p) :=
  inv_start_spec h hc hreq hst hlock hp1 hp2 rfl rfl rfl rfl rfl (upd_same _ _ _)
    (fun _ hl => upd_other _ _ hl) (fun _ _ _ => rfl) (upd_same _ _ _) (fun _ hc' => upd_other _ _ hc')

theorem readPend_p1 (σ : State D) (c : Core) (l : Line) (mode : Mode) :
    ∀ e k, readPend σ c l e k = true → e ≠ c ∧ (mode.shr = true → k = .writeBack) ∧
      (k = .evict → σ.st e l = .S) ∧ (k = .writeBack → σ.st e l = .M) := by
  intro e k hp
  simp [readPend] at hp
  obtain ⟨h1, h2, h3⟩ := hp
  subst h2
  exact ⟨h1, fun _ => rfl, fun x => (by cases x), fun _ => h3⟩

theorem writePend_p1 (σ : State D) (c : Core) (l : Line) (mode : Mode) (hm : mode.shr = false) :
    ∀ e k, writePend σ c l e k = true → e ≠ c ∧ (mode.shr = true → k = .writeBack) ∧
      (k = .evict → σ.st e l = .S) ∧ (k = .writeBack → σ.st e l = .M) := by
  intro e k hp
  simp [writePend] at hp
  obtain ⟨h1, h2⟩ := hp
  refine ⟨h1, fun x => (by rw [hm] at x; cases x), ?_, ?_⟩
  · intro hk; subst hk
    rcases h2 with ⟨h2, _⟩ | ⟨_, h2⟩
    · cases h2
    · exact h2
  · intro hk; subst hk
    rcases h2 with ⟨_, h2⟩ | ⟨h2, _⟩
    · exact h2
    · cases h2

theorem none_p1 (σ : State D) (c : Core) (l : Line) (mode : Mode) :
    ∀ e k, (fun (_ : Core) (_ : Kind) => false) e k = true → e ≠ c ∧ (mode.shr = true → k = .writeBack) ∧
      (k = .evict → σ.st e l = .S) ∧ (k = .writeBack → σ.st e l = .M) := by
  intro e k hp; cases hp

theorem inv_start {σ : State D} (h : Inv σ) (c : Core) (l : Line) (w : Bool) : Inv (start σ c l w) := by
  unfold start
  split
  · exact h
  · rename_i hc
    have hc : (c : Nat) < σ.n := Decidable.of_not_not hc
    split
    · exact h
    · rename_i hreq
      split
      · rename_i hst
        split
        · exact h
        · rename_i s' hk
          refine inv_startReq h hc hreq hst (Or.inl ⟨rfl, hk⟩) (readPend_p1 σ c l _) ?_
          intro e hne hb
          cases hs : σ.st e l <;> rw [hs] at hb <;> simp [blocks] at hb
          simp [readPend, hne, hs, kindFor]
      · rename_i hst
        split
        · exact h
        · rename_i s' hk
          refine inv_startReq h hc hreq hst (Or.inr ⟨rfl, hk⟩) (none_p1 σ c l _) ?_
          intro e hne hb
          cases hs : σ.st e l <;> rw [hs] at hb <;> simp [blocks] at hb
      · rename_i hst
        split
        · exact h
        · rename_i s' hk
          refine inv_startReq h hc hreq hst (Or.inl ⟨rfl, hk⟩) (none_p1 σ c l _) ?_
          intro e hne hb
          cases hs : σ.st e l <;> rw [hs] at hb <;> simp [blocks] at hb
      · rename_i hst
        split
        · exact h
        · rename_i s' hk
          refine inv_startReq h hc hreq hst (Or.inr ⟨rfl, hk⟩) (writePend_p1 σ c l _ rfl) ?_
          intro e hne hb
          cases hs : σ.st e l <;> rw [hs] at hb <;> simp [blocks] at hb <;>
            simp [writePend, hne, hs, kindFor]
      · rename_i hst
        split
        · exact h
        · rename_i s' hk
          refine inv_startReq h hc hreq hst (Or.inr ⟨rfl, hk⟩) (none_p1 σ c l _) ?_
          intro e hne hb
          cases hs : σ.st e l <;> rw [hs] at hb <;> simp [blocks] at hb
      · rename_i hst
        split
        · exact h
        · rename_i s' hk
          refine inv_startReq h hc hreq hst (Or.inr ⟨rfl, hk⟩) (writePend_p1 σ c l _ rfl) ?_
          intro e hne hb
          cases hs : σ.st e l <;> rw [hs] at hb <;> simp [blocks] at hb <;>
            simp [writePend, hne, hs, kindFor]


/-! ## Stage changes: `proceed`, `push`, `evicted` -/

/-- frame lemma for the actions that move the request of core `c` to another stage (possibly pushing
its line into L1 and creating the command for the extra line): the obligations about `c` itself are
hypotheses, everything about the other cores is preserved -/
theorem inv_stage_spec {σ σ' : State D} (h : Inv σ) {c : Nat} {r : Req D} {s : Stage D}
    (hr : σ.req c = some r)
    (hB : ∀ e, e ≠ c → blocks r.mode (σ.st e r.line) = false)
    (hP : ∀ e k, r.pend e k = false)
    (hold : ∀ l k, r.stage ≠ .pushed (some (l, k)))
    (hV : ∀ v k, s = .pushed (some (v, k)) → v ≠ r.line ∧ σ'.cmd c v k = true)
    (hSM : r.mode.fill = false → isWait s = true ∨ s = .l1)
    (hSH : σ'.l1 c r.line ≠ none → σ.st c r.line = .I → r.mode.fill = true ∧ isPost s = true)
    (hPH : r.mode.fill = true → isPost s = true → σ'.l1 c r.line ≠ none)
    (hSD : σ.st c r.line = .S → σ'.l1 c r.line = some (σ.mem r.line))
    (hFD : ∀ d, r.mode = .rdFill → s = .fetch d → d = σ.mem r.line)
    (hPD : r.mode = .rdFill → isPost s = true → σ'.l1 c r.line = some (σ.mem r.line))
    (en : σ'.n = σ.n) (epanic : σ'.panic = false) (est : σ'.st = σ.st) (esem : σ'.sem = σ.sem)
    (emem : σ'.mem = σ.mem)
    (el1o : ∀ c' l', ¬(c' = c ∧ l' = r.line) → σ'.l1 c' l' = σ.l1 c' l')
    (el1c : σ'.l1 c r.line = σ.l1 c r.line ∨ σ.l1 c r.line = none)
    (ecmd_mono : ∀ e l k, σ.cmd e l k = true → σ'.cmd e l k = true)
    (ecmd_new : ∀ e l k, σ'.cmd e l k = true → σ.cmd e l k = true ∨
       (e = c ∧ s = .pushed (some (l, k)) ∧ (k = .evict → σ.st c l = .S) ∧ (k = .writeBack → σ.st c l = .M)))
    (ereq_c : σ'.req c = some { r with stage := s }) (ereq_o : ∀ c', c' ≠ c → σ'.req c' = σ.req c') :
    Inv σ' := by
  have hsig : ∀ c', sig σ' c' = sig σ c' := by
    intro c'
    by_cases hcc : c' = c
    · subst hcc; exact sig_of_some hr ereq_c rfl rfl
    · exact sig_of_req_eq (ereq_o c' hcc)
  obtain ⟨hsR, hsW, hsE⟩ := sem_frame h en esem hsig
  have hcn := h.lt_n hr
  exact
  { noPanic := epanic
    outside := by
      intro c' hc'
      rw [en] at hc'
      have hne : c' ≠ c := by omega
      rw [ereq_o c' hne, est]; exact h.outside c' hc'
    semRead := hsR
    semWrite := hsW
    semExcl := hsE
    single := by rw [est]; exact h.single
    cover := by
      intro c' r' e hr' hne hb
      rw [est] at hb ⊢
      by_cases hcc : c' = c
      · subst hcc; rw [ereq_c] at hr'; cases hr'
        have := hB e hne
        rw [this] at hb; cases hb
      · rw [ereq_o c' hcc] at hr'; exact h.cover c' r' e hr' hne hb
    pendCmd := by
      intro c' r' e k hr' hp
      by_cases hcc : c' = c
      · subst hcc; rw [ereq_c] at hr'; cases hr'
        have := hP e k
        rw [this] at hp; cases hp
      · rw [ereq_o c' hcc] at hr'
        obtain ⟨h1, h2, h3, h4⟩ := h.pendCmd c' r' e k hr' hp
        exact ⟨h1, h2, ecmd_mono _ _ _ h3, h4⟩
    cmdState := by
      intro e l
      rw [est]
      constructor
      · intro hk
        rcases ecmd_new e l _ hk with hk | ⟨rfl, _, h1, _⟩
        · exact (h.cmdState e l).1 hk
        · exact h1 rfl
      · intro hk
        rcases ecmd_new e l _ hk with hk | ⟨rfl, _, _, h1⟩
        · exact (h.cmdState e l).2 hk
        · exact h1 rfl
    cmdOwner := by
      intro e l k hk
      rcases ecmd_new e l k hk with hk | ⟨rfl, hs, _, _⟩
      · rcases h.cmdOwner e l k hk with ⟨c', r', hne, hr', hl, hp⟩ | ⟨r', hr', hs⟩
        · by_cases hcc : c' = c
          · subst hcc; rw [hr] at hr'; cases hr'
            exact Or.inl ⟨c', _, hne, ereq_c, hl, hp⟩
          · exact Or.inl ⟨c', r', hne, by rw [ereq_o c' hcc]; exact hr', hl, hp⟩
        · by_cases hcc : e = c
          · subst hcc; rw [hr] at hr'; cases hr'
            exact absurd hs (hold l k)
          · exact Or.inr ⟨r', by rw [ereq_o e hcc]; exact hr', hs⟩
      · exact Or.inr ⟨_, ereq_c, hs⟩
    victim := by
      intro c' r' v k hr' hs
      by_cases hcc : c' = c
      · subst hcc; rw [ereq_c] at hr'; cases hr'
        exact hV v k hs
      · rw [ereq_o c' hcc] at hr'
        obtain ⟨h1, h2⟩ := h.victim c' r' v k hr' hs
        exact ⟨h1, ecmd_mono _ _ _ h2⟩
    modeState := by
      intro c' r' hr'
      rw [est]
      by_cases hcc : c' = c
      · subst hcc; rw [ereq_c] at hr'; cases hr'; exact h.modeState c' r hr
      · rw [ereq_o c' hcc] at hr'; exact h.modeState c' r' hr'
    stageMode := by
      intro c' r' hr' hf
      by_cases hcc : c' = c
      · subst hcc; rw [ereq_c] at hr'; cases hr'; exact hSM hf
      · rw [ereq_o c' hcc] at hr'; exact h.stageMode c' r' hr' hf
    holdsOfState := by
      intro c' l' hs
      rw [est] at hs
      by_cases hcl : c' = c ∧ l' = r.line
      · obtain ⟨rfl, rfl⟩ := hcl
        rcases el1c with e1 | e1
        · rw [e1]; exact h.holdsOfState _ _ hs
        · exact absurd e1 (h.holdsOfState _ _ hs)
      · rw [el1o c' l' hcl]; exact h.holdsOfState _ _ hs
    stateOfHolds := by
      intro c' l' h1 h2
      rw [est] at h2
      by_cases hcl : c' = c ∧ l' = r.line
      · obtain ⟨rfl, rfl⟩ := hcl
        obtain ⟨hf, hp⟩ := hSH h1 h2
        exact ⟨_, ereq_c, rfl, hf, hp⟩
      · rw [el1o c' l' hcl] at h1
        obtain ⟨r', hr', hl', hrest⟩ := h.stateOfHolds c' l' h1 h2
        by_cases hcc : c' = c
        · subst hcc; rw [hr] at hr'; cases hr'
          exact absurd ⟨rfl, hl'.symm⟩ hcl
        · exact ⟨r', by rw [ereq_o c' hcc]; exact hr', hl', hrest⟩
    postHolds := by
      intro c' r' hr' hf hpost
      by_cases hcc : c' = c
      · subst hcc; rw [ereq_c] at hr'; cases hr'; exact hPH hf hpost
      · rw [ereq_o c' hcc] at hr'
        rw [el1o c' r'.line (fun x => hcc x.1)]; exact h.postHolds c' r' hr' hf hpost
    sharedData := by
      intro c' l' hs
      rw [est] at hs
      rw [emem]
      by_cases hcl : c' = c ∧ l' = r.line
      · obtain ⟨rfl, rfl⟩ := hcl; exact hSD hs
      · rw [el1o c' l' hcl]; exact h.sharedData _ _ hs
    fetchData := by
      intro c' r' d hr' hm hs
      rw [emem]
      by_cases hcc : c' = c
      · subst hcc; rw [ereq_c] at hr'; cases hr'; exact hFD d hm hs
      · rw [ereq_o c' hcc] at hr'; exact h.fetchData c' r' d hr' hm hs
    postData := by
      intro c' r' hr' hm hpost
      rw [emem]
      by_cases hcc : c' = c
      · subst hcc; rw [ereq_c] at hr'; cases hr'; exact hPD hm hpost
      · rw [ereq_o c' hcc] at hr'
        rw [el1o c' r'.line (fun x => hcc x.1)]; exact h.postData c' r' hr' hm hpost }


/-- `setStage`: only the stage of the request of `c` changes -/
theorem inv_setStage {σ : State D} (h : Inv σ) {c : Nat} {r : Req D} {s : Stage D}
    (hr : σ.req c = some r)
    (hB : ∀ e, e ≠ c → blocks r.mode (σ.st e r.line) = false)
    (hP : ∀ e k, r.pend e k = false)
    (hold : ∀ l k, r.stage ≠ .pushed (some (l, k)))
    (hV : ∀ v k, s ≠ .pushed (some (v, k)))
    (hSM : r.mode.fill = false → isWait s = true ∨ s = .l1)
    (hpost : isPost r.stage = true → isPost s = true)
    (hPH : r.mode.fill = true → isPost s = true → σ.l1 c r.line ≠ none)
    (hFD : ∀ d, r.mode = .rdFill → s = .fetch d → d = σ.mem r.line)
    (hPD : r.mode = .rdFill → isPost s = true → σ.l1 c r.line = some (σ.mem r.line)) :
    Inv (setStage σ c r s) := by
  refine inv_stage_spec (σ' := setStage σ c r s) h hr hB hP hold (fun v k hs => absurd hs (hV v k)) hSM ?_ hPH
    (h.sharedData c r.line) hFD hPD rfl h.noPanic rfl rfl rfl (fun _ _ _ => rfl) (Or.inl rfl)
    (fun _ _ _ hk => hk) (fun _ _ _ hk => Or.inl hk) (upd_same _ _ _) (fun _ hc' => upd_other _ _ hc')
  intro h1 h2
  obtain ⟨r', hr', _, hf, hp⟩ := h.stateOfHolds c r.line h1 h2
  rw [hr] at hr'; cases hr'
  exact ⟨hf, hpost hp⟩

/-- all pendings done: no pending command at all (cores ≥ n have no commands) -/
theorem pendDone_false {σ : State D} (h : Inv σ) {c : Nat} {r : Req D} (hr : σ.req c = some r)
    (hd : pendDone σ r = true) (e : Core) (k : Kind) : r.pend e k = false := by
  cases hp : r.pend e k with
  | false => rfl
  | true =>
    exfalso
    have hcmd := (h.pendCmd c r e k hr hp).2.2.1
    have hI := h.cmd_not_I hcmd
    by_cases he : e < σ.n
    · simp only [pendDone, List.all_eq_true, List.mem_range] at hd
      have := hd e he
      cases k <;> simp [hp] at this
    · exact hI ((h.outside e (Nat.le_of_not_lt he)).2 r.line)

/-- no pending command: nothing left to remove -/
theorem blocks_false_of_pend {σ : State D} (h : Inv σ) {c : Nat} {r : Req D} (hr : σ.req c = some r)
    (hP : ∀ e k, r.pend e k = false) {e : Core} (he : e ≠ c) : blocks r.mode (σ.st e r.line) = false := by
  cases hb : blocks r.mode (σ.st e r.line) with
  | false => rfl
  | true => have := (h.cover c r e hr he hb).2; rw [hP] at this; cases this

theorem inv_proceed {σ : State D} (h : Inv σ) (c : Core) : Inv (proceed σ c) := by
  unfold proceed
  split
  · exact h
  · rename_i r hr
    split
    · rename_i hstage
      split
      · rename_i hd
        have hP := pendDone_false h hr hd
        have hB : ∀ e, e ≠ c → blocks r.mode (σ.st e r.line) = false := fun e he => blocks_false_of_pend h hr hP he
        have hold : ∀ l k, r.stage ≠ .pushed (some (l, k)) := by intro l k; rw [hstage]; simp
        have hpost : ∀ s : Stage D, isPost r.stage = true → isPost s = true := by
          intro s hp; rw [hstage] at hp; cases hp
        have hms := h.modeState c r hr
        have toL1 : r.mode.fill = false → r.mode ≠ .rdFill → Inv (setStage σ c r .l1) := by
          intro hf hm
          refine inv_setStage h hr hB hP hold (by intro v k; simp) (fun _ => Or.inr rfl) (hpost _) ?_ (by intro d _ hs; cases hs) ?_
          · intro hf'; rw [hf] at hf'; cases hf'
          · intro hm'; exact absurd hm' hm
        have toFetch : r.mode.fill = true → Inv (setStage σ c r (.fetch (σ.mem r.line))) := by
          intro hf
          refine inv_setStage h hr hB hP hold (by intro v k; simp) ?_ (hpost _) ?_ ?_ ?_
          · intro hf'; rw [hf] at hf'; cases hf'
          · intro _ hp; cases hp
          · intro d _ hs; cases hs; rfl
          · intro _ hp; cases hp
        split
        · rename_i hm
          split
          · rename_i hl1
            have := h.holdsOfState c r.line (by rw [hms, hm]; simp [modeSt])
            exact absurd hl1 this
          · exact toL1 (by rw [hm]; rfl) (by rw [hm]; simp)
        · rename_i hm
          split
          · rename_i hl1
            have := h.holdsOfState c r.line (by rw [hms, hm]; simp [modeSt])
            exact absurd hl1 this
          · exact toL1 (by rw [hm]; rfl) (by rw [hm]; simp)
        · rename_i hm
          split
          · rename_i d hl1
            exfalso
            obtain ⟨r', hr', _, _, hp⟩ := h.stateOfHolds c r.line (by rw [hl1]; simp) (by rw [hms, hm]; rfl)
            rw [hr] at hr'; cases hr'
            rw [hstage] at hp; cases hp
          · exact toFetch (by rw [hm]; rfl)
        · rename_i hm
          exact toFetch (by rw [hm]; rfl)
        · rename_i hm
          exact toL1 (by rw [hm]; rfl) (by rw [hm]; simp)
        · rename_i hm
          exact toL1 (by rw [hm]; rfl) (by rw [hm]; simp)
      · exact h
    · exact h

theorem inv_evicted {σ : State D} (h : Inv σ) (c : Core) : Inv (evicted σ c) := by
  unfold evicted
  split
  · exact h
  · rename_i r hr
    split
    · rename_i hstage
      have hw : isWait r.stage = false := by rw [hstage]; rfl
      have hp : isPost r.stage = true := by rw [hstage]; rfl
      refine inv_setStage h hr (fun e he => h.blocks_false hr hw he) (h.pend_false hr hw) ?_ (by intro v k; simp)
        (fun _ => Or.inr rfl) (fun _ => rfl) ?_ (by intro d _ hs; cases hs) ?_
      · intro l k; rw [hstage]; simp
      · intro hf _; exact h.postHolds c r hr hf hp
      · intro hm _; exact h.postData c r hr hm hp
    · exact h


/-- `push` of the fetched line into L1, from a pointwise description of the new state -/
theorem inv_push_aux {σ σ' : State D} (h : Inv σ) {c : Nat} {r : Req D} {d : D} {s : Stage D}
    (hr : σ.req c = some r) (hstage : r.stage = .fetch d)
    (hs : isPost s = true)
    (hV : ∀ v k, s = .pushed (some (v, k)) → v ≠ r.line ∧ σ'.cmd c v k = true)
    (en : σ'.n = σ.n) (epanic : σ'.panic = false) (est : σ'.st = σ.st) (esem : σ'.sem = σ.sem)
    (emem : σ'.mem = σ.mem)
    (el1c : σ'.l1 c r.line = some d)
    (el1o : ∀ c' l', ¬(c' = c ∧ l' = r.line) → σ'.l1 c' l' = σ.l1 c' l')
    (ecmd_mono : ∀ e l k, σ.cmd e l k = true → σ'.cmd e l k = true)
    (ecmd_new : ∀ e l k, σ'.cmd e l k = true → σ.cmd e l k = true ∨
       (e = c ∧ s = .pushed (some (l, k)) ∧ (k = .evict → σ.st c l = .S) ∧ (k = .writeBack → σ.st c l = .M)))
    (ereq_c : σ'.req c = some { r with stage := s }) (ereq_o : ∀ c', c' ≠ c → σ'.req c' = σ.req c') :
    Inv σ' := by
  have hw : isWait r.stage = false := by rw [hstage]; rfl
  have hfill := h.fill_of_stage hr hw (by rw [hstage]; simp)
  have hI : σ.st c r.line = .I := by rw [h.modeState c r hr, modeSt_fill hfill]
  have hl1 : σ.l1 c r.line = none := by
    apply Classical.byContradiction
    intro hn
    obtain ⟨r', hr', _, _, hp⟩ := h.stateOfHolds c r.line hn hI
    rw [hr] at hr'; cases hr'
    rw [hstage] at hp; cases hp
  refine inv_stage_spec h hr (fun e he => h.blocks_false hr hw he) (h.pend_false hr hw) ?_ hV ?_ ?_ ?_ ?_ ?_ ?_
    en epanic est esem emem el1o (Or.inr hl1) ecmd_mono ecmd_new ereq_c ereq_o
  · intro l k; rw [hstage]; simp
  · intro hf; rw [hfill] at hf; cases hf
  · intro _ _; exact ⟨hfill, hs⟩
  · intro _ _; rw [el1c]; simp
  · intro hS; rw [hI] at hS; cases hS
  · intro d' _ hs'; subst hs'; cases hs
  · intro hm _; rw [el1c, h.fetchData c r d hr hm hstage]

theorem inv_push {σ : State D} (h : Inv σ) (c : Core) (victim : Option Line) : Inv (push σ c victim) := by
  unfold push
  split
  · exact h
  · rename_i r hr
    split
    · rename_i d hstage
      have simple : Inv (setStage { σ with l1 := upd2 σ.l1 c r.line (some d) } c r .l1) :=
        inv_push_aux h hr hstage rfl (by intro v k hs; cases hs) rfl h.noPanic rfl rfl rfl
          (upd2_same _ _ _ _) (fun _ _ hcl => upd2_other _ _ hcl) (fun _ _ _ hk => hk)
          (fun _ _ _ hk => Or.inl hk) (upd_same _ _ _) (fun _ hc' => upd_other _ _ hc')
      split
      · rename_i x hl1
        exfalso
        have hw : isWait r.stage = false := by rw [hstage]; rfl
        have hfill := h.fill_of_stage hr hw (by rw [hstage]; simp)
        have hI : σ.st c r.line = .I := by rw [h.modeState c r hr, modeSt_fill hfill]
        obtain ⟨r', hr', _, _, hp⟩ := h.stateOfHolds c r.line (by rw [hl1]; simp) hI
        rw [hr] at hr'; cases hr'
        rw [hstage] at hp; cases hp
      · rename_i hl1
        split
        · exact simple
        · rename_i v
          split
          · exact simple
          · rename_i hv
            split
            · exact simple
            · split
              · exact simple
              · rename_i hst
                refine inv_push_aux h hr hstage rfl ?_ rfl h.noPanic rfl rfl rfl
                  (upd2_same _ _ _ _) (fun _ _ hcl => upd2_other _ _ hcl) ?_ ?_
                  (upd_same _ _ _) (fun _ hc' => upd_other _ _ hc')
                · intro v' k' hs; cases hs
                  exact ⟨hv, by simp [setStage]⟩
                · intro e l k hk; simp [setStage, hk]
                · intro e l k hk
                  simp [setStage] at hk
                  rcases hk with hk | ⟨⟨rfl, rfl⟩, rfl⟩
                  · exact Or.inl hk
                  · exact Or.inr ⟨rfl, rfl, fun _ => hst, fun x => (by cases x)⟩
              · rename_i hst
                refine inv_push_aux h hr hstage rfl ?_ rfl h.noPanic rfl rfl rfl
                  (upd2_same _ _ _ _) (fun _ _ hcl => upd2_other _ _ hcl) ?_ ?_
                  (upd_same _ _ _) (fun _ hc' => upd_other _ _ hc')
                · intro v' k' hs; cases hs
                  exact ⟨hv, by simp [setStage]⟩
                · intro e l k hk; simp [setStage, hk]
                · intro e l k hk
                  simp [setStage] at hk
                  rcases hk with hk | ⟨⟨rfl, rfl⟩, rfl⟩
                  · exact Or.inl hk
                  · exact Or.inr ⟨rfl, rfl, fun x => (by cases x), fun _ => hst⟩
    · exact h


/-! ## `complete` -/

/-- the state of the requester after `post()` -/
def tgt : Mode → St
  | .rdFill => .S
  | .rdHitS => .S
  | _ => .M

theorem tgt_ne_I (m : Mode) : tgt m ≠ .I := by cases m <;> simp [tgt]

theorem tgt_S {m : Mode} (h : tgt m = .S) : m.shr = true ∧ m.isRead = true := by
  cases m <;> simp [tgt] at h <;> exact ⟨rfl, rfl⟩

theorem tgt_of_shr {m : Mode} (h : m.shr = true) : tgt m = .S := by
  cases m <;> simp [Mode.shr] at h <;> rfl

/-- `complete`, from a pointwise description of the new state -/
theorem inv_complete_spec {σ σ' : State D} (h : Inv σ) {c : Nat} {r : Req D} {s' : Sem}
    (hr : σ.req c = some r) (hstage : r.stage = .l1)
    (hsem : (r.mode.shr = true ∧ s'.read = (σ.sem r.line).read - 1 ∧ s'.write = (σ.sem r.line).write) ∨
      (r.mode.shr = false ∧ s'.read = (σ.sem r.line).read ∧ s'.write = (σ.sem r.line).write - 1))
    (en : σ'.n = σ.n) (epanic : σ'.panic = false)
    (est_c : σ'.st c r.line = tgt r.mode)
    (est_o : ∀ c' l', ¬(c' = c ∧ l' = r.line) → σ'.st c' l' = σ.st c' l')
    (el1_c : σ'.l1 c r.line = σ.l1 c r.line ∨ (r.mode.isRead = false ∧ σ'.l1 c r.line ≠ none))
    (el1_o : ∀ c' l', ¬(c' = c ∧ l' = r.line) → σ'.l1 c' l' = σ.l1 c' l')
    (esem_l : σ'.sem r.line = s') (esem_o : ∀ l', l' ≠ r.line → σ'.sem l' = σ.sem l')
    (ecmd : σ'.cmd = σ.cmd) (emem : σ'.mem = σ.mem)
    (ereq_c : σ'.req c = none) (ereq_o : ∀ c', c' ≠ c → σ'.req c' = σ.req c') :
    Inv σ' := by
  have hcn := h.lt_n hr
  have hw : isWait r.stage = false := by rw [hstage]; rfl
  have hB : ∀ e, e ≠ c → blocks r.mode (σ.st e r.line) = false := fun e he => h.blocks_false hr hw he
  have hPend := h.pend_false hr hw
  have hms := h.modeState c r hr
  have hl1 : σ.l1 c r.line ≠ none := by
    cases hf : r.mode.fill with
    | true => exact h.postHolds c r hr hf (by rw [hstage]; rfl)
    | false =>
      apply h.holdsOfState
      rw [hms]
      cases hm : r.mode <;> rw [hm] at hf <;> simp [Mode.fill, modeSt] at hf ⊢
  have hnocmd : ∀ k, σ.cmd c r.line k = false := by
    intro k
    cases hk : σ.cmd c r.line k with
    | false => rfl
    | true => exact absurd rfl (h.cmd_no_req hk hr)
  have hc' : ∀ c' r', σ'.req c' = some r' → c' ≠ c ∧ σ.req c' = some r' := by
    intro c' r' hr'
    have hne : c' ≠ c := by intro hcc; subst hcc; rw [ereq_c] at hr'; cases hr'
    rw [ereq_o c' hne] at hr'
    exact ⟨hne, hr'⟩
  -- the states of the other cores on the line
  have G1 : ∀ e, e ≠ c → σ.st e r.line ≠ .M := by
    intro e he hM
    have hb := hB e he
    have hI := h.single e c r.line hM (Ne.symm he)
    rw [hms] at hI
    rw [hM] at hb
    cases hm : r.mode <;> rw [hm] at hI hb <;> simp [modeSt, blocks] at hI hb
  have G2 : tgt r.mode = .M → ∀ e, e ≠ c → σ.st e r.line = .I := by
    intro ht e he
    have hb := hB e he
    cases hm : r.mode <;> rw [hm] at ht hb hms <;> simp [tgt] at ht
    · exact h.single c e r.line hms he
    · cases hs : σ.st e r.line <;> rw [hs] at hb <;> simp [blocks] at hb ⊢
    · exact h.single c e r.line hms he
    · cases hs : σ.st e r.line <;> rw [hs] at hb <;> simp [blocks] at hb ⊢
  -- counting
  have hshr_o : ∀ l' c', c' ≠ c → shrOn σ' l' c' = shrOn σ l' c' :=
    fun l' c' hne => shrOn_congr (sig_of_req_eq (ereq_o c' hne)) l'
  have hexcl_o : ∀ l' c', c' ≠ c → exclOn σ' l' c' = exclOn σ l' c' :=
    fun l' c' hne => exclOn_congr (sig_of_req_eq (ereq_o c' hne)) l'
  have hshr_c : ∀ l', shrOn σ l' c = (decide (r.line = l') && r.mode.shr) := fun l' => shrOn_some hr l'
  have hexcl_c : ∀ l', exclOn σ l' c = (decide (r.line = l') && r.mode.excl) := fun l' => exclOn_some hr l'
  have hshr_c0 : ∀ l', shrOn σ' l' c = false := shrOn_none ereq_c
  have hexcl_c0 : ∀ l', exclOn σ' l' c = false := exclOn_none ereq_c
  have cntS_same : ∀ l', (l' ≠ r.line ∨ r.mode.shr = false) → cnt (shrOn σ' l') σ.n = cnt (shrOn σ l') σ.n := by
    intro l' hl
    apply cnt_congr
    intro c' _
    by_cases hcc : c' = c
    · subst hcc; rw [hshr_c, hshr_c0]
      rcases hl with hl | hl
      · simp [Ne.symm hl]
      · simp [hl]
    · exact hshr_o l' c' hcc
  have cntX_same : ∀ l', (l' ≠ r.line ∨ r.mode.shr = true) → cnt (exclOn σ' l') σ.n = cnt (exclOn σ l') σ.n := by
    intro l' hl
    apply cnt_congr
    intro c' _
    by_cases hcc : c' = c
    · subst hcc; rw [hexcl_c, hexcl_c0]
      rcases hl with hl | hl
      · simp [Ne.symm hl]
      · simp [Mode.excl_eq, hl]
    · exact hexcl_o l' c' hcc
  have cntS_down : r.mode.shr = true → cnt (shrOn σ r.line) σ.n = cnt (shrOn σ' r.line) σ.n + 1 := by
    intro hm
    exact cnt_flip (hshr_c0 _) (by rw [hshr_c]; simp [hm]) (fun c' hne => hshr_o _ c' hne) hcn
  have cntX_down : r.mode.shr = false → cnt (exclOn σ r.line) σ.n = cnt (exclOn σ' r.line) σ.n + 1 := by
    intro hm
    exact cnt_flip (hexcl_c0 _) (by rw [hexcl_c]; simp [Mode.excl_eq, hm]) (fun c' hne => hexcl_o _ c' hne) hcn
  have hR := h.semRead r.line
  have hW := h.semWrite r.line
  have hE := h.semExcl r.line
  exact
  { noPanic := epanic
    outside := by
      intro c' hc''
      rw [en] at hc''
      have hne : c' ≠ c := by omega
      rw [ereq_o c' hne]
      refine ⟨(h.outside c' hc'').1, fun l' => ?_⟩
      rw [est_o c' l' (fun x => hne x.1)]; exact (h.outside c' hc'').2 l'
    semRead := by
      intro l'
      rw [en]
      by_cases hl : l' = r.line
      · subst hl; rw [esem_l]
        rcases hsem with ⟨hm, h1, h2⟩ | ⟨hm, h1, h2⟩
        · have := cntS_down hm; omega
        · have := cntS_same r.line (Or.inr hm); omega
      · rw [esem_o l' hl, cntS_same l' (Or.inl hl)]; exact h.semRead l'
    semWrite := by
      intro l'
      rw [en]
      by_cases hl : l' = r.line
      · subst hl; rw [esem_l]
        rcases hsem with ⟨hm, h1, h2⟩ | ⟨hm, h1, h2⟩
        · have := cntX_same r.line (Or.inr hm); omega
        · have := cntX_down hm; omega
      · rw [esem_o l' hl, cntX_same l' (Or.inl hl)]; exact h.semWrite l'
    semExcl := by
      intro l'
      by_cases hl : l' = r.line
      · subst hl; rw [esem_l]
        rcases hsem with ⟨hm, h1, h2⟩ | ⟨hm, h1, h2⟩
        · omega
        · have := h.write_pos hr hm; omega
      · rw [esem_o l' hl]; exact h.semExcl l'
    single := by
      intro a b l' hM hne
      by_cases hal : a = c ∧ l' = r.line
      · obtain ⟨rfl, rfl⟩ := hal
        rw [est_c] at hM
        rw [est_o b r.line (fun x => hne x.1)]
        exact G2 hM b hne
      · rw [est_o a l' hal] at hM
        by_cases hbl : b = c ∧ l' = r.line
        · obtain ⟨rfl, rfl⟩ := hbl
          exact absurd hM (G1 a (Ne.symm hne))
        · rw [est_o b l' hbl]; exact h.single a b l' hM hne
    cover := by
      intro c' r' e hr' hne hb
      obtain ⟨hcc, hr'⟩ := hc' c' r' hr'
      by_cases hel : e = c ∧ r'.line = r.line
      · exfalso
        obtain ⟨rfl, hl⟩ := hel
        rw [hl, est_c] at hb
        have hs := h.shr_of_two hr hr' hne hl
        have hs' := h.shr_of_two hr' hr hcc hl.symm
        rw [tgt_of_shr hs] at hb
        cases hm : r'.mode <;> rw [hm] at hb hs' <;> simp [blocks, Mode.shr] at hb hs'
      · rw [est_o e r'.line hel] at hb ⊢
        exact h.cover c' r' e hr' hne hb
    pendCmd := by
      intro c' r' e k hr' hp
      obtain ⟨hcc, hr'⟩ := hc' c' r' hr'
      rw [ecmd]; exact h.pendCmd c' r' e k hr' hp
    cmdState := by
      intro e l'
      rw [ecmd]
      by_cases hel : e = c ∧ l' = r.line
      · obtain ⟨rfl, rfl⟩ := hel
        rw [hnocmd, hnocmd]
        exact ⟨fun x => Bool.noConfusion x, fun x => Bool.noConfusion x⟩
      · rw [est_o e l' hel]; exact h.cmdState e l'
    cmdOwner := by
      intro e l' k hk
      rw [ecmd] at hk
      rcases h.cmdOwner e l' k hk with ⟨c', r', hne, hr', hl, hp⟩ | ⟨r', hr', hs⟩
      · have hcc : c' ≠ c := by
          intro hcc; subst hcc; rw [hr] at hr'; cases hr'
          rw [hPend] at hp; cases hp
        exact Or.inl ⟨c', r', hne, by rw [ereq_o c' hcc]; exact hr', hl, hp⟩
      · have hcc : e ≠ c := by
          intro hcc; subst hcc; rw [hr] at hr'; cases hr'
          rw [hstage] at hs; cases hs
        exact Or.inr ⟨r', by rw [ereq_o e hcc]; exact hr', hs⟩
    victim := by
      intro c' r' v k hr' hs
      obtain ⟨hcc, hr'⟩ := hc' c' r' hr'
      rw [ecmd]; exact h.victim c' r' v k hr' hs
    modeState := by
      intro c' r' hr'
      obtain ⟨hcc, hr'⟩ := hc' c' r' hr'
      rw [est_o c' r'.line (fun x => hcc x.1)]; exact h.modeState c' r' hr'
    stageMode := by
      intro c' r' hr' hf
      obtain ⟨hcc, hr'⟩ := hc' c' r' hr'
      exact h.stageMode c' r' hr' hf
    holdsOfState := by
      intro c' l' hs
      by_cases hcl : c' = c ∧ l' = r.line
      · obtain ⟨rfl, rfl⟩ := hcl
        rcases el1_c with e1 | ⟨_, e1⟩
        · rw [e1]; exact hl1
        · exact e1
      · rw [est_o c' l' hcl] at hs
        rw [el1_o c' l' hcl]; exact h.holdsOfState _ _ hs
    stateOfHolds := by
      intro c' l' h1 h2
      by_cases hcl : c' = c ∧ l' = r.line
      · obtain ⟨rfl, rfl⟩ := hcl
        rw [est_c] at h2
        exact absurd h2 (tgt_ne_I _)
      · rw [el1_o c' l' hcl] at h1
        rw [est_o c' l' hcl] at h2
        obtain ⟨r', hr', hl', hrest⟩ := h.stateOfHolds c' l' h1 h2
        by_cases hcc : c' = c
        · subst hcc; rw [hr] at hr'; cases hr'
          exact absurd ⟨rfl, hl'.symm⟩ hcl
        · exact ⟨r', by rw [ereq_o c' hcc]; exact hr', hl', hrest⟩
    postHolds := by
      intro c' r' hr' hf hpost
      obtain ⟨hcc, hr'⟩ := hc' c' r' hr'
      rw [el1_o c' r'.line (fun x => hcc x.1)]; exact h.postHolds c' r' hr' hf hpost
    sharedData := by
      intro c' l' hs
      rw [emem]
      by_cases hcl : c' = c ∧ l' = r.line
      · obtain ⟨rfl, rfl⟩ := hcl
        rw [est_c] at hs
        obtain ⟨hshr, hrd⟩ := tgt_S hs
        rcases el1_c with e1 | ⟨e1, _⟩
        · rw [e1]
          cases hf : r.mode.fill with
          | true =>
            apply h.postData c' r hr _ (by rw [hstage]; rfl)
            cases hm : r.mode <;> rw [hm] at hf hshr <;> simp [Mode.fill, Mode.shr] at hf hshr ⊢
          | false =>
            apply h.sharedData
            rw [hms]
            cases hm : r.mode <;> rw [hm] at hf hshr <;> simp [Mode.fill, Mode.shr, modeSt] at hf hshr ⊢
        · rw [hrd] at e1; cases e1
      · rw [est_o c' l' hcl] at hs
        rw [el1_o c' l' hcl]; exact h.sharedData _ _ hs
    fetchData := by
      intro c' r' d hr' hm hs
      obtain ⟨hcc, hr'⟩ := hc' c' r' hr'
      rw [emem]; exact h.fetchData c' r' d hr' hm hs
    postData := by
      intro c' r' hr' hm hpost
      obtain ⟨hcc, hr'⟩ := hc' c' r' hr'
      rw [emem, el1_o c' r'.line (fun x => hcc x.1)]; exact h.postData c' r' hr' hm hpost }


theorem inv_complete {σ : State D} (h : Inv σ) (c : Core) (v : D) : Inv (complete σ c v) := by
  unfold complete
  split
  · exact h
  · rename_i r hr
    split
    · rename_i hstage
      have hms := h.modeState c r hr
      have hl1 : σ.l1 c r.line ≠ none := by
        cases hf : r.mode.fill with
        | true => exact h.postHolds c r hr hf (by rw [hstage]; rfl)
        | false =>
          apply h.holdsOfState
          rw [hms]
          cases hm : r.mode <;> rw [hm] at hf <;> simp [Mode.fill, modeSt] at hf ⊢
      have badR : r.mode.shr = true → decide ((σ.sem r.line).read - 1 < 0) = false := by
        intro hs; have := h.read_pos hr hs; simp; omega
      have badW : r.mode.shr = false → decide ((σ.sem r.line).write - 1 < 0) = false := by
        intro hs; have := h.write_pos hr hs; simp; omega
      split
      · rename_i hm
        simp only [Sem.runlock]
        exact inv_complete_spec (s' := { read := (σ.sem r.line).read - 1, write := (σ.sem r.line).write }) h hr hstage (Or.inl ⟨by rw [hm]; rfl, rfl, rfl⟩) rfl (badR (by rw [hm]; rfl))
          (by rw [hm]; exact upd2_same _ _ _ _) (fun _ _ hcl => upd2_other _ _ hcl) (Or.inl rfl) (fun _ _ _ => rfl)
          (upd_same _ _ _) (fun _ hl => upd_other _ _ hl) rfl rfl (upd_same _ _ _) (fun _ hc' => upd_other _ _ hc')
      · rename_i hm
        simp only [Sem.runlock]
        exact inv_complete_spec (s' := { read := (σ.sem r.line).read - 1, write := (σ.sem r.line).write }) h hr hstage (Or.inl ⟨by rw [hm]; rfl, rfl, rfl⟩) rfl (badR (by rw [hm]; rfl))
          (by rw [hms, hm]; rfl) (fun _ _ _ => rfl) (Or.inl rfl) (fun _ _ _ => rfl)
          (upd_same _ _ _) (fun _ hl => upd_other _ _ hl) rfl rfl (upd_same _ _ _) (fun _ hc' => upd_other _ _ hc')
      · rename_i hm
        simp only [Sem.unlock]
        exact inv_complete_spec (s' := { read := (σ.sem r.line).read, write := (σ.sem r.line).write - 1 }) h hr hstage (Or.inr ⟨by rw [hm]; rfl, rfl, rfl⟩) rfl (badW (by rw [hm]; rfl))
          (by rw [hms, hm]; rfl) (fun _ _ _ => rfl) (Or.inl rfl) (fun _ _ _ => rfl)
          (upd_same _ _ _) (fun _ hl => upd_other _ _ hl) rfl rfl (upd_same _ _ _) (fun _ hc' => upd_other _ _ hc')
      · rename_i hm
        dsimp only
        split
        · rename_i hn; exact absurd hn hl1
        · simp only [Sem.unlock]
          refine inv_complete_spec (s' := { read := (σ.sem r.line).read, write := (σ.sem r.line).write - 1 }) h hr hstage (Or.inr ⟨by rw [hm]; rfl, rfl, rfl⟩) rfl (badW (by rw [hm]; rfl))
            (by rw [hm]; exact upd2_same _ _ _ _) (fun _ _ hcl => upd2_other _ _ hcl)
            (Or.inr ⟨by rw [hm]; rfl, by show upd2 σ.l1 c r.line (some v) c r.line ≠ none; rw [upd2_same]; simp⟩) (fun _ _ hcl => upd2_other _ _ hcl)
            (upd_same _ _ _) (fun _ hl => upd_other _ _ hl) rfl rfl (upd_same _ _ _) (fun _ hc' => upd_other _ _ hc')
      · rename_i hm
        dsimp only
        split
        · rename_i hn; exact absurd hn hl1
        · simp only [Sem.unlock]
          refine inv_complete_spec (s' := { read := (σ.sem r.line).read, write := (σ.sem r.line).write - 1 }) h hr hstage (Or.inr ⟨by rw [hm]; rfl, rfl, rfl⟩) rfl (badW (by rw [hm]; rfl))
            (by rw [hm]; exact upd2_same _ _ _ _) (fun _ _ hcl => upd2_other _ _ hcl)
            (Or.inr ⟨by rw [hm]; rfl, by show upd2 σ.l1 c r.line (some v) c r.line ≠ none; rw [upd2_same]; simp⟩) (fun _ _ hcl => upd2_other _ _ hcl)
            (upd_same _ _ _) (fun _ hl => upd_other _ _ hl) rfl rfl (upd_same _ _ _) (fun _ hc' => upd_other _ _ hc')
      · rename_i hm
        dsimp only
        split
        · rename_i hn; exact absurd hn hl1
        · simp only [Sem.unlock]
          refine inv_complete_spec (s' := { read := (σ.sem r.line).read, write := (σ.sem r.line).write - 1 }) h hr hstage (Or.inr ⟨by rw [hm]; rfl, rfl, rfl⟩) rfl (badW (by rw [hm]; rfl))
            (by rw [hms, hm]; rfl) (fun _ _ _ => rfl)
            (Or.inr ⟨by rw [hm]; rfl, by show upd2 σ.l1 c r.line (some v) c r.line ≠ none; rw [upd2_same]; simp⟩) (fun _ _ hcl => upd2_other _ _ hcl)
            (upd_same _ _ _) (fun _ hl => upd_other _ _ hl) rfl rfl (upd_same _ _ _) (fun _ hc' => upd_other _ _ hc')
    · exact h


/-! ## `snoop` -/

@[simp] theorem clear_line (r : Req D) (c e : Core) (l : Line) (k : Kind) : (r.clear c e l k).line = r.line := rfl
@[simp] theorem clear_mode (r : Req D) (c e : Core) (l : Line) (k : Kind) : (r.clear c e l k).mode = r.mode := rfl

theorem clear_pend (r : Req D) (c e : Core) (l : Line) (k : Kind) (e' : Core) (k' : Kind) :
    (r.clear c e l k).pend e' k' = (if r.line = l ∧ e' = e ∧ k' = k then false else r.pend e' k') := rfl

theorem clear_stage_cases (r : Req D) (c e : Core) (l : Line) (k : Kind) :
    (r.clear c e l k).stage = r.stage ∨
    (r.stage = .pushed (some (l, k)) ∧ c = e ∧ (r.clear c e l k).stage = .pushed none) := by
  unfold Req.clear
  cases hs : r.stage with
  | wait => exact Or.inl rfl
  | fetch d => exact Or.inl rfl
  | l1 => exact Or.inl rfl
  | pushed v =>
    cases v with
    | none => exact Or.inl rfl
    | some p =>
      obtain ⟨l', k'⟩ := p
      by_cases hc : c = e ∧ l' = l ∧ k' = k
      · obtain ⟨rfl, rfl, rfl⟩ := hc
        exact Or.inr ⟨rfl, rfl, by simp⟩
      · exact Or.inl (by simp [hc])

theorem clear_isWait (r : Req D) (c e : Core) (l : Line) (k : Kind) :
    isWait (r.clear c e l k).stage = isWait r.stage := by
  rcases clear_stage_cases r c e l k with h | ⟨h1, _, h2⟩
  · rw [h]
  · rw [h1, h2]; rfl

theorem clear_isPost (r : Req D) (c e : Core) (l : Line) (k : Kind) :
    isPost (r.clear c e l k).stage = isPost r.stage := by
  rcases clear_stage_cases r c e l k with h | ⟨h1, _, h2⟩
  · rw [h]
  · rw [h1, h2]; rfl

theorem clear_l1 {r : Req D} {c e : Core} {l : Line} {k : Kind} (h : r.stage = .l1) :
    (r.clear c e l k).stage = .l1 := by
  rcases clear_stage_cases r c e l k with h' | ⟨h1, _, _⟩
  · rw [h', h]
  · rw [h] at h1; cases h1

theorem clear_fetch {r : Req D} {c e : Core} {l : Line} {k : Kind} {d : D}
    (h : (r.clear c e l k).stage = .fetch d) : r.stage = .fetch d := by
  rcases clear_stage_cases r c e l k with h' | ⟨_, _, h2⟩
  · rw [← h', h]
  · rw [h] at h2; cases h2

theorem clear_pushed {r : Req D} {c e : Core} {l : Line} {k : Kind} {v : Line} {k' : Kind}
    (h : (r.clear c e l k).stage = .pushed (some (v, k'))) :
    r.stage = .pushed (some (v, k')) ∧ ¬(c = e ∧ v = l ∧ k' = k) := by
  have h0 := h
  unfold Req.clear at h
  cases hs : r.stage with
  | wait => rw [hs] at h; cases h
  | fetch d => rw [hs] at h; cases h
  | l1 => rw [hs] at h; cases h
  | pushed w =>
    rw [hs] at h
    cases w with
    | none => cases h
    | some p =>
      obtain ⟨l', k''⟩ := p
      by_cases hc : c = e ∧ l' = l ∧ k'' = k
      · simp [hc] at h
      · simp [hc] at h
        obtain ⟨rfl, rfl⟩ := h
        exact ⟨rfl, hc⟩

theorem clear_pushed_keep {r : Req D} {c e : Core} {l : Line} {k : Kind} {v : Line} {k' : Kind}
    (h : r.stage = .pushed (some (v, k'))) (hc : ¬(c = e ∧ v = l ∧ k' = k)) :
    (r.clear c e l k).stage = .pushed (some (v, k')) := by
  rcases clear_stage_cases r c e l k with h' | ⟨h1, h2, _⟩
  · rw [h', h]
  · rw [h] at h1; cases h1
    exact absurd ⟨h2, rfl, rfl⟩ hc

/-- `snoop`, from a pointwise description of the new state -/
theorem inv_snoop_spec {σ σ' : State D} (h : Inv σ) {e : Core} {l : Line} {k : Kind}
    (hcmd : σ.cmd e l k = true)
    (en : σ'.n = σ.n) (epanic : σ'.panic = false) (esem : σ'.sem = σ.sem)
    (est_c : σ'.st e l = .I)
    (est_o : ∀ c' l', ¬(c' = e ∧ l' = l) → σ'.st c' l' = σ.st c' l')
    (el1_c : σ'.l1 e l = none)
    (el1_o : ∀ c' l', ¬(c' = e ∧ l' = l) → σ'.l1 c' l' = σ.l1 c' l')
    (ecmd : ∀ e' l' k', σ'.cmd e' l' k' = (if e' = e ∧ l' = l ∧ k' = k then false else σ.cmd e' l' k'))
    (ereq : ∀ c, σ'.req c = (σ.req c).map (fun r => r.clear c e l k))
    (emem : ∀ l', (l' ≠ l ∨ k = .evict) → σ'.mem l' = σ.mem l') :
    Inv σ' := by
  have hsig : ∀ c, sig σ' c = sig σ c := by
    intro c
    cases hreq : σ.req c <;> simp [sig, ereq, hreq]
  obtain ⟨hsR, hsW, hsE⟩ := sem_frame h en esem hsig
  have hget : ∀ c r', σ'.req c = some r' → ∃ r, σ.req c = some r ∧ r' = r.clear c e l k := by
    intro c r' hr'
    rw [ereq] at hr'
    cases hreq : σ.req c with
    | none => rw [hreq] at hr'; cases hr'
    | some r => rw [hreq] at hr'; cases hr'; exact ⟨r, rfl, rfl⟩
  have hput : ∀ c r, σ.req c = some r → σ'.req c = some (r.clear c e l k) := by
    intro c r hr; rw [ereq, hr]; rfl
  have hnot : ∀ c r, σ.req c = some r → ¬(c = e ∧ r.line = l) := by
    intro c r hr hcl
    obtain ⟨rfl, hl⟩ := hcl
    exact h.cmd_no_req hcmd hr hl
  have hSt := h.cmdState e l
  have hcmd_sub : ∀ e' l' k', σ'.cmd e' l' k' = true → σ.cmd e' l' k' = true ∧ ¬(e' = e ∧ l' = l ∧ k' = k) := by
    intro e' l' k' hk
    rw [ecmd] at hk
    by_cases hc : e' = e ∧ l' = l ∧ k' = k
    · rw [if_pos hc] at hk; cases hk
    · rw [if_neg hc] at hk; exact ⟨hk, hc⟩
  have hcmd_keep : ∀ e' l' k', σ.cmd e' l' k' = true → ¬(e' = e ∧ l' = l ∧ k' = k) → σ'.cmd e' l' k' = true := by
    intro e' l' k' hk hc
    rw [ecmd, if_neg hc]; exact hk
  have hM : k = .writeBack → σ.st e l = .M := by
    intro hk; subst hk; exact hSt.2 hcmd
  -- the next level does not change under a read fill that is past `wait`, nor under a Shared line
  have hmemOK : ∀ c r, σ.req c = some r → r.mode = .rdFill → isWait r.stage = false → σ'.mem r.line = σ.mem r.line := by
    intro c r hr hm hw
    by_cases hl : r.line ≠ l ∨ k = .evict
    · exact emem _ hl
    · exfalso
      have hl' : r.line = l := Classical.byContradiction fun x => hl (Or.inl x)
      have hk : k = .writeBack := by cases k <;> simp at hl ⊢
      have hne : e ≠ c := by intro hec; subst hec; exact hnot _ r hr ⟨rfl, hl'⟩
      have hb := h.blocks_false hr hw hne
      rw [hl', hM hk, hm] at hb
      cases hb
  exact
  { noPanic := epanic
    outside := by
      intro c hc
      rw [en] at hc
      obtain ⟨h1, h2⟩ := h.outside c hc
      refine ⟨by rw [ereq, h1]; rfl, fun l' => ?_⟩
      by_cases hcl : c = e ∧ l' = l
      · obtain ⟨rfl, rfl⟩ := hcl; exact est_c
      · rw [est_o c l' hcl]; exact h2 l'
    semRead := hsR
    semWrite := hsW
    semExcl := hsE
    single := by
      intro a b l' hMa hne
      have hal : ¬(a = e ∧ l' = l) := by
        intro hal; obtain ⟨rfl, rfl⟩ := hal; rw [est_c] at hMa; cases hMa
      rw [est_o a l' hal] at hMa
      by_cases hbl : b = e ∧ l' = l
      · obtain ⟨rfl, rfl⟩ := hbl; exact est_c
      · rw [est_o b l' hbl]; exact h.single a b l' hMa hne
    cover := by
      intro c r' e' hr' hne hb
      obtain ⟨r, hr, rfl⟩ := hget c r' hr'
      simp only [clear_line, clear_mode] at hb ⊢
      by_cases hel : e' = e ∧ r.line = l
      · exfalso
        rw [hel.1, hel.2, est_c, blocks_I] at hb; cases hb
      · rw [est_o e' r.line hel] at hb ⊢
        obtain ⟨h1, h2⟩ := h.cover c r e' hr hne hb
        refine ⟨by rw [clear_isWait]; exact h1, ?_⟩
        rw [clear_pend, if_neg (fun x => hel ⟨x.2.1, x.1⟩)]; exact h2
    pendCmd := by
      intro c r' e' k' hr' hp
      obtain ⟨r, hr, rfl⟩ := hget c r' hr'
      rw [clear_pend] at hp
      by_cases hc : r.line = l ∧ e' = e ∧ k' = k
      · rw [if_pos hc] at hp; cases hp
      · rw [if_neg hc] at hp
        obtain ⟨h1, h2, h3, h4⟩ := h.pendCmd c r e' k' hr hp
        exact ⟨by rw [clear_isWait]; exact h1, h2,
          hcmd_keep _ _ _ h3 (fun x => hc ⟨x.2.1, x.1, x.2.2⟩), h4⟩
    cmdState := by
      intro e' l'
      by_cases hel : e' = e ∧ l' = l
      · obtain ⟨rfl, rfl⟩ := hel
        have key : ∀ k'', σ'.cmd e' l' k'' = true → False := by
          intro k'' hk
          obtain ⟨hk, hc⟩ := hcmd_sub _ _ _ hk
          have hkk : k'' ≠ k := fun x => hc ⟨rfl, rfl, x⟩
          cases k <;> cases k'' <;> simp at hkk
          · have h1 := hSt.1 hcmd; have h2 := hSt.2 hk; rw [h1] at h2; cases h2
          · have h1 := hSt.2 hcmd; have h2 := hSt.1 hk; rw [h1] at h2; cases h2
        exact ⟨fun x => (key _ x).elim, fun x => (key _ x).elim⟩
      · rw [est_o e' l' hel]
        exact ⟨fun x => (h.cmdState e' l').1 (hcmd_sub _ _ _ x).1, fun x => (h.cmdState e' l').2 (hcmd_sub _ _ _ x).1⟩
    cmdOwner := by
      intro e' l' k' hk
      obtain ⟨hk, hc⟩ := hcmd_sub _ _ _ hk
      rcases h.cmdOwner e' l' k' hk with ⟨c, r, hne, hr, hl, hp⟩ | ⟨r, hr, hs⟩
      · refine Or.inl ⟨c, _, hne, hput c r hr, hl, ?_⟩
        rw [clear_pend, if_neg (fun x => hc ⟨x.2.1, hl ▸ x.1, x.2.2⟩)]; exact hp
      · exact Or.inr ⟨_, hput e' r hr, clear_pushed_keep hs hc⟩
    victim := by
      intro c r' v k' hr' hs
      obtain ⟨r, hr, rfl⟩ := hget c r' hr'
      obtain ⟨hs, hc⟩ := clear_pushed hs
      obtain ⟨h1, h2⟩ := h.victim c r v k' hr hs
      exact ⟨h1, hcmd_keep _ _ _ h2 hc⟩
    modeState := by
      intro c r' hr'
      obtain ⟨r, hr, rfl⟩ := hget c r' hr'
      simp only [clear_line, clear_mode]
      rw [est_o c r.line (hnot c r hr)]; exact h.modeState c r hr
    stageMode := by
      intro c r' hr' hf
      obtain ⟨r, hr, rfl⟩ := hget c r' hr'
      rw [clear_isWait]
      rcases h.stageMode c r hr hf with h1 | h1
      · exact Or.inl h1
      · exact Or.inr (clear_l1 h1)
    holdsOfState := by
      intro c l' hs
      have hcl : ¬(c = e ∧ l' = l) := by
        intro hcl; obtain ⟨rfl, rfl⟩ := hcl; exact hs est_c
      rw [est_o c l' hcl] at hs
      rw [el1_o c l' hcl]; exact h.holdsOfState c l' hs
    stateOfHolds := by
      intro c l' h1 h2
      have hcl : ¬(c = e ∧ l' = l) := by
        intro hcl; obtain ⟨rfl, rfl⟩ := hcl; exact h1 el1_c
      rw [el1_o c l' hcl] at h1
      rw [est_o c l' hcl] at h2
      obtain ⟨r, hr, hl, hf, hp⟩ := h.stateOfHolds c l' h1 h2
      exact ⟨_, hput c r hr, hl, hf, by rw [clear_isPost]; exact hp⟩
    postHolds := by
      intro c r' hr' hf hp
      obtain ⟨r, hr, rfl⟩ := hget c r' hr'
      rw [clear_isPost] at hp
      simp only [clear_line]
      rw [el1_o c r.line (hnot c r hr)]; exact h.postHolds c r hr hf hp
    sharedData := by
      intro c l' hs
      have hcl : ¬(c = e ∧ l' = l) := by
        intro hcl; obtain ⟨rfl, rfl⟩ := hcl; rw [est_c] at hs; cases hs
      rw [est_o c l' hcl] at hs
      rw [el1_o c l' hcl, h.sharedData c l' hs]
      by_cases hl : l' ≠ l ∨ k = .evict
      · rw [emem _ hl]
      · exfalso
        have hl' : l' = l := Classical.byContradiction fun x => hl (Or.inl x)
        have hk : k = .writeBack := by cases k <;> simp at hl ⊢
        subst hl'
        have hne : c ≠ e := fun x => hcl ⟨x, rfl⟩
        have := h.single e c l' (hM hk) hne
        rw [hs] at this; cases this
    fetchData := by
      intro c r' d hr' hm hs
      obtain ⟨r, hr, rfl⟩ := hget c r' hr'
      have hs := clear_fetch hs
      simp only [clear_line]
      rw [hmemOK c r hr hm (by rw [hs]; rfl)]
      exact h.fetchData c r d hr hm hs
    postData := by
      intro c r' hr' hm hp
      obtain ⟨r, hr, rfl⟩ := hget c r' hr'
      rw [clear_isPost] at hp
      simp only [clear_line]
      have hw : isWait r.stage = false := by
        cases hst : r.stage <;> rw [hst] at hp <;> simp [isPost, isWait] at hp ⊢
      rw [hmemOK c r hr hm hw, el1_o c r.line (hnot c r hr)]
      exact h.postData c r hr hm hp }

theorem inv_snoop {σ : State D} (h : Inv σ) (e : Core) (l : Line) (k : Kind) : Inv (snoop σ e l k) := by
  unfold snoop
  split
  · rename_i hcmd
    dsimp only
    split
    · exact inv_snoop_spec h hcmd rfl h.noPanic rfl (upd2_same _ _ _ _) (fun _ _ hcl => upd2_other _ _ hcl)
        (upd2_same _ _ _ _) (fun _ _ hcl => upd2_other _ _ hcl) (fun _ _ _ => rfl) (fun _ => rfl) (fun _ _ => rfl)
    · split
      · rename_i hn
        exact absurd hn (h.holdsOfState e l (by rw [(h.cmdState e l).2 hcmd]; simp))
      · exact inv_snoop_spec h hcmd rfl h.noPanic rfl (upd2_same _ _ _ _) (fun _ _ hcl => upd2_other _ _ hcl)
          (upd2_same _ _ _ _) (fun _ _ hcl => upd2_other _ _ hcl) (fun _ _ _ => rfl) (fun _ => rfl)
          (fun l' hl => by
            rcases hl with hl | hl
            · exact upd_other _ _ hl
            · cases hl)
  · exact h


/-- every action other than a flush of a busy core preserves the invariant -/
theorem inv_step (σ : State D) (a : Action D) (h : Inv σ) (ha : a.isFlush = false ∨ FlushIdle σ a) :
    Inv (step σ a) := by
  unfold step
  rw [h.noPanic]
  cases a with
  | start c l w => exact inv_start h c l w
  | proceed c => exact inv_proceed h c
  | push c v => exact inv_push h c v
  | evicted c => exact inv_evicted h c
  | complete c v => exact inv_complete h c v
  | snoop e l k => exact inv_snoop h e l k
  | flush c =>
    rcases ha with ha | ha
    · cases ha
    · have hreq : σ.req c = none := ha
      show Inv (flush σ c)
      unfold flush
      rw [hreq]
      exact h

end Proofs.Msi

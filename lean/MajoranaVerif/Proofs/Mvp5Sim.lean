/-
  Proofs/Mvp5Sim.lean — one tick of the MVP-5 `Run` loop against the unpipelined machine (the analogue of
  Proofs/Mvp4Front.lean + Mvp4Sim.lean; everything about the back end and about instructions that are not
  unconditional jumps is taken from the MVP-4 development through the bridging lemmas of Mvp5Rel.lean).
-/
import MajoranaVerif.Proofs.Mvp5Rel
open GoInt Model Model.Seq
open Proofs.Mvp4
open Proofs.Mmu (DWf Coh applyChanges base)

set_option linter.unusedSimpArgs false
set_option linter.unusedVariables false

namespace Proofs.Mvp5
open Model.Mvp5
open Model.Mvp4 (Runner ExecUnit EuOut Event Mode instrAt pastEnd)

/-! ### fetch -/

theorem bus_clean_inside {α} (b : SimpleBus α) : b.clean.inside = [] := rfl

/-- the fetch stage keeps the relation; afterwards the cleaning flag is off -/
theorem fetchCycle5_rel {app : App} {s s1 : State} {a : Arch} (hb : Back s.base a) (hn : NormalOk5 app s a)
    (h : Model.Mvp5.fetchCycle app s = .ok s1) :
    Back s1.base a ∧ NormalOk5 app s1 a ∧ s1.toCleanPending = false ∧ s1.duPending = s.duPending ∧ s1.btb = s.btb ∧
      s1.base.mode = s.base.mode ∧ s1.base.cycles = s.base.cycles := by
  unfold Model.Mvp5.fetchCycle at h
  simp only at h
  cases hc : Model.Mvp4.fetchCore app s.base.fu s.base.mmu (if s.toCleanPending then s.base.decodeBus.clean else s.base.decodeBus) with
  | error f => simp [hc, bind, Except.bind] at h
  | ok x =>
    obtain ⟨fu', mmu', bus'⟩ := x
    simp only [hc, bind, Except.bind, pure, Except.pure] at h
    injection h with h
    subst h
    obtain ⟨hl, hcons, hcomp⟩ := fetchCore_spec hc
    have hbus0 : (if s.toCleanPending then s.base.decodeBus.clean else s.base.decodeBus).inside = dEff s := by
      unfold dEff; split <;> rfl
    refine ⟨?_, ?_, rfl, rfl, rfl, rfl, rfl⟩
    · show BackRel s.base.ctx s.base.pwmi s.base.writeBus.inside mmu'.l1d s.base.eu.storeID a
      rw [hl]; exact hb
    · refine { consec := ?_, jumpLast := hn.jumpLast, pendJump := hn.pendJump, complete := hcomp hn.complete,
               instrs := hn.instrs, euRunner := hn.euRunner, idle := hn.idle, pend := ?_, nomem := hn.nomem }
      · have := hn.consec
        unfold tailW at this ⊢
        simp only at this ⊢
        by_cases hd : s.duPending = true
        · simp only [hd, if_true] at this ⊢; exact this
        · simp only [hd, if_false] at this ⊢
          rw [← hbus0] at this
          show Consec a.pc (_ ++ (dEff _ ++ [fu'.pc]))
          unfold dEff
          simp only [Bool.false_eq_true, if_false]
          exact Consec.append_congr _ _ _ _ this hcons
      · intro hp
        obtain ⟨r, hr, hj, hpo⟩ := hn.pend hp
        exact ⟨r, hr, hj, hpo.transfer rfl rfl rfl hl⟩


/-! ### decode -/

theorem Consec.prefix : ∀ (x : Word) (l1 l2 : List Word), Consec x (l1 ++ l2) → Consec x l1
  | _, [], _, _ => trivial
  | x, y :: l, l2, h => by
    simp only [List.cons_append, Consec] at h ⊢
    exact ⟨h.1, Consec.prefix _ l l2 h.2⟩

theorem concat_eq_append_cons {α} {R l l' : List α} {x y : α} (h : R ++ [x] = l ++ y :: l') :
    (l' = [] ∧ y = x ∧ R = l) ∨ (∃ l'', l' = l'' ++ [x] ∧ R = l ++ y :: l'') := by
  rcases List.eq_nil_or_concat l' with rfl | ⟨l'', z, hl'⟩
  · left
    have : R ++ [x] = l ++ [y] := h
    obtain ⟨h1, h2⟩ := List.append_inj' this rfl
    exact ⟨rfl, by simpa using h2.symm, h1⟩
  · right
    rw [List.concat_eq_append] at hl'
    subst hl'
    have : R ++ [x] = (l ++ y :: l'') ++ [z] := by simpa using h
    obtain ⟨h1, h2⟩ := List.append_inj' this rfl
    have hz : x = z := by simpa using h2
    subst hz
    exact ⟨l'', rfl, h1⟩

/-- the decode stage keeps the relation (it runs after the fetch stage, so the cleaning flag is off) -/
theorem decodeCycle5_rel {app : App} {s s2 : State} {a : Arch} (hb : Back s.base a) (hn : NormalOk5 app s a)
    (htc : s.toCleanPending = false) (h : Model.Mvp5.decodeCycle app s = .ok s2) :
    Back s2.base a ∧ NormalOk5 app s2 a ∧ s2.toCleanPending = false ∧ s2.btb = s.btb ∧
      s2.base.mode = s.base.mode ∧ s2.base.cycles = s.base.cycles := by
  unfold Model.Mvp5.decodeCycle at h
  by_cases hd : s.duPending = true
  · simp only [hd, if_true, pure, Except.pure] at h
    injection h with h; subst h
    exact ⟨hb, hn, htc, rfl, rfl, rfl⟩
  · have hd' : s.duPending = false := by simpa using hd
    rw [if_neg hd] at h
    by_cases hca : s.base.executeBus.canAdd = true
    · simp only [hca, Bool.not_true, Bool.false_eq_true, if_false] at h
      have hde : dEff s = s.base.decodeBus.inside := by unfold dEff; simp [htc]
      cases hx : s.base.decodeBus.get.1 with
      | none =>
        have hg : s.base.decodeBus.get = (none, s.base.decodeBus.get.2) := by rw [← hx]
        rw [hg] at h
        simp only [pure, Except.pure] at h
        injection h with h; subst h
        refine ⟨hb, ?_, htc, rfl, rfl, rfl⟩
        refine { consec := ?_, jumpLast := hn.jumpLast, pendJump := hn.pendJump, complete := hn.complete,
                 instrs := hn.instrs, euRunner := hn.euRunner, idle := hn.idle, pend := ?_, nomem := hn.nomem }
        · have := hn.consec
          unfold tailW dEff at this ⊢
          simp only [hd', htc, Bool.false_eq_true, if_false] at this ⊢
          rw [bus_inside_of_get_none _ hx]; exact this
        · intro hp
          obtain ⟨r, hr, hj, hpo⟩ := hn.pend hp
          exact ⟨r, hr, hj, hpo.transfer rfl rfl rfl rfl⟩
      | some pc =>
        have hg : s.base.decodeBus.get = (some pc, s.base.decodeBus.get.2) := by rw [← hx]
        have hins := bus_inside_of_get_some _ pc hx
        rw [hg] at h
        simp only at h
        cases hi : instrAt app pc with
        | error f => simp [hi, bind, Except.bind] at h
        | ok i =>
          simp only [hi, bind, Except.bind, pure, Except.pure] at h
          injection h with h; subst h
          refine ⟨hb, ?_, htc, rfl, rfl, rfl⟩
          have hR : runners { s.base with decodeBus := s.base.decodeBus.get.2, executeBus := s.base.executeBus.add { instr := i, pc := pc } } = runners s.base ++ [{ instr := i, pc := pc }] := by
            unfold runners
            simp only
            rw [bus_add_inside _ _ hca, List.append_assoc]
          -- no jump among the instructions already decoded (the decode unit was not waiting)
          have hnoj : ∀ y ∈ runners s.base, isJump y = false := by
            intro y hy
            cases hjy : isJump y with
            | false => rfl
            | true =>
              obtain ⟨l, l', hsplit⟩ := List.append_of_mem hy
              have := (hn.jumpLast l y l' hsplit hjy).2
              rw [hd'] at this; cases this
          have hcons := hn.consec
          unfold tailW at hcons
          simp only [hd', Bool.false_eq_true, if_false, hde, hins] at hcons
          refine { consec := ?_, jumpLast := ?_, pendJump := ?_, complete := hn.complete, instrs := ?_,
                   euRunner := hn.euRunner, idle := hn.idle, pend := ?_, nomem := hn.nomem }
          · rw [hR]
            unfold tailW dEff
            simp only [htc, Bool.false_eq_true, if_false, hd', Bool.or_false, List.map_append, List.map_cons, List.map_nil]
            have hcons' : Consec a.pc (((runners s.base).map (·.pc) ++ [pc]) ++
                (s.base.decodeBus.get.2.inside ++ [s.base.fu.pc])) := by
              simpa using hcons
            by_cases hj : i.instructionType.IsUnconditionalBranch = true
            · simp only [hj, if_true, List.append_nil]; exact Consec.prefix _ _ _ hcons'
            · simp only [hj, Bool.false_eq_true, if_false]; exact hcons'
          · intro l y l' hsplit hjy
            rw [hR] at hsplit
            rcases concat_eq_append_cons hsplit with ⟨h1, h2, _⟩ | ⟨l'', _, h2⟩
            · subst h2
              exact ⟨h1, by show (i.instructionType.IsUnconditionalBranch || s.duPending) = true; rw [hd', Bool.or_false]; exact hjy⟩
            · have := hnoj y (by rw [h2]; simp)
              rw [this] at hjy; cases hjy
          · intro hp
            have hp' : (i.instructionType.IsUnconditionalBranch || s.duPending) = true := hp
            rw [hd', Bool.or_false] at hp'
            exact ⟨runners s.base, { instr := i, pc := pc }, hR, hp'⟩
          · intro r hr
            rw [hR] at hr
            rcases List.mem_append.mp hr with hr | hr
            · exact hn.instrs r hr
            · simp only [List.mem_singleton] at hr; subst hr; exact hi
          · intro hp
            obtain ⟨r, hr, hj, hpo⟩ := hn.pend hp
            exact ⟨r, hr, hj, hpo.transfer rfl rfl rfl rfl⟩
    · have hca' : s.base.executeBus.canAdd = false := by simpa using hca
      simp only [hca', Bool.not_false, if_true, pure, Except.pure] at h
      injection h with h; subst h
      exact ⟨hb, hn, htc, rfl, rfl, rfl⟩


/-! ### building the front-end relation -/

theorem runners_busy {b : Model.Mvp4.State} {r : Runner} (hp : b.eu.processing = true) (hr : b.eu.runner = some r) :
    runners b = r :: b.executeBus.inside := by
  unfold runners; simp [hp, hr]

theorem runners_idle {b : Model.Mvp4.State} (hp : b.eu.processing = false) : runners b = b.executeBus.inside := by
  unfold runners; simp [hp]

/-- the relation survives any change that keeps the decoded instructions, the fetched tail and the flag -/
theorem NormalOk5.transfer {app : App} {s s2 : State} {a : Arch} (hn : NormalOk5 app s a)
    (hR : runners s2.base = runners s.base) (hT : tailW s2 = tailW s) (hD : s2.duPending = s.duPending)
    (hC : s2.base.fu.complete = true → pastEnd app s2.base.fu.pc = true)
    (hRun : s2.base.eu.processing = true → ∃ r, s2.base.eu.runner = some r)
    (hidle : s2.base.eu.processing = false → s2.base.eu.pendingMemoryRead = false)
    (hpend : s2.base.eu.pendingMemoryRead = true → ∃ r, s2.base.eu.runner = some r ∧ isJump r = false ∧ PendOk s2.base a r)
    (hnomem : s2.base.eu.pendingMemoryRead = false → s2.base.eu.memory = none) : NormalOk5 app s2 a :=
  { consec := by rw [hR, hT]; exact hn.consec, jumpLast := by rw [hR, hD]; exact hn.jumpLast,
    pendJump := by rw [hR, hD]; exact hn.pendJump, complete := hC, instrs := by rw [hR]; exact hn.instrs,
    euRunner := hRun, idle := hidle, pend := hpend, nomem := hnomem }

/-- the head of the decoded instructions (not a jump) has been executed: the rest follows the next pc -/
theorem NormalOk5.advance {app : App} {s s2 : State} {a a' : Arch} (hn : NormalOk5 app s a) (r : Runner)
    (hR : runners s.base = r :: runners s2.base) (hnj : isJump r = false) (hpc : a'.pc = a.pc + 4#32)
    (hT : tailW s2 = tailW s) (hD : s2.duPending = s.duPending)
    (hC : s2.base.fu.complete = true → pastEnd app s2.base.fu.pc = true)
    (hproc : s2.base.eu.processing = false) (hpe : s2.base.eu.pendingMemoryRead = false)
    (hm : s2.base.eu.memory = none) : NormalOk5 app s2 a' := by
  have hcons := hn.consec
  rw [hR] at hcons
  simp only [List.map_cons, List.cons_append] at hcons
  refine { consec := by rw [hpc, hT]; exact hcons.2, jumpLast := ?_, pendJump := ?_, complete := hC, instrs := ?_,
           euRunner := fun hx => (by rw [hproc] at hx; cases hx), idle := fun _ => hpe,
           pend := fun hx => (by rw [hpe] at hx; cases hx), nomem := fun _ => hm }
  · intro l x l' hsplit hjx
    rw [hD]
    exact hn.jumpLast (r :: l) x l' (by rw [hR, hsplit]; rfl) hjx
  · intro hd
    rw [hD] at hd
    obtain ⟨l, x, hl, hjx⟩ := hn.pendJump hd
    rw [hR] at hl
    cases l with
    | nil =>
      simp only [List.nil_append, List.cons.injEq] at hl
      rw [← hl.1, hnj] at hjx; cases hjx
    | cons y l0 =>
      simp only [List.cons_append, List.cons.injEq] at hl
      exact ⟨l0, x, hl.2, hjx⟩
  · intro y hy
    exact hn.instrs y (by rw [hR]; exact List.mem_cons_of_mem _ hy)

/-- a busy execute unit holds the instruction at the architectural pc -/
theorem NormalOk5.busy {app : App} {s : State} {a : Arch} (hn : NormalOk5 app s a) (hp : s.base.eu.processing = true) :
    ∃ r, s.base.eu.runner = some r ∧ runners s.base = r :: s.base.executeBus.inside ∧ r.pc = a.pc ∧
      instrAt app r.pc = .ok r.instr := by
  obtain ⟨r, hr⟩ := hn.euRunner hp
  have hR := runners_busy hp hr
  have hcons := hn.consec
  rw [hR] at hcons
  simp only [List.map_cons, List.cons_append] at hcons
  exact ⟨r, hr, hR, hcons.1, hn.instrs r (by rw [hR]; simp)⟩


/-! ### the execute unit -/

/-- outcome of one cycle of the execute unit of MVP-5 while the `Run` loop is in its normal mode (`P`: liveness
information for a cycle that executes nothing) -/
def ExecPost5 (app : App) (s : State) (a : Arch) (s2 : State) (P : Prop) : EuOut → Prop
  | .err => ∃ c, stepArch dc app a = .halt .err c
  | .ret => (∃ c, stepArch dc app a = .halt .ret c) ∧ Back s2.base a ∧ s2.base.writeBus = s.base.writeBus
  | .none => (Back s2.base a ∧ NormalOk5 app s2 a ∧ P ∧ s2.base.executed = s.base.executed) ∨
      (∃ a' c, stepArch dc app a = .next a' c ∧ Back s2.base a' ∧ NormalOk5 app s2 a' ∧
        s2.base.eu.processing = false ∧ s2.base.eu.pendingMemoryRead = false ∧ s2.base.executed = s.base.executed + 1)
  | .flush pc => ∃ a' c, stepArch dc app a = .next a' c ∧ a'.pc = pc ∧ Back s2.base a' ∧
      s2.base.eu.pendingMemoryRead = false ∧ s2.base.eu.memory = none

theorem map_lift_ok {s : State} {x : M (Model.Mvp4.State × EuOut)} {s2 : State} {out : EuOut}
    (h : x.map (lift s) = .ok (s2, out)) : ∃ b, x = .ok (b, out) ∧ s2 = { s with base := b } := by
  cases x with
  | error e => cases h
  | ok v =>
    obtain ⟨b, o⟩ := v
    simp only [map_ok, lift] at h
    injection h with h
    simp only [Prod.mk.injEq] at h
    exact ⟨b, by rw [h.2], h.1.symm⟩

theorem tailW_congr {s s2 : State} (h1 : s2.toCleanPending = s.toCleanPending) (h2 : s2.duPending = s.duPending)
    (h3 : s2.base.decodeBus = s.base.decodeBus) (h4 : s2.base.fu = s.base.fu) : tailW s2 = tailW s := by
  unfold tailW dEff; rw [h1, h2, h3, h4]

/-- (liveness) what a cycle of the execute unit does to the fetch unit and the BTB: nothing, or — a predicted jump at
issue — the fetch pc becomes a BTB target, or — a jump executed — the fetch pc becomes the next architectural pc,
which the BTB learns -/
def FuBtb (app : App) (s : State) (a : Arch) (s2 : State) : Prop :=
  s2.base.fu.processing = s.base.fu.processing ∧ s2.base.fu.remainingCycles = s.base.fu.remainingCycles ∧
  s2.base.decodeBus = s.base.decodeBus ∧
  ((s2.btb = s.btb ∧ (s2.base.fu.pc = s.base.fu.pc ∨ ∃ e ∈ s.btb, s2.base.fu.pc = e.2)) ∨
   (∃ a' c pc0, stepArch dc app a = .next a' c ∧ s2.base.fu.pc = a'.pc ∧ s2.btb = btbAdd s.btb pc0 a'.pc))

set_option maxHeartbeats 1000000 in
theorem euStep5_sim {app : App} {s : State} {a : Arch} {eu : ExecUnit} {r : Runner} {s2 : State} {out : EuOut}
    (hb : Back s.base a) (hn : NormalOk5 app { s with base := { s.base with eu := eu } } a)
    (hproc : eu.processing = true) (hrun : eu.runner = some r) (hpe : eu.pendingMemoryRead = false)
    (hm : eu.memory = none) (hsid : eu.storeID = s.base.eu.storeID)
    (hnf : NoFwd app) (hok : Model.Mvp4.stepOk app a = true)
    (h : Model.Mvp5.euStep app s eu = .ok (s2, out)) :
    s2.base.wu = s.base.wu ∧ s2.base.mode = s.base.mode ∧ s2.base.cycles = s.base.cycles ∧
      s2.base.mmu.l1i = s.base.mmu.l1i ∧ (out ≠ .err → FuBtb app s a s2) ∧
      ExecPost5 app s a s2 (1 ≤ eu.remainingCycles → EuStut s.base eu s2.base) out := by
  obtain ⟨r', hr', hR, hpc, hi⟩ := hn.busy hproc
  have : r' = r := by
    have : some r' = some r := by rw [← hr']; exact hrun
    injection this
  subst this
  have hR' : runners ({ s with base := { s.base with eu := eu } } : State).base = r' :: s.base.executeBus.inside := hR
  unfold Model.Mvp5.euStep at h
  simp only at h
  by_cases h0 : (eu.remainingCycles - 1 != 0) = true
  · have h0' : eu.remainingCycles - 1 ≠ 0 := by simpa using h0
    simp only [h0, if_true, pure, Except.pure] at h
    injection h with h
    simp only [Prod.mk.injEq] at h
    obtain ⟨rfl, rfl⟩ := h
    refine ⟨rfl, rfl, rfl, rfl, fun _ => ⟨rfl, rfl, rfl, Or.inl ⟨rfl, Or.inl rfl⟩⟩, Or.inl ⟨hb.with_eu_bu _ _ hsid, ?_, fun _ => ⟨rfl, rfl, rfl, hproc, Or.inl ⟨hpe, rfl, by omega⟩⟩, rfl⟩⟩
    refine hn.transfer ?_ rfl rfl hn.complete (fun _ => ⟨r', hrun⟩) (fun hx => by rw [hproc] at hx; cases hx)
      (fun hx => by rw [hpe] at hx; cases hx) (fun _ => hm)
    rw [hR']; exact runners_busy hproc hrun
  · have h0' : eu.remainingCycles = 1 := by
      have : eu.remainingCycles - 1 = 0 := by simpa using h0
      omega
    simp only [h0, Bool.false_eq_true, if_false] at h
    by_cases hca : s.base.writeBus.canAdd = true
    · simp only [hca, Bool.not_true, Bool.false_eq_true, if_false, hrun] at h
      cases hj : isJump r' with
      | true =>
        -- an unconditional jump
        have hE : s.base.executeBus.inside = [] ∧ s.duPending = true :=
          hn.jumpLast [] r' s.base.executeBus.inside hR' hj
        have hexec := euIssue5_exec h
        have hproc' : ({ eu with remainingCycles := eu.remainingCycles - 1, runner := some r' } : ExecUnit).processing = true := hproc
        obtain ⟨hfj, hcase⟩ := euIssue_jump_sim (eu := { eu with remainingCycles := eu.remainingCycles - 1, runner := some r' })
          hb hsid hpc hi hnf hca hok hj h
        refine ⟨hfj.wu, hfj.mode, hfj.cycles, hfj.l1i, ?_, ?_⟩
        · intro hne
          refine ⟨hfj.fuProc, hfj.fuRem, hfj.decodeBus, ?_⟩
          rcases hcase with ⟨_, _, _, _, _, _, _, _, hbt, hfp⟩ | ⟨rfl, _⟩ | ⟨a', c, hst, _, hapc, _, _, _, _, _, hbt⟩
          · exact Or.inl ⟨hbt, hfp⟩
          · exact absurd rfl hne
          · exact Or.inr ⟨a', c, r'.pc, hst, hapc.symm, hbt⟩
        rcases hcase with ⟨rfl, hb2, heu2, hd2, hw2, hc2, hp2, hne, _, _⟩ | ⟨rfl, herr⟩ | ⟨a', c, hst, hb2, hapc, htc2, hd2, hcomp2, heu2, hout, _⟩
        · have hex0 : s2.base.executed = s.base.executed := by
            rcases hexec with ⟨e1, _⟩ | ⟨_, e2⟩
            · exact e1
            · have := e2 rfl; rw [heu2] at this; simp only at this; rw [hproc] at this; cases this
          refine Or.inl ⟨hb2, ?_, fun _ => ⟨hw2, hc2, hp2, by rw [heu2]; exact hproc, Or.inr (Or.inl ⟨by rw [heu2]; exact hpe, by rw [heu2], h0', hne⟩)⟩, hex0⟩
          refine hn.transfer ?_ ?_ hd2 (hfj.complete hn.complete) (fun _ => ⟨r', by rw [heu2]⟩)
            (fun hx => by rw [heu2] at hx; simp only at hx; rw [hproc] at hx; cases hx)
            (fun hx => by rw [heu2] at hx; simp only at hx; rw [hpe] at hx; cases hx)
            (fun _ => by rw [heu2]; exact hm)
          · rw [hR', runners_busy (by rw [heu2]; exact hproc) (by rw [heu2]), hfj.executeBus]
          · unfold tailW; rw [hd2]; simp only [hE.2, if_true]
        · exact herr
        · have hproc2 : s2.base.eu.processing = false := by rw [heu2]
          have hpe2 : s2.base.eu.pendingMemoryRead = false := by rw [heu2]; exact hpe
          have hmem2 : s2.base.eu.memory = none := by rw [heu2]; exact hm
          have hR2 : runners s2.base = [] := by rw [runners_idle hproc2, hfj.executeBus, hE.1]
          have hn2 : NormalOk5 app s2 a' :=
            { consec := (by
                rw [hR2]; unfold tailW dEff
                simp only [hd2, htc2, Bool.false_eq_true, if_false, if_true, List.map_nil, List.nil_append]
                exact ⟨hapc.symm, trivial⟩),
              jumpLast := (by
                intro l x l' hsplit _
                rw [hR2] at hsplit
                cases l <;> cases hsplit),
              pendJump := fun hx => (by rw [hd2] at hx; cases hx),
              complete := fun hx => (by rw [hcomp2] at hx; cases hx),
              instrs := (by intro y hy; rw [hR2] at hy; cases hy),
              euRunner := fun hx => (by rw [hproc2] at hx; cases hx), idle := fun _ => hpe2,
              pend := fun hx => (by rw [hpe2] at hx; cases hx), nomem := fun _ => hmem2 }
          rcases hout with rfl | rfl
          · have hex1 : s2.base.executed = s.base.executed + 1 := by
              rcases hexec with ⟨_, e1, _⟩ | ⟨e2, _⟩
              · rw [hproc2, hproc'] at e1; cases e1
              · exact e2
            exact Or.inr ⟨a', c, hst, hb2, hn2, hproc2, hpe2, hex1⟩
          · exact ⟨a', c, hst, rfl, hb2, hpe2, hmem2⟩
      | false =>
        -- any other instruction: MVP-4's issue logic
        obtain ⟨bu0, hbr⟩ := euIssue_nonjump app s { eu with remainingCycles := eu.remainingCycles - 1, runner := some r' } r' hj
        rw [hbr] at h
        obtain ⟨b, hb4, rfl⟩ := map_lift_ok h
        have hbb : Back ({ s.base with bu := bu0 } : Model.Mvp4.State) a := hb
        have hexec := euIssue_exec hb4
        have hproc' : ({ eu with remainingCycles := eu.remainingCycles - 1, runner := some r' } : ExecUnit).processing = true := hproc
        rcases euIssue_sim (s := { s.base with bu := bu0 })
          (eu := { eu with remainingCycles := eu.remainingCycles - 1, runner := some r' })
          hbb hsid hpe hm hpc hi hnf hca hok hb4 with ⟨rfl, hst⟩ | ⟨hfr, hpost⟩
        · refine ⟨hst.wu, hst.mode, hst.cycles, ?_, fun _ => ⟨by show b.fu.processing = _; rw [hst.fu], by show b.fu.remainingCycles = _; rw [hst.fu], hst.decodeBus,
            Or.inl ⟨rfl, Or.inl (by show b.fu.pc = _; rw [hst.fu])⟩⟩, Or.inl ⟨hst.back, ?_, ?_, ?_⟩⟩
          · exact euIssue_l1i (s := { s.base with bu := bu0 }) hb4
          · refine hn.transfer ?_ (tailW_congr rfl rfl hst.decodeBus hst.fu) rfl
              (by show b.fu.complete = true → _; rw [hst.fu]; exact hn.complete)
              (fun _ => ⟨r', by show b.eu.runner = _; rw [hst.runner]⟩)
              (fun hx => by
                have : b.eu.processing = false := hx
                rw [hst.processing] at this; simp only at this; rw [hproc] at this; cases this)
              (fun hx => ⟨r', by show b.eu.runner = _; rw [hst.runner], hj, hst.pend hx⟩)
              (fun hx => by show b.eu.memory = none; rw [hst.nomem hx]; exact hm)
            rw [hR']
            exact (runners_busy (by rw [hst.processing]; exact hproc) (by rw [hst.runner])).trans (by rw [hst.executeBus])
          · intro _
            refine ⟨hst.writeBus, hst.ctx, hst.pwmi, by rw [hst.processing]; exact hproc, ?_⟩
            rcases hst.meas with ⟨m1, m2, m3⟩ | m
            · exact Or.inr (Or.inl ⟨m1, m2, h0', m3⟩)
            · exact Or.inr (Or.inr m)
          · show b.executed = s.base.executed
            rcases hexec with ⟨e1, _⟩ | ⟨_, e2⟩
            · exact e1
            · have := e2 rfl; rw [hst.processing, hproc'] at this; cases this
        · refine ⟨hfr.wu, hfr.mode, hfr.cycles, euIssue_l1i (s := { s.base with bu := bu0 }) hb4,
            fun _ => ⟨by show b.fu.processing = _; rw [hfr.fu], by show b.fu.remainingCycles = _; rw [hfr.fu], hfr.decodeBus,
              Or.inl ⟨rfl, Or.inl (by show b.fu.pc = _; rw [hfr.fu])⟩⟩, ?_⟩
          cases out with
          | err => exact hpost
          | ret => exact ⟨hpost.1, hpost.2.1, hpost.2.2.2⟩
          | none =>
            obtain ⟨a', c, hst, hapc, hb2, hproc2⟩ := hpost
            have hpe2 : b.eu.pendingMemoryRead = false := by rw [hfr.pend]; exact hpe
            have hm2 : b.eu.memory = none := by rw [hfr.mem]; exact hm
            have hex1 : b.executed = s.base.executed + 1 := by
              rcases hexec with ⟨_, e1, _⟩ | ⟨e2, _⟩
              · rw [hproc2, hproc'] at e1; cases e1
              · exact e2
            refine Or.inr ⟨a', c, hst, hb2, ?_, hproc2, hpe2, hex1⟩
            refine hn.advance r' ?_ hj hapc (tailW_congr rfl rfl hfr.decodeBus hfr.fu) rfl
              (by show b.fu.complete = true → _; rw [hfr.fu]; exact hn.complete) hproc2 hpe2 hm2
            rw [hR']
            show r' :: s.base.executeBus.inside = r' :: runners b
            rw [runners_idle hproc2, hfr.executeBus]
          | flush pc =>
            obtain ⟨a', c, hst, hapc, hb2, hproc2⟩ := hpost
            exact ⟨a', c, hst, hapc, hb2, by rw [hfr.pend]; exact hpe, by rw [hfr.mem]; exact hm⟩
    · have hca' : s.base.writeBus.canAdd = false := by simpa using hca
      simp only [hca', Bool.not_false, if_true, pure, Except.pure] at h
      injection h with h
      simp only [Prod.mk.injEq] at h
      obtain ⟨rfl, rfl⟩ := h
      have hne : s.base.writeBus.isEmpty = false := by
        cases he : s.base.writeBus.isEmpty with
        | false => rfl
        | true =>
          unfold SimpleBus.isEmpty at he
          unfold SimpleBus.canAdd at hca'
          simp only [Bool.and_eq_true] at he
          rw [he.1] at hca'; cases hca'
      refine ⟨rfl, rfl, rfl, rfl, fun _ => ⟨rfl, rfl, rfl, Or.inl ⟨rfl, Or.inl rfl⟩⟩, Or.inl ⟨hb.with_eu_bu _ _ hsid, ?_, fun _ => ⟨rfl, rfl, rfl, hproc, Or.inr (Or.inl ⟨hpe, rfl, h0', hne⟩)⟩, rfl⟩⟩
      refine hn.transfer ?_ rfl rfl hn.complete (fun _ => ⟨r', hrun⟩) (fun hx => by rw [hproc] at hx; cases hx)
        (fun hx => by rw [hpe] at hx; cases hx) (fun _ => hm)
      rw [hR']; exact runners_busy hproc hrun


/-- the execute unit's share of the measure, with the front-end weight `fw` as a parameter -/
def euPart (b : Model.Mvp4.State) (fw : Nat) : Nat :=
  if b.eu.pendingMemoryRead then b.eu.remainingCycles.toNat
  else if b.eu.processing then 400 + b.eu.remainingCycles.toNat
  else 500 + fw

/-- (liveness) a cycle of the execute unit of MVP-5 that executes nothing -/
structure Stut5 (s s2 : State) : Prop where
  writeBus : s2.base.writeBus = s.base.writeBus
  ctx : s2.base.ctx = s.base.ctx
  pwmi : s2.base.pwmi = s.base.pwmi
  euRem : s2.base.eu.processing = true → 1 ≤ s2.base.eu.remainingCycles
  euRemP : s2.base.eu.pendingMemoryRead = true →
    1 ≤ s2.base.eu.remainingCycles ∧ s2.base.eu.remainingCycles ≤ Gen.Latency.MemoryAccess
  meas : (∀ fw fw', euPart s2.base fw' < euPart s.base fw) ∨
    ((∀ fw fw', euPart s2.base fw' ≤ euPart s.base fw) ∧ s.base.writeBus.isEmpty = false) ∨
    (s.base.eu.processing = false ∧ s.base.eu.pendingMemoryRead = false ∧ s2.base.eu = s.base.eu ∧
      s.base.executeBus.current = none ∧ s2.base.executeBus = s.base.executeBus.get.2 ∧
      s2.base.fu = s.base.fu ∧ s2.base.decodeBus = s.base.decodeBus ∧ s2.toCleanPending = s.toCleanPending ∧
      s2.duPending = s.duPending)

/-- (liveness) from the busy unit's stutter step to the measure -/
theorem stut5_of_euStut {s s' s2 : State} {eu : ExecUnit} (hs : EuStut s'.base eu s2.base)
    (hwb : s'.base.writeBus = s.base.writeBus) (hctx : s'.base.ctx = s.base.ctx) (hpw : s'.base.pwmi = s.base.pwmi)
    (hrem : 1 ≤ eu.remainingCycles) (hphi : ∀ fw, 400 + eu.remainingCycles.toNat ≤ euPart s.base fw) : Stut5 s s2 := by
  obtain ⟨h1, h2, h3, h4, h5⟩ := hs
  have hlt := memAccess_lt_400
  refine { writeBus := by rw [h1, hwb], ctx := by rw [h2, hctx], pwmi := by rw [h3, hpw], euRem := ?_, euRemP := ?_, meas := ?_ }
  · intro _
    rcases h5 with ⟨_, e2, e3⟩ | ⟨_, e2, _, _⟩ | ⟨_, e2, _⟩
    · rw [e2]; exact e3
    · rw [e2]; decide
    · exact e2
  · intro hp
    rcases h5 with ⟨e1, _, _⟩ | ⟨e1, _, _, _⟩ | ⟨_, e2, e3⟩
    · rw [e1] at hp; cases hp
    · rw [e1] at hp; cases hp
    · exact ⟨e2, e3⟩
  · rcases h5 with ⟨e1, e2, e3⟩ | ⟨e1, e2, e3, e4⟩ | ⟨e1, e2, e3⟩
    · left
      intro fw fw'
      have : euPart s2.base fw' = 400 + (eu.remainingCycles - 1).toNat := by
        unfold euPart; simp only [e1, h4, Bool.false_eq_true, if_false, if_true, e2]
      rw [this]; have := hphi fw; omega
    · right; left
      refine ⟨?_, by rw [← hwb]; exact e4⟩
      intro fw fw'
      have : euPart s2.base fw' = 400 + (1 : Int).toNat := by
        unfold euPart; simp only [e1, h4, Bool.false_eq_true, if_false, if_true, e2]
      rw [this]; have := hphi fw; rw [e3] at this; exact this
    · left
      intro fw fw'
      have : euPart s2.base fw' = s2.base.eu.remainingCycles.toNat := by
        unfold euPart; simp only [e1, if_true]
      rw [this]; have := hphi fw; omega

set_option maxHeartbeats 1000000 in
/-- **one cycle of the execute unit of MVP-5**: it executes nothing — the relation holds with the same
architectural state — or exactly the instruction at the architectural pc, as one step of the unpipelined machine. -/
theorem executeCycle5_sim {app : App} {s : State} {a : Arch} {s2 : State} {out : EuOut}
    (hb : Back s.base a) (hn : NormalOk5 app s a) (hnf : NoFwd app) (hok : Model.Mvp4.stepOk app a = true)
    (h : Model.Mvp5.executeCycle app s = .ok (s2, out)) :
    s2.base.wu = s.base.wu ∧ s2.base.mode = s.base.mode ∧ s2.base.cycles = s.base.cycles ∧
      s2.base.mmu.l1i = s.base.mmu.l1i ∧ (out ≠ .err → FuBtb app s a s2) ∧
      ExecPost5 app s a s2 (LiveEu s.base → Stut5 s s2) out := by
  unfold Model.Mvp5.executeCycle at h
  by_cases hp : s.base.eu.pendingMemoryRead = true
  · -- a memory read is pending
    obtain ⟨r, hrun, hnj, hpo⟩ := hn.pend hp
    have hproc : s.base.eu.processing = true := by
      cases hx : s.base.eu.processing with
      | true => rfl
      | false => have := hn.idle hx; rw [hp] at this; cases this
    obtain ⟨r', hr', hR, hpc, hi⟩ := hn.busy hproc
    have : r' = r := by rw [hrun] at hr'; injection hr' with hr'; exact hr'.symm
    subst this
    simp only [hp, if_true] at h
    by_cases h0 : (s.base.eu.remainingCycles - 1 != 0) = true
    · have h0' : s.base.eu.remainingCycles - 1 ≠ 0 := by simpa using h0
      simp only [h0, if_true, pure, Except.pure] at h
      injection h with h
      simp only [Prod.mk.injEq] at h
      obtain ⟨rfl, rfl⟩ := h
      refine ⟨rfl, rfl, rfl, rfl, fun _ => ⟨rfl, rfl, rfl, Or.inl ⟨rfl, Or.inl rfl⟩⟩, Or.inl ⟨hb.with_eu_bu _ _ rfl, ?_, ?_, rfl⟩⟩
      · refine hn.transfer ?_ rfl rfl hn.complete (fun _ => ⟨r', hrun⟩) (fun hx => by simp only [hproc] at hx; cases hx)
          (fun _ => ⟨r', hrun, hnj, ⟨hpo.wbFree, hpo.noWriter, hpo.bu, hpo.memHit, hpo.memMiss⟩⟩) (fun hx => by simp at hx)
        rw [hR]; exact runners_busy hproc hrun
      · intro hlive
        obtain ⟨hl1, hl2⟩ := hlive.2 hp
        refine { writeBus := rfl, ctx := rfl, pwmi := rfl,
                 euRem := fun _ => (by show 1 ≤ s.base.eu.remainingCycles - 1; omega),
                 euRemP := fun _ => ⟨(by show 1 ≤ s.base.eu.remainingCycles - 1; omega), (by show s.base.eu.remainingCycles - 1 ≤ _; omega)⟩,
                 meas := Or.inl ?_ }
        intro fw fw'
        unfold euPart
        simp only [hp, if_true]
        show (s.base.eu.remainingCycles - 1).toNat < s.base.eu.remainingCycles.toNat
        omega
    · simp only [h0, Bool.false_eq_true, if_false, hrun] at h
      rw [euMemDone_nonjump app s _ r' hnj] at h
      obtain ⟨b, hb4, rfl⟩ := map_lift_ok h
      obtain ⟨s1, hs1p, h1, h2, h3, h4, h5, h6, hpe1, hm1, hwb1, hfr, hpost⟩ :=
        euMemDone_sim (eu := { s.base.eu with remainingCycles := s.base.eu.remainingCycles - 1, pendingMemoryRead := false })
          hb rfl hpo rfl rfl rfl hpc hi hnf hok hb4
      refine ⟨by show b.wu = _; rw [hfr.wu, h4], by show b.mode = _; rw [hfr.mode, h5],
        by show b.cycles = _; rw [hfr.cycles, h6], euMemDone_l1i hb4,
        fun _ => ⟨by show b.fu.processing = _; rw [hfr.fu, h1], by show b.fu.remainingCycles = _; rw [hfr.fu, h1], by show b.decodeBus = _; rw [hfr.decodeBus, h2],
          Or.inl ⟨rfl, Or.inl (by show b.fu.pc = _; rw [hfr.fu, h1])⟩⟩, ?_⟩
      cases out with
      | err => exact hpost
      | ret => exact ⟨hpost.1, hpost.2.1, by show b.writeBus = _; rw [hpost.2.2.2, hwb1]⟩
      | none =>
        obtain ⟨a', c, hst, hapc, hb2, hproc2⟩ := hpost
        have hpe2 : b.eu.pendingMemoryRead = false := by rw [hfr.pend]; exact hpe1
        have hm2 : b.eu.memory = none := by rw [hfr.mem]; exact hm1
        refine Or.inr ⟨a', c, hst, hb2, ?_, hproc2, hpe2, euMemDone_exec hb4⟩
        refine hn.advance r' ?_ hnj hapc (tailW_congr rfl rfl (by show b.decodeBus = _; rw [hfr.decodeBus, h2]) (by show b.fu = _; rw [hfr.fu, h1])) rfl
          (by show b.fu.complete = true → _; rw [hfr.fu, h1]; exact hn.complete) hproc2 hpe2 hm2
        rw [hR]
        show r' :: s.base.executeBus.inside = r' :: runners b
        rw [runners_idle hproc2, hfr.executeBus, h3]
      | flush pc =>
        obtain ⟨a', c, hst, hapc, hb2, hproc2⟩ := hpost
        exact ⟨a', c, hst, hapc, hb2, by show b.eu.pendingMemoryRead = false; rw [hfr.pend]; exact hpe1,
          by show b.eu.memory = none; rw [hfr.mem]; exact hm1⟩
  · have hp' : s.base.eu.pendingMemoryRead = false := by simpa using hp
    simp only [hp', Bool.false_eq_true, if_false] at h
    have hnomem := hn.nomem hp'
    unfold Model.Mvp4.euTake at h
    by_cases hproc : s.base.eu.processing = true
    · -- the unit holds an instruction
      obtain ⟨r, hrun, hR, hpc, hi⟩ := hn.busy hproc
      simp only [hproc, Bool.not_true, Bool.false_eq_true, if_false, pure, Except.pure, bind, Except.bind] at h
      have hn' : NormalOk5 app { s with base := { s.base with eu := s.base.eu } } a := hn
      obtain ⟨h1, h2, h3, h4, hfb, hpost⟩ := euStep5_sim (s := s) hb hn' hproc hrun hp' hnomem rfl hnf hok h
      refine ⟨h1, h2, h3, h4, hfb, ?_⟩
      cases out with
      | none =>
        rcases hpost with ⟨e1, e2, e3, e4⟩ | hstep
        · refine Or.inl ⟨e1, e2, fun hlive => stut5_of_euStut (s := s) (s' := s) (e3 (hlive.1 hproc)) rfl rfl rfl (hlive.1 hproc) ?_, e4⟩
          intro fw
          unfold euPart; simp only [hp', hproc, Bool.false_eq_true, if_false, if_true]; exact Nat.le_refl _
        · exact Or.inr hstep
      | flush pc => exact hpost
      | ret => exact hpost
      | err => exact hpost
    · have hproc' : s.base.eu.processing = false := by simpa using hproc
      have hRi := runners_idle hproc'
      simp only [hproc', Bool.not_false, if_true] at h
      cases hx : s.base.executeBus.get.1 with
      | none =>
        have hg : s.base.executeBus.get = (none, s.base.executeBus.get.2) := by rw [← hx]
        rw [hg] at h
        simp only [pure, Except.pure, bind, Except.bind, Bool.not_false, if_true] at h
        injection h with h
        simp only [Prod.mk.injEq] at h
        obtain ⟨rfl, rfl⟩ := h
        refine ⟨rfl, rfl, rfl, rfl, fun _ => ⟨rfl, rfl, rfl, Or.inl ⟨rfl, Or.inl rfl⟩⟩, Or.inl ⟨hb, ?_, ?_, rfl⟩⟩
        · refine hn.transfer ?_ rfl rfl hn.complete (fun hx' => by simp only [hproc'] at hx'; cases hx')
            (fun _ => hp') (fun hx' => by simp only [hp'] at hx'; cases hx') (fun _ => hnomem)
          rw [hRi]
          show runners { s.base with executeBus := s.base.executeBus.get.2, eu := s.base.eu } = _
          rw [runners_idle (by exact hproc')]
          exact bus_inside_of_get_none _ hx
        · intro _
          exact { writeBus := rfl, ctx := rfl, pwmi := rfl, euRem := fun hx' => (by simp only [hproc'] at hx'; cases hx'),
                  euRemP := fun hx' => (by simp only [hp'] at hx'; cases hx'),
                  meas := Or.inr (Or.inr ⟨hproc', hp', rfl, hx, rfl, rfl, rfl, rfl, rfl⟩) }
      | some r =>
        have hg : s.base.executeBus.get = (some r, s.base.executeBus.get.2) := by rw [← hx]
        have hins := bus_inside_of_get_some _ r hx
        rw [hg] at h
        simp only at h
        cases hcy : Gen.InstructionType.Cycles r.instr.instructionType with
        | error f => simp [hcy, throw, throwThe, MonadExceptOf.throw, bind, Except.bind] at h
        | ok c =>
          have hc1 : 1 ≤ c := by have := Proofs.Seq.cycles_pos _ _ hcy; omega
          have hc2 : c ≤ 50 := Proofs.Mvp3.cycles_le _ _ hcy
          simp only [hcy, pure, Except.pure, bind, Except.bind, Bool.not_true, Bool.false_eq_true, if_false] at h
          -- the machine with the instruction taken into the unit
          have hn' : NormalOk5 app { s with base := { ({ s.base with executeBus := s.base.executeBus.get.2 } : Model.Mvp4.State) with
              eu := { s.base.eu with runner := some r, remainingCycles := c, processing := true } } } a := by
            refine hn.transfer ?_ rfl rfl hn.complete (fun _ => ⟨r, rfl⟩) (fun hx' => by cases hx')
              (fun hx' => by simp only [hp'] at hx'; cases hx') (fun _ => hnomem)
            rw [hRi, hins]
            exact runners_busy rfl rfl
          obtain ⟨h1, h2, h3, h4, hfb, hpost⟩ :=
            euStep5_sim (s := { s with base := { s.base with executeBus := s.base.executeBus.get.2 } })
              (eu := { s.base.eu with runner := some r, remainingCycles := c, processing := true })
              hb hn' rfl rfl hp' hnomem rfl hnf hok h
          refine ⟨h1, h2, h3, h4, hfb, ?_⟩
          cases out with
          | none =>
            rcases hpost with ⟨e1, e2, e3, e4⟩ | hstep
            · refine Or.inl ⟨e1, e2, fun _ => stut5_of_euStut (s := s)
                (s' := { s with base := { s.base with executeBus := s.base.executeBus.get.2 } }) (e3 hc1) rfl rfl rfl hc1 ?_, e4⟩
              intro fw
              unfold euPart; simp only [hp', hproc', Bool.false_eq_true, if_false]
              show 400 + c.toNat ≤ _
              omega
            · exact Or.inr hstep
          | flush pc => exact hpost
          | ret => exact hpost
          | err => exact hpost


/-! ### write unit, end of the run, flush -/

theorem writeCycle5_rel {app : App} {s s1 : State} {a : Arch} (hb : Back s.base a)
    (h : Model.Mvp5.writeCycle s = .ok s1) :
    ∃ b, Model.Mvp4.writeCycle s.base = .ok b ∧ s1 = { s with base := b } ∧ Back s1.base a ∧
      (NormalOk5 app s a → NormalOk5 app s1 a) := by
  unfold Model.Mvp5.writeCycle at h
  cases hw : Model.Mvp4.writeCycle s.base with
  | error f => simp [hw, bind, Except.bind] at h
  | ok b =>
    simp only [hw, bind, Except.bind, pure, Except.pure] at h
    injection h with h
    subst h
    obtain ⟨hb', h1, h2, h3, h4, h5, h6, h7, h8, hsub, hca⟩ := writeCycle_back hb hw
    refine ⟨b, rfl, rfl, hb', fun hn => ?_⟩
    refine hn.transfer (by unfold runners; rw [h4, h3]) (tailW_congr rfl rfl h2 h1) rfl
      (by show b.fu.complete = true → _; rw [h1]; exact hn.complete)
      (by show b.eu.processing = true → ∃ r, b.eu.runner = some r; rw [h4]; exact hn.euRunner)
      (by show b.eu.processing = false → b.eu.pendingMemoryRead = false; rw [h4]; exact hn.idle) ?_
      (by show b.eu.pendingMemoryRead = false → b.eu.memory = none; rw [h4]; exact hn.nomem)
    intro hp
    have hp' : s.base.eu.pendingMemoryRead = true := by rw [← h4]; exact hp
    obtain ⟨r, hr, hj, hpo⟩ := hn.pend hp'
    refine ⟨r, by show b.eu.runner = _; rw [h4]; exact hr, hj, ?_⟩
    exact { wbFree := hca hpo.wbFree, noWriter := hpo.noWriter.of_suffix hsub, bu := by rw [h5]; exact hpo.bu,
            memHit := by rw [h4]; exact hpo.memHit,
            memMiss := by
              rw [h4, h6]
              intro hm
              obtain ⟨a0, as, e1, e2, e3, e4⟩ := hpo.memMiss hm
              exact ⟨a0, as, e1, e2, fun ec hec => e3 ec (hsub ec hec), e4⟩ }

theorem finish5_sim {s s' : State} {a : Arch} {hk : Halt} {ev : Event} (hb : Back s.base a)
    (he : s.base.writeBus.isEmpty = true) (h : Model.Mvp5.finish s hk = .ok (s', ev)) :
    ev = .done hk ∧ Final s'.base a := by
  unfold Model.Mvp5.finish at h
  cases hf : Model.Mvp4.finish s.base hk with
  | error f => simp [hf, bind, Except.bind] at h
  | ok x =>
    obtain ⟨b, ev'⟩ := x
    simp only [hf, bind, Except.bind, pure, Except.pure] at h
    injection h with h
    simp only [Prod.mk.injEq] at h
    obtain ⟨rfl, rfl⟩ := h
    exact finish_sim hb he hf

/-- `CPU.flush(pc)` of MVP-5 after the drain -/
theorem flushAll5_rel {app : App} {s : State} {a : Arch} {pc : Word} (hb : Back s.base a)
    (he : s.base.writeBus.isEmpty = true) (hpc : a.pc = pc) (hpe : s.base.eu.pendingMemoryRead = false)
    (hm : s.base.eu.memory = none) :
    Back (Model.Mvp5.flushAll s pc).base a ∧ NormalOk5 app (Model.Mvp5.flushAll s pc) a := by
  have hq : s.base.writeBus.inside = [] := (bus_isEmpty_iff _).mp he
  have hb' : BackRel s.base.ctx s.base.pwmi s.base.writeBus.inside s.base.mmu.l1d s.base.eu.storeID a := hb
  rw [hq] at hb'
  have hR : runners (Model.Mvp5.flushAll s pc).base = [] := by
    unfold runners Model.Mvp5.flushAll Model.Mvp4.flushAll
    simp [bus_flush_inside]
  constructor
  · show BackRel _ [] (s.base.writeBus.flush.inside) s.base.mmu.l1d s.base.eu.storeID a
    rw [bus_flush_inside]
    exact { rat := hb'.rat, tx := hb'.tx, arat := hb'.arat, atx := hb'.atx, regs := hb'.regs, dwf := hb'.dwf,
            coh := hb'.coh, shape := fun _ hec => (nomatch hec),
            score := fun r => (by
              show _ ≤ GoMap.get1 ({} : GoMap Reg Int) r
              simp [get1_empty]),
            stOk := fun _ hec => (nomatch hec), stUncached := fun _ hec => (nomatch hec),
            stPw := fun _ hec => (nomatch hec), ids := (by simp [storeIds]),
            idsLe := fun id hid => (by simp [storeIds] at hid),
            scoreUp := fun r => (by
              show GoMap.get1 ({} : GoMap Reg Int) r ≤ _
              simp [get1_empty]),
            pwSub := fun _ hx => (nomatch hx), pwNodup := List.nodup_nil }
  · exact { consec := (by
              rw [hR]
              unfold tailW dEff Model.Mvp5.flushAll Model.Mvp4.flushAll Model.Mvp4.FetchUnit.flush
              simp only [Bool.false_eq_true, if_false, List.map_nil, List.nil_append, bus_flush_inside]
              split
              · exact ⟨hpc.symm, trivial⟩
              · exact ⟨hpc.symm, trivial⟩),
            jumpLast := (by
              intro l x l' hsplit _
              rw [hR] at hsplit
              cases l <;> cases hsplit),
            pendJump := fun hx => (by cases hx),
            complete := fun hx => (by simp [Model.Mvp5.flushAll, Model.Mvp4.flushAll, Model.Mvp4.FetchUnit.flush] at hx),
            instrs := (by intro y hy; rw [hR] at hy; cases hy),
            euRunner := fun hx => (by cases hx), idle := fun _ => hpe,
            pend := fun hx => (by
              have : s.base.eu.pendingMemoryRead = true := hx
              rw [hpe] at this; cases this),
            nomem := fun _ => hm }


/-! ### one tick -/

/-- what one tick of the MVP-5 `Run` loop guarantees, by its outcome -/
def TickPost5 (app : App) (a : Arch) (s' : State) : Event → Prop
  | .running => ∃ a1, Step01 app a a1 ∧ Rel5 app s' a1
  | .done .ret => ∃ a1, Step01 app a a1 ∧ (∃ c, stepArch dc app a1 = .halt .ret c) ∧ Final s'.base a1
  | .done .offEnd => ∃ a1, Step01 app a a1 ∧ (∃ c, stepArch dc app a1 = .halt .offEnd c) ∧ Final s'.base a1
  | .done .err => ∃ c, stepArch dc app a = .halt .err c
  | .done (.panic _) => True

theorem NormalOk5.with_cycles {app : App} {s : State} {a : Arch} (hn : NormalOk5 app s a) (c : Int) (m : Mode) :
    NormalOk5 app { s with base := { s.base with cycles := c, mode := m } } a :=
  hn.transfer rfl rfl rfl hn.complete hn.euRunner hn.idle
    (fun hp => by
      obtain ⟨r, hr, hj, hpo⟩ := hn.pend hp
      exact ⟨r, hr, hj, hpo.transfer rfl rfl rfl rfl⟩) hn.nomem

set_option maxHeartbeats 1000000 in
theorem cycleM5_normal {app : App} {s s' : State} {a : Arch} {ev : Event} (hm : s.base.mode = .normal)
    (hR : Rel5 app s a) (hnf : NoFwd app) (hok : Model.Mvp4.stepOk app a = true)
    (h : Model.Mvp5.cycleM app s = .ok (s', ev)) : TickPost5 app a s' ev := by
  have hn0 : NormalOk5 app s a := by have := hR.front; rw [hm] at this; exact this
  unfold Model.Mvp5.cycleM at h
  simp only [hm] at h
  cases h1 : Model.Mvp5.fetchCycle app { s with base := { s.base with cycles := s.base.cycles + 1, mode := .normal } } with
  | error f => simp [h1, bind, Except.bind] at h
  | ok s1 =>
    obtain ⟨hb1, hn1, htc1, _, _, hm1, _⟩ := fetchCycle5_rel (a := a)
      (s := { s with base := { s.base with cycles := s.base.cycles + 1, mode := .normal } }) hR.back (hn0.with_cycles _ _) h1
    simp only [h1, bind, Except.bind] at h
    cases h2 : Model.Mvp5.decodeCycle app s1 with
    | error f => simp [h2] at h
    | ok s2 =>
      obtain ⟨hb2, hn2, _, _, hm2, _⟩ := decodeCycle5_rel hb1 hn1 htc1 h2
      simp only [h2] at h
      cases h3 : Model.Mvp5.executeCycle app s2 with
      | error f => simp [h3] at h
      | ok x =>
        obtain ⟨s3, out⟩ := x
        obtain ⟨_, hm3, _, _, _, hpost⟩ := executeCycle5_sim hb2 hn2 hnf hok h3
        have hmode3 : s3.base.mode = .normal := by rw [hm3, hm2, hm1]
        simp only [h3] at h
        unfold Model.Mvp5.afterExecute at h
        simp only [bind, Except.bind] at h
        cases out with
        | err =>
          simp only [pure, Except.pure] at h
          injection h with h
          simp only [Prod.mk.injEq] at h
          obtain ⟨rfl, rfl⟩ := h
          exact hpost
        | none =>
          have hex : ∃ a1, Step01 app a a1 ∧ Back s3.base a1 ∧ NormalOk5 app s3 a1 := by
            rcases hpost with ⟨hb, hn, _⟩ | ⟨a', c, hst, hb, hn, _, _⟩
            · exact ⟨a, Or.inl rfl, hb, hn⟩
            · exact ⟨a', Or.inr ⟨c, hst⟩, hb, hn⟩
          obtain ⟨a1, hs01, hb3, hn3⟩ := hex
          cases h4 : Model.Mvp5.writeCycle s3 with
          | error f => simp [h4] at h
          | ok s4 =>
            obtain ⟨b4, hw4, hs4, hb4, hnimp⟩ := writeCycle5_rel (app := app) hb3 h4
            have hn4 := hnimp hn3
            obtain ⟨_, g_fu, g_db, g_eb, g_eu, _, _, g_mode, _, _, _⟩ := writeCycle_back hb3 hw4
            have hmode4 : s4.base.mode = .normal := by rw [hs4]; show b4.mode = _; rw [g_mode]; exact hmode3
            simp only [h4] at h
            by_cases hic : Model.Mvp5.isComplete s4 = true
            · simp only [hic, if_true] at h
              obtain ⟨c1, c2, c3, c4, c5⟩ := isComplete_spec (s := s4.base) hic
              obtain ⟨rfl, hfin⟩ := finish5_sim hb4 c5 h
              -- everything in front of the write unit is empty and the fetch unit is complete
              have hR4 : runners s4.base = [] := by rw [runners_idle c2, c4]
              have hdp : s4.duPending = false := by
                cases hx : s4.duPending with
                | false => rfl
                | true =>
                  obtain ⟨l, x, hl, _⟩ := hn4.pendJump hx
                  rw [hR4] at hl
                  cases l <;> cases hl
              have hcons := hn4.consec
              rw [hR4] at hcons
              unfold tailW dEff at hcons
              simp only [hdp, Bool.false_eq_true, if_false, List.map_nil, List.nil_append, c3] at hcons
              have hfpc : s4.base.fu.pc = a1.pc := by
                split at hcons
                · exact hcons.1
                · exact hcons.1
              have hpe : Model.Mvp4.pastEnd app a1.pc = true := by rw [← hfpc]; exact hn4.complete c1
              exact ⟨a1, hs01, ⟨_, stepArch_offEnd hpe⟩, hfin⟩
            · simp only [hic, Bool.false_eq_true, if_false, pure, Except.pure] at h
              injection h with h
              simp only [Prod.mk.injEq] at h
              obtain ⟨rfl, rfl⟩ := h
              refine ⟨a1, hs01, hb4, ?_⟩
              rw [hmode4]; exact hn4
        | ret =>
          obtain ⟨hret, hb3, _⟩ := hpost
          cases h4 : Model.Mvp5.writeCycle s3 with
          | error f => simp [h4] at h
          | ok s4 =>
            obtain ⟨b4, hw4, hs4, hb4, _⟩ := writeCycle5_rel (app := app) hb3 h4
            simp only [h4] at h
            by_cases hdc : Model.Mvp5.drainCond s4 = true
            · simp only [hdc, if_true, pure, Except.pure] at h
              injection h with h
              simp only [Prod.mk.injEq] at h
              obtain ⟨rfl, rfl⟩ := h
              exact ⟨a, Or.inl rfl, hb4, hret⟩
            · have hdc' : Model.Mvp5.drainCond s4 = false := by simpa using hdc
              simp only [hdc', Bool.false_eq_true, if_false] at h
              obtain ⟨rfl, hfin⟩ := finish5_sim hb4 (drainCond_false (s := s4.base) hdc') h
              exact ⟨a, Or.inl rfl, hret, hfin⟩
        | flush pc =>
          obtain ⟨a', c, hst, hpc, hb3, hpe, hmem⟩ := hpost
          cases h4 : Model.Mvp5.writeCycle s3 with
          | error f => simp [h4] at h
          | ok s4 =>
            obtain ⟨b4, hw4, hs4, hb4, _⟩ := writeCycle5_rel (app := app) hb3 h4
            obtain ⟨_, _, _, _, g_eu, _, _, g_mode, _, _, _⟩ := writeCycle_back hb3 hw4
            have heu4 : s4.base.eu = s3.base.eu := by rw [hs4]; exact g_eu
            simp only [h4] at h
            by_cases hdc : Model.Mvp5.drainCond s4 = true
            · simp only [hdc, if_true, pure, Except.pure] at h
              injection h with h
              simp only [Prod.mk.injEq] at h
              obtain ⟨rfl, rfl⟩ := h
              refine ⟨a', Or.inr ⟨c, hst⟩, hb4, ?_⟩
              show a'.pc = pc ∧ s4.base.eu.pendingMemoryRead = false ∧ s4.base.eu.memory = none
              rw [heu4]; exact ⟨hpc, hpe, hmem⟩
            · have hdc' : Model.Mvp5.drainCond s4 = false := by simpa using hdc
              simp only [hdc', Bool.false_eq_true, if_false, pure, Except.pure] at h
              injection h with h
              simp only [Prod.mk.injEq] at h
              obtain ⟨rfl, rfl⟩ := h
              obtain ⟨hbf, hnf'⟩ := flushAll5_rel (app := app) hb4 (drainCond_false (s := s4.base) hdc') hpc
                (by rw [heu4]; exact hpe) (by rw [heu4]; exact hmem)
              refine ⟨a', Or.inr ⟨c, hst⟩, hbf, ?_⟩
              have : (Model.Mvp5.flushAll s4 pc).base.mode = .normal := by
                show s4.base.mode = _; rw [hs4]; show b4.mode = _; rw [g_mode]; exact hmode3
              rw [this]; exact hnf'


theorem cycleM5_drainRet {app : App} {s s' : State} {a : Arch} {ev : Event} (hm : s.base.mode = .drainRet)
    (hR : Rel5 app s a) (h : Model.Mvp5.cycleM app s = .ok (s', ev)) : TickPost5 app a s' ev := by
  have hret : ∃ c, stepArch dc app a = .halt .ret c := by have := hR.front; rw [hm] at this; exact this
  unfold Model.Mvp5.cycleM at h
  simp only [hm] at h
  cases h4 : Model.Mvp5.writeCycle s with
  | error f => simp [h4, bind, Except.bind] at h
  | ok s4 =>
    obtain ⟨b4, hw4, hs4, hb4, _⟩ := writeCycle5_rel (app := app) hR.back h4
    obtain ⟨_, _, _, _, _, _, _, g_mode, _, _, _⟩ := writeCycle_back hR.back hw4
    have hmode4 : s4.base.mode = .drainRet := by rw [hs4]; show b4.mode = _; rw [g_mode]; exact hm
    simp only [h4, bind, Except.bind] at h
    by_cases hdc : Model.Mvp5.drainCond s4 = true
    · simp only [hdc, if_true, pure, Except.pure] at h
      injection h with h
      simp only [Prod.mk.injEq] at h
      obtain ⟨rfl, rfl⟩ := h
      refine ⟨a, Or.inl rfl, hb4, ?_⟩
      rw [hmode4]; exact hret
    · have hdc' : Model.Mvp5.drainCond s4 = false := by simpa using hdc
      simp only [hdc', Bool.false_eq_true, if_false] at h
      obtain ⟨rfl, hfin⟩ := finish5_sim hb4 (drainCond_false (s := s4.base) hdc') h
      exact ⟨a, Or.inl rfl, hret, hfin⟩

theorem cycleM5_drainFlush {app : App} {s s' : State} {a : Arch} {ev : Event} {pc : Word}
    (hm : s.base.mode = .drainFlush pc) (hR : Rel5 app s a) (h : Model.Mvp5.cycleM app s = .ok (s', ev)) :
    TickPost5 app a s' ev := by
  have hfr : a.pc = pc ∧ s.base.eu.pendingMemoryRead = false ∧ s.base.eu.memory = none := by
    have := hR.front; rw [hm] at this; exact this
  obtain ⟨hpc, hpe, hmem⟩ := hfr
  unfold Model.Mvp5.cycleM at h
  simp only [hm] at h
  cases h4 : Model.Mvp5.writeCycle { s with base := { s.base with cycles := s.base.cycles + 1, mode := .drainFlush pc } } with
  | error f => simp [h4, bind, Except.bind] at h
  | ok s4 =>
    obtain ⟨b4, hw4, hs4, hb4, _⟩ := writeCycle5_rel (app := app) (a := a)
      (s := { s with base := { s.base with cycles := s.base.cycles + 1, mode := .drainFlush pc } }) hR.back h4
    obtain ⟨_, _, _, _, g_eu, _, _, g_mode, _, _, _⟩ :=
      writeCycle_back (s := { s.base with cycles := s.base.cycles + 1, mode := .drainFlush pc }) (a := a) hR.back hw4
    have hmode4 : s4.base.mode = .drainFlush pc := by rw [hs4]; exact g_mode
    have heu4 : s4.base.eu = s.base.eu := by rw [hs4]; exact g_eu
    simp only [h4, bind, Except.bind] at h
    by_cases hdc : Model.Mvp5.drainCond s4 = true
    · simp only [hdc, if_true, pure, Except.pure] at h
      injection h with h
      simp only [Prod.mk.injEq] at h
      obtain ⟨rfl, rfl⟩ := h
      refine ⟨a, Or.inl rfl, hb4, ?_⟩
      rw [hmode4]
      show a.pc = pc ∧ s4.base.eu.pendingMemoryRead = false ∧ s4.base.eu.memory = none
      rw [heu4]; exact ⟨hpc, hpe, hmem⟩
    · have hdc' : Model.Mvp5.drainCond s4 = false := by simpa using hdc
      simp only [hdc', Bool.false_eq_true, if_false, pure, Except.pure] at h
      injection h with h
      simp only [Prod.mk.injEq] at h
      obtain ⟨rfl, rfl⟩ := h
      obtain ⟨hbf, hnf'⟩ := flushAll5_rel (app := app) hb4 (drainCond_false (s := s4.base) hdc') hpc
        (by rw [heu4]; exact hpe) (by rw [heu4]; exact hmem)
      refine ⟨a, Or.inl rfl, hbf, ?_⟩
      show NormalOk5 app { Model.Mvp5.flushAll s4 pc with base := { (Model.Mvp5.flushAll s4 pc).base with mode := .normal } } a
      exact hnf'.transfer rfl rfl rfl hnf'.complete hnf'.euRunner hnf'.idle
        (fun hp => by
          obtain ⟨r, hr, hj, hpo⟩ := hnf'.pend hp
          exact ⟨r, hr, hj, hpo.transfer rfl rfl rfl rfl⟩) hnf'.nomem

/-- **the per-tick simulation theorem of MVP-5** -/
theorem cycle5_sim {app : App} {s s' : State} {a : Arch} {ev : Event}
    (hR : Rel5 app s a) (hnf : NoFwd app) (hok : Model.Mvp4.stepOk app a = true)
    (h : Model.Mvp5.cycle app s = (s', ev)) : TickPost5 app a s' ev := by
  unfold Model.Mvp5.cycle at h
  cases hc : Model.Mvp5.cycleM app s with
  | error f =>
    cases f with
    | panic w =>
      simp only [hc, Prod.mk.injEq] at h
      obtain ⟨_, rfl⟩ := h
      trivial
    | err w =>
      simp only [hc, Prod.mk.injEq] at h
      obtain ⟨_, rfl⟩ := h
      trivial
  | ok r =>
    obtain ⟨s1, ev1⟩ := r
    simp only [hc, Prod.mk.injEq] at h
    obtain ⟨rfl, rfl⟩ := h
    cases hm : s.base.mode with
    | normal => exact cycleM5_normal hm hR hnf hok hc
    | drainRet => exact cycleM5_drainRet hm hR hc
    | drainFlush pc => exact cycleM5_drainFlush hm hR hc

end Proofs.Mvp5

/-
  Proofs/Mvp60SlTick.lean — package R60: one tick of the MVP-6.0 model on a straight-line register-only program is a
  number of steps of the unpipelined machine (`tick_sim`).
-/
import MajoranaVerif.Proofs.Mvp60SlBack
open GoInt

set_option linter.unusedSimpArgs false
set_option linter.unusedVariables false

namespace Proofs.Mvp60Sl
open Model Model.Mvp60
open Model.Seq (App Halt Arch stepArch)

/-- what is assumed of the program: small, fresh forward slots, straight-line -/
structure Prog (app : App) : Prop where
  small : app.instrs.length < 250
  nofwd : ∀ g ∈ app.instrs, fwdOf g = {}
  sl : StraightLine app = true

/-- the state between the units of one tick: front, back, and the occupancy facts the execute units need -/
structure Mid (app : App) (s : State) (a : Arch) (i : Nat) : Prop where
  front : ∃ n0, a.pc = pcOf n0 ∧ Front app s n0
  back : Back s.ctx s.writeBus.inside s.executeBus.inside a
  eus : ∀ eu ∈ s.eus, eu.co = .none ∧ eu.memory = []
  wbi : s.writeBus.buffer.length ≤ i
  room : s.writeBus.buffer.length + s.executeBus.queue.length ≤ 2
  stamps : ∀ e ∈ s.writeBus.buffer, e.1 ≤ s.cycles + 1
  wbl : s.writeBus.bufferLength = 2

/-- what the execute units leave alone -/
structure EuKeep (s s' : State) : Prop where
  wq : s'.writeBus.queue = s.writeBus.queue
  wus : s'.wus = s.wus
  eul : s'.eus.length = s.eus.length
  cyc : s'.cycles = s.cycles
  pend : s'.cuPendings = s.cuPendings
  mmu : s'.mmu = s.mmu
  mode : s'.mode = s.mode
  wql : s'.writeBus.queueLength = s.writeBus.queueLength
  xql : s'.executeBus.queueLength = s.executeBus.queueLength
  xq : s'.executeBus.queue.length ≤ s.executeBus.queue.length

theorem EuKeep.refl (s : State) : EuKeep s s := ⟨rfl, rfl, rfl, rfl, rfl, rfl, rfl, rfl, rfl, Nat.le_refl _⟩
theorem EuKeep.trans {a b c : State} (h1 : EuKeep a b) (h2 : EuKeep b c) : EuKeep a c :=
  ⟨h2.wq.trans h1.wq, h2.wus.trans h1.wus, h2.eul.trans h1.eul, h2.cyc.trans h1.cyc, h2.pend.trans h1.pend,
   h2.mmu.trans h1.mmu, h2.mode.trans h1.mode, h2.wql.trans h1.wql, h2.xql.trans h1.xql, Nat.le_trans h2.xq h1.xq⟩

theorem runners_cons (s : State) (x : Runner) (q : List Runner) (h : s.executeBus.queue = x :: q) :
    runners s = x :: runners { s with executeBus := { s.executeBus with queue := q } } := by
  simp only [runners, BufferedBus.inside, h, List.cons_append]

/-- one execute unit: nothing to do, or the next step of the unpipelined machine, or its defined error -/
theorem euCycle_sim (app : App) (hp : Prog app) (s s' : State) (a : Arch) (i : Nat) (out : EuOut)
    (hm : Mid app s a i) (hi : i < s.eus.length) (h : euCycle app s i = .ok (s', out)) :
    (out = .none ∧ ∃ a', (a' = a ∨ ∃ c, stepArch Proofs.Mvp4.dc app a = .next a' c) ∧ Mid app s' a' (i + 1) ∧ EuKeep s s') ∨
    (out = .err ∧ ∃ c, stepArch Proofs.Mvp4.dc app a = .halt .err c) := by
  obtain ⟨eu, hget⟩ := get_lt s.eus i hi
  obtain ⟨hco, hmem⟩ := hm.eus eu (List.mem_of_getElem? hget)
  unfold euCycle at h
  simp only [hget, hco] at h
  cases hq : s.executeBus.queue with
  | nil =>
    simp only [get_none _ hq, pure, Except.pure, Except.ok.injEq, Prod.mk.injEq] at h
    obtain ⟨rfl, rfl⟩ := h
    left
    refine ⟨rfl, a, Or.inl rfl, ?_, ⟨rfl, rfl, rfl, rfl, rfl, rfl, rfl, rfl, rfl, by simp only [hq]; exact Nat.le_refl _⟩⟩
    exact ⟨hm.front, hm.back, hm.eus, Nat.le_succ_of_le hm.wbi, hm.room, hm.stamps, hm.wbl⟩
  | cons x q =>
    simp only [get_some _ x q hq] at h
    obtain ⟨n0, hpc, hf⟩ := hm.front
    have hrun := runners_cons s x q hq
    have hxin : s.executeBus.inside = x :: ({ s.executeBus with queue := q } : BufferedBus Runner).inside := by
      simp only [BufferedBus.inside, hq, List.cons_append]
    have hchain := hf.chain
    rw [hrun] at hchain
    obtain ⟨hxok, hchain'⟩ := hchain
    have hslx := sl_of_get app hp.sl n0 x.instr hxok.2
    have hnfx := hp.nofwd x.instr (List.mem_of_getElem? hxok.2)
    have hback := hm.back
    rw [hxin] at hback
    obtain ⟨hexe, herr⟩ := hback.execute hp.small hpc hxok hslx hnfx
    -- the unit prepares and runs at once
    have hcan : s.writeBus.canAdd = true := by
      have := hm.room; rw [hq] at this; simp only [List.length_cons] at this
      simp only [BufferedBus.canAdd, hm.wbl, bne_iff_ne, ne_eq]; omega
    have hsl' := hslx
    simp only [slInstr, Bool.and_eq_true, Bool.not_eq_true', Gen.InstructionType.IsBranch, Bool.or_eq_false_iff] at hsl'
    obtain ⟨⟨_, hub, hcb⟩, _⟩ := hsl'
    unfold coPrepareRun at h
    simp only [hcan, Bool.not_true, Bool.false_eq_true, if_false, buAssert, hub, hcb, sl_memoryRead x.instr hslx,
      List.isEmpty_nil, Bool.not_true] at h
    unfold coRun at h
    simp only [hmem, setEu] at h
    cases hr : x.instr.run s.ctx app.labels x.pc [] 0#32 with
    | error f =>
      cases f with
      | panic w => simp only [hr] at h; cases h
      | err msg =>
        simp only [hr, pure, Except.pure, Except.ok.injEq, Prod.mk.injEq] at h
        obtain ⟨_, rfl⟩ := h
        right; exact ⟨rfl, herr msg hr⟩
    | ok e =>
      obtain ⟨a', hstep, hpc', hback', hret, hmc, hpcc⟩ := hexe e hr
      simp only [hr, hret, hmc, hpcc, Bool.false_eq_true, if_false, bind, Except.bind, pure, Except.pure, hub,
        Except.ok.injEq, Prod.mk.injEq] at h
      obtain ⟨rfl, rfl⟩ := h
      left
      refine ⟨rfl, a', Or.inr hstep, ?_, ⟨rfl, rfl, by simp only [List.length_set], rfl, rfl, rfl, rfl, rfl, rfl,
        by simp only [hq, List.length_cons]; omega⟩⟩
      refine ⟨⟨n0 + 1, hpc', ?_⟩, ?_, ?_, ?_, ?_, ?_, hm.wbl⟩
      · have hlen : (runners s).length = (runners { s with executeBus := { s.executeBus with queue := q } }).length + 1 := by
          rw [hrun]; simp only [List.length_cons]
        refine ⟨hchain', ?_, ?_, hf.clean, hf.dlen, hf.duOk, hf.duRet⟩
        · have := hf.inRange; rw [hlen] at this
          simp only [runners] at this ⊢; omega
        · have := hf.pcs; rw [hlen] at this
          have e1 : n0 + 1 + (runners { s with executeBus := { s.executeBus with queue := q } }).length =
              n0 + ((runners { s with executeBus := { s.executeBus with queue := q } }).length + 1) := by omega
          simp only [runners] at this e1 ⊢
          rw [e1]; exact this
      · simp only [inside_add]; exact hback'
      · intro eu' hmem'
        rcases List.mem_or_eq_of_mem_set hmem' with h1 | h1
        · exact hm.eus eu' h1
        · subst h1; exact ⟨rfl, rfl⟩
      · simp only [BufferedBus.add, List.length_append, List.length_cons, List.length_nil]; have := hm.wbi; omega
      · simp only [BufferedBus.add, List.length_append, List.length_cons, List.length_nil]
        have := hm.room; rw [hq] at this; simp only [List.length_cons] at this; omega
      · intro en hen
        simp only [BufferedBus.add, List.mem_append, List.mem_singleton] at hen
        rcases hen with hen | hen
        · exact hm.stamps en hen
        · subst hen; exact Int.le_refl _

/-- the loop over the execute units -/
theorem eusCycle_sim (app : App) (hp : Prog app) (a0 : Arch) : ∀ (n i : Nat) (s s' : State) (acc acc' : EuAcc) (k : Nat) (a : Arch),
    i + n = s.eus.length → Mid app s a i → Proofs.Mvp4.seqIter app k a0 = some a →
    acc = {} → eusCycle app n i s acc = .ok (s', acc') →
    (acc' = {} ∧ ∃ k' a', Proofs.Mvp4.seqIter app k' a0 = some a' ∧ Mid app s' a' (i + n) ∧ EuKeep s s') ∨
    (acc'.err = true ∧ ∃ k' a', Proofs.Mvp4.seqIter app k' a0 = some a' ∧ ∃ c, stepArch Proofs.Mvp4.dc app a' = .halt .err c) := by
  intro n
  induction n with
  | zero =>
    intro i s s' acc acc' k a _ hm hk hacc h
    simp only [eusCycle, pure, Except.pure, Except.ok.injEq, Prod.mk.injEq] at h
    obtain ⟨rfl, rfl⟩ := h
    left; exact ⟨hacc, k, a, hk, hm, EuKeep.refl s⟩
  | succ n ih =>
    intro i s s' acc acc' k a hlen hm hk hacc h
    simp only [eusCycle, bind, Except.bind] at h
    split at h
    · cases h
    · rename_i v hv
      obtain ⟨s1, out⟩ := v
      rcases euCycle_sim app hp s s1 a i out hm (by omega) hv with ⟨rfl, a1, hstep, hm1, hk1⟩ | ⟨rfl, c, hc⟩
      · simp only at h
        have hk' : ∃ k1, Proofs.Mvp4.seqIter app k1 a0 = some a1 := by
          rcases hstep with rfl | ⟨c, hc⟩
          · exact ⟨k, hk⟩
          · exact ⟨k + 1, Proofs.Mvp4.seqIter_succ hk hc⟩
        obtain ⟨k1, hk1'⟩ := hk'
        have := ih (i + 1) s1 s' acc acc' k1 a1 (by rw [hk1.eul]; omega) hm1 hk1' hacc h
        rcases this with ⟨e1, k2, a2, e2, e3, e4⟩ | e
        · left
          refine ⟨e1, k2, a2, e2, ?_, hk1.trans e4⟩
          have : i + 1 + n = i + (n + 1) := by omega
          rw [← this]; exact e3
        · right; exact e
      · simp only [pure, Except.pure, Except.ok.injEq, Prod.mk.injEq] at h
        obtain ⟨_, rfl⟩ := h
        right; exact ⟨rfl, k, a, hk, c, hc⟩

/-! ### the write units -/

/-- what the write units leave alone -/
structure WuKeep (s s' : State) : Prop where
  fu : s'.fu = s.fu
  decodeBus : s'.decodeBus = s.decodeBus
  du : s'.du = s.du
  controlBus : s'.controlBus = s.controlBus
  cuPendings : s'.cuPendings = s.cuPendings
  executeBus : s'.executeBus = s.executeBus
  eus : s'.eus = s.eus
  wus : s'.wus = s.wus
  mmu : s'.mmu = s.mmu
  cycles : s'.cycles = s.cycles
  mode : s'.mode = s.mode
  wbuf : s'.writeBus.buffer = s.writeBus.buffer
  wql : s'.writeBus.queueLength = s.writeBus.queueLength
  wbl : s'.writeBus.bufferLength = s.writeBus.bufferLength

theorem WuKeep.refl (s : State) : WuKeep s s := ⟨rfl, rfl, rfl, rfl, rfl, rfl, rfl, rfl, rfl, rfl, rfl, rfl, rfl, rfl⟩
theorem WuKeep.trans {a b c : State} (h1 : WuKeep a b) (h2 : WuKeep b c) : WuKeep a c :=
  ⟨h2.fu.trans h1.fu, h2.decodeBus.trans h1.decodeBus, h2.du.trans h1.du, h2.controlBus.trans h1.controlBus,
   h2.cuPendings.trans h1.cuPendings, h2.executeBus.trans h1.executeBus, h2.eus.trans h1.eus, h2.wus.trans h1.wus,
   h2.mmu.trans h1.mmu, h2.cycles.trans h1.cycles, h2.mode.trans h1.mode, h2.wbuf.trans h1.wbuf, h2.wql.trans h1.wql,
   h2.wbl.trans h1.wbl⟩

theorem Front.of_eq {app : App} {s s' : State} {n0 : Nat} (h : Front app s n0) (e1 : s'.executeBus = s.executeBus)
    (e2 : s'.cuPendings = s.cuPendings) (e3 : s'.controlBus = s.controlBus) (e4 : s'.fu = s.fu)
    (e5 : s'.decodeBus = s.decodeBus) (e6 : s'.du = s.du) : Front app s' n0 := by
  have hr : runners s' = runners s := by simp only [runners, e1, e2, e3]
  exact ⟨by rw [hr]; exact h.chain, by rw [hr]; exact h.inRange, by rw [hr, e4, e5]; exact h.pcs, by rw [e4]; exact h.clean,
    by rw [e5]; exact h.dlen, by rw [e6]; exact h.duOk, by rw [e6]; exact h.duRet⟩

/-- one write unit (idle, called with `before = -1`): nothing to do, or the oldest result is written -/
theorem wuCycle_sim (s s' : State) (a : Arch) (j : Nat) (hj : j < s.wus.length) (hidle : ∀ wu ∈ s.wus, wu.co = .none)
    (hb : Back s.ctx s.writeBus.inside s.executeBus.inside a) (h : wuCycle s j (BitVec.ofInt 32 (-1)) = .ok s') :
    Back s'.ctx s'.writeBus.inside s'.executeBus.inside a ∧ WuKeep s s' ∧
    s'.writeBus.queue.length = s.writeBus.queue.length - 1 := by
  obtain ⟨wu, hget⟩ := get_lt s.wus j hj
  have hco := hidle wu (List.mem_of_getElem? hget)
  unfold wuCycle at h
  simp only [hget, hco] at h
  cases hq : s.writeBus.queue with
  | nil =>
    simp only [get_none _ hq, pure, Except.pure, Except.ok.injEq] at h
    subst h
    exact ⟨hb, WuKeep.refl _, by simp only [hq, List.length_nil]⟩
  | cons ec q =>
    simp only [get_some _ ec q hq, bne_self_eq_false, Bool.false_and, Bool.false_eq_true, if_false] at h
    have hin : s.writeBus.inside = ec :: ({ s.writeBus with queue := q } : BufferedBus ExecCtx).inside := by
      simp only [BufferedBus.inside, hq, List.cons_append]
    rw [hin] at hb
    have hwb := hb.writeback
    have hnm := hb.nomem ec (List.mem_cons_self)
    split at h
    · rename_i hrc
      simp only [pure, Except.pure, Except.ok.injEq] at h
      subst h
      simp only [hrc, if_true] at hwb
      exact ⟨hwb, ⟨rfl, rfl, rfl, rfl, rfl, rfl, rfl, rfl, rfl, rfl, rfl, rfl, rfl, rfl⟩, by simp only [hq, List.length_cons]; omega⟩
    · rename_i hrc
      simp only [hnm, Bool.false_eq_true, if_false, pure, Except.pure, Except.ok.injEq] at h
      subst h
      simp only [hrc, if_false] at hwb
      exact ⟨hwb, ⟨rfl, rfl, rfl, rfl, rfl, rfl, rfl, rfl, rfl, rfl, rfl, rfl, rfl, rfl⟩, by simp only [hq, List.length_cons]; omega⟩

theorem wus_sim (a : Arch) : ∀ (n i : Nat) (s s' : State), i + n = s.wus.length → (∀ wu ∈ s.wus, wu.co = .none) →
    Back s.ctx s.writeBus.inside s.executeBus.inside a →
    (List.range' i n).foldlM (fun s j => wuCycle s j (BitVec.ofInt 32 (-1))) s = .ok s' →
    Back s'.ctx s'.writeBus.inside s'.executeBus.inside a ∧ WuKeep s s' ∧
    s'.writeBus.queue.length = s.writeBus.queue.length - n := by
  intro n
  induction n with
  | zero =>
    intro i s s' _ _ hb h
    simp only [List.range'_zero, List.foldlM, pure, Except.pure, Except.ok.injEq] at h
    subst h
    exact ⟨hb, WuKeep.refl _, by omega⟩
  | succ n ih =>
    intro i s s' hlen hidle hb h
    simp only [List.range'_succ, List.foldlM, bind, Except.bind] at h
    split at h
    · cases h
    · rename_i s1 h1
      obtain ⟨b1, k1, q1⟩ := wuCycle_sim s s1 a i (by omega) hidle hb h1
      obtain ⟨b2, k2, q2⟩ := ih (i + 1) s1 s' (by rw [k1.wus]; omega) (by rw [k1.wus]; exact hidle) b1 h
      exact ⟨b2, k1.trans k2, by omega⟩

theorem wusCycle_sim (s s' : State) (a : Arch) (hidle : ∀ wu ∈ s.wus, wu.co = .none)
    (hb : Back s.ctx s.writeBus.inside s.executeBus.inside a) (h : wusCycle s = .ok s') :
    Back s'.ctx s'.writeBus.inside s'.executeBus.inside a ∧ WuKeep s s' ∧
    s'.writeBus.queue.length = s.writeBus.queue.length - s.wus.length := by
  unfold wusCycle at h
  rw [List.range_eq_range'] at h
  exact wus_sim a s.wus.length 0 s s' (by omega) hidle hb h

/-! ### the whole tick -/

theorem connect_queue_le {α : Type} (b : BufferedBus α) (c : Int) (h : (b.queue.length : Int) ≤ b.queueLength) :
    ((b.connect c).queue.length : Int) ≤ b.queueLength := by
  unfold BufferedBus.connect
  split
  · exact h
  · exact Proofs.Bus.connectLoop_length _ _ _ _ h

theorem issued_back {c : Int} {pushed : List Runner} {x y : Model.Context × BufferedBus Runner}
    (h : Issued c pushed x y) : ∀ {W : List ExecCtx} {a : Arch}, Back x.1 W x.2.inside a →
    Back y.1 W y.2.inside a ∧ y.2.queue = x.2.queue ∧ y.2.queueLength = x.2.queueLength ∧ y.2.inside = x.2.inside ++ pushed := by
  induction h with
  | nil x => intro W a hb; exact ⟨hb, rfl, rfl, by simp⟩
  | cons r rs ctx bus y hz _ ih =>
    intro W a hb
    have hb' := hb.issue r hz
    have : Back (addPendingRegisters ctx r.instr, bus.add r c).1 W (addPendingRegisters ctx r.instr, bus.add r c).2.inside a := by
      simp only [inside_add]; exact hb'
    obtain ⟨i1, i2, i3, i4⟩ := ih this
    exact ⟨i1, i2, i3, by rw [i4]; simp only [inside_add, List.append_assoc, List.singleton_append]⟩

/-- the state between two ticks -/
structure Rel (app : App) (s : State) (a : Arch) : Prop where
  front : ∃ n0, a.pc = pcOf n0 ∧ Front app s n0
  back : Back s.ctx s.writeBus.inside s.executeBus.inside a
  eus : ∀ eu ∈ s.eus, eu.co = .none ∧ eu.memory = []
  wus : ∀ wu ∈ s.wus, wu.co = .none
  wq : s.writeBus.queue = []
  wb2 : s.writeBus.buffer.length ≤ 2
  wbk : s.writeBus.buffer.length ≤ s.wus.length
  stamps : ∀ e ∈ s.writeBus.buffer, e.1 ≤ s.cycles + 1
  wql : s.writeBus.queueLength = 2
  wbl : s.writeBus.bufferLength = 2
  xql : s.executeBus.queueLength = 2
  xq : s.executeBus.queue.length ≤ 2
  eqw : s.eus.length = s.wus.length
  pend : s.cuPendings.items.length ≤ 1
  l1d : s.mmu.l1d.lines = []
  mode : s.mode = .normal

/-- what a tick has to do with the unpipelined run from `a0` -/
def TickPost (app : App) (a0 : Arch) (s' : State) : Event → Prop
  | .running => ∃ k a, Proofs.Mvp4.seqIter app k a0 = some a ∧ Rel app s' a
  | .done .offEnd => ∃ k a, Proofs.Mvp4.seqIter app k a0 = some a ∧ (∃ c, stepArch Proofs.Mvp4.dc app a = .halt .offEnd c) ∧
      s'.ctx.Registers = a.ctx.Registers ∧ s'.ctx.Memory = a.ctx.Memory
  | .done .err => ∃ k a, Proofs.Mvp4.seqIter app k a0 = some a ∧ ∃ c, stepArch Proofs.Mvp4.dc app a = .halt .err c
  | .done .ret => False
  | .done (.panic _) => True

theorem stepArch_offEnd (app : App) (a : Arch) (n0 : Nat) (hpc : a.pc = pcOf n0) (hsm : app.instrs.length < 250)
    (h1 : app.instrs.length ≤ n0) (h2 : n0 ≤ app.instrs.length) : ∃ c, stepArch Proofs.Mvp4.dc app a = .halt .offEnd c := by
  unfold stepArch
  simp only [hpc, pcOf_idx n0 (by omega)]
  have : ¬ ((n0 : Int) < (app.instrs.length : Int)) := by omega
  simp only [this, not_false_eq_true, if_true]
  exact ⟨_, rfl⟩

theorem inside_nil_of_isEmpty {α : Type} (b : BufferedBus α) (h : b.isEmpty = true) : b.inside = [] := by
  simp only [BufferedBus.isEmpty, Bool.and_eq_true, beq_iff_eq, List.length_eq_zero_iff] at h
  simp only [BufferedBus.inside, h.1, h.2, List.map_nil, List.append_nil]

theorem flush_empty (u : Model.Mmu.Mmu) (mem : List Byte) (h : u.l1d.lines = []) :
    Model.Mmu.flush cfg u mem = .ok (mem, 0) := by
  simp only [Model.Mmu.flush, LineCache.lines, h, Model.Mmu.flushLines, pure, Except.pure]

/-- the head of a normal tick: `cycle++` and the four `Connect`s -/
def connected (s : State) : State :=
  let s := { s with cycles := s.cycles + 1 }
  let c := s.cycles
  { s with decodeBus := s.decodeBus.connect c, controlBus := s.controlBus.connect c,
           executeBus := s.executeBus.connect c, writeBus := s.writeBus.connect c }

/-- the end of a normal tick, after the execute units -/
def afterEus (s : State) (acc : EuAcc) : M (State × Event) :=
  if acc.err then pure (s, .done .err)
  else do
    let s ← wusCycle s
    if acc.ret then goRetA s
    else if acc.flush then
      let s := { s with writeBus := s.writeBus.connect (s.cycles + 1) }
      pure (goFlush s acc.from_ acc.pc s.wus.length 0)
    else if isEmpty s then finish s .offEnd
    else pure (s, .running)

theorem cycleM_normal_eq (app : App) (s : State) (hm : s.mode = .normal) :
    cycleM app s = (do
      let s ← fetchCycle app (connected s)
      let s ← decodeCycle app s
      let s := controlCycle s
      let (s, acc) ← eusCycle app s.eus.length 0 s {}
      afterEus s acc) := by
  unfold cycleM
  split
  · rfl
  all_goals (rename_i hh; rw [hm] at hh; cases hh)

/-- the facts that hold from the `Connect`s to the execute units -/
structure Ph (app : App) (s : State) (a : Arch) : Prop where
  front : ∃ n0, a.pc = pcOf n0 ∧ Front app s n0
  back : Back s.ctx s.writeBus.inside s.executeBus.inside a
  eus : ∀ eu ∈ s.eus, eu.co = .none ∧ eu.memory = []
  wus : ∀ wu ∈ s.wus, wu.co = .none
  wbuf : s.writeBus.buffer = []
  wqk : s.writeBus.queue.length ≤ s.wus.length
  wql : s.writeBus.queueLength = 2
  wbl : s.writeBus.bufferLength = 2
  xql : s.executeBus.queueLength = 2
  xq : s.executeBus.queue.length ≤ 2
  eqw : s.eus.length = s.wus.length
  pend : s.cuPendings.items.length ≤ 1
  l1d : s.mmu.l1d.lines = []
  mode : s.mode = .normal

theorem connected_ph (app : App) (s : State) (a : Arch) (hr : Rel app s a) : Ph app (connected s) a := by
  obtain ⟨n0, hpc, hf⟩ := hr.front
  have hw : s.writeBus.connect (s.cycles + 1) = { s.writeBus with queue := s.writeBus.queue ++ s.writeBus.buffer.map (·.2), buffer := [] } :=
    connect_all _ _ (by rw [hr.wq, hr.wql]; simp only [List.length_nil]; have := hr.wb2; omega) hr.stamps
  have hxq : ((s.executeBus.connect (s.cycles + 1)).queue.length : Int) ≤ 2 := by
    have := connect_queue_le s.executeBus (s.cycles + 1) (by rw [hr.xql]; have := hr.xq; omega)
    rw [hr.xql] at this; exact this
  refine ⟨⟨n0, hpc, ?_⟩, ?_, hr.eus, hr.wus, ?_, ?_, ?_, ?_, ?_, by (show (s.executeBus.connect (s.cycles + 1)).queue.length ≤ 2); omega, hr.eqw, hr.pend, hr.l1d, hr.mode⟩
  · have hrun : runners (connected s) = runners s := by
      simp only [runners, connected, inside_connect]
    refine ⟨by rw [hrun]; exact hf.chain, by rw [hrun]; exact hf.inRange, ?_, hf.clean, ?_, hf.duOk, hf.duRet⟩
    · rw [hrun]; simp only [connected, inside_connect]; exact hf.pcs
    · simp only [connected, (connect_lengths _ _).2]; exact hf.dlen
  · simp only [connected, inside_connect]; exact hr.back
  · simp only [connected, hw]
  · simp only [connected, hw, hr.wq, List.nil_append, List.length_map]; exact hr.wbk
  · simp only [connected, (connect_lengths _ _).1]; exact hr.wql
  · simp only [connected, (connect_lengths _ _).2]; exact hr.wbl
  · simp only [connected, (connect_lengths _ _).1]; exact hr.xql

theorem fetch_ph (app : App) (hp : Prog app) (s s2 : State) (a : Arch) (h : Ph app s a) (hr : fetchCycle app s = .ok s2) :
    Ph app s2 a := by
  obtain ⟨n0, hpc, hf⟩ := h.front
  unfold fetchCycle at hr
  simp only [bind, Except.bind] at hr
  split at hr
  · cases hr
  · rename_i v hv
    obtain ⟨fu', mmu', bus'⟩ := v
    simp only [pure, Except.pure, Except.ok.injEq] at hr
    subst hr
    obtain ⟨e1, e2, e3, e4⟩ := fetchCore_pcs app hp.small _ _ _ _ _ _ _ _ hf.clean hf.dlen hf.pcs hv
    exact ⟨⟨n0, hpc, ⟨hf.chain, hf.inRange, e1, e2, e3, hf.duOk, hf.duRet⟩⟩, h.back, h.eus, h.wus, h.wbuf, h.wqk, h.wql, h.wbl,
      h.xql, h.xq, h.eqw, h.pend, by (show mmu'.l1d.lines = []); rw [e4]; exact h.l1d, h.mode⟩

theorem decode_ph (app : App) (hp : Prog app) (s s3 : State) (a : Arch) (h : Ph app s a) (hr : decodeCycle app s = .ok s3) :
    Ph app s3 a := by
  obtain ⟨n0, hpc, hf⟩ := h.front
  unfold decodeCycle decodeCore at hr
  simp only [hf.duRet, hf.duOk, Bool.false_eq_true, if_false, bind, Except.bind] at hr
  split at hr
  · cases hr
  · rename_i v hv
    obtain ⟨du', d', c'⟩ := v
    simp only [pure, Except.pure, Except.ok.injEq] at hr
    subst hr
    have hchain := hf.chain
    simp only [runners] at hchain
    rw [chain_append] at hchain
    have hin := hf.inRange
    have hpcs := hf.pcs
    simp only [runners, List.length_append] at hin hpcs
    have hpcs' : Pcs app (n0 + (s.executeBus.inside ++ s.cuPendings.items.map (·.2)).length + s.controlBus.inside.length)
        s.fu s.decodeBus.inside 0 := by
      have e : n0 + (s.executeBus.inside ++ s.cuPendings.items.map (·.2)).length + s.controlBus.inside.length =
          n0 + (s.executeBus.inside.length + (s.cuPendings.items.map (·.2)).length + s.controlBus.inside.length) := by
        simp only [List.length_append]; omega
      rw [e]; exact hpcs
    have hin' : n0 + (s.executeBus.inside ++ s.cuPendings.items.map (·.2)).length + s.controlBus.inside.length ≤ app.instrs.length := by
      simp only [List.length_append]; omega
    obtain ⟨e1, e2, e3, e4, e5⟩ := decodeLoop_front app hp.small hp.sl s.ctx s.cycles s.fu
      (n0 + (s.executeBus.inside ++ s.cuPendings.items.map (·.2)).length) _ s.du du' s.decodeBus d' s.controlBus c'
      hchain.2 hin' hpcs' hv
    subst e4
    refine ⟨⟨n0, hpc, ⟨?_, ?_, ?_, hf.clean, by (show d'.bufferLength = 2); rw [e5]; exact hf.dlen, hf.duOk, hf.duRet⟩⟩,
      h.back, h.eus, h.wus, h.wbuf, h.wqk, h.wql, h.wbl, h.xql, h.xq, h.eqw, h.pend, h.l1d, h.mode⟩
    · simp only [runners]; rw [chain_append]; exact ⟨hchain.1, e1⟩
    · simp only [runners, List.length_append] at e2 ⊢; omega
    · simp only [runners, List.length_append] at e3 ⊢
      rw [Nat.add_assoc] at e3; exact e3

theorem control_ph (app : App) (s : State) (a : Arch) (h : Ph app s a) : Ph app (controlCycle s) a := by
  obtain ⟨n0, hpc, hf⟩ := h.front
  obtain ⟨pushed, i1, i2, i3, fr⟩ := controlCycle_spec s h.pend
  obtain ⟨b1, b2, b3, b4⟩ := issued_back i1 h.back
  simp only at b1 b2 b3 b4
  have hrun : runners (controlCycle s) = runners s := by
    simp only [runners, b4, List.append_assoc]
    rw [← List.append_assoc pushed, i2]
  refine ⟨⟨n0, hpc, ⟨by rw [hrun]; exact hf.chain, by rw [hrun]; exact hf.inRange, ?_, by rw [fr.fu]; exact hf.clean,
      by rw [fr.decodeBus]; exact hf.dlen, by rw [fr.du]; exact hf.duOk, by rw [fr.du]; exact hf.duRet⟩⟩, ?_,
    by rw [fr.eus]; exact h.eus, by rw [fr.wus]; exact h.wus, by rw [fr.writeBus]; exact h.wbuf,
    by rw [fr.writeBus, fr.wus]; exact h.wqk, by rw [fr.writeBus]; exact h.wql, by rw [fr.writeBus]; exact h.wbl,
    by rw [b3]; exact h.xql, by rw [b2]; exact h.xq, by rw [fr.eus, fr.wus]; exact h.eqw, i3, by rw [fr.mmu]; exact h.l1d,
    by rw [fr.mode]; exact h.mode⟩
  · rw [hrun, fr.fu, fr.decodeBus]; exact hf.pcs
  · rw [fr.writeBus]; exact b1

theorem ph_mid (app : App) (s : State) (a : Arch) (h : Ph app s a) : Mid app s a 0 :=
  ⟨h.front, h.back, h.eus, by rw [h.wbuf]; exact Nat.le_refl _, by rw [h.wbuf]; simp only [List.length_nil, Nat.zero_add]; exact h.xq,
   (by rw [h.wbuf]; intro e he; cases he), h.wbl⟩

/-- **one tick is a number of steps of the unpipelined machine** (straight-line register-only programs, any number of
execute and write units) -/
theorem cycleM_sim (app : App) (hp : Prog app) (a0 : Arch) (s s' : State) (a : Arch) (k : Nat) (ev : Event)
    (hk : Proofs.Mvp4.seqIter app k a0 = some a) (hr : Rel app s a) (h : cycleM app s = .ok (s', ev)) :
    TickPost app a0 s' ev := by
  rw [cycleM_normal_eq app s hr.mode] at h
  simp only [bind, Except.bind] at h
  have ph1 := connected_ph app s a hr
  split at h
  · cases h
  · rename_i s2 h2
    have ph2 := fetch_ph app hp _ s2 a ph1 h2
    split at h
    · cases h
    · rename_i s3 h3
      have ph3 := decode_ph app hp s2 s3 a ph2 h3
      have ph4 := control_ph app s3 a ph3
      have hmid := ph_mid app _ a ph4
      split at h
      · cases h
      · rename_i v hv
        obtain ⟨s5, acc⟩ := v
        simp only at h
        rcases eusCycle_sim app hp a0 _ 0 _ s5 {} acc k a (by omega) hmid hk rfl hv with ⟨rfl, k', a', hk', hm5, keep⟩ | ⟨herr, k', a', hk', c, hc⟩
        · -- no error: the write units, then the end of the tick
          simp only [afterEus, Bool.false_eq_true, if_false, bind, Except.bind] at h
          have hwus5 : ∀ wu ∈ s5.wus, wu.co = .none := by rw [keep.wus]; exact ph4.wus
          split at h
          · cases h
          · rename_i s6 h6
            obtain ⟨b6, wk, q6⟩ := wusCycle_sim s5 s6 a' hwus5 hm5.back h6
            obtain ⟨n0, hpc, hf5⟩ := hm5.front
            have hf6 : Front app s6 n0 := hf5.of_eq wk.executeBus wk.cuPendings wk.controlBus wk.fu wk.decodeBus wk.du
            have hq6 : s6.writeBus.queue = [] := by
              have h1 : s5.writeBus.queue.length ≤ s5.wus.length := by rw [keep.wq, keep.wus]; exact ph4.wqk
              exact List.length_eq_zero_iff.mp (by omega)
            have hl1d : s6.mmu.l1d.lines = [] := by rw [wk.mmu, keep.mmu]; exact ph4.l1d
            have hcyc : s6.cycles = s5.cycles := wk.cycles
            split at h
            · -- everything is empty: the run has fallen off the end
              rename_i hemp
              simp only [isEmpty, Bool.and_eq_true, decide_eq_true_eq] at hemp
              obtain ⟨⟨⟨⟨⟨⟨⟨hcomp, hcu⟩, _⟩, hd⟩, hcb⟩, hxb⟩, hwb⟩, _⟩ := hemp
              unfold finish at h
              rw [flush_empty s6.mmu s6.ctx.Memory hl1d] at h
              simp only [bind, Except.bind, pure, Except.pure, Except.ok.injEq, Prod.mk.injEq] at h
              obtain ⟨rfl, rfl⟩ := h
              have hrn : runners s6 = [] := by
                have : s6.cuPendings.items = [] := by
                  simp only [Queue.len] at hcu
                  exact List.length_eq_zero_iff.mp (by omega)
                simp only [runners, inside_nil_of_isEmpty _ hxb, inside_nil_of_isEmpty _ hcb, this, List.map_nil, List.append_nil]
              have hdn := inside_nil_of_isEmpty _ hd
              obtain ⟨h0, p1, p2, p3, p4, p5, p6, p7⟩ := hf6.pcs
              rw [hdn] at p2 p7
              rw [hrn] at p3
              simp only [List.length_nil, Nat.add_zero] at p2 p3 p7
              have hin := hf6.inRange
              rw [hrn] at hin
              simp only [List.length_nil, Nat.add_zero] at hin
              have hge : app.instrs.length ≤ n0 := by
                have := p7 hcomp
                rcases p3 with p3 | p3
                · omega
                · exact p3.2
              have hwi := inside_nil_of_isEmpty _ hwb
              have hregs := b6.regs
              rw [hwi] at hregs
              exact ⟨k', a', hk', stepArch_offEnd app a' n0 hpc hp.small hge hin, hregs.symm, b6.mem.symm⟩
            · simp only [pure, Except.pure, Except.ok.injEq, Prod.mk.injEq] at h
              obtain ⟨rfl, rfl⟩ := h
              refine ⟨k', a', hk', ⟨⟨n0, hpc, hf6⟩, b6, by rw [wk.eus]; exact hm5.eus, by rw [wk.wus]; exact hwus5, hq6, ?_, ?_, ?_, ?_, ?_, ?_, ?_, ?_, ?_, hl1d, ?_⟩⟩
              · rw [wk.wbuf]; have := hm5.room; omega
              · rw [wk.wbuf, wk.wus, keep.wus]; have h1 := hm5.wbi; have h2 := ph4.eqw; omega
              · rw [wk.wbuf, hcyc]; exact hm5.stamps
              · rw [wk.wql, keep.wql]; exact ph4.wql
              · rw [wk.wbl]; exact hm5.wbl
              · rw [wk.executeBus, keep.xql]; exact ph4.xql
              · rw [wk.executeBus]; exact Nat.le_trans keep.xq ph4.xq
              · rw [wk.eus, wk.wus, keep.eul, keep.wus]; exact ph4.eqw
              · rw [wk.cuPendings, keep.pend]; exact ph4.pend
              · rw [wk.mode, keep.mode]; exact ph4.mode
        · simp only [afterEus, herr, if_true, pure, Except.pure, Except.ok.injEq, Prod.mk.injEq] at h
          obtain ⟨rfl, rfl⟩ := h
          exact ⟨k', a', hk', c, hc⟩

end Proofs.Mvp60Sl

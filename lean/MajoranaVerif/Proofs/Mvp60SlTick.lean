/-
  Proofs/Mvp60SlTick.lean — package R60: one tick of the MVP-6.0 model on a straight-line register-only program is a
  number of steps of the unpipelined machine (`tick_sim`).
-/
import MajoranaVerif.Proofs.Mvp60SlBack
import MajoranaVerif.Proofs.Mvp60Flush
import MajoranaVerif.Proofs.Mvp60SlLive
open GoInt

set_option linter.unusedSimpArgs false
set_option linter.unusedVariables false

namespace Proofs.Mvp60Sl
open Model Model.Mvp60 Proofs.Mvp60Flush
open Model.Seq (App Halt Arch stepArch)

/-- what is assumed of the program: small, fresh forward slots, straight-line -/
structure Prog (app : App) : Prop where
  small : app.instrs.length < 250
  nofwd : ∀ g ∈ app.instrs, fwdOf g = {}
  sl : StraightLine app = true

/-- the same with `ret` allowed (package R60b) -/
structure ProgR (app : App) : Prop where
  small : app.instrs.length < 250
  nofwd : ∀ g ∈ app.instrs, fwdOf g = {}
  sl : StraightLineRet app = true

theorem Prog.toR {app : App} (h : Prog app) : ProgR app := ⟨h.small, h.nofwd, slr_of_sl app h.sl⟩

/-- the class the proofs work with (package R60b, step 2): conditional branches allowed -/
structure ProgG (app : App) : Prop where
  small : app.instrs.length < 250
  nofwd : ∀ g ∈ app.instrs, fwdOf g = {}
  cls : ProvedClass app = true

theorem ProgR.toG {app : App} (h : ProgR app) : ProgG app := ⟨h.small, h.nofwd, proved_of_slr app h.sl⟩

/-- the class with jumps (package R60c) -/
structure ProgJ (app : App) : Prop where
  small : app.instrs.length < 250
  nofwd : ∀ g ∈ app.instrs, fwdOf g = {}
  cls : JClass app = true

theorem ProgG.toJ {app : App} (h : ProgG app) : ProgJ app := ⟨h.small, h.nofwd, jclass_of_proved app h.cls⟩

/-- the program has no branch and no jump (then nothing is ever flushed) -/
def NoCond (app : App) : Prop := app.instrs.all (fun i => !i.instructionType.IsBranch) = true

theorem noJmp_of_noCond {app : App} (h : NoCond app) : NoJmp app := by
  simp only [NoCond, List.all_eq_true, Bool.not_eq_true'] at h
  simp only [NoJmp, List.all_eq_true, Bool.not_eq_true']
  intro i hi
  have := h i hi
  simp only [Gen.InstructionType.IsBranch, Bool.or_eq_false_iff] at this
  exact this.1

/-- the results on the write bus belong to instructions before the architectural pc -/
def Wlt (s : State) (a : Arch) : Prop := ∀ ec ∈ s.writeBus.inside, ec.seq.toInt < a.pc.toInt

/-- a quiet tick: nothing can be issued or executed in it, and nothing has been -/
def Quiet (s : State) : Prop :=
  s.executeBus.inside = [] ∧ s.cuPendings.items = [] ∧ s.controlBus.queue = [] ∧ s.writeBus.buffer = []

/-- sequence ids: with `ctx.sequenceID = 0` (what `NewContext` installs; MVP-6.0 never changes it) the sequence id of an
instruction is its pc, and the results on the write bus belong to instructions before the architectural pc -/
structure Seqs (app : App) (s : State) (a : Arch) : Prop where
  sid : s.ctx.sequenceID = 0 ∨ NoCond app
  rseq : ¬ NoCond app → s.ctx.sequenceID = 0 → ∀ r ∈ runners s, r.seq = r.pc

theorem Seqs.mono {app : App} {s s' : State} {a a' : Arch} (h : Seqs app s a) (hsid : s'.ctx.sequenceID = s.ctx.sequenceID)
    (hr : ∀ r ∈ runners s', r ∈ runners s ∨ (s.ctx.sequenceID = 0 → r.seq = r.pc)) : Seqs app s' a' := by
  refine ⟨by rw [hsid]; exact h.sid, ?_⟩
  intro hnc h0 r hmem
  rw [hsid] at h0
  rcases hr r hmem with h1 | h1
  · exact h.rseq hnc h0 r h1
  · exact h1 h0

theorem Wlt.mono {s s' : State} {a : Arch} (h : Wlt s a) (hw : ∀ ec ∈ s'.writeBus.inside, ec ∈ s.writeBus.inside) : Wlt s' a :=
  fun ec hec => h ec (hw ec hec)

/-- the runner is a `ret` -/
def isRet (x : Runner) : Prop := (x.instr.instructionType == Gen.InstructionType.Ret) = true

/-- the runner is a branch -/
def isBr (x : Runner) : Prop := x.instr.instructionType.IsBranch = true

/-- a branch in the list is its first element -/
def BrHead (l : List Runner) : Prop := ∀ pre b post, l = pre ++ b :: post → isBr b → pre = []

/-- two or more execute units, between two ticks: the execute-bus queue has been drained; the buffer holds what the
control unit issued in the last cycle (at most two runners, due next cycle, a branch only first) -/
structure WideB (s : State) : Prop where
  xq : s.executeBus.queue = []
  due : ∀ e ∈ s.executeBus.buffer, e.1 ≤ s.cycles + 1
  len : s.executeBus.buffer.length ≤ 2
  br : BrHead (s.executeBus.buffer.map (·.2))
  bl : s.executeBus.bufferLength = 2

/-- … after `Connect`: everything has moved to the queue -/
structure WideP (s : State) : Prop where
  xb : s.executeBus.buffer = []
  br : BrHead s.executeBus.queue
  bl : s.executeBus.bufferLength = 2

/-- … while the execute units run (`i` units done): a branch in the queue is its head and only the first unit sees it; the
queue empties as the units take their runners -/
structure WideM (s : State) (i : Nat) : Prop where
  brq : ∀ x ∈ s.executeBus.queue, isBr x → i = 0 ∧ ∃ q', s.executeBus.queue = x :: q' ∧ ∀ y ∈ q', ¬ isBr y
  drain : s.executeBus.queue = [] ∨ s.executeBus.queue.length + i ≤ 2
  due : ∀ e ∈ s.executeBus.buffer, e.1 ≤ s.cycles + 1
  len : s.executeBus.buffer.length ≤ 2
  br : BrHead (s.executeBus.buffer.map (·.2))
  bl : s.executeBus.bufferLength = 2

theorem brHead_cons {x : Runner} {q : List Runner} (h : BrHead (x :: q)) : ∀ y ∈ q, ¬ isBr y := by
  intro y hy hb
  obtain ⟨p1, p2, rfl⟩ := List.append_of_mem hy
  have := h (x :: p1) y p2 (by simp) hb
  cases this

/-- the state between the units of one tick: front, back, and the occupancy facts the execute units need -/
structure Mid (app : App) (s : State) (a : Arch) (i : Nat) : Prop where
  front : ∃ n0, a.pc = pcOf n0 ∧ FrontJ app s n0
  back : Back s.ctx s.writeBus.inside s.executeBus.inside a
  eus : ∀ eu ∈ s.eus, eu.co = .none ∧ eu.memory = []
  wbi : s.writeBus.buffer.length ≤ i
  room : s.writeBus.buffer.length + s.executeBus.queue.length ≤ 2
  stamps : ∀ e ∈ s.writeBus.buffer, e.1 ≤ s.cycles + 1
  wbl : s.writeBus.bufferLength = 2
  /-- a `ret` that can be taken by an execute unit is alone in the queue, and only the first unit finds it -/
  retQ : 1 ≤ s.eus.length → ∀ x ∈ s.executeBus.queue, isRet x → s.executeBus.queue = [x] ∧ i = 0
  /-- a `ret` issued in this cycle is alone on the execute bus -/
  retBuf : ∀ e ∈ s.executeBus.buffer, isRet e.2 → s.executeBus.queue = [] ∧ s.executeBus.buffer = [(s.cycles + 1, e.2)]
  seqs : Seqs app s a
  /-- the results on the write bus are older than the architectural pc — or this is a quiet tick, or a correctly predicted
  jump has just executed and nothing is left to execute (then the results of that tick may carry greater sequence ids:
  they are gone before the next instruction executes) -/
  stale : ¬ NoCond app → s.ctx.sequenceID = 0 → Wlt s a ∨ Quiet s ∨ runners s = []
  /-- at most one execute unit (no two instructions execute in one tick), or a program that never flushes, or the
  occupancy facts of the wide machine -/
  k1 : s.eus.length ≤ 1 ∨ NoCond app ∨ WideM s i

/-- what the execute units leave alone -/
structure EuKeep (s s' : State) : Prop where
  wq : s'.writeBus.queue = s.writeBus.queue
  wus : s'.wus = s.wus
  eul : s'.eus.length = s.eus.length
  cyc : s'.cycles = s.cycles
  pend : s'.cuPendings = s.cuPendings
  mmu : s'.mmu = s.mmu
  mode : s'.mode = s.mode
  wql : s'.writeBus.queueLength = s.writeBus.queueLength
  xql : s'.executeBus.queueLength = s.executeBus.queueLength
  xq : s'.executeBus.queue.length ≤ s.executeBus.queue.length
  ctx : s'.ctx = s.ctx
  decodeBus : s'.decodeBus = s.decodeBus
  wbl : s'.writeBus.bufferLength = s.writeBus.bufferLength
  xbl : s'.executeBus.bufferLength = s.executeBus.bufferLength
  controlBus : s'.controlBus = s.controlBus

theorem EuKeep.refl (s : State) : EuKeep s s := ⟨rfl, rfl, rfl, rfl, rfl, rfl, rfl, rfl, rfl, Nat.le_refl _, rfl, rfl, rfl, rfl, rfl⟩
theorem EuKeep.trans {a b c : State} (h1 : EuKeep a b) (h2 : EuKeep b c) : EuKeep a c :=
  ⟨h2.wq.trans h1.wq, h2.wus.trans h1.wus, h2.eul.trans h1.eul, h2.cyc.trans h1.cyc, h2.pend.trans h1.pend,
   h2.mmu.trans h1.mmu, h2.mode.trans h1.mode, h2.wql.trans h1.wql, h2.xql.trans h1.xql, Nat.le_trans h2.xq h1.xq,
   h2.ctx.trans h1.ctx, h2.decodeBus.trans h1.decodeBus, h2.wbl.trans h1.wbl, h2.xbl.trans h1.xbl,
   h2.controlBus.trans h1.controlBus⟩

theorem runners_cons (s : State) (x : Runner) (q : List Runner) (h : s.executeBus.queue = x :: q) :
    runners s = x :: runners { s with executeBus := { s.executeBus with queue := q } } := by
  simp only [runners, BufferedBus.inside, h, List.cons_append]

/-- an execute unit has executed the `ret` the unpipelined machine halts with -/
structure Retired (app : App) (s s' : State) (a : Arch) : Prop where
  halt : ∃ c, stepArch Proofs.Mvp4.dc app a = .halt .ret c
  back : Back s'.ctx s'.writeBus.inside s'.executeBus.inside a
  xq : s'.executeBus.queue = []
  eus : ∀ eu ∈ s'.eus, eu.co = .none ∧ eu.memory = []
  keep : EuKeep s s'
  stamps : ∀ e ∈ s'.writeBus.buffer, e.1 ≤ s'.cycles + 1

/-- an execute unit has executed a taken conditional branch whose target is not the next instruction: `a'` is the
architectural state behind the branch.  The results on the write bus that the drain will keep (`kept from_`) make up the
architectural register file; what sits in the write-bus queue is older than the branch; the runners still on the execute bus
are the instructions behind the branch (wrong path).  Execute units that run after the flushing one keep all this. -/
structure FlushNow (app : App) (s s' : State) (a' : Arch) (from_ : Word) : Prop where
  regsT : applyW (s'.writeBus.inside.filter (kept from_)) s'.ctx.Registers = a'.ctx.Registers
  nomem : ∀ ec ∈ s'.writeBus.inside, ec.execution.MemoryChange = false
  qKept : ∀ ec ∈ s'.writeBus.queue, kept from_ ec = true
  mem : a'.ctx.Memory = s'.ctx.Memory
  ratS : s'.ctx.rat = false
  txS : s'.ctx.Transaction.entries = []
  ratA : a'.ctx.rat = false
  txA : a'.ctx.Transaction.entries = []
  npc : ∃ n', a'.pc = pcOf n' ∧ n' ≤ app.instrs.length
  eus : ∀ eu ∈ s'.eus, eu.co = .none ∧ eu.memory = []
  keep : EuKeep s s'
  cond : ¬ NoCond app
  k : 1 ≤ s.eus.length
  room : s'.writeBus.buffer.length + s'.executeBus.queue.length ≤ 2
  wbl : s'.writeBus.bufferLength = 2
  chain : ∃ nb m, from_ = pcOf nb ∧ nb < m ∧ Chain app m (runners s')
  rseq : ∀ r ∈ runners s', r.seq = r.pc
  noRet : ∀ y ∈ s'.executeBus.queue, ¬ isRet y
  sid0 : s'.ctx.sequenceID = 0
  plain : NoJmp app → s'.fu.toCleanPending = false
  stamps : ∀ e ∈ s'.writeBus.buffer, e.1 ≤ s'.cycles + 1

theorem ite_pair_snd {α β : Type} (c : Prop) [Decidable c] (a b : α) (f : β) : (if c then (a, f) else (b, f)).2 = f := by
  split <;> rfl

theorem ite_pair_fst {α β : Type} (c : Prop) [Decidable c] (a b : α) (f : β) :
    (if c then (a, f) else (b, f)).1 = if c then a else b := by
  split <;> rfl

/-- the state an execute unit leaves behind when it has executed `x` with result `e` -/
def afterExec (s : State) (i : Nat) (x : Runner) (q : List Runner) (bu : BranchUnit) (e : Gen.Execution)
    (fu : FetchUnit) (du : DecodeUnit) : State :=
  { s with bu := bu, fu := fu, du := du, executeBus := { s.executeBus with queue := q }, eus := s.eus.set i { co := .none, memory := [], runner := some x }, writeBus := s.writeBus.add (ecOf x e) s.cycles, executed := s.executed + 1 }

theorem pcOf_lt (j k : Nat) (hk : k < 2 ^ 20) (h : j < k) : (pcOf j).toInt < (pcOf k).toInt := by
  rw [pcOf_toInt j (by omega), pcOf_toInt k hk]; omega

theorem buAssert_jump (bu : BranchUnit) (fu : FetchUnit) (x : Runner) (hj : x.instr.instructionType.IsUnconditionalBranch = true) :
    ∃ bu1 fu1, buAssert bu fu x = (bu1, fu1) ∧ bu1.toCheck = true ∧ ∀ T, fu1.reset T true = fu.reset T true := by
  unfold buAssert
  simp only [hj, if_true]
  split
  · exact ⟨_, _, rfl, rfl, fun _ => rfl⟩
  · exact ⟨_, _, rfl, rfl, fun _ => rfl⟩

theorem runners_nil {s : State} (h : runners s = []) :
    s.executeBus.queue = [] ∧ s.executeBus.buffer = [] ∧ s.cuPendings.items = [] ∧ s.controlBus.inside = [] := by
  simp only [runners, BufferedBus.inside, List.append_eq_nil_iff, List.map_eq_nil_iff] at h
  exact ⟨h.1.1.1, h.1.1.2, h.1.2, by simp only [BufferedBus.inside, h.2.1, h.2.2, List.map_nil, List.append_nil]⟩

/-- one execute unit: nothing to do, or the next step of the unpipelined machine, or its defined error, or its `ret`,
or a taken branch or jump that flushes -/
theorem euCycle_sim (app : App) (hp : ProgJ app) (s s' : State) (a : Arch) (i : Nat) (out : EuOut) (hT : TgtOk app a)
    (hm : Mid app s a i) (hi : i < s.eus.length) (h : euCycle app s i = .ok (s', out)) :
    (out = .none ∧ ∃ a', (a' = a ∨ ∃ c, stepArch Proofs.Mvp4.dc app a = .next a' c) ∧ Mid app s' a' (i + 1) ∧ EuKeep s s' ∧
      (Live s → Live s') ∧ (s.executeBus.queue ≠ [] → ∃ c, stepArch Proofs.Mvp4.dc app a = .next a' c) ∧
      (s.executeBus.queue = [] → s' = s ∧ a' = a)) ∨
    (out = .err ∧ ∃ c, stepArch Proofs.Mvp4.dc app a = .halt .err c) ∨
    (out = .ret ∧ Retired app s s' a) ∨
    (∃ a' from_, out = .flush from_ a'.pc ∧ (∃ c, stepArch Proofs.Mvp4.dc app a = .next a' c) ∧ FlushNow app s s' a' from_ ∧
      (WideM s i → ∀ y ∈ s'.executeBus.queue, ¬ isBr y)) := by
  obtain ⟨eu, hget⟩ := get_lt s.eus i hi
  obtain ⟨hco, hmem⟩ := hm.eus eu (List.mem_of_getElem? hget)
  have hK : 1 ≤ s.eus.length := by omega
  unfold euCycle at h
  simp only [hget, hco] at h
  cases hq : s.executeBus.queue with
  | nil =>
    simp only [get_none _ hq, pure, Except.pure, Except.ok.injEq, Prod.mk.injEq] at h
    obtain ⟨rfl, rfl⟩ := h
    left
    refine ⟨rfl, a, Or.inl rfl, ?_, EuKeep.refl _, id, (fun h => absurd rfl h), fun _ => ⟨rfl, rfl⟩⟩
    refine ⟨hm.front, hm.back, hm.eus, Nat.le_succ_of_le hm.wbi, hm.room, hm.stamps, hm.wbl, ?_, hm.retBuf, hm.seqs, hm.stale, ?_⟩
    · intro _ x hx; simp only [hq] at hx; cases hx
    · rcases hm.k1 with h1 | h1 | h1
      · exact Or.inl h1
      · exact Or.inr (Or.inl h1)
      · exact Or.inr (Or.inr ⟨(fun x hx => by simp only [hq] at hx; cases hx), Or.inl hq, h1.due, h1.len, h1.br, h1.bl⟩)
  | cons x q =>
    simp only [get_some _ x q hq] at h
    obtain ⟨n0, hpc, hf⟩ := hm.front
    have hrun := runners_cons s x q hq
    have hxin : s.executeBus.inside = x :: ({ s.executeBus with queue := q } : BufferedBus Runner).inside := by
      simp only [BufferedBus.inside, hq, List.cons_append]
    have hchain := hf.chain
    rw [hrun] at hchain
    obtain ⟨hxok, hchain'⟩ := hchain
    have hxmem : x.instr ∈ app.instrs := List.mem_of_getElem? hxok.2
    have hgx := g_of_get app hp.cls n0 x.instr hxok.2
    have hnfx := hp.nofwd x.instr hxmem
    have hn0 : n0 < app.instrs.length := by
      rcases Nat.lt_or_ge n0 app.instrs.length with h' | h'
      · exact h'
      · have := hxok.2; rw [List.getElem?_eq_none h'] at this; cases this
    have hback := hm.back
    rw [hxin] at hback
    obtain ⟨hexe, hretc, herr⟩ := hback.executeG hp.small hpc hxok hgx hnfx hT
    -- no `ret` is left in the queue behind `x`
    have hnoret : ∀ y ∈ q, ¬ isRet y := by
      intro y hy hry
      have := (hm.retQ hK y (by rw [hq]; exact List.mem_cons_of_mem _ hy) hry).1
      rw [hq] at this
      simp only [List.cons.injEq] at this
      obtain ⟨_, hq'⟩ := this
      subst hq'; cases hy
    have hnobuf : ∀ e ∈ s.executeBus.buffer, ¬ isRet e.2 := by
      intro e he hre
      have := (hm.retBuf e he hre).1
      rw [hq] at this; cases this
    -- the unit prepares and runs at once
    have hcan : s.writeBus.canAdd = true := by
      have := hm.room; rw [hq] at this; simp only [List.length_cons] at this
      simp only [BufferedBus.canAdd, hm.wbl, bne_iff_ne, ne_eq]; omega
    have heus' : ∀ eu' ∈ s.eus.set i { co := .none, memory := [], runner := some x }, eu'.co = .none ∧ eu'.memory = [] := by
      intro eu' hmem'
      rcases List.mem_or_eq_of_mem_set hmem' with h1 | h1
      · exact hm.eus eu' h1
      · subst h1; exact ⟨rfl, rfl⟩
    have hrunS : runners { s with executeBus := { s.executeBus with queue := q } } ⊆ runners s := by
      rw [hrun]; exact fun r hr => List.mem_cons_of_mem _ hr
    have hsm := hp.small
    -- something executes: the results on the write bus are older than the architectural pc
    have hwlt : ¬ NoCond app → s.ctx.sequenceID = 0 → Wlt s a := by
      intro hnc h0
      rcases hm.stale hnc h0 with h1 | h1 | h1
      · exact h1
      · have := h1.1; rw [hxin] at this; cases this
      · rw [hrun] at h1; cases h1
    -- `Mid` after a step that does not flush, given the front and the state of the write bus
    have hmidG : ∀ (e : Gen.Execution) (a' : Arch) (n' : Nat) (bu : BranchUnit) (fu : FetchUnit) (du : DecodeUnit), a'.pc = pcOf n' →
        Back s.ctx (s.writeBus.inside ++ [ecOf x e]) ({ s.executeBus with queue := q } : BufferedBus Runner).inside a' →
        FrontJ app (afterExec s i x q bu e fu du) n' →
        (¬ NoCond app → s.ctx.sequenceID = 0 →
          Wlt (afterExec s i x q bu e fu du) a' ∨ runners (afterExec s i x q bu e fu du) = []) →
        Mid app (afterExec s i x q bu e fu du) a' (i + 1) := by
      intro e a' n' bu fu du hpc' hback' hfr hst
      refine ⟨⟨n', hpc', hfr⟩, ?_, heus', ?_, ?_, ?_, hm.wbl, ?_, ?_, ?_, ?_, ?_⟩
      rotate_right
      · rcases hm.k1 with h1 | h1 | h1
        · exact Or.inl (by simp only [afterExec, List.length_set]; exact h1)
        · exact Or.inr (Or.inl h1)
        · refine Or.inr (Or.inr ⟨?_, ?_, h1.due, h1.len, h1.br, h1.bl⟩)
          · intro y hy hby
            exfalso
            obtain ⟨_, q', hq', hnb⟩ := h1.brq y (by rw [hq]; exact List.mem_cons_of_mem _ hy) hby
            rw [hq] at hq'
            simp only [List.cons.injEq] at hq'
            obtain ⟨_, rfl⟩ := hq'
            exact hnb y hy hby
          · right
            show q.length + (i + 1) ≤ 2
            rcases h1.drain with hd | hd
            · rw [hq] at hd; cases hd
            · rw [hq] at hd; simp only [List.length_cons] at hd; omega
      · simp only [afterExec, inside_add]; exact hback'
      · simp only [afterExec, BufferedBus.add, List.length_append, List.length_cons, List.length_nil]; have := hm.wbi; omega
      · simp only [afterExec, BufferedBus.add, List.length_append, List.length_cons, List.length_nil]
        have := hm.room; rw [hq] at this; simp only [List.length_cons] at this; omega
      · intro en hen
        simp only [afterExec, BufferedBus.add, List.mem_append, List.mem_singleton] at hen
        rcases hen with hen | hen
        · exact hm.stamps en hen
        · subst hen; exact Int.le_refl _
      · intro _ y hy hry; exact absurd hry (hnoret y hy)
      · intro en hen hre; exact absurd hre (hnobuf en hen)
      · exact ⟨hm.seqs.sid, fun hnc h0 r hr => hm.seqs.rseq hnc h0 r (hrunS hr)⟩
      · intro hnc h0
        rcases hst hnc h0 with h1 | h1
        · exact Or.inl h1
        · exact Or.inr (Or.inr h1)
    -- the write bus after a step to a greater pc
    have hwltN : ∀ (e : Gen.Execution) (a' : Arch) (bu : BranchUnit) (fu : FetchUnit) (du : DecodeUnit), a'.pc = pcOf (n0 + 1) →
        ¬ NoCond app → s.ctx.sequenceID = 0 → Wlt (afterExec s i x q bu e fu du) a' := by
      intro e a' bu fu du hpc' hnc h0 ec hec
      simp only [afterExec, inside_add] at hec
      rw [hpc']
      rcases List.mem_append.mp hec with hec | hec
      · have := hwlt hnc h0 ec hec
        rw [hpc] at this
        have := pcOf_lt n0 (n0 + 1) (by omega) (by omega)
        omega
      · simp only [List.mem_singleton] at hec; subst hec
        have h1 := hm.seqs.rseq hnc h0 x (by rw [hrun]; exact List.mem_cons_self)
        simp only [ecOf, h1, hxok.1]
        exact pcOf_lt n0 (n0 + 1) (by omega) (by omega)
    have hkeep : ∀ (e : Gen.Execution) (bu : BranchUnit) (fu : FetchUnit) (du : DecodeUnit), EuKeep s (afterExec s i x q bu e fu du) :=
      fun e bu fu du =>
      ⟨rfl, rfl, by simp only [afterExec, List.length_set], rfl, rfl, rfl, rfl, rfl, rfl,
       by simp only [afterExec, hq, List.length_cons]; omega, rfl, rfl, rfl, rfl, rfl⟩
    -- what makes the pipeline move is kept by a step that is not a `ret`
    have hlive : ∀ (e : Gen.Execution) (bu : BranchUnit) (fu : FetchUnit) (du : DecodeUnit),
        x.instr.run s.ctx app.labels x.pc [] 0#32 = .ok e → e.Return = false → du.ret = s.du.ret →
        (Live s → FuOk fu) → Live s → Live (afterExec s i x q bu e fu du) := by
      intro e bu fu du hr hret hdu hfu hl
      refine ⟨fun en hen => hl.xdue en hen, hl.cdue, hl.ddue, hl.cql, hl.dql, ?_, ?_, hfu hl, hl.xbl, hl.pcap⟩
      · have := hl.backL
        rw [hxin] at this
        have h2 := this.execute e
        simp only [afterExec, inside_add]
        exact h2
      · intro hdr
        have hdr' : s.du.ret = true := by rw [← hdu]; exact hdr
        obtain ⟨r, hrm, hrr⟩ := hl.retIn hdr'
        rw [hrun] at hrm
        rcases List.mem_cons.mp hrm with rfl | hrm
        · have := ret_run app.labels r.instr hrr s.ctx r.pc [] 0#32 e hr
          rw [hret] at this; cases this
        · exact ⟨r, hrm, hrr⟩
    -- a taken branch or jump that flushes
    have hflush : ∀ (e : Gen.Execution) (a' : Arch) (n' : Nat) (bu : BranchUnit) (fu : FetchUnit) (du : DecodeUnit),
        a'.pc = pcOf n' → n' ≤ app.instrs.length →
        Back s.ctx (s.writeBus.inside ++ [ecOf x e]) ({ s.executeBus with queue := q } : BufferedBus Runner).inside a' →
        x.instr.instructionType.IsBranch = true → (NoJmp app → fu.toCleanPending = false) →
        FlushNow app s (afterExec s i x q bu e fu du) a' x.pc ∧
          (WideM s i → ∀ y ∈ (afterExec s i x q bu e fu du).executeBus.queue, ¬ isBr y) := by
      intro e a' n' bu fu du hpc' hn'le hbk hbr hpl
      have hncond : ¬ NoCond app := by
        intro hnc
        simp only [NoCond, List.all_eq_true, Bool.not_eq_true'] at hnc
        have := hnc x.instr hxmem
        rw [hbr] at this; cases this
      have h0 : s.ctx.sequenceID = 0 := by
        rcases hm.seqs.sid with h0 | h0
        · exact h0
        · exact absurd h0 hncond
      have hallKept : ∀ ec ∈ s.writeBus.inside ++ [ecOf x e], kept x.pc ec = true := by
        intro ec hec
        simp only [kept, Bool.not_eq_true', Bool.and_eq_false_iff]
        right
        simp only [BitVec.slt, decide_eq_false_iff_not, Int.not_lt]
        rcases List.mem_append.mp hec with hec | hec
        · have := hwlt hncond h0 ec hec
          rw [hpc, ← hxok.1] at this
          omega
        · simp only [List.mem_singleton] at hec; subst hec
          have h1 := hm.seqs.rseq hncond h0 x (by rw [hrun]; exact List.mem_cons_self)
          simp only [ecOf, h1]; exact Int.le_refl _
      refine ⟨?_, ?_⟩
      · refine ⟨?_, ?_, ?_, hbk.mem, hbk.ratS, hbk.txS, hbk.ratA, hbk.txA, ⟨n', hpc', hn'le⟩, heus', hkeep _ _ _ _, hncond, hK, ?_, hm.wbl,
          ⟨n0, n0 + 1, hxok.1, Nat.lt_succ_self _, hchain'⟩, fun r hr => hm.seqs.rseq hncond h0 r (hrunS hr),
          fun y hy => hnoret y hy, h0, hpl, ?_⟩
        · show applyW ((s.writeBus.add (ecOf x e) s.cycles).inside.filter (kept x.pc)) s.ctx.Registers = a'.ctx.Registers
          rw [inside_add, List.filter_eq_self.mpr hallKept]; exact hbk.regs.symm
        · show ∀ ec ∈ (s.writeBus.add (ecOf x e) s.cycles).inside, ec.execution.MemoryChange = false
          rw [inside_add]; exact hbk.nomem
        · intro ec hec
          exact hallKept ec (List.mem_append_left _ (by simp only [BufferedBus.inside]; exact List.mem_append_left _ hec))
        · show (s.writeBus.add (ecOf x e) s.cycles).buffer.length + q.length ≤ 2
          simp only [BufferedBus.add, List.length_append, List.length_cons, List.length_nil]
          have := hm.room; rw [hq] at this; simp only [List.length_cons] at this; omega
        · intro en hen
          simp only [afterExec, BufferedBus.add, List.mem_append, List.mem_singleton] at hen
          rcases hen with hen | hen
          · exact hm.stamps en hen
          · subst hen; exact Int.le_refl _
      · intro hw y hy hby
        obtain ⟨_, q', hq', hnb⟩ := hw.brq x (by rw [hq]; exact List.mem_cons_self) hbr
        rw [hq] at hq'
        simp only [List.cons.injEq, true_and] at hq'
        subst hq'
        exact hnb y hy hby
    cases hub : x.instr.instructionType.IsUnconditionalBranch with
    | false =>
      -- the front after a step of an instruction that is not a jump
      have hfrontN : ∀ (e : Gen.Execution) (bu : BranchUnit), FrontJ app (afterExec s i x q bu e s.fu s.du) (n0 + 1) := by
        intro e bu
        have hlen : (runners s).length = (runners { s with executeBus := { s.executeBus with queue := q } }).length + 1 := by
          rw [hrun]; simp only [List.length_cons]
        refine ⟨hchain', ?_, hf.dlen, ?_, ?_, hf.plain⟩
        · have := hf.inRange; rw [hlen] at this
          simp only [afterExec, runners] at this ⊢; omega
        · intro hpd
          obtain ⟨h1, h2⟩ := hf.opn hpd
          refine ⟨?_, fun r hr => h2 r (hrunS hr)⟩
          rw [hlen] at h1
          have e1 : n0 + 1 + (runners { s with executeBus := { s.executeBus with queue := q } }).length =
              n0 + ((runners { s with executeBus := { s.executeBus with queue := q } }).length + 1) := by omega
          simp only [afterExec, runners] at h1 e1 ⊢
          rw [e1]; exact h1
        · intro hpd
          obtain ⟨pre, j, hpj, hjj, hpre⟩ := hf.clo hpd
          rw [hrun] at hpj
          cases pre with
          | nil =>
            simp only [List.nil_append, List.cons.injEq] at hpj
            obtain ⟨rfl, _⟩ := hpj
            simp only [isJ, hub] at hjj; cases hjj
          | cons p ps =>
            simp only [List.cons_append, List.cons.injEq] at hpj
            exact ⟨ps, j, hpj.2, hjj, fun r hr => hpre r (List.mem_cons_of_mem _ hr)⟩
      have hmid : ∀ (e : Gen.Execution) (a' : Arch) (bu : BranchUnit), a'.pc = pcOf (n0 + 1) →
          Back s.ctx (s.writeBus.inside ++ [ecOf x e]) ({ s.executeBus with queue := q } : BufferedBus Runner).inside a' →
          Mid app (afterExec s i x q bu e s.fu s.du) a' (i + 1) := fun e a' bu hpc' hback' =>
        hmidG e a' (n0 + 1) bu s.fu s.du hpc' hback' (hfrontN e bu) (fun hnc h0 => Or.inl (hwltN e a' bu s.fu s.du hpc' hnc h0))
      unfold coPrepareRun at h
      simp only [hcan, Bool.not_true, Bool.false_eq_true, if_false, buAssert, hub, g_memoryRead app x.instr hgx,
        List.isEmpty_nil, Bool.not_true] at h
      unfold coRun at h
      simp only [hmem, setEu, ite_pair_snd, ite_pair_fst] at h
      cases hr : x.instr.run s.ctx app.labels x.pc [] 0#32 with
      | error f =>
        cases f with
        | panic w => simp only [hr] at h; cases h
        | err msg =>
          simp only [hr, pure, Except.pure, Except.ok.injEq, Prod.mk.injEq] at h
          obtain ⟨_, rfl⟩ := h
          right; left; exact ⟨rfl, herr msg hr⟩
      | ok e =>
        cases hret : e.Return with
        | true =>
          obtain ⟨hhalt, hty⟩ := hretc e hr hret
          simp only [hr, hret, if_true, pure, Except.pure, Except.ok.injEq, Prod.mk.injEq] at h
          obtain ⟨rfl, rfl⟩ := h
          right; right; left
          have hq0 : q = [] := by
            have := (hm.retQ hK x (by rw [hq]; exact List.mem_cons_self) hty).1
            rw [hq] at this
            simp only [List.cons.injEq, true_and] at this
            exact this
          subst hq0
          exact ⟨rfl, hhalt, hback.dropHead, rfl, heus', ⟨rfl, rfl, by simp only [List.length_set], rfl, rfl, rfl, rfl, rfl, rfl,
            by simp only [hq, List.length_cons, List.length_nil]; omega, rfl, rfl, rfl, rfl, rfl⟩, hm.stamps⟩
        | false =>
          obtain ⟨a', n', hstep, hpc', hn'le, hback', hmc, hnf1, hnf2⟩ := hexe e hr hret
          simp only [hr, hret, hmc, Bool.false_eq_true, if_false, bind, Except.bind, pure, Except.pure, hub] at h
          cases hpcc : e.PcChange with
          | false =>
            have hn' := hnf1 hpcc
            subst hn'
            simp only [hpcc, Bool.false_eq_true, if_false, Except.ok.injEq, Prod.mk.injEq] at h
            obtain ⟨rfl, rfl⟩ := h
            left
            split
            all_goals exact ⟨rfl, a', Or.inr hstep, hmid e a' _ hpc' hback', hkeep _ _ _ _,
              hlive e _ s.fu s.du hr hret rfl (fun hl => hl.fuDone), (fun _ => hstep), fun h => by cases h⟩
          | true =>
            obtain ⟨hnext, hbr⟩ := hnf2 hpcc
            have hcb : x.instr.instructionType.IsConditionalBranch = true := by
              simpa only [Gen.InstructionType.IsBranch, hub, Bool.false_or] using hbr
            simp only [hpcc, hcb, if_true, buShouldFlush, Bool.not_true, Bool.false_eq_true, if_false, Except.ok.injEq,
              Prod.mk.injEq] at h
            obtain ⟨rfl, rfl⟩ := h
            by_cases hfl : (x.pc + 4#32 != e.NextPc) = true
            · -- the branch is taken to somewhere else: flush
              right; right; right
              simp only [hfl, if_true]
              obtain ⟨f1, f2⟩ := hflush e a' n' _ s.fu s.du hpc' hn'le hback' hbr (fun hn => (hf.plain hn).1)
              exact ⟨a', x.pc, by rw [hpc', hnext], hstep, f1, f2⟩
            · -- the branch is taken to the next instruction: no flush
              have heq : x.pc + 4#32 = e.NextPc := by simpa using hfl
              left
              have hpc'' : a'.pc = pcOf (n0 + 1) := by rw [hpc', ← hnext, ← heq, hxok.1, pcOf_succ]
              exact ⟨by simp only [hfl, Bool.false_eq_true, if_false], a', Or.inr hstep, hmid e a' _ hpc'' hback', hkeep _ _ _ _,
                hlive e _ s.fu s.du hr hret rfl (fun hl => hl.fuDone), (fun _ => hstep), fun h => by cases h⟩
    | true =>
      -- a jump: the youngest runner; the branch unit has a prediction or not
      obtain ⟨bu1, fu1, hbf, htc, hfu1⟩ := buAssert_jump s.bu s.fu x hub
      have hpend : s.du.pendingBranchResolution = true := by
        cases hpd : s.du.pendingBranchResolution with
        | true => rfl
        | false =>
          have := (hf.opn hpd).2 x (by rw [hrun]; exact List.mem_cons_self)
          simp only [isJ, hub] at this; cases this
      have hrest : runners { s with executeBus := { s.executeBus with queue := q } } = [] := by
        obtain ⟨pre, j, hpj, hjj, hpre⟩ := hf.clo hpend
        rw [hrun] at hpj
        cases pre with
        | nil =>
          simp only [List.nil_append, List.cons.injEq] at hpj
          exact hpj.2
        | cons p ps =>
          simp only [List.cons_append, List.cons.injEq] at hpj
          obtain ⟨rfl, _⟩ := hpj
          have := hpre x List.mem_cons_self
          simp only [isJ, hub] at this; cases this
      have hnj : ¬ NoJmp app := by
        intro hn
        simp only [NoJmp, List.all_eq_true, Bool.not_eq_true'] at hn
        have := hn x.instr hxmem
        rw [hub] at this; cases this
      have hbrx : x.instr.instructionType.IsBranch = true := by
        simp only [Gen.InstructionType.IsBranch, hub, Bool.true_or]
      unfold coPrepareRun at h
      simp only [hcan, Bool.not_true, Bool.false_eq_true, if_false, hbf, g_memoryRead app x.instr hgx,
        List.isEmpty_nil, Bool.not_true] at h
      unfold coRun at h
      simp only [hmem, setEu, ite_pair_snd, ite_pair_fst] at h
      cases hr : x.instr.run s.ctx app.labels x.pc [] 0#32 with
      | error f =>
        cases f with
        | panic w => simp only [hr] at h; cases h
        | err msg =>
          simp only [hr, pure, Except.pure, Except.ok.injEq, Prod.mk.injEq] at h
          obtain ⟨_, rfl⟩ := h
          right; left; exact ⟨rfl, herr msg hr⟩
      | ok e =>
        obtain ⟨hpcc, hret⟩ := jump_run app.labels x.instr hub s.ctx x.pc [] 0#32 e hr
        obtain ⟨a', n', hstep, hpc', hn'le, hback', hmc, hnf1, hnf2⟩ := hexe e hr hret
        obtain ⟨hnext, _⟩ := hnf2 hpcc
        simp only [hr, hret, hmc, hpcc, hub, htc, hfu1, Bool.false_eq_true, if_false, if_true, bind, Except.bind, pure, Except.pure,
          buShouldFlush, Bool.not_true, Except.ok.injEq, Prod.mk.injEq] at h
        obtain ⟨rfl, rfl⟩ := h
        by_cases hfl : (bu1.expectation != e.NextPc) = true
        · -- no prediction, or a wrong one: flush
          right; right; right
          simp only [hfl, if_true]
          obtain ⟨f1, f2⟩ := hflush e a' n' { bu1 with btb := btbAdd bu1.btb x.pc e.NextPc, toCheck := false }
            (s.fu.reset e.NextPc true) { s.du with pendingBranchResolution := false } hpc' hn'le hback' hbrx (fun hn => absurd hn hnj)
          exact ⟨a', x.pc, by rw [hpc', hnext], hstep, f1, f2⟩
        · -- the prediction was right: fetch has been redirected, nothing is flushed
          left
          have hfr : FrontJ app (afterExec s i x q { bu1 with btb := btbAdd bu1.btb x.pc e.NextPc, toCheck := false } e
              (s.fu.reset e.NextPc true) { s.du with pendingBranchResolution := false }) n' := by
            have hrn : runners (afterExec s i x q { bu1 with btb := btbAdd bu1.btb x.pc e.NextPc, toCheck := false } e
                (s.fu.reset e.NextPc true) { s.du with pendingBranchResolution := false }) = [] := hrest
            refine ⟨by rw [hrn]; trivial, by rw [hrn]; exact hn'le, hf.dlen, ?_, ?_, fun hn => absurd hn hnj⟩
            · intro _
              rw [hrn]
              refine ⟨⟨n', ?_, ?_, Or.inl rfl, ?_, ?_, ?_, ?_⟩, fun r hr => by cases hr⟩
              · show PcChain n' (effD _); simp only [effD, afterExec, FetchUnit.reset, if_true]; trivial
              · simp only [effD, afterExec, FetchUnit.reset, if_true, List.length_nil, Nat.add_zero]; exact hnext
              · simp only [effD, afterExec, FetchUnit.reset, if_true, List.length_nil, Nat.add_zero]; omega
              · intro _; simp only [effD, afterExec, FetchUnit.reset, if_true, List.length_nil, Nat.add_zero]; exact hn'le
              · intro hc; simp only [afterExec, FetchUnit.reset] at hc; cases hc
              · intro hc; simp only [afterExec, FetchUnit.reset] at hc; cases hc
            · intro hc; simp only [afterExec] at hc; cases hc
          refine ⟨by simp only [hfl, Bool.false_eq_true, if_false], a', Or.inr hstep,
            hmidG e a' n' _ _ _ hpc' hback' hfr (fun _ _ => Or.inr hrest), hkeep _ _ _ _,
            hlive e _ _ _ hr hret rfl (fun _ => ⟨(fun hc => by simp only [FetchUnit.reset] at hc; cases hc), fun hc => by simp only [FetchUnit.reset] at hc; cases hc⟩), (fun _ => hstep), fun h => by cases h⟩

/-- once the execute bus queue is empty the remaining execute units find nothing -/
theorem eus_noop (app : App) : ∀ (n i : Nat) (s : State) (acc : EuAcc), i + n = s.eus.length →
    (∀ eu ∈ s.eus, eu.co = .none ∧ eu.memory = []) → s.executeBus.queue = [] →
    eusCycle app n i s acc = .ok (s, acc) := by
  intro n
  induction n with
  | zero => intro i s acc _ _ _; simp only [eusCycle, pure, Except.pure]
  | succ n ih =>
    intro i s acc hlen hidle hq
    obtain ⟨eu, hget⟩ := get_lt s.eus i (by omega)
    have hco := (hidle eu (List.mem_of_getElem? hget)).1
    have h1 : euCycle app s i = .ok (s, .none) := by
      unfold euCycle
      simp only [hget, hco, get_none _ hq, pure, Except.pure]
    simp only [eusCycle, bind, Except.bind, h1]
    exact ih (i + 1) s acc (by omega) hidle hq

theorem pcOf_ne_m1 (n : Nat) (h : n < 2 ^ 20) : (pcOf n != BitVec.ofInt 32 (-1)) = true := by
  simp only [bne_iff_ne, ne_eq]
  intro hc
  have := congrArg BitVec.toInt hc
  rw [pcOf_toInt n h] at this
  have h1 : (BitVec.ofInt 32 (-1)).toInt = -1 := by decide
  omega

/-- an execute unit that runs after the flushing one: it finds nothing, or it executes a wrong-path runner whose result
will not be kept -/
theorem euCycle_wrong (app : App) (hp : ProgJ app) (s0 s s' : State) (a' : Arch) (from_ : Word) (i : Nat) (out : EuOut)
    (hf : FlushNow app s0 s a' from_) (hnb : ∀ y ∈ s.executeBus.queue, ¬ isBr y) (hi : i < s.eus.length)
    (h : euCycle app s i = .ok (s', out)) :
    out = .none ∧ FlushNow app s0 s' a' from_ ∧ (∀ y ∈ s'.executeBus.queue, ¬ isBr y) := by
  obtain ⟨eu, hget⟩ := get_lt s.eus i hi
  obtain ⟨hco, hmem⟩ := hf.eus eu (List.mem_of_getElem? hget)
  unfold euCycle at h
  simp only [hget, hco] at h
  cases hq : s.executeBus.queue with
  | nil =>
    simp only [get_none _ hq, pure, Except.pure, Except.ok.injEq, Prod.mk.injEq] at h
    obtain ⟨rfl, rfl⟩ := h
    exact ⟨rfl, hf, hnb⟩
  | cons x q =>
    simp only [get_some _ x q hq] at h
    have hsm := hp.small
    obtain ⟨nb, m, hfrom, hlt, hchain⟩ := hf.chain
    have hrun := runners_cons s x q hq
    rw [hrun] at hchain
    obtain ⟨hxok, hchain'⟩ := hchain
    have hxmem : x.instr ∈ app.instrs := List.mem_of_getElem? hxok.2
    have hgx := g_of_get app hp.cls m x.instr hxok.2
    have hm' : m < app.instrs.length := by
      rcases Nat.lt_or_ge m app.instrs.length with h' | h'
      · exact h'
      · have := hxok.2; rw [List.getElem?_eq_none h'] at this; cases this
    have hndr : isDivRem x.instr.instructionType = false := by
      have hc := hp.cls
      simp only [JClass, Bool.and_eq_true, Bool.or_eq_true, List.all_eq_true, Bool.not_eq_true'] at hc
      rcases hc.2 with h1 | h1
      · exact h1 x.instr hxmem
      · exact absurd (by simp only [NoCond, List.all_eq_true, Bool.not_eq_true']; exact h1) hf.cond
    have hxnb : x.instr.instructionType.IsBranch = false := by
      have := hnb x (by rw [hq]; exact List.mem_cons_self)
      simpa [isBr] using this
    have hxnr : ¬ isRet x := hf.noRet x (by rw [hq]; exact List.mem_cons_self)
    have hcan : s.writeBus.canAdd = true := by
      have := hf.room; rw [hq] at this; simp only [List.length_cons] at this
      simp only [BufferedBus.canAdd, hf.wbl, bne_iff_ne, ne_eq]; omega
    have hbr := hxnb
    simp only [Gen.InstructionType.IsBranch, Bool.or_eq_false_iff] at hbr
    obtain ⟨hub, hcb⟩ := hbr
    unfold coPrepareRun at h
    simp only [hcan, Bool.not_true, Bool.false_eq_true, if_false, buAssert, hub, hcb, g_memoryRead app x.instr hgx,
      List.isEmpty_nil, Bool.not_true] at h
    unfold coRun at h
    simp only [hmem, setEu] at h
    obtain ⟨e, he⟩ := g_run_ok app x.instr hgx hndr s.ctx x.pc [] 0#32
    obtain ⟨hmc, hret, hpcc⟩ := g_run app x.instr hgx s.ctx x.pc [] 0#32 e he
    have hret' : e.Return = false := by
      cases hr : e.Return with
      | false => rfl
      | true => exact absurd (hret hr) hxnr
    have hpc' : e.PcChange = false := by
      cases hr : e.PcChange with
      | false => rfl
      | true => have := (hpcc hr).1; rw [hxnb] at this; cases this
    simp only [he, hret', hmc, hpc', Bool.false_eq_true, if_false, bind, Except.bind, pure, Except.pure, hub,
      Except.ok.injEq, Prod.mk.injEq] at h
    obtain ⟨rfl, rfl⟩ := h
    have hnk : kept from_ (ecOf x e) = false := by
      have h1 := hf.rseq x (by rw [hrun]; exact List.mem_cons_self)
      simp only [kept, ecOf, h1, hxok.1, hfrom, pcOf_ne_m1 nb (by omega), Bool.true_and, Bool.not_eq_false', BitVec.slt,
        decide_eq_true_eq]
      exact pcOf_lt nb m (by omega) hlt
    have hrunS : runners { s with executeBus := { s.executeBus with queue := q } } ⊆ runners s := by
      rw [hrun]; exact fun r hr => List.mem_cons_of_mem _ hr
    refine ⟨rfl, ?_, fun y hy => hnb y (by rw [hq]; exact List.mem_cons_of_mem _ hy)⟩
    refine ⟨?_, ?_, hf.qKept, hf.mem, hf.ratS, hf.txS, hf.ratA, hf.txA, hf.npc, ?_, ?_, hf.cond, hf.k, ?_, hf.wbl,
      ⟨nb, m + 1, hfrom, by omega, hchain'⟩, fun r hr => hf.rseq r (hrunS hr),
      fun y hy => hf.noRet y (by rw [hq]; exact List.mem_cons_of_mem _ hy), hf.sid0, hf.plain, ?_⟩
    · show applyW ((s.writeBus.add (ecOf x e) s.cycles).inside.filter (kept from_)) s.ctx.Registers = a'.ctx.Registers
      rw [inside_add, List.filter_append]
      simp only [List.filter_cons, hnk, Bool.false_eq_true, if_false, List.filter_nil, List.append_nil]
      exact hf.regsT
    · show ∀ ec ∈ (s.writeBus.add (ecOf x e) s.cycles).inside, ec.execution.MemoryChange = false
      rw [inside_add]
      intro ec hec
      rcases List.mem_append.mp hec with hec | hec
      · exact hf.nomem ec hec
      · simp only [List.mem_singleton] at hec; subst hec; exact hmc
    · intro eu' hmem'
      rcases List.mem_or_eq_of_mem_set hmem' with h1 | h1
      · exact hf.eus eu' h1
      · subst h1; exact ⟨rfl, rfl⟩
    · exact hf.keep.trans ⟨rfl, rfl, by simp only [List.length_set], rfl, rfl, rfl, rfl, rfl, rfl,
        by simp only [hq, List.length_cons]; omega, rfl, rfl, rfl, rfl, rfl⟩
    · show (s.writeBus.add (ecOf x e) s.cycles).buffer.length + q.length ≤ 2
      simp only [BufferedBus.add, List.length_append, List.length_cons, List.length_nil]
      have := hf.room; rw [hq] at this; simp only [List.length_cons] at this; omega
    · intro en hen
      simp only [BufferedBus.add, List.mem_append, List.mem_singleton] at hen
      rcases hen with hen | hen
      · exact hf.stamps en hen
      · subst hen; exact Int.le_refl _

theorem FlushNow.pre {app : App} {s0 s s' : State} {a' : Arch} {from_ : Word} (h : FlushNow app s s' a' from_)
    (hk : EuKeep s0 s) : FlushNow app s0 s' a' from_ :=
  ⟨h.regsT, h.nomem, h.qKept, h.mem, h.ratS, h.txS, h.ratA, h.txA, h.npc, h.eus, hk.trans h.keep, h.cond,
   by rw [← hk.eul]; exact h.k, h.room, h.wbl, h.chain, h.rseq, h.noRet, h.sid0, h.plain, h.stamps⟩

/-- the execute units behind the flushing one -/
theorem eus_wrong (app : App) (hp : ProgJ app) (s0 : State) (a' : Arch) (from_ : Word) : ∀ (n i : Nat) (s s' : State) (acc acc' : EuAcc),
    i + n = s.eus.length → FlushNow app s0 s a' from_ → (∀ y ∈ s.executeBus.queue, ¬ isBr y) →
    eusCycle app n i s acc = .ok (s', acc') → acc' = acc ∧ FlushNow app s0 s' a' from_ := by
  intro n
  induction n with
  | zero =>
    intro i s s' acc acc' _ hf _ h
    simp only [eusCycle, pure, Except.pure, Except.ok.injEq, Prod.mk.injEq] at h
    obtain ⟨rfl, rfl⟩ := h
    exact ⟨rfl, hf⟩
  | succ n ih =>
    intro i s s' acc acc' hlen hf hnb h
    simp only [eusCycle, bind, Except.bind] at h
    split at h
    · cases h
    · rename_i v hv
      obtain ⟨s1, out⟩ := v
      obtain ⟨rfl, hf1, hnb1⟩ := euCycle_wrong app hp s0 s s1 a' from_ i out hf hnb (by omega) hv
      simp only at h
      have hl : s1.eus.length = s.eus.length := by
        have := hf1.keep.eul; have := hf.keep.eul; omega
      exact ih (i + 1) s1 s' acc acc' (by omega) hf1 hnb1 h

theorem max_zero_pcOf (n : Nat) (h : n < 2 ^ 20) : (if BitVec.slt (0 : Word) (pcOf n) = true then pcOf n else 0) = pcOf n := by
  by_cases hn : n = 0
  · subst hn; simp [pcOf]
  · have : BitVec.slt (0 : Word) (pcOf n) = true := by
      simp only [BitVec.slt, decide_eq_true_eq, pcOf_toInt n h]
      have : (0 : Word).toInt = 0 := by decide
      rw [this]; omega
    simp only [this, if_true]

/-- the loop over the execute units -/
theorem eusCycle_sim (app : App) (hp : ProgJ app) (a0 : Arch) (hT : ∀ k a, Proofs.Mvp4.seqIter app k a0 = some a → TgtOk app a) :
    ∀ (n i : Nat) (s s' : State) (acc acc' : EuAcc) (k : Nat) (a : Arch),
    i + n = s.eus.length → Mid app s a i → Proofs.Mvp4.seqIter app k a0 = some a →
    acc = {} → eusCycle app n i s acc = .ok (s', acc') →
    (acc' = {} ∧ ∃ k' a', Proofs.Mvp4.seqIter app k' a0 = some a' ∧ Mid app s' a' (i + n) ∧ EuKeep s s' ∧
      (Live s → Live s') ∧ k ≤ k' ∧ (s.executeBus.queue ≠ [] → 1 ≤ n → k < k') ∧ (s.executeBus.queue = [] → s' = s ∧ a' = a ∧ k' = k)) ∨
    (acc'.err = true ∧ ∃ k' a', Proofs.Mvp4.seqIter app k' a0 = some a' ∧ ∃ c, stepArch Proofs.Mvp4.dc app a' = .halt .err c) ∨
    (acc' = { ret := true } ∧ ∃ k' a', Proofs.Mvp4.seqIter app k' a0 = some a' ∧ Retired app s s' a' ∧ k ≤ k') ∨
    (∃ a' from_, acc' = { flush := true, from_ := from_, pc := a'.pc } ∧
      ∃ k', Proofs.Mvp4.seqIter app k' a0 = some a' ∧ FlushNow app s s' a' from_ ∧ k < k') := by
  intro n
  induction n with
  | zero =>
    intro i s s' acc acc' k a _ hm hk hacc h
    simp only [eusCycle, pure, Except.pure, Except.ok.injEq, Prod.mk.injEq] at h
    obtain ⟨rfl, rfl⟩ := h
    left; exact ⟨hacc, k, a, hk, hm, EuKeep.refl s, id, Nat.le_refl _, (fun _ h => absurd h (by omega)), fun _ => ⟨rfl, rfl, rfl⟩⟩
  | succ n ih =>
    intro i s s' acc acc' k a hlen hm hk hacc h
    simp only [eusCycle, bind, Except.bind] at h
    split at h
    · cases h
    · rename_i v hv
      obtain ⟨s1, out⟩ := v
      rcases euCycle_sim app hp s s1 a i out (hT k a hk) hm (by omega) hv with
        ⟨rfl, a1, hstep, hm1, hk1, hlv1, hq1, hq0⟩ | ⟨rfl, c, hc⟩ | ⟨rfl, hret⟩ | ⟨a1, from_, rfl, ⟨c, hc⟩, hfl, hnbw⟩
      · simp only at h
        have hk' : ∃ k1, Proofs.Mvp4.seqIter app k1 a0 = some a1 ∧ k ≤ k1 ∧ (s.executeBus.queue ≠ [] → k < k1) ∧
            (s.executeBus.queue = [] → s1 = s ∧ a1 = a ∧ k1 = k) := by
          by_cases hqe : s.executeBus.queue = []
          · obtain ⟨rfl, rfl⟩ := hq0 hqe
            exact ⟨k, hk, Nat.le_refl _, fun h => absurd hqe h, fun _ => ⟨rfl, rfl, rfl⟩⟩
          · obtain ⟨c, hc⟩ := hq1 hqe
            exact ⟨k + 1, Proofs.Mvp4.seqIter_succ hk hc, Nat.le_succ _, fun _ => Nat.lt_succ_self _, fun h => absurd h hqe⟩
        obtain ⟨k1, hk1', hle1, hlt1, heq1⟩ := hk'
        have := ih (i + 1) s1 s' acc acc' k1 a1 (by rw [hk1.eul]; omega) hm1 hk1' hacc h
        rcases this with ⟨e1, k2, a2, e2, e3, e4, e5, e6, e7, e8⟩ | e | ⟨e1, k2, a2, e2, e3, e4⟩ | ⟨a2, f2, e1, k2, e2, e3, e4⟩
        · left
          refine ⟨e1, k2, a2, e2, ?_, hk1.trans e4, fun hl => e5 (hlv1 hl), by omega, fun hne _ => by have := hlt1 hne; omega, ?_⟩
          · have : i + 1 + n = i + (n + 1) := by omega
            rw [← this]; exact e3
          · intro hqe
            obtain ⟨rfl, rfl, rfl⟩ := heq1 hqe
            exact e8 hqe
        · right; left; exact e
        · right; right; left
          exact ⟨e1, k2, a2, e2, ⟨e3.halt, e3.back, e3.xq, e3.eus, hk1.trans e3.keep, e3.stamps⟩, by omega⟩
        · right; right; right
          exact ⟨a2, f2, e1, k2, e2, e3.pre hk1, by omega⟩
      · simp only [pure, Except.pure, Except.ok.injEq, Prod.mk.injEq] at h
        obtain ⟨_, rfl⟩ := h
        right; left; exact ⟨rfl, k, a, hk, c, hc⟩
      · simp only at h
        rw [eus_noop app n (i + 1) s1 _ (by rw [hret.keep.eul]; omega) hret.eus hret.xq] at h
        simp only [Except.ok.injEq, Prod.mk.injEq] at h
        obtain ⟨rfl, rfl⟩ := h
        right; right; left
        exact ⟨by rw [hacc], k, a, hk, hret, Nat.le_refl _⟩
      · -- a flush: the remaining execute units (if any) execute wrong-path runners
        obtain ⟨n', hn', hle⟩ := hfl.npc
        have hsm := hp.small
        subst hacc
        simp only [hn', max_zero_pcOf n' (by omega)] at h
        rw [← hn'] at h
        rcases hm.k1 with h1 | h1 | h1
        · have hn : n = 0 := by omega
          subst hn
          simp only [eusCycle, pure, Except.pure, Except.ok.injEq, Prod.mk.injEq] at h
          obtain ⟨rfl, rfl⟩ := h
          right; right; right
          exact ⟨a1, from_, rfl, k + 1, Proofs.Mvp4.seqIter_succ hk hc, hfl, Nat.lt_succ_self _⟩
        · exact absurd h1 hfl.cond
        · obtain ⟨e1, e2⟩ := eus_wrong app hp s a1 from_ n (i + 1) s1 s' _ acc' (by rw [hfl.keep.eul]; omega) hfl (hnbw h1) h
          right; right; right
          exact ⟨a1, from_, e1, k + 1, Proofs.Mvp4.seqIter_succ hk hc, e2, Nat.lt_succ_self _⟩

/-! ### the write units -/

/-- what the write units leave alone -/
structure WuKeep (s s' : State) : Prop where
  fu : s'.fu = s.fu
  decodeBus : s'.decodeBus = s.decodeBus
  du : s'.du = s.du
  controlBus : s'.controlBus = s.controlBus
  cuPendings : s'.cuPendings = s.cuPendings
  executeBus : s'.executeBus = s.executeBus
  eus : s'.eus = s.eus
  wus : s'.wus = s.wus
  mmu : s'.mmu = s.mmu
  cycles : s'.cycles = s.cycles
  mode : s'.mode = s.mode
  wbuf : s'.writeBus.buffer = s.writeBus.buffer
  wql : s'.writeBus.queueLength = s.writeBus.queueLength
  wbl : s'.writeBus.bufferLength = s.writeBus.bufferLength
  sid : s'.ctx.sequenceID = s.ctx.sequenceID
  wsub : ∀ ec ∈ s'.writeBus.inside, ec ∈ s.writeBus.inside
  live : Live s → Live s'

theorem WuKeep.refl (s : State) : WuKeep s s := ⟨rfl, rfl, rfl, rfl, rfl, rfl, rfl, rfl, rfl, rfl, rfl, rfl, rfl, rfl, rfl, fun _ h => h, id⟩
theorem WuKeep.trans {a b c : State} (h1 : WuKeep a b) (h2 : WuKeep b c) : WuKeep a c :=
  ⟨h2.fu.trans h1.fu, h2.decodeBus.trans h1.decodeBus, h2.du.trans h1.du, h2.controlBus.trans h1.controlBus,
   h2.cuPendings.trans h1.cuPendings, h2.executeBus.trans h1.executeBus, h2.eus.trans h1.eus, h2.wus.trans h1.wus,
   h2.mmu.trans h1.mmu, h2.cycles.trans h1.cycles, h2.mode.trans h1.mode, h2.wbuf.trans h1.wbuf, h2.wql.trans h1.wql,
   h2.wbl.trans h1.wbl, h2.sid.trans h1.sid, fun ec h => h1.wsub ec (h2.wsub ec h), fun hl => h2.live (h1.live hl)⟩

theorem FrontJ.of_eq {app : App} {s s' : State} {n0 : Nat} (h : FrontJ app s n0) (e1 : s'.executeBus = s.executeBus)
    (e2 : s'.cuPendings = s.cuPendings) (e3 : s'.controlBus = s.controlBus) (e4 : s'.fu = s.fu)
    (e5 : s'.decodeBus = s.decodeBus) (e6 : s'.du = s.du) : FrontJ app s' n0 := by
  have hr : runners s' = runners s := by simp only [runners, e1, e2, e3]
  have he : effD s' = effD s := by simp only [effD, e4, e5]
  exact ⟨by rw [hr]; exact h.chain, by rw [hr]; exact h.inRange, by rw [e5]; exact h.dlen,
    by rw [hr, e4, e6, he]; exact h.opn, by rw [hr, e6]; exact h.clo, by rw [e4, e6]; exact h.plain⟩

/-- one write unit (idle, called with `before = -1`): nothing to do, or the oldest result is written -/
theorem wuCycle_sim (s s' : State) (a : Arch) (j : Nat) (hj : j < s.wus.length) (hidle : ∀ wu ∈ s.wus, wu.co = .none)
    (hb : Back s.ctx s.writeBus.inside s.executeBus.inside a) (h : wuCycle s j (BitVec.ofInt 32 (-1)) = .ok s') :
    Back s'.ctx s'.writeBus.inside s'.executeBus.inside a ∧ WuKeep s s' ∧
    s'.writeBus.queue.length = s.writeBus.queue.length - 1 := by
  obtain ⟨wu, hget⟩ := get_lt s.wus j hj
  have hco := hidle wu (List.mem_of_getElem? hget)
  unfold wuCycle at h
  simp only [hget, hco] at h
  cases hq : s.writeBus.queue with
  | nil =>
    simp only [get_none _ hq, pure, Except.pure, Except.ok.injEq] at h
    subst h
    exact ⟨hb, WuKeep.refl _, by simp only [hq, List.length_nil]⟩
  | cons ec q =>
    simp only [get_some _ ec q hq, bne_self_eq_false, Bool.false_and, Bool.false_eq_true, if_false] at h
    have hin : s.writeBus.inside = ec :: ({ s.writeBus with queue := q } : BufferedBus ExecCtx).inside := by
      simp only [BufferedBus.inside, hq, List.cons_append]
    rw [hin] at hb
    have hwb := hb.writeback
    have hnm := hb.nomem ec (List.mem_cons_self)
    have hsid : ∀ c : Model.Context, (deletePendingRegisters c ec.readRegisters ec.writeRegisters).sequenceID = c.sequenceID := fun _ => rfl
    have hlv : ∀ (c' : Model.Context), c' = deletePendingRegisters (if ec.execution.RegisterChange then Model.Seq.writeRegister s.ctx ec.execution else s.ctx)
          ec.readRegisters ec.writeRegisters →
        Live s → Live { s with writeBus := { s.writeBus with queue := q }, ctx := c' } := by
      intro c' hc' hl
      subst hc'
      refine ⟨hl.xdue, hl.cdue, hl.ddue, hl.cql, hl.dql, ?_, hl.retIn, hl.fuDone, hl.xbl, hl.pcap⟩
      have := hl.backL
      rw [hin] at this
      exact this.writeback
    split at h
    · rename_i hrc
      simp only [pure, Except.pure, Except.ok.injEq] at h
      subst h
      simp only [hrc, if_true] at hwb
      have hin' := hin
      exact ⟨hwb, ⟨rfl, rfl, rfl, rfl, rfl, rfl, rfl, rfl, rfl, rfl, rfl, rfl, rfl, rfl, hsid _, fun e he => by rw [hin]; exact List.mem_cons_of_mem _ he,
        hlv _ (by simp only [hrc, if_true])⟩, by simp only [hq, List.length_cons]; omega⟩
    · rename_i hrc
      simp only [hnm, Bool.false_eq_true, if_false, pure, Except.pure, Except.ok.injEq] at h
      subst h
      simp only [hrc, if_false] at hwb
      exact ⟨hwb, ⟨rfl, rfl, rfl, rfl, rfl, rfl, rfl, rfl, rfl, rfl, rfl, rfl, rfl, rfl, hsid _, fun e he => by rw [hin]; exact List.mem_cons_of_mem _ he,
        hlv _ (by simp only [hrc, Bool.false_eq_true, if_false])⟩, by simp only [hq, List.length_cons]; omega⟩

theorem wus_sim (a : Arch) : ∀ (n i : Nat) (s s' : State), i + n = s.wus.length → (∀ wu ∈ s.wus, wu.co = .none) →
    Back s.ctx s.writeBus.inside s.executeBus.inside a →
    (List.range' i n).foldlM (fun s j => wuCycle s j (BitVec.ofInt 32 (-1))) s = .ok s' →
    Back s'.ctx s'.writeBus.inside s'.executeBus.inside a ∧ WuKeep s s' ∧
    s'.writeBus.queue.length = s.writeBus.queue.length - n := by
  intro n
  induction n with
  | zero =>
    intro i s s' _ _ hb h
    simp only [List.range'_zero, List.foldlM, pure, Except.pure, Except.ok.injEq] at h
    subst h
    exact ⟨hb, WuKeep.refl _, by omega⟩
  | succ n ih =>
    intro i s s' hlen hidle hb h
    simp only [List.range'_succ, List.foldlM, bind, Except.bind] at h
    split at h
    · cases h
    · rename_i s1 h1
      obtain ⟨b1, k1, q1⟩ := wuCycle_sim s s1 a i (by omega) hidle hb h1
      obtain ⟨b2, k2, q2⟩ := ih (i + 1) s1 s' (by rw [k1.wus]; omega) (by rw [k1.wus]; exact hidle) b1 h
      exact ⟨b2, k1.trans k2, by omega⟩

theorem wusCycle_sim (s s' : State) (a : Arch) (hidle : ∀ wu ∈ s.wus, wu.co = .none)
    (hb : Back s.ctx s.writeBus.inside s.executeBus.inside a) (h : wusCycle s = .ok s') :
    Back s'.ctx s'.writeBus.inside s'.executeBus.inside a ∧ WuKeep s s' ∧
    s'.writeBus.queue.length = s.writeBus.queue.length - s.wus.length := by
  unfold wusCycle at h
  rw [List.range_eq_range'] at h
  exact wus_sim a s.wus.length 0 s s' (by omega) hidle hb h

/-! ### the whole tick -/

theorem connect_queue_le {α : Type} (b : BufferedBus α) (c : Int) (h : (b.queue.length : Int) ≤ b.queueLength) :
    ((b.connect c).queue.length : Int) ≤ b.queueLength := by
  unfold BufferedBus.connect
  split
  · exact h
  · exact Proofs.Bus.connectLoop_length _ _ _ _ h

theorem issued_back {c p : Int} {pushed : List Runner} {x y : Model.Context × BufferedBus Runner}
    (h : Issued c p pushed x y) : ∀ {W : List ExecCtx} {a : Arch}, Back x.1 W x.2.inside a →
    Back y.1 W y.2.inside a ∧ y.2.queue = x.2.queue ∧ y.2.queueLength = x.2.queueLength ∧ y.2.inside = x.2.inside ++ pushed := by
  induction h with
  | nil p x => intro W a hb; exact ⟨hb, rfl, rfl, by simp⟩
  | cons p r rs ctx bus y hz _ _ _ ih =>
    intro W a hb
    have hb' := hb.issue r hz
    have : Back (addPendingRegisters ctx r.instr, bus.add r c).1 W (addPendingRegisters ctx r.instr, bus.add r c).2.inside a := by
      simp only [inside_add]; exact hb'
    obtain ⟨i1, i2, i3, i4⟩ := ih this
    exact ⟨i1, i2, i3, by rw [i4]; simp only [inside_add, List.append_assoc, List.singleton_append]⟩

theorem issued_bl {c p : Int} {pushed : List Runner} {x y : Model.Context × BufferedBus Runner} (h : Issued c p pushed x y) :
    y.2.bufferLength = x.2.bufferLength := by
  induction h with
  | nil p x => rfl
  | cons p r rs ctx bus y _ _ _ _ ih => exact ih

/-- a `ret` issued in cycle `c` is alone on the execute bus -/
theorem issued_ret {c p : Int} {pushed : List Runner} {x y : Model.Context × BufferedBus Runner}
    (h : Issued c p pushed x y) : (∀ e ∈ x.2.buffer, ¬ isRet e.2) →
    ∀ e ∈ y.2.buffer, isRet e.2 → y.2.queue = [] ∧ y.2.buffer = [(c + 1, e.2)] := by
  induction h with
  | nil p x => intro hn e he hr; exact absurd hr (hn e he)
  | cons p r rs ctx bus y hz hret _ hiss ih =>
    intro hn
    by_cases hr : isRet r
    · obtain ⟨hemp, hrs⟩ := hret hr
      subst hrs
      cases hiss
      simp only [BufferedBus.isEmpty, Bool.and_eq_true, beq_iff_eq, List.length_eq_zero_iff] at hemp
      intro e he hre
      simp only [BufferedBus.add, hemp.2, List.nil_append, List.mem_singleton] at he
      subst he
      simp only [BufferedBus.add, hemp.1, hemp.2, List.nil_append, and_self]
    · apply ih
      intro e he
      simp only [BufferedBus.add, List.mem_append, List.mem_singleton] at he
      rcases he with he | he
      · exact hn e he
      · subst he; exact hr

/-- the state between two ticks -/
structure RelG (app : App) (s : State) (a : Arch) : Prop where
  front : ∃ n0, a.pc = pcOf n0 ∧ FrontJ app s n0
  back : Back s.ctx s.writeBus.inside s.executeBus.inside a
  eus : ∀ eu ∈ s.eus, eu.co = .none ∧ eu.memory = []
  wus : ∀ wu ∈ s.wus, wu.co = .none
  wq : s.writeBus.queue = []
  wb2 : s.writeBus.buffer.length ≤ 2
  wbk : s.writeBus.buffer.length ≤ s.wus.length
  stamps : ∀ e ∈ s.writeBus.buffer, e.1 ≤ s.cycles + 1
  wql : s.writeBus.queueLength = 2
  wbl : s.writeBus.bufferLength = 2
  xql : s.executeBus.queueLength = 2
  xq : s.executeBus.queue.length ≤ 2
  eqw : s.eus.length = s.wus.length
  pend : s.cuPendings.items.length ≤ 1
  l1d : MmuOk s.mmu
  mode : s.mode = .normal
  /-- no `ret` is left in the execute bus queue (when there is an execute unit to take it) -/
  retQ : 1 ≤ s.eus.length → ∀ x ∈ s.executeBus.queue, ¬ isRet x
  /-- a `ret` issued in the last cycle is alone on the execute bus and due -/
  retBuf : ∀ e ∈ s.executeBus.buffer, isRet e.2 → s.executeBus.queue = [] ∧ s.executeBus.buffer = [(s.cycles + 1, e.2)]
  seqs : Seqs app s a
  /-- the results on the write bus are older than the architectural pc, or a correctly predicted jump has executed in the
  last tick and the pipeline behind the fetch unit is empty -/
  stale : ¬ NoCond app → s.ctx.sequenceID = 0 → Wlt s a ∨ runners s = []
  k1 : s.eus.length ≤ 1 ∨ NoCond app ∨ WideB s

/-- the state between two ticks of the drain after a `ret` -/
structure RelB (app : App) (s : State) (a : Arch) : Prop where
  halt : ∃ c, stepArch Proofs.Mvp4.dc app a = .halt .ret c
  back : Back s.ctx s.writeBus.inside s.executeBus.inside a
  wus : ∀ wu ∈ s.wus, wu.co = .none
  l1d : MmuOk s.mmu
  mode : s.mode = .retB

/-- what the drain before a flush needs to come back to `RelG`: the drain invariant with the architectural registers as
target, and the facts `m.flush(pc)` does not touch -/
structure FFacts (app : App) (s : State) (a' : Arch) (from_ pc : Word) : Prop where
  inv : DrainInv from_ a'.ctx.Registers s
  npc : ∃ n', a'.pc = pcOf n' ∧ n' ≤ app.instrs.length
  pceq : pc = a'.pc
  mem : a'.ctx.Memory = s.ctx.Memory
  ratS : s.ctx.rat = false
  txS : s.ctx.Transaction.entries = []
  ratA : a'.ctx.rat = false
  txA : a'.ctx.Transaction.entries = []
  eusM : ∀ eu ∈ s.eus, eu.memory = []
  eqw : s.eus.length = s.wus.length
  wql : s.writeBus.queueLength = 2
  wbl : s.writeBus.bufferLength = 2
  xql : s.executeBus.queueLength = 2
  dlen : s.decodeBus.bufferLength = 2
  l1d : MmuOk s.mmu
  clean : NoJmp app → s.fu.toCleanPending = false
  sid : s.ctx.sequenceID = 0 ∨ NoCond app
  k1 : s.eus.length ≤ 1 ∨ NoCond app ∨ s.executeBus.bufferLength = 2
  wk : 1 ≤ s.wus.length

/-- the state between two ticks of the drain before a flush -/
def RelF (app : App) (s : State) (a' : Arch) : Prop :=
  ∃ i from_ pc, s.mode = .flushW i from_ pc ∧ i < s.wus.length ∧ FFacts app s a' from_ pc

theorem FFacts.connect {app : App} {s : State} {a' : Arch} {from_ pc : Word} (h : FFacts app s a' from_ pc) (c : Int) :
    FFacts app { s with writeBus := s.writeBus.connect c } a' from_ pc :=
  ⟨h.inv.connect c, h.npc, h.pceq, h.mem, h.ratS, h.txS, h.ratA, h.txA, h.eusM, h.eqw,
   by (show (s.writeBus.connect c).queueLength = 2); rw [(connect_lengths _ _).1]; exact h.wql,
   by (show (s.writeBus.connect c).bufferLength = 2); rw [(connect_lengths _ _).2]; exact h.wbl,
   h.xql, h.dlen, h.l1d, h.clean, h.sid, h.k1, h.wk⟩

theorem FFacts.mode {app : App} {s : State} {a' : Arch} {from_ pc : Word} (h : FFacts app s a' from_ pc) (m : Mode) :
    FFacts app { s with mode := m } a' from_ pc :=
  ⟨⟨h.inv.wus, h.inv.nomem, h.inv.regs⟩, h.npc, h.pceq, h.mem, h.ratS, h.txS, h.ratA, h.txA, h.eusM, h.eqw, h.wql, h.wbl,
   h.xql, h.dlen, h.l1d, h.clean, h.sid, h.k1, h.wk⟩

theorem FFacts.keep {app : App} {s s' : State} {a' : Arch} {from_ pc : Word} (h : FFacts app s a' from_ pc)
    (hi : DrainInv from_ a'.ctx.Registers s') (k : DrainKeep s s') : FFacts app s' a' from_ pc :=
  ⟨hi, h.npc, h.pceq, by rw [k.mem]; exact h.mem, by rw [k.rat]; exact h.ratS, by rw [k.tx]; exact h.txS, h.ratA, h.txA,
   by rw [k.eus]; exact h.eusM, by rw [k.eus, k.wus]; exact h.eqw, by rw [k.wql]; exact h.wql, by rw [k.wbl]; exact h.wbl,
   by rw [k.executeBus]; exact h.xql, by rw [k.decodeBus]; exact h.dlen, by rw [k.mmu]; exact h.l1d, by rw [k.fu]; exact h.clean,
   by rw [k.sid]; exact h.sid, by rw [k.eus, k.executeBus]; exact h.k1, by rw [k.wus]; exact h.wk⟩

/-- `m.flush(pc)` after a completed drain: the relation between normal ticks holds for the state behind the branch -/
theorem flushAll_rel (app : App) (hsm : app.instrs.length < 250) (s : State) (a' : Arch) (from_ pc : Word)
    (h : FFacts app s a' from_ pc) (hw : s.writeBus.inside = []) (c : Int) (n : Nat) :
    RelG app { flushAll s pc with cycles := c, mode := .normal, flushes := n } a' := by
  obtain ⟨n', hn', hle⟩ := h.npc
  have hregs := h.inv.regs
  rw [hw] at hregs
  simp only [List.filter_nil, applyW] at hregs
  have hx : (flushAll s pc).executeBus.inside = [] := by simp [flushAll, BufferedBus.clean, BufferedBus.inside]
  have hwb : (flushAll s pc).writeBus.inside = [] := by simp [flushAll, BufferedBus.clean, BufferedBus.inside]
  have hrn : runners { flushAll s pc with cycles := c, mode := .normal, flushes := n } = [] := by
    simp [runners, flushAll, BufferedBus.clean, BufferedBus.inside, Queue.new]
  refine ⟨⟨n', hn', ?_⟩, ?_, ?_, h.inv.wus, rfl, Nat.zero_le _, Nat.zero_le _, ?_, h.wql, h.wbl, h.xql, Nat.zero_le _, ?_, Nat.zero_le _,
    h.l1d, rfl, ?_, ?_, ?_, ?_, ?_⟩
  · have heff : effD { flushAll s pc with cycles := c, mode := .normal, flushes := n } = [] := by
      simp only [effD, flushAll, BufferedBus.clean, BufferedBus.inside, List.map_nil, List.append_nil, ite_self]
    refine ⟨by rw [hrn]; trivial, by rw [hrn]; simp only [List.length_nil, Nat.add_zero]; exact hle, h.dlen, ?_,
      (fun hc => by cases hc), fun hn => ⟨h.clean hn, rfl⟩⟩
    intro _
    rw [hrn, heff]
    refine ⟨⟨n', trivial, ?_, Or.inl (by simp), ?_, ?_, ?_, ?_⟩, fun r hr => by cases hr⟩
    · show pc = pcOf (n' + 0); rw [h.pceq, hn']; rfl
    · show n' + 0 + 0 ≤ app.instrs.length + 2; omega
    · intro _; show n' + 0 ≤ app.instrs.length; omega
    · intro hc; cases hc
    · intro hc; cases hc
  · refine ⟨?_, h.mem, h.ratS, h.txS, h.ratA, h.txA, ?_, ?_, ?_, ?_, ?_⟩
    · show a'.ctx.Registers = applyW (flushAll s pc).writeBus.inside s.ctx.Registers
      rw [hwb]; exact hregs.symm
    · intro ec hec; rw [show (flushAll s pc).writeBus.inside = [] from hwb] at hec; cases hec
    · intro r _
      show ((cntW (flushAll s pc).writeBus.inside r + cntX (flushAll s pc).executeBus.inside r : Nat) : Int) ≤ GoMap.get1 ({} : GoMap Reg Int) r
      rw [hwb, hx]; exact Int.le_refl _
    · intro x hxm; rw [show (flushAll s pc).executeBus.inside = [] from hx] at hxm; cases hxm
    · show List.Pairwise _ (flushAll s pc).executeBus.inside; rw [hx]; exact List.Pairwise.nil
    · intro ec hec; rw [show (flushAll s pc).writeBus.inside = [] from hwb] at hec; cases hec
  · intro eu hmem
    simp only [flushAll, List.mem_map] at hmem
    obtain ⟨eu0, h0, rfl⟩ := hmem
    exact ⟨rfl, h.eusM eu0 h0⟩
  · intro e he; simp [flushAll, BufferedBus.clean] at he
  · show ((flushAll s pc).eus).length = s.wus.length
    simp only [flushAll, List.length_map]; exact h.eqw
  · intro _ x hxm; simp [flushAll, BufferedBus.clean] at hxm
  · intro e he; simp [flushAll, BufferedBus.clean] at he
  · refine ⟨h.sid, ?_⟩
    intro _ _ r hr; rw [hrn] at hr; cases hr
  · intro _ _; exact Or.inr hrn
  · rcases h.k1 with h1 | h1 | h1
    · exact Or.inl (by (show ((flushAll s pc).eus).length ≤ 1); simp only [flushAll, List.length_map]; exact h1)
    · exact Or.inr (Or.inl h1)
    · refine Or.inr (Or.inr ⟨?_, ?_, ?_, ?_, ?_⟩)
      · simp [flushAll, BufferedBus.clean]
      · intro e he; simp [flushAll, BufferedBus.clean] at he
      · simp [flushAll, BufferedBus.clean]
      · intro pre b post hl; simp [flushAll, BufferedBus.clean] at hl
      · simp only [flushAll, BufferedBus.clean]; exact h1

/-- the test at the head of every write unit's drain loop, with the facts that rebuild the relation afterwards -/
theorem goFlush_sim (app : App) (hsm : app.instrs.length < 250) (a' : Arch) (from_ pc : Word) : ∀ (n i : Nat) (s : State),
    i + n = s.wus.length → FFacts app s a' from_ pc → (s.writeBus.inside = [] ∨ 1 ≤ n) →
    (goFlush s from_ pc n i).2 = .running ∧ (RelF app (goFlush s from_ pc n i).1 a' ∨ RelG app (goFlush s from_ pc n i).1 a') := by
  intro n
  induction n with
  | zero =>
    intro i s _ h hw
    have hw' : s.writeBus.inside = [] := by rcases hw with hw | hw; exact hw; omega
    exact ⟨rfl, Or.inr (flushAll_rel app hsm s a' from_ pc h hw' _ _)⟩
  | succ n ih =>
    intro i s hlen h hw
    obtain ⟨wu, hget⟩ := get_lt s.wus i (by omega)
    simp only [goFlush, hget]
    split
    · exact ⟨rfl, Or.inl ⟨i, from_, pc, rfl, by (show i < s.wus.length); omega, h.mode _⟩⟩
    · rename_i hc
      simp only [Bool.or_eq_true, Bool.not_eq_true', not_or, Bool.not_eq_false] at hc
      exact ih (i + 1) s (by omega) h (Or.inl (inside_nil_of_isEmpty _ hc.2))

/-- what a tick has to do with the unpipelined run from `a0` -/
def TickPostG (app : App) (a0 : Arch) (s' : State) : Event → Prop
  | .running => ∃ k a, Proofs.Mvp4.seqIter app k a0 = some a ∧ (RelG app s' a ∨ RelB app s' a ∨ RelF app s' a)
  | .done .offEnd => ∃ k a, Proofs.Mvp4.seqIter app k a0 = some a ∧ (∃ c, stepArch Proofs.Mvp4.dc app a = .halt .offEnd c) ∧
      s'.ctx.Registers = a.ctx.Registers ∧ s'.ctx.Memory = a.ctx.Memory
  | .done .err => ∃ k a, Proofs.Mvp4.seqIter app k a0 = some a ∧ ∃ c, stepArch Proofs.Mvp4.dc app a = .halt .err c
  | .done .ret => ∃ k a, Proofs.Mvp4.seqIter app k a0 = some a ∧ (∃ c, stepArch Proofs.Mvp4.dc app a = .halt .ret c) ∧
      s'.ctx.Registers = a.ctx.Registers ∧ s'.ctx.Memory = a.ctx.Memory
  | .done (.panic _) => True

theorem stepArch_offEnd (app : App) (a : Arch) (n0 : Nat) (hpc : a.pc = pcOf n0) (hsm : app.instrs.length < 250)
    (h1 : app.instrs.length ≤ n0) (h2 : n0 ≤ app.instrs.length) : ∃ c, stepArch Proofs.Mvp4.dc app a = .halt .offEnd c := by
  unfold stepArch
  simp only [hpc, pcOf_idx n0 (by omega)]
  have : ¬ ((n0 : Int) < (app.instrs.length : Int)) := by omega
  simp only [this, not_false_eq_true, if_true]
  exact ⟨_, rfl⟩

theorem flush_empty (u : Model.Mmu.Mmu) (mem : List Byte) (h : u.l1d.lines = []) :
    Model.Mmu.flush cfg u mem = .ok (mem, 0) := by
  simp only [Model.Mmu.flush, LineCache.lines, h, Model.Mmu.flushLines, pure, Except.pure]

/-- the head of a normal tick: `cycle++` and the four `Connect`s -/
def connected (s : State) : State :=
  let s := { s with cycles := s.cycles + 1 }
  let c := s.cycles
  { s with decodeBus := s.decodeBus.connect c, controlBus := s.controlBus.connect c,
           executeBus := s.executeBus.connect c, writeBus := s.writeBus.connect c }

/-- the end of a normal tick, after the execute units -/
def afterEus (s : State) (acc : EuAcc) : M (State × Event) :=
  if acc.err then pure (s, .done .err)
  else do
    let s ← wusCycle s
    if acc.ret then goRetA s
    else if acc.flush then
      let s := { s with writeBus := s.writeBus.connect (s.cycles + 1) }
      pure (goFlush s acc.from_ acc.pc s.wus.length 0)
    else if isEmpty s then finish s .offEnd
    else pure (s, .running)

theorem cycleM_normal_eq (app : App) (s : State) (hm : s.mode = .normal) :
    cycleM app s = (do
      let s ← fetchCycle app (connected s)
      let s ← decodeCycle app s
      let s := controlCycle s
      let (s, acc) ← eusCycle app s.eus.length 0 s {}
      afterEus s acc) := by
  unfold cycleM
  split
  · rfl
  all_goals (rename_i hh; rw [hm] at hh; cases hh)

/-- the facts that hold from the `Connect`s to the execute units -/
structure Ph (app : App) (s : State) (a : Arch) : Prop where
  front : ∃ n0, a.pc = pcOf n0 ∧ FrontJ app s n0
  back : Back s.ctx s.writeBus.inside s.executeBus.inside a
  eus : ∀ eu ∈ s.eus, eu.co = .none ∧ eu.memory = []
  wus : ∀ wu ∈ s.wus, wu.co = .none
  wbuf : s.writeBus.buffer = []
  wqk : s.writeBus.queue.length ≤ s.wus.length
  wql : s.writeBus.queueLength = 2
  wbl : s.writeBus.bufferLength = 2
  xql : s.executeBus.queueLength = 2
  xq : s.executeBus.queue.length ≤ 2
  eqw : s.eus.length = s.wus.length
  pend : s.cuPendings.items.length ≤ 1
  l1d : MmuOk s.mmu
  mode : s.mode = .normal
  retQ : 1 ≤ s.eus.length → ∀ x ∈ s.executeBus.queue, isRet x → s.executeBus.queue = [x]
  noRetBuf : ∀ e ∈ s.executeBus.buffer, ¬ isRet e.2
  seqs : Seqs app s a
  stale : ¬ NoCond app → s.ctx.sequenceID = 0 → Wlt s a ∨ Quiet s
  k1 : s.eus.length ≤ 1 ∨ NoCond app ∨ WideP s

theorem connect_split {α : Type} (b : BufferedBus α) (c : Int) :
    ∃ moved, b.buffer = moved ++ (b.connect c).buffer ∧ (b.connect c).queue = b.queue ++ moved.map (·.2) := by
  unfold BufferedBus.connect
  split
  · exact ⟨[], by simp, by simp⟩
  · obtain ⟨m, h1, h2, _⟩ := Proofs.Bus.connectLoop_spec b.queueLength c b.buffer b.queue
    exact ⟨m, h1, h2⟩

theorem connected_ph (app : App) (s : State) (a : Arch) (hr : RelG app s a) : Ph app (connected s) a := by
  obtain ⟨n0, hpc, hf⟩ := hr.front
  have hw : s.writeBus.connect (s.cycles + 1) = { s.writeBus with queue := s.writeBus.queue ++ s.writeBus.buffer.map (·.2), buffer := [] } :=
    connect_all _ _ (by rw [hr.wq, hr.wql]; simp only [List.length_nil]; have := hr.wb2; omega) hr.stamps
  have hxq : ((s.executeBus.connect (s.cycles + 1)).queue.length : Int) ≤ 2 := by
    have := connect_queue_le s.executeBus (s.cycles + 1) (by rw [hr.xql]; have := hr.xq; omega)
    rw [hr.xql] at this; exact this
  -- the execute bus: a `ret` issued in the last cycle moves to the (empty) queue alone
  have hret : (1 ≤ s.eus.length → ∀ x ∈ (s.executeBus.connect (s.cycles + 1)).queue, isRet x →
        (s.executeBus.connect (s.cycles + 1)).queue = [x]) ∧
      (∀ e ∈ (s.executeBus.connect (s.cycles + 1)).buffer, ¬ isRet e.2) := by
    by_cases hex : ∃ e ∈ s.executeBus.buffer, isRet e.2
    · obtain ⟨e, he, hre⟩ := hex
      obtain ⟨hq0, hb0⟩ := hr.retBuf e he hre
      have hc : s.executeBus.connect (s.cycles + 1) = { s.executeBus with queue := s.executeBus.queue ++ s.executeBus.buffer.map (·.2), buffer := [] } :=
        connect_all _ _ (by rw [hq0, hb0, hr.xql]; simp only [List.length_nil, List.length_cons]; omega)
          (by rw [hb0]; intro e' he'; simp only [List.mem_singleton] at he'; subst he'; exact Int.le_refl _)
      rw [hc]
      simp only [hq0, hb0, List.nil_append, List.map_cons, List.map_nil]
      exact ⟨fun _ x hx _ => by simp only [List.mem_singleton] at hx; rw [hx], fun e' he' => by cases he'⟩
    · have hnb : ∀ e ∈ s.executeBus.buffer, ¬ isRet e.2 := fun e he hre => hex ⟨e, he, hre⟩
      obtain ⟨moved, hm1, hm2⟩ := connect_split s.executeBus (s.cycles + 1)
      constructor
      · intro hK x hx hrx
        rw [hm2] at hx
        rcases List.mem_append.mp hx with hx | hx
        · exact absurd hrx (hr.retQ hK x hx)
        · simp only [List.mem_map] at hx
          obtain ⟨e, he, rfl⟩ := hx
          exact absurd hrx (hnb e (by rw [hm1]; exact List.mem_append_left _ he))
      · intro e he
        exact hnb e (by rw [hm1]; exact List.mem_append_right _ he)
  have hrun : runners (connected s) = runners s := by
    simp only [runners, connected, inside_connect]
  refine ⟨⟨n0, hpc, ?_⟩, ?_, hr.eus, hr.wus, ?_, ?_, ?_, ?_, ?_, by (show (s.executeBus.connect (s.cycles + 1)).queue.length ≤ 2); omega, hr.eqw, hr.pend, hr.l1d, hr.mode, hret.1, hret.2, ?_, ?_, ?_⟩
  rotate_right 3
  · exact hr.seqs.mono rfl (fun r hmem => Or.inl (by simpa only [runners, connected, inside_connect] using hmem))
  · intro hnc h0
    rcases hr.stale hnc h0 with h1 | h1
    · exact Or.inl (fun ec hec => h1 ec (by simpa only [connected, inside_connect] using hec))
    · right
      obtain ⟨r1, r2, r3, r4⟩ := runners_nil h1
      refine ⟨?_, r3, ?_, by simp only [connected, hw]⟩
      · show (s.executeBus.connect (s.cycles + 1)).inside = []
        rw [inside_connect]; simp only [BufferedBus.inside, r1, r2, List.map_nil, List.append_nil]
      obtain ⟨moved, hm1, hm2⟩ := connect_split s.controlBus (s.cycles + 1)
      simp only [BufferedBus.inside, List.append_eq_nil_iff, List.map_eq_nil_iff] at r4
      show (s.controlBus.connect (s.cycles + 1)).queue = []
      rw [hm2, r4.1]
      have : moved = [] := by
        have := hm1; rw [r4.2] at this
        exact (List.append_eq_nil_iff.mp this.symm).1
      rw [this]; rfl
  · rcases hr.k1 with h1 | h1 | h1
    · exact Or.inl h1
    · exact Or.inr (Or.inl h1)
    · have hc : s.executeBus.connect (s.cycles + 1) = { s.executeBus with queue := s.executeBus.queue ++ s.executeBus.buffer.map (·.2), buffer := [] } :=
        connect_all _ _ (by rw [h1.xq, hr.xql]; simp only [List.length_nil]; have := h1.len; omega) h1.due
      refine Or.inr (Or.inr ⟨by (show (s.executeBus.connect (s.cycles + 1)).buffer = []); rw [hc], ?_,
        by (show (s.executeBus.connect (s.cycles + 1)).bufferLength = 2); rw [(connect_lengths _ _).2]; exact h1.bl⟩)
      show BrHead (s.executeBus.connect (s.cycles + 1)).queue
      rw [hc, h1.xq]; exact h1.br
  · have heff : effD (connected s) = effD s := by simp only [effD, connected, inside_connect]
    refine ⟨by rw [hrun]; exact hf.chain, by rw [hrun]; exact hf.inRange, ?_, by rw [hrun, heff]; exact hf.opn,
      by rw [hrun]; exact hf.clo, hf.plain⟩
    simp only [connected, (connect_lengths _ _).2]; exact hf.dlen
  · simp only [connected, inside_connect]; exact hr.back
  · simp only [connected, hw]
  · simp only [connected, hw, hr.wq, List.nil_append, List.length_map]; exact hr.wbk
  · simp only [connected, (connect_lengths _ _).1]; exact hr.wql
  · simp only [connected, (connect_lengths _ _).2]; exact hr.wbl
  · simp only [connected, (connect_lengths _ _).1]; exact hr.xql

theorem fetch_ph (app : App) (hp : ProgJ app) (s s2 : State) (a : Arch) (h : Ph app s a) (hr : fetchCycle app s = .ok s2) :
    Ph app s2 a ∧ s2.fu.toCleanPending = false := by
  obtain ⟨n0, hpc, hf⟩ := h.front
  unfold fetchCycle at hr
  simp only [bind, Except.bind] at hr
  split at hr
  · cases hr
  · rename_i v hv
    obtain ⟨fu', mmu', bus'⟩ := v
    simp only [pure, Except.pure, Except.ok.injEq] at hr
    subst hr
    obtain ⟨f1, f2, f3⟩ := fetchCore_frame app _ _ _ _ _ _ _ hv
    have hmok : MmuOk mmu' := by
      obtain ⟨fu2, mmu2, bus2, hv2, hi2⟩ := fetchCore_ok app s.cycles s.fu s.mmu s.decodeBus h.l1d.2
      rw [hv] at hv2
      simp only [Except.ok.injEq, Prod.mk.injEq] at hv2
      obtain ⟨_, rfl, _⟩ := hv2
      exact ⟨by rw [f2]; exact h.l1d.1, hi2⟩
    have hfr : FrontJ app { s with fu := fu', mmu := mmu', decodeBus := bus' } n0 := by
      refine ⟨hf.chain, hf.inRange, by (show bus'.bufferLength = 2); rw [f1]; exact hf.dlen, ?_, hf.clo,
        fun hn => ⟨f3, (hf.plain hn).2⟩⟩
      intro hpd
      obtain ⟨h1, h2⟩ := hf.opn hpd
      obtain ⟨e1, e2, e3, e4⟩ := fetchCore_pcs app hp.small _ _ _ _ _ _ _ _ hf.dlen h1 hv
      refine ⟨?_, h2⟩
      show Pcs app _ fu' (effD _) 0
      simp only [effD, e2, Bool.false_eq_true, if_false]
      exact e1
    refine ⟨⟨⟨n0, hpc, hfr⟩, h.back, h.eus, h.wus, h.wbuf, h.wqk, h.wql, h.wbl,
      h.xql, h.xq, h.eqw, h.pend, hmok, h.mode, h.retQ, h.noRetBuf,
      h.seqs.mono rfl (fun r hmem => Or.inl hmem), h.stale, h.k1.imp id (Or.imp id (fun w => ⟨w.xb, w.br, w.bl⟩))⟩, f3⟩

theorem decode_ph (app : App) (hp : ProgJ app) (s s3 : State) (a : Arch) (h : Ph app s a) (hcl : s.fu.toCleanPending = false)
    (hr : decodeCycle app s = .ok s3) : Ph app s3 a := by
  obtain ⟨n0, hpc, hf⟩ := h.front
  unfold decodeCycle decodeCore at hr
  by_cases hdr : s.du.ret = true
  · simp only [hdr, if_true, bind, Except.bind, pure, Except.pure, Except.ok.injEq] at hr
    subst hr
    exact ⟨⟨n0, hpc, hf⟩, h.back, h.eus, h.wus, h.wbuf, h.wqk, h.wql, h.wbl, h.xql, h.xq, h.eqw, h.pend, h.l1d, h.mode, h.retQ, h.noRetBuf, h.seqs, h.stale, h.k1⟩
  · cases hpd : s.du.pendingBranchResolution with
    | true =>
      simp only [hdr, hpd, if_true, Bool.false_eq_true, if_false, bind, Except.bind, pure, Except.pure, Except.ok.injEq] at hr
      subst hr
      exact ⟨⟨n0, hpc, hf⟩, h.back, h.eus, h.wus, h.wbuf, h.wqk, h.wql, h.wbl, h.xql, h.xq, h.eqw, h.pend, h.l1d, h.mode, h.retQ, h.noRetBuf, h.seqs, h.stale, h.k1⟩
    | false =>
    simp only [hdr, hpd, Bool.false_eq_true, if_false, bind, Except.bind] at hr
    split at hr
    · cases hr
    · rename_i v hv
      obtain ⟨du', d', c'⟩ := v
      simp only [pure, Except.pure, Except.ok.injEq] at hr
      subst hr
      have hchain := hf.chain
      simp only [runners] at hchain
      rw [chain_append] at hchain
      have hin := hf.inRange
      obtain ⟨hpcs, hnoj⟩ := hf.opn hpd
      simp only [effD, hcl, Bool.false_eq_true, if_false] at hpcs
      simp only [runners, List.length_append] at hin hpcs
      have hpcs' : Pcs app (n0 + (s.executeBus.inside ++ s.cuPendings.items.map (·.2)).length + s.controlBus.inside.length)
          s.fu s.decodeBus.inside 0 := by
        have e : n0 + (s.executeBus.inside ++ s.cuPendings.items.map (·.2)).length + s.controlBus.inside.length =
            n0 + (s.executeBus.inside.length + (s.cuPendings.items.map (·.2)).length + s.controlBus.inside.length) := by
          simp only [List.length_append]; omega
        rw [e]; exact hpcs
      have hin' : n0 + (s.executeBus.inside ++ s.cuPendings.items.map (·.2)).length + s.controlBus.inside.length ≤ app.instrs.length := by
        simp only [List.length_append]; omega
      have hsq := decodeLoop_seq app s.ctx s.cycles _ s.du du' s.decodeBus d' s.controlBus c' hv
      have hqq := decodeLoop_queue app s.ctx s.cycles _ s.du du' s.decodeBus d' s.controlBus c' hv
      obtain ⟨e1, e2, e5, added, e3, e4⟩ := decodeLoop_front app hp.small s.ctx s.cycles s.fu
        (n0 + (s.executeBus.inside ++ s.cuPendings.items.map (·.2)).length) _ s.du du' s.decodeBus d' s.controlBus c'
        hchain.2 hin' hpcs' hv
      have hrun3 : runners { s with du := du', decodeBus := d', controlBus := c' } = runners s ++ added := by
        simp only [runners, e3, List.append_assoc]
      have hch3 : Chain app n0 (runners { s with du := du', decodeBus := d', controlBus := c' }) := by
        simp only [runners]; rw [chain_append]; exact ⟨hchain.1, e1⟩
      have hfr : FrontJ app { s with du := du', decodeBus := d', controlBus := c' } n0 := by
        refine ⟨hch3, ?_, by (show d'.bufferLength = 2); rw [e5]; exact hf.dlen, ?_, ?_, ?_⟩
        · simp only [runners, List.length_append] at e2 ⊢; omega
        · intro hpd'
          rcases e4 with ⟨u1, u2, u3⟩ | ⟨u1, _⟩
          · refine ⟨?_, ?_⟩
            · show Pcs app _ s.fu (effD _) 0
              simp only [effD, hcl, Bool.false_eq_true, if_false]
              simp only [runners, List.length_append] at u2 ⊢
              rw [Nat.add_assoc] at u2; exact u2
            · intro r hr
              rw [hrun3] at hr
              rcases List.mem_append.mp hr with hr | hr
              · exact hnoj r hr
              · exact u3 r hr
          · rw [show du'.pendingBranchResolution = true from u1] at hpd'; cases hpd'
        · intro hpd'
          rcases e4 with ⟨u1, _, _⟩ | ⟨_, pre, j, u2, u3, u4⟩
          · rw [show du'.pendingBranchResolution = s.du.pendingBranchResolution from u1, hpd] at hpd'; cases hpd'
          · refine ⟨runners s ++ pre, j, by rw [hrun3, u2, List.append_assoc], u3, ?_⟩
            intro r hr
            rcases List.mem_append.mp hr with hr | hr
            · exact hnoj r hr
            · exact u4 r hr
        · intro hn
          refine ⟨hcl, ?_⟩
          rcases e4 with ⟨u1, _, _⟩ | ⟨_, pre, j, u2, u3, u4⟩
          · rw [show du'.pendingBranchResolution = s.du.pendingBranchResolution from u1]; exact hpd
          · exfalso
            have hjm : j.instr ∈ app.instrs := chain_mem app _ n0 hch3 j (by rw [hrun3, u2]; simp)
            simp only [NoJmp, List.all_eq_true, Bool.not_eq_true'] at hn
            have := hn j.instr hjm
            simp only [isJ] at u3
            rw [u3] at this; cases this
      refine ⟨⟨n0, hpc, hfr⟩,
        h.back, h.eus, h.wus, h.wbuf, h.wqk, h.wql, h.wbl, h.xql, h.xq, h.eqw, h.pend, h.l1d, h.mode, h.retQ, h.noRetBuf, ?_, ?_, h.k1.imp id (Or.imp id (fun w => ⟨w.xb, w.br, w.bl⟩))⟩
      · refine h.seqs.mono rfl ?_
        intro r hmem
        simp only [runners, List.mem_append] at hmem ⊢
        rcases hmem with (hmem | hmem) | hmem
        · exact Or.inl (Or.inl (Or.inl hmem))
        · exact Or.inl (Or.inl (Or.inr hmem))
        · rcases hsq r hmem with h1 | h1
          · exact Or.inl (Or.inr h1)
          · right; intro h0; rw [h1, h0]; simp
      · intro hnc h0
        rcases h.stale hnc h0 with h1 | h1
        · exact Or.inl h1
        · exact Or.inr ⟨h1.1, h1.2.1, by (show c'.queue = []); rw [hqq]; exact h1.2.2.1, h1.2.2.2⟩

/-- the control unit: the result is ready for the execute units -/
theorem control_mid (app : App) (s : State) (a : Arch) (h : Ph app s a) : Mid app (controlCycle s) a 0 ∧
    (∀ wu ∈ (controlCycle s).wus, wu.co = .none) ∧ (controlCycle s).writeBus.queue.length ≤ (controlCycle s).wus.length ∧
    (controlCycle s).writeBus.queueLength = 2 ∧ (controlCycle s).executeBus.queueLength = 2 ∧
    (controlCycle s).executeBus.queue.length ≤ 2 ∧ (controlCycle s).eus.length = (controlCycle s).wus.length ∧
    (controlCycle s).cuPendings.items.length ≤ 1 ∧ MmuOk (controlCycle s).mmu ∧ (controlCycle s).mode = .normal := by
  obtain ⟨n0, hpc, hf⟩ := h.front
  obtain ⟨pushed, i1, i2, i3, fr, hplen⟩ := controlCycle_spec s h.pend
  obtain ⟨b1, b2, b3, b4⟩ := issued_back i1 h.back
  have hbuf := issued_buffer i1
  have hbh := issued_branch_head i1
  have hrb := issued_ret i1 h.noRetBuf
  simp only at b1 b2 b3 b4 hrb hbuf
  have hrun : runners (controlCycle s) = runners s := by
    simp only [runners, b4, List.append_assoc]
    rw [← List.append_assoc pushed, i2]
  have heff : effD (controlCycle s) = effD s := by simp only [effD, fr.fu, fr.decodeBus]
  refine ⟨⟨⟨n0, hpc, ⟨by rw [hrun]; exact hf.chain, by rw [hrun]; exact hf.inRange, by rw [fr.decodeBus]; exact hf.dlen,
      by rw [hrun, fr.fu, fr.du, heff]; exact hf.opn, by rw [hrun, fr.du]; exact hf.clo, by rw [fr.fu, fr.du]; exact hf.plain⟩⟩,
      ?_, by rw [fr.eus]; exact h.eus, ?_, ?_, ?_, ?_, ?_, ?_,
      h.seqs.mono (issued_sid i1).1 (fun r hmem => Or.inl (by rw [hrun] at hmem; exact hmem)),
      ?_, ?_⟩,
    by rw [fr.wus]; exact h.wus, by rw [fr.writeBus, fr.wus]; exact h.wqk, by rw [fr.writeBus]; exact h.wql,
    by rw [b3]; exact h.xql, by rw [b2]; exact h.xq, by rw [fr.eus, fr.wus]; exact h.eqw, i3, by rw [fr.mmu]; exact h.l1d,
    by rw [fr.mode]; exact h.mode⟩
  · rw [fr.writeBus]; exact b1
  · rw [fr.writeBus, h.wbuf]; exact Nat.le_refl _
  · rw [fr.writeBus, h.wbuf, b2]; simp only [List.length_nil, Nat.zero_add]; exact h.xq
  · rw [fr.writeBus, h.wbuf]; intro e he; cases he
  · rw [fr.writeBus]; exact h.wbl
  · intro hK x hx hrx
    rw [b2] at hx ⊢
    rw [fr.eus] at hK
    exact ⟨h.retQ hK x hx hrx, rfl⟩
  · rw [fr.cycles]; exact hrb
  · intro hnc h0
    rw [(issued_sid i1).1] at h0
    rcases h.stale hnc h0 with h1 | h1
    · exact Or.inl (fun ec hec => h1 ec (by rw [fr.writeBus] at hec; exact hec))
    · obtain ⟨q1, q2, q3⟩ := controlCycle_quiet s h1.2.1 h1.2.2.1
      exact Or.inr (Or.inl ⟨by rw [q1]; exact h1.1, by rw [q2]; exact h1.2.1, q3, by rw [fr.writeBus]; exact h1.2.2.2⟩)
  · rcases h.k1 with h1 | h1 | h1
    · exact Or.inl (by rw [fr.eus]; exact h1)
    · exact Or.inr (Or.inl h1)
    · have hbuf' : (controlCycle s).executeBus.buffer = pushed.map (fun r => (s.cycles + 1, r)) := by
        rw [hbuf, h1.xb]; rfl
      have hrem : s.executeBus.remainingToAdd = 2 := by
        simp only [BufferedBus.remainingToAdd, h1.xb, List.length_nil, h1.bl]; rfl
      have hbl' : (controlCycle s).executeBus.bufferLength = 2 := by
        have := issued_bl i1; simp only at this; rw [this]; exact h1.bl
      refine Or.inr (Or.inr ⟨?_, Or.inr (by rw [b2]; have := h.xq; omega), ?_, ?_, ?_, hbl'⟩)
      · intro x hx hbx
        rw [b2] at hx ⊢
        obtain ⟨p1, p2, hsplit⟩ := List.append_of_mem hx
        have hp1 := h1.br p1 x p2 hsplit hbx
        subst hp1
        simp only [List.nil_append] at hsplit
        refine ⟨rfl, p2, hsplit, ?_⟩
        have hb2 : BrHead (x :: p2) := by rw [← hsplit]; exact h1.br
        exact brHead_cons hb2
      · rw [hbuf', fr.cycles]
        intro e he
        simp only [List.mem_map] at he
        obtain ⟨r, _, rfl⟩ := he
        exact Int.le_refl _
      · rw [hbuf', List.length_map]
        rw [hrem] at hplen
        have : max ((2 : Int) - 1) 0 = 1 := by decide
        rw [this] at hplen
        omega
      · rw [hbuf']
        have hmm : (pushed.map fun r => (s.cycles + 1, r)).map (·.2) = pushed := by
          rw [List.map_map]; exact List.map_id' pushed
        rw [hmm]
        intro pre b post hl hb
        have := hbh pre b post hl hb
        have : pre.length = 0 := by omega
        exact List.length_eq_zero_iff.mp this

/-! ### the drain after a `ret` -/

theorem goRetB_sim (app : App) (a0 : Arch) (s s' : State) (a : Arch) (k : Nat) (ev : Event)
    (hk : Proofs.Mvp4.seqIter app k a0 = some a) (hh : ∃ c, stepArch Proofs.Mvp4.dc app a = .halt .ret c)
    (hb : Back s.ctx s.writeBus.inside s.executeBus.inside a) (hw : ∀ wu ∈ s.wus, wu.co = .none)
    (hl : MmuOk s.mmu) (h : goRetB s = .ok (s', ev)) : TickPostG app a0 s' ev := by
  unfold goRetB at h
  split at h
  · simp only [pure, Except.pure, Except.ok.injEq, Prod.mk.injEq] at h
    obtain ⟨rfl, rfl⟩ := h
    exact ⟨k, a, hk, Or.inr (Or.inl ⟨hh, hb, hw, hl, rfl⟩)⟩
  · rename_i hc
    simp only [Bool.or_eq_true, Bool.not_eq_true', not_or, Bool.not_eq_false] at hc
    unfold finish at h
    rw [flush_empty s.mmu s.ctx.Memory hl.1] at h
    simp only [bind, Except.bind, pure, Except.pure, Except.ok.injEq, Prod.mk.injEq] at h
    obtain ⟨rfl, rfl⟩ := h
    have hwi := inside_nil_of_isEmpty _ hc.2
    have hregs := hb.regs
    rw [hwi] at hregs
    exact ⟨k, a, hk, hh, hregs.symm, hb.mem.symm⟩

theorem cycleM_retB_eq (app : App) (s : State) (hm : s.mode = .retB) :
    cycleM app s = (do
      let s ← wusCycle s
      let s := { s with cycles := s.cycles + 1 }
      goRetB { s with writeBus := s.writeBus.connect s.cycles }) := by
  unfold cycleM
  split
  · rename_i hh; rw [hm] at hh; cases hh
  · rename_i hh; rw [hm] at hh; cases hh
  · rfl
  · rename_i hh; rw [hm] at hh; cases hh

theorem eus_idle_any (s : State) (h : ∀ eu ∈ s.eus, eu.co = .none ∧ eu.memory = []) :
    s.eus.any (fun eu => !eu.isEmpty) = false := by
  simp only [List.any_eq_false, Bool.not_eq_true', Bool.not_eq_false', ExecUnit.isEmpty, beq_iff_eq]
  intro eu he; simp only [(h eu he).1]; decide

/-- **one tick is a number of steps of the unpipelined machine** (straight-line register-only programs that may `ret`,
any number of execute and write units) -/
theorem cycleM_simG (app : App) (hp : ProgJ app) (a0 : Arch) (hT : ∀ k a, Proofs.Mvp4.seqIter app k a0 = some a → TgtOk app a)
    (s s' : State) (a : Arch) (k : Nat) (ev : Event)
    (hk : Proofs.Mvp4.seqIter app k a0 = some a) (hr : RelG app s a ∨ RelB app s a ∨ RelF app s a) (h : cycleM app s = .ok (s', ev)) :
    TickPostG app a0 s' ev := by
  rcases hr with hr | hr | hr
  · rw [cycleM_normal_eq app s hr.mode] at h
    simp only [bind, Except.bind] at h
    have ph1 := connected_ph app s a hr
    split at h
    · cases h
    · rename_i s2 h2
      obtain ⟨ph2, hcl2⟩ := fetch_ph app hp _ s2 a ph1 h2
      split at h
      · cases h
      · rename_i s3 h3
        have ph3 := decode_ph app hp s2 s3 a ph2 hcl2 h3
        obtain ⟨hmid, c_wus, c_wqk, c_wql, c_xql, c_xq, c_eqw, c_pend, c_l1d, c_mode⟩ := control_mid app s3 a ph3
        split at h
        · cases h
        · rename_i v hv
          obtain ⟨s5, acc⟩ := v
          simp only at h
          rcases eusCycle_sim app hp a0 hT _ 0 _ s5 {} acc k a (by omega) hmid hk rfl hv with
            ⟨rfl, k', a', hk', hm5, keep, _⟩ | ⟨herr, k', a', hk', c, hc⟩ | ⟨rfl, k', a', hk', hret, _⟩ | ⟨a', from_, rfl, k', hk', hfl, _⟩
          · -- no error, no `ret`: the write units, then the end of the tick
            simp only [afterEus, Bool.false_eq_true, if_false, bind, Except.bind] at h
            have hwus5 : ∀ wu ∈ s5.wus, wu.co = .none := by rw [keep.wus]; exact c_wus
            split at h
            · cases h
            · rename_i s6 h6
              obtain ⟨b6, wk, q6⟩ := wusCycle_sim s5 s6 a' hwus5 hm5.back h6
              obtain ⟨n0, hpc, hf5⟩ := hm5.front
              have hf6 : FrontJ app s6 n0 := hf5.of_eq wk.executeBus wk.cuPendings wk.controlBus wk.fu wk.decodeBus wk.du
              have hq6 : s6.writeBus.queue = [] := by
                have h1 : s5.writeBus.queue.length ≤ s5.wus.length := by rw [keep.wq, keep.wus]; exact c_wqk
                exact List.length_eq_zero_iff.mp (by omega)
              have hl1d : MmuOk s6.mmu := by rw [wk.mmu, keep.mmu]; exact c_l1d
              have hcyc : s6.cycles = s5.cycles := wk.cycles
              split at h
              · -- everything is empty: the run has fallen off the end
                rename_i hemp
                simp only [isEmpty, Bool.and_eq_true, decide_eq_true_eq] at hemp
                obtain ⟨⟨⟨⟨⟨⟨⟨hcomp, hcu⟩, _⟩, hd⟩, hcb⟩, hxb⟩, hwb⟩, _⟩ := hemp
                unfold finish at h
                rw [flush_empty s6.mmu s6.ctx.Memory hl1d.1] at h
                simp only [bind, Except.bind, pure, Except.pure, Except.ok.injEq, Prod.mk.injEq] at h
                obtain ⟨rfl, rfl⟩ := h
                have hrn : runners s6 = [] := by
                  have : s6.cuPendings.items = [] := by
                    simp only [Queue.len] at hcu
                    exact List.length_eq_zero_iff.mp (by omega)
                  simp only [runners, inside_nil_of_isEmpty _ hxb, inside_nil_of_isEmpty _ hcb, this, List.map_nil, List.append_nil]
                have hdn := inside_nil_of_isEmpty _ hd
                have hwi := inside_nil_of_isEmpty _ hwb
                have hregs := b6.regs
                rw [hwi] at hregs
                refine ⟨k', a', hk', ?_, hregs.symm, b6.mem.symm⟩
                have hpd6 : s6.du.pendingBranchResolution = false := by
                  cases hpd : s6.du.pendingBranchResolution with
                  | false => rfl
                  | true =>
                    obtain ⟨pre, j, hpj, _⟩ := hf6.clo hpd
                    rw [hrn] at hpj
                    cases pre <;> cases hpj
                have heff6 : effD s6 = [] := by
                  simp only [effD, hdn, ite_self]
                obtain ⟨h0, p1, p2, p3, p4, p5, p6, p7⟩ := (hf6.opn hpd6).1
                rw [heff6] at p2 p7
                rw [hrn] at p3
                simp only [List.length_nil, Nat.add_zero] at p2 p3 p7
                have hin := hf6.inRange
                rw [hrn] at hin
                simp only [List.length_nil, Nat.add_zero] at hin
                have hge : app.instrs.length ≤ n0 := by
                  have := p7 hcomp
                  rcases p3 with p3 | p3
                  · omega
                  · exact p3.2
                exact stepArch_offEnd app a' n0 hpc hp.small hge hin
              · simp only [pure, Except.pure, Except.ok.injEq, Prod.mk.injEq] at h
                obtain ⟨rfl, rfl⟩ := h
                refine ⟨k', a', hk', Or.inl ⟨⟨n0, hpc, hf6⟩, b6, by rw [wk.eus]; exact hm5.eus, by rw [wk.wus]; exact hwus5, hq6,
                  ?_, ?_, ?_, ?_, ?_, ?_, ?_, ?_, ?_, hl1d, ?_, ?_, ?_, ?_, ?_, ?_⟩⟩
                · rw [wk.wbuf]; have := hm5.room; omega
                · rw [wk.wbuf, wk.wus, keep.wus]; have h1 := hm5.wbi; have h2 := c_eqw; omega
                · rw [wk.wbuf, hcyc]; exact hm5.stamps
                · rw [wk.wql, keep.wql]; exact c_wql
                · rw [wk.wbl]; exact hm5.wbl
                · rw [wk.executeBus, keep.xql]; exact c_xql
                · rw [wk.executeBus]; exact Nat.le_trans keep.xq c_xq
                · rw [wk.eus, wk.wus, keep.eul, keep.wus]; exact c_eqw
                · rw [wk.cuPendings, keep.pend]; exact c_pend
                · rw [wk.mode, keep.mode]; exact c_mode
                · intro hK x hx hrx
                  rw [wk.eus] at hK
                  rw [wk.executeBus] at hx
                  have := (hm5.retQ hK x hx hrx).2
                  rw [keep.eul] at hK
                  omega
                · rw [wk.executeBus, hcyc]; exact hm5.retBuf
                · exact hm5.seqs.mono wk.sid (fun r hmem => Or.inl (by simpa only [runners, wk.executeBus, wk.cuPendings, wk.controlBus] using hmem))
                · intro hnc h0
                  rw [wk.sid] at h0
                  have hrun6 : runners s6 = runners s5 := by simp only [runners, wk.executeBus, wk.cuPendings, wk.controlBus]
                  rcases hm5.stale hnc h0 with h1 | h1 | h1
                  · exact Or.inl (h1.mono wk.wsub)
                  · left
                    intro ec hec
                    simp only [BufferedBus.inside, hq6, wk.wbuf, h1.2.2.2, List.map_nil, List.append_nil] at hec
                    cases hec
                  · exact Or.inr (by rw [hrun6]; exact h1)
                · rcases hm5.k1 with h1 | h1 | h1
                  · exact Or.inl (by rw [wk.eus]; exact h1)
                  · exact Or.inr (Or.inl h1)
                  · by_cases hK1 : s6.eus.length ≤ 1
                    · exact Or.inl hK1
                    · refine Or.inr (Or.inr ⟨?_, ?_, ?_, ?_, ?_⟩)
                      · rw [wk.executeBus]
                        rcases h1.drain with hd | hd
                        · exact hd
                        · have e1 : s6.eus.length = (controlCycle s3).eus.length := by rw [wk.eus, keep.eul]
                          exact List.length_eq_zero_iff.mp (by omega)
                      · rw [wk.executeBus, hcyc]; exact h1.due
                      · rw [wk.executeBus]; exact h1.len
                      · rw [wk.executeBus]; exact h1.br
                      · rw [wk.executeBus]; exact h1.bl
          · simp only [afterEus, herr, if_true, pure, Except.pure, Except.ok.injEq, Prod.mk.injEq] at h
            obtain ⟨rfl, rfl⟩ := h
            exact ⟨k', a', hk', c, hc⟩
          · -- a `ret` was executed: the write units, then the drain
            simp only [afterEus, Bool.false_eq_true, if_false, if_true, bind, Except.bind] at h
            have hwus5 : ∀ wu ∈ s5.wus, wu.co = .none := by rw [hret.keep.wus]; exact c_wus
            split at h
            · cases h
            · rename_i s6 h6
              obtain ⟨b6, wk, _⟩ := wusCycle_sim s5 s6 a' hwus5 hret.back h6
              have hidle6 : ∀ eu ∈ s6.eus, eu.co = .none ∧ eu.memory = [] := by rw [wk.eus]; exact hret.eus
              unfold goRetA at h
              simp only [eus_idle_any s6 hidle6, Bool.false_eq_true, if_false] at h
              refine goRetB_sim app a0 _ s' a' k' ev hk' hret.halt ?_ (by (show ∀ wu ∈ s6.wus, wu.co = .none); rw [wk.wus]; exact hwus5)
                (by (show MmuOk s6.mmu); rw [wk.mmu, hret.keep.mmu]; exact c_l1d) h
              simp only [inside_connect]; exact b6
          · -- a taken branch has flushed: the write units, then the drain
            simp only [afterEus, Bool.false_eq_true, if_false, if_true, bind, Except.bind] at h
            have hwus5 : ∀ wu ∈ s5.wus, wu.co = .none := by rw [hfl.keep.wus]; exact c_wus
            obtain ⟨n4, _, hf4⟩ := hmid.front
            have hinv5 : DrainInv from_ a'.ctx.Registers s5 := ⟨hwus5, hfl.nomem, hfl.regsT⟩
            have hsid4 : (controlCycle s3).ctx.sequenceID = 0 ∨ NoCond app := hmid.seqs.sid
            have hff5 : FFacts app s5 a' from_ a'.pc :=
              ⟨hinv5, hfl.npc, rfl, hfl.mem, hfl.ratS, hfl.txS, hfl.ratA, hfl.txA,
               fun eu he => (hfl.eus eu he).2, by rw [hfl.keep.eul, hfl.keep.wus]; exact c_eqw,
               by rw [hfl.keep.wql]; exact c_wql, by rw [hfl.keep.wbl]; exact hmid.wbl, by rw [hfl.keep.xql]; exact c_xql,
               by rw [hfl.keep.decodeBus]; exact hf4.dlen,
               by rw [hfl.keep.mmu]; exact c_l1d, hfl.plain, by rw [hfl.keep.ctx]; exact hsid4,
               by rw [hfl.keep.eul, hfl.keep.xbl]; exact hmid.k1.imp id (Or.imp id (fun w => w.bl)),
               by rw [hfl.keep.wus, ← c_eqw]; exact hfl.k⟩
            split at h
            · cases h
            · rename_i s6 h6
              unfold wusCycle at h6
              rw [List.range_eq_range'] at h6
              obtain ⟨d6, k6⟩ := wus_drain_m1 from_ a'.ctx.Registers s5.wus.length 0 s5 s6 (by omega) hinv5 hfl.qKept h6
              have hff6 := hff5.keep d6 k6
              simp only [pure, Except.pure, Except.ok.injEq] at h
              have hev := congrArg Prod.snd h
              have hs := congrArg Prod.fst h
              simp only at hev hs
              have := goFlush_sim app hp.small a' from_ a'.pc s6.wus.length 0 _ (by simp) (hff6.connect (s6.cycles + 1)) (Or.inr hff6.wk)
              rw [← hev, ← hs]
              show TickPostG app a0 _ _
              rw [this.1]
              rcases this.2 with h1 | h1
              · exact ⟨k', a', hk', Or.inr (Or.inr h1)⟩
              · exact ⟨k', a', hk', Or.inl h1⟩
  · -- the drain after a `ret`
    rw [cycleM_retB_eq app s hr.mode] at h
    simp only [bind, Except.bind] at h
    split at h
    · cases h
    · rename_i s1 h1
      obtain ⟨b1, wk, _⟩ := wusCycle_sim s s1 a hr.wus hr.back h1
      refine goRetB_sim app a0 _ s' a k ev hk hr.halt ?_ (by (show ∀ wu ∈ s1.wus, wu.co = .none); rw [wk.wus]; exact hr.wus)
        (by (show MmuOk s1.mmu); rw [wk.mmu]; exact hr.l1d) h
      simp only [inside_connect]; exact b1

  · -- the drain before a flush
    obtain ⟨i, from_, pc, hm, hi, hff⟩ := hr
    unfold cycleM at h
    split at h
    · rename_i hh; rw [hm] at hh; cases hh
    · rename_i hh; rw [hm] at hh; cases hh
    · rename_i hh; rw [hm] at hh; cases hh
    · rename_i i' f' p' hh
      rw [hm] at hh
      simp only [Mode.flushW.injEq] at hh
      obtain ⟨rfl, rfl, rfl⟩ := hh
      simp only [bind, Except.bind] at h
      split at h
      · cases h
      · rename_i s1 h1
        have hff0 : FFacts app { s with writeBus := s.writeBus.connect (s.cycles + 1), cycles := s.cycles + 1 } a from_ pc := by
          have := hff.connect (s.cycles + 1)
          exact ⟨⟨this.inv.wus, this.inv.nomem, this.inv.regs⟩, this.npc, this.pceq, this.mem, this.ratS, this.txS, this.ratA, this.txA,
            this.eusM, this.eqw, this.wql, this.wbl, this.xql, this.dlen, this.l1d, this.clean, this.sid, this.k1, this.wk⟩
        obtain ⟨d1, k1⟩ := wuCycle_drainG from_ from_ a.ctx.Registers
          { s with writeBus := s.writeBus.connect (s.cycles + 1), cycles := s.cycles + 1 } s1 i hi hff0.inv
          (by intro ec q _; simp only [kept, Bool.not_not]) h1
        have hff1 := hff0.keep d1 k1
        simp only [pure, Except.pure, Except.ok.injEq] at h
        have hev := congrArg Prod.snd h
        have hs := congrArg Prod.fst h
        simp only at hev hs
        have hlen : s1.wus.length = s.wus.length := by rw [k1.wus]
        have := goFlush_sim app hp.small a from_ pc (s1.wus.length - i) i s1 (by omega) hff1 (Or.inr (by omega))
        rw [← hev, ← hs]
        show TickPostG app a0 _ _
        rw [this.1]
        rcases this.2 with h2 | h2
        · exact ⟨k, a, hk, Or.inr (Or.inr h2)⟩
        · exact ⟨k, a, hk, Or.inl h2⟩

/-! ### the statements of packages R60 and R60b step 1 (programs without conditional branches, any number of units) -/

/-- the state between two ticks as the statements of packages R60/R60b see it: the front of the pipeline, and — for
programs without branches and jumps — everything else -/
structure Rel (app : App) (s : State) (a : Arch) : Prop where
  front : ∃ n0, a.pc = pcOf n0 ∧ Front app s n0
  rest : NoCond app → RelG app s a

theorem RelG.weak {app : App} {s : State} {a : Arch} (h : RelG app s a) (hn : NoCond app) : Rel app s a := by
  obtain ⟨n0, h1, h2⟩ := h.front
  exact ⟨⟨n0, h1, h2.toFront (noJmp_of_noCond hn)⟩, fun _ => h⟩

theorem Rel.strong {app : App} {s : State} {a : Arch} (h : Rel app s a) (hn : NoCond app) : RelG app s a := h.rest hn

/-- what a tick has to do with the unpipelined run from `a0` -/
def TickPost (app : App) (a0 : Arch) (s' : State) : Event → Prop
  | .running => ∃ k a, Proofs.Mvp4.seqIter app k a0 = some a ∧ (Rel app s' a ∨ RelB app s' a ∨ RelF app s' a)
  | .done .offEnd => ∃ k a, Proofs.Mvp4.seqIter app k a0 = some a ∧ (∃ c, stepArch Proofs.Mvp4.dc app a = .halt .offEnd c) ∧
      s'.ctx.Registers = a.ctx.Registers ∧ s'.ctx.Memory = a.ctx.Memory
  | .done .err => ∃ k a, Proofs.Mvp4.seqIter app k a0 = some a ∧ ∃ c, stepArch Proofs.Mvp4.dc app a = .halt .err c
  | .done .ret => ∃ k a, Proofs.Mvp4.seqIter app k a0 = some a ∧ (∃ c, stepArch Proofs.Mvp4.dc app a = .halt .ret c) ∧
      s'.ctx.Registers = a.ctx.Registers ∧ s'.ctx.Memory = a.ctx.Memory
  | .done (.panic _) => True

theorem TickPostG.weak {app : App} {a0 : Arch} {s' : State} {ev : Event} (h : TickPostG app a0 s' ev) (hn : NoCond app) :
    TickPost app a0 s' ev := by
  cases ev with
  | running =>
    obtain ⟨k, a, hk, hr⟩ := h
    refine ⟨k, a, hk, ?_⟩
    rcases hr with hr | hr | hr
    · exact Or.inl (hr.weak hn)
    · exact Or.inr (Or.inl hr)
    · exact Or.inr (Or.inr hr)
  | done hh =>
    cases hh with
    | offEnd => exact h
    | ret => exact h
    | err => exact h
    | panic w => exact h

theorem noCond_of_slr (app : App) (h : StraightLineRet app = true) : NoCond app := by
  simp only [StraightLineRet, List.all_eq_true] at h
  simp only [NoCond, List.all_eq_true, Bool.not_eq_true']
  intro i hi
  have := h i hi
  simp only [slrInstr, Bool.and_eq_true, Bool.not_eq_true'] at this
  exact this.2

/-- programs of the class without `jalr`: every control transfer goes to a label -/
theorem tgtOk_of_proved (app : App) (hc : ProvedClass app = true) (a : Arch) : TgtOk app a := by
  have hj := jclass_of_proved app hc
  simp only [JClass, Bool.and_eq_true, List.all_eq_true] at hj
  refine tgtOk_of_labels app hj.1 ?_ a
  intro i hi hu
  have := noJmp_of_proved app hc
  simp only [NoJmp, List.all_eq_true, Bool.not_eq_true'] at this
  rw [this i hi] at hu; cases hu

theorem cycleM_simR (app : App) (hp : ProgR app) (a0 : Arch) (s s' : State) (a : Arch) (k : Nat) (ev : Event)
    (hk : Proofs.Mvp4.seqIter app k a0 = some a) (hr : Rel app s a ∨ RelB app s a) (h : cycleM app s = .ok (s', ev)) :
    TickPost app a0 s' ev :=
  (cycleM_simG app hp.toG.toJ a0 (fun _ a _ => tgtOk_of_proved app hp.toG.cls a) s s' a k ev hk
    (by rcases hr with h1 | h1
        · exact Or.inl (h1.strong (noCond_of_slr app hp.sl))
        · exact Or.inr (Or.inl h1)) h).weak (noCond_of_slr app hp.sl)

/-- the same for programs without `ret`, from the relation between normal ticks (the statement of package R60) -/
theorem cycleM_sim (app : App) (hp : Prog app) (a0 : Arch) (s s' : State) (a : Arch) (k : Nat) (ev : Event)
    (hk : Proofs.Mvp4.seqIter app k a0 = some a) (hr : Rel app s a) (h : cycleM app s = .ok (s', ev)) :
    TickPost app a0 s' ev :=
  cycleM_simR app hp.toR a0 s s' a k ev hk (Or.inl hr) h

end Proofs.Mvp60Sl

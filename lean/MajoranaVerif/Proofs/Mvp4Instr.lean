/-
  Proofs/Mvp4Instr.lean — instruction-level facts the pipeline argument of MVP-4 rests on,
  proved for all 45 REGENERATED instruction structs (Gen/Opcodes.lean):
    * `run` and `memoryRead` look at the context only through the registers listed in
      `readRegisters` (`run_congr`, `memoryRead_congr`);
    * the shape of an `Execution`: a register result names the single register of
      `writeRegisters` and is never accompanied by a store; no register result means
      `writeRegisters = []`; only branch/jump instruction types change the pc (`run_shape`).
-/
import MajoranaVerif.Model.Roles
open GoInt Model

set_option linter.unusedSimpArgs false
set_option linter.unusedVariables false

namespace Proofs.Mvp4

/-- unfold the per-struct methods of the generated instruction set -/
macro "unfold_instr" loc:(Lean.Parser.Tactic.location)? : tactic =>
  `(tactic| simp only [Gen.Instr.run, Gen.Instr.readRegisters, Gen.Instr.writeRegisters, Gen.Instr.memoryRead,
      Gen.Instr.instructionType, Model.fwdOf, Gen.op_add.Run, Gen.op_addi.Run, Gen.op_and.Run, Gen.op_andi.Run, Gen.op_auipc.Run, Gen.op_beq.Run, Gen.op_beqz.Run, Gen.op_bge.Run, Gen.op_bgeu.Run, Gen.op_ble.Run, Gen.op_blt.Run, Gen.op_bltu.Run, Gen.op_bne.Run, Gen.op_bnez.Run, Gen.op_div.Run, Gen.op_j.Run, Gen.op_jal.Run, Gen.op_jalr.Run, Gen.op_lui.Run, Gen.op_lb.Run, Gen.op_lh.Run, Gen.op_li.Run, Gen.op_lw.Run, Gen.op_nop.Run, Gen.op_mul.Run, Gen.op_mv.Run, Gen.op_or.Run, Gen.op_ori.Run, Gen.op_rem.Run, Gen.op_ret.Run, Gen.op_sb.Run, Gen.op_sh.Run, Gen.op_sll.Run, Gen.op_slli.Run, Gen.op_slt.Run, Gen.op_sltu.Run, Gen.op_slti.Run, Gen.op_sra.Run, Gen.op_srai.Run, Gen.op_srl.Run, Gen.op_srli.Run, Gen.op_sub.Run, Gen.op_sw.Run, Gen.op_xor.Run, Gen.op_xori.Run, Gen.op_add.ReadRegisters, Gen.op_addi.ReadRegisters, Gen.op_and.ReadRegisters, Gen.op_andi.ReadRegisters, Gen.op_auipc.ReadRegisters, Gen.op_beq.ReadRegisters, Gen.op_beqz.ReadRegisters, Gen.op_bge.ReadRegisters, Gen.op_bgeu.ReadRegisters, Gen.op_ble.ReadRegisters, Gen.op_blt.ReadRegisters, Gen.op_bltu.ReadRegisters, Gen.op_bne.ReadRegisters, Gen.op_bnez.ReadRegisters, Gen.op_div.ReadRegisters, Gen.op_j.ReadRegisters, Gen.op_jal.ReadRegisters, Gen.op_jalr.ReadRegisters, Gen.op_lui.ReadRegisters, Gen.op_lb.ReadRegisters, Gen.op_lh.ReadRegisters, Gen.op_li.ReadRegisters, Gen.op_lw.ReadRegisters, Gen.op_nop.ReadRegisters, Gen.op_mul.ReadRegisters, Gen.op_mv.ReadRegisters, Gen.op_or.ReadRegisters, Gen.op_ori.ReadRegisters, Gen.op_rem.ReadRegisters, Gen.op_ret.ReadRegisters, Gen.op_sb.ReadRegisters, Gen.op_sh.ReadRegisters, Gen.op_sll.ReadRegisters, Gen.op_slli.ReadRegisters, Gen.op_slt.ReadRegisters, Gen.op_sltu.ReadRegisters, Gen.op_slti.ReadRegisters, Gen.op_sra.ReadRegisters, Gen.op_srai.ReadRegisters, Gen.op_srl.ReadRegisters, Gen.op_srli.ReadRegisters, Gen.op_sub.ReadRegisters, Gen.op_sw.ReadRegisters, Gen.op_xor.ReadRegisters, Gen.op_xori.ReadRegisters, Gen.op_add.WriteRegisters, Gen.op_addi.WriteRegisters, Gen.op_and.WriteRegisters, Gen.op_andi.WriteRegisters, Gen.op_auipc.WriteRegisters, Gen.op_beq.WriteRegisters, Gen.op_beqz.WriteRegisters, Gen.op_bge.WriteRegisters, Gen.op_bgeu.WriteRegisters, Gen.op_ble.WriteRegisters, Gen.op_blt.WriteRegisters, Gen.op_bltu.WriteRegisters, Gen.op_bne.WriteRegisters, Gen.op_bnez.WriteRegisters, Gen.op_div.WriteRegisters, Gen.op_j.WriteRegisters, Gen.op_jal.WriteRegisters, Gen.op_jalr.WriteRegisters, Gen.op_lui.WriteRegisters, Gen.op_lb.WriteRegisters, Gen.op_lh.WriteRegisters, Gen.op_li.WriteRegisters, Gen.op_lw.WriteRegisters, Gen.op_nop.WriteRegisters, Gen.op_mul.WriteRegisters, Gen.op_mv.WriteRegisters, Gen.op_or.WriteRegisters, Gen.op_ori.WriteRegisters, Gen.op_rem.WriteRegisters, Gen.op_ret.WriteRegisters, Gen.op_sb.WriteRegisters, Gen.op_sh.WriteRegisters, Gen.op_sll.WriteRegisters, Gen.op_slli.WriteRegisters, Gen.op_slt.WriteRegisters, Gen.op_sltu.WriteRegisters, Gen.op_slti.WriteRegisters, Gen.op_sra.WriteRegisters, Gen.op_srai.WriteRegisters, Gen.op_srl.WriteRegisters, Gen.op_srli.WriteRegisters, Gen.op_sub.WriteRegisters, Gen.op_sw.WriteRegisters, Gen.op_xor.WriteRegisters, Gen.op_xori.WriteRegisters, Gen.op_add.MemoryRead, Gen.op_addi.MemoryRead, Gen.op_and.MemoryRead, Gen.op_andi.MemoryRead, Gen.op_auipc.MemoryRead, Gen.op_beq.MemoryRead, Gen.op_beqz.MemoryRead, Gen.op_bge.MemoryRead, Gen.op_bgeu.MemoryRead, Gen.op_ble.MemoryRead, Gen.op_blt.MemoryRead, Gen.op_bltu.MemoryRead, Gen.op_bne.MemoryRead, Gen.op_bnez.MemoryRead, Gen.op_div.MemoryRead, Gen.op_j.MemoryRead, Gen.op_jal.MemoryRead, Gen.op_jalr.MemoryRead, Gen.op_lui.MemoryRead, Gen.op_lb.MemoryRead, Gen.op_lh.MemoryRead, Gen.op_li.MemoryRead, Gen.op_lw.MemoryRead, Gen.op_nop.MemoryRead, Gen.op_mul.MemoryRead, Gen.op_mv.MemoryRead, Gen.op_or.MemoryRead, Gen.op_ori.MemoryRead, Gen.op_rem.MemoryRead, Gen.op_ret.MemoryRead, Gen.op_sb.MemoryRead, Gen.op_sh.MemoryRead, Gen.op_sll.MemoryRead, Gen.op_slli.MemoryRead, Gen.op_slt.MemoryRead, Gen.op_sltu.MemoryRead, Gen.op_slti.MemoryRead, Gen.op_sra.MemoryRead, Gen.op_srai.MemoryRead, Gen.op_srl.MemoryRead, Gen.op_srli.MemoryRead, Gen.op_sub.MemoryRead, Gen.op_sw.MemoryRead, Gen.op_xor.MemoryRead, Gen.op_xori.MemoryRead, Gen.op_add.InstructionType, Gen.op_addi.InstructionType, Gen.op_and.InstructionType, Gen.op_andi.InstructionType, Gen.op_auipc.InstructionType, Gen.op_beq.InstructionType, Gen.op_beqz.InstructionType, Gen.op_bge.InstructionType, Gen.op_bgeu.InstructionType, Gen.op_ble.InstructionType, Gen.op_blt.InstructionType, Gen.op_bltu.InstructionType, Gen.op_bne.InstructionType, Gen.op_bnez.InstructionType, Gen.op_div.InstructionType, Gen.op_j.InstructionType, Gen.op_jal.InstructionType, Gen.op_jalr.InstructionType, Gen.op_lui.InstructionType, Gen.op_lb.InstructionType, Gen.op_lh.InstructionType, Gen.op_li.InstructionType, Gen.op_lw.InstructionType, Gen.op_nop.InstructionType, Gen.op_mul.InstructionType, Gen.op_mv.InstructionType, Gen.op_or.InstructionType, Gen.op_ori.InstructionType, Gen.op_rem.InstructionType, Gen.op_ret.InstructionType, Gen.op_sb.InstructionType, Gen.op_sh.InstructionType, Gen.op_sll.InstructionType, Gen.op_slli.InstructionType, Gen.op_slt.InstructionType, Gen.op_sltu.InstructionType, Gen.op_slti.InstructionType, Gen.op_sra.InstructionType, Gen.op_srai.InstructionType, Gen.op_srl.InstructionType, Gen.op_srli.InstructionType, Gen.op_sub.InstructionType, Gen.op_sw.InstructionType, Gen.op_xor.InstructionType, Gen.op_xori.InstructionType] $[$loc]?)

/-- two contexts no instruction with fresh forward slots can tell apart on the registers `rs` -/
structure SameRegs (c1 c2 : Model.Context) (rs : List Reg) : Prop where
  rat1 : c1.rat = false
  rat2 : c2.rat = false
  tx1 : c1.Transaction.entries = []
  tx2 : c2.Transaction.entries = []
  regs : ∀ r ∈ rs, r ≠ 0 → GoMap.get1 c1.Registers r = GoMap.get1 c2.Registers r

theorem registerRead_plain (c : Model.Context) (hr : c.rat = false) (ht : c.Transaction.entries = [])
    (r : Reg) (seq : Word) :
    Gen.registerRead c {} r seq = if r = 0 then 0#32 else GoMap.get1 c.Registers r := by
  unfold Gen.registerRead
  by_cases h : r = 0
  · subst h; simp
  · have h' : (r == (0 : Reg)) = false := by simpa using h
    have : (r == ({} : Gen.Forward).Register) = false := h'
    simp [this, hr, GoMap.get, GoMap.find?, ht, h]

theorem registerRead_congr {c1 c2 : Model.Context} {rs : List Reg} (h : SameRegs c1 c2 rs)
    (r : Reg) (hr : r ∈ rs) (seq : Word) :
    Gen.registerRead c1 {} r seq = Gen.registerRead c2 {} r seq := by
  rw [registerRead_plain c1 h.rat1 h.tx1, registerRead_plain c2 h.rat2 h.tx2]
  by_cases h0 : r = 0
  · simp [h0]
  · simp [h0, h.regs r hr h0]


/-- `run` sees the context only through the registers in `readRegisters` -/
theorem run_congr (i : Gen.Instr) (hf : fwdOf i = {}) {c1 c2 : Model.Context}
    (h : SameRegs c1 c2 i.readRegisters) (labels : GoMap String Word) (pc : Word) (mem : List Byte) (seq : Word) :
    i.run c1 labels pc mem seq = i.run c2 labels pc mem seq := by
  have key : ∀ r ∈ i.readRegisters, Gen.registerRead c1 {} r seq = Gen.registerRead c2 {} r seq :=
    fun r hr => registerRead_congr h r hr seq
  cases i <;> unfold_instr at hf key ⊢ <;>
    simp only [List.mem_cons, List.mem_nil_iff, or_false, forall_eq_or_imp, forall_eq, List.not_mem_nil,
      false_implies, implies_true, forall_const] at key <;>
    (try rw [hf]) <;> (try simp only [key])

/-- `memoryRead` sees the context only through the registers in `readRegisters` -/
theorem memoryRead_congr (i : Gen.Instr) (hf : fwdOf i = {}) {c1 c2 : Model.Context}
    (h : SameRegs c1 c2 i.readRegisters) (seq : Word) :
    i.memoryRead c1 seq = i.memoryRead c2 seq := by
  have key : ∀ r ∈ i.readRegisters, Gen.registerRead c1 {} r seq = Gen.registerRead c2 {} r seq :=
    fun r hr => registerRead_congr h r hr seq
  cases i <;> unfold_instr at hf key ⊢ <;>
    simp only [List.mem_cons, List.mem_nil_iff, or_false, forall_eq_or_imp, forall_eq, List.not_mem_nil,
      false_implies, implies_true, forall_const] at key <;>
    (try rw [hf]) <;> (try simp only [key])


theorem isRegisterChange_eq (rd : Reg) (v : Word) :
    Gen.IsRegisterChange rd v = (rd, if rd = 0 then 0#32 else v) := by
  unfold Gen.IsRegisterChange Gen.Reg.Zero
  by_cases h : rd = 0 <;> simp [h]

/-- the branch-type test of the branch unit -/
def isBranchType (t : Gen.InstructionType) : Bool := t.IsUnconditionalBranch || t.IsConditionalBranch

/-- shape of every `Execution` an instruction can return -/
structure Shape (i : Gen.Instr) (e : Gen.Execution) : Prop where
  regNoMem : e.RegisterChange = true → e.MemoryChange = false
  wregs : i.writeRegisters = if e.RegisterChange then [e.Register] else []
  pcBranch : e.PcChange = true → isBranchType i.instructionType = true
  retPlain : e.Return = true → e.RegisterChange = false ∧ e.MemoryChange = false ∧ e.PcChange = false
  memNoPc : e.MemoryChange = true → e.PcChange = false


theorem ite_ok {ε α} (c : Prop) [Decidable c] (a b : α) :
    (if c then (Except.ok a : Except ε α) else Except.ok b) = Except.ok (if c then a else b) := by
  split <;> rfl

theorem ite_pair {α β} (c : Prop) [Decidable c] (a b : α) (x y : β) :
    (if c then (a, x) else (b, y)) = (if c then a else b, if c then x else y) := by
  split <;> rfl

set_option maxHeartbeats 4000000 in
theorem run_shape (i : Gen.Instr) (c : Model.Context) (labels : GoMap String Word) (pc : Word)
    (mem : List Byte) (seq : Word) (e : Gen.Execution) (h : i.run c labels pc mem seq = .ok e) : Shape i e := by
  cases i <;> unfold_instr at h ⊢ <;>
    simp only [isRegisterChange_eq, pure, Except.pure, ite_ok, ite_pair, ite_self, bind, Except.bind, throw, throwThe, MonadExceptOf.throw] at h <;>
    (repeat' split at h) <;>
    (first
      | (injection h with h; subst h; constructor <;> (try unfold_instr) <;> simp [isBranchType, Gen.InstructionType.IsUnconditionalBranch, Gen.InstructionType.IsConditionalBranch])
      | (exact absurd h (by simp)))

end Proofs.Mvp4

/-
  Proofs/Mvp4Spec.lean — the hypothesis `Model.Mvp4.seqOk` of the MVP-4 refinement theorems holds along every
  run the specification `Spec.run` accepts as well-formed (naturally aligned in-bounds accesses, control
  transfers to instruction boundaries inside the program).  The access part is MVP-3's
  `Proofs.Mvp3Spec.accessOk_of_spec`; the jump part (no jump to -1) follows from `Spec.targetOk`.
-/
import MajoranaVerif.Proofs.Mvp4Run
import MajoranaVerif.Proofs.Mvp3Spec
open GoInt Model Model.Mvp4 Model.Seq Proofs.Refine

set_option linter.unusedSimpArgs false
set_option linter.unusedVariables false

namespace Proofs.Mvp4

/-- the jump part of `stepOk` -/
def jumpOk (app : App) (a : Arch) : Bool :=
  let idx := Int.tdiv a.pc.toInt 4
  if ¬ idx < app.instrs.length then true
  else if idx < 0 then true
  else match app.instrs[idx.toNat]? with
    | none => true
    | some i =>
      match (i.memoryRead a.ctx 0#32).mapM (readMem a.ctx.Memory) with
      | none => true
      | some bytes =>
        match i.run a.ctx app.labels a.pc bytes 0#32 with
        | .error _ => true
        | .ok e => if e.PcChange then e.NextPc != BitVec.ofInt 32 (-1) else true

theorem cfg_line : cfg.l1DLineSize = 64 := by decide

theorem stepOk_split (app : App) (a : Arch) :
    stepOk app a = (Model.Mvp3.accessOk 64 app a && jumpOk app a) := by
  unfold stepOk Model.Mvp3.accessOk jumpOk
  simp only [cfg_line]
  by_cases h1 : Int.tdiv a.pc.toInt 4 < app.instrs.length
  · simp only [h1, not_true_eq_false, if_false]
    by_cases h2 : Int.tdiv a.pc.toInt 4 < 0
    · simp [h2]
    · simp only [h2, if_false]
      cases hg : app.instrs[(Int.tdiv a.pc.toInt 4).toNat]? with
      | none => rfl
      | some i =>
        simp only
        cases hm : (i.memoryRead a.ctx 0#32).mapM (readMem a.ctx.Memory) with
        | none => simp
        | some bytes =>
          simp only
          cases hr : i.run a.ctx app.labels a.pc bytes 0#32 with
          | error f => simp
          | ok e => simp only [Bool.and_assoc]
  · simp [h1]


theorem jumpOk_of_next {app : App} {a a' : Arch} {c : StepCost} (h : stepArch dc app a = .next a' c)
    (hne : a'.pc ≠ BitVec.ofInt 32 (-1)) : jumpOk app a = true := by
  obtain ⟨i, bytes, e, ex, h0, hlt, hg, hm, hr, _, _, hpc, _⟩ := Proofs.Seq.stepArch_next_inv dc app a a' c h
  unfold jumpOk
  have h0' : ¬ Int.tdiv a.pc.toInt 4 < 0 := by omega
  simp only [hlt, not_true_eq_false, if_false, h0', hg, hm, hr]
  by_cases hp : e.PcChange = true
  · simp only [hp, if_true] at hpc ⊢
    rw [← hpc]; simpa using hne
  · simp [hp]

theorem jumpOk_of_halt {app : App} {a : Arch} {h : Halt} {c : StepCost} (hs : stepArch dc app a = .halt h c) :
    jumpOk app a = true := by
  unfold jumpOk
  unfold stepArch at hs
  simp only at hs ⊢
  by_cases h1 : Int.tdiv a.pc.toInt 4 < app.instrs.length
  · simp only [h1, not_true_eq_false, if_false] at hs ⊢
    by_cases h2 : Int.tdiv a.pc.toInt 4 < 0
    · simp [h2]
    · simp only [h2, if_false] at hs ⊢
      cases hg : app.instrs[(Int.tdiv a.pc.toInt 4).toNat]? with
      | none => rfl
      | some i =>
        simp only [hg] at hs ⊢
        cases hm : (i.memoryRead a.ctx 0#32).mapM (readMem a.ctx.Memory) with
        | none => rfl
        | some bytes =>
          simp only [hm] at hs ⊢
          cases hr : i.run a.ctx app.labels a.pc bytes 0#32 with
          | error f => rfl
          | ok e =>
            have hshape := run_shape i a.ctx app.labels a.pc bytes 0#32 e hr
            obtain ⟨ex, hex⟩ := Proofs.Refine.cycles_ok i.instructionType
            simp only [hr, hex] at hs ⊢
            by_cases hret : e.Return = true
            · simp [(hshape.retPlain hret).2.2]
            · simp only [hret, if_false] at hs
              by_cases hrc : e.RegisterChange = true
              · simp [hrc] at hs
              · simp only [hrc, if_false] at hs
                by_cases hmc : e.MemoryChange = true
                · simp [hshape.memNoPc hmc]
                · simp [hmc] at hs
  · simp [h1]


theorem pc_ne_minus_one {pc : Word} {n : Nat} (hn : n < 250) (h : pc.toNat ≤ 4 * n) : pc ≠ BitVec.ofInt 32 (-1) := by
  intro he
  have : (BitVec.ofInt 32 (-1)).toNat = 4294967295 := by decide
  rw [he, this] at h
  omega

/-- **`seqOk` holds along every well-formed specification run** -/
theorem seqOk_of_spec_go (app : App) (hw : WfApp app) :
    ∀ (fuel : Nat) (ctx : Model.Context) (m : Spec.Machine) (pc : Word) (k : Nat) (tr : Array Spec.Event) (T : Nat),
      Proofs.Refine.Rel ctx m → m.mem.size + 64 ≤ 2 ^ 31 → pc.toNat ≤ 4 * app.instrs.length →
      (∀ why, (Spec.run.go (specProg app) fuel pc m k tr).stop ≠ .notWf why) →
      seqOk app T ⟨ctx, pc⟩ = true := by
  intro fuel
  induction fuel with
  | zero =>
    intro ctx m pc k tr T _ _ _ hwf
    exact absurd rfl (hwf "fuel exhausted")
  | succ fuel ih =>
    intro ctx m pc k tr T hR hsz hpc hwf
    cases T with
    | zero => rfl
    | succ T =>
      obtain ⟨hnext, hoff, hret, herr⟩ := step_sim dc app hw ctx m hR pc hpc
      unfold Spec.run.go at hwf
      unfold seqOk
      simp only [Bool.and_eq_true]
      rw [stepOk_split, Bool.and_eq_true]
      cases hs : Spec.step (specProg app) pc m with
      | inl s =>
        rw [hs] at hwf
        simp only at hwf
        have hacc : Model.Mvp3.accessOk 64 app ⟨ctx, pc⟩ = true := by
          apply Proofs.Mvp3Spec.accessOk_of_spec app hw ctx m hR hsz pc hpc
          intro why hc
          rw [hs] at hc
          injection hc with hc
          exact hwf why hc
        cases s with
        | ret =>
          obtain ⟨c, hc⟩ := hret hs
          exact ⟨⟨hacc, jumpOk_of_halt hc⟩, by
            have : stepArch Gen.Consts.mvp1.cyclesDecode app ⟨ctx, pc⟩ = .halt .ret c := hc
            rw [this]⟩
        | offEnd =>
          obtain ⟨c, hc⟩ := hoff hs
          exact ⟨⟨hacc, jumpOk_of_halt hc⟩, by
            have : stepArch Gen.Consts.mvp1.cyclesDecode app ⟨ctx, pc⟩ = .halt .offEnd c := hc
            rw [this]⟩
        | error e =>
          obtain ⟨c, hc⟩ := herr e hs
          exact ⟨⟨hacc, jumpOk_of_halt hc⟩, by
            have : stepArch Gen.Consts.mvp1.cyclesDecode app ⟨ctx, pc⟩ = .halt .err c := hc
            rw [this]⟩
        | notWf w => exact absurd rfl (hwf w)
      | inr x =>
        obtain ⟨pc', m', ev⟩ := x
        rw [hs] at hwf
        simp only at hwf
        have hacc : Model.Mvp3.accessOk 64 app ⟨ctx, pc⟩ = true := by
          apply Proofs.Mvp3Spec.accessOk_of_spec app hw ctx m hR hsz pc hpc
          intro why hc
          rw [hs] at hc
          cases hc
        obtain ⟨ctx', c, hc, hR', hpc'⟩ := hnext pc' m' ev hs
        refine ⟨⟨hacc, jumpOk_of_next hc (pc_ne_minus_one hw.small hpc')⟩, ?_⟩
        have : stepArch Gen.Consts.mvp1.cyclesDecode app ⟨ctx, pc⟩ = .next ⟨ctx', pc'⟩ c := hc
        rw [this]
        exact ih ctx' m' pc' _ _ T hR' (by rw [Proofs.Mvp3Spec.step_size _ _ _ _ _ _ hs]; exact hsz) hpc' hwf

/-- for a specification run that ended (by `ret`, past the end, or with a defined error) within its fuel, the
side conditions `seqOk` hold for every budget -/
theorem seqOk_of_spec (app : App) (hw : WfApp app) (ctx : Model.Context) (m : Spec.Machine) (hR : Proofs.Refine.Rel ctx m)
    (hmsz : m.mem.size + 64 ≤ 2 ^ 31) (fuel : Nat) (hwf : ∀ why, (Spec.run (specProg app) m fuel).stop ≠ .notWf why) (T : Nat) :
    seqOk app T ⟨ctx, 0#32⟩ = true := by
  unfold Spec.run at hwf
  have hsz : ¬ (specProg app).instrs.size ≥ 250 := by
    have := hw.small
    simp [specProg]; omega
  simp only [hsz, if_false] at hwf
  exact seqOk_of_spec_go app hw fuel ctx m 0#32 0 #[] T hR hmsz (by simp) hwf

end Proofs.Mvp4

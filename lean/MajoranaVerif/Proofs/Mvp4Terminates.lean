/-
  Proofs/Mvp4Terminates.lean — totality of MVP-4: along every run the specification accepts as well-formed and
  that ends within its fuel, the MVP-4 model run ends too, within some tick budget, and not with a Go panic.
  Outer induction over the steps of the specification run, inner induction over the measure `phi`
  (`cycle_live`: every tick that executes nothing decreases it).
-/
import MajoranaVerif.Proofs.Mvp4Total
import MajoranaVerif.Proofs.Mvp4Spec
open GoInt Model Model.Mvp4 Model.Seq

set_option linter.unusedSimpArgs false
set_option linter.unusedVariables false

namespace Proofs.Mvp4

/-- the run ends, within some budget, and not with a panic -/
def Ends (app : App) (s : State) (n : Nat) : Prop :=
  ∃ ticks hk, (runFrom app ticks s n).halt = some hk ∧ ∀ w, hk ≠ .panic w

theorem ends_of_running {app : App} {s s' : State} {n : Nat} (h : cycle app s = (s', .running))
    (he : Ends app s' (n + 1)) : Ends app s n := by
  obtain ⟨t, hk, h1, h2⟩ := he
  refine ⟨t + 1, hk, ?_, h2⟩
  unfold runFrom; simp only [h]; exact h1

theorem ends_of_done {app : App} {s s' : State} {n : Nat} {hk : Halt} (h : cycle app s = (s', .done hk))
    (hnp : ∀ w, hk ≠ .panic w) : Ends app s n := by
  refine ⟨1, hk, ?_, hnp⟩
  unfold runFrom; simp only [h]

/-- the inner induction: while the architectural state stays `a`, the measure decreases; when it moves on, the
continuation `hcont` takes over -/
theorem ends_at {app : App} (hsmall : app.instrs.length < 250) (hnf : NoFwd app) (a : Arch)
    (hok : stepOk app a = true) (hgood : SeqGood app a) (hapc : a.pc.toNat ≤ 4 * app.instrs.length)
    (hnext : ∀ a' c, stepArch dc app a = .next a' c → a'.pc.toNat ≤ 4 * app.instrs.length)
    (hcont : ∀ a' c s' n, stepArch dc app a = .next a' c → Rel app s' a' → Live app s' → Ends app s' n) :
    ∀ (k : Nat) (s : State) (n : Nat), phi app s ≤ k → Rel app s a → Live app s → Ends app s n := by
  intro k
  induction k with
  | zero =>
    intro s n hk hR hlv
    obtain ⟨s', ev, hc, hpost⟩ := cycle_live hsmall hR hlv hnf hok hgood hapc hnext
    cases ev with
    | running =>
      rcases hpost with ⟨_, _, hlt⟩ | ⟨a1, c, hst, hR', hlv', _⟩
      · omega
      · exact ends_of_running hc (hcont a1 c s' (n + 1) hst hR' hlv')
    | done hk' =>
      cases hk' with
      | panic w => exact hpost.elim
      | ret => exact ends_of_done hc (fun w h => by cases h)
      | offEnd => exact ends_of_done hc (fun w h => by cases h)
      | err => exact ends_of_done hc (fun w h => by cases h)
  | succ k ih =>
    intro s n hk hR hlv
    obtain ⟨s', ev, hc, hpost⟩ := cycle_live hsmall hR hlv hnf hok hgood hapc hnext
    cases ev with
    | running =>
      rcases hpost with ⟨hR', hlv', hlt⟩ | ⟨a1, c, hst, hR', hlv', _⟩
      · exact ends_of_running hc (ih s' (n + 1) (by omega) hR' hlv')
      · exact ends_of_running hc (hcont a1 c s' (n + 1) hst hR' hlv')
    | done hk' =>
      cases hk' with
      | panic w => exact hpost.elim
      | ret => exact ends_of_done hc (fun w h => by cases h)
      | offEnd => exact ends_of_done hc (fun w h => by cases h)
      | err => exact ends_of_done hc (fun w h => by cases h)


theorem stepOk_of_seqOk_one {app : App} {a : Arch} (h : seqOk app 1 a = true) : stepOk app a = true := by
  unfold seqOk at h
  simp only [Bool.and_eq_true] at h
  exact h.1

/-- the outer induction over the steps of the specification run -/
theorem ends_of_spec (app : App) (hw : Proofs.Refine.WfApp app) :
    ∀ (fuel : Nat) (ctx : Model.Context) (m : Spec.Machine) (pc : Word) (k : Nat) (tr : Array Spec.Event),
      Proofs.Refine.Rel ctx m → m.mem.size + 64 ≤ 2 ^ 31 → pc.toNat ≤ 4 * app.instrs.length →
      (∀ why, (Spec.run.go (Proofs.Refine.specProg app) fuel pc m k tr).stop ≠ .notWf why) →
      ∀ (s : State) (n : Nat), Rel app s ⟨ctx, pc⟩ → Live app s → Ends app s n := by
  intro fuel
  induction fuel with
  | zero =>
    intro ctx m pc k tr _ _ _ hwf
    exact absurd rfl (hwf "fuel exhausted")
  | succ fuel ih =>
    intro ctx m pc k tr hR hsz hpc hwf s n hRel hlv
    have hok : stepOk app ⟨ctx, pc⟩ = true :=
      stepOk_of_seqOk_one (seqOk_of_spec_go app hw (fuel + 1) ctx m pc k tr 1 hR hsz hpc hwf)
    obtain ⟨hnext, hoff, hret, herr⟩ := Proofs.Refine.step_sim dc app hw ctx m hR pc hpc
    unfold Spec.run.go at hwf
    cases hs : Spec.step (Proofs.Refine.specProg app) pc m with
    | inl st =>
      rw [hs] at hwf
      simp only at hwf
      -- the unpipelined machine halts here (`ret`, past the end, or a defined error)
      have hhalt : ∃ h c, stepArch dc app ⟨ctx, pc⟩ = .halt h c ∧ ∀ w, h ≠ .panic w := by
        cases st with
        | ret => obtain ⟨c, hc⟩ := hret hs; exact ⟨_, c, hc, fun w h => by cases h⟩
        | offEnd => obtain ⟨c, hc⟩ := hoff hs; exact ⟨_, c, hc, fun w h => by cases h⟩
        | error e => obtain ⟨c, hc⟩ := herr e hs; exact ⟨_, c, hc, fun w h => by cases h⟩
        | notWf w => exact absurd rfl (hwf w)
      obtain ⟨h, c, hc, hnp⟩ := hhalt
      refine ends_at hw.small hw.nofwd ⟨ctx, pc⟩ hok ?_ hpc ?_ ?_ (phi app s) s n (Nat.le_refl _) hRel hlv
      · intro w c' hx; rw [hc] at hx; injection hx with hx _; exact hnp w hx
      · intro a' c' hx; rw [hc] at hx; cases hx
      · intro a' c' s' n' hx; rw [hc] at hx; cases hx
    | inr x =>
      obtain ⟨pc', m', ev⟩ := x
      rw [hs] at hwf
      simp only at hwf
      obtain ⟨ctx', c, hc, hR', hpc'⟩ := hnext pc' m' ev hs
      refine ends_at hw.small hw.nofwd ⟨ctx, pc⟩ hok ?_ hpc ?_ ?_ (phi app s) s n (Nat.le_refl _) hRel hlv
      · intro w c' hx; rw [hc] at hx; cases hx
      · intro a' c' hx
        rw [hc] at hx; injection hx with hx _; subst hx; exact hpc'
      · intro a' c' s' n' hx hRel' hlv'
        rw [hc] at hx; injection hx with hx _; subst hx
        exact ih ctx' m' pc' _ _ hR' (by rw [Proofs.Mvp3Spec.step_size _ _ _ _ _ _ hs]; exact hsz) hpc' hwf s' n' hRel' hlv'

/-- the liveness invariants hold in the initial state -/
theorem init_live (app : App) (ctx : Model.Context) :
    ∃ s0, init ctx = .ok s0 ∧ Live app s0 := by
  obtain ⟨u, hu, _⟩ := new_ok
  have hl1i : u.l1i = LineCache.Cache.empty 64 16 := by
    have : Model.Mmu.new cfg = .ok u := hu
    have h2 : ∀ v, Model.Mmu.new cfg = .ok v → v.l1i = LineCache.Cache.empty 64 16 := by
      intro v hv
      have h3 : Model.Mmu.new cfg = .ok { l1i := LineCache.Cache.empty 64 16, l1d := LineCache.Cache.empty 64 16 } := rfl
      rw [h3] at hv
      injection hv with hv
      rw [← hv]
    exact h2 u this
  refine ⟨{ ctx := ctx, mmu := u }, ?_, ?_⟩
  · unfold init; simp only [hu, bind, Except.bind, pure, Except.pure]
  · exact { iwf := (by
              show Proofs.Mvp3.IWf 64 u.l1i
              rw [hl1i]
              exact { lineLength := rfl, lines := fun l hl => (nomatch hl) }),
            fuRem := fun hx => (by cases hx), wuCyc := fun hx => (by cases hx),
            euRem := fun _ hx => (by cases hx), euRemP := fun _ hx => (by cases hx),
            dbus := fun pc hx => (nomatch hx), fuPc := (by show (0#32 : Word).toNat ≤ _; simp),
            drain := fun hx => absurd rfl hx }

/-- **MVP-4 terminates without panic** whenever the specification run is well-formed and ends within its fuel -/
theorem mvp4_terminates (app : App) (hw : Proofs.Refine.WfApp app) (ctx : Model.Context) (m : Spec.Machine)
    (hR : Proofs.Refine.Rel ctx m) (hsz : m.mem.size + 64 ≤ 2 ^ 31)
    (hpw : ∀ r, GoMap.get1 ctx.PendingWriteRegisters r = 0) (fuel : Nat)
    (hwf : ∀ why, (Spec.run (Proofs.Refine.specProg app) m fuel).stop ≠ .notWf why) :
    ∃ ticks hk, (Model.Mvp4.run app ctx ticks).halt = some hk ∧ ∀ w, hk ≠ .panic w := by
  obtain ⟨s0, hinit, hRel⟩ := init_rel app ctx ⟨hR.rat, hR.tx, hpw⟩
  obtain ⟨s0', hinit', hlv⟩ := init_live app ctx
  have : s0' = s0 := by rw [hinit] at hinit'; injection hinit' with h; exact h.symm
  subst this
  unfold Spec.run at hwf
  have hsz' : ¬ (Proofs.Refine.specProg app).instrs.size ≥ 250 := by
    have := hw.small
    simp [Proofs.Refine.specProg]; omega
  simp only [hsz', if_false] at hwf
  obtain ⟨t, hk, h1, h2⟩ := ends_of_spec app hw fuel ctx m 0#32 0 #[] hR hsz (by simp) hwf s0' 0 hRel hlv
  refine ⟨t, hk, ?_, h2⟩
  unfold Model.Mvp4.run; rw [hinit]; exact h1

end Proofs.Mvp4

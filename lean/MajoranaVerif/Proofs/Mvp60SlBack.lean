/-
  Proofs/Mvp60SlBack.lean — package R60: the back of the pipeline.  The register file of the machine plus the
  results queued on the write bus (in order) is the register file of the unpipelined machine (`Back`); the
  scoreboard counts every result in flight, so an issued instruction reads registers nobody in flight writes.
-/
import MajoranaVerif.Proofs.Mvp60SlFront
open GoInt

set_option linter.unusedSimpArgs false
set_option linter.unusedVariables false

namespace Proofs.Mvp60Sl
open Model Model.Mvp60
open Model.Seq (App Halt Arch stepArch)

/-! ### instructions of straight-line programs -/

theorem sl_memoryRead (i : Gen.Instr) (h : slInstr i = true) (c : Model.Context) (seq : Word) : i.memoryRead c seq = [] := by
  unfold slInstr at h
  cases i <;> unfold_instr at h ⊢ <;> first | rfl | (simp [isMemType] at h)

set_option maxHeartbeats 4000000 in
theorem sl_run (i : Gen.Instr) (h : slInstr i = true) (c : Model.Context) (labels : GoMap String Word) (pc : Word)
    (mem : List Byte) (seq : Word) (e : Gen.Execution) (hr : i.run c labels pc mem seq = .ok e) :
    e.MemoryChange = false ∧ e.Return = false ∧ e.PcChange = false := by
  have hs := Proofs.Mvp4.run_shape i c labels pc mem seq e hr
  have hpc : e.PcChange = false := by
    cases hp : e.PcChange with
    | false => rfl
    | true =>
      have := hs.pcBranch hp
      simp only [slInstr, Bool.and_eq_true, Bool.not_eq_true', Gen.InstructionType.IsBranch] at h
      simp only [Proofs.Mvp4.isBranchType, h.1.2] at this
      cases this
  unfold slInstr at h
  refine ⟨?_, ?_, hpc⟩
  · cases i <;> unfold_instr at h hr <;>
      first
        | (simp [isMemType] at h; done)
        | (simp only [Proofs.Mvp4.isRegisterChange_eq, pure, Except.pure, Proofs.Mvp4.ite_ok, Proofs.Mvp4.ite_pair, ite_self, bind, Except.bind, throw, throwThe, MonadExceptOf.throw] at hr
           (repeat' split at hr) <;> first | (injection hr with hr; subst hr; rfl) | (exact absurd hr (by simp)))
  · cases i <;> unfold_instr at h hr <;>
      first
        | (simp [isMemType, Gen.InstructionType.IsBranch, Gen.InstructionType.IsUnconditionalBranch, Gen.InstructionType.IsConditionalBranch] at h; done)
        | (simp only [Proofs.Mvp4.isRegisterChange_eq, pure, Except.pure, Proofs.Mvp4.ite_ok, Proofs.Mvp4.ite_pair, ite_self, bind, Except.bind, throw, throwThe, MonadExceptOf.throw] at hr
           (repeat' split at hr) <;> first | (injection hr with hr; subst hr; rfl) | (exact absurd hr (by simp)))

theorem slr_memoryRead (i : Gen.Instr) (h : slrInstr i = true) (c : Model.Context) (seq : Word) : i.memoryRead c seq = [] := by
  unfold slrInstr at h
  cases i <;> unfold_instr at h ⊢ <;> first | rfl | (simp [isMemType] at h)

set_option maxHeartbeats 4000000 in
theorem slr_run (i : Gen.Instr) (h : slrInstr i = true) (c : Model.Context) (labels : GoMap String Word) (pc : Word)
    (mem : List Byte) (seq : Word) (e : Gen.Execution) (hr : i.run c labels pc mem seq = .ok e) :
    e.MemoryChange = false ∧ e.PcChange = false ∧ (e.Return = true → (i.instructionType == Gen.InstructionType.Ret) = true) := by
  have hs := Proofs.Mvp4.run_shape i c labels pc mem seq e hr
  have hpc : e.PcChange = false := by
    cases hp : e.PcChange with
    | false => rfl
    | true =>
      have := hs.pcBranch hp
      simp only [slrInstr, Bool.and_eq_true, Bool.not_eq_true', Gen.InstructionType.IsBranch] at h
      simp only [Proofs.Mvp4.isBranchType, h.2] at this
      cases this
  unfold slrInstr at h
  refine ⟨?_, hpc, ?_⟩
  · cases i <;> unfold_instr at h hr <;>
      first
        | (simp [isMemType] at h; done)
        | (simp only [Proofs.Mvp4.isRegisterChange_eq, pure, Except.pure, Proofs.Mvp4.ite_ok, Proofs.Mvp4.ite_pair, ite_self, bind, Except.bind, throw, throwThe, MonadExceptOf.throw] at hr
           (repeat' split at hr) <;> first | (injection hr with hr; subst hr; rfl) | (exact absurd hr (by simp)))
  · cases i <;> unfold_instr at h hr ⊢ <;>
      first
        | (intro _; rfl)
        | (simp [isMemType, Gen.InstructionType.IsBranch, Gen.InstructionType.IsUnconditionalBranch, Gen.InstructionType.IsConditionalBranch] at h; done)
        | (simp only [Proofs.Mvp4.isRegisterChange_eq, pure, Except.pure, Proofs.Mvp4.ite_ok, Proofs.Mvp4.ite_pair, ite_self, bind, Except.bind, throw, throwThe, MonadExceptOf.throw] at hr
           (repeat' split at hr) <;> first | (injection hr with hr; subst hr; intro hc; cases hc) | (exact absurd hr (by simp)))

/-! ### instructions of the proved class (conditional branches included) -/

theorem labelOk_pcOf (v : Word) (n : Nat) (h1 : v.toNat % 4 = 0) (h2 : v.toNat / 4 ≤ n) :
    v = pcOf (v.toNat / 4) ∧ v.toNat / 4 ≤ n := by
  refine ⟨?_, h2⟩
  unfold pcOf
  apply BitVec.eq_of_toNat_eq
  simp only [BitVec.toNat_ofNat]
  have : 4 * (v.toNat / 4) = v.toNat := by omega
  rw [this]
  exact (Nat.mod_eq_of_lt v.isLt).symm

theorem g_memoryRead (app : App) (i : Gen.Instr) (h : jInstr app i = true) (c : Model.Context) (seq : Word) :
    i.memoryRead c seq = [] := by
  unfold jInstr at h
  cases i <;> unfold_instr at h ⊢ <;> first | rfl | (simp [isMemType] at h)

/-- the label of a conditional branch of the class is the address of an instruction (or of the end) -/
theorem get_label (app : App) (i : Gen.Instr) (l : String) (h : jInstr app i = true) (hl : labelOf i = some l) :
    ∃ k, k ≤ app.instrs.length ∧ GoMap.get app.labels l = (pcOf k, true) := by
  simp only [jInstr, labelOk, hl, Bool.and_eq_true] at h
  obtain ⟨_, h⟩ := h
  unfold GoMap.get
  cases hf : app.labels.find? l with
  | none => rw [hf] at h; cases h
  | some v =>
    rw [hf] at h
    simp only [Bool.and_eq_true, beq_iff_eq, decide_eq_true_eq] at h
    obtain ⟨e1, e2⟩ := labelOk_pcOf v _ h.1 h.2
    exact ⟨v.toNat / 4, e2, by rw [← e1]⟩

set_option maxHeartbeats 4000000 in
theorem g_run (app : App) (i : Gen.Instr) (h : jInstr app i = true) (c : Model.Context) (pc : Word)
    (mem : List Byte) (seq : Word) (e : Gen.Execution) (hr : i.run c app.labels pc mem seq = .ok e) :
    e.MemoryChange = false ∧ (e.Return = true → (i.instructionType == Gen.InstructionType.Ret) = true) ∧
    (e.PcChange = true → i.instructionType.IsBranch = true ∧
      (labelOf i ≠ none → ∃ k, k ≤ app.instrs.length ∧ e.NextPc = pcOf k)) := by
  have hs := Proofs.Mvp4.run_shape i c app.labels pc mem seq e hr
  have hg := h
  unfold jInstr at h
  refine ⟨?_, ?_, ?_⟩
  · cases i <;> unfold_instr at h hr <;>
      first
        | (simp [isMemType] at h; done)
        | (simp only [Proofs.Mvp4.isRegisterChange_eq, pure, Except.pure, Proofs.Mvp4.ite_ok, Proofs.Mvp4.ite_pair, ite_self, bind, Except.bind, throw, throwThe, MonadExceptOf.throw] at hr
           (repeat' split at hr) <;> first | (injection hr with hr; subst hr; rfl) | (exact absurd hr (by simp)))
  · cases i <;> unfold_instr at h hr ⊢ <;>
      first
        | (intro _; rfl)
        | (simp [isMemType, Gen.InstructionType.IsUnconditionalBranch] at h; done)
        | (simp only [Proofs.Mvp4.isRegisterChange_eq, pure, Except.pure, Proofs.Mvp4.ite_ok, Proofs.Mvp4.ite_pair, ite_self, bind, Except.bind, throw, throwThe, MonadExceptOf.throw] at hr
           (repeat' split at hr) <;> first | (injection hr with hr; subst hr; intro hc; cases hc) | (exact absurd hr (by simp)))
  · intro hp
    have hbt := hs.pcBranch hp
    refine ⟨by simpa only [Proofs.Mvp4.isBranchType, Gen.InstructionType.IsBranch] using hbt, ?_⟩
    intro hl
    cases i <;>
      first
        | (exact absurd rfl hl)
        | (rename_i op
           obtain ⟨k, hk, hget⟩ := get_label app _ op.label hg rfl
           unfold_instr at hr
           simp only [hget, Bool.not_true, Bool.false_eq_true, if_false, pure, Except.pure, Proofs.Mvp4.isRegisterChange_eq] at hr
           first
             | (injection hr with hr; subst hr; exact ⟨k, hk, rfl⟩)
             | (split at hr
                · injection hr with hr; subst hr; exact ⟨k, hk, rfl⟩
                · injection hr with hr; subst hr; cases hp))

theorem labelOf_cond (i : Gen.Instr) (h : i.instructionType.IsConditionalBranch = true) : labelOf i ≠ none := by
  cases i <;> first | (unfold_instr at h; simp [Gen.InstructionType.IsConditionalBranch] at h; done) | (intro hc; cases hc; done)

/-- the target of every control transfer the unpipelined machine takes from `a` is an instruction of the program (or its
end).  For `j`, `jal` and the conditional branches this follows from the well-formed labels; for `jalr` it is a property of
the run (the specification calls a run with another target not well-formed). -/
def TgtOk (app : App) (a : Arch) : Prop :=
  ∀ n0 i e, a.pc = pcOf n0 → app.instrs[n0]? = some i → i.run a.ctx app.labels a.pc [] 0#32 = .ok e → e.PcChange = true →
    ∃ k, k ≤ app.instrs.length ∧ e.NextPc = pcOf k

theorem tgtOk_of_labels (app : App) (hall : ∀ i ∈ app.instrs, jInstr app i = true)
    (hl : ∀ i ∈ app.instrs, i.instructionType.IsUnconditionalBranch = true → labelOf i ≠ none) (a : Arch) : TgtOk app a := by
  intro n0 i e _ hi he hp
  have hmem : i ∈ app.instrs := List.mem_of_getElem? hi
  obtain ⟨_, _, h3⟩ := g_run app i (hall i hmem) a.ctx a.pc [] 0#32 e he
  obtain ⟨hb, ht⟩ := h3 hp
  apply ht
  cases hu : i.instructionType.IsUnconditionalBranch with
  | true => exact hl i hmem hu
  | false =>
    simp only [Gen.InstructionType.IsBranch, hu, Bool.false_or] at hb
    exact labelOf_cond i hb

/-- a jump always changes the pc (and is not a `ret`) -/
theorem jump_run (labels : GoMap String Word) (i : Gen.Instr) (hj : i.instructionType.IsUnconditionalBranch = true)
    (c : Model.Context) (pc : Word) (mem : List Byte) (seq : Word) (e : Gen.Execution) (hr : i.run c labels pc mem seq = .ok e) :
    e.PcChange = true ∧ e.Return = false := by
  cases i <;> unfold_instr at hj hr <;>
    first
      | (simp [Gen.InstructionType.IsUnconditionalBranch] at hj; done)
      | (simp only [Proofs.Mvp4.isRegisterChange_eq, pure, Except.pure, bind, Except.bind, throw, throwThe, MonadExceptOf.throw] at hr
         first
           | (injection hr with hr; subst hr; exact ⟨rfl, rfl⟩)
           | (split at hr
              · cases hr
              · injection hr with hr; subst hr; exact ⟨rfl, rfl⟩))

/-- an instruction of the class other than `div`/`rem` cannot fail, whatever the registers hold -/
theorem g_run_ok (app : App) (i : Gen.Instr) (h : jInstr app i = true) (hd : isDivRem i.instructionType = false)
    (c : Model.Context) (pc : Word) (mem : List Byte) (seq : Word) : ∃ e, i.run c app.labels pc mem seq = .ok e := by
  have hg := h
  unfold jInstr at h
  cases i <;> unfold_instr at h hd ⊢ <;>
    first
      | (simp [isMemType] at h; done)
      | (simp [isDivRem] at hd; done)
      | (rename_i op
         obtain ⟨k, hk, hget⟩ := get_label app _ op.label hg rfl
         simp only [hget, Bool.not_true, Bool.false_eq_true, if_false, pure, Except.pure, Proofs.Mvp4.isRegisterChange_eq]
         first | exact ⟨_, rfl⟩ | (split <;> exact ⟨_, rfl⟩))
      | (simp only [Proofs.Mvp4.isRegisterChange_eq, pure, Except.pure, Proofs.Mvp4.ite_ok, Proofs.Mvp4.ite_pair, ite_self, bind, Except.bind]
         first | exact ⟨_, rfl⟩ | (split <;> exact ⟨_, rfl⟩))

/-! ### the scoreboards -/

theorem get1_incRegs (l : List Reg) : ∀ (m : GoMap Reg Int) (r : Reg),
    GoMap.get1 (incRegs m l) r = GoMap.get1 m r + (if r = Gen.Reg.Zero then 0 else (l.count r : Int)) := by
  induction l with
  | nil => intro m r; simp [incRegs]
  | cons x xs ih =>
    intro m r
    simp only [incRegs]
    by_cases hx : (x == Gen.Reg.Zero) = true
    · have hx' : x = Gen.Reg.Zero := eq_of_beq hx
      simp only [hx, if_true, ih]
      by_cases hr : r = Gen.Reg.Zero
      · simp [hr]
      · have : x ≠ r := by rw [hx']; exact fun h => hr h.symm
        simp [hr, List.count_cons, this]
    · have hx' : x ≠ Gen.Reg.Zero := by simpa using hx
      simp only [hx, Bool.false_eq_true, if_false, ih, Proofs.Mvp4.get1_set]
      by_cases hr : r = Gen.Reg.Zero
      · have : (Gen.Reg.Zero == x) = false := by simpa using fun h => hx' h.symm
        simp only [hr, this, Bool.false_eq_true, if_false, if_true]
      · by_cases hrx : r = x
        · subst hrx; simp [hr, List.count_cons]; omega
        · have h1 : (r == x) = false := by simpa using hrx
          have h2 : ¬ x = r := fun h => hrx h.symm
          simp [hr, h1, List.count_cons, h2]

theorem get1_decRegs_ge (l : List Reg) : ∀ (m : GoMap Reg Int) (r : Reg),
    GoMap.get1 m r - (l.count r : Int) ≤ GoMap.get1 (decRegs m l) r := by
  induction l with
  | nil => intro m r; simp [decRegs]
  | cons x xs ih =>
    intro m r
    simp only [decRegs]
    by_cases hx : (x == Gen.Reg.Zero) = true
    · simp only [hx, if_true]
      have := ih m r
      simp only [List.count_cons]
      split <;> omega
    · simp only [hx, Bool.false_eq_true, if_false]
      by_cases hrx : r = x
      · subst hrx
        simp only [List.count_cons, beq_self_eq_true, if_true]
        split
        · rename_i hle
          have := ih (m.erase r) r
          rw [Proofs.Mvp4.get1_erase] at this
          simp only [beq_self_eq_true, if_true] at this
          have hd : (default : Int) = 0 := rfl
          rw [hd] at this
          omega
        · rename_i hgt
          have := ih (m.set r (GoMap.get1 m r - 1)) r
          rw [Proofs.Mvp4.get1_set] at this
          simp only [beq_self_eq_true, if_true] at this
          omega
      · have h1 : (r == x) = false := by simpa using hrx
        have hcnt : List.count r (x :: xs) = List.count r xs := List.count_cons_of_ne (fun h => hrx h.symm)
        rw [hcnt]
        by_cases hle : GoMap.get1 m x - 1 ≤ 0
        · simp only [hle, if_true]
          have := ih (m.erase x) r
          rw [Proofs.Mvp4.get1_erase] at this
          simp only [h1, Bool.false_eq_true, if_false] at this
          exact this
        · simp only [hle, if_false]
          have := ih (m.set x (GoMap.get1 m x - 1)) r
          rw [Proofs.Mvp4.get1_set] at this
          simp only [h1, Bool.false_eq_true, if_false] at this
          exact this

theorem pendingPos_false (m : GoMap Reg Int) (r : Reg) (h : pendingPos m r = false) : GoMap.get1 m r ≤ 0 := by
  unfold pendingPos at h
  rw [Proofs.Mvp4.get1_of_find?]
  cases hf : m.find? r with
  | none => simp only [Option.getD_none]; exact Int.le_refl _
  | some v =>
    simp only [hf, decide_eq_false_iff_not, Int.not_lt] at h
    simpa using h

/-! ### the write bus as a list of pending register writes -/

/-- the register file after the queued results have been written, in order -/
def applyW : List ExecCtx → GoMap Reg Word → GoMap Reg Word
  | [], regs => regs
  | ec :: rest, regs =>
    applyW rest (if ec.execution.RegisterChange then regs.set ec.execution.Register ec.execution.RegisterValue else regs)

theorem applyW_append (W1 W2 : List ExecCtx) : ∀ regs, applyW (W1 ++ W2) regs = applyW W2 (applyW W1 regs) := by
  induction W1 with
  | nil => intro regs; rfl
  | cons ec rest ih => intro regs; simp only [List.cons_append, applyW, ih]

theorem get1_applyW (W : List ExecCtx) (r : Reg) : ∀ regs,
    (∀ ec ∈ W, ¬ (ec.execution.RegisterChange = true ∧ ec.execution.Register = r)) →
    GoMap.get1 (applyW W regs) r = GoMap.get1 regs r := by
  induction W with
  | nil => intro regs _; rfl
  | cons ec rest ih =>
    intro regs h
    simp only [applyW]
    rw [ih _ (fun e he => h e (List.mem_cons_of_mem _ he))]
    have h0 := h ec (List.mem_cons_self)
    split
    · rename_i hrc
      rw [Proofs.Mvp4.get1_set]
      have : (r == ec.execution.Register) = false := by
        simp only [beq_eq_false_iff_ne, ne_eq]
        intro heq; exact h0 ⟨hrc, heq.symm⟩
      simp only [this, Bool.false_eq_true, if_false]
    · rfl

def cntW (W : List ExecCtx) (r : Reg) : Nat := (W.map (fun ec => ec.writeRegisters.count r)).sum
def cntX (X : List Runner) (r : Reg) : Nat := (X.map (fun x => x.instr.writeRegisters.count r)).sum

theorem cntW_zero (W : List ExecCtx) (r : Reg) (h : cntW W r = 0) : ∀ ec ∈ W, r ∉ ec.writeRegisters := by
  induction W with
  | nil => intro ec he; cases he
  | cons e rest ih =>
    simp only [cntW, List.map_cons, List.sum_cons] at h
    intro ec he
    rcases List.mem_cons.mp he with rfl | he
    · exact List.count_eq_zero.mp (by omega)
    · exact ih (by simp only [cntW]; omega) ec he

theorem cntX_zero (X : List Runner) (r : Reg) (h : cntX X r = 0) : ∀ x ∈ X, r ∉ x.instr.writeRegisters := by
  induction X with
  | nil => intro x hx; cases hx
  | cons e rest ih =>
    simp only [cntX, List.map_cons, List.sum_cons] at h
    intro x hx
    rcases List.mem_cons.mp hx with rfl | hx
    · exact List.count_eq_zero.mp (by omega)
    · exact ih (by simp only [cntX]; omega) x hx

/-- **the back of the pipeline**: `W` = results on the write bus, `X` = issued runners not yet executed -/
structure Back (ctx : Model.Context) (W : List ExecCtx) (X : List Runner) (a : Arch) : Prop where
  regs : a.ctx.Registers = applyW W ctx.Registers
  mem : a.ctx.Memory = ctx.Memory
  ratS : ctx.rat = false
  txS : ctx.Transaction.entries = []
  ratA : a.ctx.rat = false
  txA : a.ctx.Transaction.entries = []
  ws : ∀ ec ∈ W, ec.execution.RegisterChange = true → ec.execution.Register ∈ ec.writeRegisters
  sb : ∀ r, r ≠ Gen.Reg.Zero → ((cntW W r + cntX X r : Nat) : Int) ≤ GoMap.get1 ctx.PendingWriteRegisters r
  nr1 : ∀ x ∈ X, ∀ reg ∈ x.instr.readRegisters, reg ≠ Gen.Reg.Zero → ∀ ec ∈ W, reg ∉ ec.writeRegisters
  nr2 : X.Pairwise (fun x0 x => ∀ reg ∈ x.instr.readRegisters, reg ≠ Gen.Reg.Zero → reg ∉ x0.instr.writeRegisters)
  nomem : ∀ ec ∈ W, ec.execution.MemoryChange = false

/-- issuing a hazard-free runner -/
theorem Back.issue {ctx : Model.Context} {W : List ExecCtx} {X : List Runner} {a : Arch} (hb : Back ctx W X a) (r : Runner)
    (hz : isDataHazard3 ctx r.instr = false) : Back (addPendingRegisters ctx r.instr) W (X ++ [r]) a := by
  simp only [isDataHazard3, Bool.or_eq_false_iff, List.any_eq_false, Bool.and_eq_true, bne_iff_ne, ne_eq, not_and,
    Bool.not_eq_true] at hz
  have hfree : ∀ reg ∈ r.instr.readRegisters, reg ≠ Gen.Reg.Zero → cntW W reg = 0 ∧ cntX X reg = 0 := by
    intro reg hreg hne
    have h1 := pendingPos_false _ _ (hz.1 reg hreg hne)
    have h2 := hb.sb reg hne
    omega
  refine ⟨hb.regs, hb.mem, hb.ratS, hb.txS, hb.ratA, hb.txA, hb.ws, ?_, ?_, ?_, hb.nomem⟩
  · intro reg hne
    have h2 := hb.sb reg hne
    simp only [addPendingRegisters, get1_incRegs, hne, if_false, cntX, List.map_append, List.sum_append, List.map_cons,
      List.map_nil, List.sum_cons, List.sum_nil, Nat.add_zero]
    simp only [cntX] at h2
    omega
  · intro x hx reg hreg hne ec hec
    rcases List.mem_append.mp hx with hx | hx
    · exact hb.nr1 x hx reg hreg hne ec hec
    · simp only [List.mem_singleton] at hx; subst hx
      exact cntW_zero W reg (hfree reg hreg hne).1 ec hec
  · rw [List.pairwise_append]
    refine ⟨hb.nr2, List.pairwise_singleton _ _, ?_⟩
    intro x0 hx0 x hx reg hreg hne
    simp only [List.mem_singleton] at hx; subst hx
    exact cntX_zero X reg (hfree reg hreg hne).2 x0 hx0

/-- the result an execute unit puts on the write bus -/
def ecOf (x : Runner) (e : Gen.Execution) : ExecCtx :=
  { seq := x.seq, execution := e, itype := x.instr.instructionType, writeRegisters := x.instr.writeRegisters,
    readRegisters := x.instr.readRegisters }

theorem instrAt4_pcOf (app : App) (k : Nat) (hk : k < 2 ^ 20) (i : Gen.Instr) (h : app.instrs[k]? = some i) :
    Model.Mvp4.instrAt app (pcOf k) = .ok i := by
  unfold Model.Mvp4.instrAt
  simp only [pcOf_idx k hk]
  have : ¬ ((k : Int) < 0) := by omega
  simp only [this, if_false, Int.toNat_natCast, h, pure, Except.pure]

/-- the registers the oldest issued runner reads have their architectural values in the register file -/
theorem Back.sameRegs {ctx : Model.Context} {W : List ExecCtx} {x : Runner} {X : List Runner} {a : Arch}
    (hb : Back ctx W (x :: X) a) : Proofs.Mvp4.SameRegs ctx a.ctx x.instr.readRegisters := by
  refine ⟨hb.ratS, hb.ratA, hb.txS, hb.txA, ?_⟩
  intro reg hreg hne
  rw [hb.regs, get1_applyW]
  intro ec hec ⟨hrc, hreq⟩
  have := hb.ws ec hec hrc
  rw [hreq] at this
  exact hb.nr1 x (List.mem_cons_self) reg hreg hne ec hec this

/-- **executing the oldest issued runner is the next step of the unpipelined machine** (straight-line programs) -/
theorem Back.execute {app : App} {ctx : Model.Context} {W : List ExecCtx} {x : Runner} {X : List Runner} {a : Arch} {n0 : Nat}
    (hb : Back ctx W (x :: X) a) (hsm : app.instrs.length < 250) (hpc : a.pc = pcOf n0) (hx : RunnerOk app x n0)
    (hsl : slInstr x.instr = true) (hnf : fwdOf x.instr = {}) :
    (∀ e, x.instr.run ctx app.labels x.pc [] 0#32 = .ok e →
      ∃ a', (∃ c, stepArch Proofs.Mvp4.dc app a = .next a' c) ∧ a'.pc = pcOf (n0 + 1) ∧ Back ctx (W ++ [ecOf x e]) X a' ∧
        e.Return = false ∧ e.MemoryChange = false ∧ e.PcChange = false) ∧
    (∀ msg, x.instr.run ctx app.labels x.pc [] 0#32 = .error (.err msg) → ∃ c, stepArch Proofs.Mvp4.dc app a = .halt .err c) := by
  have hn0 : n0 < app.instrs.length := by
    rcases Nat.lt_or_ge n0 app.instrs.length with h | h
    · exact h
    · have := hx.2; rw [List.getElem?_eq_none h] at this; cases this
  have hrun : x.instr.run ctx app.labels x.pc [] 0#32 = x.instr.run a.ctx app.labels a.pc [] 0#32 := by
    rw [hpc, ← hx.1]
    exact Proofs.Mvp4.run_congr x.instr hnf hb.sameRegs app.labels x.pc [] 0#32
  have hstep : stepArch Proofs.Mvp4.dc app a = Proofs.Mvp4.stepTail app a x.instr [] := by
    apply Proofs.Mvp4.stepArch_run
    · rw [hpc]; exact instrAt4_pcOf app n0 (by omega) x.instr hx.2
    · rw [sl_memoryRead x.instr hsl]; rfl
  obtain ⟨ex, hex⟩ := Proofs.Refine.cycles_ok x.instr.instructionType
  constructor
  · intro e he
    obtain ⟨hmc, hret, hpcc⟩ := sl_run x.instr hsl ctx app.labels x.pc [] 0#32 e he
    have hshape := Proofs.Mvp4.run_shape x.instr ctx app.labels x.pc [] 0#32 e he
    rw [hrun] at he
    have hnext : Proofs.Mvp4.nextPc a e = pcOf (n0 + 1) := by
      simp only [Proofs.Mvp4.nextPc, hpcc, Bool.false_eq_true, if_false, hpc, pcOf_succ]
    have hcommon : ∀ a' : Arch, a'.pc = pcOf (n0 + 1) →
        a'.ctx.Registers = applyW [ecOf x e] a.ctx.Registers → a'.ctx.Memory = a.ctx.Memory → a'.ctx.rat = false →
        a'.ctx.Transaction.entries = [] → Back ctx (W ++ [ecOf x e]) X a' := by
      intro a' _ hr hm hrat htx
      refine ⟨by rw [hr, hb.regs, applyW_append], hm.trans hb.mem, hb.ratS, hb.txS, hrat, htx, ?_, ?_, ?_, ?_, ?_⟩
      · intro ec hec hrc
        rcases List.mem_append.mp hec with hec | hec
        · exact hb.ws ec hec hrc
        · simp only [List.mem_singleton] at hec; subst hec
          simp only [ecOf] at hrc ⊢
          rw [hshape.wregs, hrc]; simp
      · intro reg hne
        have := hb.sb reg hne
        simp only [cntW, cntX, List.map_append, List.sum_append, List.map_cons, List.map_nil, List.sum_cons, List.sum_nil,
          ecOf] at this ⊢
        omega
      · intro y hy reg hreg hne ec hec
        rcases List.mem_append.mp hec with hec | hec
        · exact hb.nr1 y (List.mem_cons_of_mem _ hy) reg hreg hne ec hec
        · simp only [List.mem_singleton] at hec; subst hec
          have := (List.pairwise_cons.mp hb.nr2).1 y hy reg hreg hne
          exact this
      · exact (List.pairwise_cons.mp hb.nr2).2
      · intro ec hec
        rcases List.mem_append.mp hec with hec | hec
        · exact hb.nomem ec hec
        · simp only [List.mem_singleton] at hec; subst hec; exact hmc
    cases hrc : e.RegisterChange with
    | true =>
      obtain ⟨c, hc⟩ := Proofs.Mvp4.stepTail_reg (app := app) (a := a) he hex hret hrc
      refine ⟨_, ⟨c, by rw [hstep, hc]⟩, hnext, ?_, hret, hmc, hpcc⟩
      exact hcommon _ hnext (by simp only [Model.Seq.writeRegister, applyW, ecOf, hrc, if_true]) rfl hb.ratA hb.txA
    | false =>
      obtain ⟨c, hc⟩ := Proofs.Mvp4.stepTail_plain (app := app) (a := a) he hex hret hrc hmc
      refine ⟨_, ⟨c, by rw [hstep, hc]⟩, hnext, ?_, hret, hmc, hpcc⟩
      exact hcommon _ hnext (by simp only [applyW, ecOf, hrc, Bool.false_eq_true, if_false]) rfl hb.ratA hb.txA
  · intro msg he
    rw [hrun] at he
    obtain ⟨c, hc⟩ := Proofs.Mvp4.stepTail_err (app := app) (a := a) he
    exact ⟨c, by rw [hstep, hc]⟩

/-- `Back.execute` for programs that may `ret`: a result with `Return` set is the unpipelined machine's `ret` -/
theorem Back.executeR {app : App} {ctx : Model.Context} {W : List ExecCtx} {x : Runner} {X : List Runner} {a : Arch} {n0 : Nat}
    (hb : Back ctx W (x :: X) a) (hsm : app.instrs.length < 250) (hpc : a.pc = pcOf n0) (hx : RunnerOk app x n0)
    (hsl : slrInstr x.instr = true) (hnf : fwdOf x.instr = {}) :
    (∀ e, x.instr.run ctx app.labels x.pc [] 0#32 = .ok e → e.Return = false →
      ∃ a', (∃ c, stepArch Proofs.Mvp4.dc app a = .next a' c) ∧ a'.pc = pcOf (n0 + 1) ∧ Back ctx (W ++ [ecOf x e]) X a' ∧
        e.MemoryChange = false ∧ e.PcChange = false) ∧
    (∀ e, x.instr.run ctx app.labels x.pc [] 0#32 = .ok e → e.Return = true →
      (∃ c, stepArch Proofs.Mvp4.dc app a = .halt .ret c) ∧ (x.instr.instructionType == Gen.InstructionType.Ret) = true) ∧
    (∀ msg, x.instr.run ctx app.labels x.pc [] 0#32 = .error (.err msg) → ∃ c, stepArch Proofs.Mvp4.dc app a = .halt .err c) := by
  have hn0 : n0 < app.instrs.length := by
    rcases Nat.lt_or_ge n0 app.instrs.length with h | h
    · exact h
    · have := hx.2; rw [List.getElem?_eq_none h] at this; cases this
  have hrun : x.instr.run ctx app.labels x.pc [] 0#32 = x.instr.run a.ctx app.labels a.pc [] 0#32 := by
    rw [hpc, ← hx.1]
    exact Proofs.Mvp4.run_congr x.instr hnf hb.sameRegs app.labels x.pc [] 0#32
  have hstep : stepArch Proofs.Mvp4.dc app a = Proofs.Mvp4.stepTail app a x.instr [] := by
    apply Proofs.Mvp4.stepArch_run
    · rw [hpc]; exact instrAt4_pcOf app n0 (by omega) x.instr hx.2
    · rw [slr_memoryRead x.instr hsl]; rfl
  obtain ⟨ex, hex⟩ := Proofs.Refine.cycles_ok x.instr.instructionType
  refine ⟨?_, ?_, ?_⟩
  · intro e he hret
    obtain ⟨hmc, hpcc, _⟩ := slr_run x.instr hsl ctx app.labels x.pc [] 0#32 e he
    have hshape := Proofs.Mvp4.run_shape x.instr ctx app.labels x.pc [] 0#32 e he
    rw [hrun] at he
    have hnext : Proofs.Mvp4.nextPc a e = pcOf (n0 + 1) := by
      simp only [Proofs.Mvp4.nextPc, hpcc, Bool.false_eq_true, if_false, hpc, pcOf_succ]
    have hcommon : ∀ a' : Arch, a'.pc = pcOf (n0 + 1) →
        a'.ctx.Registers = applyW [ecOf x e] a.ctx.Registers → a'.ctx.Memory = a.ctx.Memory → a'.ctx.rat = false →
        a'.ctx.Transaction.entries = [] → Back ctx (W ++ [ecOf x e]) X a' := by
      intro a' _ hr hm hrat htx
      refine ⟨by rw [hr, hb.regs, applyW_append], hm.trans hb.mem, hb.ratS, hb.txS, hrat, htx, ?_, ?_, ?_, ?_, ?_⟩
      · intro ec hec hrc
        rcases List.mem_append.mp hec with hec | hec
        · exact hb.ws ec hec hrc
        · simp only [List.mem_singleton] at hec; subst hec
          simp only [ecOf] at hrc ⊢
          rw [hshape.wregs, hrc]; simp
      · intro reg hne
        have := hb.sb reg hne
        simp only [cntW, cntX, List.map_append, List.sum_append, List.map_cons, List.map_nil, List.sum_cons, List.sum_nil,
          ecOf] at this ⊢
        omega
      · intro y hy reg hreg hne ec hec
        rcases List.mem_append.mp hec with hec | hec
        · exact hb.nr1 y (List.mem_cons_of_mem _ hy) reg hreg hne ec hec
        · simp only [List.mem_singleton] at hec; subst hec
          have := (List.pairwise_cons.mp hb.nr2).1 y hy reg hreg hne
          exact this
      · exact (List.pairwise_cons.mp hb.nr2).2
      · intro ec hec
        rcases List.mem_append.mp hec with hec | hec
        · exact hb.nomem ec hec
        · simp only [List.mem_singleton] at hec; subst hec; exact hmc
    cases hrc : e.RegisterChange with
    | true =>
      obtain ⟨c, hc⟩ := Proofs.Mvp4.stepTail_reg (app := app) (a := a) he hex hret hrc
      refine ⟨_, ⟨c, by rw [hstep, hc]⟩, hnext, ?_, hmc, hpcc⟩
      exact hcommon _ hnext (by simp only [Model.Seq.writeRegister, applyW, ecOf, hrc, if_true]) rfl hb.ratA hb.txA
    | false =>
      obtain ⟨c, hc⟩ := Proofs.Mvp4.stepTail_plain (app := app) (a := a) he hex hret hrc hmc
      refine ⟨_, ⟨c, by rw [hstep, hc]⟩, hnext, ?_, hmc, hpcc⟩
      exact hcommon _ hnext (by simp only [applyW, ecOf, hrc, Bool.false_eq_true, if_false]) rfl hb.ratA hb.txA
  · intro e he hret
    obtain ⟨_, _, hty⟩ := slr_run x.instr hsl ctx app.labels x.pc [] 0#32 e he
    rw [hrun] at he
    obtain ⟨c, hc⟩ := Proofs.Mvp4.stepTail_ret (app := app) (a := a) he hex hret
    exact ⟨⟨c, by rw [hstep, hc]⟩, hty hret⟩
  · intro msg he
    rw [hrun] at he
    obtain ⟨c, hc⟩ := Proofs.Mvp4.stepTail_err (app := app) (a := a) he
    exact ⟨c, by rw [hstep, hc]⟩

/-- `Back.execute` for the proved class: conditional branches included (the next architectural pc is the branch target
when the branch is taken) -/
theorem Back.executeG {app : App} {ctx : Model.Context} {W : List ExecCtx} {x : Runner} {X : List Runner} {a : Arch} {n0 : Nat}
    (hb : Back ctx W (x :: X) a) (hsm : app.instrs.length < 250) (hpc : a.pc = pcOf n0) (hx : RunnerOk app x n0)
    (hsl : jInstr app x.instr = true) (hnf : fwdOf x.instr = {}) (hT : TgtOk app a) :
    (∀ e, x.instr.run ctx app.labels x.pc [] 0#32 = .ok e → e.Return = false →
      ∃ a' n', (∃ c, stepArch Proofs.Mvp4.dc app a = .next a' c) ∧ a'.pc = pcOf n' ∧ n' ≤ app.instrs.length ∧
        Back ctx (W ++ [ecOf x e]) X a' ∧ e.MemoryChange = false ∧
        (e.PcChange = false → n' = n0 + 1) ∧
        (e.PcChange = true → e.NextPc = pcOf n' ∧ x.instr.instructionType.IsBranch = true)) ∧
    (∀ e, x.instr.run ctx app.labels x.pc [] 0#32 = .ok e → e.Return = true →
      (∃ c, stepArch Proofs.Mvp4.dc app a = .halt .ret c) ∧ (x.instr.instructionType == Gen.InstructionType.Ret) = true) ∧
    (∀ msg, x.instr.run ctx app.labels x.pc [] 0#32 = .error (.err msg) → ∃ c, stepArch Proofs.Mvp4.dc app a = .halt .err c) := by
  have hn0 : n0 < app.instrs.length := by
    rcases Nat.lt_or_ge n0 app.instrs.length with h | h
    · exact h
    · have := hx.2; rw [List.getElem?_eq_none h] at this; cases this
  have hrun : x.instr.run ctx app.labels x.pc [] 0#32 = x.instr.run a.ctx app.labels a.pc [] 0#32 := by
    rw [hpc, ← hx.1]
    exact Proofs.Mvp4.run_congr x.instr hnf hb.sameRegs app.labels x.pc [] 0#32
  have hstep : stepArch Proofs.Mvp4.dc app a = Proofs.Mvp4.stepTail app a x.instr [] := by
    apply Proofs.Mvp4.stepArch_run
    · rw [hpc]; exact instrAt4_pcOf app n0 (by omega) x.instr hx.2
    · rw [g_memoryRead app x.instr hsl]; rfl
  obtain ⟨ex, hex⟩ := Proofs.Refine.cycles_ok x.instr.instructionType
  refine ⟨?_, ?_, ?_⟩
  · intro e he hret
    obtain ⟨hmc, _, hpcc⟩ := g_run app x.instr hsl ctx x.pc [] 0#32 e he
    obtain ⟨n', hn'le, hn'⟩ : ∃ n', n' ≤ app.instrs.length ∧ Proofs.Mvp4.nextPc a e = pcOf n' := by
      cases hp : e.PcChange with
      | true =>
        obtain ⟨k, hk, hk'⟩ := hT n0 x.instr e hpc hx.2 (by rw [← hrun]; exact he) hp
        exact ⟨k, hk, by simp only [Proofs.Mvp4.nextPc, hp, if_true, hk']⟩
      | false => exact ⟨n0 + 1, by omega, by simp only [Proofs.Mvp4.nextPc, hp, Bool.false_eq_true, if_false, hpc, pcOf_succ]⟩
    have hnf1 : e.PcChange = false → n' = n0 + 1 := by
      intro hp
      have h1 : Proofs.Mvp4.nextPc a e = pcOf (n0 + 1) := by simp only [Proofs.Mvp4.nextPc, hp, Bool.false_eq_true, if_false, hpc, pcOf_succ]
      rw [hn'] at h1
      have := congrArg BitVec.toNat h1
      simp only [pcOf, BitVec.toNat_ofNat] at this
      have e1 : 4 * n' % 2 ^ 32 = 4 * n' := Nat.mod_eq_of_lt (by omega)
      have e2 : 4 * (n0 + 1) % 2 ^ 32 = 4 * (n0 + 1) := Nat.mod_eq_of_lt (by omega)
      omega
    have hnf2 : e.PcChange = true → e.NextPc = pcOf n' ∧ x.instr.instructionType.IsBranch = true := by
      intro hp
      refine ⟨?_, (hpcc hp).1⟩
      rw [← hn']; simp only [Proofs.Mvp4.nextPc, hp, if_true]
    have hshape := Proofs.Mvp4.run_shape x.instr ctx app.labels x.pc [] 0#32 e he
    rw [hrun] at he
    have hnext : Proofs.Mvp4.nextPc a e = pcOf n' := hn'
    have hcommon : ∀ a' : Arch, a'.pc = pcOf n' →
        a'.ctx.Registers = applyW [ecOf x e] a.ctx.Registers → a'.ctx.Memory = a.ctx.Memory → a'.ctx.rat = false →
        a'.ctx.Transaction.entries = [] → Back ctx (W ++ [ecOf x e]) X a' := by
      intro a' _ hr hm hrat htx
      refine ⟨by rw [hr, hb.regs, applyW_append], hm.trans hb.mem, hb.ratS, hb.txS, hrat, htx, ?_, ?_, ?_, ?_, ?_⟩
      · intro ec hec hrc
        rcases List.mem_append.mp hec with hec | hec
        · exact hb.ws ec hec hrc
        · simp only [List.mem_singleton] at hec; subst hec
          simp only [ecOf] at hrc ⊢
          rw [hshape.wregs, hrc]; simp
      · intro reg hne
        have := hb.sb reg hne
        simp only [cntW, cntX, List.map_append, List.sum_append, List.map_cons, List.map_nil, List.sum_cons, List.sum_nil,
          ecOf] at this ⊢
        omega
      · intro y hy reg hreg hne ec hec
        rcases List.mem_append.mp hec with hec | hec
        · exact hb.nr1 y (List.mem_cons_of_mem _ hy) reg hreg hne ec hec
        · simp only [List.mem_singleton] at hec; subst hec
          have := (List.pairwise_cons.mp hb.nr2).1 y hy reg hreg hne
          exact this
      · exact (List.pairwise_cons.mp hb.nr2).2
      · intro ec hec
        rcases List.mem_append.mp hec with hec | hec
        · exact hb.nomem ec hec
        · simp only [List.mem_singleton] at hec; subst hec; exact hmc
    cases hrc : e.RegisterChange with
    | true =>
      obtain ⟨c, hc⟩ := Proofs.Mvp4.stepTail_reg (app := app) (a := a) he hex hret hrc
      refine ⟨_, n', ⟨c, by rw [hstep, hc]⟩, hnext, hn'le, ?_, hmc, hnf1, hnf2⟩
      exact hcommon _ hnext (by simp only [Model.Seq.writeRegister, applyW, ecOf, hrc, if_true]) rfl hb.ratA hb.txA
    | false =>
      obtain ⟨c, hc⟩ := Proofs.Mvp4.stepTail_plain (app := app) (a := a) he hex hret hrc hmc
      refine ⟨_, n', ⟨c, by rw [hstep, hc]⟩, hnext, hn'le, ?_, hmc, hnf1, hnf2⟩
      exact hcommon _ hnext (by simp only [applyW, ecOf, hrc, Bool.false_eq_true, if_false]) rfl hb.ratA hb.txA
  · intro e he hret
    obtain ⟨_, hty, _⟩ := g_run app x.instr hsl ctx x.pc [] 0#32 e he
    rw [hrun] at he
    obtain ⟨c, hc⟩ := Proofs.Mvp4.stepTail_ret (app := app) (a := a) he hex hret
    exact ⟨⟨c, by rw [hstep, hc]⟩, hty hret⟩
  · intro msg he
    rw [hrun] at he
    obtain ⟨c, hc⟩ := Proofs.Mvp4.stepTail_err (app := app) (a := a) he
    exact ⟨c, by rw [hstep, hc]⟩


/-- the oldest issued runner leaves without a result (it was a `ret`) -/
theorem Back.dropHead {ctx : Model.Context} {W : List ExecCtx} {x : Runner} {X : List Runner} {a : Arch}
    (hb : Back ctx W (x :: X) a) : Back ctx W X a := by
  refine ⟨hb.regs, hb.mem, hb.ratS, hb.txS, hb.ratA, hb.txA, hb.ws, ?_,
    fun y hy => hb.nr1 y (List.mem_cons_of_mem _ hy), (List.pairwise_cons.mp hb.nr2).2, hb.nomem⟩
  intro reg hne
  have := hb.sb reg hne
  simp only [cntX, List.map_cons, List.sum_cons] at this ⊢
  omega


/-- a write unit takes the oldest result from the write bus -/
theorem Back.writeback {ctx : Model.Context} {ec : ExecCtx} {W : List ExecCtx} {X : List Runner} {a : Arch}
    (hb : Back ctx (ec :: W) X a) :
    Back (deletePendingRegisters (if ec.execution.RegisterChange then Model.Seq.writeRegister ctx ec.execution else ctx)
      ec.readRegisters ec.writeRegisters) W X a := by
  refine ⟨?_, ?_, ?_, ?_, hb.ratA, hb.txA, fun e he => hb.ws e (List.mem_cons_of_mem _ he), ?_,
    fun x hx reg hreg hne e he => hb.nr1 x hx reg hreg hne e (List.mem_cons_of_mem _ he), hb.nr2,
    fun e he => hb.nomem e (List.mem_cons_of_mem _ he)⟩
  · rw [hb.regs]; simp only [applyW, deletePendingRegisters]; split <;> rfl
  · rw [hb.mem]; simp only [deletePendingRegisters]; split <;> rfl
  · simp only [deletePendingRegisters]; split <;> exact hb.ratS
  · simp only [deletePendingRegisters]; split <;> exact hb.txS
  · intro reg hne
    have h1 := hb.sb reg hne
    have h2 : GoMap.get1 ctx.PendingWriteRegisters reg - (ec.writeRegisters.count reg : Int) ≤
        GoMap.get1 (decRegs ctx.PendingWriteRegisters ec.writeRegisters) reg := get1_decRegs_ge _ _ _
    have h3 : (deletePendingRegisters (if ec.execution.RegisterChange then Model.Seq.writeRegister ctx ec.execution else ctx)
        ec.readRegisters ec.writeRegisters).PendingWriteRegisters = decRegs ctx.PendingWriteRegisters ec.writeRegisters := by
      simp only [deletePendingRegisters]; split <;> rfl
    rw [h3]
    simp only [cntW, List.map_cons, List.sum_cons] at h1 ⊢
    omega

end Proofs.Mvp60Sl

/-
  Proofs/Mvp60LdL3.lean — package R60d: the L3 cache of MVP-6.0 (it sits in the L1D slot of `Model.Mmu`) with the list of
  pending line fetches: a lookup returns the flat-memory bytes, a miss announces the line, a fill makes it resident; without
  stores the cache stays coherent with the one flat memory (`Proofs.Mmu.Coh`).
-/
import MajoranaVerif.Proofs.Mvp60LdInstr
open GoInt

set_option linter.unusedSimpArgs false
set_option linter.unusedVariables false

namespace Proofs.Mvp60Ld
open Model Model.Mvp60 Model.Mmu LineCache Proofs.Mmu Proofs.Mvp60Sl
open Model.Seq (App Halt Arch stepArch)

theorem cfgD : Model.Mvp60.cfg.l1DLineSize = ((64 : Nat) : Int) := by decide

/-- the L3 loop on a hit is `getAll` -/
theorem getFromL3Loop_hit (pend : List (Int × Int)) : ∀ (addrs : List Word) (c c' : Cache) (bytes : List Byte),
    getAll c addrs = .ok (some bytes, c') → getFromL3Loop c pend addrs = .ok (.hit bytes, c', pend) := by
  intro addrs
  induction addrs with
  | nil =>
    intro c c' bytes h
    simp only [getAll, pure, Except.pure, Except.ok.injEq, Prod.mk.injEq, Option.some.injEq] at h
    obtain ⟨rfl, rfl⟩ := h
    rfl
  | cons a as ih =>
    intro c c' bytes h
    simp only [getAll, bind, Except.bind] at h
    simp only [getFromL3Loop, bind, Except.bind]
    cases hg : LineCache.get c a.toInt with
    | error e => rw [hg] at h; cases h
    | ok v =>
      obtain ⟨v1, c1⟩ := v
      rw [hg] at h
      simp only at h ⊢
      cases v1 with
      | none => simp only [pure, Except.pure, Except.ok.injEq, Prod.mk.injEq] at h; cases h.1
      | some b =>
        simp only at h ⊢
        cases hr : getAll c1 as with
        | error e => rw [hr] at h; cases h
        | ok w =>
          obtain ⟨r, c2⟩ := w
          rw [hr] at h
          simp only [pure, Except.pure, Except.ok.injEq, Prod.mk.injEq] at h
          obtain ⟨h1, rfl⟩ := h
          cases r with
          | none => cases h1
          | some m =>
            simp only [Option.map_some, Option.some.injEq] at h1
            subst h1
            rw [ih c1 c2 m hr]
            rfl

/-- **a load whose line is resident returns the flat-memory bytes** -/
theorem getFromL3_hit {u : Mmu} {mem flat : List Byte} (pend : List (Int × Int))
    (hw : DWf 64 16 u.l1d) (hc : Coh u.l1d.lines mem flat) (a0 : Word) (as : List Word)
    (hok : loadOk 64 flat.length (a0 :: as) = true) (hres : ∃ l ∈ u.l1d.lines, l.lo = base 64 a0.toInt) :
    ∃ bytes u', getFromL3 u pend (a0 :: as) = .ok (.hit bytes, u', pend) ∧ u'.l1i = u.l1i ∧ DWf 64 16 u'.l1d ∧
      Coh u'.l1d.lines mem flat ∧ u'.l1d.lines.Perm u.l1d.lines ∧
      (a0 :: as).mapM (Model.Seq.readMem flat) = some bytes := by
  obtain ⟨bytes, u', h1, h2, h3, h4, h5, h6⟩ := getFromL1D_hit (L := 64) (n := 16) (by decide) hw hc a0 as hok hres
  refine ⟨bytes, u', ?_, h2, h3, h4, h5, h6⟩
  unfold getFromL1D at h1
  simp only [bind, Except.bind] at h1
  cases hg : getAll u.l1d (a0 :: as) with
  | error e => rw [hg] at h1; cases h1
  | ok v =>
    obtain ⟨r, c⟩ := v
    rw [hg] at h1
    simp only [pure, Except.pure, Except.ok.injEq, Prod.mk.injEq] at h1
    obtain ⟨rfl, rfl⟩ := h1
    unfold getFromL3
    simp only [getFromL3Loop_hit pend (a0 :: as) u.l1d c bytes hg, bind, Except.bind, pure, Except.pure]

/-- a load whose line is not resident: it waits when the line is being fetched, else it announces the line -/
theorem getFromL3_miss {u : Mmu} (pend : List (Int × Int)) (a0 : Word) (as : List Word) (h0 : 0 ≤ a0.toInt)
    (hend : base 64 a0.toInt + 64 < 2 ^ 31) (hmiss : ∀ y ∈ u.l1d.lines, y.covers a0.toInt = false) :
    getFromL3 u pend (a0 :: as) =
      if pend.any (fun p => decide (p.1 ≤ a0.toInt) && decide (a0.toInt < p.2)) then .ok (.pending, u, pend)
      else .ok (.miss, u, pend ++ [(base 64 a0.toInt, base 64 a0.toInt + 64)]) := by
  have hal : LineCache.alignDown a0.toInt Model.Mvp60.cfg.l1DLineSize = .ok (base 64 a0.toInt) := by
    rw [cfgD]; exact alignDown_ok _ _ (by decide)
  obtain ⟨b0, _, _, _⟩ := base_spec 64 a0.toInt (by decide) h0
  have hw : wrap32 (base 64 a0.toInt + Model.Mvp60.cfg.l1DLineSize) = base 64 a0.toInt + 64 := by
    rw [cfgD]; exact wrap32_id _ (by omega) (by omega)
  have hloop : getFromL3Loop u.l1d pend (a0 :: as) =
      if pend.any (fun p => decide (p.1 ≤ a0.toInt) && decide (a0.toInt < p.2)) then .ok (.pending, u.l1d, pend)
      else .ok (.miss, u.l1d, pend ++ [(base 64 a0.toInt, base 64 a0.toInt + 64)]) := by
    simp only [getFromL3Loop, get_miss_lines hmiss, bind, Except.bind]
    split
    · rfl
    · simp only [hal, hw, pure, Except.pure]
  unfold getFromL3
  rw [hloop]
  split <;> simp only [bind, Except.bind, pure, Except.pure]

/-! ### the cache, the pending fetches and the one flat memory -/

/-- the L3 is well-formed and coherent with the flat memory; a pending fetch is an aligned block that is not resident, and no
block is being fetched twice -/
structure L3Ok (u : Mmu) (pend : List (Int × Int)) (mem flat : List Byte) : Prop where
  wf : DWf 64 16 u.l1d
  coh : Coh u.l1d.lines mem flat
  pok : ∀ p ∈ pend, 0 ≤ p.1 ∧ p.1 % 64 = 0 ∧ p.2 = p.1 + 64 ∧ ∀ l ∈ u.l1d.lines, l.lo ≠ p.1
  pdist : pend.Pairwise (fun p q => p.1 ≠ q.1)
  iwf : Proofs.Mvp3.IWf 64 u.l1i

theorem removePending_sublist (lo : Int) : ∀ (pend : List (Int × Int)), (removePending lo pend).Sublist pend := by
  intro pend
  induction pend with
  | nil => exact List.Sublist.refl _
  | cons p ps ih =>
    simp only [removePending]
    split
    · exact List.sublist_cons_self _ _
    · exact ih.cons₂ _

theorem removePending_ne (lo : Int) : ∀ (pend : List (Int × Int)), pend.Pairwise (fun p q => p.1 ≠ q.1) →
    (∃ p ∈ pend, p.1 = lo) → ∀ q ∈ removePending lo pend, q.1 ≠ lo := by
  intro pend
  induction pend with
  | nil => intro _ h; obtain ⟨p, hp, _⟩ := h; cases hp
  | cons p ps ih =>
    intro hd hex q hq
    simp only [removePending] at hq
    rw [List.pairwise_cons] at hd
    split at hq
    · rename_i heq
      have : p.1 = lo := by simpa using heq
      rw [← this]; exact fun h => hd.1 q hq h.symm
    · rename_i hne
      have hne' : p.1 ≠ lo := by simpa using hne
      rcases List.mem_cons.mp hq with rfl | hq
      · exact hne'
      · apply ih hd.2 ?_ q hq
        obtain ⟨p', hp', hlo⟩ := hex
        rcases List.mem_cons.mp hp' with rfl | hp'
        · exact absurd hlo hne'
        · exact ⟨p', hp', hlo⟩

theorem mem_removePending_of_ne (lo : Int) : ∀ (pend : List (Int × Int)) (p : Int × Int), p ∈ pend → p.1 ≠ lo →
    p ∈ removePending lo pend := by
  intro pend
  induction pend with
  | nil => intro p hp; cases hp
  | cons q qs ih =>
    intro p hp hne
    simp only [removePending]
    split
    · rename_i heq
      rcases List.mem_cons.mp hp with rfl | hp
      · exact absurd (by simpa using heq) hne
      · exact hp
    · rcases List.mem_cons.mp hp with rfl | hp
      · exact List.mem_cons_self
      · exact List.mem_cons_of_mem _ (ih p hp hne)

/-- not covered ⟺ no resident line starts at the base -/
theorem not_covered_of_no_base {c : Cache} (hw : DWf 64 16 c) (a : Int) (ha : 0 ≤ a) (h : ∀ l ∈ c.lines, l.lo ≠ base 64 a) :
    ∀ y ∈ c.lines, y.covers a = false := by
  rcases resident_or_not (L := 64) (n := 16) (by decide) hw a ha with ⟨l, hl, hlo⟩ | h'
  · exact absurd hlo (h l hl)
  · exact h'

/-- **what a lookup does**: a hit with the flat-memory bytes, or (line not resident) the line is pending, or it is announced -/
theorem l3_lookup {u : Mmu} {pend : List (Int × Int)} {mem flat : List Byte} (h : L3Ok u pend mem flat) (a0 : Word) (as : List Word)
    (hok : loadOk 64 flat.length (a0 :: as) = true) :
    (∃ bytes u', getFromL3 u pend (a0 :: as) = .ok (.hit bytes, u', pend) ∧ u'.l1i = u.l1i ∧ L3Ok u' pend mem flat ∧
      (a0 :: as).mapM (Model.Seq.readMem flat) = some bytes) ∨
    (getFromL3 u pend (a0 :: as) = .ok (.pending, u, pend)) ∨
    (getFromL3 u pend (a0 :: as) = .ok (.miss, u, pend ++ [(base 64 a0.toInt, base 64 a0.toInt + 64)]) ∧
      L3Ok u (pend ++ [(base 64 a0.toInt, base 64 a0.toInt + 64)]) mem flat) := by
  obtain ⟨h0, h1, _, hend⟩ := loadOk_spec hok a0 List.mem_cons_self
  obtain ⟨b0, b1, b2, b3⟩ := base_spec 64 a0.toInt (by decide) h0
  rcases resident_or_not (L := 64) (n := 16) (by decide) h.wf a0.toInt h0 with hres | hmiss
  · left
    obtain ⟨bytes, u', e1, e2, e3, e4, e5, e6⟩ := getFromL3_hit pend h.wf h.coh a0 as hok hres
    exact ⟨bytes, u', e1, e2, ⟨e3, e4, fun p hp => by
      obtain ⟨p1, p2, p3, p4⟩ := h.pok p hp
      exact ⟨p1, p2, p3, fun l hl => p4 l (e5.mem_iff.mp hl)⟩, h.pdist, by rw [e2]; exact h.iwf⟩, e6⟩
  · right
    rw [getFromL3_miss pend a0 as h0 hend hmiss]
    split
    · exact Or.inl rfl
    · rename_i hnp
      refine Or.inr ⟨rfl, h.wf, h.coh, ?_, ?_, h.iwf⟩
      · intro p hp
        rcases List.mem_append.mp hp with hp | hp
        · exact h.pok p hp
        · simp only [List.mem_singleton] at hp
          subst hp
          refine ⟨b0, b3, rfl, fun l hl hlo => ?_⟩
          have hc := ((h.wf.lines l hl).covers_iff (by decide) a0.toInt h0).mpr hlo
          rw [hmiss l hl] at hc; cases hc
      · rw [List.pairwise_append]
        refine ⟨h.pdist, List.pairwise_singleton _ _, fun p hp q hq => ?_⟩
        simp only [List.mem_singleton] at hq
        subst hq
        intro heq
        apply hnp
        simp only [List.any_eq_true, Bool.and_eq_true, decide_eq_true_eq]
        obtain ⟨_, _, p3, _⟩ := h.pok p hp
        exact ⟨p, hp, by rw [heq]; exact b1, by rw [p3, heq]; exact b2⟩

/-- **the end of a memory access**: the announced line is fetched and pushed (a clean victim may be evicted), the pending
entry is removed, and the lookup now hits with the flat-memory bytes -/
theorem l3_fill {u : Mmu} {pend : List (Int × Int)} {mem flat : List Byte} (h : L3Ok u pend mem flat) (a0 : Word) (as : List Word)
    (hok : loadOk 64 flat.length (a0 :: as) = true) (hp : ∃ p ∈ pend, p.1 = base 64 a0.toInt) :
    ∃ line u1 mem1 bytes u2, fetchCacheLine Model.Mvp60.cfg mem a0 = .ok line ∧
      pushLineToL3 u pend mem a0 line = .ok (u1, removePending (base 64 a0.toInt) pend, mem1) ∧
      getFromL3 u1 (removePending (base 64 a0.toInt) pend) (a0 :: as) =
        .ok (.hit bytes, u2, removePending (base 64 a0.toInt) pend) ∧
      u2.l1i = u.l1i ∧ L3Ok u2 (removePending (base 64 a0.toInt) pend) mem1 flat ∧
      (a0 :: as).mapM (Model.Seq.readMem flat) = some bytes := by
  obtain ⟨h0, h1, _, hend⟩ := loadOk_spec hok a0 List.mem_cons_self
  obtain ⟨p, hpm, hplo⟩ := hp
  obtain ⟨_, _, _, p4⟩ := h.pok p hpm
  have hmiss := not_covered_of_no_base h.wf a0.toInt h0 (fun l hl => by rw [← hplo]; exact p4 l hl)
  obtain ⟨line, u1, mem1, f1, f2, f3, f4, f5, f6, f7⟩ := fill_ok (cfg := Model.Mvp60.cfg) (L := 64) (n := 16) cfgD (by decide) (by decide)
    h.wf h.coh a0 h0 hmiss hend
  have hal : LineCache.alignDown a0.toInt Model.Mvp60.cfg.l1DLineSize = .ok (base 64 a0.toInt) := by
    rw [cfgD]; exact alignDown_ok _ _ (by decide)
  have hpush : pushLineToL3 u pend mem a0 line = .ok (u1, removePending (base 64 a0.toInt) pend, mem1) := by
    unfold pushLineToL3
    simp only [hal, f2, bind, Except.bind, pure, Except.pure]
  have hne := removePending_ne (base 64 a0.toInt) pend h.pdist ⟨p, hpm, hplo⟩
  have hl1 : L3Ok u1 (removePending (base 64 a0.toInt) pend) mem1 flat := by
    refine ⟨f4, f5, fun q hq => ?_, h.pdist.sublist (removePending_sublist _ _), by rw [f3]; exact h.iwf⟩
    obtain ⟨q1, q2, q3, q4⟩ := h.pok q ((removePending_sublist _ _).subset hq)
    refine ⟨q1, q2, q3, fun l hl => ?_⟩
    rcases f7 l hl with h' | h'
    · exact q4 l h'
    · rw [h']; exact fun hc => hne q hq hc.symm
  obtain ⟨bytes, u2, e1, e2, e3, e4, e5, e6⟩ := getFromL3_hit (removePending (base 64 a0.toInt) pend) f4 f5 a0 as hok f6
  refine ⟨line, u1, mem1, bytes, u2, f1, hpush, e1, e2.trans f3, ⟨e3, e4, fun q hq => ?_, hl1.pdist, by rw [e2]; exact hl1.iwf⟩, e6⟩
  obtain ⟨q1, q2, q3, q4⟩ := hl1.pok q hq
  exact ⟨q1, q2, q3, fun l hl => q4 l (e5.mem_iff.mp hl)⟩

end Proofs.Mvp60Ld

/-
  Proofs/Mvp71.lean — facts about the cycle-accurate model of MVP-7.1 (`Model.Mvp71` = `Model.Mvp70` with the configuration
  flag `v71`): the lower bound of property C12 (the frame lemmas of `Proofs.Mvp70` are about every state), and a
  kernel-evaluated witness of the one visible difference on a small program: the control unit's synchronisation cycle.
-/
import MajoranaVerif.Model.Mvp71
import MajoranaVerif.Proofs.Mvp70
import MajoranaVerif.Proofs.Mvp70Witness
open GoInt

namespace Proofs.Mvp71
open Model.Mvp71
open Model.Seq (App Halt)

theorem init_shape {ctx : Model.Context} {par : Nat} {s : Model.Mvp70.State} (h : init ctx par = .ok s) :
    s.base.eus.length = par ∧ s.base.executed = 0 ∧ s.base.cycles = 0 ∧ s.base.v71 = true := by
  unfold init at h
  split at h
  · cases h
  · simp only [bind, Except.bind, pure, Except.pure] at h
    split at h
    · cases h
    · rename_i s0 h0
      cases h
      have := Proofs.Mvp70.init_shape h0
      exact ⟨this.1, this.2.1, this.2.2, rfl⟩

/-- **lower bound (C12) for MVP-7.1** -/
theorem run_executed_le (app : App) (ctx : Model.Context) (par fuel : Nat) :
    (run app ctx par fuel).final.base.executed ≤ par * (run app ctx par fuel).ticks ∧
    ((run app ctx par fuel).final.base.executed : Int) ≤ par * (run app ctx par fuel).final.base.cycles := by
  unfold run
  split
  · rename_i s hs
    obtain ⟨h1, h2, h3, _⟩ := init_shape hs
    have h := Proofs.Mvp70.runFrom_bound app fuel s 0
    rw [h1, h2, h3] at h
    simp only [Nat.mul_zero, Nat.add_zero, Nat.zero_add, Int.natCast_zero, Int.mul_zero, Int.le_refl, true_implies] at h
    exact ⟨h.2.2.1, h.2.2.2⟩
  · refine ⟨Nat.zero_le _, ?_⟩
    show (((default : Model.Mvp70.State).base.executed : Nat) : Int) ≤ par * (default : Model.Mvp70.State).base.cycles
    exact Int.le_of_eq (by rfl)

/-! ### the control unit's synchronisation cycle

`li s1, 64; li s4, 128; lb s0, 18(s4); sw a2, 24, s4; sw s0, 16, s1` with two cores, memory 256 bytes of `0x11`.  The load
brings line 128 into core 0 (shared); the first store, on core 1, asks core 0 to evict it.  When core 0's snoop coroutine
takes the request up, MVP-7.1 sets `msi.staleState`; the control unit spends its next cycle copying the MSI states and
issues nothing — the second store leaves one cycle later.  Same registers and memory, one cycle (and tick) more. -/

-- `DecidableEq` of the seven-component tuple of `obs` needs more than the default 128 instance-synthesis steps
set_option synthInstance.maxSize 512

def syncApp : Model.Seq.App :=
  { instrs := [.li_ { rd := 9, imm := 64#32 }, .li_ { rd := 20, imm := 128#32 }, .lb_ { rd := 8, offset := 18#32, rs := 20 },
               .sw_ { rd := 20, rs := 12, offset := 24#32 }, .sw_ { rd := 9, rs := 8, offset := 16#32 }],
    labels := {} }

open Proofs.Mvp70Witness (obs) in
theorem sync_p2_70 : obs (Model.Mvp70.run syncApp (Proofs.Mvp61Witness.ctx0 256) 2 2000) 8 =
    (some .offEnd, 1561, 943, 5, 1, 0x11#32, Proofs.Mvp61Witness.m11) := by
  decide +kernel

open Proofs.Mvp70Witness (obs) in
theorem sync_p2_71 : obs (Model.Mvp71.run syncApp (Proofs.Mvp61Witness.ctx0 256) 2 2000) 8 =
    (some .offEnd, 1562, 944, 5, 1, 0x11#32, Proofs.Mvp61Witness.m11) := by
  decide +kernel

end Proofs.Mvp71

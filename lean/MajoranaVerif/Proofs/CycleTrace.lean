/-
  Proofs/CycleTrace.lean — MVP-1 / MVP-2: the cycle count of `Model.Seq.run` is the
  function `Model.Timing.costOfTrace` of the run's timing trace and of the memory SIZE
  (no register value, no memory byte enters it).  Hence two runs of one program with equal
  timing traces on memories of equal size return the same cycle count, whatever the
  operand values (C12, last clause).  Core Lean only.
-/
import MajoranaVerif.Model.TimingTrace
import MajoranaVerif.Proofs.SeqMachine
open GoInt

namespace Proofs.CycleTrace
open Model.Seq Model.Timing

/-! ### whether a memory access faults depends on the address and the memory size only -/

theorem readMem_isSome (mem : List Byte) (a : Word) : (readMem mem a).isSome = inRange mem.length a := by
  unfold readMem inRange
  by_cases h : a.toInt < 0
  · have : ¬ (0 ≤ a.toInt) := by omega
    simp [h, this]
  · have h0 : 0 ≤ a.toInt := by omega
    simp only [h, if_false, h0, decide_true, Bool.true_and]
    by_cases hl : a.toInt.toNat < mem.length
    · simp [hl]
    · simp [hl, List.getElem?_eq_none (Nat.le_of_not_lt hl)]

theorem mapM_readMem_isSome (mem : List Byte) : ∀ addrs : List Word,
    (addrs.mapM (readMem mem)).isSome = addrs.all (inRange mem.length)
  | [] => rfl
  | a :: as => by
    have ih := mapM_readMem_isSome mem as
    have h1 := readMem_isSome mem a
    simp only [List.mapM_cons, List.all_cons]
    cases hr : readMem mem a with
    | none => rw [hr] at h1; simp only [Option.isSome_none] at h1; rw [← h1]; rfl
    | some b =>
      rw [hr] at h1; simp only [Option.isSome_some] at h1
      rw [← h1, Bool.true_and, ← ih]
      cases as.mapM (readMem mem) <;> rfl

theorem writeMemory_spec (chs : List (Word × Byte)) : ∀ ctx : Model.Context,
    (chs.foldlM (init := ctx) (fun c (p : Word × Byte) =>
        if p.1.toInt < 0 ∨ c.Memory.length ≤ p.1.toInt.toNat then none
        else some { c with Memory := c.Memory.set p.1.toInt.toNat p.2 })).isSome =
      chs.all (fun p => inRange ctx.Memory.length p.1) ∧
    ∀ c', chs.foldlM (init := ctx) (fun c (p : Word × Byte) =>
        if p.1.toInt < 0 ∨ c.Memory.length ≤ p.1.toInt.toNat then none
        else some { c with Memory := c.Memory.set p.1.toInt.toNat p.2 }) = some c' →
      c'.Memory.length = ctx.Memory.length := by
  induction chs with
  | nil => intro ctx; exact ⟨rfl, fun c' h => by simp at h; rw [← h]⟩
  | cons p ps ih =>
    intro ctx
    simp only [List.foldlM_cons, List.all_cons]
    by_cases hb : p.1.toInt < 0 ∨ ctx.Memory.length ≤ p.1.toInt.toNat
    · have hr : inRange ctx.Memory.length p.1 = false := by
        unfold inRange; rcases hb with h | h
        · have : ¬ (0 ≤ p.1.toInt) := by omega
          simp [this]
        · have : ¬ (p.1.toInt.toNat < ctx.Memory.length) := by omega
          simp [this]
      simp only [hb, if_true, hr, Bool.false_and]
      exact ⟨rfl, fun c' h => by cases h⟩
    · have hr : inRange ctx.Memory.length p.1 = true := by
        unfold inRange
        have h1 : 0 ≤ p.1.toInt := by omega
        have h2 : p.1.toInt.toNat < ctx.Memory.length := by omega
        simp [h1, h2]
      simp only [hb, if_false, hr, Bool.true_and]
      obtain ⟨i1, i2⟩ := ih { ctx with Memory := ctx.Memory.set p.1.toInt.toNat p.2 }
      simp only [List.length_set] at i1 i2
      exact ⟨i1, i2⟩

theorem writeMemory_isSome (ctx : Model.Context) (e : Gen.Execution) :
    (writeMemory ctx e).isSome = (e.MemoryChanges.map (·.1)).all (inRange ctx.Memory.length) := by
  unfold writeMemory
  rw [(writeMemory_spec e.MemoryChanges ctx).1, List.all_map]
  rfl

theorem writeMemory_length (ctx c' : Model.Context) (e : Gen.Execution) (h : writeMemory ctx e = some c') :
    c'.Memory.length = ctx.Memory.length :=
  (writeMemory_spec e.MemoryChanges ctx).2 c' h

/-! ### one iteration: its cost is `seqCost` of its event -/

def SeqRel (dc : Int) (app : App) (a : Arch) : StepResult → Prop
  | .next a' c => ∃ ev, eventSeq app a = some ev ∧ ev.pc = a.pc ∧ c = seqCost dc a.ctx.Memory.length ev ∧
      a'.ctx.Memory.length = a.ctx.Memory.length
  | .halt h c => (h = .offEnd ∧ eventSeq app a = none) ∨
      (h ≠ .offEnd ∧ ∃ ev, eventSeq app a = some ev ∧ ev.pc = a.pc ∧ c = seqCost dc a.ctx.Memory.length ev)

theorem stepArch_event (dc : Int) (app : App) (a : Arch) : SeqRel dc app a (stepArch dc app a) := by
  unfold stepArch
  simp only
  by_cases h1 : Int.tdiv a.pc.toInt 4 < app.instrs.length
  · simp only [h1, not_true_eq_false, if_false]
    by_cases h2 : Int.tdiv a.pc.toInt 4 < 0
    · simp only [h2, if_true, SeqRel, eventSeq, h1, not_true_eq_false, if_false]
      exact Or.inr ⟨by simp, _, rfl, rfl, rfl⟩
    · simp only [h2, if_false]
      cases h3 : app.instrs[(Int.tdiv a.pc.toInt 4).toNat]? with
      | none =>
        simp only [SeqRel, eventSeq, h1, not_true_eq_false, if_false, h2, h3]
        exact Or.inr ⟨by simp, _, rfl, rfl, rfl⟩
      | some i =>
        simp only
        have hsome := mapM_readMem_isSome a.ctx.Memory (i.memoryRead a.ctx 0#32)
        cases h4 : (i.memoryRead a.ctx 0#32).mapM (readMem a.ctx.Memory) with
        | none =>
          rw [h4] at hsome
          simp only [Option.isSome_none] at hsome
          simp only [SeqRel, eventSeq, h1, not_true_eq_false, if_false, h2, h3, h4]
          refine Or.inr ⟨by simp, _, rfl, rfl, ?_⟩
          simp only [seqCost, ← hsome, Bool.not_false, if_true]
        | some bytes =>
          rw [h4] at hsome
          simp only [Option.isSome_some] at hsome
          cases h5 : i.run a.ctx app.labels a.pc bytes 0#32 with
          | error f =>
            cases f <;> simp only [SeqRel, eventSeq, h1, not_true_eq_false, if_false, h2, h3, h4, execPhase, h5] <;>
              exact Or.inr ⟨by simp, _, rfl, rfl, by simp only [seqCost, ← hsome, Bool.not_true, Bool.false_eq_true, if_false]⟩
          | ok e =>
            simp only [h5]
            cases h6 : Gen.InstructionType.Cycles i.instructionType with
            | error f =>
              simp only [SeqRel, eventSeq, h1, not_true_eq_false, if_false, h2, h3, h4, execPhase, h5, h6]
              exact Or.inr ⟨by simp, _, rfl, rfl, by simp only [seqCost, ← hsome, Bool.not_true, Bool.false_eq_true, if_false]⟩
            | ok ex =>
              simp only
              by_cases h7 : e.Return = true
              · simp only [h7, if_true, SeqRel, eventSeq, h1, not_true_eq_false, if_false, h2, h3, h4, execPhase, h5, h6, classify]
                exact Or.inr ⟨by simp, _, rfl, rfl, by simp only [seqCost, ← hsome, Bool.not_true, Bool.false_eq_true, if_false, h6]⟩
              · rw [if_neg h7]
                by_cases h8 : e.RegisterChange = true
                · simp only [h8, if_true, SeqRel, eventSeq, h1, not_true_eq_false, if_false, h2, h3, h4, execPhase, h5, h6, classify, h7, Bool.false_eq_true]
                  exact ⟨_, rfl, rfl, by simp only [seqCost, ← hsome, Bool.not_true, Bool.false_eq_true, if_false, h6], rfl⟩
                · rw [if_neg h8]
                  by_cases h9 : e.MemoryChange = true
                  · simp only [h9, if_true]
                    have hw := writeMemory_isSome a.ctx e
                    cases h10 : writeMemory a.ctx e with
                    | none =>
                      rw [h10] at hw
                      simp only [Option.isSome_none] at hw
                      simp only [SeqRel, eventSeq, h1, not_true_eq_false, if_false, h2, h3, h4, execPhase, h5, h6, classify, h7, h8, h9, Bool.false_eq_true, if_true]
                      exact Or.inr ⟨by simp, _, rfl, rfl, by
                        simp only [seqCost, ← hsome, Bool.not_true, Bool.false_eq_true, if_false, h6, ← hw]⟩
                    | some c' =>
                      rw [h10] at hw
                      simp only [Option.isSome_some] at hw
                      simp only [SeqRel, eventSeq, h1, not_true_eq_false, if_false, h2, h3, h4, execPhase, h5, h6, classify, h7, h8, h9, Bool.false_eq_true, if_true]
                      exact ⟨_, rfl, rfl, by
                        simp only [seqCost, ← hsome, Bool.not_true, Bool.false_eq_true, if_false, h6, ← hw, if_true],
                        writeMemory_length a.ctx c' e h10⟩
                  · simp only [h9, Bool.false_eq_true, if_false, SeqRel, eventSeq, h1, not_true_eq_false, h2, h3, h4, execPhase, h5, h6, classify, h7, h8]
                    exact ⟨_, rfl, rfl, by simp only [seqCost, ← hsome, Bool.not_true, Bool.false_eq_true, if_false, h6], trivial⟩
  · simp [h1, SeqRel, eventSeq]

/-! ### whole runs -/

/-- **the cycle count is a function of the timing trace and the memory size** (any fetch policy) -/
theorem go_cost {σ} (fp : FetchPolicy σ) (dc : Int) (app : App) :
    ∀ (fuel : Nat) (a : Arch) (fs : σ) (cyc : Int) (n : Nat),
      (run.go fp dc app fuel a fs cyc n).cycles =
        cyc + costOfTrace fp dc a.ctx.Memory.length (traceSeq dc app fuel a).1 fs := by
  intro fuel
  induction fuel with
  | zero => intro a fs cyc n; simp [run.go, traceSeq, costOfTrace]
  | succ k ih =>
    intro a fs cyc n
    have hrel := stepArch_event dc app a
    unfold run.go traceSeq
    cases hs : stepArch dc app a with
    | next a' c =>
      rw [hs] at hrel
      simp only [SeqRel] at hrel
      obtain ⟨ev, hev, hpc, hc, hlen⟩ := hrel
      simp only [hev, Option.toList_some, List.singleton_append, costOfTrace, hpc]
      rw [ih a' _ _ _, hlen, hc]
      omega
    | halt h c =>
      rw [hs] at hrel
      simp only [SeqRel] at hrel
      rcases hrel with ⟨rfl, hev⟩ | ⟨hne, ev, hev, hpc, hc⟩
      · simp [hev, costOfTrace]
      · cases h with
        | offEnd => exact absurd rfl hne
        | ret => simp only [hev, Option.toList_some, costOfTrace, hpc, hc]; omega
        | err => simp only [hev, Option.toList_some, costOfTrace, hpc, hc]; omega
        | panic w => simp only [hev, Option.toList_some, costOfTrace, hpc, hc]; omega

theorem run_cost {σ} (fp : FetchPolicy σ) (dc : Int) (app : App) (a : Arch) (fuel : Nat) :
    (run fp dc app a fuel).cycles = costOfTrace fp dc a.ctx.Memory.length (traceSeq dc app fuel a).1 fp.init := by
  unfold run
  rw [go_cost]
  omega

/-- **value independence, any fetch policy**: equal timing traces on memories of equal size give equal cycle counts -/
theorem run_value_independent {σ} (fp : FetchPolicy σ) (dc : Int) (app : App) (a1 a2 : Arch) (fuel : Nat)
    (hlen : a1.ctx.Memory.length = a2.ctx.Memory.length)
    (htr : traceSeq dc app fuel a1 = traceSeq dc app fuel a2) :
    (run fp dc app a1 fuel).cycles = (run fp dc app a2 fuel).cycles := by
  rw [run_cost, run_cost, hlen, htr]

end Proofs.CycleTrace

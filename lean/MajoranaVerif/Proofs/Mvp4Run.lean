/-
  Proofs/Mvp4Run.lean — whole runs: the MVP-4 model (`Model.Mvp4.run`) against the unpipelined machine
  `Model.Seq.runMvp1`, by induction over the ticks with the per-tick theorem `cycle_sim`.
-/
import MajoranaVerif.Proofs.Mvp4Sim
open GoInt Model Model.Mvp4 Model.Seq
open Proofs.Mmu (DWf Coh applyChanges base)

set_option linter.unusedSimpArgs false
set_option linter.unusedVariables false

namespace Proofs.Mvp4

/-! ### the unpipelined machine, step by step -/

/-- one continuing step -/
def seqNext (app : App) (a : Arch) : Option Arch :=
  match stepArch dc app a with
  | .next a' _ => some a'
  | .halt _ _ => none

/-- the architectural state after `k` continuing steps -/
def seqIter (app : App) : Nat → Arch → Option Arch
  | 0, a => some a
  | k + 1, a => (seqIter app k a).bind (seqNext app)

theorem seqNext_of_next {app : App} {a a' : Arch} {c : StepCost} (h : stepArch dc app a = .next a' c) :
    seqNext app a = some a' := by unfold seqNext; rw [h]

theorem seqIter_succ {app : App} {k : Nat} {a0 a a' : Arch} {c : StepCost} (h : seqIter app k a0 = some a)
    (hs : stepArch dc app a = .next a' c) : seqIter app (k + 1) a0 = some a' := by
  simp only [seqIter, h, Option.bind_some]; exact seqNext_of_next hs

/-- the iteration unfolded at the front -/
theorem seqIter_front (app : App) : ∀ (k : Nat) (a0 : Arch),
    seqIter app (k + 1) a0 = (seqNext app a0).bind (seqIter app k)
  | 0, a0 => by simp [seqIter]
  | k + 1, a0 => by
    have ih := seqIter_front app k a0
    show (seqIter app (k + 1) a0).bind (seqNext app) = _
    rw [ih]
    cases h : seqNext app a0 with
    | none => rfl
    | some a1 => simp [seqIter]

/-- `stepOk` holds at every state the unpipelined run reaches within the budget -/
theorem stepOk_of_seqOk {app : App} : ∀ (k T : Nat) (a0 a : Arch), seqOk app T a0 = true → k < T →
    seqIter app k a0 = some a → stepOk app a = true
  | 0, T + 1, a0, a, hok, _, hit => by
    simp only [seqIter, Option.some.injEq] at hit
    subst hit
    simp only [seqOk, Bool.and_eq_true] at hok
    exact hok.1
  | k + 1, T + 1, a0, a, hok, hk, hit => by
    rw [seqIter_front] at hit
    cases hn : seqNext app a0 with
    | none => simp [hn] at hit
    | some a1 =>
      simp only [hn, Option.bind_some] at hit
      simp only [seqOk, Bool.and_eq_true] at hok
      have h2 := hok.2
      unfold seqNext at hn
      cases hs : stepArch dc app a0 with
      | halt h c => simp [hs] at hn
      | next a' c =>
        simp only [hs, Option.some.injEq] at hn
        subst hn
        have hs' : stepArch Gen.Consts.mvp1.cyclesDecode app a0 = .next a' c := hs
        simp only [hs'] at h2
        exact stepOk_of_seqOk k T a' a h2 (by omega) hit

/-- the `Run` loop of the unpipelined machine after `k` continuing steps -/
theorem run_go_iter {σ} (fp : FetchPolicy σ) (app : App) : ∀ (k : Nat) (a0 a : Arch) (fuel : Nat) (fs : σ) (cyc : Int) (n : Nat),
    seqIter app k a0 = some a →
    ∃ fs' cyc', Model.Seq.run.go fp dc app (k + fuel) a0 fs cyc n = Model.Seq.run.go fp dc app fuel a fs' cyc' (n + k)
  | 0, a0, a, fuel, fs, cyc, n, h => by
    simp only [seqIter, Option.some.injEq] at h
    subst h
    exact ⟨fs, cyc, by simp⟩
  | k + 1, a0, a, fuel, fs, cyc, n, h => by
    rw [seqIter_front] at h
    cases hn : seqNext app a0 with
    | none => simp [hn] at h
    | some a1 =>
      simp only [hn, Option.bind_some] at h
      unfold seqNext at hn
      cases hs : stepArch dc app a0 with
      | halt hh c => simp [hs] at hn
      | next a' c =>
        simp only [hs, Option.some.injEq] at hn
        subst hn
        obtain ⟨fs', cyc', ih⟩ := run_go_iter fp app k a' a fuel (fp.cost fs a0.pc).1 (cyc + (fp.cost fs a0.pc).2 + c.total) (n + 1) h
        refine ⟨fs', cyc', ?_⟩
        have : k + 1 + fuel = (k + fuel) + 1 := by omega
        rw [this]
        have h2 : n + (k + 1) = n + 1 + k := by omega
        rw [h2, ← ih]
        conv => lhs; unfold Model.Seq.run.go
        simp only [hs]


/-- a halting step after `k` continuing steps: what `Model.Seq.run` returns (for any fetch policy) -/
theorem run_halts {σ} (fp : FetchPolicy σ) (app : App) {k : Nat} {a0 a : Arch} {hk : Halt} {c : StepCost}
    (hit : seqIter app k a0 = some a) (hs : stepArch dc app a = .halt hk c) (j : Nat) :
    (Model.Seq.run fp dc app a0 (k + (j + 1))).halt = some hk ∧ (Model.Seq.run fp dc app a0 (k + (j + 1))).final = a := by
  unfold Model.Seq.run
  obtain ⟨fs', cyc', h⟩ := run_go_iter fp app k a0 a (j + 1) fp.init 0 0 hit
  rw [h]
  unfold Model.Seq.run.go
  simp only [hs]
  cases hk <;> exact ⟨rfl, rfl⟩

/-! ### the initial state -/

theorem dwf_empty : DWf L N (LineCache.Cache.empty L N) :=
  { lineLength := rfl, numberOfLines := rfl, lines := fun l hl => (nomatch hl), distinct := List.Pairwise.nil,
    count := Nat.zero_le _ }

theorem coh_nil (mem : List Byte) : Coh [] mem mem :=
  { len := rfl, cached := fun l hl => (nomatch hl), uncached := fun _ _ _ => rfl }

/-- a context the harness can install: no renaming, no transaction, an empty register scoreboard -/
structure CtxOk (ctx : Model.Context) : Prop where
  rat : ctx.rat = false
  tx : ctx.Transaction.entries = []
  pw : ∀ r, GoMap.get1 ctx.PendingWriteRegisters r = 0

/-- `NewCPU` is related to the unpipelined machine at pc 0 -/
theorem init_rel (app : App) (ctx : Model.Context) (hc : CtxOk ctx) :
    ∃ s0, init ctx = .ok s0 ∧ Rel app s0 ⟨ctx, 0#32⟩ := by
  obtain ⟨u, hu, hl1d⟩ := new_ok
  refine ⟨{ ctx := ctx, mmu := u }, ?_, ?_, ?_⟩
  · unfold init; simp only [hu, bind, Except.bind, pure, Except.pure]
  · show BackRel ctx [] ({} : SimpleBus ExecCtx).inside u.l1d 0 ⟨ctx, 0#32⟩
    rw [hl1d]
    exact { rat := hc.rat, tx := hc.tx, arat := hc.rat, atx := hc.tx, regs := rfl, dwf := dwf_empty,
            coh := ⟨ctx.Memory, coh_nil _, rfl⟩, shape := fun _ hec => (nomatch hec),
            score := fun r => (by simp [SimpleBus.inside, hc.pw r]),
            stOk := fun _ hec => (nomatch hec), stUncached := fun _ hec => (nomatch hec),
            stPw := fun _ hec => (nomatch hec), ids := (by simp [storeIds, SimpleBus.inside]),
            idsLe := fun id hid => (by simp [storeIds, SimpleBus.inside] at hid),
            scoreUp := fun r => (by simp [SimpleBus.inside, hc.pw r]),
            pwSub := fun _ hx => (nomatch hx), pwNodup := List.nodup_nil }
  · show NormalOk app { ctx := ctx, mmu := u } ⟨ctx, 0#32⟩
    refine NormalOk.of_idle ⟨?_, ?_, ?_⟩ rfl rfl rfl
    · exact ⟨rfl, trivial⟩
    · intro hx; cases hx
    · intro r hr; exact nomatch hr

/-! ### whole runs -/

/-- what a finished MVP-4 run has to do with the unpipelined run from `a0` -/
def RunPost (app : App) (a0 : Arch) (r : Model.Mvp4.Result) : Prop :=
  match r.halt with
  | some .ret => ∃ k a, seqIter app k a0 = some a ∧ (∃ c, stepArch dc app a = .halt .ret c) ∧ Final r.final a
  | some .offEnd => ∃ k a, seqIter app k a0 = some a ∧ (∃ c, stepArch dc app a = .halt .offEnd c) ∧ Final r.final a
  | some .err => ∃ k a, seqIter app k a0 = some a ∧ ∃ c, stepArch dc app a = .halt .err c
  | _ => True

theorem runFrom_sim {app : App} (hnf : NoFwd app) (a0 : Arch) (T : Nat) (hok : seqOk app T a0 = true) :
    ∀ (fuel : Nat) (s : State) (n k : Nat) (a : Arch), n + fuel = T → k ≤ n → seqIter app k a0 = some a →
      Rel app s a → RunPost app a0 (runFrom app fuel s n)
  | 0, s, n, k, a, _, _, _, _ => by simp [runFrom, RunPost]
  | fuel + 1, s, n, k, a, hT, hkn, hit, hR => by
    have hso : stepOk app a = true := stepOk_of_seqOk k T a0 a hok (by omega) hit
    unfold runFrom
    cases hc : cycle app s with
    | mk s' ev =>
      have hpost := cycle_sim hR hnf hso hc
      cases ev with
      | running =>
        simp only
        obtain ⟨a1, hs01, hR'⟩ := hpost
        rcases hs01 with rfl | ⟨c, hst⟩
        · exact runFrom_sim hnf a0 T hok fuel s' (n + 1) k a1 (by omega) (by omega) hit hR'
        · exact runFrom_sim hnf a0 T hok fuel s' (n + 1) (k + 1) a1 (by omega) (by omega) (seqIter_succ hit hst) hR'
      | done hk =>
        simp only
        cases hk with
        | ret =>
          obtain ⟨a1, hs01, hh, hfin⟩ := hpost
          rcases hs01 with rfl | ⟨c, hst⟩
          · exact ⟨k, a1, hit, hh, hfin⟩
          · exact ⟨k + 1, a1, seqIter_succ hit hst, hh, hfin⟩
        | offEnd =>
          obtain ⟨a1, hs01, hh, hfin⟩ := hpost
          rcases hs01 with rfl | ⟨c, hst⟩
          · exact ⟨k, a1, hit, hh, hfin⟩
          · exact ⟨k + 1, a1, seqIter_succ hit hst, hh, hfin⟩
        | err => exact ⟨k, a, hit, hpost⟩
        | panic w => trivial


/-- **MVP-4 refines the unpipelined machine** (end-to-end): for every program with fresh forward slots, every
installable initial context and every tick budget, if the sequential run satisfies the side conditions
(`seqOk`: accesses inside memory and inside one cache line, no jump to -1) and the MVP-4 run ends with `ret`, by
running past the last instruction, or with a defined error, then the unpipelined machine MVP-1 ends the same
way, and (for `ret` / past the end) the final register file and memory of MVP-4 — after the write buffer has
drained and the data cache has been written back — are literally those of MVP-1. -/
theorem mvp4_refines_mvp1 (app : App) (hnf : NoFwd app) (ctx : Model.Context) (hc : CtxOk ctx) (fuel : Nat)
    (hok : seqOk app fuel ⟨ctx, 0#32⟩ = true) (hk : Halt)
    (hh : (Model.Mvp4.run app ctx fuel).halt = some hk) (hnp : ∀ w, hk ≠ .panic w) :
    ∃ n, (runMvp1 app ⟨ctx, 0#32⟩ n).halt = some hk ∧
      (hk ≠ .err →
        (Model.Mvp4.run app ctx fuel).final.ctx.Registers = (runMvp1 app ⟨ctx, 0#32⟩ n).final.ctx.Registers ∧
        (Model.Mvp4.run app ctx fuel).final.ctx.Memory = (runMvp1 app ⟨ctx, 0#32⟩ n).final.ctx.Memory) := by
  obtain ⟨s0, hinit, hR⟩ := init_rel app ctx hc
  have hrun : Model.Mvp4.run app ctx fuel = runFrom app fuel s0 0 := by
    unfold Model.Mvp4.run; rw [hinit]
  rw [hrun] at hh ⊢
  have hpost := runFrom_sim hnf ⟨ctx, 0#32⟩ fuel hok fuel s0 0 0 ⟨ctx, 0#32⟩ (by omega) (Nat.le_refl _) rfl hR
  unfold RunPost at hpost
  rw [hh] at hpost
  cases hk with
  | ret =>
    obtain ⟨k, a, hit, ⟨c, hs⟩, hf1, hf2⟩ := hpost
    obtain ⟨h1, h2⟩ := run_halts mvp1Fetch app hit hs 0
    exact ⟨k + (0 + 1), h1, fun _ => by unfold runMvp1; rw [h2]; exact ⟨hf1, hf2⟩⟩
  | offEnd =>
    obtain ⟨k, a, hit, ⟨c, hs⟩, hf1, hf2⟩ := hpost
    obtain ⟨h1, h2⟩ := run_halts mvp1Fetch app hit hs 0
    exact ⟨k + (0 + 1), h1, fun _ => by unfold runMvp1; rw [h2]; exact ⟨hf1, hf2⟩⟩
  | err =>
    obtain ⟨k, a, hit, c, hs⟩ := hpost
    obtain ⟨h1, _⟩ := run_halts mvp1Fetch app hit hs 0
    exact ⟨k + (0 + 1), h1, fun hne => absurd rfl hne⟩
  | panic w => exact absurd rfl (hnp w)


/-! ### the unpipelined run does not depend on the fuel once it has halted -/

theorem seqIter_add (app : App) : ∀ (j k : Nat) (a0 : Arch),
    seqIter app (k + j) a0 = (seqIter app k a0).bind (seqIter app j)
  | 0, k, a0 => by simp [seqIter]
  | j + 1, k, a0 => by
    show (seqIter app (k + j) a0).bind (seqNext app) = _
    rw [seqIter_add app j k a0]
    cases seqIter app k a0 with
    | none => rfl
    | some a => simp [seqIter]

theorem seqIter_halt_unique {app : App} {k k' : Nat} {a0 a a' : Arch} {h h' : Halt} {c c' : StepCost}
    (h1 : seqIter app k a0 = some a) (hs : stepArch dc app a = .halt h c)
    (h2 : seqIter app k' a0 = some a') (hs' : stepArch dc app a' = .halt h' c') : k = k' ∧ a = a' := by
  have key : ∀ (k k' : Nat) (a a' : Arch) (h : Halt) (c : StepCost), seqIter app k a0 = some a →
      stepArch dc app a = .halt h c → seqIter app k' a0 = some a' → ¬ k < k' := by
    intro k k' a a' h c h1 hs h2 hlt
    obtain ⟨j, rfl⟩ : ∃ j, k' = k + (j + 1) := ⟨k' - k - 1, by omega⟩
    rw [seqIter_add, h1, Option.bind_some, seqIter_front] at h2
    have : seqNext app a = none := by unfold seqNext; rw [hs]
    rw [this] at h2
    cases h2
  have e1 := key k k' a a' h c h1 hs h2
  have e2 := key k' k a' a h' c' h2 hs' h1
  have : k = k' := by omega
  subst this
  rw [h1] at h2
  exact ⟨rfl, by injection h2⟩

theorem run_go_halt_inv {σ} (fp : FetchPolicy σ) (app : App) : ∀ (fuel : Nat) (a : Arch) (fs : σ) (cyc : Int) (n : Nat) (h : Halt),
    (Model.Seq.run.go fp dc app fuel a fs cyc n).halt = some h →
    ∃ k a' c, seqIter app k a = some a' ∧ stepArch dc app a' = .halt h c ∧
      (Model.Seq.run.go fp dc app fuel a fs cyc n).final = a'
  | 0, a, fs, cyc, n, h, hh => by simp [Model.Seq.run.go] at hh
  | fuel + 1, a, fs, cyc, n, h, hh => by
    unfold Model.Seq.run.go at hh ⊢
    cases hs : stepArch dc app a with
    | halt h0 c =>
      simp only [hs] at hh ⊢
      cases h0 <;> simp only [Option.some.injEq] at hh <;> subst hh <;> exact ⟨0, a, c, rfl, hs, rfl⟩
    | next a1 c =>
      simp only [hs] at hh ⊢
      obtain ⟨k, a', c', h1, h2, h3⟩ := run_go_halt_inv fp app fuel a1 _ _ _ h hh
      refine ⟨k + 1, a', c', ?_, h2, h3⟩
      rw [seqIter_front, seqNext_of_next hs]; exact h1

/-- two halted runs of the unpipelined machine from the same state agree, whatever their fuel and fetch policy -/
theorem run_halt_unique {σ τ} (fp : FetchPolicy σ) (fq : FetchPolicy τ) (app : App) (a0 : Arch) (n n' : Nat) (h h' : Halt)
    (h1 : (Model.Seq.run fp dc app a0 n).halt = some h) (h2 : (Model.Seq.run fq dc app a0 n').halt = some h') :
    h = h' ∧ (Model.Seq.run fp dc app a0 n).final = (Model.Seq.run fq dc app a0 n').final := by
  unfold Model.Seq.run at h1 h2 ⊢
  obtain ⟨k, a, c, e1, e2, e3⟩ := run_go_halt_inv fp app n a0 _ _ _ h h1
  obtain ⟨k', a', c', f1, f2, f3⟩ := run_go_halt_inv fq app n' a0 _ _ _ h' h2
  obtain ⟨_, rfl⟩ := seqIter_halt_unique e1 e2 f1 f2
  rw [e3, f3]
  rw [e2] at f2
  injection f2 with f2
  exact ⟨f2, rfl⟩

end Proofs.Mvp4

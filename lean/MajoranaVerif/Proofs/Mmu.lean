/-
  Proofs/Mmu.lean — lemmas about the memory-management unit model (Model/Mmu.lean):
  the byte-level meaning of `fetchCacheLine` / `writeToMemory`, the structural invariant
  `DWf` of the data cache (aligned, pairwise distinct, full-length lines, at most
  `numberOfLines` of them) and the coherence relation `Coh` between the pair
  (ctx.Memory, L1D) and the flat memory of a cache-less machine, preserved by every
  operation of the unit.  Core Lean only.
-/
import MajoranaVerif.Model.Mmu
import MajoranaVerif.Model.SeqMachine
import MajoranaVerif.Proofs.LineCache
open GoInt LineCache

namespace Proofs.Mmu
open Model.Mmu Proofs.LC

/-! ### lists -/

theorem padTake_length : ∀ (r : List Byte) (n : Nat), (padTake r n).length = n
  | _, 0 => by simp [padTake]
  | [], n + 1 => by simp [padTake, padTake_length [] n]
  | _ :: r, n + 1 => by simp [padTake, padTake_length r n]

theorem padTake_get : ∀ (r : List Byte) (n k : Nat), k < n →
    (padTake r n)[k]? = some (r.getD k 0#8)
  | _, 0, k, h => by omega
  | [], n + 1, 0, _ => by simp [padTake]
  | [], n + 1, k + 1, h => by
    simp only [padTake, List.getElem?_cons_succ]
    rw [padTake_get [] n k (by omega)]; simp
  | v :: r, n + 1, 0, _ => by simp [padTake]
  | v :: r, n + 1, k + 1, h => by
    simp only [padTake, List.getElem?_cons_succ]
    rw [padTake_get r n k (by omega)]; simp

theorem overlay_length : ∀ (m d : List Byte), (overlay m d).length = m.length
  | m, [] => by simp [overlay]
  | [], _ :: _ => by simp [overlay]
  | _ :: ms, _ :: ds => by simp [overlay, overlay_length ms ds]

theorem overlay_get : ∀ (m d : List Byte) (k : Nat),
    (overlay m d)[k]? = if k < d.length ∧ k < m.length then d[k]? else m[k]?
  | m, [], k => by simp [overlay]
  | [], _ :: _, k => by simp [overlay]
  | x :: ms, y :: ds, 0 => by simp [overlay]
  | x :: ms, y :: ds, k + 1 => by
    simp only [overlay, List.getElem?_cons_succ, List.length_cons, Nat.add_lt_add_iff_right]
    exact overlay_get ms ds k

/-- the bytes of `writeToMemory` -/
theorem writeToMemory_spec (mem : List Byte) (lo : Int) (data : List Byte) (hlo : 0 ≤ lo) :
    ∃ mem', writeToMemory mem lo data = .ok mem' ∧ mem'.length = mem.length ∧
      ∀ x : Nat, mem'[x]? = if lo ≤ x ∧ (x : Int) < lo + data.length ∧ x < mem.length then data[x - lo.toNat]? else mem[x]? := by
  cases data with
  | nil =>
    refine ⟨mem, rfl, rfl, ?_⟩
    intro x
    have : ¬ (lo ≤ (x : Int) ∧ (x : Int) < lo + (([] : List Byte).length : Nat) ∧ x < mem.length) := by
      simp only [List.length_nil]; omega
    simp only [this, if_false]
  | cons v vs =>
    unfold writeToMemory
    by_cases h1 : lo ≥ mem.length
    · simp only [h1, if_true]
      refine ⟨mem, rfl, rfl, ?_⟩
      intro x
      by_cases hx : lo ≤ (x : Int) ∧ (x : Int) < lo + ((v :: vs).length : Nat) ∧ x < mem.length
      · omega
      · simp only [hx, if_false]
    · have h2 : ¬ lo < 0 := by omega
      simp only [h1, h2, if_false]
      refine ⟨_, rfl, ?_, ?_⟩
      · simp only [List.length_append, List.length_take, overlay_length, List.length_drop]; omega
      · intro x
        have hlen : (List.take lo.toNat mem).length = lo.toNat := by
          simp only [List.length_take]; omega
        by_cases hx : x < lo.toNat
        · rw [List.getElem?_append_left (by omega)]
          have : ¬ (lo ≤ (x : Int) ∧ (x : Int) < lo + ((v :: vs).length : Nat) ∧ x < mem.length) := by omega
          simp only [this, if_false, List.getElem?_take, hx, if_true]
        · rw [List.getElem?_append_right (by omega), hlen, overlay_get]
          simp only [List.length_drop, List.getElem?_drop]
          have e : lo.toNat + (x - lo.toNat) = x := by omega
          by_cases hc : lo ≤ (x : Int) ∧ (x : Int) < lo + ((v :: vs).length : Nat) ∧ x < mem.length
          · have : x - lo.toNat < (v :: vs).length ∧ x - lo.toNat < mem.length - lo.toNat := by omega
            simp only [this, hc, and_self, if_true]
          · have : ¬ (x - lo.toNat < (v :: vs).length ∧ x - lo.toNat < mem.length - lo.toNat) := by omega
            simp only [this, hc, if_false, e]

/-! ### `int32` upper bounds -/

theorem wrap32_id (x : Int) (h1 : -(2 ^ 31) ≤ x) (h2 : x < 2 ^ 31) : wrap32 x = x := by
  unfold wrap32
  rw [BitVec.toInt_ofInt]
  apply Int.bmod_eq_of_le <;> omega

theorem wrap32_le (x : Int) (h1 : -(2 ^ 31) ≤ x) : wrap32 x ≤ x := by
  unfold wrap32
  rw [BitVec.toInt_ofInt]
  by_cases h : x < 2 ^ 31
  · rw [Int.bmod_eq_of_le (by omega) (by omega)]; omega
  · have := Int.bmod_lt (x := x) (m := 2 ^ 32) (by decide)
    omega

/-- the head's upper bound is already an `int32`: nothing to re-establish -/
theorem fixHead_id (c : Cache) (l : Line) (ls : List Line) (hc : c.lines = l :: ls) (h : wrap32 l.hi = l.hi) :
    fixHead c = c := by
  unfold fixHead
  rw [hc]
  simp only [h]
  cases c
  simp only at hc
  subst hc
  rfl

/-! ### alignment -/

/-- Go's `addr - addr % L` -/
def base (L : Int) (x : Int) : Int := x - Int.tmod x L

theorem base_eq (L x : Int) (hx : 0 ≤ x) : base L x = x - x % L := by
  unfold base; rw [Int.tmod_eq_emod_of_nonneg hx]

theorem base_spec (L x : Int) (hL : 0 < L) (hx : 0 ≤ x) :
    0 ≤ base L x ∧ base L x ≤ x ∧ x < base L x + L ∧ base L x % L = 0 := by
  rw [base_eq L x hx]
  have h1 := Int.emod_nonneg x (Int.ne_of_gt hL)
  have h2 := Int.emod_lt_of_pos x hL
  have h3 : x - x % L = L * (x / L) := by
    have := Int.mul_ediv_add_emod x L; omega
  have h4 : 0 ≤ x / L := Int.ediv_nonneg hx (Int.le_of_lt hL)
  refine ⟨?_, by omega, by omega, ?_⟩
  · rw [h3]; exact Int.mul_nonneg (Int.le_of_lt hL) h4
  · rw [h3]; exact Int.mul_emod_right L (x / L)

/-- an aligned block contains `x` iff it starts at `x`'s base -/
theorem block_iff_base (L lo x : Int) (hL : 0 < L) (hx : 0 ≤ x) (hal : lo % L = 0) :
    (lo ≤ x ∧ x < lo + L) ↔ lo = base L x := by
  constructor
  · intro ⟨h1, h2⟩
    rw [base_eq L x hx]
    have h3 : lo = L * (lo / L) := by
      have := Int.mul_ediv_add_emod lo L; omega
    have h4 : x % L = x - lo := by
      have e : x = (x - lo) + L * (lo / L) := by omega
      rw [e, Int.add_mul_emod_self_left, Int.emod_eq_of_lt (by omega) (by omega)]
      omega
    omega
  · intro h
    obtain ⟨_, h2, h3, _⟩ := base_spec L x hL hx
    omega

/-! ### the structural invariant of the data cache -/

structure LineWf (L : Nat) (l : Line) : Prop where
  hi : l.hi = l.lo + L
  len : l.data.length = L
  nonneg : 0 ≤ l.lo
  aligned : l.lo % (L : Int) = 0

structure DWf (L n : Nat) (c : Cache) : Prop where
  lineLength : c.lineLength = L
  numberOfLines : c.numberOfLines = n
  lines : ∀ l ∈ c.lines, LineWf L l
  distinct : c.lines.Pairwise (fun a b => a.lo ≠ b.lo)
  count : c.lines.length ≤ n

theorem LineWf.covers_iff {L : Nat} {l : Line} (h : LineWf L l) (hL : 0 < L) (x : Int) (hx : 0 ≤ x) :
    l.covers x = true ↔ l.lo = base L x := by
  rw [Proofs.LC.covers_iff, h.hi]
  exact block_iff_base L l.lo x (by omega) hx h.aligned

/-- two lines of a duplicate-free list with the same base are the same line -/
theorem lines_unique {ls : List Line} (hd : ls.Pairwise (fun a b => a.lo ≠ b.lo)) {l1 l2 : Line}
    (h1 : l1 ∈ ls) (h2 : l2 ∈ ls) (he : l1.lo = l2.lo) : l1 = l2 := by
  induction hd with
  | nil => cases h1
  | cons hx _ ih =>
    rcases List.mem_cons.mp h1 with rfl | h1' <;> rcases List.mem_cons.mp h2 with rfl | h2'
    · rfl
    · exact absurd he (hx _ h2')
    · exact absurd he.symm (hx _ h1')
    · exact ih h1' h2'

theorem DWf.unique {L n : Nat} {c : Cache} (h : DWf L n c) {l1 l2 : Line} (h1 : l1 ∈ c.lines) (h2 : l2 ∈ c.lines)
    (he : l1.lo = l2.lo) : l1 = l2 := lines_unique h.distinct h1 h2 he

/-- the invariant depends on the lines only up to order -/
theorem DWf.perm {L n : Nat} {c : Cache} (h : DWf L n c) (ls : List Line) (hp : ls.Perm c.lines) :
    DWf L n { c with lines := ls } :=
  { lineLength := h.lineLength, numberOfLines := h.numberOfLines,
    lines := fun l hl => h.lines l (hp.mem_iff.mp hl),
    distinct := (hp.pairwise_iff (fun {a b} (hab : a.lo ≠ b.lo) => Ne.symm hab)).mpr h.distinct,
    count := by rw [hp.length_eq]; exact h.count }

theorem touch_perm (pre post : List Line) (l : Line) : (l :: (pre ++ post)).Perm (pre ++ l :: post) :=
  List.perm_middle.symm

/-! ### coherence: (ctx.Memory, L1D) against the flat memory of the cache-less machine -/

/-- every byte of a resident line that lies inside memory is the flat memory's byte, and every byte of
`mem` that no resident line covers is the flat memory's byte -/
structure Coh (lines : List Line) (mem flat : List Byte) : Prop where
  len : mem.length = flat.length
  cached : ∀ l ∈ lines, ∀ x : Nat, l.covers x = true → x < flat.length → l.data[((x : Int) - l.lo).toNat]? = flat[x]?
  uncached : ∀ x : Nat, x < flat.length → (∀ l ∈ lines, l.covers x = false) → mem[x]? = flat[x]?

theorem Coh.congr_mem {ls ls' : List Line} {mem flat : List Byte} (h : Coh ls mem flat)
    (hm : ∀ l, l ∈ ls' ↔ l ∈ ls) : Coh ls' mem flat :=
  { len := h.len,
    cached := fun l hl => h.cached l ((hm l).mp hl),
    uncached := fun x hx hu => h.uncached x hx (fun l hl => hu l ((hm l).mpr hl)) }

/-- once memory itself is the flat memory (after a flush) the pair is still coherent -/
theorem Coh.flushed {ls : List Line} {mem flat : List Byte} (h : Coh ls mem flat) : Coh ls flat flat :=
  { len := rfl, cached := h.cached, uncached := fun _ _ _ => rfl }

/-- the view: the byte of the first resident line that covers `x`, else the memory byte -/
def view (lines : List Line) (mem : List Byte) (x : Nat) : Option Byte :=
  match lines.find? (fun l => l.covers x) with
  | some l => l.data[((x : Int) - l.lo).toNat]?
  | none => mem[x]?

/-- coherence says: the view IS the flat memory -/
theorem Coh.view_eq {ls : List Line} {mem flat : List Byte} (h : Coh ls mem flat) (x : Nat) (hx : x < flat.length) :
    view ls mem x = flat[x]? := by
  unfold view
  cases hf : ls.find? (fun l => l.covers x) with
  | some l =>
    have hm := List.mem_of_find?_eq_some hf
    have hc := List.find?_some hf
    exact h.cached l hm x hc hx
  | none =>
    have := List.find?_eq_none.mp hf
    exact h.uncached x hx (fun l hl => by simpa using this l hl)

/-- conversely, under the structural invariant a pair whose view is the flat memory is coherent
(a covered byte is covered by exactly one line, so the first covering line is THE covering line) -/
theorem coh_of_view {L n : Nat} (hL : 0 < L) {c : Cache} {mem flat : List Byte} (hw : DWf L n c)
    (hlen : mem.length = flat.length) (hv : ∀ x : Nat, x < flat.length → view c.lines mem x = flat[x]?) :
    Coh c.lines mem flat := by
  refine { len := hlen, cached := ?_, uncached := ?_ }
  · intro l hl x hc hx
    have := hv x hx
    unfold view at this
    cases hf : c.lines.find? (fun l => l.covers x) with
    | some l' =>
      rw [hf] at this
      have hm' := List.mem_of_find?_eq_some hf
      have hc' := List.find?_some hf
      have e : l' = l := hw.unique hm' hl
        ((((hw.lines l' hm').covers_iff hL x (by omega)).mp hc').trans (((hw.lines l hl).covers_iff hL x (by omega)).mp hc).symm)
      rw [← e]; exact this
    | none =>
      have hnone := List.find?_eq_none.mp hf l hl
      simp only [hc, not_true_eq_false] at hnone
  · intro x hx hu
    have := hv x hx
    unfold view at this
    have hf : c.lines.find? (fun l => l.covers x) = none := by
      apply List.find?_eq_none.mpr
      intro l hl
      simp [hu l hl]
    rw [hf] at this
    exact this

/-! ### `Get` and the `getFromL1D` loop -/

theorem nat_of_word {a : Word} (h : 0 ≤ a.toInt) : ((a.toInt.toNat : Nat) : Int) = a.toInt := by omega

/-- a hit: the byte is the flat byte, the line moves to the front -/
theorem get_hit {c : Cache} {mem flat : List Byte} (hc : Coh c.lines mem flat)
    {a : Int} (ha : 0 ≤ a) (hlt : a.toNat < flat.length) {pre post : List Line} {l : Line}
    (hs : splitAt a c.lines = some (pre, l, post)) :
    ∃ v, flat[a.toNat]? = some v ∧ LineCache.get c a = .ok (some v, { c with lines := l :: (pre ++ post) }) := by
  obtain ⟨hl, hcov, _⟩ := splitAt_some hs
  have hmem : l ∈ c.lines := by rw [hl]; simp
  have hx : ((a.toNat : Nat) : Int) = a := by omega
  have h1 := hc.cached l hmem a.toNat (by rw [hx]; exact hcov) hlt
  rw [hx] at h1
  have h2 : flat[a.toNat]? = some flat[a.toNat] := List.getElem?_eq_getElem hlt
  refine ⟨flat[a.toNat], h2, ?_⟩
  unfold LineCache.get
  simp only [hs, Line.at, h1, h2]
  rfl

theorem get_miss_lines {c : Cache} {a : Int} (hs : ∀ y ∈ c.lines, y.covers a = false) : LineCache.get c a = .ok (none, c) := by
  unfold LineCache.get
  cases h : splitAt a c.lines with
  | none => rfl
  | some r =>
    obtain ⟨pre, l, post⟩ := r
    obtain ⟨hl, hcov, _⟩ := splitAt_some h
    have := hs l (by rw [hl]; simp)
    rw [this] at hcov; cases hcov

/-- `readMem` of an in-range address -/
theorem readMem_ok (flat : List Byte) (a : Word) (h0 : 0 ≤ a.toInt) :
    Model.Seq.readMem flat a = flat[a.toInt.toNat]? := by
  unfold Model.Seq.readMem
  have : ¬ a.toInt < 0 := by omega
  simp only [this, if_false]

/-- all addresses in one resident line and inside memory: the loop returns the flat memory's bytes;
only the order of the lines changes -/
theorem getAll_hit {L n : Nat} (hL : 0 < L) {mem flat : List Byte} (b : Int) :
    ∀ (addrs : List Word) (c : Cache), DWf L n c → Coh c.lines mem flat → (∃ l ∈ c.lines, l.lo = b) →
      (∀ a ∈ addrs, 0 ≤ a.toInt ∧ a.toInt.toNat < flat.length ∧ base L a.toInt = b) →
      ∃ bytes ls, getAll c addrs = .ok (some bytes, { c with lines := ls }) ∧ ls.Perm c.lines ∧
        addrs.mapM (Model.Seq.readMem flat) = some bytes := by
  intro addrs
  induction addrs with
  | nil =>
    intro c _ _ _ _
    exact ⟨[], c.lines, rfl, List.Perm.refl _, rfl⟩
  | cons a as ih =>
    intro c hw hc hl hall
    obtain ⟨h0, hlt, hb⟩ := hall a (by simp)
    obtain ⟨l, hlm, hlo⟩ := hl
    have hcov : l.covers a.toInt = true := ((hw.lines l hlm).covers_iff hL a.toInt h0).mpr (by rw [hlo, hb])
    obtain ⟨pre, x, post, hs⟩ := splitAt_isSome ⟨l, hlm, hcov⟩
    obtain ⟨v, hv, hg⟩ := get_hit hc h0 hlt hs
    obtain ⟨hsplit, _, _⟩ := splitAt_some hs
    have hp : (x :: (pre ++ post)).Perm c.lines := by rw [hsplit]; exact touch_perm pre post x
    have hw1 := hw.perm _ hp
    have hc1 : Coh (x :: (pre ++ post)) mem flat := hc.congr_mem (fun y => hp.mem_iff)
    obtain ⟨bytes, ls, hga, hperm, hmap⟩ := ih { c with lines := x :: (pre ++ post) } hw1 hc1
      ⟨l, hp.mem_iff.mpr hlm, hlo⟩ (fun a' ha' => hall a' (by simp [ha']))
    refine ⟨v :: bytes, ls, ?_, hperm.trans hp, ?_⟩
    · unfold getAll
      simp only [hg, bind, Except.bind, hga, Option.map_some]
      rfl
    · simp only [List.mapM_cons, readMem_ok flat a h0, hv, hmap]
      rfl

/-- the first address is in no resident line: `(nil, false)`, the cache is untouched -/
theorem getAll_miss {c : Cache} (a0 : Word) (as : List Word) (hs : ∀ y ∈ c.lines, y.covers a0.toInt = false) :
    getAll c (a0 :: as) = .ok (none, c) := by
  unfold getAll
  simp only [get_miss_lines hs, bind, Except.bind]
  rfl

/-! ### line fill: `fetchCacheLine` + `pushLineToL1D` (with the victim's write-back) -/

theorem alignDown_ok (a L : Int) (hL : L ≠ 0) : LineCache.alignDown a L = .ok (base L a) := by
  unfold LineCache.alignDown base
  simp only [hL, if_false]; rfl

theorem fetchCacheLine_ok (cfg : Config) (L : Nat) (hcfg : cfg.l1DLineSize = L) (hL : 0 < L) (mem : List Byte)
    (a : Word) (h0 : 0 ≤ a.toInt) :
    fetchCacheLine cfg mem a = .ok (padTake (mem.drop (base L a.toInt).toNat) L) := by
  obtain ⟨hb, _, _, _⟩ := base_spec L a.toInt (by omega) h0
  unfold fetchCacheLine
  rw [hcfg, alignDown_ok _ _ (by omega)]
  have h1 : ¬ ((L : Int) < 0) := by omega
  have h2 : ¬ ((L : Int) = 0) := by omega
  have h3 : ¬ (base (L : Int) a.toInt < 0) := by omega
  simp only [bind, Except.bind, h1, h2, h3, if_false, Int.toNat_natCast]
  rfl

/-- the fetched line holds the memory bytes of its block (and zeros past the end of memory) -/
theorem fetched_bytes (mem : List Byte) (b L x : Nat) (h1 : b ≤ x) (h2 : x < b + L) (h3 : x < mem.length) :
    (padTake (mem.drop b) L)[x - b]? = mem[x]? := by
  rw [padTake_get _ _ _ (by omega)]
  have : b + (x - b) = x := by omega
  simp only [List.getD_eq_getElem?_getD, List.getElem?_drop, this]
  rw [List.getElem?_eq_getElem h3]; rfl

/-- pushing a line that agrees with the flat memory keeps coherence -/
theorem Coh.push {ls : List Line} {mem flat : List Byte} (h : Coh ls mem flat) (nl : Line)
    (hnl : ∀ x : Nat, nl.covers x = true → x < flat.length → nl.data[((x : Int) - nl.lo).toNat]? = flat[x]?) :
    Coh (nl :: ls) mem flat :=
  { len := h.len,
    cached := by
      intro l hl x hc hx
      rcases List.mem_cons.mp hl with rfl | hl
      · exact hnl x hc hx
      · exact h.cached l hl x hc hx,
    uncached := fun x hx hu => h.uncached x hx (fun l hl => hu l (List.mem_cons_of_mem _ hl)) }

/-- **a victim's bytes are never lost**: removing a resident line and writing its data back to memory
at its base keeps coherence with the same flat memory -/
theorem Coh.evict {pre post : List Line} {x : Line} {mem flat mem' : List Byte} {L : Nat}
    (h : Coh (pre ++ x :: post) mem flat) (hx : LineWf L x)
    (hwb : writeToMemory mem x.lo x.data = .ok mem') : Coh (pre ++ post) mem' flat := by
  obtain ⟨m2, h1, h2, h3⟩ := writeToMemory_spec mem x.lo x.data hx.nonneg
  rw [hwb] at h1
  injection h1 with h1; subst h1
  refine { len := by rw [h2]; exact h.len, cached := ?_, uncached := ?_ }
  · intro l hl y hc hy
    exact h.cached l (mem_middle hl) y hc hy
  · intro y hy hu
    rw [h3 y]
    by_cases hc : x.covers y = true
    · have hcc := (Proofs.LC.covers_iff x y).mp hc
      rw [hx.hi] at hcc
      have hlen := h.len
      have : x.lo ≤ (y : Int) ∧ (y : Int) < x.lo + (x.data.length : Nat) ∧ y < mem.length := by
        rw [hx.len]; omega
      simp only [this, and_self, if_true]
      have e : y - x.lo.toNat = ((y : Int) - x.lo).toNat := by have := hx.nonneg; omega
      rw [e]
      exact h.cached x (by simp) y hc hy
    · have hc' : x.covers y = false := by simpa using hc
      have hcc := (covers_false_iff x y).mp hc'
      rw [hx.hi] at hcc
      have : ¬ (x.lo ≤ (y : Int) ∧ (y : Int) < x.lo + (x.data.length : Nat) ∧ y < mem.length) := by
        rw [hx.len]; omega
      simp only [this, if_false]
      apply h.uncached y hy
      intro l hl
      rcases List.mem_append.mp hl with hl | hl
      · exact hu l (List.mem_append_left _ hl)
      · rcases List.mem_cons.mp hl with rfl | hl
        · exact hc'
        · exact hu l (List.mem_append_right _ hl)

/-- **load-miss fill**: when no resident line covers the (non-negative) first address, fetching its block
and pushing it — evicting and writing back the last line when the cache is full — succeeds, keeps the
structural invariant and the coherence with the SAME flat memory, and makes the block resident. -/
theorem fill_ok {cfg : Config} {L n : Nat} (hcfg : cfg.l1DLineSize = L) (hL : 0 < L) (hn : 0 < n)
    {u : Mmu} {mem flat : List Byte} (hw : DWf L n u.l1d) (hc : Coh u.l1d.lines mem flat)
    (a0 : Word) (h0 : 0 ≤ a0.toInt) (hmiss : ∀ y ∈ u.l1d.lines, y.covers a0.toInt = false)
    (hend : base L a0.toInt + L < 2 ^ 31) :
    ∃ line u' mem', fetchCacheLine cfg mem a0 = .ok line ∧ pushLineToL1D cfg u mem a0 line = .ok (u', mem') ∧
      u'.l1i = u.l1i ∧ DWf L n u'.l1d ∧ Coh u'.l1d.lines mem' flat ∧ (∃ l ∈ u'.l1d.lines, l.lo = base L a0.toInt) ∧
      (∀ y ∈ u'.l1d.lines, y ∈ u.l1d.lines ∨ y.lo = base L a0.toInt) := by
  obtain ⟨hb0, hb1, hb2, hb3⟩ := base_spec L a0.toInt (by omega) h0
  generalize hbdef : base (L : Int) a0.toInt = b at hb0 hb1 hb2 hb3 hend
  have hfetch := fetchCacheLine_ok cfg L hcfg hL mem a0 h0
  rw [hbdef] at hfetch
  generalize hline : padTake (mem.drop b.toNat) L = line at hfetch
  have hlinelen : line.length = L := by rw [← hline]; exact padTake_length _ _
  -- the new line
  let nl : Line := LineCache.newLine u.l1d b line
  have hnlwf : LineWf L nl :=
    { hi := by show b + (u.l1d.lineLength : Int) = b + L; rw [hw.lineLength],
      len := hlinelen, nonneg := hb0, aligned := hb3 }
  -- no resident line starts at b
  have hfresh : ∀ y ∈ u.l1d.lines, y.lo ≠ b := by
    intro y hy he
    have := ((hw.lines y hy).covers_iff hL a0.toInt h0).mpr (by rw [he, hbdef])
    rw [hmiss y hy] at this; cases this
  have hnlcoh : ∀ x : Nat, nl.covers x = true → x < flat.length → nl.data[((x : Int) - nl.lo).toNat]? = flat[x]? := by
    intro x hcx hx
    have hcc := (hnlwf.covers_iff hL x (by omega)).mp hcx
    have hrange := (Proofs.LC.covers_iff nl x).mp hcx
    rw [hnlwf.hi] at hrange
    have hun : ∀ l ∈ u.l1d.lines, l.covers x = false := by
      intro l hl
      cases hlc : l.covers x with
      | false => rfl
      | true =>
        have := ((hw.lines l hl).covers_iff hL x (by omega)).mp hlc
        exact absurd (this.trans hcc.symm) (hfresh l hl)
    rw [← hc.uncached x hx hun]
    show line[((x : Int) - b).toNat]? = mem[x]?
    have hnl : nl.lo = b := rfl
    rw [hnl] at hrange
    rw [← hline]
    have e : ((x : Int) - b).toNat = x - b.toNat := by omega
    rw [e]
    exact fetched_bytes mem b.toNat L x (by omega) (by omega) (by rw [hc.len]; exact hx)
  have hcoh1 : Coh (nl :: u.l1d.lines) mem flat := hc.push nl hnlcoh
  have hlines1 : ∀ l ∈ nl :: u.l1d.lines, LineWf L l := by
    intro l hl
    rcases List.mem_cons.mp hl with rfl | hl
    · exact hnlwf
    · exact hw.lines l hl
  have hdist1 : (nl :: u.l1d.lines).Pairwise (fun a b => a.lo ≠ b.lo) :=
    List.pairwise_cons.mpr ⟨fun y hy => Ne.symm (hfresh y hy), hw.distinct⟩
  refine ⟨line, ?_⟩
  unfold pushLineToL1D
  rw [hcfg, alignDown_ok _ _ (by omega), hbdef]
  simp only [bind, Except.bind, pushLineWithEvictionWarning]
  have hfix : fixHead ({ u.l1d with lines := LineCache.newLine u.l1d b line :: u.l1d.lines } : Cache) =
      { u.l1d with lines := LineCache.newLine u.l1d b line :: u.l1d.lines } := by
    apply fixHead_id _ _ _ rfl
    apply wrap32_id
    · show -(2 ^ 31) ≤ b + (u.l1d.lineLength : Int); omega
    · show b + (u.l1d.lineLength : Int) < 2 ^ 31; rw [hw.lineLength]; exact hend
  by_cases hfull : (LineCache.newLine u.l1d b line :: u.l1d.lines).length > u.l1d.numberOfLines
  · -- the cache overflows: the last line is the victim
    simp only [hfull, if_true]
    have hne : u.l1d.lines ≠ [] := by
      intro h
      rw [h, hw.numberOfLines] at hfull
      simp at hfull; omega
    have hlast : (nl :: u.l1d.lines).getLast? = some (u.l1d.lines.getLast hne) := by
      rw [List.getLast?_cons_of_ne_nil hne, List.getLast?_eq_some_getLast hne]
    generalize hev : u.l1d.lines.getLast hne = ev at hlast
    have hevm : ev ∈ u.l1d.lines := by rw [← hev]; exact List.getLast_mem hne
    have hevwf := hw.lines ev hevm
    have hevcov : ev.covers ev.lo = true := by
      rw [Proofs.LC.covers_iff, hevwf.hi]; omega
    obtain ⟨pre, x, post, hs⟩ := splitAt_isSome (a := ev.lo) ⟨ev, List.mem_cons_of_mem nl hevm, hevcov⟩
    obtain ⟨hsplit, hxcov, _⟩ := splitAt_some hs
    have hxm : x ∈ nl :: u.l1d.lines := by rw [hsplit]; simp
    have hxev : x = ev := by
      apply lines_unique hdist1 hxm (List.mem_cons_of_mem nl hevm)
      have h1 := ((hlines1 x hxm).covers_iff hL ev.lo hevwf.nonneg).mp hxcov
      have h2 := (hevwf.covers_iff hL ev.lo hevwf.nonneg).mp hevcov
      exact h1.trans h2.symm
    subst hxev
    have hpos : 0 < x.data.length := by rw [hevwf.len]; exact hL
    have hat : x.at x.lo = .ok (x.data[0]'hpos) := by
      unfold Line.at
      simp only [Int.sub_self, Int.toNat_zero, List.getElem?_eq_getElem hpos]
      rfl
    obtain ⟨mem', hwb, _, _⟩ := writeToMemory_spec mem x.lo x.data hevwf.nonneg
    refine ⟨{ u with l1d := { u.l1d with lines := pre ++ post } }, mem', hfetch, ?_, rfl, ?_, ?_, ?_, ?_⟩
    · have hlast' : (LineCache.newLine u.l1d b line :: u.l1d.lines).getLast? = some x := hlast
      have hs' : splitAt x.lo (LineCache.newLine u.l1d b line :: u.l1d.lines) = some (pre, x, post) := hs
      simp only [hlast', hfix, evictCacheLine, hs', hat, hwb, bind, Except.bind]
      rfl
    · have hlen : (nl :: u.l1d.lines).length = pre.length + post.length + 1 := by
        rw [hsplit]; simp; omega
      exact { lineLength := hw.lineLength, numberOfLines := hw.numberOfLines,
              lines := fun l hl => hlines1 l (by rw [hsplit]; exact mem_middle hl),
              distinct := (List.Pairwise.sublist (by rw [hsplit]; exact sublist_middle pre post x) hdist1),
              count := by
                have := hw.count
                simp only [List.length_cons] at hlen
                simp only [List.length_append]; omega }
    · rw [hsplit] at hcoh1
      exact hcoh1.evict hevwf hwb
    · refine ⟨nl, ?_, rfl⟩
      have hnlm : nl ∈ pre ++ x :: post := by rw [← hsplit]; simp
      rcases List.mem_append.mp hnlm with h | h
      · exact List.mem_append_left _ h
      · rcases List.mem_cons.mp h with h | h
        · exact absurd (show x.lo = b by rw [← h]; rfl) (hfresh x hevm)
        · exact List.mem_append_right _ h
    · intro y hy
      have hy' : y ∈ nl :: u.l1d.lines := by rw [hsplit]; exact mem_middle hy
      rcases List.mem_cons.mp hy' with rfl | h
      · exact Or.inr rfl
      · exact Or.inl h
  · -- room left
    simp only [hfull, if_false, hfix]
    refine ⟨{ u with l1d := { u.l1d with lines := nl :: u.l1d.lines } }, mem, hfetch, rfl, rfl, ?_, hcoh1, ⟨nl, by simp, rfl⟩, ?_⟩
    · exact { lineLength := hw.lineLength, numberOfLines := hw.numberOfLines, lines := hlines1, distinct := hdist1,
              count := by rw [← hw.numberOfLines]; exact Nat.le_of_not_gt hfull }
    · intro y hy
      rcases List.mem_cons.mp hy with rfl | h
      · exact Or.inr rfl
      · exact Or.inl h

/-! ### the callers' contract unfolded -/

theorem loadOk_spec {L : Int} {memLen : Nat} {a0 : Word} {as : List Word} (h : loadOk L memLen (a0 :: as) = true) :
    ∀ a ∈ a0 :: as, 0 ≤ a.toInt ∧ a.toInt.toNat < memLen ∧ base L a.toInt = base L a0.toInt ∧ base L a.toInt + L < 2 ^ 31 := by
  intro a ha
  unfold loadOk at h
  have := List.all_eq_true.mp h a ha
  simp only [Bool.and_eq_true, decide_eq_true_eq] at this
  obtain ⟨⟨⟨h1, h2⟩, h3⟩, h4⟩ := this
  exact ⟨h1, by omega, h3, h4⟩

theorem consecutive_spec (a0 : Int) : ∀ (chs : List (Word × Byte)) (k : Nat), consecutive a0 chs k = true →
    ∀ (i : Nat) (h : i < chs.length), (chs[i]'h).1.toInt = a0 + k + i
  | [], _, _, i, h => by simp at h
  | p :: ps, k, hc, i, h => by
    simp only [consecutive, Bool.and_eq_true, decide_eq_true_eq] at hc
    cases i with
    | zero => simp [hc.1]
    | succ j =>
      have := consecutive_spec a0 ps (k + 1) hc.2 j (by simpa using h)
      simp only [List.getElem_cons_succ, this]
      omega

theorem storeOk_spec {L : Int} {memLen : Nat} {chs : List (Word × Byte)} (h : storeOk L memLen chs = true) :
    ∃ p ps, chs = p :: ps ∧ consecutive p.1.toInt chs 0 = true ∧
      ∀ a ∈ chs.map (·.1), 0 ≤ a.toInt ∧ a.toInt.toNat < memLen ∧ base L a.toInt = base L p.1.toInt ∧
        base L a.toInt + L < 2 ^ 31 := by
  cases chs with
  | nil => simp [storeOk] at h
  | cons p ps =>
    simp only [storeOk, Bool.and_eq_true] at h
    refine ⟨p, ps, rfl, h.1, ?_⟩
    have := loadOk_spec (a0 := p.1) (as := ps.map (·.1)) (by simpa using h.2)
    simpa using this

/-! ### stores -/

/-- `ctx.WriteMemory`'s effect on the byte list -/
def applyChanges (m : List Byte) (chs : List (Word × Byte)) : List Byte :=
  chs.foldl (fun m p => m.set p.1.toInt.toNat p.2) m

theorem applyChanges_length (chs : List (Word × Byte)) : ∀ m : List Byte, (applyChanges m chs).length = m.length := by
  induction chs with
  | nil => intro m; rfl
  | cons p ps ih => intro m; simp only [applyChanges, List.foldl_cons] at ih ⊢; rw [ih]; simp

/-- consecutive in-range changes overwrite exactly their run of bytes -/
theorem applyChanges_consecutive (a0 : Int) (h0 : 0 ≤ a0) : ∀ (chs : List (Word × Byte)) (k : Nat) (m : List Byte),
    consecutive a0 chs k = true → a0 + k + chs.length ≤ m.length →
    ∀ x : Nat, (applyChanges m chs)[x]? =
      if a0 + k ≤ (x : Int) ∧ (x : Int) < a0 + k + chs.length then (chs.map (·.2))[x - (a0 + k).toNat]? else m[x]?
  | [], k, m, _, _, x => by
    have : ¬ (a0 + k ≤ (x : Int) ∧ (x : Int) < a0 + k + (([] : List (Word × Byte)).length : Nat)) := by
      simp only [List.length_nil]; omega
    simp only [this, if_false]; rfl
  | p :: ps, k, m, hc, hlen, x => by
    simp only [consecutive, Bool.and_eq_true, decide_eq_true_eq] at hc
    simp only [List.length_cons] at hlen
    have ih := applyChanges_consecutive a0 h0 ps (k + 1) (m.set p.1.toInt.toNat p.2) hc.2
      (by simp only [List.length_set]; omega) x
    have e : applyChanges m (p :: ps) = applyChanges (m.set p.1.toInt.toNat p.2) ps := rfl
    rw [e, ih, hc.1]
    simp only [List.length_cons, List.map_cons]
    by_cases h1 : a0 + ((k + 1 : Nat) : Int) ≤ (x : Int) ∧ (x : Int) < a0 + ((k + 1 : Nat) : Int) + (ps.length : Nat)
    · have h2 : a0 + (k : Int) ≤ (x : Int) ∧ (x : Int) < a0 + (k : Int) + ((ps.length + 1 : Nat) : Int) := by omega
      simp only [h1, h2, and_self, if_true]
      have : x - (a0 + (k : Int)).toNat = (x - (a0 + ((k + 1 : Nat) : Int)).toNat) + 1 := by omega
      rw [this, List.getElem?_cons_succ]
    · simp only [h1, if_false]
      by_cases h3 : (x : Int) = a0 + k
      · have h2 : a0 + (k : Int) ≤ (x : Int) ∧ (x : Int) < a0 + (k : Int) + ((ps.length + 1 : Nat) : Int) := by omega
        have hx : (a0 + (k : Int)).toNat = x := by omega
        simp only [h2, and_self, if_true, hx, Nat.sub_self, List.getElem?_cons_zero]
        rw [List.getElem?_set_self (by omega)]
      · have h2 : ¬ (a0 + (k : Int) ≤ (x : Int) ∧ (x : Int) < a0 + (k : Int) + ((ps.length + 1 : Nat) : Int)) := by omega
        simp only [h2, if_false]
        rw [List.getElem?_set_ne (by omega)]

theorem writeMemory_ok (e : Gen.Execution) : ∀ (ctx : Model.Context),
    (∀ p ∈ e.MemoryChanges, 0 ≤ p.1.toInt ∧ p.1.toInt.toNat < ctx.Memory.length) →
    Model.Seq.writeMemory ctx e = some { ctx with Memory := applyChanges ctx.Memory e.MemoryChanges } := by
  unfold Model.Seq.writeMemory applyChanges
  generalize e.MemoryChanges = chs
  induction chs with
  | nil => intro ctx _; rfl
  | cons p ps ih =>
    intro ctx h
    obtain ⟨h1, h2⟩ := h p (by simp)
    have hn : ¬ (p.1.toInt < 0 ∨ ctx.Memory.length ≤ p.1.toInt.toNat) := by omega
    simp only [List.foldlM_cons, hn, if_false, List.foldl_cons]
    have := ih { ctx with Memory := ctx.Memory.set p.1.toInt.toNat p.2 }
      (fun q hq => by simpa using h q (by simp [hq]))
    simpa using this

theorem slt_iff (a b : Word) : a.slt b = decide (a.toInt < b.toInt) := by
  simp [BitVec.slt]

theorem sortChanges_consecutive (a0 : Int) : ∀ (chs : List (Word × Byte)) (k : Nat), consecutive a0 chs k = true →
    sortChanges chs = chs
  | [], _, _ => rfl
  | p :: ps, k, hc => by
    simp only [consecutive, Bool.and_eq_true, decide_eq_true_eq] at hc
    have ih := sortChanges_consecutive a0 ps (k + 1) hc.2
    unfold sortChanges
    rw [ih]
    cases ps with
    | nil => rfl
    | cons q qs =>
      have hq := hc.2
      simp only [consecutive, Bool.and_eq_true, decide_eq_true_eq] at hq
      have : q.1.slt p.1 = false := by
        rw [slt_iff]; simp only [decide_eq_false_iff_not]; omega
      simp only [insertChange, this, Bool.false_eq_true, if_false]

/-- the raw result of `Write` into a resident full-length line when the run of bytes fits -/
theorem write_fits {c : Cache} {a : Int} {d : List Byte} {pre post : List Line} {x : Line}
    (hs : splitAt a c.lines = some (pre, x, post)) (hfit : (a - x.lo).toNat + d.length ≤ x.data.length)
    (hd : 0 < d.length) :
    LineCache.write c a d = .ok { c with lines := pre ++ { x with data := (setFrom x.data (a - x.lo).toNat d).1 } :: post } := by
  obtain ⟨hok, _, _⟩ := setFrom_spec d x.data (a - x.lo).toNat hfit
  have hlt : (a - x.lo).toNat < x.data.length := by omega
  unfold LineCache.write writeState writeRaw
  simp only [hs, List.getElem?_eq_getElem hlt]
  generalize hsf : setFrom x.data (a - x.lo).toNat d = r at hok
  obtain ⟨d', ok⟩ := r
  simp only at hok
  subst hok
  rfl

/-- **cached store**: when the line of a well-formed store is resident, `writeExecutionMemoryChangesToL1D`
succeeds and the pair (memory, L1D) is coherent with the flat memory AFTER the store. -/
theorem write_cached_ok {L n : Nat} (hL : 0 < L) {u : Mmu} {mem flat : List Byte}
    (hw : DWf L n u.l1d) (hc : Coh u.l1d.lines mem flat) (e : Gen.Execution)
    (hst : storeOk L flat.length e.MemoryChanges = true)
    (hres : ∃ l ∈ u.l1d.lines, ∀ p ∈ e.MemoryChanges, l.lo = base L p.1.toInt) :
    ∃ u', writeExecutionMemoryChangesToL1D u e = .ok u' ∧ u'.l1i = u.l1i ∧ DWf L n u'.l1d ∧
      Coh u'.l1d.lines mem (applyChanges flat e.MemoryChanges) ∧
      (∀ y ∈ u'.l1d.lines, ∃ y0 ∈ u.l1d.lines, y0.lo = y.lo) := by
  obtain ⟨p, ps, hchs, hcons, hall⟩ := storeOk_spec hst
  obtain ⟨l, hlm, hlb⟩ := hres
  rw [hchs] at hcons hall hlb ⊢
  have hp := hall p.1 (by simp)
  have ha0 : 0 ≤ p.1.toInt := hp.1
  -- the last address of the run lies in the same block
  have hidx := consecutive_spec p.1.toInt (p :: ps) 0 hcons
  have hlastm : ((p :: ps)[ps.length]'(by simp)).1 ∈ (p :: ps).map (·.1) :=
    List.mem_map_of_mem (List.getElem_mem _)
  have hlast := hall _ hlastm
  have hlasta := hidx ps.length (by simp)
  simp only [Int.natCast_zero, Int.add_zero] at hlasta
  rw [hlasta] at hlast
  have hlwf := hw.lines l hlm
  have hlb0 := hlb p (by simp)
  have hcov0 : l.covers p.1.toInt = true := (hlwf.covers_iff hL _ ha0).mpr hlb0
  have hcovl : l.lo ≤ p.1.toInt + ps.length ∧ p.1.toInt + ps.length < l.lo + L :=
    (block_iff_base L l.lo _ (by omega) hlast.1 hlwf.aligned).mpr (by rw [hlast.2.2.1, hlb0])
  have hcov0' := (Proofs.LC.covers_iff l _).mp hcov0
  obtain ⟨pre, x, post, hs⟩ := splitAt_isSome ⟨l, hlm, hcov0⟩
  obtain ⟨hsplit, hxcov, _⟩ := splitAt_some hs
  have hxm : x ∈ u.l1d.lines := by rw [hsplit]; simp
  have hxl : x = l := hw.unique hxm hlm
    ((((hw.lines x hxm).covers_iff hL _ ha0).mp hxcov).trans hlb0.symm)
  subst hxl
  have hfit : (p.1.toInt - x.lo).toNat + ((p :: ps).map (·.2)).length ≤ x.data.length := by
    rw [hlwf.len]; simp only [List.length_map, List.length_cons]; omega
  have hwr := write_fits (d := (p :: ps).map (·.2)) hs hfit (by simp)
  obtain ⟨_, hdlen, hdget⟩ := setFrom_spec ((p :: ps).map (·.2)) x.data (p.1.toInt - x.lo).toNat hfit
  generalize hd' : (setFrom x.data (p.1.toInt - x.lo).toNat ((p :: ps).map (·.2))).1 = d' at hwr hdlen hdget
  have hflat' := applyChanges_consecutive p.1.toInt ha0 (p :: ps) 0 flat hcons (by
    simp only [List.length_cons, Int.natCast_zero, Int.add_zero]; omega)
  simp only [Int.natCast_zero, Int.add_zero] at hflat'
  refine ⟨{ u with l1d := { u.l1d with lines := pre ++ { x with data := d' } :: post } }, ?_, rfl, ?_, ?_, ?_⟩
  rotate_right
  · intro y hy
    rcases List.mem_append.mp hy with h | h
    · exact ⟨y, by rw [hsplit]; exact List.mem_append_left _ h, rfl⟩
    · rcases List.mem_cons.mp h with rfl | h
      · exact ⟨x, hxm, rfl⟩
      · exact ⟨y, by rw [hsplit]; exact List.mem_append_right _ (List.mem_cons_of_mem _ h), rfl⟩
  · unfold writeExecutionMemoryChangesToL1D
    rw [hchs, sortChanges_consecutive _ _ 0 hcons]
    simp only [writeToL1D, hwr, bind, Except.bind]
    rfl
  · -- structure: the line keeps base, bounds and length
    have hx'wf : LineWf L { x with data := d' } :=
      { hi := hlwf.hi, len := by show d'.length = L; rw [hdlen, hlwf.len], nonneg := hlwf.nonneg, aligned := hlwf.aligned }
    refine { lineLength := hw.lineLength, numberOfLines := hw.numberOfLines, lines := ?_, distinct := ?_, count := ?_ }
    · intro y hy
      rcases List.mem_append.mp hy with h | h
      · exact hw.lines y (by rw [hsplit]; exact List.mem_append_left _ h)
      · rcases List.mem_cons.mp h with rfl | h
        · exact hx'wf
        · exact hw.lines y (by rw [hsplit]; exact List.mem_append_right _ (List.mem_cons_of_mem _ h))
    · have hd := hw.distinct
      rw [hsplit] at hd
      have e1 : (pre ++ { x with data := d' } :: post).map (·.lo) = (pre ++ x :: post).map (·.lo) := by simp
      have := (List.pairwise_map (f := fun (l : Line) => l.lo) (R := fun a b => a ≠ b)).mpr hd
      rw [← e1] at this
      exact List.pairwise_map.mp this
    · have := hw.count
      rw [hsplit] at this
      simpa using this
  · -- coherence with the updated flat memory
    have hother : ∀ y ∈ pre ++ post, ∀ z : Nat, y.covers z = true →
        ¬ (p.1.toInt ≤ (z : Int) ∧ (z : Int) < p.1.toInt + ((p :: ps).length : Nat)) := by
      intro y hy z hcz hin
      have hym : y ∈ u.l1d.lines := by rw [hsplit]; exact mem_middle hy
      have hyx : y ≠ x := by
        intro he
        have hd := hw.distinct
        rw [hsplit] at hd
        have := List.pairwise_append.mp hd
        rcases List.mem_append.mp hy with h | h
        · exact this.2.2 y h x (by simp) (by rw [he])
        · exact (List.pairwise_cons.mp this.2.1).1 y h (by rw [he])
      have hyb := ((hw.lines y hym).covers_iff hL z (by omega)).mp hcz
      have hxz : x.covers z = true := by
        rw [Proofs.LC.covers_iff, hlwf.hi]
        simp only [List.length_cons] at hin
        omega
      have hxb := (hlwf.covers_iff hL z (by omega)).mp hxz
      exact hyx (hw.unique hym hxm (hyb.trans hxb.symm))
    refine { len := by rw [applyChanges_length]; exact hc.len, cached := ?_, uncached := ?_ }
    · intro y hy z hcz hz
      rw [applyChanges_length] at hz
      rw [hflat' z]
      rcases List.mem_append.mp hy with h | h
      · have := hother y (List.mem_append_left _ h) z hcz
        simp only [this, if_false]
        exact hc.cached y (by rw [hsplit]; exact List.mem_append_left _ h) z hcz hz
      · rcases List.mem_cons.mp h with rfl | h
        · -- the written line
          have hcz' : x.covers z = true := hcz
          have hzr := (Proofs.LC.covers_iff x z).mp hcz'
          rw [hlwf.hi] at hzr
          show d'[((z : Int) - x.lo).toNat]? = _
          rw [hdget]
          simp only [List.length_map]
          by_cases hin : p.1.toInt ≤ (z : Int) ∧ (z : Int) < p.1.toInt + ((p :: ps).length : Nat)
          · have h2 : (p.1.toInt - x.lo).toNat ≤ ((z : Int) - x.lo).toNat ∧
                ((z : Int) - x.lo).toNat < (p.1.toInt - x.lo).toNat + (p :: ps).length := by
              simp only [List.length_cons] at hin ⊢; omega
            simp only [hin, h2, and_self, if_true]
            congr 1; omega
          · have h2 : ¬ ((p.1.toInt - x.lo).toNat ≤ ((z : Int) - x.lo).toNat ∧
                ((z : Int) - x.lo).toNat < (p.1.toInt - x.lo).toNat + (p :: ps).length) := by
              simp only [List.length_cons] at hin ⊢; omega
            simp only [hin, h2, if_false]
            exact hc.cached x hxm z hcz' hz
        · have := hother y (List.mem_append_right _ h) z hcz
          simp only [this, if_false]
          exact hc.cached y (by rw [hsplit]; exact List.mem_append_right _ (List.mem_cons_of_mem _ h)) z hcz hz
    · intro z hz hu
      rw [applyChanges_length] at hz
      rw [hflat' z]
      have hxz : ({ x with data := d' } : Line).covers z = false := hu _ (by simp)
      have hxz' : x.covers z = false := hxz
      have hzr := (covers_false_iff x z).mp hxz'
      rw [hlwf.hi] at hzr
      have hin : ¬ (p.1.toInt ≤ (z : Int) ∧ (z : Int) < p.1.toInt + ((p :: ps).length : Nat)) := by
        simp only [List.length_cons]; omega
      simp only [hin, if_false]
      apply hc.uncached z hz
      intro y hy
      rw [hsplit] at hy
      rcases List.mem_append.mp hy with h | h
      · exact hu y (List.mem_append_left _ h)
      · rcases List.mem_cons.mp h with rfl | h
        · exact hxz'
        · exact hu y (List.mem_append_right _ (List.mem_cons_of_mem _ h))

/-- every address of a well-formed store's run has the base of the first one -/
theorem run_base {L : Int} {memLen : Nat} {p : Word × Byte} {ps : List (Word × Byte)}
    (hcons : consecutive p.1.toInt (p :: ps) 0 = true)
    (hall : ∀ a ∈ (p :: ps).map (·.1), 0 ≤ a.toInt ∧ a.toInt.toNat < memLen ∧ base L a.toInt = base L p.1.toInt ∧
      base L a.toInt + L < 2 ^ 31)
    (z : Nat) (hz : p.1.toInt ≤ (z : Int) ∧ (z : Int) < p.1.toInt + ((p :: ps).length : Nat)) :
    base L z = base L p.1.toInt ∧ z < memLen := by
  have hi : ((z : Int) - p.1.toInt).toNat < (p :: ps).length := by omega
  have hidx := consecutive_spec p.1.toInt (p :: ps) 0 hcons _ hi
  have hm : ((p :: ps)[((z : Int) - p.1.toInt).toNat]'hi).1 ∈ (p :: ps).map (·.1) :=
    List.mem_map_of_mem (List.getElem_mem _)
  have := hall _ hm
  rw [hidx] at this
  have e : p.1.toInt + ((0 : Nat) : Int) + ((((z : Int) - p.1.toInt).toNat : Nat) : Int) = (z : Int) := by omega
  rw [e] at this
  exact ⟨this.2.2.1, by omega⟩

/-- **uncached store**: when the line of a well-formed store is not resident, writing the bytes straight
to memory keeps the pair coherent with the flat memory after the store; the cache is untouched. -/
theorem write_uncached_ok {L n : Nat} (hL : 0 < L) {c : Cache} {mem flat : List Byte}
    (hw : DWf L n c) (hc : Coh c.lines mem flat) (chs : List (Word × Byte))
    (hst : storeOk L flat.length chs = true)
    (hmiss : ∀ p ∈ chs, ∀ y ∈ c.lines, y.covers p.1.toInt = false) :
    Coh c.lines (applyChanges mem chs) (applyChanges flat chs) := by
  obtain ⟨p, ps, hchs, hcons, hall⟩ := storeOk_spec hst
  subst hchs
  have ha0 : 0 ≤ p.1.toInt := (hall p.1 (by simp)).1
  have hlastb := run_base hcons hall
  have hlen : p.1.toInt + ((0 : Nat) : Int) + ((p :: ps).length : Nat) ≤ (flat.length : Nat) := by
    have := (hlastb (p.1.toInt.toNat + ps.length) (by simp only [List.length_cons]; omega)).2
    simp only [List.length_cons]; omega
  have hflat' := applyChanges_consecutive p.1.toInt ha0 (p :: ps) 0 flat hcons hlen
  have hmem' := applyChanges_consecutive p.1.toInt ha0 (p :: ps) 0 mem hcons (by rw [hc.len]; exact hlen)
  simp only [Int.natCast_zero, Int.add_zero] at hflat' hmem'
  have hnot : ∀ y ∈ c.lines, ∀ z : Nat, y.covers z = true →
      ¬ (p.1.toInt ≤ (z : Int) ∧ (z : Int) < p.1.toInt + ((p :: ps).length : Nat)) := by
    intro y hy z hcz hin
    have hyb := ((hw.lines y hy).covers_iff hL z (by omega)).mp hcz
    have := ((hw.lines y hy).covers_iff hL p.1.toInt ha0).mpr (by rw [hyb, (hlastb z hin).1])
    rw [hmiss p (by simp) y hy] at this; cases this
  refine { len := by rw [applyChanges_length, applyChanges_length]; exact hc.len, cached := ?_, uncached := ?_ }
  · intro y hy z hcz hz
    rw [applyChanges_length] at hz
    rw [hflat' z]
    simp only [hnot y hy z hcz, if_false]
    exact hc.cached y hy z hcz hz
  · intro z hz hu
    rw [applyChanges_length] at hz
    rw [hflat' z, hmem' z]
    by_cases hin : p.1.toInt ≤ (z : Int) ∧ (z : Int) < p.1.toInt + ((p :: ps).length : Nat)
    · simp only [hin, and_self, if_true]
    · simp only [hin, if_false]
      exact hc.uncached z hz hu

/-! ### the unit's operations (`Mmu` in, `Mmu` out; L1I untouched) -/

/-- a non-negative address is in a resident line, or in none -/
theorem resident_or_not {L n : Nat} (hL : 0 < L) {c : Cache} (hw : DWf L n c) (a : Int) (ha : 0 ≤ a) :
    (∃ l ∈ c.lines, l.lo = base L a) ∨ (∀ y ∈ c.lines, y.covers a = false) := by
  by_cases h : ∃ l ∈ c.lines, l.lo = base L a
  · exact Or.inl h
  · right
    intro y hy
    cases hcy : y.covers a with
    | false => rfl
    | true => exact absurd ⟨y, hy, ((hw.lines y hy).covers_iff hL a ha).mp hcy⟩ h

/-- **every load returns the flat-memory bytes** (hit): all addresses in bounds and in one resident line -/
theorem getFromL1D_hit {L n : Nat} (hL : 0 < L) {u : Mmu} {mem flat : List Byte}
    (hw : DWf L n u.l1d) (hc : Coh u.l1d.lines mem flat) (a0 : Word) (as : List Word)
    (hok : loadOk L flat.length (a0 :: as) = true) (hres : ∃ l ∈ u.l1d.lines, l.lo = base L a0.toInt) :
    ∃ bytes u', getFromL1D u (a0 :: as) = .ok (some bytes, u') ∧ u'.l1i = u.l1i ∧ DWf L n u'.l1d ∧
      Coh u'.l1d.lines mem flat ∧ u'.l1d.lines.Perm u.l1d.lines ∧
      (a0 :: as).mapM (Model.Seq.readMem flat) = some bytes := by
  obtain ⟨bytes, ls, hg, hp, hm⟩ := getAll_hit hL (base L a0.toInt) (a0 :: as) u.l1d hw hc hres
    (fun a ha => ⟨(loadOk_spec hok a ha).1, (loadOk_spec hok a ha).2.1, (loadOk_spec hok a ha).2.2.1⟩)
  refine ⟨bytes, { u with l1d := { u.l1d with lines := ls } }, ?_, rfl, hw.perm ls hp, hc.congr_mem (fun y => hp.mem_iff), hp, hm⟩
  unfold getFromL1D
  simp only [hg, bind, Except.bind]
  rfl

/-- miss on the first address: `(nil, false)`, nothing changes -/
theorem getFromL1D_miss {u : Mmu} (a0 : Word) (as : List Word)
    (hmiss : ∀ y ∈ u.l1d.lines, y.covers a0.toInt = false) :
    getFromL1D u (a0 :: as) = .ok (none, u) := by
  unfold getFromL1D
  simp only [getAll_miss a0 as hmiss, bind, Except.bind]
  rfl

/-- `doesExecutionMemoryChangesExistsInL1D` on a well-formed store: `true` iff its line is resident;
only the order of the lines changes -/
theorem doesExist_hit {L n : Nat} (hL : 0 < L) {u : Mmu} {mem flat : List Byte}
    (hw : DWf L n u.l1d) (hc : Coh u.l1d.lines mem flat) (e : Gen.Execution)
    (hst : storeOk L flat.length e.MemoryChanges = true)
    (hres : ∃ l ∈ u.l1d.lines, ∀ p ∈ e.MemoryChanges, l.lo = base L p.1.toInt) :
    ∃ u', doesExecutionMemoryChangesExistsInL1D u e = .ok (true, u') ∧ u'.l1i = u.l1i ∧ DWf L n u'.l1d ∧
      Coh u'.l1d.lines mem flat ∧ u'.l1d.lines.Perm u.l1d.lines := by
  obtain ⟨p, ps, hchs, _, _⟩ := storeOk_spec hst
  obtain ⟨l, hl, hlb⟩ := hres
  have hlo : loadOk L flat.length (p.1 :: ps.map (·.1)) = true := by
    have := hst
    rw [hchs] at this
    simp only [storeOk, Bool.and_eq_true, List.map_cons] at this
    exact this.2
  obtain ⟨bytes, u', hg, h1, h2, h3, h4, _⟩ := getFromL1D_hit hL hw hc p.1 (ps.map (·.1)) hlo
    ⟨l, hl, hlb p (by rw [hchs]; simp)⟩
  refine ⟨u', ?_, h1, h2, h3, h4⟩
  unfold doesExecutionMemoryChangesExistsInL1D
  rw [hchs]
  simp only [List.map_cons, hg, bind, Except.bind]
  rfl

theorem doesExist_miss {u : Mmu} (e : Gen.Execution) (p : Word × Byte) (ps : List (Word × Byte))
    (hchs : e.MemoryChanges = p :: ps) (hmiss : ∀ y ∈ u.l1d.lines, y.covers p.1.toInt = false) :
    doesExecutionMemoryChangesExistsInL1D u e = .ok (false, u) := by
  unfold doesExecutionMemoryChangesExistsInL1D
  rw [hchs]
  simp only [List.map_cons, getFromL1D_miss p.1 _ hmiss, bind, Except.bind]
  rfl

/-! ### flush -/

theorem flushLines_ok {cfg : Config} {L : Nat} (hcfg : cfg.l1DLineSize = L) (hL : 0 < L) {flat : List Byte} :
    ∀ (ls : List Line) (mem : List Byte) (cyc : Int), (∀ l ∈ ls, LineWf L l) → Coh ls mem flat →
      ∃ mem', flushLines cfg ls mem cyc = .ok (mem', cyc + ls.length * Gen.Latency.MemoryAccess) ∧ Coh [] mem' flat := by
  intro ls
  induction ls with
  | nil => intro mem cyc _ hc; exact ⟨mem, by simp [flushLines]; rfl, hc⟩
  | cons l ls ih =>
    intro mem cyc hwf hc
    have hl := hwf l (by simp)
    obtain ⟨mem1, hwb, _, _⟩ := writeToMemory_spec mem l.lo l.data hl.nonneg
    have hc1 : Coh ([] ++ ls) mem1 flat := Coh.evict (pre := []) (by simpa using hc) hl hwb
    obtain ⟨mem', hf, hc'⟩ := ih mem1 (cyc + Gen.Latency.MemoryAccess) (fun y hy => hwf y (by simp [hy])) (by simpa using hc1)
    refine ⟨mem', ?_, hc'⟩
    have hpos : ¬ (cfg.l1DLineSize ≤ 0) := by rw [hcfg]; omega
    unfold flushLines
    simp only [flushLine, hpos, if_false, hwb, bind, Except.bind, hf, List.length_cons]
    congr 2
    simp only [Int.natCast_add, Int.natCast_one, Int.add_mul, Int.one_mul]; omega

/-- coherence with no resident line left is equality -/
theorem Coh.nil_eq {mem flat : List Byte} (h : Coh [] mem flat) : mem = flat := by
  apply List.ext_getElem?
  intro i
  by_cases hi : i < flat.length
  · exact h.uncached i hi (fun l hl => by cases hl)
  · rw [List.getElem?_eq_none (by rw [h.len]; omega), List.getElem?_eq_none (by omega)]

/-- **flush makes Memory = view**: after `flush` the memory IS the flat memory; one `MemoryAccess` per line -/
theorem flush_ok {cfg : Config} {L n : Nat} (hcfg : cfg.l1DLineSize = L) (hL : 0 < L) {u : Mmu} {mem flat : List Byte}
    (hw : DWf L n u.l1d) (hc : Coh u.l1d.lines mem flat) :
    flush cfg u mem = .ok (flat, u.l1d.lines.length * Gen.Latency.MemoryAccess) := by
  obtain ⟨mem', hf, hc'⟩ := flushLines_ok hcfg hL u.l1d.lines mem 0 hw.lines hc
  unfold flush LineCache.lines
  rw [hf, hc'.nil_eq]
  simp

/-! ### the literal Go loops (`Model/Mmu.lean`, `…Lit`) compute what the one-pass definitions compute -/

theorem fetchFromLit_eq (mem : List Byte) (lo : Nat) : ∀ (n k : Nat),
    fetchFromLit mem lo k n = .ok (padTake (mem.drop (lo + k)) n)
  | 0, k => by simp [fetchFromLit, padTake]; rfl
  | n + 1, k => by
    unfold fetchFromLit
    have ih := fetchFromLit_eq mem lo n (k + 1)
    by_cases h : ((lo : Int) + (k : Int)) ≥ (mem.length : Int)
    · simp only [h, if_true, ih, bind, Except.bind]
      have h1 : mem.drop (lo + k) = [] := List.drop_eq_nil_iff.mpr (by omega)
      have h2 : mem.drop (lo + (k + 1)) = [] := List.drop_eq_nil_iff.mpr (by omega)
      rw [h1, h2]
      rfl
    · have hlt : lo + k < mem.length := by omega
      have hm : memAt mem ((lo : Int) + (k : Int)) = .ok mem[lo + k] := by
        unfold memAt
        have : ¬ ((lo : Int) + (k : Int) < 0) := by omega
        have e : ((lo : Int) + (k : Int)).toNat = lo + k := by omega
        simp only [this, if_false, e, List.getElem?_eq_getElem hlt]; rfl
      simp only [h, if_false, hm, ih, bind, Except.bind]
      have h1 : mem.drop (lo + k) = mem[lo + k] :: mem.drop (lo + (k + 1)) := by
        rw [List.drop_eq_getElem_cons hlt]; rfl
      rw [h1]
      rfl

/-- `fetchCacheLine` is the literal loop of mmu.go -/
theorem fetchCacheLine_literal (cfg : Config) (mem : List Byte) (a : Word) :
    fetchCacheLineLit cfg mem a = fetchCacheLine cfg mem a := by
  unfold fetchCacheLineLit fetchCacheLine
  cases ha : LineCache.alignDown a.toInt cfg.l1DLineSize with
  | error f => rfl
  | ok lo =>
    simp only [bind, Except.bind]
    by_cases h1 : cfg.l1DLineSize < 0
    · simp only [h1, if_true]
    · simp only [h1, if_false]
      by_cases h2 : cfg.l1DLineSize = 0
      · simp only [h2, if_true, Int.toNat_zero, fetchFromLit]
      · simp only [h2, if_false]
        have hpos : 0 < cfg.l1DLineSize.toNat := by omega
        by_cases h3 : lo < 0
        · simp only [h3, if_true]
          obtain ⟨n, hn⟩ : ∃ n, cfg.l1DLineSize.toNat = n + 1 := ⟨cfg.l1DLineSize.toNat - 1, by omega⟩
          rw [hn]
          unfold fetchFromLit
          have hc : ¬ (lo + ((0 : Nat) : Int) ≥ (mem.length : Int)) := by omega
          have hm : memAt mem (lo + ((0 : Nat) : Int)) = .error (.panic "index out of range") := by
            unfold memAt
            have : lo + ((0 : Nat) : Int) < 0 := by omega
            simp only [this, if_true]; rfl
          simp only [hc, if_false, hm, bind, Except.bind]
          rfl
        · simp only [h3, if_false]
          obtain ⟨lo', rfl⟩ : ∃ n : Nat, lo = (n : Int) := ⟨lo.toNat, by omega⟩
          rw [fetchFromLit_eq mem lo' _ 0]
          simp only [Nat.add_zero, Int.toNat_natCast]
          rfl

/-- the literal loop of `writeToMemory` for a non-negative base -/
theorem writeToMemoryLit_spec (lo : Nat) : ∀ (vs mem : List Byte) (i : Nat),
    ∃ mem', writeToMemoryLit mem lo vs i = .ok mem' ∧ mem'.length = mem.length ∧
      ∀ x : Nat, mem'[x]? = if lo + i ≤ x ∧ x < lo + i + vs.length ∧ x < mem.length then vs[x - (lo + i)]? else mem[x]?
  | [], mem, i => ⟨mem, rfl, rfl, fun x => by
      have : ¬ (lo + i ≤ x ∧ x < lo + i + ([] : List Byte).length ∧ x < mem.length) := by simp; omega
      simp only [this, if_false]⟩
  | v :: vs, mem, i => by
    unfold writeToMemoryLit
    by_cases h1 : ((lo : Int) + (i : Int)) ≥ (mem.length : Int)
    · simp only [h1, if_true]
      refine ⟨mem, rfl, rfl, fun x => ?_⟩
      have : ¬ (lo + i ≤ x ∧ x < lo + i + (v :: vs).length ∧ x < mem.length) := by omega
      simp only [this, if_false]
    · have h2 : ¬ ((lo : Int) + (i : Int) < 0) := by omega
      simp only [h1, h2, if_false]
      have e : ((lo : Int) + (i : Int)).toNat = lo + i := by omega
      rw [e]
      obtain ⟨mem', h3, h4, h5⟩ := writeToMemoryLit_spec lo vs (mem.set (lo + i) v) (i + 1)
      refine ⟨mem', h3, by rw [h4]; simp, fun x => ?_⟩
      rw [h5 x]
      have hl : (mem.set (lo + i) v).length = mem.length := List.length_set
      rw [hl]
      by_cases hx : x = lo + i
      · subst hx
        have c1 : ¬ (lo + (i + 1) ≤ lo + i ∧ lo + i < lo + (i + 1) + vs.length ∧ lo + i < mem.length) := by omega
        have c2 : lo + i ≤ lo + i ∧ lo + i < lo + i + (v :: vs).length ∧ lo + i < mem.length := by
          simp only [List.length_cons]; omega
        rw [if_neg c1, if_pos c2, List.getElem?_set_self (by omega), Nat.sub_self, List.getElem?_cons_zero]
      · by_cases hr : lo + (i + 1) ≤ x ∧ x < lo + (i + 1) + vs.length ∧ x < mem.length
        · have c2 : lo + i ≤ x ∧ x < lo + i + (v :: vs).length ∧ x < mem.length := by
            simp only [List.length_cons]; omega
          rw [if_pos hr, if_pos c2]
          have : x - (lo + i) = (x - (lo + (i + 1))) + 1 := by omega
          rw [this, List.getElem?_cons_succ]
        · have c2 : ¬ (lo + i ≤ x ∧ x < lo + i + (v :: vs).length ∧ x < mem.length) := by
            simp only [List.length_cons]; omega
          rw [if_neg hr, if_neg c2, List.getElem?_set_ne (by omega)]

/-- `writeToMemory` is the literal loop of mmu.go -/
theorem writeToMemory_literal (mem : List Byte) (lo : Int) (data : List Byte) :
    writeToMemoryLit mem lo data 0 = writeToMemory mem lo data := by
  cases data with
  | nil => rfl
  | cons v vs =>
    by_cases hlo : 0 ≤ lo
    · obtain ⟨m1, h1, h2, h3⟩ := writeToMemoryLit_spec lo.toNat (v :: vs) mem 0
      obtain ⟨m2, g1, g2, g3⟩ := writeToMemory_spec mem lo (v :: vs) hlo
      have e : lo = ((lo.toNat : Nat) : Int) := by omega
      rw [g1]
      rw [e]
      rw [h1]
      congr 1
      apply List.ext_getElem?
      intro x
      rw [h3 x, g3 x]
      by_cases hc : lo.toNat + 0 ≤ x ∧ x < lo.toNat + 0 + (v :: vs).length ∧ x < mem.length
      · have hc' : lo ≤ (x : Int) ∧ (x : Int) < lo + ((v :: vs).length : Nat) ∧ x < mem.length := by omega
        rw [if_pos hc, if_pos hc', Nat.add_zero]
      · have hc' : ¬ (lo ≤ (x : Int) ∧ (x : Int) < lo + ((v :: vs).length : Nat) ∧ x < mem.length) := by omega
        rw [if_neg hc, if_neg hc']
    · unfold writeToMemoryLit writeToMemory
      have c1 : ¬ (lo + ((0 : Nat) : Int) ≥ (mem.length : Int)) := by omega
      have c2 : lo + ((0 : Nat) : Int) < 0 := by omega
      have c3 : ¬ (lo ≥ (mem.length : Int)) := by omega
      have c4 : lo < 0 := by omega
      simp only [c1, c2, c3, c4, if_true, if_false]

/-- writing the same bytes at the same place again changes nothing -/
theorem writeToMemory_idem (mem mem' : List Byte) (lo : Int) (data : List Byte)
    (h : writeToMemory mem lo data = .ok mem') : writeToMemory mem' lo data = .ok mem' := by
  by_cases hlo : 0 ≤ lo
  · obtain ⟨m1, h1, h2, h3⟩ := writeToMemory_spec mem lo data hlo
    rw [h] at h1; injection h1 with h1; subst h1
    obtain ⟨m2, g1, g2, g3⟩ := writeToMemory_spec mem' lo data hlo
    rw [g1]
    congr 1
    apply List.ext_getElem?
    intro x
    rw [g3 x, h3 x, h2]
    by_cases hc : lo ≤ (x : Int) ∧ (x : Int) < lo + (data.length : Nat) ∧ x < mem.length
    · simp only [hc, and_self, if_true]
    · simp only [hc, if_false]
  · cases data with
    | nil => rfl
    | cons v vs =>
      unfold writeToMemory at h
      have c3 : ¬ (lo ≥ (mem.length : Int)) := by omega
      have c4 : lo < 0 := by omega
      simp only [c3, c4, if_true, if_false] at h
      cases h

/-- the literal inner loop of `flush`: `k` identical `writeToMemory` calls -/
def repeatWrite (lo : Int) (data : List Byte) : Nat → List Byte → M (List Byte)
  | 0, mem => pure mem
  | k + 1, mem => do
    let m ← writeToMemory mem lo data
    repeatWrite lo data k m

theorem repeatWrite_fixed (lo : Int) (data mem : List Byte) (h : writeToMemory mem lo data = .ok mem) :
    ∀ k, repeatWrite lo data k mem = .ok mem
  | 0 => rfl
  | k + 1 => by
    unfold repeatWrite
    simp only [h, bind, Except.bind]
    exact repeatWrite_fixed lo data mem h k

/-- `flushLine` (one write when the line size is positive) is the literal loop of `l1DCacheLineSize` writes -/
theorem flushLine_literal (cfg : Config) (mem : List Byte) (l : Line) :
    repeatWrite l.lo l.data cfg.l1DLineSize.toNat mem = flushLine cfg mem l := by
  unfold flushLine
  by_cases h : cfg.l1DLineSize ≤ 0
  · have : cfg.l1DLineSize.toNat = 0 := by omega
    simp only [h, if_true, this, repeatWrite]
  · simp only [h, if_false]
    obtain ⟨k, hk⟩ : ∃ k, cfg.l1DLineSize.toNat = k + 1 := ⟨cfg.l1DLineSize.toNat - 1, by omega⟩
    rw [hk]
    unfold repeatWrite
    cases hw : writeToMemory mem l.lo l.data with
    | error f => rfl
    | ok m1 =>
      simp only [bind, Except.bind]
      exact repeatWrite_fixed l.lo l.data m1 (writeToMemory_idem mem m1 l.lo l.data hw) k

end Proofs.Mmu

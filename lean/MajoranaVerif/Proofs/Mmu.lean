/-
  Proofs/Mmu.lean — lemmas about the memory-management unit model (Model/Mmu.lean):
  the byte-level meaning of `fetchCacheLine` / `writeToMemory`, the structural invariant
  `DWf` of the data cache (aligned, pairwise distinct, full-length lines, at most
  `numberOfLines` of them) and the coherence relation `Coh` between the pair
  (ctx.Memory, L1D) and the flat memory of a cache-less machine, preserved by every
  operation of the unit.  Core Lean only.
-/
import MajoranaVerif.Model.Mmu
import MajoranaVerif.Proofs.LineCache
open GoInt LineCache

namespace Proofs.Mmu
open Model.Mmu Proofs.LC

/-! ### lists -/

theorem padTake_length : ∀ (r : List Byte) (n : Nat), (padTake r n).length = n
  | _, 0 => by simp [padTake]
  | [], n + 1 => by simp [padTake, padTake_length [] n]
  | _ :: r, n + 1 => by simp [padTake, padTake_length r n]

theorem padTake_getElem? : ∀ (r : List Byte) (n k : Nat), k < n →
    (padTake r n)[k]? = some (r.getD k 0#8)
  | _, 0, k, h => by omega
  | [], n + 1, 0, _ => by simp [padTake]
  | [], n + 1, k + 1, h => by
    simp only [padTake, List.getElem?_cons_succ]
    rw [padTake_getElem? [] n k (by omega)]; simp
  | v :: r, n + 1, 0, _ => by simp [padTake]
  | v :: r, n + 1, k + 1, h => by
    simp only [padTake, List.getElem?_cons_succ]
    rw [padTake_getElem? r n k (by omega)]; simp

theorem overlay_length : ∀ (m d : List Byte), (overlay m d).length = m.length
  | m, [] => by simp [overlay]
  | [], _ :: _ => by simp [overlay]
  | _ :: ms, _ :: ds => by simp [overlay, overlay_length ms ds]

theorem overlay_getElem? : ∀ (m d : List Byte) (k : Nat),
    (overlay m d)[k]? = if k < d.length ∧ k < m.length then d[k]? else m[k]?
  | m, [], k => by simp [overlay]
  | [], _ :: _, k => by simp [overlay]
  | x :: ms, y :: ds, 0 => by simp [overlay]
  | x :: ms, y :: ds, k + 1 => by
    simp only [overlay, List.getElem?_cons_succ, List.length_cons, Nat.add_lt_add_iff_right]
    exact overlay_getElem? ms ds k

/-- the bytes of `writeToMemory` -/
theorem writeToMemory_spec (mem : List Byte) (lo : Int) (data : List Byte) (hlo : 0 ≤ lo) :
    ∃ mem', writeToMemory mem lo data = .ok mem' ∧ mem'.length = mem.length ∧
      ∀ x : Nat, mem'[x]? = if lo ≤ x ∧ (x : Int) < lo + data.length ∧ x < mem.length then data[x - lo.toNat]? else mem[x]? := by
  cases data with
  | nil =>
    refine ⟨mem, rfl, rfl, ?_⟩
    intro x
    have : ¬ (lo ≤ (x : Int) ∧ (x : Int) < lo + (([] : List Byte).length : Nat) ∧ x < mem.length) := by
      simp only [List.length_nil]; omega
    simp only [this, if_false]
  | cons v vs =>
    unfold writeToMemory
    by_cases h1 : lo ≥ mem.length
    · simp only [h1, if_true]
      refine ⟨mem, rfl, rfl, ?_⟩
      intro x
      by_cases hx : lo ≤ (x : Int) ∧ (x : Int) < lo + ((v :: vs).length : Nat) ∧ x < mem.length
      · omega
      · simp only [hx, if_false]
    · have h2 : ¬ lo < 0 := by omega
      simp only [h1, h2, if_false]
      refine ⟨_, rfl, ?_, ?_⟩
      · simp only [List.length_append, List.length_take, overlay_length, List.length_drop]; omega
      · intro x
        have hlen : (List.take lo.toNat mem).length = lo.toNat := by
          simp only [List.length_take]; omega
        by_cases hx : x < lo.toNat
        · rw [List.getElem?_append_left (by omega)]
          have : ¬ (lo ≤ (x : Int) ∧ (x : Int) < lo + ((v :: vs).length : Nat) ∧ x < mem.length) := by omega
          simp only [this, if_false, List.getElem?_take, hx, if_true]
        · rw [List.getElem?_append_right (by omega), hlen, overlay_getElem?]
          simp only [List.length_drop, List.getElem?_drop]
          have e : lo.toNat + (x - lo.toNat) = x := by omega
          by_cases hc : lo ≤ (x : Int) ∧ (x : Int) < lo + ((v :: vs).length : Nat) ∧ x < mem.length
          · have : x - lo.toNat < (v :: vs).length ∧ x - lo.toNat < mem.length - lo.toNat := by omega
            simp only [this, hc, and_self, if_true]
          · have : ¬ (x - lo.toNat < (v :: vs).length ∧ x - lo.toNat < mem.length - lo.toNat) := by omega
            simp only [this, hc, if_false, e]

end Proofs.Mmu

/-
  Proofs/Mmu.lean — lemmas about the memory-management unit model (Model/Mmu.lean):
  the byte-level meaning of `fetchCacheLine` / `writeToMemory`, the structural invariant
  `DWf` of the data cache (aligned, pairwise distinct, full-length lines, at most
  `numberOfLines` of them) and the coherence relation `Coh` between the pair
  (ctx.Memory, L1D) and the flat memory of a cache-less machine, preserved by every
  operation of the unit.  Core Lean only.
-/
import MajoranaVerif.Model.Mmu
import MajoranaVerif.Model.SeqMachine
import MajoranaVerif.Proofs.LineCache
open GoInt LineCache

namespace Proofs.Mmu
open Model.Mmu Proofs.LC

/-! ### lists -/

theorem padTake_length : ∀ (r : List Byte) (n : Nat), (padTake r n).length = n
  | _, 0 => by simp [padTake]
  | [], n + 1 => by simp [padTake, padTake_length [] n]
  | _ :: r, n + 1 => by simp [padTake, padTake_length r n]

theorem padTake_getElem? : ∀ (r : List Byte) (n k : Nat), k < n →
    (padTake r n)[k]? = some (r.getD k 0#8)
  | _, 0, k, h => by omega
  | [], n + 1, 0, _ => by simp [padTake]
  | [], n + 1, k + 1, h => by
    simp only [padTake, List.getElem?_cons_succ]
    rw [padTake_getElem? [] n k (by omega)]; simp
  | v :: r, n + 1, 0, _ => by simp [padTake]
  | v :: r, n + 1, k + 1, h => by
    simp only [padTake, List.getElem?_cons_succ]
    rw [padTake_getElem? r n k (by omega)]; simp

theorem overlay_length : ∀ (m d : List Byte), (overlay m d).length = m.length
  | m, [] => by simp [overlay]
  | [], _ :: _ => by simp [overlay]
  | _ :: ms, _ :: ds => by simp [overlay, overlay_length ms ds]

theorem overlay_getElem? : ∀ (m d : List Byte) (k : Nat),
    (overlay m d)[k]? = if k < d.length ∧ k < m.length then d[k]? else m[k]?
  | m, [], k => by simp [overlay]
  | [], _ :: _, k => by simp [overlay]
  | x :: ms, y :: ds, 0 => by simp [overlay]
  | x :: ms, y :: ds, k + 1 => by
    simp only [overlay, List.getElem?_cons_succ, List.length_cons, Nat.add_lt_add_iff_right]
    exact overlay_getElem? ms ds k

/-- the bytes of `writeToMemory` -/
theorem writeToMemory_spec (mem : List Byte) (lo : Int) (data : List Byte) (hlo : 0 ≤ lo) :
    ∃ mem', writeToMemory mem lo data = .ok mem' ∧ mem'.length = mem.length ∧
      ∀ x : Nat, mem'[x]? = if lo ≤ x ∧ (x : Int) < lo + data.length ∧ x < mem.length then data[x - lo.toNat]? else mem[x]? := by
  cases data with
  | nil =>
    refine ⟨mem, rfl, rfl, ?_⟩
    intro x
    have : ¬ (lo ≤ (x : Int) ∧ (x : Int) < lo + (([] : List Byte).length : Nat) ∧ x < mem.length) := by
      simp only [List.length_nil]; omega
    simp only [this, if_false]
  | cons v vs =>
    unfold writeToMemory
    by_cases h1 : lo ≥ mem.length
    · simp only [h1, if_true]
      refine ⟨mem, rfl, rfl, ?_⟩
      intro x
      by_cases hx : lo ≤ (x : Int) ∧ (x : Int) < lo + ((v :: vs).length : Nat) ∧ x < mem.length
      · omega
      · simp only [hx, if_false]
    · have h2 : ¬ lo < 0 := by omega
      simp only [h1, h2, if_false]
      refine ⟨_, rfl, ?_, ?_⟩
      · simp only [List.length_append, List.length_take, overlay_length, List.length_drop]; omega
      · intro x
        have hlen : (List.take lo.toNat mem).length = lo.toNat := by
          simp only [List.length_take]; omega
        by_cases hx : x < lo.toNat
        · rw [List.getElem?_append_left (by omega)]
          have : ¬ (lo ≤ (x : Int) ∧ (x : Int) < lo + ((v :: vs).length : Nat) ∧ x < mem.length) := by omega
          simp only [this, if_false, List.getElem?_take, hx, if_true]
        · rw [List.getElem?_append_right (by omega), hlen, overlay_getElem?]
          simp only [List.length_drop, List.getElem?_drop]
          have e : lo.toNat + (x - lo.toNat) = x := by omega
          by_cases hc : lo ≤ (x : Int) ∧ (x : Int) < lo + ((v :: vs).length : Nat) ∧ x < mem.length
          · have : x - lo.toNat < (v :: vs).length ∧ x - lo.toNat < mem.length - lo.toNat := by omega
            simp only [this, hc, and_self, if_true]
          · have : ¬ (x - lo.toNat < (v :: vs).length ∧ x - lo.toNat < mem.length - lo.toNat) := by omega
            simp only [this, hc, if_false, e]

/-! ### alignment -/

/-- Go's `addr - addr % L` -/
def base (L : Int) (x : Int) : Int := x - Int.tmod x L

theorem base_eq (L x : Int) (hx : 0 ≤ x) : base L x = x - x % L := by
  unfold base; rw [Int.tmod_eq_emod_of_nonneg hx]

theorem base_spec (L x : Int) (hL : 0 < L) (hx : 0 ≤ x) :
    0 ≤ base L x ∧ base L x ≤ x ∧ x < base L x + L ∧ base L x % L = 0 := by
  rw [base_eq L x hx]
  have h1 := Int.emod_nonneg x (Int.ne_of_gt hL)
  have h2 := Int.emod_lt_of_pos x hL
  have h3 : x - x % L = L * (x / L) := by
    have := Int.mul_ediv_add_emod x L; omega
  have h4 : 0 ≤ x / L := Int.ediv_nonneg hx (Int.le_of_lt hL)
  refine ⟨?_, by omega, by omega, ?_⟩
  · rw [h3]; exact Int.mul_nonneg (Int.le_of_lt hL) h4
  · rw [h3]; exact Int.mul_emod_right L (x / L)

/-- an aligned block contains `x` iff it starts at `x`'s base -/
theorem block_iff_base (L lo x : Int) (hL : 0 < L) (hx : 0 ≤ x) (hal : lo % L = 0) :
    (lo ≤ x ∧ x < lo + L) ↔ lo = base L x := by
  constructor
  · intro ⟨h1, h2⟩
    rw [base_eq L x hx]
    have h3 : lo = L * (lo / L) := by
      have := Int.mul_ediv_add_emod lo L; omega
    have h4 : x % L = x - lo := by
      have e : x = (x - lo) + L * (lo / L) := by omega
      rw [e, Int.add_mul_emod_self_left, Int.emod_eq_of_lt (by omega) (by omega)]
      omega
    omega
  · intro h
    obtain ⟨_, h2, h3, _⟩ := base_spec L x hL hx
    omega

/-! ### the structural invariant of the data cache -/

structure LineWf (L : Nat) (l : Line) : Prop where
  hi : l.hi = l.lo + L
  len : l.data.length = L
  nonneg : 0 ≤ l.lo
  aligned : l.lo % (L : Int) = 0

structure DWf (L n : Nat) (c : Cache) : Prop where
  lineLength : c.lineLength = L
  numberOfLines : c.numberOfLines = n
  lines : ∀ l ∈ c.lines, LineWf L l
  distinct : c.lines.Pairwise (fun a b => a.lo ≠ b.lo)
  count : c.lines.length ≤ n

theorem LineWf.covers_iff {L : Nat} {l : Line} (h : LineWf L l) (hL : 0 < L) (x : Int) (hx : 0 ≤ x) :
    l.covers x = true ↔ l.lo = base L x := by
  rw [Proofs.LC.covers_iff, h.hi]
  exact block_iff_base L l.lo x (by omega) hx h.aligned

/-- two resident lines with the same base are the same line -/
theorem DWf.unique {L n : Nat} {c : Cache} (h : DWf L n c) {l1 l2 : Line} (h1 : l1 ∈ c.lines) (h2 : l2 ∈ c.lines)
    (he : l1.lo = l2.lo) : l1 = l2 := by
  have := h.distinct
  generalize c.lines = ls at h1 h2 this
  induction this with
  | nil => cases h1
  | cons hx _ ih =>
    rename_i x xs
    rcases List.mem_cons.mp h1 with rfl | h1' <;> rcases List.mem_cons.mp h2 with rfl | h2'
    · rfl
    · exact absurd he (hx _ h2')
    · exact absurd he.symm (hx _ h1')
    · exact ih h1' h2'

/-- the invariant depends on the lines only up to order -/
theorem DWf.perm {L n : Nat} {c : Cache} (h : DWf L n c) (ls : List Line) (hp : ls.Perm c.lines) :
    DWf L n { c with lines := ls } :=
  { lineLength := h.lineLength, numberOfLines := h.numberOfLines,
    lines := fun l hl => h.lines l (hp.mem_iff.mp hl),
    distinct := (hp.pairwise_iff (fun {a b} (hab : a.lo ≠ b.lo) => Ne.symm hab)).mpr h.distinct,
    count := by rw [hp.length_eq]; exact h.count }

theorem touch_perm (pre post : List Line) (l : Line) : (l :: (pre ++ post)).Perm (pre ++ l :: post) :=
  List.perm_middle.symm

/-! ### coherence: (ctx.Memory, L1D) against the flat memory of the cache-less machine -/

/-- every byte of a resident line that lies inside memory is the flat memory's byte, and every byte of
`mem` that no resident line covers is the flat memory's byte -/
structure Coh (lines : List Line) (mem flat : List Byte) : Prop where
  len : mem.length = flat.length
  cached : ∀ l ∈ lines, ∀ x : Nat, l.covers x = true → x < flat.length → l.data[((x : Int) - l.lo).toNat]? = flat[x]?
  uncached : ∀ x : Nat, x < flat.length → (∀ l ∈ lines, l.covers x = false) → mem[x]? = flat[x]?

theorem Coh.congr_mem {ls ls' : List Line} {mem flat : List Byte} (h : Coh ls mem flat)
    (hm : ∀ l, l ∈ ls' ↔ l ∈ ls) : Coh ls' mem flat :=
  { len := h.len,
    cached := fun l hl => h.cached l ((hm l).mp hl),
    uncached := fun x hx hu => h.uncached x hx (fun l hl => hu l ((hm l).mpr hl)) }

/-- the view: the byte of the first resident line that covers `x`, else the memory byte -/
def view (lines : List Line) (mem : List Byte) (x : Nat) : Option Byte :=
  match lines.find? (fun l => l.covers x) with
  | some l => l.data[((x : Int) - l.lo).toNat]?
  | none => mem[x]?

/-- coherence says: the view IS the flat memory -/
theorem Coh.view_eq {ls : List Line} {mem flat : List Byte} (h : Coh ls mem flat) (x : Nat) (hx : x < flat.length) :
    view ls mem x = flat[x]? := by
  unfold view
  cases hf : ls.find? (fun l => l.covers x) with
  | some l =>
    have hm := List.mem_of_find?_eq_some hf
    have hc := List.find?_some hf
    exact h.cached l hm x hc hx
  | none =>
    have := List.find?_eq_none.mp hf
    exact h.uncached x hx (fun l hl => by simpa using this l hl)

/-! ### `Get` and the `getFromL1D` loop -/

theorem nat_of_word {a : Word} (h : 0 ≤ a.toInt) : ((a.toInt.toNat : Nat) : Int) = a.toInt := by omega

/-- a hit: the byte is the flat byte, the line moves to the front -/
theorem get_hit {c : Cache} {mem flat : List Byte} (hc : Coh c.lines mem flat)
    {a : Int} (ha : 0 ≤ a) (hlt : a.toNat < flat.length) {pre post : List Line} {l : Line}
    (hs : splitAt a c.lines = some (pre, l, post)) :
    ∃ v, flat[a.toNat]? = some v ∧ LineCache.get c a = .ok (some v, { c with lines := l :: (pre ++ post) }) := by
  obtain ⟨hl, hcov, _⟩ := splitAt_some hs
  have hmem : l ∈ c.lines := by rw [hl]; simp
  have hx : ((a.toNat : Nat) : Int) = a := by omega
  have h1 := hc.cached l hmem a.toNat (by rw [hx]; exact hcov) hlt
  rw [hx] at h1
  have h2 : flat[a.toNat]? = some flat[a.toNat] := List.getElem?_eq_getElem hlt
  refine ⟨flat[a.toNat], h2, ?_⟩
  unfold LineCache.get
  simp only [hs, Line.at, h1, h2]
  rfl

theorem get_miss' {c : Cache} {a : Int} (hs : ∀ y ∈ c.lines, y.covers a = false) : LineCache.get c a = .ok (none, c) := by
  unfold LineCache.get
  cases h : splitAt a c.lines with
  | none => rfl
  | some r =>
    obtain ⟨pre, l, post⟩ := r
    obtain ⟨hl, hcov, _⟩ := splitAt_some h
    have := hs l (by rw [hl]; simp)
    rw [this] at hcov; cases hcov

/-- `readMem` of an in-range address -/
theorem readMem_ok (flat : List Byte) (a : Word) (h0 : 0 ≤ a.toInt) :
    Model.Seq.readMem flat a = flat[a.toInt.toNat]? := by
  unfold Model.Seq.readMem
  have : ¬ a.toInt < 0 := by omega
  simp only [this, if_false]

/-- all addresses in one resident line and inside memory: the loop returns the flat memory's bytes;
only the order of the lines changes -/
theorem getAll_hit {L n : Nat} (hL : 0 < L) {mem flat : List Byte} (b : Int) :
    ∀ (addrs : List Word) (c : Cache), DWf L n c → Coh c.lines mem flat → (∃ l ∈ c.lines, l.lo = b) →
      (∀ a ∈ addrs, 0 ≤ a.toInt ∧ a.toInt.toNat < flat.length ∧ base L a.toInt = b) →
      ∃ bytes ls, getAll c addrs = .ok (some bytes, { c with lines := ls }) ∧ ls.Perm c.lines ∧
        addrs.mapM (Model.Seq.readMem flat) = some bytes := by
  intro addrs
  induction addrs with
  | nil =>
    intro c _ _ _ _
    exact ⟨[], c.lines, rfl, List.Perm.refl _, rfl⟩
  | cons a as ih =>
    intro c hw hc hl hall
    obtain ⟨h0, hlt, hb⟩ := hall a (by simp)
    obtain ⟨l, hlm, hlo⟩ := hl
    have hcov : l.covers a.toInt = true := ((hw.lines l hlm).covers_iff hL a.toInt h0).mpr (by rw [hlo, hb])
    obtain ⟨pre, x, post, hs⟩ := splitAt_isSome ⟨l, hlm, hcov⟩
    obtain ⟨v, hv, hg⟩ := get_hit hc h0 hlt hs
    obtain ⟨hsplit, _, _⟩ := splitAt_some hs
    have hp : (x :: (pre ++ post)).Perm c.lines := by rw [hsplit]; exact touch_perm pre post x
    have hw1 := hw.perm _ hp
    have hc1 : Coh (x :: (pre ++ post)) mem flat := hc.congr_mem (fun y => hp.mem_iff)
    obtain ⟨bytes, ls, hga, hperm, hmap⟩ := ih { c with lines := x :: (pre ++ post) } hw1 hc1
      ⟨l, hp.mem_iff.mpr hlm, hlo⟩ (fun a' ha' => hall a' (by simp [ha']))
    refine ⟨v :: bytes, ls, ?_, hperm.trans hp, ?_⟩
    · unfold getAll
      simp only [hg, bind, Except.bind, hga, Option.map_some]
      rfl
    · simp only [List.mapM_cons, readMem_ok flat a h0, hv, hmap]
      rfl

/-- the first address is in no resident line: `(nil, false)`, the cache is untouched -/
theorem getAll_miss {c : Cache} (a0 : Word) (as : List Word) (hs : ∀ y ∈ c.lines, y.covers a0.toInt = false) :
    getAll c (a0 :: as) = .ok (none, c) := by
  unfold getAll
  simp only [get_miss' hs, bind, Except.bind]
  rfl

/-! ### line fill: `fetchCacheLine` + `pushLineToL1D` (with the victim's write-back) -/

theorem alignDown_ok (a L : Int) (hL : L ≠ 0) : LineCache.alignDown a L = .ok (base L a) := by
  unfold LineCache.alignDown base
  simp only [hL, if_false]; rfl

theorem fetchCacheLine_ok (cfg : Config) (L : Nat) (hcfg : cfg.l1DLineSize = L) (hL : 0 < L) (mem : List Byte)
    (a : Word) (h0 : 0 ≤ a.toInt) :
    fetchCacheLine cfg mem a = .ok (padTake (mem.drop (base L a.toInt).toNat) L) := by
  obtain ⟨hb, _, _, _⟩ := base_spec L a.toInt (by omega) h0
  unfold fetchCacheLine
  rw [hcfg, alignDown_ok _ _ (by omega)]
  have h1 : ¬ ((L : Int) < 0) := by omega
  have h2 : ¬ ((L : Int) = 0) := by omega
  have h3 : ¬ (base (L : Int) a.toInt < 0) := by omega
  simp only [bind, Except.bind, h1, h2, h3, if_false, Int.toNat_natCast]
  rfl

/-- the fetched line holds the memory bytes of its block (and zeros past the end of memory) -/
theorem fetched_bytes (mem : List Byte) (b L x : Nat) (h1 : b ≤ x) (h2 : x < b + L) (h3 : x < mem.length) :
    (padTake (mem.drop b) L)[x - b]? = mem[x]? := by
  rw [padTake_getElem? _ _ _ (by omega)]
  have : b + (x - b) = x := by omega
  simp only [List.getD_eq_getElem?_getD, List.getElem?_drop, this]
  rw [List.getElem?_eq_getElem h3]; rfl

/-- pushing a line that agrees with the flat memory keeps coherence -/
theorem Coh.push {ls : List Line} {mem flat : List Byte} (h : Coh ls mem flat) (nl : Line)
    (hnl : ∀ x : Nat, nl.covers x = true → x < flat.length → nl.data[((x : Int) - nl.lo).toNat]? = flat[x]?) :
    Coh (nl :: ls) mem flat :=
  { len := h.len,
    cached := by
      intro l hl x hc hx
      rcases List.mem_cons.mp hl with rfl | hl
      · exact hnl x hc hx
      · exact h.cached l hl x hc hx,
    uncached := fun x hx hu => h.uncached x hx (fun l hl => hu l (List.mem_cons_of_mem _ hl)) }

/-- **a victim's bytes are never lost**: removing a resident line and writing its data back to memory
at its base keeps coherence with the same flat memory -/
theorem Coh.evict {pre post : List Line} {x : Line} {mem flat mem' : List Byte} {L : Nat}
    (h : Coh (pre ++ x :: post) mem flat) (hx : LineWf L x)
    (hwb : writeToMemory mem x.lo x.data = .ok mem') : Coh (pre ++ post) mem' flat := by
  obtain ⟨m2, h1, h2, h3⟩ := writeToMemory_spec mem x.lo x.data hx.nonneg
  rw [hwb] at h1
  injection h1 with h1; subst h1
  refine { len := by rw [h2]; exact h.len, cached := ?_, uncached := ?_ }
  · intro l hl y hc hy
    exact h.cached l (mem_middle hl) y hc hy
  · intro y hy hu
    rw [h3 y]
    by_cases hc : x.covers y = true
    · have hcc := (Proofs.LC.covers_iff x y).mp hc
      rw [hx.hi] at hcc
      have hlen := h.len
      have : x.lo ≤ (y : Int) ∧ (y : Int) < x.lo + (x.data.length : Nat) ∧ y < mem.length := by
        rw [hx.len]; omega
      simp only [this, and_self, if_true]
      have e : y - x.lo.toNat = ((y : Int) - x.lo).toNat := by have := hx.nonneg; omega
      rw [e]
      exact h.cached x (by simp) y hc hy
    · have hc' : x.covers y = false := by simpa using hc
      have hcc := (covers_false_iff x y).mp hc'
      rw [hx.hi] at hcc
      have : ¬ (x.lo ≤ (y : Int) ∧ (y : Int) < x.lo + (x.data.length : Nat) ∧ y < mem.length) := by
        rw [hx.len]; omega
      simp only [this, if_false]
      apply h.uncached y hy
      intro l hl
      rcases List.mem_append.mp hl with hl | hl
      · exact hu l (List.mem_append_left _ hl)
      · rcases List.mem_cons.mp hl with rfl | hl
        · exact hc'
        · exact hu l (List.mem_append_right _ hl)

end Proofs.Mmu

/-
  Proofs/Mvp61.lean — facts about the cycle-accurate model of MVP-6.1 (`Model.Mvp61`).

  * `run_executed_le`: a run of the machine with `eu` execute units calls `Run` of at most `eu` instructions per tick,
    and the cycle counter bounds the number of executed instructions: `executed ≤ eu · cycles` — the lower bound of
    property C12.
    Unlike MVP-6.0, `ticks ≤ cycles` does NOT hold here: the ticks of the write units' drain loops inside the flush
    path do not advance the cycle counter; but no instruction runs in such a tick.
  * forwarding (`euRun_sends_result`, `euPrepare_receives`): the producer sends exactly the `RegisterValue` of the
    execution it queues for write-back; the consumer runs with that value in the forward slot of the register the control
    unit matched.
-/
import MajoranaVerif.Model.Mvp61
import MajoranaVerif.Proofs.Mvp3Cycles
open GoInt

namespace Proofs.Mvp61
open Model.Mvp61
open Model.Seq (App Halt)
open Model.Mvp60 (Event cfg)

/-- what the units other than the execute units leave alone -/
structure Frame (s s' : State) : Prop where
  len : s'.eus.length = s.eus.length
  exe : s'.executed = s.executed
  cyc : s'.cycles = s.cycles

/-- close a `Frame` goal between a state and an explicit update of it (possibly under one or two `if`s) -/
macro "frame_rfl" : tactic =>
  `(tactic| first | exact ⟨rfl, rfl, rfl⟩ | (split <;> exact ⟨rfl, rfl, rfl⟩) | (split <;> split <;> exact ⟨rfl, rfl, rfl⟩))

theorem Frame.refl (s : State) : Frame s s := ⟨rfl, rfl, rfl⟩
theorem Frame.trans {a b c : State} (h1 : Frame a b) (h2 : Frame b c) : Frame a c :=
  ⟨h2.len.trans h1.len, h2.exe.trans h1.exe, h2.cyc.trans h1.cyc⟩

theorem fetchCycle_frame {app : App} {s s' : State} (h : fetchCycle app s = .ok s') : Frame s s' := by
  unfold fetchCycle at h
  simp only [bind, Except.bind] at h
  split at h
  · cases h
  · simp only [pure, Except.pure, Except.ok.injEq] at h
    subst h; exact ⟨rfl, rfl, rfl⟩

theorem decodeLoop_frame {app : App} (c : Int) : ∀ (n : Nat) (s s' : State),
    decodeLoop app c n s = .ok s' → Frame s s' := by
  intro n
  induction n with
  | zero =>
    intro s s' h
    simp only [decodeLoop, pure, Except.pure, Except.ok.injEq] at h
    subst h; exact Frame.refl s
  | succ n ih =>
    intro s s' h
    simp only [decodeLoop, bind, Except.bind, pure, Except.pure] at h
    split at h
    · cases h; exact ⟨rfl, rfl, rfl⟩
    · split at h
      · cases h; exact ⟨rfl, rfl, rfl⟩
      · split at h
        · cases h
        · split at h
          · cases h
            frame_rfl
          · split at h
            · cases h; frame_rfl
            · have f := ih _ _ h
              refine Frame.trans ?_ f
              frame_rfl

theorem decodeCycle_frame {app : App} {s s' : State} (h : decodeCycle app s = .ok s') : Frame s s' := by
  unfold decodeCycle at h
  split at h
  · cases h; exact Frame.refl s
  · split at h
    · cases h; exact Frame.refl s
    · exact decodeLoop_frame _ _ _ _ h

theorem controlCycle_frame {s s' : State} (h : controlCycle s = .ok s') : Frame s s' := by
  unfold controlCycle at h
  split at h
  · cases h; exact ⟨rfl, rfl, rfl⟩
  · simp only [bind, Except.bind, pure, Except.pure] at h
    split at h
    · cases h
    · split at h
      · split at h
        · cases h; exact ⟨rfl, rfl, rfl⟩
        · cases h; exact ⟨rfl, rfl, rfl⟩
      · split at h
        · cases h
        · split at h
          · cases h; exact ⟨rfl, rfl, rfl⟩
          · cases h; exact ⟨rfl, rfl, rfl⟩

/-- what one call of an execute unit does to the three quantities -/
structure EuFrame (s s' : State) : Prop where
  len : s'.eus.length = s.eus.length
  lo : s.executed ≤ s'.executed
  hi : s'.executed ≤ s.executed + 1
  cyc : s'.cycles = s.cycles

theorem EuFrame.of_frame {s s' : State} (h : Frame s s') : EuFrame s s' :=
  ⟨h.len, by rw [h.exe]; exact Nat.le_refl _, by rw [h.exe]; exact Nat.le_succ _, h.cyc⟩

theorem EuFrame.pre {a b c : State} (h2 : EuFrame b c) (h1 : Frame a b) : EuFrame a c :=
  ⟨h2.len.trans h1.len, by rw [← h1.exe]; exact h2.lo, by rw [← h1.exe]; exact h2.hi, h2.cyc.trans h1.cyc⟩

theorem setEu_frame (s : State) (i : Nat) (eu : ExecUnit) : Frame s (setEu s i eu) :=
  ⟨by simp only [setEu, List.length_set], rfl, rfl⟩

theorem fuReset_frame (s : State) (pc : Word) (c : Bool) : Frame s (fuReset s pc c) := ⟨rfl, rfl, rfl⟩

theorem buAssert_frame (s : State) (r : Runner) : Frame s (buAssert s r) := by
  unfold buAssert
  simp only
  split
  · split <;> exact ⟨rfl, rfl, rfl⟩
  · split <;> exact ⟨rfl, rfl, rfl⟩

theorem euRun_frame {app : App} {s s' : State} {i : Nat} {eu : ExecUnit} {r : Runner} {c : Int} {out : EuOut}
    (h : euRun app s i eu r c = .ok (s', out)) : EuFrame s s' := by
  unfold euRun at h
  simp only [bind, Except.bind, pure, Except.pure] at h
  repeat' split at h
  all_goals cases h
  all_goals exact ⟨by simp only [setEu, fuReset, List.length_set], Nat.le_succ _, Nat.le_refl _, rfl⟩

theorem euReceive_frame {s s' : State} {eu eu' : ExecUnit} {r r' : Runner}
    (h : euReceive s eu r = some (s', eu', r')) : Frame s s' := by
  unfold euReceive at h
  split at h
  · cases h; exact Frame.refl s
  · split at h
    · cases h
    · cases h; exact ⟨rfl, rfl, rfl⟩

theorem euAfterReceive_frame {app : App} {s s' : State} {i : Nat} {eu : ExecUnit} {r : Runner} {c : Int} {out : EuOut}
    (h : euAfterReceive app s i eu r c = .ok (s', out)) : EuFrame s s' := by
  unfold euAfterReceive at h
  simp only [bind, Except.bind, pure, Except.pure] at h
  have fb := buAssert_frame s r
  split at h
  · split at h
    · cases h
    · split at h
      all_goals cases h
      all_goals exact EuFrame.of_frame (fb.trans ⟨by simp only [setEu, List.length_set], rfl, rfl⟩)
  · exact (euRun_frame h).pre fb

theorem euPrepare_frame {app : App} {s s' : State} {i : Nat} {eu : ExecUnit} {r : Runner} {c : Int} {out : EuOut}
    (h : euPrepare app s i eu r c = .ok (s', out)) : EuFrame s s' := by
  unfold euPrepare at h
  simp only [pure, Except.pure] at h
  split at h
  · cases h; exact EuFrame.of_frame (setEu_frame s i eu)
  · split at h
    · cases h; exact EuFrame.of_frame (setEu_frame s i eu)
    · rename_i hr
      exact (euAfterReceive_frame h).pre (euReceive_frame hr)

theorem euCycle_frame {app : App} {s s' : State} {i : Nat} {c : Int} {out : EuOut}
    (h : euCycle app s i c = .ok (s', out)) : EuFrame s s' := by
  unfold euCycle at h
  simp only [bind, Except.bind, pure, Except.pure] at h
  split at h
  · cases h
  · rename_i eu _
    split at h
    · cases h; exact EuFrame.of_frame (setEu_frame s i _)
    · split at h
      · -- nil: take from the bus
        split at h
        · cases h; exact EuFrame.of_frame ⟨rfl, rfl, rfl⟩
        · exact (euPrepare_frame h).pre ⟨rfl, rfl, rfl⟩
      · split at h
        · cases h
        · exact euPrepare_frame h
      · split at h
        · cases h; exact EuFrame.of_frame (setEu_frame s i _)
        · split at h
          · cases h
          · exact euRun_frame h
      · split at h
        · cases h; exact EuFrame.of_frame (setEu_frame s i _)
        · split at h
          · cases h
          · cases h
          · split at h
            · cases h
            · split at h
              · cases h
              · split at h
                · cases h
                · split at h
                  · exact (euRun_frame h).pre ⟨rfl, rfl, rfl⟩
                  · cases h

theorem wuCycle62_frame {s s' : State} {j : Nat} {before : Word} (h : wuCycle62 s j before = .ok s') : Frame s s' := by
  unfold wuCycle62 at h
  simp only [pure, Except.pure] at h
  repeat' split at h
  all_goals cases h
  all_goals exact ⟨rfl, rfl, rfl⟩

theorem wuCycle_frame {s s' : State} {j : Nat} {before : Word} (h : wuCycle s j before = .ok s') : Frame s s' := by
  unfold wuCycle at h
  split at h
  · exact wuCycle62_frame h
  · simp only [bind, Except.bind, pure, Except.pure] at h
    split at h
    · cases h
    · cases h; exact ⟨rfl, rfl, rfl⟩

theorem foldlM_wu_frame (before : Word) : ∀ (js : List Nat) (s s' : State),
    js.foldlM (fun s j => wuCycle s j before) s = .ok s' → Frame s s' := by
  intro js
  induction js with
  | nil => intro s s' h; simp only [List.foldlM, pure, Except.pure, Except.ok.injEq] at h; subst h; exact Frame.refl s
  | cons j js ih =>
    intro s s' h
    simp only [List.foldlM, bind, Except.bind] at h
    split at h
    · cases h
    · rename_i s1 h1
      exact (wuCycle_frame h1).trans (ih s1 s' h)

theorem wusCycleB_frame {s s' : State} {before : Word} (h : wusCycleB s before = .ok s') : Frame s s' :=
  foldlM_wu_frame _ _ s s' h

theorem wusCycle_frame {s s' : State} (h : wusCycle s = .ok s') : Frame s s' :=
  wusCycleB_frame h

/-- the loops over the execute units: `n` units cycle, at most `n` instructions run -/
def Loop (n : Nat) (s s' : State) : Prop :=
  s'.eus.length = s.eus.length ∧ s.executed ≤ s'.executed ∧ s'.executed ≤ s.executed + n ∧ s'.cycles = s.cycles

theorem Loop.refl (n : Nat) (s : State) : Loop n s s := ⟨rfl, Nat.le_refl _, Nat.le_add_right _ _, rfl⟩

theorem Loop.step {n : Nat} {a b c : State} (f1 : EuFrame a b) (f2 : Loop n b c) : Loop (n + 1) a c :=
  ⟨f2.1.trans f1.len, Nat.le_trans f1.lo f2.2.1, by have := f1.hi; have := f2.2.2.1; omega, f2.2.2.2.trans f1.cyc⟩

theorem Loop.last {n : Nat} {a b : State} (f1 : EuFrame a b) : Loop (n + 1) a b :=
  ⟨f1.len, f1.lo, by have := f1.hi; omega, f1.cyc⟩

theorem Loop.skip {n : Nat} {a b : State} (f2 : Loop n a b) : Loop (n + 1) a b :=
  ⟨f2.1, f2.2.1, by have := f2.2.2.1; omega, f2.2.2.2⟩

theorem eusCycle_frame {app : App} : ∀ (n i : Nat) (s s' : State) (acc acc' : EuAcc),
    eusCycle app n i s acc = .ok (s', acc') → Loop n s s' := by
  intro n
  induction n with
  | zero =>
    intro i s s' acc acc' h
    simp only [eusCycle, pure, Except.pure, Except.ok.injEq, Prod.mk.injEq] at h
    obtain ⟨rfl, _⟩ := h
    exact Loop.refl _ _
  | succ n ih =>
    intro i s s' acc acc' h
    simp only [eusCycle, bind, Except.bind] at h
    split at h
    · simp only [pure, Except.pure, Except.ok.injEq, Prod.mk.injEq] at h
      obtain ⟨rfl, _⟩ := h
      exact Loop.refl _ _
    · split at h
      · cases h
      · rename_i v hv
        obtain ⟨s1, out⟩ := v
        have f1 := (euCycle_frame hv).pre (setEu_frame s i _)
        simp only at h
        split at h
        · simp only [pure, Except.pure, Except.ok.injEq, Prod.mk.injEq] at h
          obtain ⟨rfl, _⟩ := h
          exact Loop.last f1
        all_goals exact Loop.step f1 (ih _ _ _ _ _ h)

theorem eusCycleBusy_frame {app : App} : ∀ (n i : Nat) (s s' : State) (e : Bool),
    eusCycleBusy app n i s = .ok (s', e) → Loop n s s' := by
  intro n
  induction n with
  | zero =>
    intro i s s' e h
    simp only [eusCycleBusy, pure, Except.pure, Except.ok.injEq, Prod.mk.injEq] at h
    obtain ⟨rfl, _⟩ := h
    exact Loop.refl _ _
  | succ n ih =>
    intro i s s' e h
    simp only [eusCycleBusy, bind, Except.bind] at h
    split at h
    · simp only [pure, Except.pure, Except.ok.injEq, Prod.mk.injEq] at h
      obtain ⟨rfl, _⟩ := h
      exact Loop.refl _ _
    · split at h
      · exact Loop.skip (ih _ _ _ _ h)
      · split at h
        · cases h
        · rename_i v hv
          obtain ⟨s1, out⟩ := v
          have f1 := euCycle_frame hv
          simp only at h
          split at h
          · simp only [pure, Except.pure, Except.ok.injEq, Prod.mk.injEq] at h
            obtain ⟨rfl, _⟩ := h
            exact Loop.last f1
          · exact Loop.step f1 (ih _ _ _ _ h)

theorem eusCycleFlush_frame {app : App} (fc : Int) : ∀ (n i : Nat) (s s' : State) (acc acc' : FlAcc),
    eusCycleFlush app fc n i s acc = .ok (s', acc') → Loop n s s' := by
  intro n
  induction n with
  | zero =>
    intro i s s' acc acc' h
    simp only [eusCycleFlush, pure, Except.pure, Except.ok.injEq, Prod.mk.injEq] at h
    obtain ⟨rfl, _⟩ := h
    exact Loop.refl _ _
  | succ n ih =>
    intro i s s' acc acc' h
    simp only [eusCycleFlush, bind, Except.bind] at h
    split at h
    · simp only [pure, Except.pure, Except.ok.injEq, Prod.mk.injEq] at h
      obtain ⟨rfl, _⟩ := h
      exact Loop.refl _ _
    · split at h
      · exact Loop.skip (ih _ _ _ _ _ h)
      · split at h
        · cases h
        · rename_i v hv
          obtain ⟨s1, out⟩ := v
          have f1 := euCycle_frame hv
          simp only at h
          split at h
          · simp only [pure, Except.pure, Except.ok.injEq, Prod.mk.injEq] at h
            obtain ⟨rfl, _⟩ := h
            exact Loop.last f1
          all_goals exact Loop.step f1 (ih _ _ _ _ _ h)

/-- what the control flow after the units does: the execute units and the count stay, the cycle counter does not
go back -/
structure Tail (s s' : State) : Prop where
  len : s'.eus.length = s.eus.length
  exe : s'.executed = s.executed
  cyc : s.cycles ≤ s'.cycles

theorem finish_tail {s s' : State} {h : Halt} {ev : Event} (hf : finish s h = .ok (s', ev)) : Tail s s' := by
  unfold finish at hf
  simp only [bind, Except.bind, pure, Except.pure] at hf
  split at hf
  · cases hf
  · rename_i v hv
    obtain ⟨mem, extra⟩ := v
    simp only [Except.ok.injEq, Prod.mk.injEq] at hf
    obtain ⟨rfl, _⟩ := hf
    have := Proofs.Mvp3Cycles.flushLines_cost cfg _ _ _ _ _ hv
    refine ⟨rfl, rfl, ?_⟩
    show s.cycles ≤ s.cycles + extra
    have h309 : (0 : Int) ≤ Gen.Latency.MemoryAccess := by decide
    have : (0 : Int) ≤ extra := by
      rw [this]; simp only [Int.zero_add]
      exact Int.mul_nonneg (Int.natCast_nonneg _) h309
    omega

theorem goRetB_tail {s s' : State} {ev : Event} (h : goRetB s = .ok (s', ev)) : Tail s s' := by
  unfold goRetB at h
  split at h
  · simp only [pure, Except.pure, Except.ok.injEq, Prod.mk.injEq] at h
    obtain ⟨rfl, _⟩ := h
    exact ⟨rfl, rfl, Int.le_refl _⟩
  · exact finish_tail h

theorem goRetA_tail {s s' : State} {ev : Event} (h : goRetA s = .ok (s', ev)) : Tail s s' := by
  unfold goRetA at h
  split at h
  · simp only [pure, Except.pure, Except.ok.injEq, Prod.mk.injEq] at h
    obtain ⟨rfl, _⟩ := h
    exact ⟨rfl, rfl, Int.le_refl _⟩
  · have t := goRetB_tail h
    exact ⟨t.len, t.exe, by have := t.cyc; simp only at this; omega⟩

theorem flushAll_len (s : State) (pc : Word) : (flushAll s pc).eus.length = s.eus.length := by
  simp only [flushAll, List.length_map]

theorem flushDone_tail (s : State) (pc : Word) :
    Tail s { flushAll s pc with cycles := s.cycles + Gen.Latency.Flush, mode := .normal } :=
  ⟨flushAll_len s pc, rfl, by
    show s.cycles ≤ s.cycles + Gen.Latency.Flush
    have : (0 : Int) ≤ Gen.Latency.Flush := by decide
    omega⟩

theorem goFlushW_tail (seq pc : Word) (fc : Int) (e : Bool) : ∀ (n i : Nat) (s : State),
    Tail s (goFlushW s seq pc fc e n i).1 := by
  intro n
  induction n with
  | zero =>
    intro i s
    simp only [goFlushW]
    split
    · exact flushDone_tail s pc
    · exact ⟨rfl, rfl, Int.le_refl _⟩
  | succ n ih =>
    intro i s
    simp only [goFlushW]
    split
    · split
      · exact flushDone_tail s pc
      · exact ⟨rfl, rfl, Int.le_refl _⟩
    · split
      · exact ⟨rfl, rfl, Int.le_refl _⟩
      · exact ih _ s

/-- one tick: at most one instruction per execute unit runs; the cycle counter advances — or no instruction ran and it
did not go back (the write units' drain loops) -/
structure Tick (s s' : State) : Prop where
  len : s'.eus.length = s.eus.length
  lo : s.executed ≤ s'.executed
  hi : s'.executed ≤ s.executed + s.eus.length
  cyc : s.cycles + 1 ≤ s'.cycles ∨ (s'.executed = s.executed ∧ s.cycles ≤ s'.cycles)

theorem cycleM_tick {app : App} {s s' : State} {ev : Event} (h : cycleM app s = .ok (s', ev)) : Tick s s' := by
  unfold cycleM at h
  split at h
  · -- normal
    simp only [bind, Except.bind, pure, Except.pure] at h
    split at h
    · cases h
    · rename_i s1 h1
      have f1 := fetchCycle_frame h1
      split at h
      · cases h
      · rename_i s2 h2
        have f2 := decodeCycle_frame h2
        split at h
        · cases h
        · rename_i s3 h3
          have f3 := controlCycle_frame h3
          have f123 := (f1.trans f2).trans f3
          have l3 : s3.eus.length = s.eus.length := f123.len
          have e3 : s3.executed = s.executed := f123.exe
          have c3 : s3.cycles = s.cycles + 1 := f123.cyc
          split at h
          · -- the `maporder` exit
            simp only [Except.ok.injEq, Prod.mk.injEq] at h
            obtain ⟨rfl, _⟩ := h
            exact ⟨l3, by omega, by omega, Or.inl (by omega)⟩
          split at h
          · cases h
          · rename_i v hv
            obtain ⟨s4, acc⟩ := v
            have f4 := eusCycle_frame _ _ _ _ _ _ hv
            simp only at h
            split at h
            · simp only [Except.ok.injEq, Prod.mk.injEq] at h
              obtain ⟨rfl, _⟩ := h
              exact ⟨f4.1.trans l3, by have := f4.2.1; omega, by have := f4.2.2.1; omega,
                     Or.inl (by have := f4.2.2.2; omega)⟩
            · split at h
              · cases h
              · rename_i s5 h5
                have f5 := wusCycleB_frame h5
                have l5 : s5.eus.length = s.eus.length := f5.len.trans (f4.1.trans l3)
                have lo5 : s.executed ≤ s5.executed := by rw [f5.exe]; have := f4.2.1; omega
                have hi5 : s5.executed ≤ s.executed + s.eus.length := by rw [f5.exe]; have := f4.2.2.1; omega
                have c5 : s5.cycles = s.cycles + 1 := by rw [f5.cyc, f4.2.2.2, c3]
                split at h
                · have t := goRetA_tail h
                  exact ⟨t.len.trans l5, by rw [t.exe]; exact lo5, by rw [t.exe]; exact hi5,
                         Or.inl (by have := t.cyc; omega)⟩
                · split at h
                  · simp only [Except.ok.injEq, Prod.mk.injEq] at h
                    obtain ⟨rfl, _⟩ := h
                    exact ⟨by simp only [List.length_map]; exact l5, lo5, hi5, Or.inl (by show s.cycles + 1 ≤ s5.cycles; omega)⟩
                  · split at h
                    · have t := finish_tail h
                      exact ⟨t.len.trans l5, by rw [t.exe]; exact lo5, by rw [t.exe]; exact hi5,
                             Or.inl (by have := t.cyc; omega)⟩
                    · simp only [Except.ok.injEq, Prod.mk.injEq] at h
                      obtain ⟨rfl, _⟩ := h
                      exact ⟨l5, lo5, hi5, Or.inl (by omega)⟩
  · -- retA
    simp only [bind, Except.bind, pure, Except.pure] at h
    split at h
    · cases h
    · rename_i v hv
      obtain ⟨s1, e⟩ := v
      have f1 := eusCycleBusy_frame _ _ _ _ _ hv
      simp only [Loop] at h f1
      split at h
      · simp only [Except.ok.injEq, Prod.mk.injEq] at h
        obtain ⟨rfl, _⟩ := h
        exact ⟨f1.1, f1.2.1, f1.2.2.1, Or.inl (by have := f1.2.2.2; omega)⟩
      · split at h
        · cases h
        · rename_i s2 h2
          have f2 := wusCycle_frame h2
          have t := goRetA_tail h
          exact ⟨t.len.trans (f2.len.trans f1.1), by rw [t.exe, f2.exe]; exact f1.2.1, by rw [t.exe, f2.exe]; exact f1.2.2.1,
                 Or.inl (by have := t.cyc; have := f2.cyc; have := f1.2.2.2; omega)⟩
  · -- retB
    simp only [bind, Except.bind] at h
    split at h
    · cases h
    · rename_i s1 h1
      have f1 := wusCycle_frame h1
      have t := goRetB_tail h
      exact ⟨t.len.trans f1.len, by rw [t.exe, f1.exe]; exact Nat.le_refl _, by rw [t.exe, f1.exe]; exact Nat.le_add_right _ _,
             Or.inl (by have := t.cyc; have := f1.cyc; simp only at *; omega)⟩
  · -- flushF
    rename_i seq pc fc _
    simp only [bind, Except.bind, pure, Except.pure] at h
    split at h
    · cases h
    · rename_i v hv
      obtain ⟨s1, acc⟩ := v
      have f1 := eusCycleFlush_frame _ _ _ _ _ _ _ hv
      simp only [Loop] at h f1
      split at h
      · simp only [Except.ok.injEq, Prod.mk.injEq] at h
        obtain ⟨rfl, _⟩ := h
        exact ⟨f1.1, f1.2.1, f1.2.2.1, Or.inl (by have := f1.2.2.2; omega)⟩
      · simp only [Except.ok.injEq] at h
        have hs := congrArg Prod.fst h
        simp only at hs
        subst hs
        have t := goFlushW_tail acc.seq acc.pc fc acc.isEmpty s1.wus.length 0
          { s1 with writeBus := s1.writeBus.connect (s1.cycles + 1) }
        exact ⟨t.len.trans f1.1, by rw [t.exe]; exact f1.2.1, by rw [t.exe]; exact f1.2.2.1,
               Or.inl (by have := t.cyc; have := f1.2.2.2; simp only at *; omega)⟩
  · -- flushW
    rename_i i seq pc fc e _
    simp only [bind, Except.bind, pure, Except.pure] at h
    split at h
    · cases h
    · rename_i s1 h1
      have f1 := wuCycle_frame h1
      simp only [Except.ok.injEq] at h
      have hs := congrArg Prod.fst h
      simp only at hs
      subst hs
      have t := goFlushW_tail seq pc fc e (s1.wus.length - i) i s1
      have e1 : (goFlushW s1 seq pc fc e (s1.wus.length - i) i).1.executed = s.executed := by rw [t.exe, f1.exe]
      exact ⟨t.len.trans f1.len, by rw [e1]; exact Nat.le_refl _, by rw [e1]; exact Nat.le_add_right _ _,
             Or.inr ⟨e1, by have := t.cyc; have := f1.cyc; simp only at this; omega⟩⟩

/-- a tick of `cycle`: a tick of `cycleM`, or a Go panic (the state is kept, the run is over) -/
theorem cycle_tick (app : App) (s : State) :
    Tick s (cycle app s).1 ∨ ((cycle app s).1 = s ∧ ∃ w, (cycle app s).2 = .done (.panic w)) := by
  unfold cycle
  split
  · rename_i r hr
    obtain ⟨s', ev⟩ := r
    exact Or.inl (cycleM_tick hr)
  · exact Or.inr ⟨rfl, _, rfl⟩
  · exact Or.inr ⟨rfl, _, rfl⟩

/-- the invariant `executed ≤ units · cycles` survives a tick -/
theorem Tick.inv {s s' : State} (t : Tick s s')
    (h : (s.executed : Int) ≤ s.eus.length * s.cycles) :
    (s'.executed : Int) ≤ s'.eus.length * s'.cycles := by
  rcases t.cyc with a | ⟨b1, b2⟩
  · rw [t.len]
    have h1 : (s.eus.length : Int) * (s.cycles + 1) ≤ s.eus.length * s'.cycles :=
      Int.mul_le_mul_of_nonneg_left a (Int.natCast_nonneg _)
    have h2 : (s'.executed : Int) ≤ ((s.executed + s.eus.length : Nat) : Int) := Int.ofNat_le.mpr t.hi
    rw [Int.mul_add, Int.mul_one] at h1
    rw [Int.natCast_add] at h2
    generalize (s.eus.length : Int) * s.cycles = X at *
    generalize (s.eus.length : Int) * s'.cycles = Y at *
    omega
  · rw [t.len, b1]
    exact Int.le_trans h (Int.mul_le_mul_of_nonneg_left b2 (Int.natCast_nonneg _))

theorem runFrom_bound (app : App) : ∀ (fuel : Nat) (s : State) (n : Nat),
    (runFrom app fuel s n).final.eus.length = s.eus.length ∧
    n ≤ (runFrom app fuel s n).ticks ∧
    (runFrom app fuel s n).final.executed + s.eus.length * n ≤ s.executed + s.eus.length * (runFrom app fuel s n).ticks ∧
    ((s.executed : Int) ≤ s.eus.length * s.cycles →
      ((runFrom app fuel s n).final.executed : Int) ≤ s.eus.length * (runFrom app fuel s n).final.cycles) := by
  intro fuel
  induction fuel with
  | zero => intro s n; exact ⟨rfl, Nat.le_refl _, Nat.le_refl _, fun h => h⟩
  | succ fuel ih =>
    intro s n
    simp only [runFrom]
    have hc := cycle_tick app s
    split
    · rename_i s' hs
      rw [hs] at hc
      rcases hc with t | ⟨_, w, hw⟩
      · have h := ih s' (n + 1)
        simp only at t
        obtain ⟨h1, h2, h3, h4⟩ := h
        refine ⟨h1.trans t.len, by omega, ?_, ?_⟩
        · rw [t.len] at h3
          have := t.hi
          simp only [Nat.mul_add, Nat.mul_one] at h3
          omega
        · intro hi
          rw [← t.len]; exact h4 (t.inv hi)
      · simp only at hw; cases hw
    · rename_i s' hh hs
      rw [hs] at hc
      rcases hc with t | ⟨he, w, hw⟩
      · simp only at t
        refine ⟨t.len, Nat.le_succ n, ?_, ?_⟩
        · have := t.hi
          simp only [Nat.mul_add, Nat.mul_one]
          omega
        · intro hi
          rw [← t.len]; exact t.inv hi
      · simp only at he hw
        cases hw
        subst he
        refine ⟨rfl, Nat.le_succ n, ?_, fun hi => hi⟩
        simp only [Nat.mul_add, Nat.mul_one]; omega

/-- **lower bound (C12) for MVP-6.1.**  In a run of the model with `eu` execute units, at most `eu` instructions are
executed (their `Run` called) per tick, and the cycle counter is at least `executed / eu`.  This holds for every run:
halted, out of fuel, or ended by a Go panic.  (On a run that ends with an instruction error Go returns the count 0 next to
the error; the model's counter is the one `Run` had reached.) -/
theorem run_executed_le (app : App) (ctx : Model.Context) (eu wu fuel : Nat) :
    (run app ctx eu wu fuel).final.executed ≤ eu * (run app ctx eu wu fuel).ticks ∧
    ((run app ctx eu wu fuel).final.executed : Int) ≤ eu * (run app ctx eu wu fuel).final.cycles := by
  unfold run
  split
  · rename_i s hs
    unfold init at hs
    split at hs
    · cases hs
    · simp only [bind, Except.bind, pure, Except.pure] at hs
      split at hs
      · cases hs
      · rename_i mmu _
        simp only [Except.ok.injEq] at hs
        subst hs
        have h := runFrom_bound app fuel
          { ctx := ctx, mmu := mmu, eus := List.replicate eu {}, wus := List.replicate wu {} } 0
        simp only [List.length_replicate, Nat.mul_zero, Nat.add_zero, Nat.zero_add, Int.natCast_zero, Int.mul_zero,
          Int.le_refl, true_implies] at h
        exact ⟨h.2.2.1, h.2.2.2⟩
  · exact ⟨Nat.zero_le _, by simp only [Int.natCast_zero, Int.mul_zero, Int.le_refl]⟩

/-! ## forwarding: the consumer runs with exactly the producer's result -/

/-- the forward slot an instruction is run with depends on `fwds` only -/
theorem instrOf_congr {s1 s2 : State} (r : Runner) (h : s2.fwds = s1.fwds) : instrOf s2 r = instrOf s1 r := by
  simp only [instrOf, h]

theorem buAssert_fwds (s : State) (r : Runner) : (buAssert s r).fwds = s.fwds := by
  unfold buAssert
  simp only
  split
  · split <;> rfl
  · split <;> rfl

theorem fwdGet_fwdSet (l : List (Nat × Gen.Forward)) (i : Nat) (f : Gen.Forward) : fwdGet (fwdSet l i f) i = f := by
  simp only [fwdGet, fwdSet, List.find?, beq_self_eq_true]

/-- a value sent on a channel nobody has sent on is what the receiver finds -/
theorem chanGet_append (l : List (Nat × Word)) (ch : Nat) (v : Word) (h : chanGet l ch = none) :
    chanGet (l ++ [(ch, v)]) ch = some v := by
  simp only [chanGet, Option.map_eq_none_iff] at h
  simp only [chanGet, List.find?_append, h, Option.none_or, List.find?, beq_self_eq_true, Option.map_some]

/-- the generated `registerRead` returns the forward slot's value for the forwarded register, whatever the register
file holds -/
theorem registerRead_forwarded (ctx : Model.Context) (reg : Reg) (v seq : Word) :
    Gen.registerRead ctx { Register := reg, Value := v } reg seq = v := by
  simp only [Gen.registerRead, beq_self_eq_true, if_true]

/-- **producer.**  An execute unit that runs an instruction whose runner carries a forwarding channel `ch`, and whose
execution `e` is neither a return nor a memory change, queues `e` for write-back and sends EXACTLY `e.RegisterValue` on
`ch`; the register file is not touched (a write unit will write it later). -/
theorem euRun_sends_result {app : App} {s s' : State} {i : Nat} {eu : ExecUnit} {r : Runner} {c : Int} {out : EuOut}
    {ch : Nat} {e : Gen.Execution} (hf : r.forwarder = some ch)
    (he : (instrOf s r).run s.ctx app.labels r.pc eu.memory (if s.v71 then r.seq else 0#32) = .ok e)
    (hR : e.Return = false) (hM : e.MemoryChange = false)
    (h : euRun app s i eu r c = .ok (s', out)) :
    out = .none ∧ s'.chans = s.chans ++ [(ch, e.RegisterValue)] ∧ s'.ctx = s.ctx ∧
    s'.writeBus = s.writeBus.add { seq := r.seq, execution := e, itype := r.instr.instructionType,
                                   writeRegisters := r.instr.writeRegisters,
                                   readRegisters := r.instr.readRegisters } c := by
  unfold euRun at h
  simp only [bind, Except.bind, pure, Except.pure, hf] at h
  split at h
  · rename_i w he'
    exact absurd (he'.symm.trans he) (by simp only [reduceCtorEq, not_false_eq_true])
  · rename_i w he'
    exact absurd (he'.symm.trans he) (by simp only [reduceCtorEq, not_false_eq_true])
  · rename_i e' he'
    have : e' = e := Except.ok.inj (he'.symm.trans he)
    subst this
    simp only [hR, hM, Bool.false_eq_true, if_false] at h
    split at h
    · cases h
    · cases h
      exact ⟨rfl, rfl, rfl, rfl⟩

/-- **consumer.**  A unit whose runner waits on channel `ch`, once `v` has been sent on it, goes on (in the same cycle)
with the forward slot of its instruction set to `{fwdReg ↦ v}`: `Run` and `MemoryRead` are called on
`r.instr.setForward {Register := r.fwdReg, Value := v}`, for which `registerRead` of `fwdReg` returns `v`
(`registerRead_forwarded`).  The value is consumed: the channel is empty afterwards. -/
theorem euPrepare_receives {app : App} {s : State} {i : Nat} {eu : ExecUnit} {r : Runner} {c : Int} {ch : Nat} {v : Word}
    (hw : s.writeBus.canAdd = true) (hr : r.receiver = some ch) (hv : chanGet s.chans ch = some v) :
    ∃ s1 eu1 r1, euPrepare app s i eu r c = euAfterReceive app s1 i eu1 r1 c ∧
      s1.ctx = s.ctx ∧ r1.instr = r.instr ∧ r1.pc = r.pc ∧ r1.receiver = none ∧ chanGet s1.chans ch = none ∧
      (∀ s2 : State, s2.fwds = s1.fwds → instrOf s2 r1 = r.instr.setForward { Register := r.fwdReg, Value := v }) := by
  refine ⟨{ s with chans := s.chans.filter (fun e => e.1 != ch),
                     fwds := fwdSet s.fwds (instrIdx r.pc) { Register := r.fwdReg, Value := v } },
          { eu with runner := some { r with receiver := none } }, { r with receiver := none }, ?_, ?_⟩
  · unfold euPrepare
    simp only [hw, Bool.not_true, Bool.false_eq_true, if_false, euReceive, hr, hv]
  · refine ⟨rfl, rfl, rfl, rfl, ?_, ?_⟩
    · simp only [chanGet, Option.map_eq_none_iff, List.find?_eq_none, List.mem_filter, bne_iff_ne, ne_eq, beq_iff_eq]
      intro x hx; exact hx.2
    · intro s2 h2
      simp only [instrOf, h2, fwdGet_fwdSet]

end Proofs.Mvp61

/-
  Proofs/Mvp63MapOrder.lean — the "no verdict" class of the MVP-6.3 tie made precise.

  `Model.Mvp61.shouldUseForwarding` answers `ambiguous p q` exactly when the candidate has one hazard, read-after-write, and
  two runners with DIFFERENT identities among those pushed in the previous cycle write a register it reads
  (`ambiguous_iff`); otherwise its answer does not depend on the order of the runners (`one_of_perm`: Go's map iteration
  order is irrelevant).  `handleRunner` is the only place that sets the ghost field `mapOrder`, and it does so only with
  such a pair (`Wit`); no other unit touches the field; so a run whose final state carries `mapOrder = some (r, p, q)` ended
  — with the distinguished panic — in a tick in which the control unit met candidate `r` with the two producers `p`, `q`
  in `pushedRunnersInPreviousCycle` (`runFrom_mapOrder`).
-/
import MajoranaVerif.Model.Mvp63
open GoInt

namespace Proofs.Mvp63MapOrder
open Model.Mvp61
open Model.Seq (App Halt)
open Model.Mvp60 (Event)

/-- the witness of an ambiguous forwarding choice: candidate `w.1`, producers `w.2.1`, `w.2.2` among `prev` -/
def Wit (prev : List Runner) (w : Runner × Runner × Runner) : Prop :=
  w.2.1 ∈ prev ∧ w.2.2 ∈ prev ∧ w.2.1.uid ≠ w.2.2.uid ∧ (fwdMatch w.2.1 w.1).isSome = true ∧ (fwdMatch w.2.2 w.1).isSome = true

theorem mem_cands {prev : List Runner} {r : Runner} {c : Runner × Reg} (h : c ∈ fwdCandidates prev r) :
    c.1 ∈ prev ∧ fwdMatch c.1 r = some c.2 := by
  simp only [fwdCandidates, List.mem_filterMap, Option.map_eq_some_iff] at h
  obtain ⟨p, hp, reg, hreg, rfl⟩ := h
  exact ⟨hp, hreg⟩

/-- an ambiguous answer comes with two different producers -/
theorem ambiguous_wit {prev : List Runner} {r p q : Runner} {hz : List (HazardType × Reg)}
    (h : shouldUseForwarding prev r hz = .ambiguous p q) : Wit prev (r, p, q) := by
  unfold shouldUseForwarding at h
  split at h
  · split at h
    · cases h
    · rename_i m rest hc
      split at h
      · cases h
      · rename_i x hx
        cases h
        have hxm := List.mem_of_find?_eq_some hx
        have hxp := List.find?_some hx
        have hm : m ∈ fwdCandidates prev r := by rw [hc]; exact List.mem_cons_self
        have hx' : x ∈ fwdCandidates prev r := by rw [hc]; exact List.mem_cons_of_mem _ hxm
        obtain ⟨a1, a2⟩ := mem_cands hm
        obtain ⟨b1, b2⟩ := mem_cands hx'
        refine ⟨a1, b1, ?_, by simp only [a2, Option.isSome_some], by simp only [b2, Option.isSome_some]⟩
        simp only [bne_iff_ne, ne_eq] at hxp
        exact fun e => hxp e.symm
  · cases h

/-- **the marker is raised exactly when two distinct previous-cycle runners write a register the candidate reads**
(and forwarding is tried at all: exactly one hazard, read-after-write) -/
theorem ambiguous_iff (prev : List Runner) (r : Runner) (hz : List (HazardType × Reg)) :
    (∃ p q, shouldUseForwarding prev r hz = .ambiguous p q) ↔
      (∃ reg, hz = [(.raw, reg)]) ∧
      ∃ c1 ∈ fwdCandidates prev r, ∃ c2 ∈ fwdCandidates prev r, c1.1.uid ≠ c2.1.uid := by
  constructor
  · rintro ⟨p, q, h⟩
    unfold shouldUseForwarding at h
    split at h
    · rename_i reg
      refine ⟨⟨reg, rfl⟩, ?_⟩
      split at h
      · cases h
      · rename_i m rest hc
        split at h
        · cases h
        · rename_i x hx
          have hxm := List.mem_of_find?_eq_some hx
          have hxp := List.find?_some hx
          simp only [bne_iff_ne, ne_eq] at hxp
          rw [hc]
          exact ⟨m, List.mem_cons_self, x, List.mem_cons_of_mem _ hxm, fun e => hxp e.symm⟩
    · cases h
  · rintro ⟨⟨reg, rfl⟩, c1, h1, c2, h2, hne⟩
    unfold shouldUseForwarding
    simp only
    split
    · rename_i hc; rw [hc] at h1; cases h1
    · rename_i m rest hc
      rw [hc] at h1 h2
      split
      · rename_i hf
        exfalso
        have hall : ∀ x ∈ m :: rest, x.1.uid = m.1.uid := by
          intro x hx
          rcases List.mem_cons.mp hx with e | e
          · rw [e]
          · have := List.find?_eq_none.mp hf x e
            simpa using this
        exact hne ((hall c1 h1).trans (hall c2 h2).symm)
      · rename_i x _
        exact ⟨m.1, x.1, rfl⟩

/-- **otherwise Go's map iteration order is irrelevant**: when the answer is `one p reg`, every matching runner has
`p`'s identity, and for every other order of the runners pushed in the previous cycle the answer is `one` with the same
identity -/
theorem one_of_perm {prev prev' : List Runner} {r p : Runner} {reg : Reg} {hz : List (HazardType × Reg)}
    (h : shouldUseForwarding prev r hz = .one p reg) (hp : prev'.Perm prev) :
    (∀ c ∈ fwdCandidates prev r, c.1.uid = p.uid) ∧
    ∃ p' reg', shouldUseForwarding prev' r hz = .one p' reg' ∧ p'.uid = p.uid := by
  unfold shouldUseForwarding at h
  split at h
  · split at h
    · cases h
    · rename_i m rest hc
      split at h
      · rename_i hf
        cases h
        have hall : ∀ x ∈ fwdCandidates prev r, x.1.uid = m.1.uid := by
          intro x hx
          rw [hc] at hx
          rcases List.mem_cons.mp hx with e | e
          · rw [e]
          · have := List.find?_eq_none.mp hf x e
            simpa using this
        refine ⟨hall, ?_⟩
        have hperm : (fwdCandidates prev' r).Perm (fwdCandidates prev r) := by
          unfold fwdCandidates; exact hp.filterMap _
        unfold shouldUseForwarding
        simp only
        split
        · rename_i hc'
          rw [hc', hc] at hperm
          exact absurd hperm.symm (List.not_perm_cons_nil)
        · rename_i m' rest' hc'
          have hall' : ∀ x ∈ m' :: rest', x.1.uid = m.1.uid := by
            intro x hx
            rw [← hc'] at hx
            exact hall x (hperm.mem_iff.mp hx)
          split
          · exact ⟨m'.1, m'.2, rfl, hall' m' List.mem_cons_self⟩
          · rename_i x hx
            exfalso
            have hxm := List.mem_of_find?_eq_some hx
            have hxp := List.find?_some hx
            simp only [bne_iff_ne, ne_eq] at hxp
            exact hxp ((hall' x (List.mem_cons_of_mem _ hxm)).trans (hall' m' List.mem_cons_self).symm)
      · cases h
  · cases h

/-- … and a `no` stays a `no` -/
theorem no_of_perm {prev prev' : List Runner} {r : Runner} {hz : List (HazardType × Reg)}
    (h : shouldUseForwarding prev r hz = .no) (hp : prev'.Perm prev) : shouldUseForwarding prev' r hz = .no := by
  unfold shouldUseForwarding at h ⊢
  split at h
  · split at h
    · rename_i hc
      have hperm : (fwdCandidates prev' r).Perm (fwdCandidates prev r) := by
        unfold fwdCandidates; exact hp.filterMap _
      rw [hc] at hperm
      rw [hperm.eq_nil]
    · split at h <;> cases h
  · rfl

/-! ### the control unit sets the marker only with such a pair; nobody else touches it -/

/-- what the control unit's steps keep: the list of the previous cycle's runners; the marker is kept or set with a
witness among them -/
def MoInv (st0 st : CuSt) : Prop :=
  st.prev = st0.prev ∧ (st.mapOrder = st0.mapOrder ∨ ∃ w, st.mapOrder = some w ∧ Wit st0.prev w)

theorem MoInv.refl (st : CuSt) : MoInv st st := ⟨rfl, Or.inl rfl⟩

theorem MoInv.trans {a b c : CuSt} (h1 : MoInv a b) (h2 : MoInv b c) : MoInv a c := by
  refine ⟨h2.1.trans h1.1, ?_⟩
  rcases h2.2 with e | ⟨w, hw, hwit⟩
  · rcases h1.2 with e1 | ⟨w, hw, hwit⟩
    · exact Or.inl (e.trans e1)
    · exact Or.inr ⟨w, e.trans hw, hwit⟩
  · exact Or.inr ⟨w, hw, by rw [← h1.1]; exact hwit⟩

theorem pushRunner_inv {st st' : CuSt} {c : Int} {r : Runner} (h : pushRunner st c r = some st') : MoInv st st' := by
  unfold pushRunner at h
  split at h
  · cases h
  · cases h; exact ⟨rfl, Or.inl rfl⟩

theorem handleRunner_inv {st st' : CuSt} {c : Int} {r r' : Runner} {res : Bool × Bool}
    (h : handleRunner st c r = .ok (res, r', st')) : MoInv st st' := by
  unfold handleRunner at h
  simp only [pure, Except.pure] at h
  split at h
  · cases h; exact MoInv.refl _
  · split at h
    · cases h; exact MoInv.refl _
    · split at h
      · cases h; exact MoInv.refl _
      · split at h
        · split at h
          · cases h; exact MoInv.refl _
          · rename_i hp; cases h; exact pushRunner_inv hp
        · split at h
          · rename_i p q ha
            cases h
            exact ⟨rfl, Or.inr ⟨_, rfl, ambiguous_wit ha⟩⟩
          · split at h
            · cases h; exact ⟨rfl, Or.inl rfl⟩
            · rename_i hp
              cases h
              have := pushRunner_inv hp
              exact ⟨this.1, this.2⟩
          · split at h
            · split at h
              · cases h; exact MoInv.refl _
              · rename_i hp; cases h; exact pushRunner_inv hp
            · cases h; exact MoInv.refl _

theorem notePushed_inv (st : CuSt) (r : Runner) : MoInv st (notePushed st r) := ⟨rfl, Or.inl rfl⟩

theorem cuPendingLoop_inv (c : Int) : ∀ (l : List (Nat × Runner)) (st st' : CuSt) (b : Bool),
    cuPendingLoop c l st = .ok (st', b) → MoInv st st' := by
  intro l
  induction l with
  | nil =>
    intro st st' b h
    simp only [cuPendingLoop, pure, Except.pure, Except.ok.injEq, Prod.mk.injEq] at h
    obtain ⟨rfl, _⟩ := h
    exact MoInv.refl _
  | cons x rest ih =>
    intro st st' b h
    obtain ⟨hd, r⟩ := x
    simp only [cuPendingLoop, bind, Except.bind, pure, Except.pure] at h
    split at h
    · cases h
    · rename_i v hv
      obtain ⟨⟨push, stop⟩, r', st1⟩ := v
      have f1 := handleRunner_inv hv
      simp only at h
      have f2 : MoInv st (if push = true then notePushed { st1 with pendings := st1.pendings.remove hd } r'
          else { st1 with skipped := st1.skipped ++ [r'] }) := by
        split
        · exact f1.trans ⟨rfl, Or.inl rfl⟩
        · exact f1.trans ⟨rfl, Or.inl rfl⟩
      split at h
      · simp only [Except.ok.injEq, Prod.mk.injEq] at h
        obtain ⟨rfl, _⟩ := h
        exact f2
      · exact f2.trans (ih _ _ _ h)

theorem cuBusLoop_inv (c : Int) : ∀ (n : Nat) (st st' : CuSt), cuBusLoop c n st = .ok st' → MoInv st st' := by
  intro n
  induction n with
  | zero =>
    intro st st' h
    simp only [cuBusLoop, pure, Except.pure, Except.ok.injEq] at h
    subst h
    exact MoInv.refl _
  | succ n ih =>
    intro st st' h
    simp only [cuBusLoop, bind, Except.bind, pure, Except.pure] at h
    split at h
    · cases h; exact MoInv.refl _
    · split at h
      · cases h; exact ⟨rfl, Or.inl rfl⟩
      · split at h
        · cases h
        · rename_i v hv
          obtain ⟨⟨push, stop⟩, r', st1⟩ := v
          have f0 := handleRunner_inv hv
          have f1 : MoInv st st1 := ⟨f0.1, f0.2⟩
          simp only at h
          have f2 : MoInv st (if push = true then notePushed st1 r'
              else { st1 with pendings := st1.pendings.push r', skipped := st1.skipped ++ [r'] }) := by
            split
            · exact f1.trans ⟨rfl, Or.inl rfl⟩
            · exact f1.trans ⟨rfl, Or.inl rfl⟩
          split at h
          · cases h; exact f2
          · exact f2.trans (ih _ _ h)

/-- **the control unit**: it keeps the configuration; the marker is kept, or the state is returned unchanged except for
the marker, set with two different producers among `pushedRunnersInPreviousCycle` -/
theorem controlCycle_mo {s s' : State} (h : controlCycle s = .ok s') :
    s'.v62 = s.v62 ∧ s'.v63 = s.v63 ∧
    (s'.mapOrder = s.mapOrder ∨ ∃ w, s' = { s with mapOrder := some w } ∧ Wit s.cuPrev w) := by
  unfold controlCycle at h
  split at h
  · cases h; exact ⟨rfl, rfl, Or.inl rfl⟩
  · simp only [bind, Except.bind, pure, Except.pure] at h
    split at h
    · cases h
    · rename_i v hv
      obtain ⟨st1, stopped⟩ := v
      have f1 := cuPendingLoop_inv _ _ _ _ _ hv
      simp only at h
      have key : ∀ st2 : CuSt, MoInv st1 st2 →
          (if st2.mapOrder.isSome = true then (Except.ok { s with mapOrder := st2.mapOrder } : M State)
           else Except.ok { s with ctx := st2.ctx, controlBus := st2.inBus, executeBus := st2.outBus,
                                   cuPendings := st2.pendings, cuPrev := st2.cur, cuPendCond := st2.pendCond,
                                   nextChan := st2.nextChan, nextUid := st2.nextUid, forwarded := st2.forwarded }) = .ok s' →
          s'.v62 = s.v62 ∧ s'.v63 = s.v63 ∧
          (s'.mapOrder = s.mapOrder ∨ ∃ w, s' = { s with mapOrder := some w } ∧ Wit s.cuPrev w) := by
        intro st2 f2 h2
        have f := f1.trans f2
        split at h2
        · rename_i hs
          cases h2
          refine ⟨rfl, rfl, ?_⟩
          rcases f.2 with e | ⟨w, hw, hwit⟩
          · simp only [e, Option.isSome_none, Bool.false_eq_true] at hs
          · exact Or.inr ⟨w, by rw [hw], hwit⟩
        · cases h2; exact ⟨rfl, rfl, Or.inl rfl⟩
      split at h
      · exact key st1 (MoInv.refl _) h
      · split at h
        · cases h
        · rename_i st2 h2
          exact key st2 (cuBusLoop_inv _ _ _ _ h2) h

end Proofs.Mvp63MapOrder

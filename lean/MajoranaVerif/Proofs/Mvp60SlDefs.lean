/-
  Proofs/Mvp60SlDefs.lean — package R60: the relation between a state of the MVP-6.0 model (`Model.Mvp60`) running a
  STRAIGHT-LINE register-only program (`Model.Mvp60.StraightLine`) and a state of the unpipelined machine
  (`Model.Seq.stepArch`), and the elementary facts about buses and instructions it rests on.
-/
import MajoranaVerif.Model.Mvp60
import MajoranaVerif.Model.Mvp60Class
import MajoranaVerif.Proofs.Bus
import MajoranaVerif.Proofs.Mvp4Run
open GoInt

set_option linter.unusedSimpArgs false
set_option linter.unusedVariables false

namespace Proofs.Mvp60Sl
open Model Model.Mvp60
open Model.Seq (App Halt Arch stepArch)

/-! ### buses -/

theorem inside_add {α : Type} (b : BufferedBus α) (t : α) (c : Int) : (b.add t c).inside = b.inside ++ [t] := by
  simp [BufferedBus.add, BufferedBus.inside]

theorem inside_connect {α : Type} (b : BufferedBus α) (c : Int) : (b.connect c).inside = b.inside := by
  unfold BufferedBus.connect
  by_cases h : ((b.queue.length : Int) == b.queueLength) = true
  · simp [h]
  · obtain ⟨m, h1, h2, _⟩ := Proofs.Bus.connectLoop_spec b.queueLength c b.buffer b.queue
    simp only [h, if_false, Bool.false_eq_true, BufferedBus.inside, h2]
    conv => rhs; rw [h1]
    simp

theorem connect_lengths {α : Type} (b : BufferedBus α) (c : Int) :
    (b.connect c).queueLength = b.queueLength ∧ (b.connect c).bufferLength = b.bufferLength := by
  unfold BufferedBus.connect; split <;> exact ⟨rfl, rfl⟩

/-- `Get` on a bus: the head of `inside` when the queue is not empty -/
theorem get_some {α : Type} (b : BufferedBus α) (x : α) (q : List α) (h : b.queue = x :: q) :
    b.get = (some x, { b with queue := q }) := by
  simp only [BufferedBus.get, h]

theorem get_none {α : Type} (b : BufferedBus α) (h : b.queue = []) : b.get = (none, b) := by
  simp only [BufferedBus.get, h]

/-- when everything in the buffer is due and fits, `Connect` moves all of it to the queue -/
theorem connectLoop_all {α : Type} (ql c : Int) : ∀ (buf : List (Int × α)) (q : List α),
    (q.length + buf.length : Int) ≤ ql → (∀ e ∈ buf, e.1 ≤ c) →
    BufferedBus.connectLoop ql c buf q = ([], q ++ buf.map (·.2)) := by
  intro buf
  induction buf with
  | nil => intro q _ _; simp [BufferedBus.connectLoop]
  | cons e rest ih =>
    intro q hl hs
    unfold BufferedBus.connectLoop
    have h1 : ¬ ((q.length : Int) == ql) = true := by
      simp only [beq_iff_eq]; simp only [List.length_cons] at hl; omega
    have h2 : ¬ e.1 > c := by have := hs e (List.mem_cons_self); omega
    simp only [h1, h2, if_false, Bool.false_eq_true]
    rw [ih (q ++ [e.2]) (by simp only [List.length_append, List.length_cons, List.length_nil] at hl ⊢; omega)
      (fun e' he' => hs e' (List.mem_cons_of_mem _ he'))]
    simp

theorem connect_all {α : Type} (b : BufferedBus α) (c : Int)
    (hl : (b.queue.length + b.buffer.length : Int) ≤ b.queueLength) (hs : ∀ e ∈ b.buffer, e.1 ≤ c) :
    b.connect c = { b with queue := b.queue ++ b.buffer.map (·.2), buffer := [] } := by
  unfold BufferedBus.connect
  by_cases h : ((b.queue.length : Int) == b.queueLength) = true
  · simp only [h, if_true]
    have hq : (b.queue.length : Int) = b.queueLength := by simpa using h
    have hb : b.buffer = [] := by
      cases hbb : b.buffer with
      | nil => rfl
      | cons x xs => rw [hbb] at hl; simp only [List.length_cons] at hl; omega
    cases b; simp only at hb; subst hb; simp
  · simp only [h, if_false, Bool.false_eq_true, connectLoop_all _ _ _ _ hl hs]

theorem inside_nil_of_isEmpty {α : Type} (b : BufferedBus α) (h : b.isEmpty = true) : b.inside = [] := by
  simp only [BufferedBus.isEmpty, Bool.and_eq_true, beq_iff_eq, List.length_eq_zero_iff] at h
  simp only [BufferedBus.inside, h.1, h.2, List.map_nil, List.append_nil]

theorem get_lt {α : Type} (l : List α) (i : Nat) (h : i < l.length) : ∃ a, l[i]? = some a :=
  ⟨l[i], List.getElem?_eq_getElem h⟩

/-! ### program counters -/

/-- the pc of instruction number `k` -/
def pcOf (k : Nat) : Word := BitVec.ofNat 32 (4 * k)

theorem pcOf_succ (k : Nat) : pcOf k + 4#32 = pcOf (k + 1) := by
  unfold pcOf
  apply BitVec.eq_of_toNat_eq
  simp only [BitVec.toNat_add, BitVec.toNat_ofNat]
  omega

theorem pcOf_toInt (k : Nat) (h : k < 2 ^ 20) : (pcOf k).toInt = 4 * k := by
  unfold pcOf
  rw [BitVec.toInt_eq_toNat_cond]
  simp only [BitVec.toNat_ofNat]
  have h1 : 4 * k % 2 ^ 32 = 4 * k := Nat.mod_eq_of_lt (by omega)
  rw [h1]
  have : 2 * (4 * k) < 2 ^ 32 := by omega
  simp only [this, if_true]
  omega

theorem pcOf_idx (k : Nat) (h : k < 2 ^ 20) : Int.tdiv (pcOf k).toInt 4 = k := by
  rw [pcOf_toInt k h]
  have : (4 * (k : Int)).tdiv 4 = k := by
    rw [Int.mul_comm]; exact Int.mul_tdiv_cancel _ (by decide)
  exact this

/-! ### the in-flight instructions, in program order -/

/-- runner `r` is instruction number `k` of the program -/
def RunnerOk (app : App) (r : Runner) (k : Nat) : Prop := r.pc = pcOf k ∧ app.instrs[k]? = some r.instr

/-- consecutive instructions from number `k` on -/
def Chain (app : App) : Nat → List Runner → Prop
  | _, [] => True
  | k, r :: rs => RunnerOk app r k ∧ Chain app (k + 1) rs

theorem chain_append (app : App) : ∀ (l1 l2 : List Runner) (k : Nat),
    Chain app k (l1 ++ l2) ↔ Chain app k l1 ∧ Chain app (k + l1.length) l2 := by
  intro l1
  induction l1 with
  | nil => intro l2 k; simp [Chain]
  | cons r rs ih =>
    intro l2 k
    simp only [List.cons_append, Chain, ih, List.length_cons, and_assoc]
    have : k + 1 + rs.length = k + (rs.length + 1) := by omega
    rw [this]

theorem chain_lt (app : App) : ∀ (l : List Runner) (k : Nat), Chain app k l → k + l.length ≤ app.instrs.length ∨ l = [] := by
  intro l
  induction l with
  | nil => intro k _; right; rfl
  | cons r rs ih =>
    intro k h
    left
    obtain ⟨⟨_, hr⟩, hc⟩ := h
    have hk : k < app.instrs.length := by
      rcases Nat.lt_or_ge k app.instrs.length with h | h
      · exact h
      · rw [List.getElem?_eq_none h] at hr; cases hr
    rcases ih (k + 1) hc with h | h
    · simp only [List.length_cons]; omega
    · subst h; simp only [List.length_cons, List.length_nil]; omega

/-- consecutive pcs from number `k` on -/
def PcChain : Nat → List Word → Prop
  | _, [] => True
  | k, p :: ps => p = pcOf k ∧ PcChain (k + 1) ps

theorem pcChain_append : ∀ (l1 l2 : List Word) (k : Nat),
    PcChain k (l1 ++ l2) ↔ PcChain k l1 ∧ PcChain (k + l1.length) l2 := by
  intro l1
  induction l1 with
  | nil => intro l2 k; simp [PcChain]
  | cons r rs ih =>
    intro l2 k
    simp only [List.cons_append, PcChain, ih, List.length_cons, and_assoc]
    have : k + 1 + rs.length = k + (rs.length + 1) := by omega
    rw [this]

/-- the runners between decode and execute, oldest first -/
def runners (s : State) : List Runner :=
  s.executeBus.inside ++ s.cuPendings.items.map (·.2) ++ s.controlBus.inside

/-- the program has no jump (`j`, `jal`, `jalr`) -/
def NoJmp (app : App) : Prop := app.instrs.all (fun i => !i.instructionType.IsUnconditionalBranch) = true

/-- the pcs on the decode bus and the fetch unit's pc continue the decoded instructions (`want` = number of the next
instruction to decode), or lie past the end when everything has been decoded; `slack` = emissions still allowed -/
def Pcs (app : App) (want : Nat) (fu : FetchUnit) (D : List Word) (slack : Nat) : Prop :=
  ∃ h, PcChain h D ∧ fu.pc = pcOf (h + D.length) ∧
    (h = want ∨ (app.instrs.length ≤ h ∧ app.instrs.length ≤ want)) ∧
    h + D.length + slack ≤ app.instrs.length + 2 ∧
    (fu.co = .none → h + D.length ≤ app.instrs.length) ∧
    (fu.co = .wait → h + D.length ≤ app.instrs.length + 1) ∧
    (fu.complete = true → app.instrs.length ≤ h + D.length)

/-- **the front of the pipeline** holds the instructions `n0, n0+1, …` in order: the runners are consecutive from `n0`,
the pcs on the decode bus and the fetch unit's pc continue them -/
structure Front (app : App) (s : State) (n0 : Nat) : Prop where
  chain : Chain app n0 (runners s)
  inRange : n0 + (runners s).length ≤ app.instrs.length
  pcs : Pcs app (n0 + (runners s).length) s.fu s.decodeBus.inside 0
  clean : s.fu.toCleanPending = false
  dlen : s.decodeBus.bufferLength = 2
  duOk : s.du.pendingBranchResolution = false

/-- the runner is a jump (`j`, `jal`, `jalr`) -/
def isJ (r : Runner) : Bool := r.instr.instructionType.IsUnconditionalBranch

/-- what the decode unit will see on the decode bus: nothing when the fetch unit is about to clean it -/
def effD (s : State) : List Word := if s.fu.toCleanPending then [] else s.decodeBus.inside

/-- **the front of the pipeline, with jumps** (package R60c): the runners are consecutive from `n0`; while the decode unit is
OPEN no jump is in flight and the pcs on the (effective) decode bus and the fetch unit's pc continue the runners; while it
is CLOSED (a jump has been decoded and not yet executed) the jump is the youngest runner — and nothing is said about what
the fetch unit has fetched behind it: it is thrown away when the jump executes. -/
structure FrontJ (app : App) (s : State) (n0 : Nat) : Prop where
  chain : Chain app n0 (runners s)
  inRange : n0 + (runners s).length ≤ app.instrs.length
  dlen : s.decodeBus.bufferLength = 2
  opn : s.du.pendingBranchResolution = false →
    Pcs app (n0 + (runners s).length) s.fu (effD s) 0 ∧ ∀ r ∈ runners s, isJ r = false
  clo : s.du.pendingBranchResolution = true →
    ∃ pre j, runners s = pre ++ [j] ∧ isJ j = true ∧ ∀ r ∈ pre, isJ r = false
  plain : NoJmp app → s.fu.toCleanPending = false ∧ s.du.pendingBranchResolution = false

theorem FrontJ.toFront {app : App} {s : State} {n0 : Nat} (h : FrontJ app s n0) (hn : NoJmp app) : Front app s n0 := by
  have hp := h.plain hn
  have := (h.opn hp.2).1
  simp only [effD, hp.1, Bool.false_eq_true, if_false] at this
  exact ⟨h.chain, h.inRange, this, hp.1, h.dlen, hp.2⟩

end Proofs.Mvp60Sl

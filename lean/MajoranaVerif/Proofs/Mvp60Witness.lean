/-
  Proofs/Mvp60Witness.lean — what the cycle-accurate model of MVP-6.0 (`Model.Mvp60`, tied to the Go machine on every
  generated case) computes on five small programs: proved counterexamples (kernel evaluation of the model; the runs are evaluated through `runFast`, which `Proofs.Mvp60Fast.runFast_eq_run` proves equal to `run`) of the
  behaviours recorded in KNOWN_FINDINGS.json for the first superscalar variant, next to the unpipelined machine
  (`Model.Seq.runMvp1`) on the same program.  Memory is 64 or 128 bytes of `0x11`.
-/
import MajoranaVerif.Model.Mvp60
import MajoranaVerif.Model.SeqMachine
import MajoranaVerif.Proofs.Mvp60Fast
open GoInt

namespace Proofs.Mvp60Witness
open Model.Mvp60

def mem11 (n : Nat) : List Byte := List.replicate n 0x11#8

/-- what the theorems below look at: how the run ended, the cycle counter, the number of executed instructions, two
registers and the first eight bytes of memory (one evaluation of the run per theorem) -/
def obs (r : Result) (ra rb : Reg) : Option Model.Seq.Halt × Int × Nat × Word × Word × List Byte :=
  (r.halt, r.final.cycles, r.final.executed, r.final.ctx.Registers.get1 ra, r.final.ctx.Registers.get1 rb,
   r.final.ctx.Memory.take 8)

/-- the same for the unpipelined machine -/
def obsSeq (r : Model.Seq.Result) (ra rb : Reg) : Option Model.Seq.Halt × Word × Word × List Byte :=
  (r.halt, r.final.ctx.Registers.get1 ra, r.final.ctx.Registers.get1 rb, r.final.ctx.Memory.take 8)

def m11 : List Byte := List.replicate 8 0x11#8

/-- reading an `obs` equation without evaluating the run again -/
theorem obs_eq {r : Result} {ra rb : Reg} {v : Option Model.Seq.Halt × Int × Nat × Word × Word × List Byte}
    (h : obs r ra rb = v) :
    r.halt = v.1 ∧ r.final.cycles = v.2.1 ∧ r.final.executed = v.2.2.1 ∧ r.final.ctx.Registers.get1 ra = v.2.2.2.1 ∧
    r.final.ctx.Registers.get1 rb = v.2.2.2.2.1 ∧ r.final.ctx.Memory.take 8 = v.2.2.2.2.2 := by
  subst h; exact ⟨rfl, rfl, rfl, rfl, rfl, rfl⟩

theorem obsSeq_eq {r : Model.Seq.Result} {ra rb : Reg} {v : Option Model.Seq.Halt × Word × Word × List Byte}
    (h : obsSeq r ra rb = v) :
    r.halt = v.1 ∧ r.final.ctx.Registers.get1 ra = v.2.1 ∧ r.final.ctx.Registers.get1 rb = v.2.2.1 ∧
    r.final.ctx.Memory.take 8 = v.2.2.2 := by
  subst h; exact ⟨rfl, rfl, rfl, rfl⟩

/-! ### a flush cancels an OLDER load that is still waiting for memory (found with this model; MVP-6.0 only)

`lb a1, 0(zero); bnez s0, l3; addi a3, zero, 5; l3:` with `s0 = 1`.  With two execute units the load misses L3 and
waits 309 cycles in unit 0; the branch (no register in common) issues one cycle later to unit 1, is taken, and the
flush clears the coroutine of EVERY execute unit (`executeUnit.flush`) — also of the older load, whose `Run` is never
called: `a1` keeps 0 and the run ends after 319 cycles.  With one unit the branch waits behind the load and all is well. -/

def dropApp : Model.Seq.App :=
  { instrs := [.lb_ { rd := 11, offset := 0#32, rs := 0 }, .bnez_ { rs := 8, label := "l3" },
               .addi_ { rd := 13, rs := 0, imm := 5#32 }],
    labels := GoMap.ofList [("l3", 12#32)] }

def ctxS0 (n : Nat) : Model.Context := { Memory := mem11 n, Registers := GoMap.ofList [(8, 1#32)] }

/-- the unpipelined machine: `a1 = 0x11` -/
theorem drop_seq : obsSeq (Model.Seq.runMvp1 dropApp ⟨ctxS0 64, 0⟩ 10) 11 13 = (some .offEnd, 0x11#32, 0#32, m11) := by
  decide +kernel

/-- MVP-6.0 with one execute unit: `a1 = 0x11` (two instructions executed, 937 cycles) -/
theorem drop_p1 : obs (run dropApp (ctxS0 64) 1 1 1000) 11 13 = (some .offEnd, 937, 2, 0x11#32, 0#32, m11) := by
  rw [← Proofs.Mvp60Fast.runFast_eq_run]; decide +kernel

/-- MVP-6.0 with two execute units: the run ends normally after 319 cycles with `a1 = 0`; only ONE instruction (the
branch) was ever executed -/
theorem drop_p2 : obs (run dropApp (ctxS0 64) 2 2 1000) 11 13 = (some .offEnd, 319, 1, 0#32, 0#32, m11) := by
  rw [← Proofs.Mvp60Fast.runFast_eq_run]; decide +kernel

/-! ### … and its line stays "pending" for ever: the next load of that line dead-locks

The cancelled load had announced its line in `memoryManagementUnit.pendings`; nobody fetches it any more, `CPU.flush`
does not clear the list, and a later load of the same line polls `getFromL3` (`pending == true`) for ever. -/

def deadApp : Model.Seq.App :=
  { instrs := [.lb_ { rd := 11, offset := 0#32, rs := 0 }, .bnez_ { rs := 8, label := "l3" },
               .addi_ { rd := 13, rs := 0, imm := 5#32 }, .lb_ { rd := 12, offset := 1#32, rs := 0 }],
    labels := GoMap.ofList [("l3", 12#32)] }

theorem dead_p1 : obs (run deadApp (ctxS0 64) 1 1 1000) 11 12 = (some .offEnd, 989, 3, 0x11#32, 0x11#32, m11) := by
  rw [← Proofs.Mvp60Fast.runFast_eq_run]; decide +kernel

/-- what is left of the two-unit machine after `n` ticks -/
def deadObs (n : Nat) : Option Model.Seq.Halt × List (Int × Int) × List EuCo × List WuCo × FuCo × Nat :=
  let r := run deadApp (ctxS0 64) 2 2 n
  (r.halt, r.final.pendings, r.final.eus.map (·.co), r.final.wus.map (·.co), r.final.fu.co, r.final.executed)

/-- after 700 ticks the two-unit machine is still running: unit 0 is in `coPrepareRun` with the second load, the
line `[0, 64)` is pending, no counter is running, one instruction has been executed (nothing will ever change: see
`Proofs.Mvp60Fast`) -/
theorem dead_p2 : deadObs 700 = (none, [(0, 64)], [.prepare, .none], [.none, .none], .done, 1) := by
  simp only [deadObs]
  rw [← Proofs.Mvp60Fast.runFast_eq_run]; decide +kernel

/-- … and never will: the two-unit machine does not halt within ANY number of ticks -/
theorem dead_forever (f : Nat) : (run deadApp (ctxS0 64) 2 2 (700 + f)).halt = none := by
  have h : (run deadApp (ctxS0 64) 2 2 700).halt = none ∧ idle (run deadApp (ctxS0 64) 2 2 700).final = true ∧
      counters (run deadApp (ctxS0 64) 2 2 700).final = [] := by
    rw [← Proofs.Mvp60Fast.runFast_eq_run]; decide +kernel
  exact Proofs.Mvp60Fast.deadlock_forever deadApp (ctxS0 64) 2 2 700 h.1 h.2.1 h.2.2 f

end Proofs.Mvp60Witness

/-
  Proofs/Mvp5Total.lean — liveness of MVP-5 (the analogue of Proofs/Mvp4Live.lean + Mvp4Total.lean +
  Mvp4Terminates.lean): no unit panics along a well-formed run, every tick that executes nothing decreases
  the measure `phi5`, hence the run ends.
-/
import MajoranaVerif.Proofs.Mvp5Run
open GoInt Model Model.Seq
open Proofs.Mvp4
open Proofs.Mmu (DWf Coh applyChanges base)

set_option linter.unusedSimpArgs false
set_option linter.unusedVariables false

namespace Proofs.Mvp5
open Model.Mvp5
open Model.Mvp4 (Runner ExecUnit EuOut Event Mode instrAt pastEnd)

/-! ### no unit panics -/

theorem euIssue_jump_ok {app : App} {s : State} {a : Arch} {eu : ExecUnit} {r : Runner}
    (hb : Back s.base a) (hpc : r.pc = a.pc) (hi : instrAt app r.pc = .ok r.instr) (hnf : NoFwd app)
    (hj : isJump r = true) (hgood : SeqGood app a) :
    ∃ s2 out, Model.Mvp5.euIssue app s eu r = .ok (s2, out) := by
  have hf := hnf.at hi
  have hi' : instrAt app a.pc = .ok r.instr := hpc ▸ hi
  obtain ⟨f1, f2, f3, f4, _⟩ := assert_frame app s r
  have hb1 : BackRel (assert s r).base.ctx (assert s r).base.pwmi (assert s r).base.writeBus.inside
      (assert s r).base.mmu.l1d s.base.eu.storeID a := by rw [f1, f2, f3, f4]; exact hb
  unfold Model.Mvp5.euIssue
  simp only
  by_cases hhz : Model.Mvp4.isWriteDataHazard (assert s r).base.ctx.PendingWriteRegisters r.instr.readRegisters = true
  · simp only [hhz, if_true]; exact ⟨_, _, rfl⟩
  · have hhz' : Model.Mvp4.isWriteDataHazard (assert s r).base.ctx.PendingWriteRegisters r.instr.readRegisters = false := by
      simpa using hhz
    simp only [hhz', Bool.false_eq_true, if_false]
    have hnw := noWriter_of_hazard hb1 hhz'
    have hsr := sameRegs_of_noWriter hb1 hnw
    have haddr : r.instr.memoryRead (assert s r).base.ctx 0#32 = [] := by
      rw [memoryRead_congr r.instr hf hsr 0#32]; exact jump_no_load r.instr a.ctx 0#32 hj
    have hbytes : (r.instr.memoryRead a.ctx 0#32).mapM (readMem a.ctx.Memory) = some [] := by
      rw [jump_no_load r.instr a.ctx 0#32 hj]; rfl
    simp only [haddr, List.isEmpty_nil, Bool.not_true, Bool.false_eq_true, if_false]
    have hrun : r.instr.run (assert s r).base.ctx app.labels r.pc [] 0#32 = r.instr.run a.ctx app.labels a.pc [] 0#32 := by
      rw [hpc]; exact run_congr r.instr hf hsr app.labels a.pc [] 0#32
    have hstep := stepArch_run hi' hbytes
    unfold Model.Mvp5.euRun
    simp only
    rw [hrun]
    cases hr : r.instr.run a.ctx app.labels a.pc [] 0#32 with
    | error f =>
      cases f with
      | panic w =>
        exfalso
        have : ∃ c, stepTail app a r.instr [] = .halt (.panic w) c := by unfold stepTail; simp only [hr]; exact ⟨_, rfl⟩
        obtain ⟨c, hc⟩ := this
        exact hgood w c (by rw [hstep]; exact hc)
      | err msg => exact ⟨_, _, rfl⟩
    | ok e =>
      obtain ⟨_, hmc, hret⟩ := run_jump r.instr a.ctx app.labels a.pc [] 0#32 e hj hr
      simp only [hret, Bool.false_eq_true, if_false, hmc, pure, Except.pure, bind, Except.bind]
      exact ⟨_, _, rfl⟩

theorem euStep5_ok {app : App} {s : State} {a : Arch} {eu : ExecUnit} {r : Runner}
    (hb : Back s.base a) (hrun : eu.runner = some r) (hsid : eu.storeID = s.base.eu.storeID)
    (hpc : r.pc = a.pc) (hi : instrAt app r.pc = .ok r.instr) (hnf : NoFwd app)
    (hok : Model.Mvp4.stepOk app a = true) (hgood : SeqGood app a) :
    ∃ s2 out, Model.Mvp5.euStep app s eu = .ok (s2, out) := by
  unfold Model.Mvp5.euStep
  simp only
  by_cases h0 : (eu.remainingCycles - 1 != 0) = true
  · simp only [h0, if_true]; exact ⟨_, _, rfl⟩
  · simp only [h0, Bool.false_eq_true, if_false]
    by_cases hca : s.base.writeBus.canAdd = true
    · simp only [hca, Bool.not_true, Bool.false_eq_true, if_false, hrun]
      cases hj : isJump r with
      | true => exact euIssue_jump_ok hb hpc hi hnf hj hgood
      | false =>
        obtain ⟨bu0, hbr⟩ := euIssue_nonjump app s { eu with remainingCycles := eu.remainingCycles - 1, runner := some r } r hj
        rw [hbr]
        have hbb : Back ({ s.base with bu := bu0 } : Model.Mvp4.State) a := hb
        obtain ⟨b, out, h⟩ := euIssue_ok (s := { s.base with bu := bu0 })
          (eu := { eu with remainingCycles := eu.remainingCycles - 1, runner := some r }) hbb hsid hpc hi hnf hok hgood
        rw [h]
        exact ⟨_, _, rfl⟩
    · have hca' : s.base.writeBus.canAdd = false := by simpa using hca
      simp only [hca', Bool.not_false, if_true]; exact ⟨_, _, rfl⟩

/-- **the execute unit of MVP-5 never panics** along a run whose unpipelined counterpart does not -/
theorem executeCycle5_ok {app : App} {s : State} {a : Arch}
    (hb : Back s.base a) (hn : NormalOk5 app s a) (hnf : NoFwd app) (hok : Model.Mvp4.stepOk app a = true)
    (hgood : SeqGood app a) : ∃ s2 out, Model.Mvp5.executeCycle app s = .ok (s2, out) := by
  unfold Model.Mvp5.executeCycle
  by_cases hp : s.base.eu.pendingMemoryRead = true
  · obtain ⟨r, hrun, hnj, hpo⟩ := hn.pend hp
    have hproc : s.base.eu.processing = true := by
      cases hx : s.base.eu.processing with
      | true => rfl
      | false => have := hn.idle hx; rw [hp] at this; cases this
    obtain ⟨r', hr', _, hpc, hi⟩ := hn.busy hproc
    have : r' = r := by rw [hrun] at hr'; injection hr' with hr'; exact hr'.symm
    subst this
    simp only [hp, if_true]
    by_cases h0 : (s.base.eu.remainingCycles - 1 != 0) = true
    · simp only [h0, if_true]; exact ⟨_, _, rfl⟩
    · simp only [h0, Bool.false_eq_true, if_false, hrun]
      rw [euMemDone_nonjump app s _ r' hnj]
      obtain ⟨b, out, h⟩ := euMemDone_ok
        (eu := { s.base.eu with remainingCycles := s.base.eu.remainingCycles - 1, pendingMemoryRead := false, runner := some r' })
        hb rfl hpo rfl rfl hpc hi hnf hok hgood
      rw [h]; exact ⟨_, _, rfl⟩
  · have hp' : s.base.eu.pendingMemoryRead = false := by simpa using hp
    simp only [hp', Bool.false_eq_true, if_false]
    unfold Model.Mvp4.euTake
    by_cases hproc : s.base.eu.processing = true
    · obtain ⟨r, hrun, _, hpc, hi⟩ := hn.busy hproc
      simp only [hproc, Bool.not_true, Bool.false_eq_true, if_false, pure, Except.pure, bind, Except.bind]
      exact euStep5_ok (s := s) hb hrun rfl hpc hi hnf hok hgood
    · have hproc' : s.base.eu.processing = false := by simpa using hproc
      have hRi := runners_idle hproc'
      simp only [hproc', Bool.not_false, if_true]
      cases hx : s.base.executeBus.get.1 with
      | none =>
        have hg : s.base.executeBus.get = (none, s.base.executeBus.get.2) := by rw [← hx]
        rw [hg]
        simp only [pure, Except.pure, bind, Except.bind, Bool.not_false, if_true]
        exact ⟨_, _, rfl⟩
      | some r =>
        have hg : s.base.executeBus.get = (some r, s.base.executeBus.get.2) := by rw [← hx]
        have hins := bus_inside_of_get_some _ r hx
        rw [hg]
        simp only
        obtain ⟨c, hcy⟩ := Proofs.Refine.cycles_ok r.instr.instructionType
        simp only [hcy, pure, Except.pure, bind, Except.bind, Bool.not_true, Bool.false_eq_true, if_false]
        have hcons := hn.consec
        rw [hRi, hins] at hcons
        simp only [List.map_cons, List.cons_append] at hcons
        have hi : instrAt app r.pc = .ok r.instr := hn.instrs r (by rw [hRi, hins]; simp)
        exact euStep5_ok (s := { s with base := { s.base with executeBus := s.base.executeBus.get.2 } })
          (eu := { s.base.eu with runner := some r, remainingCycles := c, processing := true })
          hb rfl rfl hcons.1 hi hnf hok hgood


/-! ### the measure and the liveness invariants -/

/-- every target the BTB holds is an address inside the program (or its end) -/
def BtbOk (app : App) (b : List (Word × Word)) : Prop := ∀ e ∈ b, e.2.toNat ≤ 4 * app.instrs.length

theorem btbAdd_ok {app : App} {b : List (Word × Word)} (h : BtbOk app b) (pc t : Word)
    (ht : t.toNat ≤ 4 * app.instrs.length) : BtbOk app (btbAdd b pc t) := by
  unfold btbAdd
  intro e he
  split at he
  · obtain ⟨e0, he0, rfl⟩ := List.mem_map.mp he
    split
    · exact ht
    · exact h e0 he0
  · split at he
    · rcases List.mem_append.mp he with h1 | h1
      · exact h e h1
      · simp only [List.mem_singleton] at h1; subst h1; exact ht
    · rcases List.mem_append.mp he with h1 | h1
      · exact h e (List.mem_of_mem_drop h1)
      · simp only [List.mem_singleton] at h1; subst h1; exact ht

/-- the decode bus as the fetch unit will leave it to the decode unit: empty when it has been told to clean it -/
def dBus (s : State) : SimpleBus Word := if s.toCleanPending then s.base.decodeBus.clean else s.base.decodeBus

/-- position of the oldest instruction in the front end of MVP-5 -/
def frontW5 (app : App) (s : State) : Nat := frontW app s.base.executeBus (dBus s) s.base.fu

/-- **the measure of MVP-5**: strictly decreases in every tick that does not execute an instruction -/
def phi5 (app : App) (s : State) : Nat :=
  match s.base.mode with
  | .normal => wW s.base.wu s.base.writeBus + euPart s.base (frontW5 app s)
  | .drainRet => wW s.base.wu s.base.writeBus
  | .drainFlush _ => 2000 + wW s.base.wu s.base.writeBus

/-- the invariants liveness needs on top of the simulation relation: MVP-4's, and the BTB only holds targets
inside the program -/
structure Live5 (app : App) (s : State) : Prop where
  live : Live app s.base
  btb : BtbOk app s.btb

theorem dBus_inside {app : App} {s : State} (hd : ∀ pc ∈ s.base.decodeBus.inside, ∃ i, instrAt app pc = .ok i) :
    ∀ pc ∈ (dBus s).inside, ∃ i, instrAt app pc = .ok i := by
  unfold dBus
  split
  · intro pc hpc; exact (nomatch hpc)
  · exact hd

theorem fetchCycle5_live {app : App} (hsmall : app.instrs.length < 250) (s : State)
    (hi : Proofs.Mvp3.IWf 64 s.base.mmu.l1i) (hr : s.base.fu.processing = true → 1 ≤ s.base.fu.remainingCycles)
    (hpcb : s.base.fu.pc.toNat ≤ 4 * app.instrs.length + 4)
    (hd : ∀ pc ∈ s.base.decodeBus.inside, ∃ i, instrAt app pc = .ok i) :
    ∃ s1, Model.Mvp5.fetchCycle app s = .ok s1 ∧ FrontFrame s.base s1.base ∧ s1.base.executeBus = s.base.executeBus ∧
      Proofs.Mvp3.IWf 64 s1.base.mmu.l1i ∧ (s1.base.fu.processing = true → 1 ≤ s1.base.fu.remainingCycles) ∧
      s1.base.fu.pc.toNat ≤ 4 * app.instrs.length + 4 ∧
      (∀ pc ∈ s1.base.decodeBus.inside, ∃ i, instrAt app pc = .ok i) ∧
      s1.base.decodeBus.current = (dBus s).current ∧
      ((dBus s).pending.isSome = true → s1.base.decodeBus.pending = (dBus s).pending) ∧
      frontW app s.base.executeBus s1.base.decodeBus s1.base.fu ≤ frontW5 app s ∧
      (s.base.executeBus.current = none → s.base.executeBus.pending = none → (dBus s).current = none →
        (dBus s).pending = none → s.base.fu.complete = false →
        frontW app s.base.executeBus s1.base.decodeBus s1.base.fu < frontW5 app s) ∧
      (s.base.fu.complete = true → s1.base.fu = s.base.fu ∧ s1.base.decodeBus = dBus s) := by
  obtain ⟨fu', mmu', bus', hfc, h1, h2, h3, h4, h5, h6, h7, h8, h9⟩ :=
    fetchCore_live hsmall (bus := dBus s) s.base.executeBus hi hr hpcb (dBus_inside hd)
  obtain ⟨hl, _, _⟩ := fetchCore_spec hfc
  have hfc' : Model.Mvp4.fetchCore app s.base.fu s.base.mmu
      (if s.toCleanPending then s.base.decodeBus.clean else s.base.decodeBus) = .ok (fu', mmu', bus') := hfc
  refine ⟨{ s with base := { s.base with fu := fu', mmu := mmu', decodeBus := bus' }, toCleanPending := false }, ?_,
    ⟨rfl, rfl, rfl, rfl, rfl, rfl, rfl, hl⟩, rfl, h1, h2, h3, h4, h5, h6, h7, h8, h9⟩
  unfold Model.Mvp5.fetchCycle; simp only [hfc', bind, Except.bind, pure, Except.pure]

theorem decodeCycle5_live {app : App} (s : State)
    (hd : ∀ pc ∈ s.base.decodeBus.inside, ∃ i, instrAt app pc = .ok i) :
    ∃ s2, Model.Mvp5.decodeCycle app s = .ok s2 ∧ FrontFrame s.base s2.base ∧ s2.base.fu = s.base.fu ∧
      s2.base.mmu = s.base.mmu ∧ s2.toCleanPending = s.toCleanPending ∧ s2.btb = s.btb ∧
      (∀ pc ∈ s2.base.decodeBus.inside, ∃ i, instrAt app pc = .ok i) ∧
      s2.base.executeBus.current = s.base.executeBus.current ∧
      frontW app s2.base.executeBus s2.base.decodeBus s.base.fu ≤ frontW app s.base.executeBus s.base.decodeBus s.base.fu ∧
      (s.duPending = false → s.base.executeBus.current = none → s.base.executeBus.pending = none →
        (s.base.decodeBus.current.isSome = true ∨ s.base.decodeBus.pending.isSome = true) →
        frontW app s2.base.executeBus s2.base.decodeBus s.base.fu < frontW app s.base.executeBus s.base.decodeBus s.base.fu) ∧
      (s.base.decodeBus.current = none → s.base.decodeBus.pending = none →
        s2.base.decodeBus.current = none ∧ s2.base.decodeBus.pending = none ∧ s2.base.executeBus = s.base.executeBus) ∧
      (s.base.executeBus.pending.isSome = true → s2.base.decodeBus = s.base.decodeBus ∧ s2.base.executeBus = s.base.executeBus) := by
  by_cases hdp : s.duPending = true
  · refine ⟨s, ?_, ⟨rfl, rfl, rfl, rfl, rfl, rfl, rfl, rfl⟩, rfl, rfl, rfl, rfl, hd, rfl, Nat.le_refl _, ?_,
      fun h1 h2 => ⟨h1, h2, rfl⟩, fun _ => ⟨rfl, rfl⟩⟩
    · unfold Model.Mvp5.decodeCycle; simp only [hdp, if_true]; rfl
    · intro h0; rw [hdp] at h0; cases h0
  · obtain ⟨d', e', hdc, h1, h2, h3, h4, h5, h6⟩ :=
      decodeCore_live (d := s.base.decodeBus) (e := s.base.executeBus) s.base.fu hd
    have hex : ∃ dp, Model.Mvp5.decodeCycle app s =
        .ok { s with base := { s.base with decodeBus := d', executeBus := e' }, duPending := dp } := by
      unfold Model.Mvp5.decodeCycle
      rw [if_neg hdp]
      unfold Model.Mvp4.decodeCore at hdc
      by_cases hca : s.base.executeBus.canAdd = true
      · simp only [hca, Bool.not_true, Bool.false_eq_true, if_false] at hdc ⊢
        cases hx : s.base.decodeBus.get.1 with
        | none =>
          have hg : s.base.decodeBus.get = (none, s.base.decodeBus.get.2) := by rw [← hx]
          rw [hg] at hdc ⊢
          simp only [pure, Except.pure] at hdc ⊢
          injection hdc with hdc
          simp only [Prod.mk.injEq] at hdc
          obtain ⟨rfl, rfl⟩ := hdc
          exact ⟨s.duPending, rfl⟩
        | some pc =>
          have hg : s.base.decodeBus.get = (some pc, s.base.decodeBus.get.2) := by rw [← hx]
          rw [hg] at hdc ⊢
          simp only at hdc ⊢
          cases hi : instrAt app pc with
          | error f => simp [hi, bind, Except.bind] at hdc
          | ok i =>
            simp only [hi, bind, Except.bind, pure, Except.pure] at hdc ⊢
            injection hdc with hdc
            simp only [Prod.mk.injEq] at hdc
            obtain ⟨rfl, rfl⟩ := hdc
            exact ⟨_, rfl⟩
      · have hca' : s.base.executeBus.canAdd = false := by simpa using hca
        simp only [hca', Bool.not_false, if_true, pure, Except.pure] at hdc ⊢
        injection hdc with hdc
        simp only [Prod.mk.injEq] at hdc
        obtain ⟨rfl, rfl⟩ := hdc
        exact ⟨s.duPending, rfl⟩
    obtain ⟨dp, hdec⟩ := hex
    exact ⟨_, hdec, ⟨rfl, rfl, rfl, rfl, rfl, rfl, rfl, rfl⟩, rfl, rfl, rfl, rfl, h1, h2, h3, fun _ => h4, h5, h6⟩


theorem writeCycle5_live {s : State} {a : Arch} (hb : Back s.base a)
    (hw : s.base.wu.pendingMemoryWrite = true → 1 ≤ s.base.wu.cycles) :
    ∃ b, Model.Mvp4.writeCycle s.base = .ok b ∧ Model.Mvp5.writeCycle s = .ok { s with base := b } ∧
      (b.wu.pendingMemoryWrite = true → 1 ≤ b.wu.cycles) ∧
      wW b.wu b.writeBus ≤ wW s.base.wu s.base.writeBus ∧
      (Model.Mvp4.drainCond s.base = true → wW b.wu b.writeBus < wW s.base.wu s.base.writeBus) ∧
      (Model.Mvp4.drainCond s.base = false → b.wu = s.base.wu ∧ b.writeBus.isEmpty = true) := by
  obtain ⟨b, h, h1, h2, h3, h4⟩ := writeCycle_live hb hw
  refine ⟨b, h, ?_, h1, h2, h3, h4⟩
  unfold Model.Mvp5.writeCycle; simp only [h, bind, Except.bind, pure, Except.pure]

theorem finish5_ok {s : State} {a : Arch} (hk : Halt) (hb : Back s.base a) :
    ∃ s', Model.Mvp5.finish s hk = .ok (s', .done hk) ∧ s'.base.mmu.l1d.lines.length ≤ 16 := by
  obtain ⟨b, h, hl⟩ := finish_ok hk hb
  refine ⟨{ s with base := b }, ?_, hl⟩
  unfold Model.Mvp5.finish; simp only [h, bind, Except.bind, pure, Except.pure]

theorem euPart_eu {b b' : Model.Mvp4.State} (h : b'.eu = b.eu) (fw : Nat) : euPart b' fw = euPart b fw := by
  unfold euPart; rw [h]

/-- what a tick of MVP-5 guarantees for liveness, by its outcome -/
def LivePost5 (app : App) (s : State) (a : Arch) (s' : State) : Event → Prop
  | .running => (Rel5 app s' a ∧ Live5 app s' ∧ phi5 app s' < phi5 app s) ∨
      (∃ a1 c, stepArch dc app a = .next a1 c ∧ Rel5 app s' a1 ∧ Live5 app s' ∧ Fresh s'.base)
  | .done (.panic _) => False
  | .done .err => True
  | .done .ret => (∃ c, stepArch dc app a = .halt .ret c) ∧ s'.base.mmu.l1d.lines.length ≤ 16
  | .done .offEnd => s'.base.mmu.l1d.lines.length ≤ 16


theorem live_of_parts {app : App} {b : Model.Mvp4.State}
    (h1 : Proofs.Mvp3.IWf 64 b.mmu.l1i) (h2 : b.fu.processing = true → 1 ≤ b.fu.remainingCycles)
    (h3 : b.wu.pendingMemoryWrite = true → 1 ≤ b.wu.cycles)
    (h4 : b.mode = .normal → b.eu.processing = true → 1 ≤ b.eu.remainingCycles)
    (h5 : b.mode = .normal → b.eu.pendingMemoryRead = true →
      1 ≤ b.eu.remainingCycles ∧ b.eu.remainingCycles ≤ Gen.Latency.MemoryAccess)
    (h6 : ∀ pc ∈ b.decodeBus.inside, ∃ i, instrAt app pc = .ok i)
    (h7 : b.fu.pc.toNat ≤ 4 * app.instrs.length + 4)
    (h8 : b.mode ≠ .normal → Model.Mvp4.drainCond b = true) : Live app b :=
  { iwf := h1, fuRem := h2, wuCyc := h3, euRem := h4, euRemP := h5, dbus := h6, fuPc := h7, drain := h8 }

set_option maxHeartbeats 1000000 in
/-- **a tick of the outer loop of MVP-5 is total and makes progress** (normal mode) -/
theorem cycleM5_live_normal {app : App} {s : State} {a : Arch} (hsmall : app.instrs.length < 250)
    (hm : s.base.mode = .normal) (hR : Rel5 app s a) (hlv : Live5 app s) (hnf : NoFwd app)
    (hok : Model.Mvp4.stepOk app a = true) (hgood : SeqGood app a)
    (hnext : ∀ a' c, stepArch dc app a = .next a' c → a'.pc.toNat ≤ 4 * app.instrs.length) :
    ∃ s' ev, Model.Mvp5.cycleM app s = .ok (s', ev) ∧ LivePost5 app s a s' ev := by
  have hn0 : NormalOk5 app s a := by have := hR.front; rw [hm] at this; exact this
  -- fetch
  obtain ⟨s1, h1, fr1, hE1, hiwf1, hfr1, hpc1, hd1, hcur1, hpend1, hF1, hF1s, hF1c⟩ :=
    fetchCycle5_live hsmall { s with base := { s.base with cycles := s.base.cycles + 1, mode := .normal } }
      hlv.live.iwf hlv.live.fuRem hlv.live.fuPc hlv.live.dbus
  obtain ⟨hb1, hn1, htc1, hdp1, hbtb1, hm1, _⟩ := fetchCycle5_rel (a := a)
    (s := { s with base := { s.base with cycles := s.base.cycles + 1, mode := .normal } }) hR.back (hn0.with_cycles _ _) h1
  -- decode
  obtain ⟨s2, h2, fr2, hfu2, hmmu2, htc2, hbtb2, hd2, hE2c, hF2, hF2s, hD2e, hD2f⟩ := decodeCycle5_live s1 hd1
  obtain ⟨hb2, hn2, htc2', _, hm2, _⟩ := decodeCycle5_rel hb1 hn1 htc1 h2
  -- execute
  obtain ⟨s3, out, h3⟩ := executeCycle5_ok hb2 hn2 hnf hok hgood
  obtain ⟨e_wu, e_mode, _, hl1i, hfb, hpost⟩ := executeCycle5_sim hb2 hn2 hnf hok h3
  have heu1 : s1.base.eu = s.base.eu := fr1.eu
  have heu2 : s2.base.eu = s.base.eu := by rw [fr2.eu, fr1.eu]
  have hmode3 : s3.base.mode = .normal := by rw [e_mode, fr2.mode, fr1.mode]
  have hwu3 : s3.base.wu = s.base.wu := by rw [e_wu, fr2.wu, fr1.wu]
  have hlive2 : LiveEu s2.base := by
    unfold LiveEu; rw [heu2]; exact ⟨hlv.live.euRem hm, hlv.live.euRemP hm⟩
  have hbtbOk2 : BtbOk app s2.btb := by rw [hbtb2, hbtb1]; exact hlv.btb
  have hcm : Model.Mvp5.cycleM app s = Model.Mvp5.afterExecute s3 out := by
    unfold Model.Mvp5.cycleM; simp only [hm, h1, h2, h3, bind, Except.bind]
  rw [hcm]
  -- the front-end part of `Live5` after the execute stage
  have hfront3 : out ≠ .err → Proofs.Mvp3.IWf 64 s3.base.mmu.l1i ∧
      (s3.base.fu.processing = true → 1 ≤ s3.base.fu.remainingCycles) ∧
      s3.base.fu.pc.toNat ≤ 4 * app.instrs.length + 4 ∧
      (∀ pc ∈ s3.base.decodeBus.inside, ∃ i, instrAt app pc = .ok i) ∧ BtbOk app s3.btb := by
    intro hne
    obtain ⟨f1, f2, f3, f4⟩ := hfb hne
    refine ⟨by rw [hl1i, hmmu2]; exact hiwf1, by rw [f1, f2, hfu2]; exact hfr1, ?_, by rw [f3]; exact hd2, ?_⟩
    · rcases f4 with ⟨_, hpc | ⟨e, he, hpc⟩⟩ | ⟨a', c, pc0, hst, hpc, _⟩
      · rw [hpc, hfu2]; exact hpc1
      · rw [hpc]; have := hbtbOk2 e he; omega
      · rw [hpc]; have := hnext a' c hst; omega
    · rcases f4 with ⟨hbt, _⟩ | ⟨a', c, pc0, hst, _, hbt⟩
      · rw [hbt]; exact hbtbOk2
      · rw [hbt]; exact btbAdd_ok hbtbOk2 _ _ (hnext a' c hst)
  cases out with
  | err => exact ⟨s3, .done .err, rfl, trivial⟩
  | none =>
    obtain ⟨hiwf3, hfurem3, hfupc3, hdbus3, hbtb3⟩ := hfront3 (fun h => by cases h)
    rcases hpost with ⟨hb3, hn3, hst, _⟩ | ⟨a', c, hstep, hb3, hn3, hproc3, hpend3, _⟩
    · -- nothing executed
      have hst := hst hlive2
      obtain ⟨b4, hw4, h4, hwc4, hWle, hWlt, hWid⟩ := writeCycle5_live hb3 (by rw [hwu3]; exact hlv.live.wuCyc)
      obtain ⟨_, _, _, hb4, hnimp⟩ := writeCycle5_rel (app := app) hb3 h4
      have hn4 := hnimp hn3
      obtain ⟨_, g_fu, g_db, g_eb, g_eu, _, g_mmu, g_mode, _, _, _⟩ := writeCycle_back hb3 hw4
      have hmode4 : b4.mode = .normal := by rw [g_mode]; exact hmode3
      have hW3 : wW s3.base.wu s3.base.writeBus = wW s.base.wu s.base.writeBus := by
        rw [hwu3, hst.writeBus, fr2.writeBus, fr1.writeBus]
      have hlive4 : Live5 app { s3 with base := b4 } :=
        { live := live_of_parts (by rw [g_mmu]; exact hiwf3) (by rw [g_fu]; exact hfurem3) hwc4
            (fun _ => by rw [g_eu]; exact hst.euRem) (fun _ => by rw [g_eu]; exact hst.euRemP)
            (by rw [g_db]; exact hdbus3) (by rw [g_fu]; exact hfupc3) (fun hx => absurd hmode4 hx),
          btb := hbtb3 }
      have hphi4 : ∃ fw4, phi5 app { s3 with base := b4 } = wW b4.wu b4.writeBus + euPart s3.base fw4 ∧
          (s3.toCleanPending = false → fw4 = frontW app s3.base.executeBus s3.base.decodeBus s3.base.fu) := by
        refine ⟨frontW5 app { s3 with base := b4 }, ?_, ?_⟩
        · unfold phi5
          show (match b4.mode with
            | .normal => wW b4.wu b4.writeBus + euPart b4 (frontW5 app { s3 with base := b4 })
            | .drainRet => wW b4.wu b4.writeBus
            | .drainFlush _ => 2000 + wW b4.wu b4.writeBus) = _
          rw [hmode4]
          show _ + euPart b4 _ = _
          rw [euPart_eu g_eu]
        · intro htc
          unfold frontW5 dBus
          show frontW app b4.executeBus (if s3.toCleanPending = true then b4.decodeBus.clean else b4.decodeBus) b4.fu = _
          rw [htc, g_eb, g_db, g_fu]; rfl
      obtain ⟨fw4, hphi4, hfw4⟩ := hphi4
      have hphi0 : phi5 app s = wW s.base.wu s.base.writeBus + euPart s.base (frontW5 app s) := by
        unfold phi5; rw [hm]
      have e2 : ∀ fw, euPart s2.base fw = euPart s.base fw := fun fw => euPart_eu heu2 fw
      -- the execute unit's share against the share at the start of the tick
      have hmeas : euPart s3.base fw4 < euPart s.base (frontW5 app s) ∨
          (euPart s3.base fw4 ≤ euPart s.base (frontW5 app s) ∧ Model.Mvp4.drainCond s3.base = true) ∨
          (euPart s3.base fw4 ≤ euPart s.base (frontW5 app s) ∧ Model.Mvp4.drainCond s3.base = false ∧
            Model.Mvp4.isComplete b4 = true) := by
        have hdc_of_ne : s2.base.writeBus.isEmpty = false → Model.Mvp4.drainCond s3.base = true := by
          intro hne
          unfold Model.Mvp4.drainCond
          rw [hst.writeBus, hne]; simp
        rcases hst.meas with m | ⟨m1, m2⟩ | ⟨m1, m2, m3, m4, m5, m6, m7, m8, m9⟩
        · left; rw [← e2]; exact m _ _
        · right; left; exact ⟨by rw [← e2]; exact m1 _ _, hdc_of_ne m2⟩
        · -- idle, nothing taken: the front end must have moved
          have hproc0 : s.base.eu.processing = false := by rw [← heu2]; exact m1
          have hpend0 : s.base.eu.pendingMemoryRead = false := by rw [← heu2]; exact m2
          have e0 : euPart s.base (frontW5 app s) = 500 + frontW5 app s := by
            unfold euPart; simp only [hproc0, hpend0, Bool.false_eq_true, if_false]
          have htc3 : s3.toCleanPending = false := by rw [m8]; exact htc2'
          have e3 : euPart s3.base fw4 = 500 + frontW app s3.base.executeBus s2.base.decodeBus s2.base.fu := by
            unfold euPart; rw [m3, heu2, hfw4 htc3, m7, m6]; simp only [hproc0, hpend0, Bool.false_eq_true, if_false]
          -- a stalled decode unit has its jump on the execute bus
          have hF2s' : s1.base.executeBus.current = none → s1.base.executeBus.pending = none →
              (s1.base.decodeBus.current.isSome = true ∨ s1.base.decodeBus.pending.isSome = true) →
              frontW app s2.base.executeBus s2.base.decodeBus s1.base.fu <
                frontW app s1.base.executeBus s1.base.decodeBus s1.base.fu := by
            intro c1 c2 c3
            refine hF2s ?_ c1 c2 c3
            cases hx : s1.duPending with
            | false => rfl
            | true =>
              exfalso
              obtain ⟨l, x, hl, _⟩ := hn1.pendJump hx
              rw [runners_idle (by rw [heu1]; exact hproc0)] at hl
              unfold SimpleBus.inside at hl
              rw [c1, c2] at hl
              cases l <;> cases hl
          obtain ⟨p1, p2⟩ := front_progress (app := app)
            (s := ({ s.base with decodeBus := dBus { s with base := { s.base with cycles := s.base.cycles + 1, mode := .normal } } } : Model.Mvp4.State))
            (s1 := s1.base) (s2 := s2.base) (E3 := s3.base.executeBus)
            hE1 hcur1 hpend1 hF1 hF1s hF1c hfu2 hE2c hF2 hF2s' hD2e hD2f m4 m5
          have p1' : frontW app s3.base.executeBus s2.base.decodeBus s2.base.fu ≤ frontW5 app s := p1
          rcases p2 with p2 | ⟨q1, q2, q3, q4, q5, q6⟩
          · left; rw [e3, e0]
            have p2' : frontW app s3.base.executeBus s2.base.decodeBus s2.base.fu < frontW5 app s := p2
            omega
          · -- front end empty and complete: the write side moves, or the run is over
            have hle : euPart s3.base fw4 ≤ euPart s.base (frontW5 app s) := by rw [e3, e0]; omega
            by_cases hdc : Model.Mvp4.drainCond s3.base = true
            · right; left; exact ⟨hle, hdc⟩
            · have hdc' : Model.Mvp4.drainCond s3.base = false := by simpa using hdc
              obtain ⟨w1, w2⟩ := hWid hdc'
              right; right
              refine ⟨hle, hdc', isComplete_of ?_ ?_ ?_ ?_ ?_ ?_ ?_ w2⟩
              · rw [g_fu, m6]; exact q2
              · rw [g_eu, m3, heu2]; exact hproc0
              · rw [w1]
                unfold Model.Mvp4.drainCond at hdc'
                simp only [Bool.or_eq_false_iff] at hdc'
                exact hdc'.1
              · rw [g_db, m7]; exact q5
              · rw [g_db, m7]; exact q6
              · rw [g_eb]; exact q3
              · rw [g_eb]; exact q4
      unfold Model.Mvp5.afterExecute
      simp only [h4, bind, Except.bind]
      by_cases hic : Model.Mvp5.isComplete { s3 with base := b4 } = true
      · simp only [hic, if_true]
        obtain ⟨s', hf, hlines⟩ := finish5_ok (s := { s3 with base := b4 }) .offEnd hb4
        exact ⟨s', .done .offEnd, hf, hlines⟩
      · simp only [hic, Bool.false_eq_true, if_false, pure, Except.pure]
        refine ⟨{ s3 with base := b4 }, .running, rfl, Or.inl ⟨⟨hb4, ?_⟩, hlive4, ?_⟩⟩
        · show FrontRel5 app { s3 with base := b4 } a b4.mode
          rw [hmode4]; exact hn4
        · rw [hphi4, hphi0]
          rcases hmeas with m | ⟨m1, m2⟩ | ⟨_, _, m3⟩
          · have := hWle; rw [hW3] at this; omega
          · have := hWlt m2; rw [hW3] at this; omega
          · exact absurd m3 hic
    · -- one instruction executed
      obtain ⟨b4, hw4, h4, hwc4, _, _, _⟩ := writeCycle5_live hb3 (by rw [hwu3]; exact hlv.live.wuCyc)
      obtain ⟨_, _, _, hb4, hnimp⟩ := writeCycle5_rel (app := app) hb3 h4
      have hn4 := hnimp hn3
      obtain ⟨_, g_fu, g_db, g_eb, g_eu, _, g_mmu, g_mode, _, _, _⟩ := writeCycle_back hb3 hw4
      have hmode4 : b4.mode = .normal := by rw [g_mode]; exact hmode3
      have hlive4 : Live5 app { s3 with base := b4 } :=
        { live := live_of_parts (by rw [g_mmu]; exact hiwf3) (by rw [g_fu]; exact hfurem3) hwc4
            (fun _ hx => by rw [g_eu, hproc3] at hx; cases hx) (fun _ hx => by rw [g_eu, hpend3] at hx; cases hx)
            (by rw [g_db]; exact hdbus3) (by rw [g_fu]; exact hfupc3) (fun hx => absurd hmode4 hx),
          btb := hbtb3 }
      unfold Model.Mvp5.afterExecute
      simp only [h4, bind, Except.bind]
      by_cases hic : Model.Mvp5.isComplete { s3 with base := b4 } = true
      · simp only [hic, if_true]
        obtain ⟨s', hf, hlines⟩ := finish5_ok (s := { s3 with base := b4 }) .offEnd hb4
        exact ⟨s', .done .offEnd, hf, hlines⟩
      · simp only [hic, Bool.false_eq_true, if_false, pure, Except.pure]
        refine ⟨{ s3 with base := b4 }, .running, rfl, Or.inr ⟨a', c, hstep, ⟨hb4, ?_⟩, hlive4,
          ⟨fun hx => (by have : b4.mode = .drainRet := hx; rw [hmode4] at this; cases this),
           fun _ => (by show b4.eu.processing = false ∧ b4.eu.pendingMemoryRead = false; rw [g_eu]; exact ⟨hproc3, hpend3⟩)⟩⟩⟩
        show FrontRel5 app { s3 with base := b4 } a' b4.mode
        rw [hmode4]; exact hn4
  | ret =>
    obtain ⟨hiwf3, hfurem3, hfupc3, hdbus3, hbtb3⟩ := hfront3 (fun h => by cases h)
    obtain ⟨hret, hb3, hwb3⟩ := hpost
    obtain ⟨b4, hw4, h4, hwc4, hWle, _, _⟩ := writeCycle5_live hb3 (by rw [hwu3]; exact hlv.live.wuCyc)
    obtain ⟨hb4, g_fu, g_db, g_eb, g_eu, _, g_mmu, g_mode, _, _, _⟩ := writeCycle_back hb3 hw4
    unfold Model.Mvp5.afterExecute
    simp only [h4, bind, Except.bind]
    by_cases hdc : Model.Mvp5.drainCond { s3 with base := b4 } = true
    · simp only [hdc, if_true, pure, Except.pure]
      refine ⟨_, .running, rfl, Or.inl ⟨⟨hb4, hret⟩, ?_, ?_⟩⟩
      · exact { live := live_of_parts (by show Proofs.Mvp3.IWf 64 b4.mmu.l1i; rw [g_mmu]; exact hiwf3)
                  (by show b4.fu.processing = true → _; rw [g_fu]; exact hfurem3) hwc4
                  (fun hx => by cases hx) (fun hx => by cases hx)
                  (by show ∀ pc ∈ b4.decodeBus.inside, _; rw [g_db]; exact hdbus3)
                  (by show b4.fu.pc.toNat ≤ _; rw [g_fu]; exact hfupc3) (fun _ => hdc),
                btb := hbtb3 }
      · have hphi0 : phi5 app s = wW s.base.wu s.base.writeBus + euPart s.base (frontW5 app s) := by
          unfold phi5; rw [hm]
        have hW3 : wW s3.base.wu s3.base.writeBus = wW s.base.wu s.base.writeBus := by
          rw [hwu3, hwb3, fr2.writeBus, fr1.writeBus]
        have hpos : 1 ≤ euPart s.base (frontW5 app s) := by
          unfold euPart
          by_cases hp : s.base.eu.pendingMemoryRead = true
          · simp only [hp, if_true]
            have := (hlv.live.euRemP hm hp).1
            omega
          · simp only [hp, Bool.false_eq_true, if_false]
            split <;> omega
        show wW b4.wu b4.writeBus < phi5 app s
        rw [hphi0]
        rw [hW3] at hWle
        omega
    · have hdc' : Model.Mvp5.drainCond { s3 with base := b4 } = false := by simpa using hdc
      simp only [hdc', Bool.false_eq_true, if_false]
      obtain ⟨s', hf, hlines⟩ := finish5_ok (s := { s3 with base := b4 }) .ret hb4
      exact ⟨s', .done .ret, hf, hret, hlines⟩
  | flush pc =>
    obtain ⟨hiwf3, hfurem3, hfupc3, hdbus3, hbtb3⟩ := hfront3 (fun h => by cases h)
    obtain ⟨a', c, hstep, hpc, hb3, hpend3, hmem3⟩ := hpost
    obtain ⟨b4, hw4, h4, hwc4, _, _, _⟩ := writeCycle5_live hb3 (by rw [hwu3]; exact hlv.live.wuCyc)
    obtain ⟨hb4, g_fu, g_db, g_eb, g_eu, _, g_mmu, g_mode, _, _, _⟩ := writeCycle_back hb3 hw4
    unfold Model.Mvp5.afterExecute
    simp only [h4, bind, Except.bind]
    by_cases hdc : Model.Mvp5.drainCond { s3 with base := b4 } = true
    · simp only [hdc, if_true, pure, Except.pure]
      refine ⟨_, .running, rfl, Or.inr ⟨a', c, hstep, ⟨hb4, ?_⟩, ?_, ⟨fun hx => (nomatch hx), fun hx => (nomatch hx)⟩⟩⟩
      · show a'.pc = pc ∧ b4.eu.pendingMemoryRead = false ∧ b4.eu.memory = none
        rw [g_eu]; exact ⟨hpc, hpend3, hmem3⟩
      · exact { live := live_of_parts (by show Proofs.Mvp3.IWf 64 b4.mmu.l1i; rw [g_mmu]; exact hiwf3)
                  (by show b4.fu.processing = true → _; rw [g_fu]; exact hfurem3) hwc4
                  (fun hx => by cases hx) (fun hx => by cases hx)
                  (by show ∀ pc ∈ b4.decodeBus.inside, _; rw [g_db]; exact hdbus3)
                  (by show b4.fu.pc.toNat ≤ _; rw [g_fu]; exact hfupc3) (fun _ => hdc),
                btb := hbtb3 }
    · have hdc' : Model.Mvp5.drainCond { s3 with base := b4 } = false := by simpa using hdc
      simp only [hdc', Bool.false_eq_true, if_false, pure, Except.pure]
      obtain ⟨hbf, hnf'⟩ := flushAll5_rel (app := app) (s := { s3 with base := b4 }) hb4
        (drainCond_false (s := b4) hdc') hpc (by show b4.eu.pendingMemoryRead = false; rw [g_eu]; exact hpend3)
        (by show b4.eu.memory = none; rw [g_eu]; exact hmem3)
      have hmodef : (Model.Mvp5.flushAll { s3 with base := b4 } pc).base.mode = .normal := by
        show b4.mode = _; rw [g_mode]; exact hmode3
      refine ⟨_, .running, rfl, Or.inr ⟨a', c, hstep, ⟨hbf, by rw [hmodef]; exact hnf'⟩, ?_,
        ⟨fun hx => (by rw [hmodef] at hx; cases hx),
         fun _ => ⟨rfl, (by show b4.eu.pendingMemoryRead = false; rw [g_eu]; exact hpend3)⟩⟩⟩⟩
      exact { live := live_of_parts (by show Proofs.Mvp3.IWf 64 b4.mmu.l1i; rw [g_mmu]; exact hiwf3)
                (fun hx => by simp [Model.Mvp5.flushAll, Model.Mvp4.flushAll, Model.Mvp4.FetchUnit.flush] at hx) hwc4
                (fun _ hx => by cases hx)
                (fun _ hx => by
                  have : b4.eu.pendingMemoryRead = true := hx
                  rw [g_eu, hpend3] at this; cases this)
                (fun pc' hx => by
                  have : pc' ∈ b4.decodeBus.flush.inside := hx
                  rw [bus_flush_inside] at this; cases this)
                (by
                  show pc.toNat ≤ _
                  rw [← hpc]
                  have := hnext a' c hstep
                  omega)
                (fun hx => absurd hmodef hx),
              btb := hbtb3 }


theorem cycleM5_live_drainRet {app : App} {s : State} {a : Arch} (hm : s.base.mode = .drainRet) (hR : Rel5 app s a)
    (hlv : Live5 app s) : ∃ s' ev, Model.Mvp5.cycleM app s = .ok (s', ev) ∧ LivePost5 app s a s' ev := by
  have hret : ∃ c, stepArch dc app a = .halt .ret c := by have := hR.front; rw [hm] at this; exact this
  have hdc0 : Model.Mvp4.drainCond s.base = true := hlv.live.drain (by rw [hm]; intro h; cases h)
  obtain ⟨b4, hw4, h4, hwc4, _, hWlt, _⟩ := writeCycle5_live hR.back hlv.live.wuCyc
  obtain ⟨hb4, g_fu, g_db, g_eb, g_eu, _, g_mmu, g_mode, _, _, _⟩ := writeCycle_back hR.back hw4
  have hmode4 : b4.mode = .drainRet := by rw [g_mode]; exact hm
  unfold Model.Mvp5.cycleM
  simp only [hm, h4, bind, Except.bind]
  by_cases hdc : Model.Mvp5.drainCond { s with base := b4 } = true
  · simp only [hdc, if_true, pure, Except.pure]
    refine ⟨_, .running, rfl, Or.inl ⟨⟨hb4, ?_⟩, ?_, ?_⟩⟩
    · show FrontRel5 app { s with base := b4 } a b4.mode
      rw [hmode4]; exact hret
    · exact { live := live_of_parts (by rw [g_mmu]; exact hlv.live.iwf) (by rw [g_fu]; exact hlv.live.fuRem) hwc4
                (fun hx => by rw [hmode4] at hx; cases hx) (fun hx => by rw [hmode4] at hx; cases hx)
                (by rw [g_db]; exact hlv.live.dbus) (by rw [g_fu]; exact hlv.live.fuPc) (fun _ => hdc),
              btb := hlv.btb }
    · unfold phi5
      show (match b4.mode with
            | .normal => wW b4.wu b4.writeBus + euPart b4 (frontW5 app { s with base := b4 })
            | .drainRet => wW b4.wu b4.writeBus
            | .drainFlush _ => 2000 + wW b4.wu b4.writeBus) < _
      rw [hmode4, hm]; exact hWlt hdc0
  · have hdc' : Model.Mvp5.drainCond { s with base := b4 } = false := by simpa using hdc
    simp only [hdc', Bool.false_eq_true, if_false]
    obtain ⟨s', hf, hlines⟩ := finish5_ok (s := { s with base := b4 }) .ret hb4
    exact ⟨s', .done .ret, hf, hret, hlines⟩

theorem cycleM5_live_drainFlush {app : App} {s : State} {a : Arch} {pc : Word} (hm : s.base.mode = .drainFlush pc)
    (hR : Rel5 app s a) (hlv : Live5 app s) (hapc : a.pc.toNat ≤ 4 * app.instrs.length) :
    ∃ s' ev, Model.Mvp5.cycleM app s = .ok (s', ev) ∧ LivePost5 app s a s' ev := by
  have hfr : a.pc = pc ∧ s.base.eu.pendingMemoryRead = false ∧ s.base.eu.memory = none := by
    have := hR.front; rw [hm] at this; exact this
  obtain ⟨hpc, hpe, hmem⟩ := hfr
  have hdc0 : Model.Mvp4.drainCond s.base = true := hlv.live.drain (by rw [hm]; intro h; cases h)
  obtain ⟨b4, hw4, h4, hwc4, _, hWlt, _⟩ :=
    writeCycle5_live (s := { s with base := { s.base with cycles := s.base.cycles + 1, mode := .drainFlush pc } }) (a := a)
      hR.back hlv.live.wuCyc
  obtain ⟨hb4, g_fu, g_db, g_eb, g_eu, _, g_mmu, g_mode, _, _, _⟩ :=
    writeCycle_back (s := { s.base with cycles := s.base.cycles + 1, mode := .drainFlush pc }) (a := a) hR.back hw4
  have hmode4 : b4.mode = .drainFlush pc := g_mode
  unfold Model.Mvp5.cycleM
  simp only [hm, h4, bind, Except.bind]
  by_cases hdc : Model.Mvp5.drainCond { s with base := b4 } = true
  · simp only [hdc, if_true, pure, Except.pure]
    refine ⟨_, .running, rfl, Or.inl ⟨⟨hb4, ?_⟩, ?_, ?_⟩⟩
    · show FrontRel5 app { s with base := b4 } a b4.mode
      rw [hmode4]
      show a.pc = pc ∧ b4.eu.pendingMemoryRead = false ∧ b4.eu.memory = none
      rw [g_eu]; exact ⟨hpc, hpe, hmem⟩
    · exact { live := live_of_parts (by rw [g_mmu]; exact hlv.live.iwf) (by rw [g_fu]; exact hlv.live.fuRem) hwc4
                (fun hx => by rw [hmode4] at hx; cases hx) (fun hx => by rw [hmode4] at hx; cases hx)
                (by rw [g_db]; exact hlv.live.dbus) (by rw [g_fu]; exact hlv.live.fuPc) (fun _ => hdc),
              btb := hlv.btb }
    · unfold phi5
      show (match b4.mode with
            | .normal => wW b4.wu b4.writeBus + euPart b4 (frontW5 app { s with base := b4 })
            | .drainRet => wW b4.wu b4.writeBus
            | .drainFlush _ => 2000 + wW b4.wu b4.writeBus) < _
      rw [hmode4, hm]
      have hlt : wW b4.wu b4.writeBus < wW s.base.wu s.base.writeBus := hWlt hdc0
      show 2000 + wW b4.wu b4.writeBus < 2000 + wW s.base.wu s.base.writeBus
      omega
  · have hdc' : Model.Mvp5.drainCond { s with base := b4 } = false := by simpa using hdc
    simp only [hdc', Bool.false_eq_true, if_false, pure, Except.pure]
    obtain ⟨hbf, hnf'⟩ := flushAll5_rel (app := app) (s := { s with base := b4 }) hb4 (drainCond_false (s := b4) hdc') hpc
      (by show b4.eu.pendingMemoryRead = false; rw [g_eu]; exact hpe) (by show b4.eu.memory = none; rw [g_eu]; exact hmem)
    have hwu4 : b4.wu.pendingMemoryWrite = false := by
      have hdc'' : Model.Mvp4.drainCond b4 = false := hdc'
      unfold Model.Mvp4.drainCond at hdc''
      simp only [Bool.or_eq_false_iff] at hdc''
      exact hdc''.1
    refine ⟨_, .running, rfl, Or.inl ⟨⟨hbf, ?_⟩, ?_, ?_⟩⟩
    · show NormalOk5 app { Model.Mvp5.flushAll { s with base := b4 } pc with base := { (Model.Mvp5.flushAll { s with base := b4 } pc).base with mode := .normal } } a
      exact hnf'.transfer rfl rfl rfl hnf'.complete hnf'.euRunner hnf'.idle
        (fun hp => by
          obtain ⟨r, hr, hj, hpo⟩ := hnf'.pend hp
          exact ⟨r, hr, hj, hpo.transfer rfl rfl rfl rfl⟩) hnf'.nomem
    · exact { live := live_of_parts (by show Proofs.Mvp3.IWf 64 b4.mmu.l1i; rw [g_mmu]; exact hlv.live.iwf)
                (fun hx => by simp [Model.Mvp5.flushAll, Model.Mvp4.flushAll, Model.Mvp4.FetchUnit.flush] at hx) hwc4
                (fun _ hx => by cases hx)
                (fun _ hx => by
                  have : b4.eu.pendingMemoryRead = true := hx
                  rw [g_eu, hpe] at this; cases this)
                (fun pc' hx => by
                  have : pc' ∈ b4.decodeBus.flush.inside := hx
                  rw [bus_flush_inside] at this; cases this)
                (by show pc.toNat ≤ _; rw [← hpc]; omega)
                (fun hx => absurd rfl hx),
              btb := hlv.btb }
    · -- after the flush the measure is small
      have e1 : phi5 app s = 2000 + wW s.base.wu s.base.writeBus := by unfold phi5; rw [hm]
      have hp2 : b4.eu.pendingMemoryRead = false := by rw [g_eu]; exact hpe
      have e2 : ∃ fw, fw ≤ 5 + (3 + Gen.Latency.MemoryAccess.toNat) ∧
          phi5 app { Model.Mvp5.flushAll { s with base := b4 } pc with base := { (Model.Mvp5.flushAll { s with base := b4 } pc).base with mode := .normal } } =
          wW b4.wu b4.writeBus.flush + (500 + fw) := by
        refine ⟨frontW app b4.executeBus.flush (if s.toCleanPending = true then b4.decodeBus.flush.clean else b4.decodeBus.flush) (b4.fu.flush pc), ?_, ?_⟩
        · have hF := frontW_le_five (app := app) b4.executeBus.flush
            (if s.toCleanPending = true then b4.decodeBus.flush.clean else b4.decodeBus.flush) (b4.fu.flush pc)
          have hfw := fuW_le app (b4.fu.flush pc) rfl
          omega
        · unfold phi5 euPart frontW5 dBus
          simp only [Model.Mvp5.flushAll, Model.Mvp4.flushAll, hp2, Bool.false_eq_true, if_false]
      obtain ⟨fw, hfw, e2⟩ := e2
      rw [e1, e2]
      have hw0 : wW b4.wu b4.writeBus.flush = 0 := wW_zero hwu4 rfl
      have : Gen.Latency.MemoryAccess.toNat ≤ 399 := by decide
      omega

/-- **every tick of MVP-5 is total and makes progress** (all modes): along a run whose unpipelined counterpart
neither panics nor leaves the program, a tick of MVP-5 never panics, keeps the simulation relation and the liveness
invariants, and either executes one instruction or strictly decreases the measure `phi5`. -/
theorem cycle5_live {app : App} {s : State} {a : Arch} (hsmall : app.instrs.length < 250)
    (hR : Rel5 app s a) (hlv : Live5 app s) (hnf : NoFwd app) (hok : Model.Mvp4.stepOk app a = true)
    (hgood : SeqGood app a) (hapc : a.pc.toNat ≤ 4 * app.instrs.length)
    (hnext : ∀ a' c, stepArch dc app a = .next a' c → a'.pc.toNat ≤ 4 * app.instrs.length) :
    ∃ s' ev, Model.Mvp5.cycle app s = (s', ev) ∧ LivePost5 app s a s' ev := by
  have key : ∃ s' ev, Model.Mvp5.cycleM app s = .ok (s', ev) ∧ LivePost5 app s a s' ev := by
    cases hm : s.base.mode with
    | normal => exact cycleM5_live_normal hsmall hm hR hlv hnf hok hgood hnext
    | drainRet => exact cycleM5_live_drainRet hm hR hlv
    | drainFlush pc => exact cycleM5_live_drainFlush hm hR hlv hapc
  obtain ⟨s', ev, h1, h2⟩ := key
  refine ⟨s', ev, ?_, h2⟩
  unfold Model.Mvp5.cycle; rw [h1]


/-! ### the run ends -/

/-- the run ends, within some budget, and not with a panic -/
def Ends5 (app : App) (s : State) (n : Nat) : Prop :=
  ∃ ticks hk, (Model.Mvp5.runFrom app ticks s n).halt = some hk ∧ ∀ w, hk ≠ .panic w

theorem ends5_of_running {app : App} {s s' : State} {n : Nat} (h : Model.Mvp5.cycle app s = (s', .running))
    (he : Ends5 app s' (n + 1)) : Ends5 app s n := by
  obtain ⟨t, hk, h1, h2⟩ := he
  refine ⟨t + 1, hk, ?_, h2⟩
  unfold Model.Mvp5.runFrom; simp only [h]; exact h1

theorem ends5_of_done {app : App} {s s' : State} {n : Nat} {hk : Halt} (h : Model.Mvp5.cycle app s = (s', .done hk))
    (hnp : ∀ w, hk ≠ .panic w) : Ends5 app s n := by
  refine ⟨1, hk, ?_, hnp⟩
  unfold Model.Mvp5.runFrom; simp only [h]

/-- the inner induction: while the architectural state stays `a`, the measure decreases; when it moves on, the
continuation `hcont` takes over -/
theorem ends5_at {app : App} (hsmall : app.instrs.length < 250) (hnf : NoFwd app) (a : Arch)
    (hok : Model.Mvp4.stepOk app a = true) (hgood : SeqGood app a) (hapc : a.pc.toNat ≤ 4 * app.instrs.length)
    (hnext : ∀ a' c, stepArch dc app a = .next a' c → a'.pc.toNat ≤ 4 * app.instrs.length)
    (hcont : ∀ a' c s' n, stepArch dc app a = .next a' c → Rel5 app s' a' → Live5 app s' → Ends5 app s' n) :
    ∀ (k : Nat) (s : State) (n : Nat), phi5 app s ≤ k → Rel5 app s a → Live5 app s → Ends5 app s n := by
  intro k
  induction k with
  | zero =>
    intro s n hk hR hlv
    obtain ⟨s', ev, hc, hpost⟩ := cycle5_live hsmall hR hlv hnf hok hgood hapc hnext
    cases ev with
    | running =>
      rcases hpost with ⟨_, _, hlt⟩ | ⟨a1, c, hst, hR', hlv', _⟩
      · omega
      · exact ends5_of_running hc (hcont a1 c s' (n + 1) hst hR' hlv')
    | done hk' =>
      cases hk' with
      | panic w => exact hpost.elim
      | ret => exact ends5_of_done hc (fun w h => by cases h)
      | offEnd => exact ends5_of_done hc (fun w h => by cases h)
      | err => exact ends5_of_done hc (fun w h => by cases h)
  | succ k ih =>
    intro s n hk hR hlv
    obtain ⟨s', ev, hc, hpost⟩ := cycle5_live hsmall hR hlv hnf hok hgood hapc hnext
    cases ev with
    | running =>
      rcases hpost with ⟨hR', hlv', hlt⟩ | ⟨a1, c, hst, hR', hlv', _⟩
      · exact ends5_of_running hc (ih s' (n + 1) (by omega) hR' hlv')
      · exact ends5_of_running hc (hcont a1 c s' (n + 1) hst hR' hlv')
    | done hk' =>
      cases hk' with
      | panic w => exact hpost.elim
      | ret => exact ends5_of_done hc (fun w h => by cases h)
      | offEnd => exact ends5_of_done hc (fun w h => by cases h)
      | err => exact ends5_of_done hc (fun w h => by cases h)

/-- the outer induction over the steps of the specification run -/
theorem ends5_of_spec (app : App) (hw : Proofs.Refine.WfApp app) :
    ∀ (fuel : Nat) (ctx : Model.Context) (m : Spec.Machine) (pc : Word) (k : Nat) (tr : Array Spec.Event),
      Proofs.Refine.Rel ctx m → m.mem.size + 64 ≤ 2 ^ 31 → pc.toNat ≤ 4 * app.instrs.length →
      (∀ why, (Spec.run.go (Proofs.Refine.specProg app) fuel pc m k tr).stop ≠ .notWf why) →
      ∀ (s : State) (n : Nat), Rel5 app s ⟨ctx, pc⟩ → Live5 app s → Ends5 app s n := by
  intro fuel
  induction fuel with
  | zero =>
    intro ctx m pc k tr _ _ _ hwf
    exact absurd rfl (hwf "fuel exhausted")
  | succ fuel ih =>
    intro ctx m pc k tr hR hsz hpc hwf s n hRel hlv
    have hok : Model.Mvp4.stepOk app ⟨ctx, pc⟩ = true :=
      stepOk_of_seqOk_one (seqOk_of_spec_go app hw (fuel + 1) ctx m pc k tr 1 hR hsz hpc hwf)
    obtain ⟨hnext, hoff, hret, herr⟩ := Proofs.Refine.step_sim dc app hw ctx m hR pc hpc
    unfold Spec.run.go at hwf
    cases hs : Spec.step (Proofs.Refine.specProg app) pc m with
    | inl st =>
      rw [hs] at hwf
      simp only at hwf
      have hhalt : ∃ h c, stepArch dc app ⟨ctx, pc⟩ = .halt h c ∧ ∀ w, h ≠ .panic w := by
        cases st with
        | ret => obtain ⟨c, hc⟩ := hret hs; exact ⟨_, c, hc, fun w h => by cases h⟩
        | offEnd => obtain ⟨c, hc⟩ := hoff hs; exact ⟨_, c, hc, fun w h => by cases h⟩
        | error e => obtain ⟨c, hc⟩ := herr e hs; exact ⟨_, c, hc, fun w h => by cases h⟩
        | notWf w => exact absurd rfl (hwf w)
      obtain ⟨h, c, hc, hnp⟩ := hhalt
      refine ends5_at hw.small hw.nofwd ⟨ctx, pc⟩ hok ?_ hpc ?_ ?_ (phi5 app s) s n (Nat.le_refl _) hRel hlv
      · intro w c' hx; rw [hc] at hx; injection hx with hx _; exact hnp w hx
      · intro a' c' hx; rw [hc] at hx; cases hx
      · intro a' c' s' n' hx; rw [hc] at hx; cases hx
    | inr x =>
      obtain ⟨pc', m', ev⟩ := x
      rw [hs] at hwf
      simp only at hwf
      obtain ⟨ctx', c, hc, hR', hpc'⟩ := hnext pc' m' ev hs
      refine ends5_at hw.small hw.nofwd ⟨ctx, pc⟩ hok ?_ hpc ?_ ?_ (phi5 app s) s n (Nat.le_refl _) hRel hlv
      · intro w c' hx; rw [hc] at hx; cases hx
      · intro a' c' hx
        rw [hc] at hx; injection hx with hx _; subst hx; exact hpc'
      · intro a' c' s' n' hx hRel' hlv'
        rw [hc] at hx; injection hx with hx _; subst hx
        exact ih ctx' m' pc' _ _ hR' (by rw [Proofs.Mvp3Spec.step_size _ _ _ _ _ _ hs]; exact hsz) hpc' hwf s' n' hRel' hlv'

/-- the liveness invariants hold in the initial state -/
theorem init5_live (app : App) (ctx : Model.Context) :
    ∃ s0, Model.Mvp5.init ctx = .ok s0 ∧ Live5 app s0 := by
  obtain ⟨b0, hinit, hlv⟩ := init_live app ctx
  refine ⟨{ base := b0 }, ?_, ⟨hlv, fun e he => (nomatch he)⟩⟩
  unfold Model.Mvp5.init
  simp only [constsAgree_true, Bool.not_true, Bool.false_eq_true, if_false, hinit, bind, Except.bind, pure, Except.pure]

/-- **MVP-5 terminates without panic** whenever the specification run is well-formed and ends within its fuel -/
theorem mvp5_terminates (app : App) (hw : Proofs.Refine.WfApp app) (ctx : Model.Context) (m : Spec.Machine)
    (hR : Proofs.Refine.Rel ctx m) (hsz : m.mem.size + 64 ≤ 2 ^ 31)
    (hpw : ∀ r, GoMap.get1 ctx.PendingWriteRegisters r = 0) (fuel : Nat)
    (hwf : ∀ why, (Spec.run (Proofs.Refine.specProg app) m fuel).stop ≠ .notWf why) :
    ∃ ticks hk, (Model.Mvp5.run app ctx ticks).halt = some hk ∧ ∀ w, hk ≠ .panic w := by
  obtain ⟨s0, hinit, hRel, _, _⟩ := init5_rel app ctx ⟨hR.rat, hR.tx, hpw⟩
  obtain ⟨s0', hinit', hlv⟩ := init5_live app ctx
  have : s0' = s0 := by rw [hinit] at hinit'; injection hinit' with h; exact h.symm
  subst this
  unfold Spec.run at hwf
  have hsz' : ¬ (Proofs.Refine.specProg app).instrs.size ≥ 250 := by
    have := hw.small
    simp [Proofs.Refine.specProg]; omega
  simp only [hsz', if_false] at hwf
  obtain ⟨t, hk, h1, h2⟩ := ends5_of_spec app hw fuel ctx m 0#32 0 #[] hR hsz (by simp) hwf s0' 0 hRel hlv
  refine ⟨t, hk, ?_, h2⟩
  unfold Model.Mvp5.run; rw [hinit]; exact h1

end Proofs.Mvp5

/-
  Proofs/Mvp3.lean — the cycle-accurate model of MVP-3 (Model/Mvp3.lean) simulates the
  cache-less machine `Model.Seq.stepArch` step by step: same halt kind, same registers,
  and the pair (ctx.Memory, L1D) stays coherent (`Proofs.Mmu.Coh`) with the cache-less
  machine's flat memory; the final `flush` makes `ctx.Memory` that flat memory.
  Hypothesis: every access of the cache-less run is in bounds and inside one cache line
  (`Model.Mvp3.accessesOk`, decidable, evaluated by the driver as `h3=`).
  Core Lean only.
-/
import MajoranaVerif.Model.Mvp3
import MajoranaVerif.Proofs.Mmu
import MajoranaVerif.Proofs.SeqMachine
open GoInt LineCache

namespace Proofs.Mvp3
open Model.Seq Model.Mmu Model.Mvp3 Proofs.Mmu Proofs.LC

/-! ### the instruction semantics never look at `ctx.Memory` (loaded bytes are passed in) -/

theorem run_mem (i : Gen.Instr) (ctx : Model.Context) (m : List Byte) (l : GoMap String Word) (pc : Word)
    (b : List Byte) (s : Word) : i.run { ctx with Memory := m } l pc b s = i.run ctx l pc b s := by
  cases i <;> rfl

theorem memoryRead_mem (i : Gen.Instr) (ctx : Model.Context) (m : List Byte) (s : Word) :
    i.memoryRead { ctx with Memory := m } s = i.memoryRead ctx s := by
  cases i <;> rfl

/-! ### what is assumed of the constants (proved for `mvp3Config` by evaluation below) -/

structure CfgOk (cfg : Config) (L n Li : Nat) : Prop where
  dline : cfg.l1DLineSize = L
  iline : cfg.l1ILineSize = Li
  Lpos : 0 < L
  npos : 0 < n
  new : ∃ u, Model.Mmu.new cfg = .ok u ∧ u.l1d.lines = [] ∧ u.l1d.lineLength = L ∧ u.l1d.numberOfLines = n ∧
    u.l1i.lines = [] ∧ u.l1i.lineLength = Li

theorem mvp3Config_ok : CfgOk mvp3Config 64 16 64 :=
  { dline := by decide, iline := by decide, Lpos := by decide, npos := by decide,
    new := ⟨_, rfl, rfl, rfl, rfl, rfl, rfl⟩ }

/-! ### the instruction cache: shape invariant, `fetchInstruction` never panics -/

structure IWf (Li : Nat) (c : Cache) : Prop where
  lineLength : c.lineLength = Li
  lines : ∀ l ∈ c.lines, l.hi = wrap32 (l.lo + Li) ∧ -(2 ^ 31) ≤ l.lo ∧ l.data.length = Li

/-- the lines after `PushLine` (with the `int32` upper bound of the new line): old lines, or the new one -/
theorem pushLine_fix_lines (c : Cache) (lo : Int) (d : List Byte) :
    ∀ l ∈ (fixHead (LineCache.pushLine c lo d).2).lines,
      l ∈ c.lines ∨ l = { LineCache.newLine c lo d with hi := wrap32 (LineCache.newLine c lo d).hi } := by
  intro l hl
  unfold LineCache.pushLine at hl
  simp only at hl
  split at hl
  · simp only at hl
    cases hn : c.numberOfLines with
    | zero => simp [hn, fixHead] at hl
    | succ k =>
      simp only [hn, List.take_succ_cons, fixHead] at hl
      rcases List.mem_cons.mp hl with h | h
      · exact Or.inr h
      · exact Or.inl (List.mem_of_mem_take h)
  · simp only [fixHead] at hl
    rcases List.mem_cons.mp hl with h | h
    · exact Or.inr h
    · exact Or.inl h

theorem fixHead_lineLength (c : Cache) : (fixHead c).lineLength = c.lineLength := by
  unfold fixHead; split <;> rfl

theorem pushLine_lineLength (c : Cache) (lo : Int) (d : List Byte) : (LineCache.pushLine c lo d).2.lineLength = c.lineLength := by
  unfold LineCache.pushLine; simp only; split <;> rfl

theorem fetch_ok {cfg : Config} {Li : Nat} (hcfg : cfg.l1ILineSize = Li) {u : Mmu} (hi : IWf Li u.l1i) (pc : Word) :
    ∃ u' f, fetch cfg u pc = .ok (u', f) ∧ u'.l1d = u.l1d ∧ IWf Li u'.l1i ∧
      (f = Gen.Latency.L1Access ∨ f = Gen.Latency.MemoryAccess) := by
  unfold fetch getFromL1I getAll
  cases hs : splitAt pc.toInt u.l1i.lines with
  | none =>
    have hm : LineCache.get u.l1i pc.toInt = .ok (none, u.l1i) := by
      unfold LineCache.get; simp only [hs]; rfl
    have hneg : ¬ (cfg.l1ILineSize < 0) := by rw [hcfg]; omega
    simp only [hm, bind, Except.bind, pure, Except.pure, hneg, if_false]
    refine ⟨_, _, rfl, rfl, ?_, Or.inr rfl⟩
    simp only [pushLineToL1I]
    refine { lineLength := by rw [fixHead_lineLength, pushLine_lineLength]; exact hi.lineLength, lines := ?_ }
    intro l hl
    rcases pushLine_fix_lines _ _ _ l hl with h | h
    · exact hi.lines l h
    · rw [h]
      refine ⟨?_, ?_, ?_⟩
      · show wrap32 (pc.toInt + (u.l1i.lineLength : Int)) = wrap32 (pc.toInt + Li)
        rw [hi.lineLength]
      · show -(2 ^ 31) ≤ pc.toInt
        have := BitVec.le_toInt pc
        simpa using this
      · show (List.replicate cfg.l1ILineSize.toNat 0#8).length = Li
        rw [hcfg]; simp
  | some r =>
    obtain ⟨pre, l, post⟩ := r
    obtain ⟨hsplit, hcov, _⟩ := splitAt_some hs
    have hlm : l ∈ u.l1i.lines := by rw [hsplit]; simp
    obtain ⟨hhi, hlo, hlen⟩ := hi.lines l hlm
    have hc := (Proofs.LC.covers_iff l pc.toInt).mp hcov
    have hle := wrap32_le (l.lo + Li) (by omega)
    have hlt : (pc.toInt - l.lo).toNat < l.data.length := by omega
    have hm : LineCache.get u.l1i pc.toInt = .ok (some l.data[(pc.toInt - l.lo).toNat], { u.l1i with lines := l :: (pre ++ post) }) := by
      unfold LineCache.get Line.at
      simp only [hs, List.getElem?_eq_getElem hlt]; rfl
    simp only [hm, bind, Except.bind, pure, Except.pure]
    refine ⟨_, _, rfl, rfl, ?_, Or.inl rfl⟩
    exact { lineLength := hi.lineLength,
            lines := fun y hy => hi.lines y (by
              rw [hsplit]
              rcases List.mem_cons.mp hy with rfl | hy
              · simp
              · exact mem_middle hy) }

/-! ### the load path of `execute` -/

/-- **load_sees_flat**: under coherence, a load whose addresses are in bounds and in one line returns
exactly the bytes the cache-less machine reads from its flat memory — on a hit and on a miss (after the
fill and a possible victim write-back) — and coherence with the SAME flat memory is kept. -/
theorem load_ok {cfg : Config} {L n : Nat} (hcfg : cfg.l1DLineSize = L) (hL : 0 < L) (hn : 0 < n)
    {u : Mmu} {mem flat : List Byte} (hw : DWf L n u.l1d) (hc : Coh u.l1d.lines mem flat) (addrs : List Word)
    (hok : loadOk L flat.length addrs = true) :
    ∃ bytes u' mem' mr, load cfg u mem addrs = .ok (bytes, u', mem', mr) ∧
      addrs.mapM (readMem flat) = some bytes ∧ u'.l1i = u.l1i ∧ DWf L n u'.l1d ∧ Coh u'.l1d.lines mem' flat ∧
      ((addrs = [] ∧ mr = 0) ∨ (addrs ≠ [] ∧ (mr = Gen.Latency.L1Access ∨ mr = Gen.Latency.L1Access + Gen.Latency.MemoryAccess))) := by
  cases addrs with
  | nil => exact ⟨[], u, mem, 0, rfl, rfl, rfl, hw, hc, Or.inl ⟨rfl, rfl⟩⟩
  | cons a0 as =>
    have h0 := (loadOk_spec hok a0 (by simp)).1
    have hend := (loadOk_spec hok a0 (by simp)).2.2.2
    unfold load
    rcases resident_or_not hL hw a0.toInt h0 with hres | hmiss
    · obtain ⟨bytes, u', hg, h1, h2, h3, _, h5⟩ := getFromL1D_hit hL hw hc a0 as hok hres
      simp only [hg, bind, Except.bind]
      exact ⟨bytes, u', mem, _, rfl, h5, h1, h2, h3, Or.inr ⟨by simp, Or.inl rfl⟩⟩
    · obtain ⟨line, u2, mem2, hf, hp, hi2, hw2, hc2, hres2, _⟩ := fill_ok hcfg hL hn hw hc a0 h0 hmiss hend
      obtain ⟨bytes, u3, hg, h1, h2, h3, _, h5⟩ := getFromL1D_hit hL hw2 hc2 a0 as hok hres2
      simp only [getFromL1D_miss a0 as hmiss, hf, hp, hg, bind, Except.bind]
      exact ⟨bytes, u3, mem2, _, rfl, h5, by rw [h1, hi2], h2, h3, Or.inr ⟨by simp, Or.inr rfl⟩⟩

/-! ### the store path of the write-back -/

theorem store_ok {L n : Nat} (hL : 0 < L) {u : Mmu} {ctx : Model.Context} {flat : List Byte}
    (hw : DWf L n u.l1d) (hc : Coh u.l1d.lines ctx.Memory flat) (e : Gen.Execution)
    (hst : storeOk L flat.length e.MemoryChanges = true) :
    ∃ u' mem' wb, store u ctx e = .ok (u', { ctx with Memory := mem' }, wb) ∧ u'.l1i = u.l1i ∧ DWf L n u'.l1d ∧
      Coh u'.l1d.lines mem' (applyChanges flat e.MemoryChanges) ∧
      (wb = Gen.Latency.L1Access ∨ wb = Gen.Latency.MemoryAccess) := by
  obtain ⟨p, ps, hchs, hcons, hall⟩ := storeOk_spec hst
  have h0 : 0 ≤ p.1.toInt := by
    have := hall p.1 (by rw [hchs]; simp); exact this.1
  unfold store
  rcases resident_or_not hL hw p.1.toInt h0 with hres | hmiss
  · obtain ⟨l, hl, hlb⟩ := hres
    have hres' : ∃ l ∈ u.l1d.lines, ∀ q ∈ e.MemoryChanges, l.lo = base L q.1.toInt :=
      ⟨l, hl, fun q hq => by rw [hlb]; exact ((hall q.1 (List.mem_map_of_mem hq)).2.2.1).symm⟩
    obtain ⟨u1, hd, hi1, hw1, hc1, hperm⟩ := doesExist_hit hL hw hc e hst hres'
    have hres1 : ∃ l ∈ u1.l1d.lines, ∀ q ∈ e.MemoryChanges, l.lo = base L q.1.toInt := by
      obtain ⟨l, hl, hq⟩ := hres'
      exact ⟨l, hperm.mem_iff.mpr hl, hq⟩
    obtain ⟨u2, hwr, hi2, hw2, hc2, _⟩ := write_cached_ok hL hw1 hc1 e hst hres1
    simp only [hd, hwr, bind, Except.bind, if_true]
    exact ⟨u2, ctx.Memory, _, rfl, by rw [hi2, hi1], hw2, hc2, Or.inl rfl⟩
  · have hd := doesExist_miss e p ps hchs hmiss
    have hmiss' : ∀ q ∈ e.MemoryChanges, ∀ y ∈ u.l1d.lines, y.covers q.1.toInt = false := by
      intro q hq y hy
      have hq' := hall q.1 (List.mem_map_of_mem hq)
      cases hcy : y.covers q.1.toInt with
      | false => rfl
      | true =>
        have hyb := ((hw.lines y hy).covers_iff hL _ hq'.1).mp hcy
        have := ((hw.lines y hy).covers_iff hL p.1.toInt h0).mpr (by rw [hyb, hq'.2.2.1])
        rw [hmiss y hy] at this; cases this
    have hcoh := write_uncached_ok hL hw hc e.MemoryChanges hst hmiss'
    have hwm := writeMemory_ok e ctx (fun q hq => by
      have := hall q.1 (List.mem_map_of_mem hq)
      exact ⟨this.1, by rw [hc.len]; exact this.2.1⟩)
    simp only [hd, hwm, bind, Except.bind, Bool.false_eq_true, if_false]
    exact ⟨u, applyChanges ctx.Memory e.MemoryChanges, _, rfl, rfl, hw, hcoh, Or.inr rfl⟩

/-! ### one iteration simulates one iteration of the cache-less machine -/

/-- the simulation relation: same pc, same context except `Memory`, and (Memory, L1D) coherent with the
cache-less machine's memory -/
structure Sim (L n Li : Nat) (s : State) (a : Arch) : Prop where
  pc : s.arch.pc = a.pc
  ctx : s.arch.ctx = { a.ctx with Memory := s.arch.ctx.Memory }
  dwf : DWf L n s.mmu.l1d
  coh : Coh s.mmu.l1d.lines s.arch.ctx.Memory a.ctx.Memory
  iwf : IWf Li s.mmu.l1i

/-- how the costs of an iteration relate: same decode and execute latency; a fetch is an L1 or a memory
access; a memory read costs at most L1 + memory; a write-back at most a memory access -/
def CostRel (dc : Int) (f : Int) (c3 c1 : StepCost) : Prop :=
  (f = Gen.Latency.L1Access ∨ f = Gen.Latency.MemoryAccess) ∧ c3.decode = c1.decode ∧ c3.execute = c1.execute ∧
  0 ≤ c3.memRead ∧ c3.memRead ≤ Gen.Latency.L1Access + Gen.Latency.MemoryAccess ∧
  0 ≤ c3.writeBack ∧ c3.writeBack ≤ Gen.Latency.MemoryAccess ∧
  (c3.decode = 0 ∨ c3.decode = dc) ∧ 0 ≤ c3.execute ∧ c3.execute ≤ 50

def StepRel (L n Li : Nat) (dc : Int) (a : Arch) : Model.Seq.StepResult → Model.Mvp3.StepResult → Prop
  | .next a' c, .next s' f c3 => Sim L n Li s' a' ∧ CostRel dc f c3 c
  | .halt h c, .halt h' s' f c3 => h' = h ∧ Sim L n Li s' a ∧ (h = .offEnd ∨ CostRel dc f c3 c)
  | _, _ => False

/-- the largest execute latency of the table -/
theorem cycles_le (t : Gen.InstructionType) (c : Int) (h : Gen.InstructionType.Cycles t = .ok c) : c ≤ 50 := by
  cases t <;> simp [Gen.InstructionType.Cycles, pure, Except.pure] at h <;> omega

theorem l1_nonneg : 0 ≤ Gen.Latency.L1Access := by decide
theorem mem_nonneg : 0 ≤ Gen.Latency.MemoryAccess := by decide
theorem reg_le_mem : Gen.Latency.RegisterAccess ≤ Gen.Latency.MemoryAccess := by decide
theorem reg_nonneg : 0 ≤ Gen.Latency.RegisterAccess := by decide

theorem step_sim {cfg : Config} {L n Li : Nat} (hcfg : CfgOk cfg L n Li) (dc : Int) (app : App) {s : State} {a : Arch}
    (hs : Sim L n Li s a) (hacc : accessOk L app a = true) :
    StepRel L n Li dc a (stepArch dc app a) (Model.Mvp3.step cfg dc app s) := by
  obtain ⟨⟨sctx, spc⟩, su⟩ := s
  obtain ⟨hpc, hctx, hdwf, hcoh, hiwf⟩ := hs
  simp only at hpc hctx hdwf hcoh hiwf
  subst hpc
  generalize hm3 : sctx.Memory = mem3 at hctx hcoh
  subst hctx
  have hl1 := l1_nonneg
  have hmem := mem_nonneg
  unfold stepArch Model.Mvp3.step
  simp only
  by_cases h1 : Int.tdiv a.pc.toInt 4 < app.instrs.length
  · simp only [h1, not_true_eq_false, if_false]
    obtain ⟨u1, f, hf, hfd, hfi, hfc⟩ := fetch_ok hcfg.iline hiwf a.pc
    simp only [hf]
    have hdwf1 : DWf L n u1.l1d := by rw [hfd]; exact hdwf
    have hcoh1 : Coh u1.l1d.lines mem3 a.ctx.Memory := by rw [hfd]; exact hcoh
    have hsim1 : Sim L n Li ⟨⟨{ a.ctx with Memory := mem3 }, a.pc⟩, u1⟩ a :=
      { pc := rfl, ctx := rfl, dwf := hdwf1, coh := hcoh1, iwf := hfi }
    by_cases h2 : Int.tdiv a.pc.toInt 4 < 0
    · simp only [h2, if_true, StepRel]
      exact ⟨trivial, hsim1, Or.inr ⟨hfc, rfl, rfl, Int.le_refl 0, Int.add_nonneg hl1 hmem, Int.le_refl 0, hmem, Or.inl rfl, Int.le_refl 0, (by decide : (0 : Int) ≤ 50)⟩⟩
    · simp only [h2, if_false]
      cases h3 : app.instrs[(Int.tdiv a.pc.toInt 4).toNat]? with
      | none =>
        simp only [StepRel]
        exact ⟨trivial, hsim1, Or.inr ⟨hfc, rfl, rfl, Int.le_refl 0, Int.add_nonneg hl1 hmem, Int.le_refl 0, hmem, Or.inl rfl, Int.le_refl 0, (by decide : (0 : Int) ≤ 50)⟩⟩
      | some i =>
        simp only
        unfold accessOk at hacc
        simp only [h1, not_true_eq_false, if_false, h2, h3, Bool.and_eq_true] at hacc
        obtain ⟨hlok, hsok⟩ := hacc
        have hmr : i.memoryRead { a.ctx with Memory := mem3 } 0#32 = i.memoryRead a.ctx 0#32 := memoryRead_mem i a.ctx mem3 0#32
        rw [hmr]
        obtain ⟨bytes, u2, mem2, mr, hld, hbytes, hi2, hdwf2, hcoh2, hmrc⟩ :=
          load_ok hcfg.dline hcfg.Lpos hcfg.npos hdwf1 hcoh1 (i.memoryRead a.ctx 0#32) hlok
        simp only [hld, hbytes]
        simp only [hbytes] at hsok
        have hrun := run_mem i a.ctx mem2 app.labels a.pc bytes 0#32
        simp only [hrun]
        have hsim2 : Sim L n Li ⟨⟨{ a.ctx with Memory := mem2 }, a.pc⟩, u2⟩ a :=
          { pc := rfl, ctx := rfl, dwf := hdwf2, coh := hcoh2, iwf := by rw [hi2]; exact hfi }
        have hmr0 : 0 ≤ mr ∧ mr ≤ Gen.Latency.L1Access + Gen.Latency.MemoryAccess := by
          rcases hmrc with ⟨_, h⟩ | ⟨_, h | h⟩ <;> rw [h] <;> omega
        cases h5 : i.run a.ctx app.labels a.pc bytes 0#32 with
        | error fl =>
          cases fl with
          | err msg =>
            simp only [StepRel, faultHalt]
            exact ⟨trivial, hsim2, Or.inr ⟨hfc, rfl, rfl, hmr0.1, hmr0.2, Int.le_refl 0, hmem, Or.inr rfl, Int.le_refl 0, (by decide : (0 : Int) ≤ 50)⟩⟩
          | panic w =>
            simp only [StepRel, faultHalt]
            exact ⟨trivial, hsim2, Or.inr ⟨hfc, rfl, rfl, hmr0.1, hmr0.2, Int.le_refl 0, hmem, Or.inr rfl, Int.le_refl 0, (by decide : (0 : Int) ≤ 50)⟩⟩
        | ok e =>
          simp only [h5] at hsok
          cases h6 : Gen.InstructionType.Cycles i.instructionType with
          | error fl =>
            simp only [StepRel]
            exact ⟨trivial, hsim2, Or.inr ⟨hfc, rfl, rfl, hmr0.1, hmr0.2, Int.le_refl 0, hmem, Or.inr rfl, Int.le_refl 0, (by decide : (0 : Int) ≤ 50)⟩⟩
          | ok ex =>
            simp only
            have hex0 : 0 ≤ ex := Int.le_of_lt (Proofs.Seq.cycles_pos _ _ h6)
            have hex50 : ex ≤ 50 := cycles_le _ _ h6
            by_cases h7 : e.Return = true
            · simp only [h7, if_true, StepRel]
              exact ⟨trivial, hsim2, Or.inr ⟨hfc, rfl, rfl, hmr0.1, hmr0.2, Int.le_refl 0, hmem, Or.inr rfl, hex0, hex50⟩⟩
            · simp only [h7]
              by_cases h8 : e.RegisterChange = true
              · simp only [h8, if_true, StepRel]
                refine ⟨?_, hfc, rfl, rfl, hmr0.1, hmr0.2, reg_nonneg, reg_le_mem, Or.inr rfl, hex0, hex50⟩
                exact { pc := rfl, ctx := rfl, dwf := hdwf2, coh := hcoh2, iwf := by rw [hi2]; exact hfi }
              · simp only [h8]
                by_cases h9 : e.MemoryChange = true
                · simp only [h9, if_true]
                  have h7' : e.Return = false := by simpa using h7
                  have h8' : e.RegisterChange = false := by simpa using h8
                  simp only [h7', h8', h9, Bool.not_false, and_self, if_true] at hsok
                  obtain ⟨u3, mem', wb, hst, hi3, hdwf3, hcoh3, hwb⟩ :=
                    store_ok (ctx := { a.ctx with Memory := mem2 }) hcfg.Lpos hdwf2 hcoh2 e hsok
                  simp only at hst
                  obtain ⟨p, ps, hchs, _, hall⟩ := storeOk_spec hsok
                  have hwm := writeMemory_ok e a.ctx (fun q hq => by
                    have := hall q.1 (List.mem_map_of_mem hq)
                    exact ⟨this.1, this.2.1⟩)
                  simp only [hst, hwm, StepRel]
                  refine ⟨?_, hfc, rfl, rfl, hmr0.1, hmr0.2, ?_, ?_, Or.inr rfl, hex0, hex50⟩
                  · exact { pc := rfl, ctx := rfl, dwf := hdwf3, coh := hcoh3, iwf := by rw [hi3, hi2]; exact hfi }
                  · rcases hwb with h | h <;> rw [h] <;> omega
                  · rcases hwb with h | h <;> rw [h]
                    · exact Proofs.Seq.l1_le_mem
                    · exact Int.le_refl _
                · simp only [h9, StepRel]
                  exact ⟨{ pc := rfl, ctx := rfl, dwf := hdwf2, coh := hcoh2, iwf := by rw [hi2]; exact hfi },
                    hfc, rfl, rfl, hmr0.1, hmr0.2, Int.le_refl 0, hmem, Or.inr rfl, hex0, hex50⟩
  · simp only [h1, not_false_eq_true, if_true, StepRel]
    exact ⟨trivial, { pc := rfl, ctx := rfl, dwf := hdwf, coh := hcoh, iwf := hiwf }, Or.inl trivial⟩

/-! ### whole runs -/

/-- what the final results of the two machines have in common -/
structure FinalRel (L n : Nat) (r3 : Model.Mvp3.Result) (r1 : Model.Seq.Result) : Prop where
  halt : r3.halt = r1.halt
  steps : r3.steps = r1.steps
  pc : r3.final.pc = r1.final.pc
  ctx : r3.final.ctx = { r1.final.ctx with Memory := r3.final.ctx.Memory }
  dwf : DWf L n r3.mmu.l1d
  coh : Coh r3.mmu.l1d.lines r3.final.ctx.Memory r1.final.ctx.Memory
  flushed : (r1.halt = some .ret ∨ r1.halt = some .offEnd) → r3.final.ctx.Memory = r1.final.ctx.Memory

/-- `finish` under the simulation relation: the flush succeeds, memory becomes the flat memory -/
theorem finish_sim {cfg : Config} {L n Li : Nat} (hcfg : CfgOk cfg L n Li) {s : State} {a : Arch} (hs : Sim L n Li s a)
    (h : Halt) (cyc : Int) (k : Nat) :
    finish cfg h s cyc k =
      { halt := some h, final := { s.arch with ctx := { s.arch.ctx with Memory := a.ctx.Memory } }, mmu := s.mmu,
        cycles := cyc + s.mmu.l1d.lines.length * Gen.Latency.MemoryAccess, steps := k } := by
  unfold finish
  rw [flush_ok hcfg.dline hcfg.Lpos hs.dwf hs.coh]

theorem finish_rel {cfg : Config} {L n Li : Nat} (hcfg : CfgOk cfg L n Li) {s : State} {a : Arch} (hs : Sim L n Li s a)
    (h : Halt) (cyc : Int) (k : Nat) (c1 : Int) :
    FinalRel L n (finish cfg h s cyc k) { halt := some h, final := a, cycles := c1, steps := k } := by
  rw [finish_sim hcfg hs]
  have hctx := hs.ctx
  exact { halt := rfl, steps := rfl, pc := hs.pc, ctx := by simp only; rw [hctx], dwf := hs.dwf,
          coh := hs.coh.flushed, flushed := fun _ => rfl }

theorem go_sim {cfg : Config} {L n Li : Nat} (hcfg : CfgOk cfg L n Li) {σ} (fp : FetchPolicy σ) (dc : Int) (app : App) :
    ∀ (fuel : Nat) (s : State) (a : Arch) (fs : σ) (cyc3 cyc1 : Int) (k : Nat), Sim L n Li s a →
      accessesOk L dc app fuel a = true →
      FinalRel L n (Model.Mvp3.go cfg dc app fuel s cyc3 k) (Model.Seq.run.go fp dc app fuel a fs cyc1 k) := by
  intro fuel
  induction fuel with
  | zero =>
    intro s a fs cyc3 cyc1 k hs _
    simp only [Model.Mvp3.go, Model.Seq.run.go]
    exact { halt := rfl, steps := rfl, pc := hs.pc, ctx := hs.ctx, dwf := hs.dwf, coh := hs.coh,
            flushed := fun h => by rcases h with h | h <;> cases h }
  | succ fuel ih =>
    intro s a fs cyc3 cyc1 k hs hacc
    unfold accessesOk at hacc
    simp only [Bool.and_eq_true] at hacc
    obtain ⟨hacc1, hacc2⟩ := hacc
    have hrel := step_sim hcfg dc app hs hacc1
    unfold Model.Mvp3.go Model.Seq.run.go
    cases hsa : stepArch dc app a with
    | next a' c =>
      rw [hsa] at hrel hacc2
      cases hs3 : Model.Mvp3.step cfg dc app s with
      | halt h3 s' f c3 => rw [hs3] at hrel; simp [StepRel] at hrel
      | next s' f c3 =>
        rw [hs3] at hrel
        simp only [StepRel] at hrel
        simp only
        exact ih s' a' _ _ _ _ hrel.1 hacc2
    | halt h c =>
      rw [hsa] at hrel
      cases hs3 : Model.Mvp3.step cfg dc app s with
      | next s' f c3 => rw [hs3] at hrel; simp [StepRel] at hrel
      | halt h3 s' f c3 =>
        rw [hs3] at hrel
        simp only [StepRel] at hrel
        obtain ⟨rfl, hs', _⟩ := hrel
        cases h3 with
        | offEnd => exact finish_rel hcfg hs' .offEnd _ _ _
        | ret => exact finish_rel hcfg hs' .ret _ _ _
        | err =>
          exact { halt := rfl, steps := rfl, pc := hs'.pc, ctx := hs'.ctx, dwf := hs'.dwf, coh := hs'.coh,
                  flushed := fun h => by rcases h with h | h <;> cases h }
        | panic w =>
          exact { halt := rfl, steps := rfl, pc := hs'.pc, ctx := hs'.ctx, dwf := hs'.dwf, coh := hs'.coh,
                  flushed := fun h => by rcases h with h | h <;> cases h }

/-- the state `NewCPU` builds is related to the cache-less machine's initial state -/
theorem init_sim {cfg : Config} {L n Li : Nat} (hcfg : CfgOk cfg L n Li) (a : Arch) :
    ∃ u, Model.Mmu.new cfg = .ok u ∧ Sim L n Li ⟨a, u⟩ a := by
  obtain ⟨u, hnew, hdl, hdL, hdn, hil, hiL⟩ := hcfg.new
  refine ⟨u, hnew, ?_⟩
  have hd : DWf L n u.l1d :=
    { lineLength := hdL, numberOfLines := hdn,
      lines := (by rw [hdl]; intro l hl; cases hl),
      distinct := (by rw [hdl]; exact List.Pairwise.nil),
      count := (by rw [hdl]; exact Nat.zero_le _) }
  have hc : Coh u.l1d.lines a.ctx.Memory a.ctx.Memory := by
    rw [hdl]
    exact { len := rfl, cached := fun l hl => (by cases hl), uncached := fun _ _ _ => rfl }
  have hi : IWf Li u.l1i := { lineLength := hiL, lines := (by rw [hil]; intro l hl; cases hl) }
  exact { pc := rfl, ctx := rfl, dwf := hd, coh := hc, iwf := hi }

/-- **MVP-3 simulates the cache-less machine** on whole runs (any fetch policy of the latter) -/
theorem run_sim {cfg : Config} {L n Li : Nat} (hcfg : CfgOk cfg L n Li) {σ} (fp : FetchPolicy σ) (dc : Int) (app : App)
    (a : Arch) (fuel : Nat) (hacc : accessesOk L dc app fuel a = true) :
    FinalRel L n (Model.Mvp3.run cfg dc app a fuel) (Model.Seq.run fp dc app a fuel) := by
  obtain ⟨u, hnew, hs⟩ := init_sim hcfg a
  unfold Model.Mvp3.run Model.Seq.run
  simp only [hnew]
  exact go_sim hcfg fp dc app fuel ⟨a, u⟩ a fp.init 0 0 0 hs hacc

/-! ### the instance for the constants of proc/mvp3 -/

theorem lineSize : mvp3Config.l1DLineSize = 64 := by decide

theorem wfAccesses_eq (app : App) (a : Arch) (fuel : Nat) :
    wfAccesses app a fuel = accessesOk ((64 : Nat) : Int) Gen.Consts.mvp3.cyclesDecode app fuel a := by
  unfold wfAccesses
  rw [mvp3Config_ok.dline]
  rfl

/-- MVP-3 against the cache-less MVP-1 on whole runs -/
theorem mvp3_finalRel (app : App) (a : Arch) (fuel : Nat) (h : wfAccesses app a fuel = true) :
    FinalRel 64 16 (runMvp3 app a fuel) (runMvp1 app a fuel) := by
  rw [wfAccesses_eq] at h
  have hd : Gen.Consts.mvp3.cyclesDecode = Gen.Consts.mvp1.cyclesDecode := by decide
  have := run_sim mvp3Config_ok mvp1Fetch Gen.Consts.mvp3.cyclesDecode app a fuel h
  unfold runMvp3 runMvp1
  rw [← hd]
  exact this

theorem arch_eq (f3 f1 : Arch) (hp : f3.pc = f1.pc) (hc : f3.ctx = { f1.ctx with Memory := f3.ctx.Memory })
    (hm : f3.ctx.Memory = f1.ctx.Memory) : f3 = f1 := by
  cases f3 with
  | mk c3 p3 =>
    cases f1 with
    | mk c1 p1 =>
      simp only at hm hc hp
      subst hp
      rw [hc, hm]

end Proofs.Mvp3

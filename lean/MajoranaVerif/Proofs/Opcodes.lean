/-
  Proofs/Opcodes.lean — helper lemmas for C02: Go integer operations (Model/GoInt)
  against the BitVec operations the specification uses, and the shapes the
  translator produces for register writes, branches, loads and stores.
-/
import MajoranaVerif.Model.Roles
import MajoranaVerif.Proofs.Bytes
open GoInt Model

namespace Proofs.Opcodes

/-- the register view an instruction has of a context: what `registerRead` returns -/
def view (ctx : Model.Context) (fwd : Gen.Forward) (seq : Word) : Spec.RegFile :=
  fun r => Gen.registerRead ctx fwd r seq

theorem rd0_view (ctx fwd seq) (hz : Gen.registerRead ctx fwd 0 seq = 0) (r : Reg) :
    Spec.rd0 (view ctx fwd seq) r = Gen.registerRead ctx fwd r seq := by
  unfold Spec.rd0 view
  split
  · subst_vars; exact hz.symm
  · rfl

/-! ### Go integer semantics vs BitVec -/

@[simp] theorem conv_signed_self (a : BitVec n) : GoInt.conv true n a = a := by
  simp [GoInt.conv]

@[simp] theorem conv_unsigned_self (a : BitVec n) : GoInt.conv false n a = a := by
  simp [GoInt.conv]

theorem cap_mask31 (x : BitVec 32) : GoInt.cap 32 (x &&& 31#32) = x.toNat % 32 := by
  unfold GoInt.cap
  have h : (x &&& 31#32).toNat = x.toNat % 32 := by
    have : (31#32 : BitVec 32) = BitVec.ofNat 32 (2 ^ 5 - 1) := by decide
    rw [this, BitVec.toNat_and, BitVec.toNat_ofNat]
    have : (2 ^ 5 - 1) % 2 ^ 32 = 2 ^ 5 - 1 := by decide
    rw [this, Nat.and_two_pow_sub_one_eq_mod]
  rw [h]
  omega

theorem cap_const12 : GoInt.cap 32 (12#64) = 12 := by decide

theorem sle_eq_not_slt (a b : BitVec 32) : b.sle a = !(a.slt b) := by
  rw [Bool.eq_iff_iff]
  simp only [BitVec.sle, BitVec.slt, decide_eq_true_eq, Bool.not_eq_true', decide_eq_false_iff_not]
  omega

theorem ule_eq_not_ult (a b : BitVec 32) : b.ule a = !(a.ult b) := by
  rw [Bool.eq_iff_iff]
  simp only [BitVec.ule, BitVec.ult, decide_eq_true_eq, Bool.not_eq_true', decide_eq_false_iff_not]
  omega

/-! ### shapes produced by the translator -/

theorem ebind_ok {ε α β} (x : α) (f : α → Except ε β) : (Except.ok x >>= f) = f x := rfl
theorem resOfGen_ok (e : Gen.Execution) (h : wfExe e = true) : resOfGen (Except.ok e) = Res.ok (toOutcome e) := by
  simp [resOfGen, h]

theorem isRegisterChange_zero (rd : Reg) (v : Word) :
    ((Gen.IsRegisterChange rd v).1 != 0 || (Gen.IsRegisterChange rd v).2 == 0) = true := by
  unfold Gen.IsRegisterChange Gen.Reg.Zero
  by_cases h : rd = 0 <;> simp [h]

@[simp] theorem wfExe_wr (rd : Reg) (v : Word) :
    wfExe { RegisterChange := true, Register := (Gen.IsRegisterChange rd v).1,
            RegisterValue := (Gen.IsRegisterChange rd v).2 } = true := by
  have := isRegisterChange_zero rd v
  simp only [wfExe, List.isEmpty_nil, Bool.not_true, Bool.false_or, Bool.not_false, Bool.and_true, Bool.true_and, this]

@[simp] theorem wfExe_wr_next (rd : Reg) (v t : Word) :
    wfExe { RegisterChange := true, Register := (Gen.IsRegisterChange rd v).1,
            RegisterValue := (Gen.IsRegisterChange rd v).2, NextPc := t, PcChange := true } = true := by
  have := isRegisterChange_zero rd v
  simp only [wfExe, List.isEmpty_nil, Bool.not_true, Bool.false_or, Bool.not_false, Bool.and_true, Bool.true_and, this]

@[simp] theorem wfExe_noreg (e : Gen.Execution) (h1 : e.RegisterChange = false) (h2 : e.DirectWrites = []) :
    wfExe e = true := by
  simp [wfExe, h1, h2]
theorem resOfSpec_ok (o : Spec.Outcome) : resOfSpec (Except.ok o) = Res.ok o := rfl


theorem toOutcome_wr (rd : Reg) (v : Word) :
    toOutcome { RegisterChange := true, Register := (Gen.IsRegisterChange rd v).1,
                RegisterValue := (Gen.IsRegisterChange rd v).2 } = Spec.wr rd v := by
  unfold toOutcome Spec.wr Gen.IsRegisterChange Gen.Reg.Zero
  by_cases h : rd = 0
  · simp [h]
  · simp [h]

theorem resOfGen_wr (rd : Reg) (v : Word) :
    resOfGen (Except.ok { RegisterChange := true, Register := (Gen.IsRegisterChange rd v).1,
                          RegisterValue := (Gen.IsRegisterChange rd v).2 }) = Res.ok (Spec.wr rd v) := by
  rw [resOfGen_ok _ (wfExe_wr rd v), toOutcome_wr]

/-- `slt`-style join: both arms write the same destination -/
theorem res_set_flag (rd : Reg) (c : Bool) :
    resOfGen ((if c then (pure (Gen.IsRegisterChange rd 1#32) : M _) else pure (Gen.IsRegisterChange rd 0#32)) >>=
        fun (p : Reg × Word) => pure ({ RegisterChange := true, Register := p.1, RegisterValue := p.2 } : Gen.Execution)) =
      Res.ok (Spec.wr rd (if c then 1 else 0)) := by
  cases c <;> simp [resOfGen, bind, Except.bind, pure, Except.pure, toOutcome_wr]

/-- conditional branch shape -/
theorem res_branch (labels : GoMap String Word) (l : String) (c : Bool) :
    resOfGen (if c then
        (if (!(GoMap.get labels l).2) then (throw (Fault.err "error") : M Gen.Execution)
         else pure ({ NextPc := (GoMap.get labels l).1, PcChange := true } : Gen.Execution))
      else pure ({ } : Gen.Execution)) =
    resOfSpec (Spec.branch (labelsOf labels) c l) := by
  unfold Spec.branch Spec.jump labelsOf GoMap.get
  cases c
  · simp [resOfGen, resOfSpec, toOutcome, pure, Except.pure]
  · cases h : labels.find? l <;>
      simp [resOfGen, resOfSpec, toOutcome, pure, Except.pure, throw, throwThe, MonadExceptOf.throw]

/-- unconditional jump shape -/
theorem res_jump (labels : GoMap String Word) (l : String) :
    resOfGen (if (!(GoMap.get labels l).2) then (throw (Fault.err "error") : M Gen.Execution)
         else pure ({ NextPc := (GoMap.get labels l).1, PcChange := true } : Gen.Execution)) =
    resOfSpec (Spec.jump (labelsOf labels) l) := by
  have := res_branch labels l true
  simpa [Spec.branch] using this

end Proofs.Opcodes

namespace Proofs.Opcodes

/-- `div` / `rem` shape: explicit zero test (a Go `error`), then the Go operator -/
theorem res_divrem (rd : Reg) (a b : Word) (goOp : Word → Word → M Word) (specOp : Word → Word → Word)
    (h : b ≠ 0 → goOp a b = pure (specOp a b)) :
    resOfGen (if (b == 0#32) = true then (throw (Fault.err "error") : M Gen.Execution)
      else (goOp a b >>= fun v => Except.ok ({ RegisterChange := true, Register := (Gen.IsRegisterChange rd v).1, RegisterValue := (Gen.IsRegisterChange rd v).2 } : Gen.Execution))) =
    resOfSpec ((if b = 0 then (throw Spec.Error.divByZero : Except Spec.Error Word) else pure (specOp a b)) >>=
      fun v => Except.ok (Spec.wr rd v)) := by
  by_cases hb : b = 0
  · subst hb
    simp [resOfGen, resOfSpec, throw, throwThe, MonadExceptOf.throw, bind, Except.bind]
  · have hb' : (b == 0#32) = false := by simpa using hb
    have hb2 : ¬ b = 0#32 := hb
    rw [h hb, if_neg hb]
    simp [hb', resOfGen, resOfSpec, pure, Except.pure, toOutcome_wr, bind, Except.bind]

end Proofs.Opcodes

namespace Proofs.Opcodes

/-- `jal`: link value through `IsRegisterChange`, target through the label map -/
theorem res_jal (labels : GoMap String Word) (l : String) (rd : Reg) (v : Word) :
    resOfGen (if (!(GoMap.get labels l).2) = true then (throw (Fault.err "error") : M Gen.Execution)
      else Except.ok ({ RegisterChange := true, Register := (Gen.IsRegisterChange rd v).1, RegisterValue := (Gen.IsRegisterChange rd v).2, NextPc := (GoMap.get labels l).1, PcChange := true } : Gen.Execution)) =
    resOfSpec (Spec.jump (labelsOf labels) l >>= fun o =>
      Except.ok { reg := (Spec.wr rd v).reg, mem := o.mem, next := o.next, ret := o.ret }) := by
  unfold Spec.jump labelsOf GoMap.get Spec.wr Gen.IsRegisterChange Gen.Reg.Zero
  cases h : labels.find? l <;> by_cases hr : rd = 0 <;>
    simp [hr, resOfGen, wfExe, resOfSpec, toOutcome, pure, Except.pure, throw, throwThe, MonadExceptOf.throw, bind, Except.bind]

theorem toOutcome_wr_next (rd : Reg) (v t : Word) :
    toOutcome { RegisterChange := true, Register := (Gen.IsRegisterChange rd v).1,
                RegisterValue := (Gen.IsRegisterChange rd v).2, NextPc := t, PcChange := true } =
      { reg := (Spec.wr rd v).reg, mem := (Spec.wr rd v).mem, next := some t, ret := (Spec.wr rd v).ret } := by
  unfold toOutcome Spec.wr Gen.IsRegisterChange Gen.Reg.Zero
  by_cases h : rd = 0 <;> simp [h]

/-! loads: the caller hands over exactly `width` bytes -/

theorem res_lb (rd : Reg) (mem : List Byte) (hm : mem.length = 1) :
    resOfGen (GoInt.index mem 0 >>= fun v => Except.ok ({ RegisterChange := true, Register := (Gen.IsRegisterChange rd (GoInt.conv true 32 v)).1, RegisterValue := (Gen.IsRegisterChange rd (GoInt.conv true 32 v)).2 } : Gen.Execution)) =
    Res.ok (Spec.wr rd (Spec.loadValue .b mem)) := by
  match mem, hm with
  | [b0], _ => simp [GoInt.index, resOfGen, toOutcome_wr, Spec.loadValue, GoInt.conv, pure, Except.pure, bind, Except.bind]

theorem trunc16 (b0 b1 : Byte) : (0#8 ++ 0#8 ++ b1 ++ b0).signExtend 16 = b1 ++ b0 := by
  apply BitVec.eq_of_getLsbD_eq
  intro i hi
  have h32 : i < 32 := by omega
  simp only [BitVec.getLsbD_signExtend, hi, h32, decide_true, Bool.true_and, if_true, BitVec.getLsbD_append]
  by_cases h8 : i < 8
  · simp [h8]
  · have : i - 8 < 8 := by omega
    simp [h8, this]

theorem res_lh (rd : Reg) (mem : List Byte) (hm : mem.length = 2) :
    resOfGen (GoInt.index mem 0 >>= fun v => GoInt.index mem 1 >>= fun v_1 =>
        Gen.Bytes.I32FromBytes v v_1 0#8 0#8 >>= fun w => Except.ok ({ RegisterChange := true, Register := (Gen.IsRegisterChange rd (GoInt.conv true 32 (GoInt.conv true 16 w))).1, RegisterValue := (Gen.IsRegisterChange rd (GoInt.conv true 32 (GoInt.conv true 16 w))).2 } : Gen.Execution)) =
    Res.ok (Spec.wr rd (Spec.loadValue .h mem)) := by
  match mem, hm with
  | [b0, b1], _ =>
    simp only [GoInt.index, List.getElem?_cons_zero, List.getElem?_cons_succ, pure, Except.pure,
      Proofs.Bytes.i32_char, Proofs.Bytes.bind_ok, resOfGen, wfExe_wr, toOutcome_wr, Spec.loadValue, GoInt.conv, if_true]
    rw [trunc16]

theorem res_lw (rd : Reg) (mem : List Byte) (hm : mem.length = 4) :
    resOfGen (GoInt.index mem 0 >>= fun v => GoInt.index mem 1 >>= fun v_1 => GoInt.index mem 2 >>= fun v_2 =>
        GoInt.index mem 3 >>= fun v_3 => Gen.Bytes.I32FromBytes v v_1 v_2 v_3 >>= fun w => Except.ok ({ RegisterChange := true, Register := (Gen.IsRegisterChange rd w).1, RegisterValue := (Gen.IsRegisterChange rd w).2 } : Gen.Execution)) =
    Res.ok (Spec.wr rd (Spec.loadValue .w mem)) := by
  match mem, hm with
  | [b0, b1, b2, b3], _ =>
    simp only [GoInt.index, List.getElem?_cons_zero, List.getElem?_cons_succ, pure, Except.pure,
      Proofs.Bytes.i32_char, Proofs.Bytes.bind_ok, resOfGen, wfExe_wr, toOutcome_wr, Spec.loadValue, if_true]

end Proofs.Opcodes

namespace Proofs.Opcodes

theorem go_sdiv (a b : Word) (h : b ≠ 0) : GoInt.sdiv a b = pure (a.sdiv b) := by
  unfold GoInt.sdiv
  have h' : (b == 0) = false := by simpa using h
  rw [h']; rfl

theorem go_srem (a b : Word) (h : b ≠ 0) : GoInt.srem a b = pure (a.srem b) := by
  unfold GoInt.srem
  have h' : (b == 0) = false := by simpa using h
  rw [h']; rfl

/-! stores: the byte list `sb/sh/sw` hand to memory -/

theorem conv_low_byte (v : Word) : GoInt.conv true 8 v = v.extractLsb' 0 8 := by
  unfold GoInt.conv
  apply BitVec.eq_of_getLsbD_eq
  intro i hi
  have h32 : i < 32 := by omega
  simp only [BitVec.getLsbD_signExtend, BitVec.getLsbD_extractLsb', hi, h32, decide_true,
    Bool.true_and, if_true, Nat.zero_add]

theorem res_store_b (a v : Word) :
    toOutcome { MemoryChange := true, MemoryChanges := [(a, GoInt.conv true 8 v)] } =
      { mem := Spec.storeBytes .b a v } := by
  simp [toOutcome, Spec.storeBytes, conv_low_byte]

end Proofs.Opcodes

/-
  Proofs/Mvp5Rel.lean — MVP-5 against MVP-4: where the two execute units coincide (every instruction that
  is not an unconditional jump), and the simulation relation of MVP-5.
-/
import MajoranaVerif.Model.Mvp5
import MajoranaVerif.Proofs.Mvp4Total
import MajoranaVerif.Proofs.Mvp5Instr
open GoInt Model Model.Seq
open Proofs.Mvp4
open Proofs.Mmu (DWf Coh applyChanges base)

set_option linter.unusedSimpArgs false
set_option linter.unusedVariables false

namespace Proofs.Mvp5
open Model.Mvp5
open Model.Mvp4 (Runner ExecUnit EuOut Event Mode instrAt)

/-! ### the regenerated constants of the two packages agree (a changed constant re-opens this) -/

theorem cfg_eq : Model.Mvp5.cfg = Model.Mvp4.cfg := by decide
theorem constsAgree_true : constsAgree = true := by decide

/-- an MVP-4 result inside an MVP-5 state -/
def lift (s : State) (x : Model.Mvp4.State × EuOut) : State × EuOut := ({ s with base := x.1 }, x.2)

theorem map_ok {α β} (f : α → β) (x : α) : (Except.map f (Except.ok x : M α)) = .ok (f x) := rfl
theorem map_err {α β} (f : α → β) (e : Fault) : (Except.map f (Except.error e : M α)) = .error e := rfl

/-- for every instruction that is not an unconditional jump, `executeUnit.run` of MVP-5 IS MVP-4's -/
theorem euRun_nonjump (app : App) (s : State) (r : Runner) (m : List Byte)
    (hj : r.instr.instructionType.IsUnconditionalBranch = false) :
    Model.Mvp5.euRun app s r m = (Model.Mvp4.euRun app s.base r m).map (lift s) := by
  unfold Model.Mvp5.euRun Model.Mvp4.euRun
  simp only
  cases hr : r.instr.run s.base.ctx app.labels r.pc m 0#32 with
  | error f => cases f <;> rfl
  | ok e =>
    simp only
    by_cases hret : e.Return = true
    · simp only [hret, if_true]; rfl
    · have hret' : e.Return = false := by simpa using hret
      simp only [hret', Bool.false_eq_true, if_false]
      generalize (if e.MemoryChange = true then Model.Mmu.doesExecutionMemoryChangesExistsInL1D s.base.mmu e
          else (pure (false, s.base.mmu) : M (Bool × Model.Mmu.Mmu))) = d
      cases d with
      | error f => rfl
      | ok x =>
        obtain ⟨inL1D, mmu⟩ := x
        simp only [bind, Except.bind]
        cases inL1D with
        | true =>
          simp only [if_true]
          cases hw : Model.Mmu.writeExecutionMemoryChangesToL1D mmu e with
          | error f => rfl
          | ok mmu2 => rfl
        | false =>
          simp only [Bool.false_eq_true, if_false, pure, Except.pure, map_ok]
          unfold Model.Mvp5.euQueue lift
          simp only [hj, Bool.false_eq_true, if_false]


theorem lift_base (s : State) (b : Model.Mvp4.State) : lift { s with base := b } = lift s := rfl

/-- … and so is the completion of a memory read -/
theorem euMemDone_nonjump (app : App) (s : State) (eu : ExecUnit) (r : Runner)
    (hj : r.instr.instructionType.IsUnconditionalBranch = false) :
    Model.Mvp5.euMemDone app s eu r = (Model.Mvp4.euMemDone app s.base eu r).map (lift s) := by
  unfold Model.Mvp5.euMemDone Model.Mvp4.euMemDone
  rw [cfg_eq]
  cases eu.memory with
  | some m =>
    simp only
    rw [euRun_nonjump app _ r m hj]
    rfl
  | none =>
    simp only
    cases eu.addrs with
    | nil => rfl
    | cons a0 as =>
      simp only
      cases Model.Mmu.fetchCacheLine Model.Mvp4.cfg s.base.ctx.Memory a0 with
      | error f => rfl
      | ok line =>
        simp only [bind, Except.bind]
        cases Model.Mmu.pushLineToL1D Model.Mvp4.cfg s.base.mmu s.base.ctx.Memory a0 line with
        | error f => rfl
        | ok x =>
          obtain ⟨mmu, mem⟩ := x
          simp only
          cases Model.Mmu.getFromL1D mmu (a0 :: as) with
          | error f => rfl
          | ok y =>
            obtain ⟨m, mmu2⟩ := y
            simp only
            cases m with
            | none => rfl
            | some m =>
              simp only
              rw [euRun_nonjump app _ r m hj]
              rfl


/-! ### the simulation relation of MVP-5 -/

/-- the decoded instructions in flight, oldest first: the execute unit's, then the execute bus -/
def runners (b : Model.Mvp4.State) : List Runner :=
  (if b.eu.processing then b.eu.runner.toList else []) ++ b.executeBus.inside

/-- an unconditional jump -/
def isJump (r : Runner) : Bool := r.instr.instructionType.IsUnconditionalBranch

/-- the decode bus as the decode unit will see it: empty when the fetch unit has been told to clean it -/
def dEff (s : State) : List Word := if s.toCleanPending then [] else s.base.decodeBus.inside

/-- the fetched, not yet decoded pcs and the fetch pc — meaningless (wrong path or about to be redirected) while
the decode unit waits for a jump to be resolved -/
def tailW (s : State) : List Word := if s.duPending then [] else dEff s ++ [s.base.fu.pc]

/-- the front end while the `Run` loop is at the head of its outer `for`: the decoded instructions in flight,
followed — unless a jump is waiting to be resolved — by the fetched pcs and the fetch pc, are consecutive from the
architectural pc; an unconditional jump is always the youngest decoded instruction, and the decode unit waits
exactly while there is one -/
structure NormalOk5 (app : App) (s : State) (a : Arch) : Prop where
  consec : Consec a.pc ((runners s.base).map (·.pc) ++ tailW s)
  jumpLast : ∀ l x l', runners s.base = l ++ x :: l' → isJump x = true → l' = [] ∧ s.duPending = true
  pendJump : s.duPending = true → ∃ l x, runners s.base = l ++ [x] ∧ isJump x = true
  complete : s.base.fu.complete = true → Model.Mvp4.pastEnd app s.base.fu.pc = true
  instrs : ∀ r ∈ runners s.base, instrAt app r.pc = .ok r.instr
  euRunner : s.base.eu.processing = true → ∃ r, s.base.eu.runner = some r
  idle : s.base.eu.processing = false → s.base.eu.pendingMemoryRead = false
  pend : s.base.eu.pendingMemoryRead = true → ∃ r, s.base.eu.runner = some r ∧ isJump r = false ∧ PendOk s.base a r
  nomem : s.base.eu.pendingMemoryRead = false → s.base.eu.memory = none

/-- the front end, by the position of the `Run` loop -/
def FrontRel5 (app : App) (s : State) (a : Arch) : Mode → Prop
  | .normal => NormalOk5 app s a
  | .drainFlush pc => a.pc = pc ∧ s.base.eu.pendingMemoryRead = false ∧ s.base.eu.memory = none
  | .drainRet => ∃ c, stepArch dc app a = .halt .ret c

/-- **the simulation relation of MVP-5**: MVP-4's back-end relation on the common part of the state, and the
MVP-5 front end -/
structure Rel5 (app : App) (s : State) (a : Arch) : Prop where
  back : Back s.base a
  front : FrontRel5 app s a s.base.mode


/-! ### the branch unit's `assert` -/

theorem assert_nonjump (s : State) (r : Runner) (hj : isJump r = false) :
    ∃ bu, assert s r = { s with base := { s.base with bu := bu } } ∧ ∃ bu0, bu = Model.Mvp4.BranchUnit.assert bu0 r := by
  unfold isJump at hj
  unfold assert
  simp only [hj, Bool.false_eq_true, if_false]
  by_cases hc : r.instr.instructionType.IsConditionalBranch = true
  · simp only [hc, if_true]
    refine ⟨_, rfl, s.base.bu, ?_⟩
    unfold Model.Mvp4.BranchUnit.assert
    simp [hj, hc]
  · have hc' : r.instr.instructionType.IsConditionalBranch = false := by simpa using hc
    simp only [hc', Bool.false_eq_true, if_false]
    refine ⟨_, rfl, { s.base.bu with toCheck := false }, ?_⟩
    unfold Model.Mvp4.BranchUnit.assert
    simp [hj, hc']

theorem assert_jump (s : State) (r : Runner) (hj : isJump r = true) :
    (∃ bu, assert s r = { s with base := { s.base with bu := bu } }) ∨
    (∃ bu pc, (∃ e ∈ s.btb, e.2 = pc) ∧ assert s r = fuReset { s with base := { s.base with bu := bu } } pc) := by
  unfold isJump at hj
  unfold assert
  simp only [hj, if_true]
  cases hg : btbGet s.btb r.pc with
  | none => exact Or.inl ⟨_, rfl⟩
  | some nextPc =>
    refine Or.inr ⟨_, nextPc, ?_, rfl⟩
    unfold btbGet at hg
    cases hf : s.btb.find? (fun e => e.1 == r.pc) with
    | none => rw [hf] at hg; cases hg
    | some e =>
      rw [hf] at hg
      simp only [Option.map_some, Option.some.injEq] at hg
      exact ⟨e, List.mem_of_find?_eq_some hf, hg⟩

/-- what `assert` leaves alone: everything but the branch unit's expectation, the fetch pc / `complete` and the
cleaning flag -/
theorem assert_frame (app : App) (s : State) (r : Runner) :
    (assert s r).base.ctx = s.base.ctx ∧ (assert s r).base.pwmi = s.base.pwmi ∧
    (assert s r).base.writeBus = s.base.writeBus ∧ (assert s r).base.mmu = s.base.mmu ∧
    (assert s r).base.eu = s.base.eu ∧ (assert s r).base.executeBus = s.base.executeBus ∧
    (assert s r).base.decodeBus = s.base.decodeBus ∧
    (assert s r).base.wu = s.base.wu ∧ (assert s r).base.mode = s.base.mode ∧
    (assert s r).base.cycles = s.base.cycles ∧ (assert s r).base.executed = s.base.executed ∧
    (assert s r).duPending = s.duPending ∧ (assert s r).btb = s.btb ∧
    ((s.base.fu.complete = true → Model.Mvp4.pastEnd app s.base.fu.pc = true) →
      ((assert s r).base.fu.complete = true → Model.Mvp4.pastEnd app (assert s r).base.fu.pc = true)) ∧
    (assert s r).base.fu.processing = s.base.fu.processing ∧
    (assert s r).base.fu.remainingCycles = s.base.fu.remainingCycles ∧
    ((assert s r).base.fu = s.base.fu ∧ (assert s r).toCleanPending = s.toCleanPending ∨
      (assert s r).toCleanPending = true ∧ (assert s r).base.fu.complete = false) ∧
    ((assert s r).base.fu.pc = s.base.fu.pc ∨ ∃ e ∈ s.btb, (assert s r).base.fu.pc = e.2) := by
  cases hj : isJump r with
  | false =>
    obtain ⟨bu, h, _⟩ := assert_nonjump s r hj
    rw [h]
    exact ⟨rfl, rfl, rfl, rfl, rfl, rfl, rfl, rfl, rfl, rfl, rfl, rfl, rfl, id, rfl, rfl, Or.inl ⟨rfl, rfl⟩, Or.inl rfl⟩
  | true =>
    rcases assert_jump s r hj with ⟨bu, h⟩ | ⟨bu, pc, ⟨e0, he0, he0'⟩, h⟩
    · rw [h]
      exact ⟨rfl, rfl, rfl, rfl, rfl, rfl, rfl, rfl, rfl, rfl, rfl, rfl, rfl, id, rfl, rfl, Or.inl ⟨rfl, rfl⟩, Or.inl rfl⟩
    · rw [h]
      exact ⟨rfl, rfl, rfl, rfl, rfl, rfl, rfl, rfl, rfl, rfl, rfl, rfl, rfl, fun _ hx => (by cases hx), rfl, rfl,
        Or.inr ⟨rfl, rfl⟩, Or.inr ⟨e0, he0, he0'.symm⟩⟩


/-- for an instruction that is not an unconditional jump, the issue logic of MVP-5 is MVP-4's (on a machine whose
branch unit holds what MVP-5's `assert` leaves) -/
theorem euIssue_nonjump (app : App) (s : State) (eu : ExecUnit) (r : Runner) (hj : isJump r = false) :
    ∃ bu0, Model.Mvp5.euIssue app s eu r =
      (Model.Mvp4.euIssue app { s.base with bu := bu0 } eu r).map (lift s) := by
  obtain ⟨bu, hA, bu0, hbu⟩ := assert_nonjump s r hj
  refine ⟨bu0, ?_⟩
  unfold Model.Mvp5.euIssue Model.Mvp4.euIssue
  rw [hA]
  simp only
  rw [← hbu]
  by_cases hhz : Model.Mvp4.isWriteDataHazard s.base.ctx.PendingWriteRegisters r.instr.readRegisters = true
  · simp only [hhz, if_true]; rfl
  · simp only [hhz, if_false]
    cases haddrs : r.instr.memoryRead s.base.ctx 0#32 with
    | nil =>
      simp only [List.isEmpty_nil, Bool.not_true, Bool.false_eq_true, if_false]
      rw [euRun_nonjump app _ r [] hj]
      rfl
    | cons a0 as =>
      simp only [List.isEmpty_cons, Bool.not_false, if_true]
      by_cases hpw : ((a0 :: as).any fun a => Model.Mvp4.pendingWriteMemoryIntention s.base.pwmi (Model.Mvp4.lineOf a)) = true
      · simp only [hpw, if_true]; rfl
      · simp only [hpw, if_false]
        cases Model.Mmu.getFromL1D s.base.mmu (a0 :: as) with
        | error f => rfl
        | ok x =>
          obtain ⟨m, mmu⟩ := x
          simp only [bind, Except.bind]
          cases m <;> rfl


/-! ### issuing an unconditional jump -/

/-- what `euIssue` on a jump leaves alone -/
structure FrameJ (app : App) (s s2 : State) : Prop where
  executeBus : s2.base.executeBus = s.base.executeBus
  wu : s2.base.wu = s.base.wu
  mode : s2.base.mode = s.base.mode
  cycles : s2.base.cycles = s.base.cycles
  l1i : s2.base.mmu.l1i = s.base.mmu.l1i
  decodeBus : s2.base.decodeBus = s.base.decodeBus
  fuProc : s2.base.fu.processing = s.base.fu.processing
  fuRem : s2.base.fu.remainingCycles = s.base.fu.remainingCycles
  complete : (s.base.fu.complete = true → Model.Mvp4.pastEnd app s.base.fu.pc = true) →
    (s2.base.fu.complete = true → Model.Mvp4.pastEnd app s2.base.fu.pc = true)

/-- **a jump restarts the front end at its target**: issuing the unconditional jump at the architectural pc either
stalls (register interlock), or fails with the error of the unpipelined machine, or performs the sequential step:
the link result is queued, the BTB learns the target, the decode unit is released, the fetch unit restarts AT THE
NEXT ARCHITECTURAL PC and is told to clean the decode bus — whether or not the prediction was right; `flush` is
only signalled in addition when it was wrong. -/
theorem euIssue_jump_sim {app : App} {s : State} {a : Arch} {eu : ExecUnit} {r : Runner} {s2 : State} {out : EuOut}
    (hb : Back s.base a) (hsid : eu.storeID = s.base.eu.storeID)
    (hpc : r.pc = a.pc) (hi : instrAt app r.pc = .ok r.instr) (hnf : NoFwd app)
    (hfree : s.base.writeBus.canAdd = true) (hok : Model.Mvp4.stepOk app a = true) (hj : isJump r = true)
    (h : Model.Mvp5.euIssue app s eu r = .ok (s2, out)) :
    FrameJ app s s2 ∧
    ((out = .none ∧ Back s2.base a ∧ s2.base.eu = { eu with remainingCycles := 1 } ∧ s2.duPending = s.duPending ∧
        s2.base.writeBus = s.base.writeBus ∧ s2.base.ctx = s.base.ctx ∧ s2.base.pwmi = s.base.pwmi ∧
        s.base.writeBus.isEmpty = false ∧ s2.btb = s.btb ∧
        (s2.base.fu.pc = s.base.fu.pc ∨ ∃ e ∈ s.btb, s2.base.fu.pc = e.2)) ∨
     (out = .err ∧ ∃ c, stepArch dc app a = .halt .err c) ∨
     (∃ a' c, stepArch dc app a = .next a' c ∧ Back s2.base a' ∧ a'.pc = s2.base.fu.pc ∧
        s2.toCleanPending = true ∧ s2.duPending = false ∧ s2.base.fu.complete = false ∧
        s2.base.eu = { eu with processing := false, runner := none } ∧ (out = .none ∨ out = .flush a'.pc) ∧
        s2.btb = btbAdd s.btb r.pc a'.pc)) := by
  have hf := hnf.at hi
  have hi' : instrAt app a.pc = .ok r.instr := hpc ▸ hi
  obtain ⟨f1, f2, f3, f4, f5, f6, f7, f8, f9, f10, f11, f12, f13, f14, f15, f16, _, f18⟩ := assert_frame app s r
  have hb1 : BackRel (assert s r).base.ctx (assert s r).base.pwmi (assert s r).base.writeBus.inside
      (assert s r).base.mmu.l1d s.base.eu.storeID a := by rw [f1, f2, f3, f4]; exact hb
  unfold Model.Mvp5.euIssue at h
  simp only at h
  by_cases hhz : Model.Mvp4.isWriteDataHazard (assert s r).base.ctx.PendingWriteRegisters r.instr.readRegisters = true
  · -- register interlock
    simp only [hhz, if_true, pure, Except.pure] at h
    injection h with h
    simp only [Prod.mk.injEq] at h
    obtain ⟨rfl, rfl⟩ := h
    refine ⟨⟨f6, f8, f9, f10, by show (assert s r).base.mmu.l1i = _; rw [f4], f7, f15, f16, f14⟩, Or.inl ⟨rfl, ?_, rfl, f12, f3, f1, f2, ?_, f13, f18⟩⟩
    · show BackRel (assert s r).base.ctx (assert s r).base.pwmi (assert s r).base.writeBus.inside
        (assert s r).base.mmu.l1d eu.storeID a
      rw [hsid]; exact hb1
    · rw [← f3]
      exact nonempty_of_hazard hb1 hhz
  · have hhz' : Model.Mvp4.isWriteDataHazard (assert s r).base.ctx.PendingWriteRegisters r.instr.readRegisters = false := by
      simpa using hhz
    simp only [hhz', Bool.false_eq_true, if_false] at h
    have hnw := noWriter_of_hazard hb1 hhz'
    have hsr := sameRegs_of_noWriter hb1 hnw
    have haddr : r.instr.memoryRead (assert s r).base.ctx 0#32 = [] := by
      rw [memoryRead_congr r.instr hf hsr 0#32]; exact jump_no_load r.instr a.ctx 0#32 hj
    have hbytes : (r.instr.memoryRead a.ctx 0#32).mapM (readMem a.ctx.Memory) = some [] := by
      rw [jump_no_load r.instr a.ctx 0#32 hj]; rfl
    simp only [haddr, List.isEmpty_nil, Bool.not_true, Bool.false_eq_true, if_false] at h
    have hrun : r.instr.run (assert s r).base.ctx app.labels r.pc [] 0#32 = r.instr.run a.ctx app.labels a.pc [] 0#32 := by
      rw [hpc]; exact run_congr r.instr hf hsr app.labels a.pc [] 0#32
    have hstep := stepArch_run hi' hbytes
    unfold Model.Mvp5.euRun at h
    simp only at h
    rw [hrun] at h
    cases hr : r.instr.run a.ctx app.labels a.pc [] 0#32 with
    | error f =>
      cases f with
      | panic w => simp [hr, throw, throwThe, MonadExceptOf.throw] at h
      | err msg =>
        simp only [hr, pure, Except.pure] at h
        injection h with h
        simp only [Prod.mk.injEq] at h
        obtain ⟨rfl, rfl⟩ := h
        refine ⟨⟨f6, f8, f9, f10, by show (assert s r).base.mmu.l1i = _; rw [f4], f7, f15, f16, f14⟩, Or.inr (Or.inl ⟨rfl, ?_⟩)⟩
        rw [hstep]; exact stepTail_err hr
    | ok e =>
      obtain ⟨ex, hex⟩ := Proofs.Refine.cycles_ok r.instr.instructionType
      have hshape := run_shape r.instr a.ctx app.labels a.pc [] 0#32 e hr
      obtain ⟨hpcc, hmc, hret⟩ := run_jump r.instr a.ctx app.labels a.pc [] 0#32 e hj hr
      simp only [hr, hret, Bool.false_eq_true, if_false, hmc, pure, Except.pure, bind, Except.bind] at h
      injection h with h
      have hs2 := congrArg Prod.fst h
      have hout := congrArg Prod.snd h
      simp only at hs2 hout
      -- the architectural state after the jump
      have hnext : ∃ a' k, stepTail app a r.instr [] = .next a' k ∧ a'.pc = e.NextPc ∧ a'.ctx.rat = false ∧
          a'.ctx.Transaction.entries = [] ∧
          a'.ctx.Registers = (if e.RegisterChange then a.ctx.Registers.set e.Register e.RegisterValue else a.ctx.Registers) ∧
          a'.ctx.Memory = (if e.RegisterChange then a.ctx.Memory else
            if e.MemoryChange then applyChanges a.ctx.Memory e.MemoryChanges else a.ctx.Memory) := by
        by_cases hrc : e.RegisterChange = true
        · obtain ⟨k, hk⟩ := stepTail_reg hr hex hret hrc
          exact ⟨_, k, hk, by simp [nextPc, hpcc], hb.arat, hb.atx, by simp [hrc, writeRegister], by simp [hrc, writeRegister]⟩
        · have hrc' : e.RegisterChange = false := by simpa using hrc
          obtain ⟨k, hk⟩ := stepTail_plain hr hex hret hrc' hmc
          exact ⟨_, k, hk, by simp [nextPc, hpcc], hb.arat, hb.atx, by simp [hrc'], by simp [hrc', hmc]⟩
      obtain ⟨a', k, hk, hapc, har, hat, hregs, hmem⟩ := hnext
      -- MVP-4's `euQueue` on the common part of the state
      have hq := euQueue_back
        (s := { (assert s r).base with eu := eu, executed := (assert s r).base.executed + 1 }) (a := a) (r := r) (e := e)
        (eu := { eu with processing := false, runner := none }) (mmu := (assert s r).base.mmu)
        (by show BackRel (assert s r).base.ctx (assert s r).base.pwmi (assert s r).base.writeBus.inside
              (assert s r).base.mmu.l1d eu.storeID a
            rw [hsid]; exact hb1)
        hshape (by show (assert s r).base.writeBus.canAdd = true; rw [f3]; exact hfree)
        (fun _ hx => by rw [hmc] at hx; cases hx) a' har hat hregs hmem
      obtain ⟨q1, q2, q3, q4, q5, q6, q7, q8, q9, q10, q11, q12, q13⟩ := hq
      unfold Model.Mvp5.euQueue at hs2 hout
      unfold isJump at hj
      simp only [hj, if_true] at hs2 hout
      subst hs2
      refine ⟨⟨?_, ?_, ?_, ?_, ?_, ?_, ?_, ?_, fun _ hx => (by cases hx)⟩, Or.inr (Or.inr ⟨a', k, by rw [hstep]; exact hk, ?_, ?_, rfl, rfl, rfl, ?_, ?_, ?_⟩)⟩
      · exact q8.trans f6
      · exact q9.trans f8
      · exact q10.trans f9
      · exact q11.trans f10
      · exact (congrArg (·.l1i) q12).trans (congrArg (·.l1i) f4)
      · exact q7.trans f7
      · exact (congrArg (·.processing) q6).trans f15
      · exact (congrArg (·.remainingCycles) q6).trans f16
      · exact q1
      · exact hapc
      · -- the execute unit afterwards
        have e1 : (Model.Mvp4.euQueue { (assert s r).base with eu := eu, executed := (assert s r).base.executed + 1 } r e
            { eu with processing := false, runner := none } (assert s r).base.mmu).1.eu =
            { eu with processing := false, runner := none } := by
          unfold Model.Mvp4.euQueue; simp only [hmc, Bool.false_eq_true, if_false]
        exact e1
      · rw [← hout, q13, hapc]
        split
        · exact Or.inr rfl
        · exact Or.inl rfl
      · show btbAdd (assert s r).btb r.pc e.NextPc = _
        rw [f13, hapc]


/-! ### the count of executed instructions (for every state): it goes up exactly when `executeUnit.run` is called -/

theorem euQueue5_executed (s : State) (r : Runner) (e : Gen.Execution) (eu : ExecUnit) (mmu : Model.Mmu.Mmu) :
    (Model.Mvp5.euQueue s r e eu mmu).1.base.executed = s.base.executed ∧
    (Model.Mvp5.euQueue s r e eu mmu).1.base.eu.processing = eu.processing := by
  obtain ⟨q1, q2⟩ := euQueue_executed s.base r e eu mmu
  unfold Model.Mvp5.euQueue
  simp only
  split
  · unfold notifyJumpAddressResolved fuReset
    exact ⟨q1, q2⟩
  · exact ⟨q1, q2⟩

theorem euRun5_exec {app : App} {s s2 : State} {r : Runner} {b : List Byte} {out : EuOut}
    (h : Model.Mvp5.euRun app s r b = .ok (s2, out)) :
    s2.base.executed = s.base.executed + 1 ∧ (out = .none → s2.base.eu.processing = false) := by
  unfold Model.Mvp5.euRun at h
  simp only at h
  split at h
  · cases h
  · obtain ⟨rfl, rfl⟩ := ok_pair_inj' h
    exact ⟨rfl, fun hx => by cases hx⟩
  · rename_i e _
    split at h
    · obtain ⟨rfl, rfl⟩ := ok_pair_inj' h
      exact ⟨rfl, fun hx => by cases hx⟩
    · obtain ⟨⟨inL1D, mmu1⟩, h1, h2⟩ := bind_ok_inv' h
      simp only at h2
      split at h2
      · obtain ⟨mmu2, h3, h4⟩ := bind_ok_inv' h2
        obtain ⟨rfl, rfl⟩ := ok_pair_inj' h4
        exact ⟨rfl, fun _ => rfl⟩
      · simp only [pure, Except.pure] at h2
        injection h2 with h2
        have := congrArg Prod.fst h2
        simp only at this
        rw [← this]
        obtain ⟨q1, q2⟩ := euQueue5_executed { s with base := { s.base with executed := s.base.executed + 1 } } r e
          { s.base.eu with processing := false, runner := none } mmu1
        exact ⟨q1, fun _ => q2⟩

theorem euIssue5_exec {app : App} {s s2 : State} {eu : ExecUnit} {r : Runner} {out : EuOut}
    (h : Model.Mvp5.euIssue app s eu r = .ok (s2, out)) :
    (s2.base.executed = s.base.executed ∧ s2.base.eu.processing = eu.processing ∧ out = .none) ∨
    (s2.base.executed = s.base.executed + 1 ∧ (out = .none → s2.base.eu.processing = false)) := by
  obtain ⟨_, _, _, _, _, _, _, _, _, _, f11, _⟩ := assert_frame { instrs := [], labels := {} } s r
  unfold Model.Mvp5.euIssue at h
  simp only at h
  split at h
  · obtain ⟨rfl, rfl⟩ := ok_pair_inj' h; exact Or.inl ⟨f11, rfl, rfl⟩
  · split at h
    · split at h
      · obtain ⟨rfl, rfl⟩ := ok_pair_inj' h; exact Or.inl ⟨f11, rfl, rfl⟩
      · obtain ⟨⟨m, mmu1⟩, h1, h2⟩ := bind_ok_inv' h
        simp only at h2
        split at h2
        · obtain ⟨rfl, rfl⟩ := ok_pair_inj' h2; exact Or.inl ⟨f11, rfl, rfl⟩
        · obtain ⟨rfl, rfl⟩ := ok_pair_inj' h2; exact Or.inl ⟨f11, rfl, rfl⟩
    · obtain ⟨e1, e2⟩ := euRun5_exec h
      exact Or.inr ⟨by rw [e1]; show (assert s r).base.executed + 1 = _; rw [f11], e2⟩

theorem euMemDone5_exec {app : App} {s s2 : State} {eu : ExecUnit} {r : Runner} {out : EuOut}
    (h : Model.Mvp5.euMemDone app s eu r = .ok (s2, out)) : s2.base.executed = s.base.executed + 1 := by
  unfold Model.Mvp5.euMemDone at h
  split at h
  · exact (euRun5_exec h).1
  · split at h
    · cases h
    · obtain ⟨line, _, h2⟩ := bind_ok_inv' h
      obtain ⟨⟨mmu1, mem1⟩, h3, h4⟩ := bind_ok_inv' h2
      obtain ⟨⟨m, mmu2⟩, h5, h6⟩ := bind_ok_inv' h4
      simp only at h6
      split at h6
      · cases h6
      · exact (euRun5_exec h6).1

theorem euStep5_out_exec {app : App} {s s2 : State} {eu : ExecUnit} {out : EuOut}
    (h : Model.Mvp5.euStep app s eu = .ok (s2, out)) (hne : out ≠ .none) : s2.base.executed = s.base.executed + 1 := by
  unfold Model.Mvp5.euStep at h
  simp only at h
  split at h
  · obtain ⟨_, rfl⟩ := ok_pair_inj' h; exact absurd rfl hne
  · split at h
    · obtain ⟨_, rfl⟩ := ok_pair_inj' h; exact absurd rfl hne
    · split at h
      · cases h
      · rcases euIssue5_exec h with ⟨_, _, e⟩ | ⟨e, _⟩
        · exact absurd e hne
        · exact e

end Proofs.Mvp5

/-
  Proofs/Mvp5Rel.lean — MVP-5 against MVP-4: where the two execute units coincide (every instruction that
  is not an unconditional jump), and the simulation relation of MVP-5.
-/
import MajoranaVerif.Model.Mvp5
import MajoranaVerif.Proofs.Mvp4Total
import MajoranaVerif.Proofs.Mvp5Instr
open GoInt Model Model.Seq
open Proofs.Mvp4
open Proofs.Mmu (DWf Coh applyChanges base)

set_option linter.unusedSimpArgs false
set_option linter.unusedVariables false

namespace Proofs.Mvp5
open Model.Mvp5
open Model.Mvp4 (Runner ExecUnit EuOut Event Mode instrAt)

/-! ### the regenerated constants of the two packages agree (a changed constant re-opens this) -/

theorem cfg_eq : Model.Mvp5.cfg = Model.Mvp4.cfg := by decide
theorem constsAgree_true : constsAgree = true := by decide

/-- an MVP-4 result inside an MVP-5 state -/
def lift (s : State) (x : Model.Mvp4.State × EuOut) : State × EuOut := ({ s with base := x.1 }, x.2)

theorem map_ok {α β} (f : α → β) (x : α) : (Except.map f (Except.ok x : M α)) = .ok (f x) := rfl
theorem map_err {α β} (f : α → β) (e : Fault) : (Except.map f (Except.error e : M α)) = .error e := rfl

/-- for every instruction that is not an unconditional jump, `executeUnit.run` of MVP-5 IS MVP-4's -/
theorem euRun_nonjump (app : App) (s : State) (r : Runner) (m : List Byte)
    (hj : r.instr.instructionType.IsUnconditionalBranch = false) :
    Model.Mvp5.euRun app s r m = (Model.Mvp4.euRun app s.base r m).map (lift s) := by
  unfold Model.Mvp5.euRun Model.Mvp4.euRun
  simp only
  cases hr : r.instr.run s.base.ctx app.labels r.pc m 0#32 with
  | error f => cases f <;> rfl
  | ok e =>
    simp only
    by_cases hret : e.Return = true
    · simp only [hret, if_true]; rfl
    · have hret' : e.Return = false := by simpa using hret
      simp only [hret', Bool.false_eq_true, if_false]
      generalize (if e.MemoryChange = true then Model.Mmu.doesExecutionMemoryChangesExistsInL1D s.base.mmu e
          else (pure (false, s.base.mmu) : M (Bool × Model.Mmu.Mmu))) = d
      cases d with
      | error f => rfl
      | ok x =>
        obtain ⟨inL1D, mmu⟩ := x
        simp only [bind, Except.bind]
        cases inL1D with
        | true =>
          simp only [if_true]
          cases hw : Model.Mmu.writeExecutionMemoryChangesToL1D mmu e with
          | error f => rfl
          | ok mmu2 => rfl
        | false =>
          simp only [Bool.false_eq_true, if_false, pure, Except.pure, map_ok]
          unfold Model.Mvp5.euQueue lift
          simp only [hj, Bool.false_eq_true, if_false]


theorem lift_base (s : State) (b : Model.Mvp4.State) : lift { s with base := b } = lift s := rfl

/-- … and so is the completion of a memory read -/
theorem euMemDone_nonjump (app : App) (s : State) (eu : ExecUnit) (r : Runner)
    (hj : r.instr.instructionType.IsUnconditionalBranch = false) :
    Model.Mvp5.euMemDone app s eu r = (Model.Mvp4.euMemDone app s.base eu r).map (lift s) := by
  unfold Model.Mvp5.euMemDone Model.Mvp4.euMemDone
  rw [cfg_eq]
  cases eu.memory with
  | some m =>
    simp only
    rw [euRun_nonjump app _ r m hj]
    rfl
  | none =>
    simp only
    cases eu.addrs with
    | nil => rfl
    | cons a0 as =>
      simp only
      cases Model.Mmu.fetchCacheLine Model.Mvp4.cfg s.base.ctx.Memory a0 with
      | error f => rfl
      | ok line =>
        simp only [bind, Except.bind]
        cases Model.Mmu.pushLineToL1D Model.Mvp4.cfg s.base.mmu s.base.ctx.Memory a0 line with
        | error f => rfl
        | ok x =>
          obtain ⟨mmu, mem⟩ := x
          simp only
          cases Model.Mmu.getFromL1D mmu (a0 :: as) with
          | error f => rfl
          | ok y =>
            obtain ⟨m, mmu2⟩ := y
            simp only
            cases m with
            | none => rfl
            | some m =>
              simp only
              rw [euRun_nonjump app _ r m hj]
              rfl

end Proofs.Mvp5

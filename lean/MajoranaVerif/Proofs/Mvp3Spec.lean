/-
  Proofs/Mvp3Spec.lean — the hypothesis of the MVP-3 transparency theorems
  (`Model.Mvp3.accessesOk`: every access of the cache-less run is in bounds and inside
  one cache line) holds along every run the specification accepts as well-formed
  (naturally aligned in-bounds accesses): a naturally aligned access of 1, 2 or 4 bytes
  never crosses a line of 64 bytes.  This connects Props/C05 with Props/C01.
-/
import MajoranaVerif.Proofs.Refine
import MajoranaVerif.Proofs.Mvp3
open GoInt Model Model.Seq Proofs.Opcodes Proofs.Refine

namespace Proofs.Mvp3Spec
open Model.Mmu Model.Mvp3 Proofs.Mmu

/-! ### `MemoryChange` is only ever set together with a non-empty change list -/

def MCok (x : M Gen.Execution) : Prop := ∀ e, x = .ok e → e.MemoryChange = true → e.MemoryChanges ≠ []

theorem run_MCok (g : Gen.Instr) (ctx : Model.Context) (l : GoMap String Word) (pc : Word) (b : List Byte) (s : Word) :
    MCok (g.run ctx l pc b s) := by
  cases g <;> simp only [Gen.Instr.run] <;> intro e he hm <;> revert hm
  all_goals (simp only [Gen.op_add.Run, Gen.op_addi.Run, Gen.op_and.Run, Gen.op_andi.Run, Gen.op_auipc.Run, Gen.op_beq.Run,
    Gen.op_beqz.Run, Gen.op_bge.Run, Gen.op_bgeu.Run, Gen.op_ble.Run, Gen.op_blt.Run, Gen.op_bltu.Run, Gen.op_bne.Run,
    Gen.op_bnez.Run, Gen.op_div.Run, Gen.op_j.Run, Gen.op_jal.Run, Gen.op_jalr.Run, Gen.op_lui.Run, Gen.op_lb.Run,
    Gen.op_lh.Run, Gen.op_li.Run, Gen.op_lw.Run, Gen.op_nop.Run, Gen.op_mul.Run, Gen.op_mv.Run, Gen.op_or.Run,
    Gen.op_ori.Run, Gen.op_rem.Run, Gen.op_ret.Run, Gen.op_sb.Run, Gen.op_sh.Run, Gen.op_sll.Run, Gen.op_slli.Run,
    Gen.op_slt.Run, Gen.op_sltu.Run, Gen.op_slti.Run, Gen.op_sra.Run, Gen.op_srai.Run, Gen.op_srl.Run, Gen.op_srli.Run,
    Gen.op_sub.Run, Gen.op_sw.Run, Gen.op_xor.Run, Gen.op_xori.Run,
    bind, Except.bind, pure, Except.pure, throw, throwThe, MonadExceptOf.throw] at he)
  all_goals (repeat' split at he)
  all_goals (first | (cases he; done) | (injection he with he; subst he; simp; done) | (subst he; simp; done) | skip)

/-! ### a naturally aligned access stays inside one 64-byte line -/

theorem elem_ok (a : Word) (k w memLen : Nat) (hk : k < w) (hw : w = 1 ∨ w = 2 ∨ w = 4) (hal : a.toNat % w = 0)
    (hin : a.toNat + w ≤ memLen) (hs : memLen + 64 ≤ 2 ^ 31) :
    0 ≤ (a + BitVec.ofNat 32 k).toInt ∧ (a + BitVec.ofNat 32 k).toInt < memLen ∧
    (a + BitVec.ofNat 32 k).toInt = a.toInt + k ∧
    (a + BitVec.ofNat 32 k).toInt - Int.tmod (a + BitVec.ofNat 32 k).toInt 64 = a.toInt - Int.tmod a.toInt 64 ∧
    (a + BitVec.ofNat 32 k).toInt - Int.tmod (a + BitVec.ofNat 32 k).toInt 64 + 64 < 2 ^ 31 := by
  have h1 : (a + BitVec.ofNat 32 k).toNat = a.toNat + k := add_ofNat_toNat a k (by omega)
  have h2 : (a + BitVec.ofNat 32 k).toInt = ((a.toNat + k : Nat) : Int) := by
    rw [BitVec.toInt_eq_toNat_cond, h1]; simp; omega
  have h3 : a.toInt = (a.toNat : Int) := by
    rw [BitVec.toInt_eq_toNat_cond]; simp; omega
  rw [h2, h3, Int.tmod_eq_emod_of_nonneg (by omega), Int.tmod_eq_emod_of_nonneg (by omega)]
  rcases hw with rfl | rfl | rfl <;> omega

theorem loadOk_range (a : Word) (wd : Spec.Width) (memLen : Nat) (hal : a.toNat % wd.bytes = 0)
    (hin : a.toNat + wd.bytes ≤ memLen) (hs : memLen + 64 ≤ 2 ^ 31) :
    loadOk 64 memLen ((List.range wd.bytes).map (fun k => a + BitVec.ofNat 32 k)) = true := by
  have hw : wd.bytes = 1 ∨ wd.bytes = 2 ∨ wd.bytes = 4 := by cases wd <;> simp [Spec.Width.bytes]
  have hpos : 0 < wd.bytes := by omega
  have hlist : (List.range wd.bytes).map (fun k => a + BitVec.ofNat 32 k) =
      (a + BitVec.ofNat 32 0) :: ((List.range' 1 (wd.bytes - 1)).map (fun k => a + BitVec.ofNat 32 k)) := by
    have : wd.bytes = (wd.bytes - 1) + 1 := by omega
    rw [this, List.range_eq_range', List.range'_succ]
    simp
  have hall : ∀ x ∈ (List.range wd.bytes).map (fun k => a + BitVec.ofNat 32 k),
      0 ≤ x.toInt ∧ x.toInt < memLen ∧ x.toInt - Int.tmod x.toInt 64 = a.toInt - Int.tmod a.toInt 64 ∧
      x.toInt - Int.tmod x.toInt 64 + 64 < 2 ^ 31 := by
    intro x hx
    simp only [List.mem_map, List.mem_range] at hx
    obtain ⟨k, hk, rfl⟩ := hx
    have := elem_ok a k wd.bytes memLen hk hw hal hin hs
    exact ⟨this.1, this.2.1, this.2.2.2.1, this.2.2.2.2⟩
  have h0 := elem_ok a 0 wd.bytes memLen hpos hw hal hin hs
  rw [hlist] at hall ⊢
  unfold loadOk
  simp only [List.all_eq_true, Bool.and_eq_true, decide_eq_true_eq]
  intro x hx
  have := hall x hx
  exact ⟨⟨⟨this.1, this.2.1⟩, by rw [this.2.2.1, h0.2.2.2.1]⟩, this.2.2.2⟩

theorem consecutive_of (A : Int) : ∀ (chs : List (Word × Byte)) (k0 : Nat),
    (∀ (i : Nat) (h : i < chs.length), (chs[i]'h).1.toInt = A + k0 + i) → consecutive A chs k0 = true
  | [], _, _ => rfl
  | p :: ps, k0, h => by
    simp only [consecutive, Bool.and_eq_true, decide_eq_true_eq]
    constructor
    · have := h 0 (by simp); simpa using this
    · apply consecutive_of A ps (k0 + 1)
      intro i hi
      have := h (i + 1) (by simpa using hi)
      simp only [List.getElem_cons_succ] at this
      rw [this]; omega

theorem storeOk_range (a : Word) (wd : Spec.Width) (memLen : Nat) (hal : a.toNat % wd.bytes = 0)
    (hin : a.toNat + wd.bytes ≤ memLen) (hs : memLen + 64 ≤ 2 ^ 31) (chs : List (Word × Byte))
    (hmap : chs.map (·.1) = (List.range wd.bytes).map (fun k => a + BitVec.ofNat 32 k)) :
    storeOk 64 memLen chs = true := by
  have hw : wd.bytes = 1 ∨ wd.bytes = 2 ∨ wd.bytes = 4 := by cases wd <;> simp [Spec.Width.bytes]
  have hlen : chs.length = wd.bytes := by
    have := congrArg List.length hmap
    simpa using this
  have helem : ∀ (i : Nat) (h : i < chs.length), (chs[i]'h).1 = a + BitVec.ofNat 32 i := by
    intro i h
    have h1 : (chs.map (·.1))[i]? = some (chs[i]'h).1 := by simp [h]
    rw [hmap] at h1
    have h2 : ((List.range wd.bytes).map (fun k => a + BitVec.ofNat 32 k))[i]? = some (a + BitVec.ofNat 32 i) := by
      simp [hlen ▸ h]
    rw [h2] at h1
    injection h1 with h1
    exact h1.symm
  cases chs with
  | nil => simp at hlen; omega
  | cons p ps =>
    unfold storeOk
    simp only [Bool.and_eq_true]
    have hp : p.1 = a + BitVec.ofNat 32 0 := helem 0 (by simp)
    have h0 := elem_ok a 0 wd.bytes memLen (by omega) hw hal hin hs
    constructor
    · apply consecutive_of
      intro i hi
      rw [helem i hi, hp, h0.2.2.1]
      have := (elem_ok a i wd.bytes memLen (by rw [← hlen]; exact hi) hw hal hin hs).2.2.1
      rw [this]; omega
    · rw [hmap]; exact loadOk_range a wd memLen hal hin hs

/-! ### well-formedness along the specification run implies the hypothesis -/

theorem accessOk_of_spec (app : App) (hw : WfApp app) (ctx : Model.Context) (m : Spec.Machine) (hR : Rel ctx m)
    (hsz : m.mem.size + 64 ≤ 2 ^ 31)
    (pc : Word) (hpc : pc.toNat ≤ 4 * app.instrs.length)
    (hwf : ∀ why, Spec.step (specProg app) pc m ≠ .inl (.notWf why)) :
    accessOk 64 app ⟨ctx, pc⟩ = true := by
  have hidx := pc_index pc app.instrs.length hw.small hpc
  unfold accessOk
  simp only
  by_cases h1 : Int.tdiv pc.toInt 4 < app.instrs.length
  · have h2 : ¬ Int.tdiv pc.toInt 4 < 0 := by rw [hidx]; omega
    simp only [h1, not_true_eq_false, if_false, h2]
    cases hk : app.instrs[(Int.tdiv pc.toInt 4).toNat]? with
    | none => rfl
    | some g =>
      simp only
      have hk' : app.instrs[pc.toNat / 4]? = some g := by
        rw [hidx, Int.toNat_natCast] at hk; exact hk
      have hs : Spec.step (specProg app) pc m = Spec.stepInstr (specProg app) pc m (ofGen g) := by
        unfold Spec.step; simp only [specProg_instr, hk', Option.map_some]
      have hmem : g ∈ app.instrs := List.mem_of_getElem? hk'
      have hfwd := hw.nofwd g hmem
      have hz := hz_of_rel ctx m hR
      have hview := view_eq ctx m hR
      have hla : g.memoryRead ctx 0#32 = Spec.loadAddrs (ofGen g) m.rf := by
        have := Props.C02.load_addrs_ok g ctx 0#32 (by rw [hfwd]; exact hz)
        rw [hfwd, hview] at this
        exact this
      have hlen : ctx.Memory.length = m.mem.size := by rw [hR.mem]; simp
      rcases spec_step_some (specProg app) pc m (ofGen g) with ⟨why, hn⟩ | ⟨hm, _, _, _⟩ | ⟨hm, _, _, _, _⟩ | ⟨hm, _, _, _, _, _⟩
      · exact absurd (hs.trans hn) (hwf why)
      all_goals
        have hlo : loadOk 64 ctx.Memory.length (g.memoryRead ctx 0#32) = true := by
          rw [hla, hlen]
          cases hg : ofGen g with
          | load wd rd base off =>
            rw [hg] at hm
            unfold Spec.memCheck at hm
            simp only at hm
            have hacc : Spec.accessOk m wd (Spec.rd0 m.rf base + off) = true := by
              by_cases h : Spec.accessOk m wd (Spec.rd0 m.rf base + off) = true
              · exact h
              · simp [h] at hm
            unfold Spec.accessOk Spec.aligned at hacc
            simp only [Bool.and_eq_true, beq_iff_eq, decide_eq_true_eq] at hacc
            exact loadOk_range _ wd m.mem.size hacc.1 hacc.2 hsz
          | _ => simp [Spec.loadAddrs, loadOk]
        simp only [hlo, Bool.true_and]
        cases hb : (g.memoryRead ctx 0#32).mapM (readMem ctx.Memory) with
        | none => rfl
        | some bytes =>
          simp only
          cases hrun : g.run ctx app.labels pc bytes 0#32 with
          | error f => rfl
          | ok e =>
            simp only
            by_cases hflag : (!e.Return && !e.RegisterChange && e.MemoryChange) = true
            · simp only [hflag, if_true]
              simp only [Bool.and_eq_true, Bool.not_eq_true'] at hflag
              obtain ⟨⟨hret, hrc⟩, hmc⟩ := hflag
              -- the bytes are the specification's load bytes
              have h4 := load_bytes ctx m hR (ofGen g) hm
              rw [← hla, hb] at h4
              injection h4 with h4
              have hex := Props.C02.exec_ok g ctx app.labels pc bytes 0#32 (by rw [hfwd]; exact hz)
                (by rw [hfwd, hview, h4]; simp [Spec.loadBytes])
              rw [hfwd, hview, hrun] at hex
              have hne := run_MCok g ctx app.labels pc bytes 0#32 e hrun hmc
              cases hsp : Spec.exec (ofGen g) pc m.rf (labelsOf app.labels) bytes with
              | error er =>
                rw [hsp] at hex
                simp only [resOfGen, resOfSpec] at hex
                split at hex <;> cases hex
              | ok o =>
                rw [hsp] at hex
                obtain ⟨e', he', _, hout⟩ := resOfGen_eq_ok _ o (by simpa [resOfSpec] using hex)
                injection he' with he'
                subst he'
                have hsa := Props.C02.spec_store_addrs _ _ _ _ _ _ hsp
                have hom : o.mem = e.MemoryChanges := by rw [← hout]; simp [toOutcome, hmc]
                rw [hom] at hsa
                rw [hlen]
                cases hg : ofGen g with
                | store wd src base off =>
                  rw [hg] at hm hsa
                  unfold Spec.memCheck at hm
                  simp only at hm
                  have hacc : Spec.accessOk m wd (Spec.rd0 m.rf base + off) = true := by
                    by_cases h : Spec.accessOk m wd (Spec.rd0 m.rf base + off) = true
                    · exact h
                    · simp [h] at hm
                  unfold Spec.accessOk Spec.aligned at hacc
                  simp only [Bool.and_eq_true, beq_iff_eq, decide_eq_true_eq] at hacc
                  exact storeOk_range _ wd m.mem.size hacc.1 hacc.2 hsz _ (by rw [hsa]; rfl)
                | _ =>
                  rw [hg] at hsa
                  simp only [Spec.storeAddrs, List.map_eq_nil_iff] at hsa
                  exact absurd hsa hne
            · simp only [hflag]
              rfl
  · simp only [h1, not_false_eq_true, if_true]

theorem applyOutcome_size (m : Spec.Machine) (o : Spec.Outcome) : (Spec.applyOutcome m o).mem.size = m.mem.size := by
  unfold Spec.applyOutcome
  simp only
  generalize o.mem = l
  generalize m.mem = mm
  induction l generalizing mm with
  | nil => rfl
  | cons p ps ih => rw [List.foldl_cons, ih]; simp [Array.set!]

/-- a specification step does not change the size of the memory -/
theorem step_size (p : Spec.Asm.Program) (pc pc' : Word) (m m' : Spec.Machine) (ev : Spec.Event)
    (h : Spec.step p pc m = .inr (pc', m', ev)) : m'.mem.size = m.mem.size := by
  unfold Spec.step at h
  cases hk : p.instrs[pc.toNat / 4]? with
  | none => simp [hk] at h
  | some i =>
    simp only [hk] at h
    rcases spec_step_some p pc m i with ⟨why, hn⟩ | ⟨_, _, _, hn⟩ | ⟨_, _, _, _, hn⟩ | ⟨_, o, _, _, _, hn⟩
    · rw [hn] at h; cases h
    · rw [hn] at h; cases h
    · rw [hn] at h; cases h
    · rw [hn] at h
      simp only [Sum.inr.injEq, Prod.mk.injEq] at h
      rw [← h.2.1]
      exact applyOutcome_size m o

theorem accessesOk_of_spec (dc : Int) (app : App) (hw : WfApp app) :
    ∀ (fuel : Nat) (ctx : Model.Context) (m : Spec.Machine) (pc : Word) (k : Nat) (tr : Array Spec.Event),
      Rel ctx m → m.mem.size + 64 ≤ 2 ^ 31 → pc.toNat ≤ 4 * app.instrs.length →
      (∀ why, (Spec.run.go (specProg app) fuel pc m k tr).stop ≠ .notWf why) →
      accessesOk 64 dc app fuel ⟨ctx, pc⟩ = true := by
  intro fuel
  induction fuel with
  | zero => intro ctx m pc k tr _ _ _ _; rfl
  | succ fuel ih =>
    intro ctx m pc k tr hR hsz hpc hwf
    obtain ⟨hnext, hoff, hret, herr⟩ := step_sim dc app hw ctx m hR pc hpc
    unfold Spec.run.go at hwf
    unfold accessesOk
    simp only [Bool.and_eq_true]
    cases hs : Spec.step (specProg app) pc m with
    | inl s =>
      rw [hs] at hwf
      simp only at hwf
      have hacc : accessOk 64 app ⟨ctx, pc⟩ = true := by
        apply accessOk_of_spec app hw ctx m hR hsz pc hpc
        intro why hc
        rw [hs] at hc
        injection hc with hc
        exact hwf why hc
      refine ⟨hacc, ?_⟩
      cases s with
      | ret => obtain ⟨c, hc⟩ := hret hs; rw [hc]
      | offEnd => obtain ⟨c, hc⟩ := hoff hs; rw [hc]
      | error e => obtain ⟨c, hc⟩ := herr e hs; rw [hc]
      | notWf w => exact absurd rfl (hwf w)
    | inr x =>
      obtain ⟨pc', m', ev⟩ := x
      rw [hs] at hwf
      simp only at hwf
      have hacc : accessOk 64 app ⟨ctx, pc⟩ = true := by
        apply accessOk_of_spec app hw ctx m hR hsz pc hpc
        intro why hc
        rw [hs] at hc
        cases hc
      obtain ⟨ctx', c, hc, hR', hpc'⟩ := hnext pc' m' ev hs
      refine ⟨hacc, ?_⟩
      rw [hc]
      exact ih ctx' m' pc' _ _ hR' (by rw [step_size _ _ _ _ _ _ hs]; exact hsz) hpc' hwf

/-- `Model.Mvp3.wfAccesses` holds along every run the specification accepts as well-formed (naturally
aligned, in-bounds accesses), when the memory ends at least one line below 2^31 (so that no line's `int32`
upper bound wraps) -/
theorem spec_wfAccesses (app : App) (hw : WfApp app) (ctx : Model.Context) (m : Spec.Machine) (hR : Rel ctx m)
    (hsz : m.mem.size + 64 ≤ 2 ^ 31)
    (fuel : Nat) (hwf : ∀ why, (Spec.run (specProg app) m fuel).stop ≠ .notWf why) :
    wfAccesses app ⟨ctx, 0#32⟩ fuel = true := by
  unfold wfAccesses
  rw [Proofs.Mvp3.lineSize]
  unfold Spec.run at hwf
  have h250 : ¬ (specProg app).instrs.size ≥ 250 := by
    have := hw.small
    simp [specProg]; omega
  simp only [h250, if_false] at hwf
  exact accessesOk_of_spec _ app hw fuel ctx m 0#32 0 #[] hR hsz (by simp) hwf

end Proofs.Mvp3Spec

/-
  Proofs/Txn.lean — lemmas behind property C15 (and the order-independence lemmas
  reused by C08).  Core Lean only.

  maps / maps2  Go maps as association lists: `find?` after `set`, distinct keys, `lookup`
                is invariant under permutation; `obs_foldl`: a fold of per-key updates over
                an association list with distinct keys changes the observation at `k` exactly
                by the entry of `k` — whatever the iteration order (`obs_foldl_perm`).
  (scan order)  `down`, `upper`: the order in which `Find` / `FindValues` visit a ring.
  ring          `EntryOk L e h`: the ring `e` holds the last `L` values of the write history
                `h` (newest first); preserved by `Write` (`entryOk_write`, both the plain and
                the wrap-around case through `scan_step`).
  rat           `Abs r h` for a whole table; `read / find / values / findValues` on histories.
  reference     `youngest` on tag-monotone lists is the last element.
  ctxmap        transaction map: `applyMap`, `Commit`, `Rollback` (exact behaviour).
  ctxrat/ratmain rename table: `applyRat`, `RATCommit`, `RATRollback`, reads (exact behaviour).
  order         `MapEquiv / RatEquiv / CtxEquiv` and order independence of every
                `range`-over-a-map loop of risc/app.go; `RATFlush`, `InitRAT`.
-/
import MajoranaVerif.Model.Txn
open GoInt
set_option linter.unusedSectionVars false
set_option linter.unusedSimpArgs false

namespace Proofs.Txn

/-! ## 1. association lists -/
section maps
variable {κ ν : Type} [BEq κ] [LawfulBEq κ]

/-- distinct keys -/
def KeysNodup (l : List (κ × ν)) : Prop := (l.map (·.1)).Nodup

omit [LawfulBEq κ] in
theorem setList_cons_eq (k : κ) (v : ν) (a : κ) (b : ν) (rest : List (κ × ν)) (h : (a == k) = true) :
    GoMap.setList k v ((a, b) :: rest) = (k, v) :: rest := by
  simp [GoMap.setList, h]

omit [LawfulBEq κ] in
theorem setList_cons_ne (k : κ) (v : ν) (a : κ) (b : ν) (rest : List (κ × ν)) (h : (a == k) = false) :
    GoMap.setList k v ((a, b) :: rest) = (a, b) :: GoMap.setList k v rest := by
  simp [GoMap.setList, h]

theorem lookup_setList (k : κ) (v : ν) (l : List (κ × ν)) (k' : κ) :
    (GoMap.setList k v l).lookup k' = if k' == k then some v else l.lookup k' := by
  induction l with
  | nil => cases h : (k' == k) <;> simp [GoMap.setList, List.lookup, h]
  | cons p rest ih =>
    obtain ⟨a, b⟩ := p
    cases h : (a == k)
    · rw [setList_cons_ne _ _ _ _ _ h]
      simp only [List.lookup_cons, ih]
      cases h2 : (k' == a)
      · simp
      · have : k' = a := eq_of_beq h2
        subst this
        simp [h]
    · rw [setList_cons_eq _ _ _ _ _ h]
      have hak : a = k := eq_of_beq h
      subst hak
      simp only [List.lookup_cons]
      cases h2 : (k' == a) <;> simp

theorem find?_set (m : GoMap κ ν) (k : κ) (v : ν) (k' : κ) :
    (m.set k v).find? k' = if k' == k then some v else m.find? k' :=
  lookup_setList k v m.entries k'

theorem keys_setList (k : κ) (v : ν) (l : List (κ × ν)) :
    (GoMap.setList k v l).map (·.1) = if k ∈ l.map (·.1) then l.map (·.1) else l.map (·.1) ++ [k] := by
  induction l with
  | nil => simp [GoMap.setList]
  | cons p rest ih =>
    obtain ⟨a, b⟩ := p
    cases h : (a == k)
    · rw [setList_cons_ne _ _ _ _ _ h]
      have hne : ¬ a = k := fun e => by simp [e] at h
      have hne' : ¬ k = a := fun e => hne e.symm
      simp only [List.map_cons, ih, List.mem_cons, hne', false_or]
      split <;> simp
    · rw [setList_cons_eq _ _ _ _ _ h]
      have hak : a = k := eq_of_beq h
      subst hak
      simp

theorem keysNodup_setList (k : κ) (v : ν) (l : List (κ × ν)) (h : KeysNodup l) :
    KeysNodup (GoMap.setList k v l) := by
  unfold KeysNodup at *
  rw [keys_setList]
  split
  · exact h
  · rename_i hk
    rw [List.nodup_append]
    refine ⟨h, by simp, ?_⟩
    intro a ha b hb
    simp at hb
    subst hb
    intro e; subst e; exact hk ha

theorem lookup_perm {l₁ l₂ : List (κ × ν)} (hp : l₁.Perm l₂) (hn : KeysNodup l₁) (k : κ) :
    l₁.lookup k = l₂.lookup k := by
  induction hp with
  | nil => rfl
  | cons x _ ih =>
    obtain ⟨a, b⟩ := x
    simp only [List.lookup_cons]
    unfold KeysNodup at hn ih
    simp only [List.map_cons, List.nodup_cons] at hn
    rw [ih hn.2]
  | swap x y l =>
    obtain ⟨a, b⟩ := x
    obtain ⟨c, d⟩ := y
    unfold KeysNodup at hn
    simp only [List.map_cons, List.nodup_cons, List.mem_cons] at hn
    simp only [List.lookup_cons]
    cases h1 : (k == c) <;> cases h2 : (k == a) <;> simp
    have e1 : k = c := eq_of_beq h1
    have e2 : k = a := eq_of_beq h2
    exact absurd (e1.symm.trans e2) (fun e => hn.1 (Or.inl e))
  | trans p1 _ ih1 ih2 =>
    rw [ih1 hn, ih2]
    unfold KeysNodup at *
    exact (p1.map _).nodup_iff.mp hn


end maps

/-! ## the scan order of `Find` / `FindValues` -/

def down (n : Nat) : List Nat := (List.range n).reverse
def upper (L idx : Nat) : List Nat := (down L).filter (fun i => idx < i)

theorem scanOrder_eq (L idx : Nat) (w : Bool) :
    Model.Rat.scanOrder L idx w = down (idx + 1) ++ (if w then upper L idx else []) := rfl

theorem down_succ (n : Nat) : down (n + 1) = n :: down n := by
  simp [down, List.range_succ]

theorem mem_down {i n : Nat} : i ∈ down n ↔ i < n := by simp [down]

theorem length_down (n : Nat) : (down n).length = n := by simp [down]

theorem mem_upper {i L idx : Nat} : i ∈ upper L idx ↔ idx < i ∧ i < L := by
  simp [upper, mem_down]; omega

theorem upper_nil {L idx : Nat} (h : L ≤ idx + 1) : upper L idx = [] := by
  apply List.eq_nil_iff_forall_not_mem.mpr
  intro i hi
  rw [mem_upper] at hi
  omega

theorem upper_succ (L idx : Nat) : upper (L + 1) idx = if idx < L then L :: upper L idx else [] := by
  unfold upper
  rw [down_succ, List.filter_cons]
  by_cases h : idx < L
  · simp [h]
  · simp only [h, decide_false, if_false]
    apply List.eq_nil_iff_forall_not_mem.mpr
    intro i hi
    simp [mem_down] at hi
    omega

theorem length_upper (L idx : Nat) : (upper L idx).length = L - (idx + 1) := by
  induction L with
  | zero => simp [upper, down]
  | succ n ih =>
    rw [upper_succ]
    by_cases h : idx < n
    · simp [h, ih]; omega
    · simp [h]; omega

theorem upper_snoc {L idx : Nat} (h : idx + 1 < L) : upper L idx = upper L (idx + 1) ++ [idx + 1] := by
  induction L with
  | zero => omega
  | succ n ih =>
    rw [upper_succ, upper_succ]
    have h1 : idx < n := by omega
    by_cases h2 : idx + 1 < n
    · simp [h1, h2, ih h2]
    · have : n = idx + 1 := by omega
      subst this
      simp [upper_nil]

theorem down_eq_upper_zero (n : Nat) : down (n + 1) = upper (n + 1) 0 ++ [0] := by
  induction n with
  | zero => simp [down, upper]
  | succ n ih =>
    rw [down_succ, ih, upper_succ (n + 1)]
    simp


/-! ## folds of per-key updates -/
section maps2
variable {κ ν : Type} [BEq κ] [LawfulBEq κ]

theorem lookup_eq_none_of_not_mem {l : List (κ × ν)} {k : κ} (h : k ∉ l.map (·.1)) : l.lookup k = none := by
  rw [List.lookup_eq_none_iff]
  intro p hp
  simp only [bne_iff_ne, ne_eq]
  intro e
  exact h (by rw [e]; exact List.mem_map_of_mem hp)

/-- A fold of per-key updates over an association list with distinct keys: the observation at
key `k` changes exactly by the entry of `k` (if any) — whatever the iteration order. -/
theorem obs_foldl {σ α β : Type} (I : σ → Prop) (obs : σ → κ → α) (f : σ → κ × β → σ) (g : β → α → α)
    (hI : ∀ s p, I s → I (f s p))
    (hf : ∀ s p k, I s → obs (f s p) k = if k == p.1 then g p.2 (obs s k) else obs s k)
    (es : List (κ × β)) (hn : KeysNodup es) (s : σ) (hs : I s) (k : κ) :
    I (es.foldl f s) ∧
      obs (es.foldl f s) k = match es.lookup k with
        | some x => g x (obs s k)
        | none => obs s k := by
  induction es generalizing s with
  | nil => exact ⟨hs, rfl⟩
  | cons p rest ih =>
    obtain ⟨a, b⟩ := p
    unfold KeysNodup at hn ih
    simp only [List.map_cons, List.nodup_cons] at hn
    have := ih hn.2 (f s (a, b)) (hI _ _ hs)
    refine ⟨this.1, ?_⟩
    rw [List.foldl_cons, this.2, hf _ _ _ hs, List.lookup_cons]
    cases h : (k == a)
    · simp
    · have e : k = a := eq_of_beq h
      subst e
      simp [lookup_eq_none_of_not_mem hn.1]

/-- the same fold over a permutation of the entries gives the same observations -/
theorem obs_foldl_perm {σ α β : Type} (I : σ → Prop) (obs : σ → κ → α) (f : σ → κ × β → σ) (g : β → α → α)
    (hI : ∀ s p, I s → I (f s p))
    (hf : ∀ s p k, I s → obs (f s p) k = if k == p.1 then g p.2 (obs s k) else obs s k)
    {es es' : List (κ × β)} (hp : es.Perm es') (hn : KeysNodup es) (s : σ) (hs : I s) (k : κ) :
    obs (es.foldl f s) k = obs (es'.foldl f s) k := by
  have hn' : KeysNodup es' := by
    unfold KeysNodup at *
    exact (hp.map _).nodup_iff.mp hn
  rw [(obs_foldl I obs f g hI hf es hn s hs k).2, (obs_foldl I obs f g hI hf es' hn' s hs k).2,
    lookup_perm hp hn]

end maps2
/-! ## one ring -/
section ring
open Model
variable {ν : Type} [Inhabited ν]

/-- the entry `Write` stores for a key whose current entry is `old` -/
def newEntry (L : Nat) (old : Option (RatEntry ν)) (v : ν) : RatEntry ν :=
  match old with
  | none => { vals := (List.replicate L default).set 0 v, idx := 0 }
  | some e =>
    let idx := (e.idx + 1) % L
    { vals := e.vals.set idx v, idx := idx, wrapped := e.wrapped || idx == 0 }

/-- the slots of an entry in the order `Find` / `FindValues` visit them -/
def scan (L : Nat) (e : RatEntry ν) : List ν :=
  (Rat.scanOrder L e.idx e.wrapped).map (fun i => e.vals.getD i default)

/-- the ring `e` holds the last `L` values of the write history `h` (newest first) -/
structure EntryOk (L : Nat) (e : RatEntry ν) (h : List ν) : Prop where
  len : e.vals.length = L
  idx : e.idx < L
  scan : scan L e = h.take L
  ne : h ≠ []

omit [Inhabited ν] in
theorem getD_set_self {l : List ν} {i : Nat} (h : i < l.length) (v d : ν) : (l.set i v).getD i d = v := by
  simp [List.getD_eq_getElem?_getD, List.getElem?_set_self h]

omit [Inhabited ν] in
theorem getD_set_ne {l : List ν} {i j : Nat} (h : i ≠ j) (v d : ν) : (l.set i v).getD j d = l.getD j d := by
  simp [List.getD_eq_getElem?_getD, List.getElem?_set_ne h]

/-- the common step of both cases of `Write`: the new scan order is the written position
followed by the old order without its last (oldest) element, if the ring was full -/
theorem scan_step (L : Nat) (vals : List ν) (body T : List Nat) (pos : Nat) (v : ν) (h : List ν)
    (hT : T = [] ∨ (T = [pos] ∧ body.length + 1 = L))
    (hlen : body.length + 1 ≤ L) (hpos : pos ∉ body) (hlt : pos < vals.length)
    (hold : (body ++ T).map (fun i => vals.getD i default) = h.take L) :
    (pos :: body).map (fun i => (vals.set pos v).getD i default) = (v :: h).take L := by
  have hB : body.map (fun i => (vals.set pos v).getD i default) = body.map (fun i => vals.getD i default) := by
    apply List.map_congr_left
    intro i hi
    exact getD_set_ne (fun (e : pos = i) => hpos (by rw [e]; exact hi)) v default
  obtain ⟨L', rfl⟩ : ∃ L', L = L' + 1 := ⟨L - 1, by omega⟩
  rw [List.map_cons, getD_set_self hlt, hB, List.take_succ_cons]
  congr 1
  rcases hT with hT | ⟨hT, hl⟩
  · subst hT
    rw [List.append_nil] at hold
    have hl : (h.take (L' + 1)).length = body.length := by rw [← hold]; simp
    rw [List.length_take] at hl
    have hh : h.length = body.length := by omega
    rw [hold, List.take_of_length_le (by omega), List.take_of_length_le (by omega)]
  · subst hT
    have : (body.map (fun i => vals.getD i default)) = ((body ++ [pos]).map (fun i => vals.getD i default)).take L' := by
      rw [List.map_append, List.take_left' (by simp; omega)]
    rw [this, hold, List.take_take]
    congr 1
    omega

theorem entryOk_new {L : Nat} (hL : 1 ≤ L) (v : ν) : EntryOk L (newEntry L none v) [v] := by
  obtain ⟨L', rfl⟩ : ∃ L', L = L' + 1 := ⟨L - 1, by omega⟩
  refine ⟨by simp [newEntry], by simp [newEntry], ?_, by simp⟩
  simp [scan, newEntry, Rat.scanOrder, List.replicate_succ]

theorem entryOk_write {L : Nat} {e : RatEntry ν} {h : List ν} (ok : EntryOk L e h) (v : ν) :
    EntryOk L (newEntry L (some e) v) (v :: h) := by
  obtain ⟨hlen, hidx, hscan, _⟩ := ok
  by_cases hc : e.idx + 1 < L
  · -- no wrap-around
    have hm : (e.idx + 1) % L = e.idx + 1 := Nat.mod_eq_of_lt hc
    refine ⟨by simp [newEntry, hlen], by simp [newEntry, hm, hc], ?_, by simp⟩
    have hw : (e.wrapped || (e.idx + 1 == 0)) = e.wrapped := by simp
    simp only [scan, newEntry, hm, hw]
    rw [scanOrder_eq, down_succ, List.cons_append]
    simp only [scan] at hscan
    rw [scanOrder_eq] at hscan
    apply scan_step L e.vals (down (e.idx + 1) ++ (if e.wrapped then upper L (e.idx + 1) else []))
      (if e.wrapped then [e.idx + 1] else []) (e.idx + 1) v h
    · cases hwr : e.wrapped
      · simp
      · simp [length_down, length_upper]; omega
    · cases hwr : e.wrapped
      · simp [length_down]; omega
      · simp [length_down, length_upper]; omega
    · cases hwr : e.wrapped
      · simp [mem_down]
      · simp [mem_down, mem_upper]
    · omega
    · rw [← hscan]
      cases hwr : e.wrapped
      · simp
      · simp [upper_snoc hc]
  · -- wrap-around: the write goes to slot 0
    have hL : e.idx + 1 = L := by omega
    have hm : (e.idx + 1) % L = 0 := by rw [hL]; exact Nat.mod_self L
    refine ⟨by simp [newEntry, hlen], by simp [newEntry, hm]; omega, ?_, by simp⟩
    simp only [scan, newEntry, hm]
    have hw : (e.wrapped || (0 == 0)) = true := by simp
    rw [hw, scanOrder_eq]
    simp only [scan] at hscan
    rw [scanOrder_eq, upper_nil (by omega : L ≤ e.idx + 1)] at hscan
    have hnil : (if e.wrapped = true then ([] : List Nat) else []) = [] := by split <;> rfl
    rw [hnil, List.append_nil, down_eq_upper_zero e.idx, hL] at hscan
    show List.map _ (down (0 + 1) ++ upper L 0) = _
    rw [down_succ]
    show List.map _ (0 :: (down 0 ++ upper L 0)) = _
    have : down 0 = [] := rfl
    rw [this, List.nil_append]
    apply scan_step L e.vals (upper L 0) [0] 0 v h
    · right; exact ⟨rfl, by rw [length_upper]; omega⟩
    · rw [length_upper]; omega
    · simp [mem_upper]
    · omega
    · exact hscan

theorem read_of_entryOk {L : Nat} {e : RatEntry ν} {h : List ν} (ok : EntryOk L e h) :
    some (e.vals.getD e.idx default) = h.head? := by
  have h1 := ok.scan
  simp only [scan, scanOrder_eq, down_succ, List.cons_append, List.map_cons] at h1
  have hL : 0 < L := Nat.lt_of_le_of_lt (Nat.zero_le _) ok.idx
  cases h with
  | nil => exact absurd rfl ok.ne
  | cons a t =>
    obtain ⟨L', rfl⟩ : ∃ L', L = L' + 1 := ⟨L - 1, by omega⟩
    rw [List.take_succ_cons] at h1
    simp only [List.head?_cons]
    exact congrArg some (List.cons.inj h1).1

end ring
/-! ## the whole table -/
section rat
open Model
variable {κ ν : Type} [BEq κ] [LawfulBEq κ] [Inhabited ν]

omit [LawfulBEq κ] in
theorem write_eq (r : Rat κ ν) (k : κ) (v : ν) :
    r.write k v = { r with tab := r.tab.set k (newEntry r.length (r.tab.find? k) v) } := by
  unfold Rat.write newEntry
  cases r.tab.find? k <;> rfl

theorem length_write (r : Rat κ ν) (k : κ) (v : ν) : (r.write k v).length = r.length := by
  rw [write_eq]

theorem tab_write (r : Rat κ ν) (k : κ) (v : ν) (k' : κ) :
    (r.write k v).tab.find? k' =
      if k' == k then some (newEntry r.length (r.tab.find? k) v) else r.tab.find? k' := by
  rw [write_eq]; exact find?_set _ _ _ _

theorem keysNodup_write (r : Rat κ ν) (k : κ) (v : ν) (h : KeysNodup r.tab.entries) :
    KeysNodup (r.write k v).tab.entries := by
  rw [write_eq]; exact keysNodup_setList _ _ _ h

/-- `Abs r h`: for every key the ring holds the last `r.length` values of the key's write
history `h k` (newest first); keys never written have no entry. -/
def Abs (r : Rat κ ν) (h : κ → List ν) : Prop :=
  ∀ k, match r.tab.find? k with
    | none => h k = []
    | some e => EntryOk r.length e (h k)

omit [LawfulBEq κ] in
theorem abs_new (L : Nat) : Abs (Rat.new L : Rat κ ν) (fun _ => []) := by
  intro k; simp [Rat.new, GoMap.find?]

/-- one more write to `k` -/
def push (h : κ → List ν) (k : κ) (v : ν) : κ → List ν := fun k' => if k' == k then v :: h k' else h k'

theorem abs_write {r : Rat κ ν} {h : κ → List ν} (hL : 1 ≤ r.length) (a : Abs r h) (k : κ) (v : ν) :
    Abs (r.write k v) (push h k v) := by
  intro k'
  rw [tab_write, length_write]
  unfold push
  cases hk : (k' == k)
  · simp only [Bool.false_eq_true, if_false]; exact a k'
  · have e : k' = k := eq_of_beq hk
    subst e
    simp only [if_true]
    have ak := a k'
    cases hf : r.tab.find? k' with
    | none => rw [hf] at ak; rw [ak]; exact entryOk_new hL v
    | some e => rw [hf] at ak; exact entryOk_write ak v

omit [LawfulBEq κ] in
theorem read_abs {r : Rat κ ν} {h : κ → List ν} (a : Abs r h) (k : κ) :
    r.read k = match (h k).head? with
      | some v => (v, true)
      | none => (default, false) := by
  have ak := a k
  unfold Rat.read
  cases hf : r.tab.find? k with
  | none => rw [hf] at ak; simp [ak]
  | some e => rw [hf] at ak; simp only; rw [← read_of_entryOk ak]

theorem find_abs {r : Rat κ ν} {h : κ → List ν} (a : Abs r h) (k : κ) (p : ν → Bool) :
    r.find k p = match ((h k).take r.length).find? p with
      | some v => (v, true)
      | none => (default, false) := by
  have ak := a k
  unfold Rat.find
  cases hf : r.tab.find? k with
  | none => rw [hf] at ak; simp [ak]
  | some e =>
    rw [hf] at ak
    simp only
    rw [← ak.scan, scan, List.find?_map, Function.comp_def]
    generalize List.find? (fun i => p (e.vals.getD i default)) (Rat.scanOrder r.length e.idx e.wrapped) = o
    cases o <;> rfl

theorem lookup_map_snd {α β : Type} (f : α → β) (l : List (κ × α)) (k : κ) :
    (l.map (fun p => (p.1, f p.2))).lookup k = (l.lookup k).map f := by
  induction l with
  | nil => rfl
  | cons p rest ih =>
    obtain ⟨a, b⟩ := p
    simp only [List.map_cons, List.lookup_cons, ih]
    cases (k == a) <;> rfl

theorem lookup_filterMap_snd {α β : Type} (f : α → Option β) (l : List (κ × α)) (hn : KeysNodup l) (k : κ) :
    (l.filterMap (fun p => (f p.2).map (fun b => (p.1, b)))).lookup k = (l.lookup k).bind f := by
  induction l with
  | nil => rfl
  | cons p rest ih =>
    obtain ⟨a, b⟩ := p
    unfold KeysNodup at hn ih
    simp only [List.map_cons, List.nodup_cons] at hn
    rw [List.filterMap_cons, List.lookup_cons]
    cases hk : (k == a)
    · cases hfb : f b
      · simp [ih hn.2]
      · simp [List.lookup_cons, hk, ih hn.2]
    · have e : k = a := eq_of_beq hk
      subst e
      cases hfb : f b
      · simp only [Option.map_none, Option.bind_some, hfb]
        rw [ih hn.2, lookup_eq_none_of_not_mem hn.1]; rfl
      · simp [List.lookup_cons, hfb]

theorem keys_filterMap_sublist {α β : Type} (f : α → Option β) (l : List (κ × α)) :
    ((l.filterMap (fun p => (f p.2).map (fun b => (p.1, b)))).map (·.1)).Sublist (l.map (·.1)) := by
  induction l with
  | nil => simp
  | cons p rest ih =>
    rw [List.filterMap_cons]
    cases f p.2
    · simp only [Option.map_none, List.map_cons]; exact ih.cons _
    · simp only [Option.map_some, List.map_cons]; exact ih.cons_cons _

theorem values_eq (r : Rat κ ν) :
    r.values = r.tab.entries.map (fun p => (p.1, (fun (e : RatEntry ν) => e.vals.getD e.idx default) p.2)) := rfl

theorem findValues_eq (r : Rat κ ν) (p : ν → Bool) :
    r.findValues p = r.tab.entries.filterMap (fun q =>
      ((fun (e : RatEntry ν) => ((scan r.length e).find? p)) q.2).map (fun b => (q.1, b))) := by
  unfold Rat.findValues
  congr 1
  funext q
  obtain ⟨k, e⟩ := q
  simp only [scan, List.find?_map, Function.comp_def]
  generalize List.find? (fun i => p (e.vals.getD i default)) (Rat.scanOrder r.length e.idx e.wrapped) = o
  cases o <;> rfl

theorem keysNodup_values (r : Rat κ ν) (h : KeysNodup r.tab.entries) : KeysNodup r.values := by
  unfold KeysNodup at *
  rw [values_eq, List.map_map]
  exact h

theorem keysNodup_findValues (r : Rat κ ν) (p : ν → Bool) (h : KeysNodup r.tab.entries) :
    KeysNodup (r.findValues p) := by
  unfold KeysNodup at *
  rw [findValues_eq]
  exact (keys_filterMap_sublist (fun (e : RatEntry ν) => (scan r.length e).find? p) r.tab.entries).nodup h

theorem lookup_values_abs {r : Rat κ ν} {h : κ → List ν} (a : Abs r h) (k : κ) :
    r.values.lookup k = (h k).head? := by
  rw [values_eq, lookup_map_snd (fun (e : RatEntry ν) => e.vals.getD e.idx default)]
  have ak := a k
  show (r.tab.find? k).map _ = _
  cases hf : r.tab.find? k with
  | none => rw [hf] at ak; simp [ak]
  | some e => rw [hf] at ak; simp only [Option.map_some]; exact read_of_entryOk ak

theorem lookup_findValues_abs {r : Rat κ ν} {h : κ → List ν} (a : Abs r h) (hn : KeysNodup r.tab.entries)
    (p : ν → Bool) (k : κ) :
    (r.findValues p).lookup k = ((h k).take r.length).find? p := by
  rw [findValues_eq, lookup_filterMap_snd (fun (e : RatEntry ν) => (scan r.length e).find? p) _ hn]
  have ak := a k
  show (r.tab.find? k).bind _ = _
  cases hf : r.tab.find? k with
  | none => rw [hf] at ak; simp [ak]
  | some e => rw [hf] at ak; simp only [Option.bind_some]; rw [ak.scan]

end rat
/-! ## the reference -/
section reference
open Model Model.Txn

theorem youngest_foldl_sorted (l : List SpecWrite) (init : Option SpecWrite)
    (hs : l.Pairwise (fun a b => tagLe a.tag b.tag = true))
    (hi : ∀ b, init = some b → ∀ w ∈ l, tagLe b.tag w.tag = true) :
    l.foldl youngestStep init = l.getLast?.or init := by
  induction l generalizing init with
  | nil => simp
  | cons w rest ih =>
    rw [List.pairwise_cons] at hs
    rw [List.foldl_cons]
    have hstep : youngestStep init w = some w := by
      cases init with
      | none => rfl
      | some b => simp [youngestStep, hi b rfl w (by simp)]
    rw [hstep, ih (some w) hs.2 (by intro b hb w' hw'; cases hb; exact hs.1 w' hw'), List.getLast?_cons]
    cases rest.getLast? <;> simp

/-- on a list whose tags (weakly) increase, the youngest write is the last one -/
theorem youngest_sorted (l : List SpecWrite) (hs : l.Pairwise (fun a b => tagLe a.tag b.tag = true)) :
    youngest l = l.getLast? := by
  unfold youngest
  rw [youngest_foldl_sorted l none hs (by intro b hb; cases hb)]
  simp

theorem writesTo_filter (q : SpecWrite → Bool) (ws : List SpecWrite) (r : Reg) :
    writesTo (ws.filter q) r = (writesTo ws r).filter q := by
  simp only [writesTo, List.filter_filter]
  congr 1
  funext w
  exact Bool.and_comm _ _

theorem writesTo_cons (w : SpecWrite) (ws : List SpecWrite) (r : Reg) :
    writesTo (w :: ws) r = if w.reg = r then w :: writesTo ws r else writesTo ws r := by
  unfold writesTo
  rw [List.filter_cons]
  by_cases h : w.reg = r <;> simp [h]

theorem mem_writesTo {w : SpecWrite} {ws : List SpecWrite} {r : Reg} :
    w ∈ writesTo ws r ↔ w ∈ ws ∧ w.reg = r := by
  simp [writesTo]

theorem mono_all {ws : List SpecWrite} (h : TagMonotonePerReg ws) (r : Reg) : TagMonotoneAt ws r := by
  unfold TagMonotoneAt
  cases hw : writesTo ws r with
  | nil => exact List.Pairwise.nil
  | cons w rest =>
    have hm : w ∈ writesTo ws r := by rw [hw]; simp
    rw [mem_writesTo] at hm
    have := h w hm.1
    rw [hm.2, hw] at this
    exact this

theorem within_all {n : Nat} {ws : List SpecWrite} (h : WithinSlots n ws) (r : Reg) : WithinSlotsAt n ws r := by
  unfold WithinSlotsAt
  cases hw : writesTo ws r with
  | nil => simp
  | cons w rest =>
    have hm : w ∈ writesTo ws r := by rw [hw]; simp
    rw [mem_writesTo] at hm
    have := h w hm.1
    rw [hm.2, hw] at this
    exact this

/-- under `TagMonotonePerReg` the reference is "the last write to `r` (satisfying the filter)" -/
theorem refCommit_filter_mono (q : SpecWrite → Bool) {ws : List SpecWrite} {r : Reg} (h : TagMonotoneAt ws r)
    (old : Word) :
    refCommit (ws.filter q) r old =
      valueOr ((writesTo ws r).filter q).getLast? old := by
  unfold refCommit
  rw [writesTo_filter, youngest_sorted _ (List.Pairwise.filter q h)]

theorem refCommit_mono {ws : List SpecWrite} {r : Reg} (h : TagMonotoneAt ws r) (old : Word) :
    refCommit ws r old =
      valueOr (writesTo ws r).getLast? old := by
  unfold refCommit
  rw [youngest_sorted _ h]

end reference
/-! ## transaction map -/
section ctxmap
open Model Model.Txn Model.Context

theorem get1_eq {κ ν : Type} [BEq κ] [Inhabited ν] (m : GoMap κ ν) (k : κ) :
    m.get1 k = (m.find? k).getD default := by
  unfold GoMap.get1 GoMap.get
  cases m.find? k <;> rfl

theorem applyMap_cons (ctx : Context) (w : SpecWrite) (ws : List SpecWrite) :
    applyMap ctx (w :: ws) = applyMap (ctx.transactionWriteRegister w.reg w.value w.tag) ws := rfl

theorem applyMap_frame (ctx : Context) (ws : List SpecWrite) :
    (applyMap ctx ws).Registers = ctx.Registers ∧ (applyMap ctx ws).rat = ctx.rat ∧
    (applyMap ctx ws).committedRAT = ctx.committedRAT ∧ (applyMap ctx ws).transactionRAT = ctx.transactionRAT := by
  induction ws generalizing ctx with
  | nil => exact ⟨rfl, rfl, rfl, rfl⟩
  | cons w rest ih => rw [applyMap_cons]; exact ih _

theorem applyMap_keysNodup (ctx : Context) (ws : List SpecWrite) (h : KeysNodup ctx.Transaction.entries) :
    KeysNodup (applyMap ctx ws).Transaction.entries := by
  induction ws generalizing ctx with
  | nil => exact h
  | cons w rest ih => rw [applyMap_cons]; exact ih _ (keysNodup_setList _ _ _ h)

/-- the transaction map after the writes `ws`: per register the LAST write (the map has one slot) -/
theorem applyMap_txn (ctx : Context) (ws : List SpecWrite) (r : Reg) :
    (applyMap ctx ws).Transaction.find? r =
      ((writesTo ws r).getLast?.map toTU).or (ctx.Transaction.find? r) := by
  induction ws generalizing ctx with
  | nil => simp [applyMap, writesTo]
  | cons w rest ih =>
    rw [applyMap_cons, ih, writesTo_cons]
    simp only [transactionWriteRegister, find?_set]
    by_cases h : w.reg = r
    · subst h
      simp only [if_true, beq_self_eq_true, List.getLast?_cons]
      cases (writesTo rest w.reg).getLast? <;> simp [toTU]
    · have : (r == w.reg) = false := by simp; exact fun e => h e.symm
      simp [h, this]

theorem commitWith_find (es : List (Reg × transactionUnit)) (hn : KeysNodup es) (ctx : Context) (k : Reg) :
    (commitWith es ctx).Registers.find? k =
      match es.lookup k with
      | some tu => some tu.value
      | none => ctx.Registers.find? k := by
  have hf : ∀ (m : GoMap Reg Word) (p : Reg × transactionUnit) (k : Reg), True →
      (m.set p.1 p.2.value).find? k = if k == p.1 then (fun (tu : transactionUnit) (_ : Option Word) => some tu.value) p.2 (m.find? k) else m.find? k := by
    intro m p k _; simp only [find?_set]
  have := (obs_foldl (fun _ => True) (fun (m : GoMap Reg Word) k => m.find? k)
    (fun regs (p : Reg × transactionUnit) => regs.set p.1 p.2.value) (fun tu _ => some tu.value)
    (fun _ _ _ => trivial) hf es hn ctx.Registers trivial k).2
  show (es.foldl (fun regs (p : Reg × transactionUnit) => regs.set p.1 p.2.value) ctx.Registers).find? k = _
  rw [this]
  cases List.lookup k es <;> rfl

theorem rollbackWith_find (es : List (Reg × transactionUnit)) (hn : KeysNodup es) (ctx : Context) (s : Word)
    (k : Reg) :
    (rollbackWith es ctx s).Registers.find? k =
      match es.lookup k with
      | some tu => if tu.sequenceID.slt s then some tu.value else ctx.Registers.find? k
      | none => ctx.Registers.find? k := by
  have hf : ∀ (m : GoMap Reg Word) (p : Reg × transactionUnit) (k : Reg), True →
      (if p.2.sequenceID.slt s then m.set p.1 p.2.value else m).find? k =
        if k == p.1 then (fun (tu : transactionUnit) (o : Option Word) =>
          if tu.sequenceID.slt s then some tu.value else o) p.2 (m.find? k) else m.find? k := by
    intro m p k _
    cases hc : p.2.sequenceID.slt s
    · simp [hc]
    · simp [hc, find?_set]
  have := (obs_foldl (fun _ => True) (fun (m : GoMap Reg Word) k => m.find? k)
    (fun regs (p : Reg × transactionUnit) => if p.2.sequenceID.slt s then regs.set p.1 p.2.value else regs)
    (fun tu o => if tu.sequenceID.slt s then some tu.value else o)
    (fun _ _ _ => trivial) hf es hn ctx.Registers trivial k).2
  show (es.foldl (fun regs (p : Reg × transactionUnit) =>
    if p.2.sequenceID.slt s then regs.set p.1 p.2.value else regs) ctx.Registers).find? k = _
  rw [this]
  cases List.lookup k es <;> rfl

theorem cleanMap_find {ctx : Context} (h : CleanMap ctx) (r : Reg) : ctx.Transaction.find? r = none := by
  unfold CleanMap at h
  simp [GoMap.find?, h]

theorem cleanMap_nodup {ctx : Context} (h : CleanMap ctx) : KeysNodup ctx.Transaction.entries := by
  unfold CleanMap at h
  rw [h]; exact List.nodup_nil

/-- what `Commit` does, for ALL write sequences: every register gets its LAST written value -/
theorem map_commit_last {ctx : Context} (hc : CleanMap ctx) (ws : List SpecWrite) (r : Reg) :
    archMap (applyMap ctx ws).commit r = valueOr (writesTo ws r).getLast? (archMap ctx r) := by
  unfold archMap Context.commit
  rw [get1_eq, commitWith_find _ (applyMap_keysNodup _ _ (cleanMap_nodup hc))]
  show (match (applyMap ctx ws).Transaction.find? r with
    | some tu => some tu.value
    | none => (applyMap ctx ws).Registers.find? r).getD default = _
  rw [applyMap_txn, cleanMap_find hc, (applyMap_frame ctx ws).1, get1_eq]
  cases (writesTo ws r).getLast? <;> simp [valueOr, toTU]

/-- what `Rollback(s)` does, for ALL write sequences: the LAST written value if its tag is
older than `s`, otherwise the register is left alone -/
theorem map_rollback_last {ctx : Context} (hc : CleanMap ctx) (ws : List SpecWrite) (s : Word) (r : Reg) :
    archMap ((applyMap ctx ws).rollback s) r =
      match (writesTo ws r).getLast? with
      | some w => if tagLt w.tag s then w.value else archMap ctx r
      | none => archMap ctx r := by
  unfold archMap Context.rollback
  rw [get1_eq, rollbackWith_find _ (applyMap_keysNodup _ _ (cleanMap_nodup hc))]
  show (match (applyMap ctx ws).Transaction.find? r with
    | some tu => if tu.sequenceID.slt s then some tu.value else (applyMap ctx ws).Registers.find? r
    | none => (applyMap ctx ws).Registers.find? r).getD default = _
  rw [applyMap_txn, cleanMap_find hc, (applyMap_frame ctx ws).1, get1_eq]
  cases (writesTo ws r).getLast? with
  | none => simp
  | some w =>
    simp only [Option.map_some, toTU]
    cases h : w.tag.slt s
    · have h' : tagLt w.tag s = false := h
      simp [h, h']
    · have h' : tagLt w.tag s = true := h
      simp [h, h']

theorem commit_clean (ctx : Context) : CleanMap ctx.commit := rfl
theorem rollback_clean (ctx : Context) (s : Word) : CleanMap (ctx.rollback s) := rfl

end ctxmap
/-! ## rename table -/
section ctxrat
open Model Model.Txn Model.Context

section generic
variable {κ ν : Type} [BEq κ] [LawfulBEq κ] [Inhabited ν]

theorem mem_of_lookup {α : Type} {l : List (κ × α)} {k : κ} {v : α} (h : l.lookup k = some v) : (k, v) ∈ l := by
  induction l with
  | nil => simp at h
  | cons p rest ih =>
    obtain ⟨a, b⟩ := p
    rw [List.lookup_cons] at h
    cases hk : (k == a)
    · rw [hk] at h; exact List.mem_cons_of_mem _ (ih h)
    · rw [hk] at h
      have e : k = a := eq_of_beq hk
      cases h; subst e; exact List.mem_cons_self

theorem mem_setList {α : Type} {k : κ} {v : α} {l : List (κ × α)} {p : κ × α} (h : p ∈ GoMap.setList k v l) :
    p = (k, v) ∨ p ∈ l := by
  induction l with
  | nil => simp [GoMap.setList] at h; exact Or.inl h
  | cons q rest ih =>
    obtain ⟨a, b⟩ := q
    cases hk : (a == k)
    · rw [setList_cons_ne _ _ _ _ _ hk] at h
      rcases List.mem_cons.mp h with h | h
      · exact Or.inr (h ▸ List.mem_cons_self)
      · rcases ih h with h | h
        · exact Or.inl h
        · exact Or.inr (List.mem_cons_of_mem _ h)
    · rw [setList_cons_eq _ _ _ _ _ hk] at h
      rcases List.mem_cons.mp h with h | h
      · exact Or.inl h
      · exact Or.inr (List.mem_cons_of_mem _ h)

theorem wf_find {r : Rat κ ν} (hw : RatWf r) {k : κ} {e : RatEntry ν} (h : r.tab.find? k = some e) :
    e.vals.length = r.length := hw.2.1 (k, e) (mem_of_lookup h)

theorem newEntry_len {r : Rat κ ν} (hw : RatWf r) (k : κ) (v : ν) :
    (newEntry r.length (r.tab.find? k) v).vals.length = r.length := by
  cases h : r.tab.find? k with
  | none => simp [newEntry]
  | some e => simp [newEntry, wf_find hw h]

theorem wf_new (L : Nat) (hL : 1 ≤ L) : RatWf (Rat.new L : Rat κ ν) := ⟨hL, by simp [Rat.new], by simp [Rat.new]⟩

theorem wf_write {r : Rat κ ν} (hw : RatWf r) (k : κ) (v : ν) : RatWf (r.write k v) := by
  refine ⟨by rw [length_write]; exact hw.1, ?_, keysNodup_write _ _ _ hw.2.2⟩
  intro p hp
  rw [length_write]
  rw [write_eq] at hp
  rcases mem_setList hp with h | h
  · rw [h]; exact newEntry_len hw k v
  · exact hw.2.1 p h

/-- `Read` after `Write` on a well-formed table -/
theorem read_write {r : Rat κ ν} (hw : RatWf r) (k : κ) (v : ν) (k' : κ) :
    (r.write k v).read k' = if k' == k then (v, true) else r.read k' := by
  unfold Rat.read
  rw [tab_write]
  cases hk : (k' == k)
  · simp
  · simp only [if_true]
    have hL := hw.1
    cases h : r.tab.find? k with
    | none =>
      simp only [newEntry]
      rw [getD_set_self (by simp; omega)]
    | some e =>
      simp only [newEntry]
      rw [getD_set_self (by rw [wf_find hw h]; exact Nat.mod_lt _ (by omega))]

end generic

theorem applyRat_cons (ctx : Context) (w : SpecWrite) (ws : List SpecWrite) :
    applyRat ctx (w :: ws) = applyRat (ctx.transactionRATWrite w.reg w.value w.tag) ws := rfl

theorem applyRat_frame (ctx : Context) (ws : List SpecWrite) :
    (applyRat ctx ws).Registers = ctx.Registers ∧ (applyRat ctx ws).rat = ctx.rat ∧
    (applyRat ctx ws).committedRAT = ctx.committedRAT ∧ (applyRat ctx ws).Transaction = ctx.Transaction ∧
    (applyRat ctx ws).transactionRAT.length = ctx.transactionRAT.length := by
  induction ws generalizing ctx with
  | nil => exact ⟨rfl, rfl, rfl, rfl, rfl⟩
  | cons w rest ih =>
    rw [applyRat_cons]
    have := ih (ctx.transactionRATWrite w.reg w.value w.tag)
    refine ⟨this.1, this.2.1, this.2.2.1, this.2.2.2.1, ?_⟩
    rw [this.2.2.2.2]; exact length_write _ _ _

theorem applyRat_keysNodup (ctx : Context) (ws : List SpecWrite) (h : KeysNodup ctx.transactionRAT.tab.entries) :
    KeysNodup (applyRat ctx ws).transactionRAT.tab.entries := by
  induction ws generalizing ctx with
  | nil => exact h
  | cons w rest ih => rw [applyRat_cons]; exact ih _ (keysNodup_write _ _ _ h)

/-- the transaction table after the writes `ws`: the ring of `r` holds the last `length`
writes to `r`, newest first -/
theorem applyRat_abs (ctx : Context) (ws : List SpecWrite) (h : Reg → List transactionUnit)
    (hL : 1 ≤ ctx.transactionRAT.length) (a : Abs ctx.transactionRAT h) :
    Abs (applyRat ctx ws).transactionRAT (fun r => ((writesTo ws r).map toTU).reverse ++ h r) := by
  induction ws generalizing ctx h with
  | nil => simpa [applyRat, writesTo] using a
  | cons w rest ih =>
    rw [applyRat_cons]
    have a' := abs_write hL a w.reg (toTU w)
    have := ih (ctx.transactionRATWrite w.reg w.value w.tag) _ (by
      show 1 ≤ (ctx.transactionRAT.write _ _).length
      rw [length_write]; exact hL) a'
    have hfun : (fun r => ((writesTo rest r).map toTU).reverse ++ push h w.reg (toTU w) r) =
        (fun r => ((writesTo (w :: rest) r).map toTU).reverse ++ h r) := by
      funext r
      rw [writesTo_cons]
      unfold push
      by_cases hr : w.reg = r
      · subst hr; simp
      · have : (r == w.reg) = false := by simp; exact fun e => hr e.symm
        simp [hr, this]
    rw [hfun] at this
    exact this

theorem cleanRat_abs {L : Nat} {ctx : Context} (hc : CleanRat L ctx) :
    Abs ctx.transactionRAT (fun _ => ([] : List transactionUnit)) := by
  intro k
  simp [GoMap.find?, hc.2.2.1]

theorem cleanRat_nodup {L : Nat} {ctx : Context} (hc : CleanRat L ctx) :
    KeysNodup ctx.transactionRAT.tab.entries := by
  rw [hc.2.2.1]; exact List.nodup_nil

/-- history of register `r` in the transaction table, newest first -/
def hist (ws : List SpecWrite) (r : Reg) : List transactionUnit := ((writesTo ws r).map toTU).reverse

theorem applyRat_abs_clean {L : Nat} {ctx : Context} (hc : CleanRat L ctx) (ws : List SpecWrite) :
    Abs (applyRat ctx ws).transactionRAT (hist ws) := by
  have := applyRat_abs ctx ws _ (by rw [hc.2.1]; exact hc.1) (cleanRat_abs hc)
  have h2 : (fun r => ((writesTo ws r).map toTU).reverse ++ ([] : List transactionUnit)) = hist ws := by
    funext r; simp [hist]
  rw [h2] at this
  exact this

theorem ratApplyWith_read (es : List (Reg × transactionUnit)) (hn : KeysNodup es) (ctx : Context)
    (hw : RatWf ctx.committedRAT) (k : Reg) :
    RatWf (ratApplyWith es ctx).committedRAT ∧
    (ratApplyWith es ctx).committedRAT.read k =
      match es.lookup k with
      | some tu => (tu.value, true)
      | none => ctx.committedRAT.read k := by
  have hf : ∀ (rat : Rat Reg Word) (p : Reg × transactionUnit) (k : Reg), RatWf rat →
      (rat.write p.1 p.2.value).read k =
        if k == p.1 then (fun (tu : transactionUnit) (_ : Word × Bool) => (tu.value, true)) p.2 (rat.read k)
        else rat.read k := by
    intro rat p k hw; exact read_write hw _ _ _
  have := obs_foldl (fun (rat : Rat Reg Word) => RatWf rat) (fun rat k => rat.read k)
    (fun rat (p : Reg × transactionUnit) => rat.write p.1 p.2.value) (fun tu _ => (tu.value, true))
    (fun rat p h => wf_write h _ _) hf es hn ctx.committedRAT hw k
  refine ⟨this.1, ?_⟩
  show (es.foldl (fun rat (p : Reg × transactionUnit) => rat.write p.1 p.2.value) ctx.committedRAT).read k = _
  rw [this.2]
  cases List.lookup k es <;> rfl

theorem ratApplyWith_clean {L : Nat} (es : List (Reg × transactionUnit)) (hn : KeysNodup es) (ctx : Context)
    (hL : 1 ≤ L) (hlen : ctx.transactionRAT.length = L) (hw : RatWf ctx.committedRAT) :
    CleanRat L (ratApplyWith es ctx) :=
  ⟨hL, hlen, rfl, (ratApplyWith_read es hn ctx hw 0).1⟩

end ctxrat
section ratmain
open Model Model.Txn Model.Context

theorem hist_head (ws : List SpecWrite) (r : Reg) :
    (hist ws r).head? = (writesTo ws r).getLast?.map toTU := by
  simp [hist, List.head?_reverse]

theorem hist_find (ws : List SpecWrite) (r : Reg) (L : Nat) (p : transactionUnit → Bool) :
    ((hist ws r).take L).find? p =
      (((writesTo ws r).reverse.take L).find? (fun w => p (toTU w))).map toTU := by
  unfold hist
  rw [← List.map_reverse, ← List.map_take, List.find?_map]
  rfl

/-- the newest `L` writes to `r`, newest first: what the ring of `r` holds -/
def ringOf (L : Nat) (ws : List SpecWrite) (r : Reg) : List SpecWrite := (writesTo ws r).reverse.take L

theorem ringOf_within {L : Nat} {ws : List SpecWrite} {r : Reg} (h : (writesTo ws r).length ≤ L)
    (q : SpecWrite → Bool) :
    (ringOf L ws r).find? q = ((writesTo ws r).filter q).getLast? := by
  unfold ringOf
  rw [List.take_of_length_le (by simpa using h), List.getLast?_filter]

theorem mem_ringOf {L : Nat} {ws : List SpecWrite} {r : Reg} {w : SpecWrite} (h : w ∈ ringOf L ws r) :
    w ∈ ws ∧ w.reg = r := by
  have := List.mem_of_mem_take h
  rw [List.mem_reverse, mem_writesTo] at this
  exact this

theorem applyRat_wf {L : Nat} {ctx : Context} (hc : CleanRat L ctx) (ws : List SpecWrite) :
    RatWf (applyRat ctx ws).committedRAT := by
  rw [(applyRat_frame ctx ws).2.2.1]; exact hc.2.2.2

theorem applyRat_len {L : Nat} {ctx : Context} (hc : CleanRat L ctx) (ws : List SpecWrite) :
    (applyRat ctx ws).transactionRAT.length = L := by
  rw [(applyRat_frame ctx ws).2.2.2.2]; exact hc.2.1

/-- what `RATCommit` does, for ALL write sequences and ring lengths: every register gets its
LAST written value -/
theorem rat_commit_last {L : Nat} {ctx : Context} (hc : CleanRat L ctx) (ws : List SpecWrite) (r : Reg) :
    archRat (applyRat ctx ws).ratCommit r = valueOr (writesTo ws r).getLast? (archRat ctx r) := by
  unfold archRat Context.ratCommit
  rw [(ratApplyWith_read _ (keysNodup_values _ (applyRat_keysNodup _ _ (cleanRat_nodup hc))) _
    (applyRat_wf hc ws) r).2, lookup_values_abs (applyRat_abs_clean hc ws), hist_head,
    (applyRat_frame ctx ws).2.2.1]
  cases (writesTo ws r).getLast? <;> simp [valueOr, toTU]

/-- what `RATRollback(s)` does, for ALL write sequences and ring lengths: the newest value
IN THE RING whose tag is older than `s`; the register is left alone if the ring has none -/
theorem rat_rollback_found {L : Nat} {ctx : Context} (hc : CleanRat L ctx) (ws : List SpecWrite) (s : Word)
    (r : Reg) :
    archRat ((applyRat ctx ws).ratRollback s) r =
      valueOr ((ringOf L ws r).find? (fun w => tagLt w.tag s)) (archRat ctx r) := by
  unfold archRat Context.ratRollback
  rw [(ratApplyWith_read _ (keysNodup_findValues _ _ (applyRat_keysNodup _ _ (cleanRat_nodup hc))) _
    (applyRat_wf hc ws) r).2,
    lookup_findValues_abs (applyRat_abs_clean hc ws) (applyRat_keysNodup _ _ (cleanRat_nodup hc)),
    hist_find, applyRat_len hc, (applyRat_frame ctx ws).2.2.1]
  show (match (((writesTo ws r).reverse.take L).find? (fun (w : SpecWrite) => tagLt w.tag s)).map toTU with
    | some tu => (tu.value, true)
    | none => ctx.committedRAT.read r).1 =
    valueOr (((writesTo ws r).reverse.take L).find? (fun (w : SpecWrite) => tagLt w.tag s)) _
  cases ((writesTo ws r).reverse.take L).find? (fun (w : SpecWrite) => tagLt w.tag s) <;> simp [valueOr, toTU]

theorem ratCommit_clean {L : Nat} {ctx : Context} (hc : CleanRat L ctx) (ws : List SpecWrite) :
    CleanRat L (applyRat ctx ws).ratCommit :=
  ratApplyWith_clean _ (keysNodup_values _ (applyRat_keysNodup _ _ (cleanRat_nodup hc))) _ hc.1
    (applyRat_len hc ws) (applyRat_wf hc ws)

theorem ratRollback_clean {L : Nat} {ctx : Context} (hc : CleanRat L ctx) (ws : List SpecWrite) (s : Word) :
    CleanRat L ((applyRat ctx ws).ratRollback s) :=
  ratApplyWith_clean _ (keysNodup_findValues _ _ (applyRat_keysNodup _ _ (cleanRat_nodup hc))) _ hc.1
    (applyRat_len hc ws) (applyRat_wf hc ws)

/-- `transactionRAT.Read(r)` after the writes: the last write to `r` -/
theorem rat_txread {L : Nat} {ctx : Context} (hc : CleanRat L ctx) (ws : List SpecWrite) (r : Reg) :
    (applyRat ctx ws).transactionRAT.read r =
      match (writesTo ws r).getLast? with
      | some w => (toTU w, true)
      | none => (default, false) := by
  rw [read_abs (applyRat_abs_clean hc ws), hist_head]
  cases (writesTo ws r).getLast? <;> rfl

/-- `transactionRAT.Find(r, p)` after the writes: the newest write in the ring satisfying `p` -/
theorem rat_txfind {L : Nat} {ctx : Context} (hc : CleanRat L ctx) (ws : List SpecWrite) (r : Reg)
    (p : transactionUnit → Bool) :
    (applyRat ctx ws).transactionRAT.find r p =
      match (ringOf L ws r).find? (fun w => p (toTU w)) with
      | some w => (toTU w, true)
      | none => (default, false) := by
  rw [find_abs (applyRat_abs_clean hc ws), hist_find, applyRat_len hc]
  unfold ringOf
  cases ((writesTo ws r).reverse.take L).find? (fun w => p (toTU w)) <;> rfl

end ratmain
/-! ## order independence, flush, init -/
section order
open Model Model.Txn Model.Context

/-- two Go maps with the same content (the association lists may list the keys in a
different order) -/
def MapEquiv {κ ν : Type} [BEq κ] (m₁ m₂ : GoMap κ ν) : Prop := ∀ k, m₁.find? k = m₂.find? k

/-- two rename tables with the same rings -/
def RatEquiv {κ ν : Type} [BEq κ] (r₁ r₂ : Rat κ ν) : Prop := r₁.length = r₂.length ∧ MapEquiv r₁.tab r₂.tab

/-- two contexts that agree on every map entry and every other field -/
structure CtxEquiv (c₁ c₂ : Context) : Prop where
  registers : MapEquiv c₁.Registers c₂.Registers
  transaction : MapEquiv c₁.Transaction c₂.Transaction
  pendingWrite : MapEquiv c₁.PendingWriteRegisters c₂.PendingWriteRegisters
  pendingRead : MapEquiv c₁.PendingReadRegisters c₂.PendingReadRegisters
  memory : c₁.Memory = c₂.Memory
  debug : c₁.Debug = c₂.Debug
  sequenceID : c₁.sequenceID = c₂.sequenceID
  committedRAT : RatEquiv c₁.committedRAT c₂.committedRAT
  transactionRAT : RatEquiv c₁.transactionRAT c₂.transactionRAT
  rat : c₁.rat = c₂.rat

theorem MapEquiv.refl {κ ν : Type} [BEq κ] (m : GoMap κ ν) : MapEquiv m m := fun _ => rfl
theorem RatEquiv.refl {κ ν : Type} [BEq κ] (r : Rat κ ν) : RatEquiv r r := ⟨rfl, fun _ => rfl⟩

/-- `Read` and `Find` only look at the ring of their key -/
theorem read_congr {κ ν : Type} [BEq κ] [Inhabited ν] {r₁ r₂ : Rat κ ν} (h : RatEquiv r₁ r₂) (k : κ) :
    r₁.read k = r₂.read k := by
  unfold Rat.read; rw [h.2 k]

theorem find_congr {κ ν : Type} [BEq κ] [Inhabited ν] {r₁ r₂ : Rat κ ν} (h : RatEquiv r₁ r₂) (k : κ)
    (p : ν → Bool) : r₁.find k p = r₂.find k p := by
  unfold Rat.find; rw [h.2 k, h.1]

/-- `for k, v := range m { regs[k] = f(v) }` (possibly guarded) does not depend on the
iteration order -/
theorem foldl_set_perm {β : Type} (upd : β → Option Word) {es es' : List (Reg × β)} (hp : es.Perm es')
    (hn : KeysNodup es) (m : GoMap Reg Word) :
    MapEquiv (es.foldl (fun regs p => match upd p.2 with | some v => regs.set p.1 v | none => regs) m)
      (es'.foldl (fun regs p => match upd p.2 with | some v => regs.set p.1 v | none => regs) m) := by
  intro k
  refine obs_foldl_perm (fun _ => True) (fun (m : GoMap Reg Word) k => m.find? k) _
    (fun x o => match upd x with | some v => some v | none => o) (fun _ _ _ => trivial) ?_ hp hn m trivial k
  intro m p k _
  cases upd p.2 with
  | none => simp
  | some v => simp [find?_set]

/-- `for k, v := range m { rat.Write(k, f(v)) }` does not depend on the iteration order -/
theorem foldl_write_perm {β : Type} (val : β → Word) {es es' : List (Reg × β)} (hp : es.Perm es')
    (hn : KeysNodup es) (rat : Rat Reg Word) :
    RatEquiv (es.foldl (fun rat p => rat.write p.1 (val p.2)) rat)
      (es'.foldl (fun rat p => rat.write p.1 (val p.2)) rat) := by
  have hn' : KeysNodup es' := by
    unfold KeysNodup at *
    exact (hp.map _).nodup_iff.mp hn
  have hI : ∀ (s : Rat Reg Word) (p : Reg × β), s.length = rat.length → (s.write p.1 (val p.2)).length = rat.length := by
    intro s p h; rw [length_write]; exact h
  have hf : ∀ (s : Rat Reg Word) (p : Reg × β) (k : Reg), s.length = rat.length →
      (s.write p.1 (val p.2)).tab.find? k =
        if k == p.1 then (fun (x : β) (o : Option (RatEntry Word)) => some (newEntry rat.length o (val x))) p.2 (s.tab.find? k)
        else s.tab.find? k := by
    intro s p k h
    rw [tab_write, h]
    cases hk : (k == p.1)
    · simp
    · have e : k = p.1 := eq_of_beq hk
      subst e; simp
  let g : β → Option (RatEntry Word) → Option (RatEntry Word) := fun x o => some (newEntry rat.length o (val x))
  constructor
  · rw [(obs_foldl (fun (s : Rat Reg Word) => s.length = rat.length) (fun s k => s.tab.find? k) _ g hI hf es hn rat rfl 0).1,
      (obs_foldl (fun (s : Rat Reg Word) => s.length = rat.length) (fun s k => s.tab.find? k) _ g hI hf es' hn' rat rfl 0).1]
  · intro k
    exact obs_foldl_perm (fun (s : Rat Reg Word) => s.length = rat.length) (fun s k => s.tab.find? k) _ g hI hf hp hn rat rfl k

theorem commitWith_perm {es es' : List (Reg × transactionUnit)} (hp : es.Perm es') (hn : KeysNodup es)
    (ctx : Context) : CtxEquiv (commitWith es ctx) (commitWith es' ctx) :=
  { registers := foldl_set_perm (fun (tu : transactionUnit) => some tu.value) hp hn ctx.Registers
    transaction := MapEquiv.refl _, pendingWrite := MapEquiv.refl _, pendingRead := MapEquiv.refl _
    memory := rfl, debug := rfl, sequenceID := rfl, committedRAT := RatEquiv.refl _
    transactionRAT := RatEquiv.refl _, rat := rfl }

theorem rollbackWith_perm {es es' : List (Reg × transactionUnit)} (hp : es.Perm es') (hn : KeysNodup es)
    (ctx : Context) (s : Word) : CtxEquiv (rollbackWith es ctx s) (rollbackWith es' ctx s) := by
  have h := foldl_set_perm (fun (tu : transactionUnit) => if tu.sequenceID.slt s then some tu.value else none)
    hp hn ctx.Registers
  have hfun : (fun (regs : GoMap Reg Word) (p : Reg × transactionUnit) =>
      match (if p.2.sequenceID.slt s then some p.2.value else none) with
      | some v => regs.set p.1 v
      | none => regs) =
      (fun regs p => if p.2.sequenceID.slt s then regs.set p.1 p.2.value else regs) := by
    funext regs p
    cases p.2.sequenceID.slt s <;> rfl
  rw [hfun] at h
  exact
    { registers := h
      transaction := MapEquiv.refl _, pendingWrite := MapEquiv.refl _, pendingRead := MapEquiv.refl _
      memory := rfl, debug := rfl, sequenceID := rfl, committedRAT := RatEquiv.refl _
      transactionRAT := RatEquiv.refl _, rat := rfl }

theorem initRATWith_perm {es es' : List (Reg × Word)} (hp : es.Perm es') (hn : KeysNodup es)
    (ctx : Context) : CtxEquiv (initRATWith es ctx) (initRATWith es' ctx) :=
  { registers := MapEquiv.refl _
    transaction := MapEquiv.refl _, pendingWrite := MapEquiv.refl _, pendingRead := MapEquiv.refl _
    memory := rfl, debug := rfl, sequenceID := rfl
    committedRAT := foldl_write_perm (fun (v : Word) => v) hp hn ctx.committedRAT
    transactionRAT := RatEquiv.refl _, rat := rfl }

theorem ratApplyWith_perm {es es' : List (Reg × transactionUnit)} (hp : es.Perm es') (hn : KeysNodup es)
    (ctx : Context) : CtxEquiv (ratApplyWith es ctx) (ratApplyWith es' ctx) :=
  { registers := MapEquiv.refl _
    transaction := MapEquiv.refl _, pendingWrite := MapEquiv.refl _, pendingRead := MapEquiv.refl _
    memory := rfl, debug := rfl, sequenceID := rfl
    committedRAT := foldl_write_perm (fun (tu : transactionUnit) => tu.value) hp hn ctx.committedRAT
    transactionRAT := RatEquiv.refl _, rat := rfl }

theorem ratFlushWith_perm {es es' : List (Reg × Word)} (hp : es.Perm es') (hn : KeysNodup es)
    (ctx : Context) : CtxEquiv (ratFlushWith es ctx) (ratFlushWith es' ctx) :=
  { registers := foldl_set_perm (fun (v : Word) => some v) hp hn ctx.Registers
    transaction := MapEquiv.refl _, pendingWrite := MapEquiv.refl _, pendingRead := MapEquiv.refl _
    memory := rfl, debug := rfl, sequenceID := rfl, committedRAT := RatEquiv.refl _
    transactionRAT := RatEquiv.refl _, rat := rfl }

/-- `RATFlush`: every register the committed table knows gets the table's newest value -/
theorem ratFlush_arch (ctx : Context) (hw : RatWf ctx.committedRAT) (r : Reg) :
    archMap ctx.ratFlush r = if (ctx.committedRAT.read r).2 then archRat ctx r else archMap ctx r := by
  have hf : ∀ (m : GoMap Reg Word) (p : Reg × Word) (k : Reg), True →
      (m.set p.1 p.2).find? k = if k == p.1 then (fun (v : Word) (_ : Option Word) => some v) p.2 (m.find? k) else m.find? k := by
    intro m p k _; simp only [find?_set]
  have := (obs_foldl (fun _ => True) (fun (m : GoMap Reg Word) k => m.find? k)
    (fun regs (p : Reg × Word) => regs.set p.1 p.2) (fun v _ => some v)
    (fun _ _ _ => trivial) hf ctx.committedRAT.values (keysNodup_values _ hw.2.2) ctx.Registers trivial r).2
  unfold archMap archRat
  rw [get1_eq, get1_eq]
  show ((ctx.committedRAT.values.foldl (fun regs (p : Reg × Word) => regs.set p.1 p.2) ctx.Registers).find? r).getD default = _
  rw [this, values_eq, lookup_map_snd (fun (e : RatEntry Word) => e.vals.getD e.idx default)]
  unfold Rat.read
  rw [show List.lookup r ctx.committedRAT.tab.entries = ctx.committedRAT.tab.find? r from rfl]
  cases ctx.committedRAT.tab.find? r <;> simp

/-- `InitRAT`: the committed table takes over every register of the register file -/
theorem initRAT_read (ctx : Context) (hn : KeysNodup ctx.Registers.entries) (hw : RatWf ctx.committedRAT) (r : Reg) :
    RatWf ctx.initRAT.committedRAT ∧
    ctx.initRAT.committedRAT.read r =
      match ctx.Registers.find? r with
      | some v => (v, true)
      | none => ctx.committedRAT.read r := by
  have hf : ∀ (rat : Rat Reg Word) (p : Reg × Word) (k : Reg), RatWf rat →
      (rat.write p.1 p.2).read k =
        if k == p.1 then (fun (v : Word) (_ : Word × Bool) => (v, true)) p.2 (rat.read k) else rat.read k := by
    intro rat p k hw; exact read_write hw _ _ _
  have := obs_foldl (fun (rat : Rat Reg Word) => RatWf rat) (fun rat k => rat.read k)
    (fun rat (p : Reg × Word) => rat.write p.1 p.2) (fun v _ => (v, true))
    (fun rat p h => wf_write h _ _) hf ctx.Registers.entries hn ctx.committedRAT hw r
  refine ⟨this.1, ?_⟩
  show (ctx.Registers.entries.foldl (fun rat (p : Reg × Word) => rat.write p.1 p.2) ctx.committedRAT).read r = _
  rw [this.2]
  rw [show List.lookup r ctx.Registers.entries = ctx.Registers.find? r from rfl]
  cases ctx.Registers.find? r <;> rfl

end order
end Proofs.Txn

/-
  Proofs/Mvp4Live.lean — liveness of the MVP-4 pipeline: no unit ever panics along a well-formed run, and
  every tick that does not execute an instruction decreases a natural-number measure (`phi`), so the run
  ends.  Together with the simulation theorem this gives totality (Props.C01.mvp4_total).

  The measure: `wW` (work left in the write unit and on the write bus) + the execute unit's countdown, or —
  when the execute unit is idle — the position of the oldest instruction in the front end (`frontW`).
-/
import MajoranaVerif.Proofs.Mvp4Rel
import MajoranaVerif.Proofs.Mvp3
open GoInt Model Model.Mvp4 Model.Seq
open Proofs.Mmu (DWf Coh applyChanges base)

set_option linter.unusedSimpArgs false
set_option linter.unusedVariables false

namespace Proofs.Mvp4

/-! ### the write side -/

/-- ticks the write unit needs for a queued result sitting in the `current` slot -/
def costCur : Option ExecCtx → Nat
  | none => 0
  | some ec => if isStore ec then Gen.Latency.MemoryAccess.toNat + 1 else 1

/-- … in the `pending` slot (one more tick for the shift) -/
def costPend : Option ExecCtx → Nat
  | none => 0
  | some ec => costCur (some ec) + 1

/-- work left on the write side -/
def wW (wu : WriteUnit) (bus : SimpleBus ExecCtx) : Nat :=
  (if wu.pendingMemoryWrite then wu.cycles.toNat else 0) + costCur bus.current + costPend bus.pending

/-- the extra facts about the scoreboards that liveness needs (the register scoreboard counts EXACTLY the queued
writers; every announced store is queued) -/
structure PwOk (ctx : Model.Context) (pwmi : List (Int × Int)) (q : List ExecCtx) : Prop where
  scoreUp : ∀ r, GoMap.get1 ctx.PendingWriteRegisters r ≤ (((q.flatMap (·.writeRegisters)).count r : Nat) : Int)
  pwSub : ∀ x ∈ pwmi, ∃ ec ∈ q, isStore ec = true ∧ ec.sequenceID = x.2 ∧ ∃ p ∈ ec.execution.MemoryChanges, lineOf p.1 = x.1
  nodup : pwmi.Nodup

theorem wW_nonstore_pop (bus : SimpleBus ExecCtx) (ec : ExecCtx) (hc : bus.current = some ec) (hns : isStore ec = false)
    (wu : WriteUnit) (hp : wu.pendingMemoryWrite = false) :
    wW wu bus.get.2 < wW wu bus := by
  unfold wW SimpleBus.get
  simp only [hp, Bool.false_eq_true, if_false, hc, costCur, hns, costPend]
  cases bus.pending with
  | none => simp [costCur, costPend]
  | some v => simp only [costCur, costPend]; omega


theorem memAccess_nat : (Gen.Latency.MemoryAccess.toNat : Int) = Gen.Latency.MemoryAccess := by decide
theorem memAccess_ge : 1 ≤ Gen.Latency.MemoryAccess := by decide

/-- **the write unit never panics and always makes progress**: with the back-end relation and the exact
scoreboards, `writeUnit.cycle` succeeds, keeps the scoreboard facts, never increases the work left on the write
side and strictly decreases it whenever there is any (`drainCond`). -/
theorem writeCore_live {ctx : Model.Context} {pwmi : List (Int × Int)} {bus : SimpleBus ExecCtx} {wu : WriteUnit}
    {l1d : LineCache.Cache} {sid : Int} {a : Arch}
    (hb : BackRel ctx pwmi bus.inside l1d sid a) (hp : PwOk ctx pwmi bus.inside)
    (hw : wu.pendingMemoryWrite = true → 1 ≤ wu.cycles) :
    ∃ ctx' pwmi' bus' wu', writeCore ctx pwmi bus wu = .ok (ctx', pwmi', bus', wu') ∧
      PwOk ctx' pwmi' bus'.inside ∧ (wu'.pendingMemoryWrite = true → 1 ≤ wu'.cycles) ∧
      wW wu' bus' ≤ wW wu bus ∧
      ((wu.pendingMemoryWrite = true ∨ bus.isEmpty = false) → wW wu' bus' < wW wu bus) ∧
      (wu.pendingMemoryWrite = false → bus.isEmpty = true → wu' = wu ∧ bus'.isEmpty = true) := by
  unfold writeCore
  by_cases hpd : wu.pendingMemoryWrite = true
  · -- counting down a memory write
    have h1 := hw hpd
    refine ⟨ctx, pwmi, bus, { pendingMemoryWrite := !(wu.cycles - 1 == 0), cycles := wu.cycles - 1 }, ?_, hp, ?_, ?_, ?_,
      fun hx => (by rw [hpd] at hx; cases hx)⟩
    · simp only [hpd, if_true]; rfl
    · intro hx
      simp only [Bool.not_eq_true', beq_eq_false_iff_ne, ne_eq] at hx
      show 1 ≤ wu.cycles - 1
      omega
    · unfold wW
      simp only [hpd, if_true]
      split <;> omega
    · intro _
      unfold wW
      simp only [hpd, if_true]
      split <;> omega
  · have hpd' : wu.pendingMemoryWrite = false := by simpa using hpd
    simp only [hpd', Bool.false_eq_true, if_false]
    cases hx : bus.get.1 with
    | none =>
      have hg : bus.get = (none, bus.get.2) := by rw [← hx]
      have hcur : bus.current = none := hx
      rw [hg]
      refine ⟨ctx, pwmi, bus.get.2, wu, rfl, ?_, hw, ?_, ?_, fun _ he => ⟨rfl, ?_⟩⟩
      rotate_left 3
      · unfold SimpleBus.isEmpty at he ⊢
        simp only [Bool.and_eq_true] at he
        simp [SimpleBus.get, he.1]
      · rw [bus_inside_of_get_none bus hx]; exact hp
      · unfold wW SimpleBus.get
        simp only [hpd', Bool.false_eq_true, if_false, hcur, costCur]
        cases bus.pending <;> simp [costCur, costPend]
      · intro hne
        rcases hne with h | h
        · exact h.elim
        · unfold wW SimpleBus.get
          simp only [hpd', Bool.false_eq_true, if_false, hcur, costCur]
          cases hpn : bus.pending with
          | none => simp [SimpleBus.isEmpty, hcur, hpn] at h
          | some v => simp [costCur, costPend]
    | some ec =>
      have hg : bus.get = (some ec, bus.get.2) := by rw [← hx]
      have hcur : bus.current = some ec := hx
      have hq : bus.inside = ec :: bus.get.2.inside := bus_inside_of_get_some bus ec hx
      rw [hg]
      simp only
      rw [hq] at hb hp
      have hshape := hb.shape ec (by simp)
      have hnonneg : ∀ r', 0 ≤ GoMap.get1 ctx.PendingWriteRegisters r' := fun r' =>
        Int.le_trans (Int.natCast_nonneg _) (hb.score r')
      by_cases hrc : ec.execution.RegisterChange = true
      · -- a register result
        have hns : isStore ec = false := by simp [isStore, hrc]
        simp only [hrc, if_true]
        refine ⟨_, pwmi, bus.get.2, wu, rfl, ?_, hw, Nat.le_of_lt (wW_nonstore_pop bus ec hcur hns wu hpd'),
          fun _ => wW_nonstore_pop bus ec hcur hns wu hpd', fun _ he => (by simp [SimpleBus.isEmpty, hcur] at he)⟩
        refine { scoreUp := ?_, pwSub := ?_, nodup := hp.nodup }
        · intro r
          have h1 := hb.score r
          have h2 := hp.scoreUp r
          rw [List.flatMap_cons, List.count_append] at h1 h2
          have h3 := (get1_deletePending_le ec.writeRegisters ctx.PendingWriteRegisters r (by omega) hnonneg).1
          show GoMap.get1 (deletePendingWriteRegisters ctx.PendingWriteRegisters ec.writeRegisters) r ≤ _
          omega
        · intro x hx'
          obtain ⟨e', he', hs', hid, hl⟩ := hp.pwSub x hx'
          rcases List.mem_cons.mp he' with rfl | he''
          · rw [hns] at hs'; cases hs'
          · exact ⟨e', he'', hs', hid, hl⟩
      · have hrc' : ec.execution.RegisterChange = false := by simpa using hrc
        have hws : ec.writeRegisters = [] := by rw [hshape, hrc']; rfl
        simp only [hrc', Bool.false_eq_true, if_false]
        have hscore : ∀ r, GoMap.get1 ctx.PendingWriteRegisters r ≤
            ((((bus.get.2.inside).flatMap (·.writeRegisters)).count r : Nat) : Int) := by
          intro r
          have h2 := hp.scoreUp r
          rw [List.flatMap_cons, hws, List.nil_append] at h2
          exact h2
        by_cases hmc : ec.execution.MemoryChange = true
        · -- a store
          have hst : isStore ec = true := by simp [isStore, hrc', hmc]
          simp only [hmc, if_true]
          have hok := hb.stOk ec (by simp) hst
          have hlen := hb.len
          have hwm := Proofs.Mmu.writeMemory_ok ec.execution ctx
            (fun p hp' => by have := storeOk_inb hok p hp'; rw [hlen] at this; exact this)
          rw [hwm]
          simp only
          obtain ⟨p0, ps, hchs, _, hall⟩ := Proofs.Mmu.storeOk_spec hok
          have hline : ∀ c ∈ p0 :: ps, lineOf c.1 = lineOf p0.1 := by
            intro c hc
            rw [lineOf_eq, lineOf_eq]
            exact (hall c.1 (by rw [hchs]; exact List.mem_map.mpr ⟨c, hc, rfl⟩)).2.2.1
          have hmem : (lineOf p0.1, ec.sequenceID) ∈ pwmi := hb.stPw ec (by simp) hst p0 (by rw [hchs]; simp)
          have hrel := releaseAll_ok ec.sequenceID (lineOf p0.1) p0 ps pwmi hline hmem
          rw [hchs, hrel]
          simp only [bind, Except.bind, pure, Except.pure]
          refine ⟨_, _, bus.get.2, _, rfl, ?_, fun _ => memAccess_ge, ?_, fun _ => ?_, fun _ he => (by simp [SimpleBus.isEmpty, hcur] at he)⟩
          · refine { scoreUp := hscore, pwSub := ?_, nodup := hp.nodup.erase _ }
            intro x hx'
            have hxm : x ∈ pwmi := List.mem_of_mem_erase hx'
            obtain ⟨e', he', hs', hid, q, hq', hl⟩ := hp.pwSub x hxm
            rcases List.mem_cons.mp he' with rfl | he''
            · -- the pair belongs to the store just performed: it has been erased
              exfalso
              have hq'' : q ∈ p0 :: ps := by rw [← hchs]; exact hq'
              have : x = (lineOf p0.1, e'.sequenceID) := by
                rw [← hline q hq'', hl, hid]
              rw [this] at hx'
              exact (List.Nodup.mem_erase_iff hp.nodup).mp hx' |>.1 rfl
            · exact ⟨e', he'', hs', hid, q, hq', hl⟩
          · unfold wW SimpleBus.get
            simp only [hpd', Bool.false_eq_true, if_false, hcur, costCur, hst, if_true]
            cases bus.pending with
            | none => simp [costCur, costPend]
            | some v => simp only [costCur, costPend]; omega
          · unfold wW SimpleBus.get
            simp only [hpd', Bool.false_eq_true, if_false, hcur, costCur, hst, if_true]
            cases bus.pending with
            | none => simp [costCur, costPend]
            | some v => simp only [costCur, costPend]; omega
        · -- neither
          have hmc' : ec.execution.MemoryChange = false := by simpa using hmc
          have hns : isStore ec = false := by simp [isStore, hmc']
          simp only [hmc', Bool.false_eq_true, if_false]
          refine ⟨ctx, pwmi, bus.get.2, wu, rfl, ?_, hw, Nat.le_of_lt (wW_nonstore_pop bus ec hcur hns wu hpd'),
            fun _ => wW_nonstore_pop bus ec hcur hns wu hpd', fun _ he => (by simp [SimpleBus.isEmpty, hcur] at he)⟩
          refine { scoreUp := hscore, pwSub := ?_, nodup := hp.nodup }
          intro x hx'
          obtain ⟨e', he', hs', hid, hl⟩ := hp.pwSub x hx'
          rcases List.mem_cons.mp he' with rfl | he''
          · rw [hns] at hs'; cases hs'
          · exact ⟨e', he'', hs', hid, hl⟩


theorem BackRel.pwOk {ctx pwmi q l1d sid a} (h : BackRel ctx pwmi q l1d sid a) : PwOk ctx pwmi q :=
  ⟨h.scoreUp, h.pwSub, h.pwNodup⟩

/-- the register interlock stalls only for a result that is still queued -/
theorem hazard_true {m : GoMap Reg Int} {rs : List Reg} (h : isWriteDataHazard m rs = true) :
    ∃ r, 0 < GoMap.get1 m r := by
  unfold isWriteDataHazard at h
  obtain ⟨r, _, hr⟩ := List.any_eq_true.mp h
  simp only [Bool.and_eq_true] at hr
  refine ⟨r, ?_⟩
  rw [get1_of_find?]
  cases hf : m.find? r with
  | none => rw [hf] at hr; simp at hr
  | some v =>
    rw [hf] at hr
    simp only [decide_eq_true_eq] at hr
    simp only [Option.getD_some]
    exact hr.2

theorem nonempty_of_hazard {ctx pwmi} {bus : SimpleBus ExecCtx} {l1d sid a} {rs : List Reg}
    (hb : BackRel ctx pwmi bus.inside l1d sid a) (h : isWriteDataHazard ctx.PendingWriteRegisters rs = true) :
    bus.isEmpty = false := by
  obtain ⟨r, hr⟩ := hazard_true h
  have h2 := hb.scoreUp r
  cases he : bus.isEmpty with
  | false => rfl
  | true =>
    have := (bus_isEmpty_iff bus).mp he
    rw [this] at h2
    simp at h2
    omega

theorem nonempty_of_pending {ctx pwmi} {bus : SimpleBus ExecCtx} {l1d sid a} {line : Int}
    (hb : BackRel ctx pwmi bus.inside l1d sid a) (h : pendingWriteMemoryIntention pwmi line = true) :
    bus.isEmpty = false := by
  unfold pendingWriteMemoryIntention at h
  obtain ⟨x, hx, _⟩ := List.any_eq_true.mp h
  obtain ⟨ec, hec, _⟩ := hb.pwSub x hx
  cases he : bus.isEmpty with
  | false => rfl
  | true =>
    have := (bus_isEmpty_iff bus).mp he
    rw [this] at hec
    cases hec

/-! ### the measure -/

/-- what the fetch unit still has to do before it hands over its pc -/
def fuW (app : App) (fu : FetchUnit) : Nat :=
  if fu.complete then 0
  else if pastEnd app fu.pc then 1
  else if fu.processing then 2 + fu.remainingCycles.toNat
  else 3 + Gen.Latency.MemoryAccess.toNat

/-- position of the oldest instruction in the front end (behind the execute unit) -/
def frontW (app : App) (e : SimpleBus Runner) (d : SimpleBus Word) (fu : FetchUnit) : Nat :=
  if e.current.isSome then 1
  else if e.pending.isSome then 2
  else if d.current.isSome then 3
  else if d.pending.isSome then 4
  else 5 + fuW app fu

/-- the execute unit's share of the measure -/
def euPhi (app : App) (s : State) : Nat :=
  if s.eu.pendingMemoryRead then s.eu.remainingCycles.toNat
  else if s.eu.processing then 400 + s.eu.remainingCycles.toNat
  else 500 + frontW app s.executeBus s.decodeBus s.fu

/-- **the measure**: strictly decreases in every tick that does not execute an instruction -/
def phi (app : App) (s : State) : Nat :=
  match s.mode with
  | .normal => wW s.wu s.writeBus + euPhi app s
  | .drainRet => wW s.wu s.writeBus
  | .drainFlush _ => 2000 + wW s.wu s.writeBus

/-- the invariants liveness needs on top of the simulation relation -/
structure Live (app : App) (s : State) : Prop where
  iwf : Proofs.Mvp3.IWf 64 s.mmu.l1i
  fuRem : s.fu.processing = true → 1 ≤ s.fu.remainingCycles
  wuCyc : s.wu.pendingMemoryWrite = true → 1 ≤ s.wu.cycles
  euRem : s.mode = .normal → s.eu.processing = true → 1 ≤ s.eu.remainingCycles
  euRemP : s.mode = .normal → s.eu.pendingMemoryRead = true →
    1 ≤ s.eu.remainingCycles ∧ s.eu.remainingCycles ≤ Gen.Latency.MemoryAccess
  dbus : ∀ pc ∈ s.decodeBus.inside, ∃ i, instrAt app pc = .ok i
  fuPc : s.fu.pc.toNat ≤ 4 * app.instrs.length + 4
  drain : s.mode ≠ .normal → drainCond s = true


/-! ### the fetch unit never panics and makes progress -/

theorem cfgI : cfg.l1ILineSize = ((64 : Nat) : Int) := by decide

theorem fetchStart_live {fu : FetchUnit} {mmu : Model.Mmu.Mmu} (hi : Proofs.Mvp3.IWf 64 mmu.l1i)
    (hp : fu.processing = false) :
    ∃ fu' mmu', fetchStart fu mmu = .ok (fu', mmu') ∧ Proofs.Mvp3.IWf 64 mmu'.l1i ∧ fu'.processing = true ∧
      fu'.pc = fu.pc ∧ fu'.complete = fu.complete ∧
      (fu'.remainingCycles = 1 ∨ fu'.remainingCycles = Gen.Latency.MemoryAccess) := by
  obtain ⟨u', f, hf, _, hi', _⟩ := Proofs.Mvp3.fetch_ok (cfg := cfg) cfgI hi fu.pc
  unfold Model.Mvp3.fetch at hf
  unfold fetchStart
  simp only [hp, Bool.not_false, if_true]
  cases hg : Model.Mmu.getFromL1I mmu [fu.pc] with
  | error e => simp [hg, bind, Except.bind] at hf
  | ok x =>
    obtain ⟨hit, m1⟩ := x
    simp only [hg, bind, Except.bind] at hf ⊢
    cases hit with
    | some v =>
      simp only [pure, Except.pure] at hf ⊢
      injection hf with hf
      simp only [Prod.mk.injEq] at hf
      obtain ⟨rfl, _⟩ := hf
      exact ⟨_, _, rfl, hi', rfl, rfl, rfl, Or.inl rfl⟩
    | none =>
      simp only at hf ⊢
      have hneg : ¬ cfg.l1ILineSize < 0 := by decide
      simp only [hneg, if_false, pure, Except.pure] at hf ⊢
      injection hf with hf
      simp only [Prod.mk.injEq] at hf
      obtain ⟨rfl, _⟩ := hf
      exact ⟨_, _, rfl, hi', rfl, rfl, rfl, Or.inr rfl⟩

theorem memAccess_toNat_pos : 1 ≤ Gen.Latency.MemoryAccess.toNat := by decide

theorem pc_succ_bound {app : App} (hsmall : app.instrs.length < 250) {pc : Word}
    (h1 : pc.toNat ≤ 4 * app.instrs.length + 4) : (pc + 4#32).toNat ≤ 4 * app.instrs.length + 8 := by
  rw [BitVec.toNat_add]
  have : (4#32 : BitVec 32).toNat = 4 := rfl
  rw [this]
  have : (pc.toNat + 4) % 2 ^ 32 = pc.toNat + 4 := Nat.mod_eq_of_lt (by omega)
  omega

/-- the next pc stays small as long as the current one is inside the program -/
theorem pc_succ_inside {app : App} (hsmall : app.instrs.length < 250) {pc : Word}
    (h1 : pc.toNat ≤ 4 * app.instrs.length + 4) (hpe : pastEnd app pc = false) :
    (pc + 4#32).toNat ≤ 4 * app.instrs.length + 4 ∧ ∃ i, instrAt app pc = .ok i := by
  have hlt : pc.toNat < 2 ^ 31 := by omega
  have hti : pc.toInt = pc.toNat := by
    rw [BitVec.toInt_eq_toNat_cond]; simp; omega
  unfold pastEnd at hpe
  simp only [decide_eq_false_iff_not, ge_iff_le, Int.not_le] at hpe
  rw [hti] at hpe
  have hidx : Int.tdiv (pc.toNat : Int) 4 = ((pc.toNat / 4 : Nat) : Int) := rfl
  rw [hidx] at hpe
  have hq : pc.toNat / 4 < app.instrs.length := by omega
  constructor
  · rw [BitVec.toNat_add]
    have : (4#32 : BitVec 32).toNat = 4 := rfl
    rw [this]
    have : (pc.toNat + 4) % 2 ^ 32 = pc.toNat + 4 := Nat.mod_eq_of_lt (by omega)
    omega
  · unfold instrAt
    simp only [hti, hidx]
    have h0 : ¬ ((pc.toNat / 4 : Nat) : Int) < 0 := by omega
    simp only [h0, if_false, Int.toNat_natCast]
    have : app.instrs[pc.toNat / 4]? = some (app.instrs[pc.toNat / 4]'hq) := List.getElem?_eq_getElem hq
    rw [this]
    exact ⟨_, rfl⟩


theorem frontW_le_of_fuW {app : App} (e : SimpleBus Runner) (d : SimpleBus Word) {fu fu' : FetchUnit}
    (h : fuW app fu' ≤ fuW app fu) : frontW app e d fu' ≤ frontW app e d fu := by
  unfold frontW
  split
  · exact Nat.le_refl _
  · split
    · exact Nat.le_refl _
    · split
      · exact Nat.le_refl _
      · split
        · exact Nat.le_refl _
        · omega

theorem frontW_empty {app : App} {e : SimpleBus Runner} {d : SimpleBus Word} (fu : FetchUnit)
    (h1 : e.current = none) (h2 : e.pending = none) (h3 : d.current = none) (h4 : d.pending = none) :
    frontW app e d fu = 5 + fuW app fu := by
  unfold frontW; simp [h1, h2, h3, h4]

theorem frontW_le_five {app : App} (e : SimpleBus Runner) (d : SimpleBus Word) (fu : FetchUnit) :
    frontW app e d fu ≤ 5 + fuW app fu := by
  unfold frontW
  split
  · omega
  · split
    · omega
    · split
      · omega
      · split <;> omega

theorem frontW_add {app : App} (e : SimpleBus Runner) (d : SimpleBus Word) (x : Word) (fu fu' : FetchUnit)
    (hpn : d.pending = none) :
    frontW app e (d.add x) fu' ≤ frontW app e d fu ∧
    (e.current = none → e.pending = none → d.current = none → frontW app e (d.add x) fu' < frontW app e d fu) := by
  cases h1 : e.current <;> cases h2 : e.pending <;> cases h3 : d.current <;>
    simp [frontW, SimpleBus.add, hpn, h1, h2, h3] <;> omega

theorem frontW_full {app : App} (e : SimpleBus Runner) (d : SimpleBus Word) (fu fu' : FetchUnit)
    (hps : d.pending.isSome = true) : frontW app e d fu' ≤ frontW app e d fu := by
  cases h1 : e.current <;> cases h2 : e.pending <;> cases h3 : d.current <;>
    simp [frontW, hps, h1, h2, h3]

/-- **the fetch unit never panics and makes progress**: it succeeds, keeps its invariants, only ever fills the
`pending` slot of the decode bus with a pc that has an instruction, never increases the front-end measure, and
strictly decreases it when the front end is empty and it is not complete. -/
theorem fetchCore_live {app : App} (hsmall : app.instrs.length < 250) {fu : FetchUnit} {mmu : Model.Mmu.Mmu}
    {bus : SimpleBus Word} (e : SimpleBus Runner)
    (hi : Proofs.Mvp3.IWf 64 mmu.l1i) (hr : fu.processing = true → 1 ≤ fu.remainingCycles)
    (hpcb : fu.pc.toNat ≤ 4 * app.instrs.length + 4) (hd : ∀ pc ∈ bus.inside, ∃ i, instrAt app pc = .ok i) :
    ∃ fu' mmu' bus', fetchCore app fu mmu bus = .ok (fu', mmu', bus') ∧ Proofs.Mvp3.IWf 64 mmu'.l1i ∧
      (fu'.processing = true → 1 ≤ fu'.remainingCycles) ∧ fu'.pc.toNat ≤ 4 * app.instrs.length + 4 ∧
      (∀ pc ∈ bus'.inside, ∃ i, instrAt app pc = .ok i) ∧
      bus'.current = bus.current ∧ (bus.pending.isSome = true → bus'.pending = bus.pending) ∧
      frontW app e bus' fu' ≤ frontW app e bus fu ∧
      (e.current = none → e.pending = none → bus.current = none → bus.pending = none → fu.complete = false →
        frontW app e bus' fu' < frontW app e bus fu) ∧
      (fu.complete = true → fu' = fu ∧ bus' = bus) := by
  by_cases hc : fu.complete = true
  · have heq : fetchCore app fu mmu bus = .ok (fu, mmu, bus) := by unfold fetchCore; simp only [hc, if_true]; rfl
    exact ⟨fu, mmu, bus, heq, hi, hr, hpcb, hd, rfl, fun _ => rfl, Nat.le_refl _,
      fun _ _ _ _ hx => (by rw [hc] at hx; cases hx), fun _ => ⟨rfl, rfl⟩⟩
  · have hc' : fu.complete = false := by simpa using hc
    by_cases hpe : pastEnd app fu.pc = true
    · have heq : fetchCore app fu mmu bus = .ok ({ fu with complete := true }, mmu, bus) := by
        unfold fetchCore; simp only [hc', Bool.false_eq_true, if_false, hpe, if_true]; rfl
      have hw : fuW app { fu with complete := true } ≤ fuW app fu := by
        unfold fuW; simp [hc', hpe]
      refine ⟨{ fu with complete := true }, mmu, bus, heq, hi, hr, hpcb, hd, rfl, fun _ => rfl,
        frontW_le_of_fuW e bus hw, ?_, fun hx => (by rw [hc'] at hx; cases hx)⟩
      intro h1 h2 h3 h4 _
      rw [frontW_empty _ h1 h2 h3 h4, frontW_empty _ h1 h2 h3 h4]
      unfold fuW; simp [hc', hpe]
    · have hpe' : pastEnd app fu.pc = false := by simpa using hpe
      -- the start of a fetch
      have hstart : ∃ fu1 m1, fetchStart fu mmu = .ok (fu1, m1) ∧ Proofs.Mvp3.IWf 64 m1.l1i ∧ fu1.processing = true ∧
          fu1.pc = fu.pc ∧ fu1.complete = fu.complete ∧ 1 ≤ fu1.remainingCycles ∧
          2 + fu1.remainingCycles.toNat ≤ fuW app fu := by
        by_cases hp : fu.processing = true
        · refine ⟨fu, mmu, ?_, hi, hp, rfl, rfl, hr hp, ?_⟩
          · unfold fetchStart; simp [hp]; rfl
          · unfold fuW; simp [hc', hpe', hp]
        · have hp' : fu.processing = false := by simpa using hp
          obtain ⟨fu1, m1, h1, h2, h3, h4, h5, h6⟩ := fetchStart_live hi hp'
          refine ⟨fu1, m1, h1, h2, h3, h4, h5, ?_, ?_⟩
          · rcases h6 with h6 | h6 <;> rw [h6] <;> decide
          · unfold fuW; simp only [hc', hpe', hp', Bool.false_eq_true, if_false, if_true]
            rcases h6 with h6 | h6 <;> rw [h6]
            · have := memAccess_toNat_pos; simp
            · omega
      obtain ⟨fu1, m1, hs, hi1, hp1, hpc1, hc1, hr1, hw1⟩ := hstart
      by_cases h0 : (fu1.remainingCycles - 1 == 0) = true
      · by_cases hca : bus.canAdd = true
        · -- the pc goes onto the decode bus
          have heq : fetchCore app fu mmu bus = .ok ({ fu1 with remainingCycles := fu1.remainingCycles - 1, processing := false, pc := fu1.pc + 4#32, complete := pastEnd app (fu1.pc + 4#32) }, m1, bus.add fu1.pc) := by
            unfold fetchCore
            simp only [hc', Bool.false_eq_true, if_false, hpe', hs, bind, Except.bind, h0, if_true, hca, Bool.not_true]
            rfl
          obtain ⟨hb1, hinst⟩ := pc_succ_inside hsmall hpcb hpe'
          have hpn : bus.pending = none := by
            unfold SimpleBus.canAdd at hca; cases hx : bus.pending <;> simp [hx] at hca ⊢
          refine ⟨_, m1, bus.add fu1.pc, heq, hi1, fun hx => (by simp at hx), (by rw [hpc1]; exact hb1), ?_, rfl,
            fun hx => (by rw [hpn] at hx; cases hx), ?_, ?_, fun hx => (by rw [hc'] at hx; cases hx)⟩
          · intro pc hpc
            rw [bus_add_inside _ _ hca] at hpc
            rcases List.mem_append.mp hpc with h | h
            · exact hd pc h
            · simp only [List.mem_singleton] at h; subst h; rw [hpc1]; exact hinst
          · exact (frontW_add e bus fu1.pc fu _ hpn).1
          · intro h1 h2 h3 _ _
            exact (frontW_add e bus fu1.pc fu _ hpn).2 h1 h2 h3
        · -- the decode bus is full: try again next tick
          have hca' : bus.canAdd = false := by simpa using hca
          have heq : fetchCore app fu mmu bus = .ok ({ fu1 with remainingCycles := 1 }, m1, bus) := by
            unfold fetchCore
            simp only [hc', Bool.false_eq_true, if_false, hpe', hs, bind, Except.bind, h0, if_true, hca', Bool.not_false]
            rfl
          have hps : bus.pending.isSome = true := by
            unfold SimpleBus.canAdd at hca'; cases hx : bus.pending <;> simp [hx] at hca' ⊢
          refine ⟨_, m1, bus, heq, hi1, fun _ => (by simp), (by rw [hpc1]; exact hpcb), hd, rfl, fun _ => rfl, ?_, ?_,
            fun hx => (by rw [hc'] at hx; cases hx)⟩
          · exact frontW_full e bus fu _ hps
          · intro _ _ _ h4 _
            rw [h4] at hps; cases hps
      · -- still counting
        have h0' : ¬ fu1.remainingCycles - 1 = 0 := by simpa using h0
        have heq : fetchCore app fu mmu bus = .ok ({ fu1 with remainingCycles := fu1.remainingCycles - 1 }, m1, bus) := by
          unfold fetchCore
          simp only [hc', Bool.false_eq_true, if_false, hpe', hs, bind, Except.bind, h0]
          rfl
        have hw : fuW app { fu1 with remainingCycles := fu1.remainingCycles - 1 } < fuW app fu := by
          have e1 : fuW app { fu1 with remainingCycles := fu1.remainingCycles - 1 } = 2 + (fu1.remainingCycles - 1).toNat := by
            unfold fuW
            simp only [hc1, hc', hpc1, hpe', hp1, Bool.false_eq_true, if_false, if_true]
          rw [e1]
          omega
        refine ⟨_, m1, bus, heq, hi1, fun _ => (by show 1 ≤ fu1.remainingCycles - 1; omega), (by rw [hpc1]; exact hpcb), hd, rfl,
          fun _ => rfl, frontW_le_of_fuW e bus (Nat.le_of_lt hw), ?_, fun hx => (by rw [hc'] at hx; cases hx)⟩
        intro h1 h2 h3 h4 _
        rw [frontW_empty _ h1 h2 h3 h4, frontW_empty _ h1 h2 h3 h4]
        omega


/-! ### the decode unit never panics and makes progress -/

theorem decodeCore_live {app : App} {d : SimpleBus Word} {e : SimpleBus Runner} (fu : FetchUnit)
    (hd : ∀ pc ∈ d.inside, ∃ i, instrAt app pc = .ok i) :
    ∃ d' e', decodeCore app d e = .ok (d', e') ∧ (∀ pc ∈ d'.inside, ∃ i, instrAt app pc = .ok i) ∧
      e'.current = e.current ∧
      frontW app e' d' fu ≤ frontW app e d fu ∧
      (e.current = none → e.pending = none → (d.current.isSome = true ∨ d.pending.isSome = true) →
        frontW app e' d' fu < frontW app e d fu) ∧
      (d.current = none → d.pending = none → d'.current = none ∧ d'.pending = none ∧ e' = e) ∧
      (e.pending.isSome = true → d' = d ∧ e' = e) := by
  by_cases hca : e.canAdd = true
  · have hpn : e.pending = none := by
      unfold SimpleBus.canAdd at hca; cases hx : e.pending <;> simp [hx] at hca ⊢
    cases hx : d.get.1 with
    | none =>
      have hg : d.get = (none, d.get.2) := by rw [← hx]
      have hcur : d.current = none := hx
      have heq : decodeCore app d e = .ok (d.get.2, e) := by
        unfold decodeCore
        simp only [hca, Bool.not_true, Bool.false_eq_true, if_false]
        rw [hg]; rfl
      refine ⟨d.get.2, e, heq, ?_, rfl, ?_, ?_, fun _ h2 => ⟨h2, rfl, rfl⟩, fun hx' => (by rw [hpn] at hx'; cases hx')⟩
      · rw [bus_inside_of_get_none d hx]; exact hd
      · cases h1 : e.current <;> cases h4 : d.pending <;>
          simp [frontW, SimpleBus.get, hpn, hcur, h1, h4]
      · intro h1 _ h3
        cases h4 : d.pending with
        | none => rw [hcur, h4] at h3; simp at h3
        | some v => simp [frontW, SimpleBus.get, hpn, hcur, h1, h4]
    | some pc =>
      have hg : d.get = (some pc, d.get.2) := by rw [← hx]
      have hcur : d.current = some pc := hx
      have hins := bus_inside_of_get_some d pc hx
      obtain ⟨i, hi⟩ := hd pc (by rw [hins]; simp)
      have heq : decodeCore app d e = .ok (d.get.2, e.add { instr := i, pc := pc }) := by
        unfold decodeCore
        simp only [hca, Bool.not_true, Bool.false_eq_true, if_false]
        rw [hg]
        simp only [hi, bind, Except.bind, pure, Except.pure]
      refine ⟨d.get.2, e.add { instr := i, pc := pc }, heq, ?_, rfl, ?_, ?_, fun h1 _ => (by rw [hcur] at h1; cases h1),
        fun hx' => (by rw [hpn] at hx'; cases hx')⟩
      · intro pc' hpc'
        exact hd pc' (by rw [hins]; exact List.mem_cons_of_mem _ hpc')
      · cases h1 : e.current <;> cases h4 : d.pending <;>
          simp [frontW, SimpleBus.get, SimpleBus.add, hpn, hcur, h1, h4]
      · intro h1 _ _
        cases h4 : d.pending <;> simp [frontW, SimpleBus.get, SimpleBus.add, hpn, hcur, h1, h4]
  · have hca' : e.canAdd = false := by simpa using hca
    have hps : e.pending.isSome = true := by
      unfold SimpleBus.canAdd at hca'; cases hx : e.pending <;> simp [hx] at hca' ⊢
    have heq : decodeCore app d e = .ok (d, e) := by
      unfold decodeCore; simp only [hca', Bool.not_false, if_true]; rfl
    refine ⟨d, e, heq, hd, rfl, Nat.le_refl _, ?_, fun h1 h2 => ⟨h1, h2, rfl⟩, fun _ => ⟨rfl, rfl⟩⟩
    intro _ h2 _
    rw [h2] at hps; cases hps

theorem frontW_get {app : App} (e : SimpleBus Runner) (d : SimpleBus Word) (fu : FetchUnit) (h : e.current = none) :
    frontW app e.get.2 d fu ≤ frontW app e d fu ∧
    (e.pending.isSome = true → frontW app e.get.2 d fu < frontW app e d fu) := by
  cases h2 : e.pending <;> cases h3 : d.current <;> cases h4 : d.pending <;>
    simp [frontW, SimpleBus.get, h, h2, h3, h4]

end Proofs.Mvp4

/-
  Proofs/Mvp60Fast.lean — `Model.Mvp60.runFast` (what the driver evaluates and the tie compares with the Go machine)
  is `Model.Mvp60.run` (what the theorems are about): a tick in an `idle` state only counts down, the next state is
  idle again while every running counter stays positive, so `skip s` ticks are `bump s (skip s)`.
-/
import MajoranaVerif.Model.Mvp60Fast
open GoInt

namespace Proofs.Mvp60Fast
open Model Model.Mvp60
open Model.Seq (App Halt)

/-! ### the buses -/

theorem connect_idle {α : Type} (b : BufferedBus α) (c : Int) (h : busIdle b = true) : b.connect c = b := by
  unfold BufferedBus.connect
  by_cases hq : ((b.queue.length : Int) == b.queueLength) = true
  · simp only [hq, if_true]
  · simp only [hq]
    simp only [busIdle, Bool.or_eq_true, decide_eq_true_eq, List.isEmpty_iff] at h
    rcases h with h | h
    · exact absurd (by simpa using h) hq
    · cases b
      simp only at h
      subst h
      simp only [BufferedBus.connectLoop, Bool.false_eq_true, if_false]

theorem get_empty {α : Type} (b : BufferedBus α) (h : b.queue.isEmpty = true) : b.get = (none, b) := by
  simp only [List.isEmpty_iff] at h
  simp only [BufferedBus.get, h]

/-! ### the fetch unit -/

theorem fetchCycle_idle (app : App) (s : State) (h : fuIdle s = true) :
    fetchCycle app s = .ok { s with fu := bumpFu s.fu 1 } := by
  simp only [fuIdle, Bool.and_eq_true, Bool.not_eq_true'] at h
  obtain ⟨hc, h⟩ := h
  unfold fetchCycle fetchCore
  simp only [hc, Bool.false_eq_true, if_false]
  cases hco : s.fu.co with
  | done => simp only [bumpFu, hco, bind, Except.bind, pure, Except.pure]
  | wait =>
    simp only [hco, decide_eq_true_eq] at h
    have hne : (s.fu.remainingCycles != 0) = true := by simp only [bne_iff_ne, ne_eq]; omega
    simp only [hne, if_true, bumpFu, hco, bind, Except.bind, pure, Except.pure, Int.natCast_one, hc]
  | none =>
    simp only [hco, Bool.not_eq_true'] at h
    simp only [bumpFu, hco]
    split
    · simp only [bind, Except.bind, pure, Except.pure]
    · cases hn : s.decodeBus.outLength.toNat with
      | zero => simp only [coFetchLoop, bind, Except.bind, pure, Except.pure]
      | succ n => simp only [coFetchLoop, h, Bool.not_false, if_true, bind, Except.bind, pure, Except.pure]

/-! ### the decode unit -/

theorem decodeCycle_idle (app : App) (s : State) (h : duIdle s = true) : decodeCycle app s = .ok s := by
  simp only [duIdle, Bool.or_eq_true] at h
  unfold decodeCycle decodeCore
  rcases h with (h | h) | h
  · simp only [h, if_true, bind, Except.bind, pure, Except.pure]
  · by_cases hr : s.du.ret = true
    · simp only [hr, if_true, bind, Except.bind, pure, Except.pure]
    · simp only [hr, h, Bool.false_eq_true, if_false, if_true, bind, Except.bind, pure, Except.pure]
  · by_cases hr : s.du.ret = true
    · simp only [hr, if_true, bind, Except.bind, pure, Except.pure]
    · by_cases hp : s.du.pendingBranchResolution = true
      · simp only [hr, hp, Bool.false_eq_true, if_false, if_true, bind, Except.bind, pure, Except.pure]
      · simp only [hr, hp, Bool.false_eq_true, if_false, decodeLoop, get_empty _ h, bind, Except.bind, pure, Except.pure]

/-! ### the control unit -/

theorem handleRunner_blocked (ctx : Model.Context) (bus : BufferedBus Runner) (c : Int) (p : Int) (r : Runner)
    (h : (handleRunner ctx bus c p r).1.1 = false) : handleRunner ctx bus c p r = ((false, true), ctx, bus) := by
  unfold handleRunner at h ⊢
  by_cases h1 : (r.instr.instructionType == Gen.InstructionType.Ret && !bus.isEmpty) = true
  · simp only [h1, ↓reduceIte]
  · by_cases h2 : (decide (p > 0) && r.instr.instructionType.IsBranch) = true
    · simp only [h1, h2, ↓reduceIte, ite_self]
    · by_cases h3 : isDataHazard3 ctx r.instr = true
      · simp only [h1, h2, h3, ↓reduceIte, ite_self]
      · simp only [h1, h2, h3] at h
        cases h

theorem controlCycle_idle (s : State) (h : cuIdle s = true) : controlCycle s = s := by
  unfold controlCycle
  by_cases hc : s.executeBus.canAdd = true
  · simp only [hc, Bool.not_true, Bool.false_eq_true, if_false]
    simp only [cuIdle, hc, Bool.not_true, Bool.false_or] at h
    cases hit : s.cuPendings.iterator with
    | nil =>
      simp only [hit] at h
      simp only [cuPendingLoop]
      simp only [Bool.or_eq_true, Bool.not_eq_true'] at h
      rcases h with h | h
      · cases hn : s.controlBus.pendingRead.toNat + 1 with
        | zero => simp only [cuBusLoop, Bool.false_eq_true, ↓reduceIte]
        | succ n => simp only [cuBusLoop, h, Bool.not_false, Bool.false_eq_true, ↓reduceIte]
      · simp only [cuBusLoop, Bool.false_eq_true, ↓reduceIte]
        by_cases hg : (decide (s.executeBus.remainingToAdd > 0) && !s.cuPendings.isFull) = true
        · simp only [hg, Bool.not_true, Bool.false_eq_true, if_false, get_empty _ h]
        · simp only [hg, Bool.not_false, if_true]
    | cons e rest =>
      obtain ⟨hd, r⟩ := e
      simp only [hit, blocked, Bool.not_eq_true'] at h
      have hb := handleRunner_blocked _ _ _ _ _ h
      simp only [cuPendingLoop, hb, Bool.false_eq_true, if_false, if_true]
  · simp only [hc, Bool.not_false, if_true]

/-! ### the execute units -/

theorem set_self {α : Type} : ∀ (l : List α) (i : Nat) (a : α), l[i]? = some a → l.set i a = l
  | [], _, _, h => by simp at h
  | x :: xs, 0, a, h => by simp only [List.getElem?_cons_zero, Option.some.injEq] at h; subst h; rfl
  | x :: xs, i + 1, a, h => by
    simp only [List.getElem?_cons_succ] at h
    simp only [List.set_cons_succ, set_self xs i a h]

theorem setEu_self (s : State) (i : Nat) (eu : ExecUnit) (h : s.eus[i]? = some eu) : setEu s i eu = s := by
  simp only [setEu, set_self _ _ _ h]

theorem coPrepareRun_stuck (app : App) (s : State) (i : Nat) (eu : ExecUnit) (r : Runner)
    (hget : s.eus[i]? = some eu) (h : prepStuck s r = true) : coPrepareRun app s i eu r = .ok (s, .none) := by
  unfold coPrepareRun
  simp only [prepStuck, Bool.or_eq_true, Bool.not_eq_true', Bool.and_eq_true] at h
  by_cases hc : s.writeBus.canAdd = true
  · rcases h with h | ⟨⟨⟨hu, hcb⟩, htc⟩, hne, hl3⟩
    · rw [hc] at h; cases h
    · simp only [hc, Bool.not_true, Bool.false_eq_true, if_false, buAssert, hu, hcb, bind, Except.bind, pure, Except.pure]
      have hbu : ({ s.bu with toCheck := false } : BranchUnit) = s.bu := by
        cases hb : s.bu; rw [hb] at htc; simp only at htc; subst htc; rfl
      simp only [hbu, hne, Bool.not_false, if_true]
      split at hl3
      · rename_i m p heq
        simp only [Bool.and_eq_true, beq_iff_eq] at hl3
        obtain ⟨rfl, rfl⟩ := hl3
        simp only [heq, setEu_self s i eu hget]
      · cases hl3
  · simp only [hc, Bool.not_false, if_true, pure, Except.pure, setEu_self s i eu hget]

theorem euCycle_idle (app : App) (s : State) (i : Nat) (eu : ExecUnit) (hget : s.eus[i]? = some eu)
    (h : euIdle s eu = true) : euCycle app s i = .ok (setEu s i (bumpEu 1 eu), .none) := by
  unfold euCycle
  simp only [hget]
  unfold euIdle at h
  cases hco : eu.co with
  | none =>
    simp only [hco] at h
    have hb : bumpEu 1 eu = eu := by simp only [bumpEu, hco]
    simp only [get_empty _ h, pure, Except.pure, hb, setEu_self s i eu hget]
  | prepare =>
    simp only [hco] at h
    have hb : bumpEu 1 eu = eu := by simp only [bumpEu, hco]
    cases hr : eu.runner with
    | none => simp only [hr] at h; cases h
    | some r =>
      simp only [hr] at h
      simp only [coPrepareRun_stuck app s i eu r hget h, hb, setEu_self s i eu hget]
  | l3wait rem =>
    simp only [hco, decide_eq_true_eq] at h
    simp only [h, if_true, pure, Except.pure, bumpEu, hco, Int.natCast_one]
  | memwait rem addrs =>
    simp only [hco, decide_eq_true_eq] at h
    simp only [h, if_true, pure, Except.pure, bumpEu, hco, Int.natCast_one]

/-- bumping the units one after the other, by index, is mapping the bump over the list -/
theorem take_set_map {α : Type} (f : α → α) : ∀ (l : List α) (i : Nat) (a : α), l[i]? = some a →
    (l.set i (f a)).take (i + 1) ++ ((l.set i (f a)).drop (i + 1)).map f = l.take i ++ (l.drop i).map f
  | [], _, _, h => by simp at h
  | x :: xs, 0, a, h => by
    simp only [List.getElem?_cons_zero, Option.some.injEq] at h; subst h
    simp only [List.set_cons_zero, List.take_succ_cons, List.take_zero, List.drop_succ_cons, List.drop_zero, List.map_cons,
      List.nil_append, List.cons_append]
  | x :: xs, i + 1, a, h => by
    simp only [List.getElem?_cons_succ] at h
    have ih := take_set_map f xs i a h
    simp only [List.set_cons_succ, List.take_succ_cons, List.drop_succ_cons, List.cons_append, ih]

theorem get_lt {α : Type} (l : List α) (i : Nat) (h : i < l.length) : ∃ a, l[i]? = some a :=
  ⟨l[i], List.getElem?_eq_getElem h⟩

theorem eusCycle_idle (app : App) : ∀ (n i : Nat) (s : State) (acc : EuAcc), i + n = s.eus.length →
    (∀ j eu, i ≤ j → s.eus[j]? = some eu → euIdle s eu = true) →
    eusCycle app n i s acc = .ok ({ s with eus := s.eus.take i ++ (s.eus.drop i).map (bumpEu 1) }, acc) := by
  intro n
  induction n with
  | zero =>
    intro i s acc hlen _
    have hi : i = s.eus.length := by omega
    simp only [eusCycle, pure, Except.pure, hi, List.take_length, List.drop_length, List.map_nil, List.append_nil]
  | succ n ih =>
    intro i s acc hlen hidle
    obtain ⟨eu, hget⟩ := get_lt s.eus i (by omega)
    have h1 := euCycle_idle app s i eu hget (hidle i eu (Nat.le_refl _) hget)
    simp only [eusCycle, bind, Except.bind, h1]
    have hlen' : (i + 1) + n = (setEu s i (bumpEu 1 eu)).eus.length := by simp only [setEu, List.length_set]; omega
    have hidle' : ∀ j e, i + 1 ≤ j → (setEu s i (bumpEu 1 eu)).eus[j]? = some e → euIdle (setEu s i (bumpEu 1 eu)) e = true := by
      intro j e hj hg
      simp only [setEu] at hg
      rw [List.getElem?_set_ne (by omega)] at hg
      exact hidle j e (by omega) hg
    rw [ih (i + 1) _ acc hlen' hidle']
    simp only [setEu, take_set_map (bumpEu 1) s.eus i eu hget]

/-! ### the write units -/

theorem setWu_self (s : State) (j : Nat) (wu : WriteUnit) (h : s.wus[j]? = some wu) : setWu s j wu = s := by
  simp only [setWu, set_self _ _ _ h]

theorem wuCycle_idle (s : State) (j : Nat) (wu : WriteUnit) (before : Word) (hget : s.wus[j]? = some wu)
    (h : wuIdle s wu = true) : wuCycle s j before = .ok (setWu s j (bumpWu 1 wu)) := by
  unfold wuCycle
  simp only [hget]
  unfold wuIdle at h
  cases hco : wu.co with
  | wait rem =>
    simp only [hco, decide_eq_true_eq] at h
    simp only [h, if_true, pure, Except.pure, bumpWu, hco, Int.natCast_one]
  | none =>
    simp only [hco] at h
    have hb : bumpWu 1 wu = wu := by simp only [bumpWu, hco]
    simp only [get_empty _ h, pure, Except.pure, hb, setWu_self s j wu hget]

theorem wus_idle (before : Word) : ∀ (n i : Nat) (s : State), i + n = s.wus.length →
    (∀ j wu, i ≤ j → s.wus[j]? = some wu → wuIdle s wu = true) →
    (List.range' i n).foldlM (fun s j => wuCycle s j before) s =
      .ok { s with wus := s.wus.take i ++ (s.wus.drop i).map (bumpWu 1) } := by
  intro n
  induction n with
  | zero =>
    intro i s hlen _
    have hi : i = s.wus.length := by omega
    simp only [List.range'_zero, List.foldlM, pure, Except.pure, hi, List.take_length, List.drop_length, List.map_nil, List.append_nil]
  | succ n ih =>
    intro i s hlen hidle
    obtain ⟨wu, hget⟩ := get_lt s.wus i (by omega)
    have h1 := wuCycle_idle s i wu before hget (hidle i wu (Nat.le_refl _) hget)
    simp only [List.range'_succ, List.foldlM, bind, Except.bind, h1]
    have hlen' : (i + 1) + n = (setWu s i (bumpWu 1 wu)).wus.length := by simp only [setWu, List.length_set]; omega
    have hidle' : ∀ j w, i + 1 ≤ j → (setWu s i (bumpWu 1 wu)).wus[j]? = some w → wuIdle (setWu s i (bumpWu 1 wu)) w = true := by
      intro j w hj hg
      simp only [setWu] at hg
      rw [List.getElem?_set_ne (by omega)] at hg
      exact hidle j w (by omega) hg
    rw [ih (i + 1) _ hlen' hidle']
    simp only [setWu, take_set_map (bumpWu 1) s.wus i wu hget]

theorem wusCycle_idle (s : State) (h : s.wus.all (wuIdle s) = true) :
    wusCycle s = .ok { s with wus := s.wus.map (bumpWu 1) } := by
  unfold wusCycle
  rw [List.range_eq_range']
  have := wus_idle (BitVec.ofInt 32 (-1)) s.wus.length 0 s (by omega) (by
    intro j wu _ hg
    simp only [List.all_eq_true] at h
    exact h wu (List.mem_of_getElem? hg))
  simpa only [List.take_zero, List.drop_zero, List.nil_append] using this

/-! ### one idle tick -/

theorem handleRunner_push_indep (ctx : Model.Context) (bus : BufferedBus Runner) (c c' : Int) (p : Int) (r : Runner) :
    (handleRunner ctx bus c p r).1.1 = (handleRunner ctx bus c' p r).1.1 := by
  unfold handleRunner
  simp only
  split
  · rfl
  · split
    · rfl
    · split <;> rfl

theorem isEmpty_map_eu (l : List ExecUnit) (k : Nat) : (l.map (bumpEu k)).all ExecUnit.isEmpty = l.all ExecUnit.isEmpty := by
  simp only [List.all_map]
  congr 1
  funext eu
  simp only [Function.comp, ExecUnit.isEmpty, bumpEu]
  cases hco : eu.co <;> simp only [hco] <;> rfl

theorem isEmpty_map_wu (l : List WriteUnit) (k : Nat) : (l.map (bumpWu k)).all WriteUnit.isEmpty = l.all WriteUnit.isEmpty := by
  simp only [List.all_map]
  congr 1
  funext wu
  simp only [Function.comp, WriteUnit.isEmpty, bumpWu]
  cases hco : wu.co <;> simp only [hco] <;> rfl

theorem bumpFu_complete (fu : FetchUnit) (k : Nat) : (bumpFu fu k).complete = fu.complete := by
  simp only [bumpFu]; cases fu.co <;> rfl

theorem tick_normal (app : App) (s : State) (hm : s.mode = .normal) (h : idleNormal s = true) :
    cycleM app s = .ok (bump s 1, .running) := by
  simp only [idleNormal, Bool.and_eq_true, Bool.not_eq_true'] at h
  obtain ⟨⟨⟨⟨⟨⟨⟨⟨⟨b1, b2⟩, b3⟩, b4⟩, hfu⟩, hdu⟩, hcu⟩, heu⟩, hwu⟩, hne⟩ := h
  have hf := fetchCycle_idle app { s with cycles := s.cycles + 1 } hfu
  have hd := decodeCycle_idle app { s with cycles := s.cycles + 1, fu := bumpFu s.fu 1 } hdu
  have hcu' : cuIdle { s with cycles := s.cycles + 1, fu := bumpFu s.fu 1 } = true := by
    rw [← hcu]
    simp only [cuIdle, blocked]
    split
    · rename_i hd r rest hit
      rw [handleRunner_push_indep _ _ (s.cycles + 1) s.cycles]
    · rfl
  have hc := controlCycle_idle { s with cycles := s.cycles + 1, fu := bumpFu s.fu 1 } hcu'
  have he := eusCycle_idle app s.eus.length 0 { s with cycles := s.cycles + 1, fu := bumpFu s.fu 1 } {} (by simp only [Nat.zero_add])
    (by intro j eu _ hg
        simp only [List.all_eq_true] at heu
        exact heu eu (List.mem_of_getElem? hg))
  have hw := wusCycle_idle { s with cycles := s.cycles + 1, fu := bumpFu s.fu 1, eus := s.eus.map (bumpEu 1) }
    (by simp only [List.all_eq_true] at hwu ⊢; exact hwu)
  have hne' : isEmpty { s with cycles := s.cycles + 1, fu := bumpFu s.fu 1, eus := s.eus.map (bumpEu 1), wus := s.wus.map (bumpWu 1) } = false := by
    rw [← hne]
    simp only [isEmpty, areWriteUnitsEmpty, isEmpty_map_eu, isEmpty_map_wu, bumpFu_complete]
  simp only [List.take_zero, List.drop_zero, List.nil_append] at he
  unfold cycleM
  split
  · simp only [connect_idle _ _ b1, connect_idle _ _ b2, connect_idle _ _ b3, connect_idle _ _ b4, bind, Except.bind, hf, hd, hc, he, hw,
      hne', Bool.false_eq_true, if_false, pure, Except.pure]
    simp only [bump, hm, Int.natCast_one]
  all_goals (rename_i hh; rw [hm] at hh; cases hh)

theorem bumpEu_empty (eu : ExecUnit) (k : Nat) (h : eu.isEmpty = true) : bumpEu k eu = eu := by
  simp only [ExecUnit.isEmpty, beq_iff_eq] at h
  simp only [bumpEu, h]

theorem eusCycleBusy_idle (app : App) : ∀ (n i : Nat) (s : State), i + n = s.eus.length →
    (∀ j eu, i ≤ j → s.eus[j]? = some eu → (eu.isEmpty || euIdle s eu) = true) →
    eusCycleBusy app n i s = .ok ({ s with eus := s.eus.take i ++ (s.eus.drop i).map (bumpEu 1) }, false) := by
  intro n
  induction n with
  | zero =>
    intro i s hlen _
    have hi : i = s.eus.length := by omega
    simp only [eusCycleBusy, pure, Except.pure, hi, List.take_length, List.drop_length, List.map_nil, List.append_nil]
  | succ n ih =>
    intro i s hlen hidle
    obtain ⟨eu, hget⟩ := get_lt s.eus i (by omega)
    have hi := hidle i eu (Nat.le_refl _) hget
    simp only [eusCycleBusy, hget]
    by_cases he : eu.isEmpty = true
    · simp only [he, if_true]
      rw [ih (i + 1) s (by omega) (fun j e hj hg => hidle j e (by omega) hg)]
      have := take_set_map (bumpEu 1) s.eus i eu hget
      rw [bumpEu_empty eu 1 he, set_self _ _ _ hget] at this
      rw [this]
    · simp only [he, Bool.false_or] at hi
      have h1 := euCycle_idle app s i eu hget hi
      simp only [he, Bool.false_eq_true, if_false, bind, Except.bind, h1]
      have hlen' : (i + 1) + n = (setEu s i (bumpEu 1 eu)).eus.length := by simp only [setEu, List.length_set]; omega
      have hidle' : ∀ j e, i + 1 ≤ j → (setEu s i (bumpEu 1 eu)).eus[j]? = some e →
          (e.isEmpty || euIdle (setEu s i (bumpEu 1 eu)) e) = true := by
        intro j e hj hg
        simp only [setEu] at hg
        rw [List.getElem?_set_ne (by omega)] at hg
        exact hidle j e (by omega) hg
      rw [ih (i + 1) _ hlen' hidle']
      simp only [setEu, take_set_map (bumpEu 1) s.eus i eu hget]

theorem any_map_eu (l : List ExecUnit) (k : Nat) :
    (l.map (bumpEu k)).any (fun eu => !eu.isEmpty) = l.any (fun eu => !eu.isEmpty) := by
  simp only [List.any_map]
  congr 1
  funext eu
  simp only [Function.comp, ExecUnit.isEmpty, bumpEu]
  cases hco : eu.co <;> simp only [hco] <;> rfl

theorem tick_retA (app : App) (s : State) (hm : s.mode = .retA) (h : idleRetA s = true) :
    cycleM app s = .ok (bump s 1, .running) := by
  simp only [idleRetA, Bool.and_eq_true] at h
  obtain ⟨⟨⟨b4, heu⟩, hwu⟩, hany⟩ := h
  have he := eusCycleBusy_idle app s.eus.length 0 { s with cycles := s.cycles + 1 } (by simp only [Nat.zero_add])
    (by intro j eu _ hg
        simp only [List.all_eq_true] at heu
        exact heu eu (List.mem_of_getElem? hg))
  simp only [List.take_zero, List.drop_zero, List.nil_append] at he
  have hw := wusCycle_idle { s with cycles := s.cycles + 1, eus := s.eus.map (bumpEu 1) }
    (by simp only [List.all_eq_true] at hwu ⊢; exact hwu)
  unfold cycleM
  split
  · rename_i hh; rw [hm] at hh; cases hh
  · simp only [connect_idle _ _ b4, bind, Except.bind, he, hw, Bool.false_eq_true, if_false, goRetA, any_map_eu, hany, if_true,
      pure, Except.pure]
    simp only [bump, hm, Int.natCast_one]
  all_goals (rename_i hh; rw [hm] at hh; cases hh)

theorem tick_retB (app : App) (s : State) (hm : s.mode = .retB) (h : idleRetB s = true) :
    cycleM app s = .ok (bump s 1, .running) := by
  simp only [idleRetB, Bool.and_eq_true] at h
  obtain ⟨⟨b4, hwu⟩, hgo⟩ := h
  have hw := wusCycle_idle s hwu
  have hgo' : (!areWriteUnitsEmpty { s with wus := s.wus.map (bumpWu 1), cycles := s.cycles + 1 } || !s.writeBus.isEmpty) = true := by
    rw [← hgo]
    simp only [areWriteUnitsEmpty, isEmpty_map_wu]
  unfold cycleM
  split
  · rename_i hh; rw [hm] at hh; cases hh
  · rename_i hh; rw [hm] at hh; cases hh
  · simp only [bind, Except.bind, hw, connect_idle _ _ b4, goRetB, hgo', if_true, pure, Except.pure]
    simp only [bump, hm, Int.natCast_one]
  · rename_i hh; rw [hm] at hh; cases hh

theorem tick_flushW (app : App) (s : State) (i : Nat) (from_ pc : Word) (hm : s.mode = .flushW i from_ pc)
    (h : idleFlushW s i = true) : cycleM app s = .ok (bump s 1, .running) := by
  simp only [idleFlushW, Bool.and_eq_true] at h
  obtain ⟨b4, h⟩ := h
  cases hget : s.wus[i]? with
  | none => simp only [hget] at h; cases h
  | some wu =>
    simp only [hget] at h
    cases hco : wu.co with
    | none => simp only [hco] at h; cases h
    | wait rem =>
      simp only [hco] at h
      have hidle : wuIdle { s with cycles := s.cycles + 1 } wu = true := by simp only [wuIdle, hco, h]
      have hw := wuCycle_idle { s with cycles := s.cycles + 1 } i wu from_ hget hidle
      have hlt : i < s.wus.length := by
        rcases Nat.lt_or_ge i s.wus.length with hlt | hge
        · exact hlt
        · rw [List.getElem?_eq_none hge] at hget; cases hget
      obtain ⟨n, hn⟩ : ∃ n, s.wus.length - i = n + 1 := ⟨s.wus.length - i - 1, by omega⟩
      unfold cycleM
      split
      · rename_i hh; rw [hm] at hh; cases hh
      · rename_i hh; rw [hm] at hh; cases hh
      · rename_i hh; rw [hm] at hh; cases hh
      · rename_i i' f' p' hh
        rw [hm] at hh
        simp only [Mode.flushW.injEq] at hh
        obtain ⟨rfl, rfl, rfl⟩ := hh
        simp only [connect_idle _ _ b4, bind, Except.bind, hw, pure, Except.pure, setWu, List.length_set, hn, goFlush,
          List.getElem?_set_self hlt, WriteUnit.isEmpty, bumpWu, hco]
        simp only [bump, hm, hget, bumpWu, hco, Int.natCast_one]
        rfl

/-- **one tick of an idle machine only counts down** -/
theorem tick_idle (app : App) (s : State) (h : idle s = true) : cycle app s = (bump s 1, .running) := by
  unfold idle at h
  unfold cycle
  cases hm : s.mode with
  | normal => rw [hm] at h; rw [tick_normal app s hm h]
  | retA => rw [hm] at h; rw [tick_retA app s hm h]
  | retB => rw [hm] at h; rw [tick_retB app s hm h]
  | flushW i f p => rw [hm] at h; rw [tick_flushW app s i f p hm h]

/-! ### the next state is idle again while the counters stay positive -/

theorem bumpFu_clean (fu : FetchUnit) (k : Nat) : (bumpFu fu k).toCleanPending = fu.toCleanPending := by
  simp only [bumpFu]; cases fu.co <;> rfl

theorem euIdle_bump (s s' : State) (eu : ExecUnit)
    (h1 : s'.executeBus = s.executeBus) (h2 : s'.writeBus = s.writeBus) (h3 : s'.bu = s.bu) (h4 : s'.ctx = s.ctx)
    (h5 : s'.mmu = s.mmu) (h6 : s'.pendings = s.pendings)
    (h : euIdle s eu = true)
    (hc : ∀ rem, eu.co = .l3wait rem → 2 ≤ rem) (hc' : ∀ rem a, eu.co = .memwait rem a → 2 ≤ rem) :
    euIdle s' (bumpEu 1 eu) = true := by
  unfold euIdle at h ⊢
  cases hco : eu.co with
  | none => simp only [hco] at h; simp only [bumpEu, hco, h1, h]
  | prepare =>
    simp only [hco] at h
    simp only [bumpEu, hco]
    cases hr : eu.runner with
    | none => simp only [hr] at h; cases h
    | some r =>
      simp only [hr] at h ⊢
      simp only [prepStuck, h2, h3, h4, h5, h6] at h ⊢
      exact h
  | l3wait rem =>
    have := hc rem hco
    simp only [bumpEu, hco, decide_eq_true_eq, Int.natCast_one]; omega
  | memwait rem a =>
    have := hc' rem a hco
    simp only [bumpEu, hco, decide_eq_true_eq, Int.natCast_one]; omega

theorem wuIdle_bump (s s' : State) (wu : WriteUnit) (h2 : s'.writeBus = s.writeBus) (h : wuIdle s wu = true)
    (hc : ∀ rem, wu.co = .wait rem → 2 ≤ rem) : wuIdle s' (bumpWu 1 wu) = true := by
  unfold wuIdle at h ⊢
  cases hco : wu.co with
  | none => simp only [hco] at h; simp only [bumpWu, hco, h2, h]
  | wait rem =>
    have := hc rem hco
    simp only [bumpWu, hco, decide_eq_true_eq, Int.natCast_one]; omega

theorem mem_euCounters (s : State) (eu : ExecUnit) (hmem : eu ∈ s.eus) :
    (∀ rem, eu.co = .l3wait rem → rem ∈ euCounters s) ∧ (∀ rem a, eu.co = .memwait rem a → rem ∈ euCounters s) := by
  constructor
  · intro rem h
    simp only [euCounters, List.mem_filterMap]
    exact ⟨eu, hmem, by simp only [h]⟩
  · intro rem a h
    simp only [euCounters, List.mem_filterMap]
    exact ⟨eu, hmem, by simp only [h]⟩

theorem mem_wuCounters (l : List WriteUnit) (wu : WriteUnit) (hmem : wu ∈ l) (rem : Int) (h : wu.co = .wait rem) :
    rem ∈ l.filterMap wuCounter := by
  simp only [List.mem_filterMap]
  exact ⟨wu, hmem, by simp only [wuCounter, h]⟩

theorem eus_idle_bump (s s' : State)
    (h1 : s'.executeBus = s.executeBus) (h2 : s'.writeBus = s.writeBus) (h3 : s'.bu = s.bu) (h4 : s'.ctx = s.ctx)
    (h5 : s'.mmu = s.mmu) (h6 : s'.pendings = s.pendings)
    (hc : ∀ c ∈ euCounters s, 2 ≤ c) (h : s.eus.all (fun eu => eu.isEmpty || euIdle s eu) = true) :
    (s.eus.map (bumpEu 1)).all (fun eu => eu.isEmpty || euIdle s' eu) = true := by
  simp only [List.all_map, List.all_eq_true, Function.comp, Bool.or_eq_true] at h ⊢
  intro eu hmem
  rcases h eu hmem with he | hi
  · left; rw [bumpEu_empty eu 1 he]; exact he
  · right
    obtain ⟨m1, m2⟩ := mem_euCounters s eu hmem
    exact euIdle_bump s s' eu h1 h2 h3 h4 h5 h6 hi (fun rem hr => hc rem (m1 rem hr)) (fun rem a hr => hc rem (m2 rem a hr))

theorem cuIdle_cycles (s s' : State) (h1 : s'.executeBus = s.executeBus) (h2 : s'.cuPendings = s.cuPendings)
    (h3 : s'.controlBus = s.controlBus) (h4 : s'.ctx = s.ctx) : cuIdle s' = cuIdle s := by
  simp only [cuIdle, blocked, h1, h2, h3, h4]
  split
  · rw [handleRunner_push_indep _ _ s'.cycles s.cycles]
  · rfl

theorem fuIdle_bump (s : State) (h : fuIdle s = true) (hc : ∀ c ∈ fuCounter s, 2 ≤ c) (fu' : FetchUnit)
    (hfu : fu' = bumpFu s.fu 1) (s' : State) (h1 : s'.fu = fu') (h2 : s'.decodeBus = s.decodeBus) : fuIdle s' = true := by
  subst hfu
  simp only [fuIdle, Bool.and_eq_true, Bool.not_eq_true'] at h ⊢
  rw [h1, h2, bumpFu_clean]
  refine ⟨h.1, ?_⟩
  have h' := h.2
  simp only [fuCounter] at hc
  cases hco : s.fu.co with
  | done => simp only [bumpFu, hco]
  | none => simp only [hco] at h'; simp only [bumpFu, hco, h']
  | wait =>
    simp only [hco, List.mem_singleton, forall_eq] at hc
    simp only [bumpFu, hco, decide_eq_true_eq, Int.natCast_one]; omega

theorem idle_bump_normal (s : State) (hm : s.mode = .normal) (h : idleNormal s = true) (hc : ∀ c ∈ counters s, 2 ≤ c) :
    idleNormal (bump s 1) = true := by
  have hb : bump s 1 = { s with cycles := s.cycles + 1, fu := bumpFu s.fu 1, eus := s.eus.map (bumpEu 1), wus := s.wus.map (bumpWu 1) } := by
    simp only [bump, hm, Int.natCast_one]
  rw [hb]
  simp only [idleNormal, Bool.and_eq_true, Bool.not_eq_true'] at h ⊢
  obtain ⟨⟨⟨⟨⟨⟨⟨⟨⟨b1, b2⟩, b3⟩, b4⟩, hfu⟩, hdu⟩, hcu⟩, heu⟩, hwu⟩, hne⟩ := h
  simp only [counters, hm, List.mem_append] at hc
  refine ⟨⟨⟨⟨⟨⟨⟨⟨⟨b1, b2⟩, b3⟩, b4⟩, ?_⟩, hdu⟩, ?_⟩, ?_⟩, ?_⟩, ?_⟩
  · exact fuIdle_bump s hfu (fun c hc' => hc c (Or.inl (Or.inl hc'))) _ rfl _ rfl rfl
  · have := cuIdle_cycles s { s with cycles := s.cycles + 1, fu := bumpFu s.fu 1, eus := s.eus.map (bumpEu 1), wus := s.wus.map (bumpWu 1) }
      rfl rfl rfl rfl
    exact this.trans hcu
  · simp only [List.all_map, List.all_eq_true, Function.comp] at heu ⊢
    intro eu hmem
    obtain ⟨m1, m2⟩ := mem_euCounters s eu hmem
    exact euIdle_bump s _ eu rfl rfl rfl rfl rfl rfl (heu eu hmem)
      (fun rem hr => hc rem (Or.inl (Or.inr (m1 rem hr)))) (fun rem a hr => hc rem (Or.inl (Or.inr (m2 rem a hr))))
  · simp only [List.all_map, List.all_eq_true, Function.comp] at hwu ⊢
    intro wu hmem
    exact wuIdle_bump s _ wu rfl (hwu wu hmem) (fun rem hr => hc rem (Or.inr (mem_wuCounters s.wus wu hmem rem hr)))
  · rw [← hne]
    simp only [isEmpty, areWriteUnitsEmpty, isEmpty_map_eu, isEmpty_map_wu, bumpFu_complete]

theorem idle_bump_retA (s : State) (hm : s.mode = .retA) (h : idleRetA s = true) (hc : ∀ c ∈ counters s, 2 ≤ c) :
    idleRetA (bump s 1) = true := by
  have hb : bump s 1 = { s with cycles := s.cycles + 1, eus := s.eus.map (bumpEu 1), wus := s.wus.map (bumpWu 1) } := by
    simp only [bump, hm, Int.natCast_one]
  rw [hb]
  simp only [idleRetA, Bool.and_eq_true] at h ⊢
  obtain ⟨⟨⟨b4, heu⟩, hwu⟩, hany⟩ := h
  simp only [counters, hm, List.mem_append] at hc
  refine ⟨⟨⟨b4, ?_⟩, ?_⟩, ?_⟩
  · exact eus_idle_bump s _ rfl rfl rfl rfl rfl rfl (fun c hc' => hc c (Or.inl hc')) heu
  · simp only [List.all_map, List.all_eq_true, Function.comp] at hwu ⊢
    intro wu hmem
    exact wuIdle_bump s _ wu rfl (hwu wu hmem) (fun rem hr => hc rem (Or.inr (mem_wuCounters s.wus wu hmem rem hr)))
  · rw [any_map_eu]; exact hany

theorem idle_bump_retB (s : State) (hm : s.mode = .retB) (h : idleRetB s = true) (hc : ∀ c ∈ counters s, 2 ≤ c) :
    idleRetB (bump s 1) = true := by
  have hb : bump s 1 = { s with cycles := s.cycles + 1, wus := s.wus.map (bumpWu 1) } := by
    simp only [bump, hm, Int.natCast_one]
  rw [hb]
  simp only [idleRetB, Bool.and_eq_true] at h ⊢
  obtain ⟨⟨b4, hwu⟩, hgo⟩ := h
  simp only [counters, hm] at hc
  refine ⟨⟨b4, ?_⟩, ?_⟩
  · simp only [List.all_map, List.all_eq_true, Function.comp] at hwu ⊢
    intro wu hmem
    exact wuIdle_bump s _ wu rfl (hwu wu hmem) (fun rem hr => hc rem (mem_wuCounters s.wus wu hmem rem hr))
  · rw [← hgo]; simp only [areWriteUnitsEmpty, isEmpty_map_wu]

theorem idle_bump_flushW (s : State) (i : Nat) (f p : Word) (hm : s.mode = .flushW i f p) (h : idleFlushW s i = true)
    (hc : ∀ c ∈ counters s, 2 ≤ c) : idleFlushW (bump s 1) i = true := by
  simp only [idleFlushW, Bool.and_eq_true] at h
  obtain ⟨b4, h⟩ := h
  cases hget : s.wus[i]? with
  | none => simp only [hget] at h; cases h
  | some wu =>
    simp only [hget] at h
    cases hco : wu.co with
    | none => simp only [hco] at h; cases h
    | wait rem =>
      have hlt : i < s.wus.length := by
        rcases Nat.lt_or_ge i s.wus.length with hlt | hge
        · exact hlt
        · rw [List.getElem?_eq_none hge] at hget; cases hget
      simp only [counters, hm, hget, Option.bind_some, wuCounter, hco, Option.toList_some, List.mem_singleton, forall_eq] at hc
      simp only [bump, hm, hget, idleFlushW, List.getElem?_set_self hlt, bumpWu, hco, Bool.and_eq_true, decide_eq_true_eq, Int.natCast_one]
      exact ⟨b4, by omega⟩

theorem bump_mode (s : State) (k : Nat) : (bump s k).mode = s.mode := by
  unfold bump
  split
  · rename_i h; simp only [h]
  · rename_i h; simp only [h]
  · rename_i h; simp only [h]
  · rename_i h; split <;> simp only [h]

/-- an idle state whose running counters are all at least 2 is idle after one tick -/
theorem idle_bump (s : State) (h : idle s = true) (hc : ∀ c ∈ counters s, 2 ≤ c) : idle (bump s 1) = true := by
  unfold idle at h ⊢
  rw [bump_mode]
  cases hm : s.mode with
  | normal => rw [hm] at h; exact idle_bump_normal s hm h hc
  | retA => rw [hm] at h; exact idle_bump_retA s hm h hc
  | retB => rw [hm] at h; exact idle_bump_retB s hm h hc
  | flushW i f p => rw [hm] at h; exact idle_bump_flushW s i f p hm h hc

/-! ### the counters after one tick, and bumps compose -/

theorem sub_sub_cast (rem : Int) (j : Nat) : rem - ((1 : Nat) : Int) - (j : Int) = rem - ((j + 1 : Nat) : Int) := by
  simp only [Int.natCast_add, Int.natCast_one]; omega

theorem bumpEu_bumpEu (eu : ExecUnit) (j : Nat) : bumpEu j (bumpEu 1 eu) = bumpEu (j + 1) eu := by
  cases hco : eu.co <;> simp only [bumpEu, hco, sub_sub_cast]

theorem bumpWu_bumpWu (wu : WriteUnit) (j : Nat) : bumpWu j (bumpWu 1 wu) = bumpWu (j + 1) wu := by
  cases hco : wu.co <;> simp only [bumpWu, hco, sub_sub_cast]

theorem bumpFu_bumpFu (fu : FetchUnit) (j : Nat) : bumpFu (bumpFu fu 1) j = bumpFu fu (j + 1) := by
  cases hco : fu.co <;> simp only [bumpFu, hco, sub_sub_cast]

theorem cyc_cast (c : Int) (j : Nat) : c + ((1 : Nat) : Int) + (j : Int) = c + ((j + 1 : Nat) : Int) := by
  simp only [Int.natCast_add, Int.natCast_one]; omega

theorem bump_bump (s : State) (j : Nat) : bump (bump s 1) j = bump s (j + 1) := by
  cases hm : s.mode with
  | normal =>
    simp only [bump, hm, List.map_map, bumpFu_bumpFu, cyc_cast]
    congr 2 <;> funext x <;> simp only [Function.comp, bumpEu_bumpEu, bumpWu_bumpWu]
  | retA =>
    simp only [bump, hm, List.map_map, cyc_cast]
    congr 2 <;> funext x <;> simp only [Function.comp, bumpEu_bumpEu, bumpWu_bumpWu]
  | retB =>
    simp only [bump, hm, List.map_map, cyc_cast]
    congr 2; funext x; simp only [Function.comp, bumpWu_bumpWu]
  | flushW i f p =>
    cases hget : s.wus[i]? with
    | none =>
      simp only [bump, hm, hget, cyc_cast]
    | some wu =>
      have hlt : i < s.wus.length := by
        rcases Nat.lt_or_ge i s.wus.length with hlt | hge
        · exact hlt
        · rw [List.getElem?_eq_none hge] at hget; cases hget
      simp only [bump, hm, hget, List.getElem?_set_self hlt, List.set_set, bumpWu_bumpWu, cyc_cast]

theorem bump_zero (s : State) : bump s 0 = s := by
  have e1 : ∀ eu : ExecUnit, bumpEu 0 eu = eu := by
    intro eu; cases hco : eu.co <;> simp only [bumpEu, hco, Int.natCast_zero, Int.sub_zero] <;> (cases eu; simp only at hco; subst hco; rfl)
  have e2 : ∀ wu : WriteUnit, bumpWu 0 wu = wu := by
    intro wu; cases hco : wu.co <;> simp only [bumpWu, hco, Int.natCast_zero, Int.sub_zero] <;> (cases wu; simp only at hco; subst hco; rfl)
  have e3 : ∀ fu : FetchUnit, bumpFu fu 0 = fu := by
    intro fu; cases hco : fu.co <;> simp only [bumpFu, hco, Int.natCast_zero, Int.sub_zero] <;> (cases fu; simp only at hco; subst hco; rfl)
  have m1 : ∀ l : List ExecUnit, l.map (bumpEu 0) = l := by intro l; simp only [funext e1, List.map_id']
  have m2 : ∀ l : List WriteUnit, l.map (bumpWu 0) = l := by intro l; simp only [funext e2, List.map_id']
  cases hm : s.mode with
  | normal => simp only [bump, hm, e3, m1, m2, Int.natCast_zero, Int.add_zero]; cases s; simp only at hm; subst hm; rfl
  | retA => simp only [bump, hm, m1, m2, Int.natCast_zero, Int.add_zero]; cases s; simp only at hm; subst hm; rfl
  | retB => simp only [bump, hm, m2, Int.natCast_zero, Int.add_zero]; cases s; simp only at hm; subst hm; rfl
  | flushW i f p =>
    cases hget : s.wus[i]? with
    | none => simp only [bump, hm, hget, Int.natCast_zero, Int.add_zero]; cases s; simp only at hm; subst hm; rfl
    | some wu =>
      simp only [bump, hm, hget, e2, set_self _ _ _ hget, Int.natCast_zero, Int.add_zero]; cases s; simp only at hm; subst hm; rfl

theorem euCounters_map (s s' : State) (h : s'.eus = s.eus.map (bumpEu 1)) : euCounters s' = (euCounters s).map (· - 1) := by
  unfold euCounters
  rw [h]
  generalize s.eus = l
  induction l with
  | nil => rfl
  | cons eu l ih =>
    simp only [List.map_cons, List.filterMap_cons]
    cases hco : eu.co <;> simp only [bumpEu, hco, ih, List.map_cons, Int.natCast_one]

theorem fm_wu (l : List WriteUnit) : (l.map (bumpWu 1)).filterMap wuCounter = (l.filterMap wuCounter).map (· - 1) := by
  induction l with
  | nil => rfl
  | cons wu l ih =>
    simp only [List.map_cons, List.filterMap_cons]
    cases hco : wu.co <;> simp only [bumpWu, wuCounter, hco, ih, List.map_cons, Int.natCast_one]

theorem counters_bump (s : State) : counters (bump s 1) = (counters s).map (· - 1) := by
  cases hm : s.mode with
  | normal =>
    simp only [counters, bump, hm, fm_wu, List.map_append]
    rw [euCounters_map s _ rfl]
    congr 2
    simp only [fuCounter]
    cases hco : s.fu.co <;> simp only [bumpFu, hco, List.map_nil, List.map_cons, Int.natCast_one]
  | retA =>
    simp only [counters, bump, hm, fm_wu, List.map_append]
    rw [euCounters_map s _ rfl]
  | retB => simp only [counters, bump, hm, fm_wu]
  | flushW i f p =>
    cases hget : s.wus[i]? with
    | none =>
      simp only [counters, bump, hm, hget, Option.bind_none, Option.toList_none, List.map_nil]
    | some wu =>
      have hlt : i < s.wus.length := by
        rcases Nat.lt_or_ge i s.wus.length with hlt | hge
        · exact hlt
        · rw [List.getElem?_eq_none hge] at hget; cases hget
      simp only [counters, bump, hm, hget, List.getElem?_set_self hlt, Option.bind_some]
      cases hco : wu.co <;> simp only [bumpWu, wuCounter, hco, Option.toList_none, Option.toList_some, List.map_nil, List.map_cons, Int.natCast_one]

/-! ### skipping -/

theorem runFrom_skip (app : App) : ∀ (j f : Nat) (s : State) (n : Nat), idle s = true →
    (∀ c ∈ counters s, (j : Int) ≤ c) → runFrom app (j + f) s n = runFrom app f (bump s j) (n + j) := by
  intro j
  induction j with
  | zero => intro f s n _ _; simp only [Nat.zero_add, Nat.add_zero, bump_zero]
  | succ j ih =>
    intro f s n hid hc
    have e : j + 1 + f = (j + f) + 1 := by omega
    rw [e]
    simp only [runFrom, tick_idle app s hid]
    by_cases hj : j = 0
    · subst hj; simp only [Nat.zero_add]
    · have h2 : ∀ c ∈ counters s, 2 ≤ c := by
        intro c hmem
        have := hc c hmem
        simp only [Int.natCast_add, Int.natCast_one] at this
        omega
      have hc' : ∀ c ∈ counters (bump s 1), (j : Int) ≤ c := by
        intro c hmem
        rw [counters_bump] at hmem
        simp only [List.mem_map] at hmem
        obtain ⟨c', hm', rfl⟩ := hmem
        have := hc c' hm'
        simp only [Int.natCast_add, Int.natCast_one] at this
        omega
      rw [ih f (bump s 1) (n + 1) (idle_bump s hid h2) hc', bump_bump]
      have e2 : n + 1 + j = n + (j + 1) := by omega
      rw [e2]

theorem foldl_min_le : ∀ (cs : List Nat) (c x : Nat), x ∈ c :: cs → cs.foldl min c ≤ x := by
  intro cs
  induction cs with
  | nil => intro c x h; simp only [List.mem_singleton] at h; subst h; exact Nat.le_refl _
  | cons d cs ih =>
    intro c x h
    simp only [List.foldl_cons]
    simp only [List.mem_cons] at h
    rcases h with h | h | h
    · subst h
      exact Nat.le_trans (ih (min x d) (min x d) (List.mem_cons_self)) (Nat.min_le_left _ _)
    · subst h
      exact Nat.le_trans (ih (min c x) (min c x) (List.mem_cons_self)) (Nat.min_le_right _ _)
    · exact ih (min c d) x (List.mem_cons_of_mem _ h)

theorem skip_le (s : State) (limit : Nat) : skip s limit ≤ limit := by
  unfold skip
  split
  · exact Nat.le_refl _
  · exact Nat.min_le_left _ _

theorem skip_le_counter (s : State) (limit : Nat) (hk : skip s limit ≠ 0) : ∀ c ∈ counters s, ((skip s limit : Nat) : Int) ≤ c := by
  intro c hmem
  have hm : c.toNat ∈ (counters s).map Int.toNat := List.mem_map.mpr ⟨c, hmem, rfl⟩
  unfold skip at hk ⊢
  split at hk
  · rename_i heq; rw [heq] at hm; cases hm
  · rename_i d ds heq
    rw [heq] at hm
    have h1 := foldl_min_le ds d c.toNat hm
    have h2 : min limit (ds.foldl min d) ≤ c.toNat := Nat.le_trans (Nat.min_le_right _ _) h1
    have h3 : min limit (ds.foldl min d) ≠ 0 := hk
    omega

/-- **the fast run is the run** -/
theorem runFastFrom_eq (app : App) : ∀ (gas fuel : Nat) (s : State) (n : Nat),
    runFastFrom app gas fuel s n = runFrom app fuel s n := by
  intro gas
  induction gas with
  | zero => intro fuel s n; simp only [runFastFrom]
  | succ gas ih =>
    intro fuel s n
    cases fuel with
    | zero => simp only [runFastFrom, runFrom]
    | succ fuel =>
      simp only [runFastFrom]
      by_cases hid : idle s = true
      · simp only [hid, if_true]
        by_cases hk : skip s (fuel + 1) = 0
        · simp only [hk, if_true]
        · simp only [hk, if_false]
          rw [ih]
          have hle := skip_le s (fuel + 1)
          have := runFrom_skip app (skip s (fuel + 1)) (fuel + 1 - skip s (fuel + 1)) s n hid (skip_le_counter s (fuel + 1) hk)
          rw [← this]
          congr 1
          omega
      · simp only [hid, Bool.false_eq_true, if_false, runFrom]
        split
        · rename_i s' hc; rw [hc]; exact ih fuel s' (n + 1)
        · rename_i s' h hc; rw [hc]

theorem runFast_eq_run (app : App) (ctx : Model.Context) (eu wu fuel : Nat) :
    runFast app ctx eu wu fuel = run app ctx eu wu fuel := by
  unfold runFast run
  cases init ctx eu wu with
  | ok s => exact runFastFrom_eq app fuel fuel s 0
  | error e => rfl

/-! ### dead-locks are for ever -/

theorem runFrom_add (app : App) : ∀ (a b : Nat) (s : State) (n : Nat), (runFrom app a s n).halt = none →
    runFrom app (a + b) s n = runFrom app b (runFrom app a s n).final (runFrom app a s n).ticks := by
  intro a
  induction a with
  | zero => intro b s n _; simp only [Nat.zero_add, runFrom]
  | succ a ih =>
    intro b s n h
    have e : a + 1 + b = (a + b) + 1 := by omega
    rw [e]
    simp only [runFrom] at h ⊢
    split
    · rename_i s' hc
      rw [hc] at h
      exact ih b s' (n + 1) h
    · rename_i s' hh hc
      rw [hc] at h
      cases h

theorem run_add (app : App) (ctx : Model.Context) (eu wu a b : Nat) (h : (run app ctx eu wu a).halt = none) :
    run app ctx eu wu (a + b) = runFrom app b (run app ctx eu wu a).final (run app ctx eu wu a).ticks := by
  unfold run at h ⊢
  cases hi : init ctx eu wu with
  | ok s => rw [hi] at h; exact runFrom_add app a b s 0 h
  | error e => rw [hi] at h; cases h

/-- an idle machine without a running counter never halts -/
theorem idle_forever (app : App) (s : State) (n : Nat) (hid : idle s = true) (hc : counters s = []) (f : Nat) :
    (runFrom app f s n).halt = none := by
  have := runFrom_skip app f 0 s n hid (by intro c hm; rw [hc] at hm; cases hm)
  rw [Nat.add_zero] at this
  rw [this]
  rfl

/-- if after `a` ticks the machine has not halted and is idle with no counter running, it never halts -/
theorem deadlock_forever (app : App) (ctx : Model.Context) (eu wu a : Nat)
    (h : (run app ctx eu wu a).halt = none) (hid : idle (run app ctx eu wu a).final = true)
    (hc : counters (run app ctx eu wu a).final = []) (f : Nat) : (run app ctx eu wu (a + f)).halt = none := by
  rw [run_add app ctx eu wu a f h]
  exact idle_forever app _ _ hid hc f

end Proofs.Mvp60Fast
